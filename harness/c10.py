"""C10 -- the inverse Laplace transform inverts the forward transform and respects causality.

1. lake build Lcapy.Props.C10: `ilt_laplace` (forward transform of the synthesised time function = the
   partial-fraction expression, all data), `pf_check_sound` (verified checker), `conj_pair_combine`,
   `improper_deltas`, `delay_shift`, `make_guard`, `make_causal`, `causal_zero_before`, initial/final value
   identities; #print axioms audit.
2. On the real Lcapy, for rational functions built from chosen poles (proper/improper, real, complex-conjugate,
   repeated, at the origin, multiplicity <= 4) times delay factors, sums of such terms, and all combinations of the
   options causal/ac/dc/damped_sin/damping/zero_initial_conditions:
     * the (Q, R, P, O) data returned by `Ratfun.as_QRPO` (both methods) is run through the verified checker `pfCheck`;
     * correspondence: the Lean model of `ratfun`/`term`/`make` (synthesis from the checked data, conjugate-pair
       combination, delay shift, causal / t >= 0 bookkeeping) against Lcapy's result: value of the forward transform at
       a random rational point and the guard flag;
     * oracle (independent of the model): Lcapy's returned time function, canonicalised into the formal signal type,
       is transformed forward by the Lean specification `L` and must equal the input F(s) at the sample point
       (exp(-s T0) -> independent indeterminate w); causal => no t >= 0 condition and zero before t = 0;
       not causal with a unilateral part => the result carries the t >= 0 condition;
       `post_initial_value` / `final_value` against f(0+) / the step coefficients of the returned time function;
     * each input is inverted again after other inversions and with other option sets in between (cache keyed on options);
     * directed streams: second-order sections with damped_sin=True (model `dampedSin`, whose arithmetic tx_ilt GENERATES from
       `do_damped_sin`; theorems damped_sin_value1/2/3), improper functions with a chosen quotient (model `iltQsrc` following the
       generated flags of the polynomial-part loop; theorem improper_deltas_src), sums of three differently delayed terms
       (delay_sum); the effective `causal` is computed by the Lean model of Assumptions.merge (assumption_last_overrides);
     * residue methods: the Lean MODEL of `_find_residues_sub` (Model/ResidueSub.lean; theorem find_residues_sub_sound: the
       coefficients it computes are the partial-fraction coefficients for any multiplicities) against the real function, entry
       by entry; `_find_residues_ec` through the checker with cofactors built by the source's rule;
     * undefined-transform stage: s**n*V(s), V(s)/s, F(s)*V(s): a concrete v(t) = t^k e^{-at}/k! is put into Lcapy's answer, the
       derivatives / convolution integrals are evaluated, and the Lean `L` of the outcome must be F(s)*G(s) (theorems deriv_entry,
       deriv_entry_zic, convolution_entry); correspondence with the models `derivEntry`, `convEntry`/`convUpper`;
     * cache stage: for s**n times undefined transforms, products with undefined transforms, second-order and delayed
       rational functions and every option of the cache key, from a cleared cache `first options` then `second options` must
       give what `second options` gives on an empty cache (both orders); tx_ilt reads the option names and defaults that
       `key()` uses and that the class reads, theorems `ilt_key_complete`, `ilt_key_defaults_agree` (decide).
"""
import itertools
import os
import sys
import warnings

sys.path.insert(0, os.path.dirname(os.path.abspath(__file__)))
import common
from common import fstr, Fraction
import c09
from c09 import Sampler, gq, T0, G, G2
from translate import tx_ilt

warnings.filterwarnings('ignore')


def binom(n, k):
    r = 1
    for i in range(k):
        r = r * (n - i) // (i + 1)
    return r


def fact(n):
    r = 1
    for i in range(2, n + 1):
        r *= i
    return r


def rat_sqrt(v):
    """exact square root of a Fraction as a Gaussian rational (re, im), or None"""
    import math
    neg = v < 0
    v = -v if neg else v
    n, d = math.isqrt(v.numerator), math.isqrt(v.denominator)
    if n * n != v.numerator or d * d != v.denominator:
        return None
    r = Fraction(n, d)
    return (Fraction(0), r) if neg else (r, Fraction(0))


def omega1_of(A):
    """the damped frequency of a second-order denominator a0 + a1 s + a2 s^2 (input data, constant first):
    a square root of a0/a2 - (a1/(2 a2))^2 when it is a Gaussian rational"""
    if len(A) != 3 or any(a[1] != 0 for a in A) or A[2][0] == 0:
        return None
    a0, a1, a2 = A[0][0], A[1][0], A[2][0]
    return rat_sqrt(a0 / a2 - (a1 / (2 * a2)) ** 2)


class Canon:
    """SymPy time-domain expression (as returned by Lcapy) -> items of the formal signal type.
    Every number is a pair of Fractions (re, im)."""

    def __init__(self, S, tsym, smp):
        self.S, self.t, self.smp = S, tsym, smp

    def num(self, x):
        S = self.S
        x = S.expand(x)
        re, im = x.as_real_imag()
        if re.is_Rational and im.is_Rational:
            return Fraction(int(re.p), int(re.q)), Fraction(int(im.p), int(im.q))
        return None

    def const_value(self, c):
        """a t-free factor: rationals, I, exp(const), cos/sin(const) -> stand-ins"""
        S = self.S
        v = self.smp.value(c, S.Symbol('unused_s'), {})
        return v

    def lin(self, arg):
        """arg = a*t + b -> (a, b) as numbers or None"""
        S = self.S
        arg = S.expand(arg)
        if not arg.has(self.t):
            return (S.S.Zero, arg)
        p = S.Poly(arg, self.t)
        if p.degree() != 1:
            return None
        a, b = p.all_coeffs()
        return a, b

    def _fail(self, code, loc):
        self.why = 'items#%d f=%s term=%s' % (code, str(loc.get('f'))[:60], str(loc.get('term'))[:80])
        return None

    def items(self, e):
        """-> (items, guarded, all_regular_terms_stepped) or None if the shape is not understood"""
        S, t = self.S, self.t
        guarded = False
        if isinstance(e, S.Piecewise):
            if len(e.args) != 1:
                return self._fail(1, locals())
            ex, cond = e.args[0]
            if cond != (t >= 0):
                return self._fail(2, locals())
            e, guarded = ex, True
        if e.has(S.Piecewise) or e.has(S.Integral) or e.has(S.Sum) or e.has(S.Derivative):
            return self._fail(3, locals())
        # trigonometric / hyperbolic functions as exponentials (only these: a blanket rewrite(exp) would also turn
        # powers of complex numbers into polar form)
        e = e.replace(S.sin, lambda a: (S.exp(S.I * a) - S.exp(-S.I * a)) / (2 * S.I))
        e = e.replace(S.cos, lambda a: (S.exp(S.I * a) + S.exp(-S.I * a)) / 2)
        e = e.replace(S.sinh, lambda a: (S.exp(a) - S.exp(-a)) / 2)
        e = e.replace(S.cosh, lambda a: (S.exp(a) + S.exp(-a)) / 2)
        e = S.expand(e)
        out = []
        stepped = True
        for term in S.Add.make_args(e):
            C = (Fraction(1), Fraction(0))
            k = 0
            a_tot, b_tot = S.S.Zero, S.S.Zero
            steps = []
            delta = None
            for f in S.Mul.make_args(term):
                if not f.has(t):
                    v = self.const_value(f)
                    if v is None:
                        return self._fail(4, locals())
                    C = (C[0] * v[0] - C[1] * v[1], C[0] * v[1] + C[1] * v[0])
                elif f == t:
                    k += 1
                elif f.is_Pow and f.base == t and f.exp.is_Integer and f.exp > 0:
                    k += int(f.exp)
                elif isinstance(f, S.exp) or (f.is_Pow and f.base == S.E):
                    arg = f.args[0] if isinstance(f, S.exp) else f.exp
                    ab = self.lin(arg)
                    if ab is None:
                        return self._fail(5, locals())
                    a_tot += ab[0]
                    b_tot += ab[1]
                elif isinstance(f, S.Heaviside):
                    ab = self.lin(f.args[0])
                    if ab is None or ab[0] != 1:
                        return self._fail(6, locals())
                    steps.append(-ab[1])
                elif isinstance(f, S.DiracDelta):
                    ab = self.lin(f.args[0])
                    if ab is None or ab[0] != 1 or delta is not None:
                        return self._fail(7, locals())
                    delta = (-ab[1], int(f.args[1]) if len(f.args) > 1 else 0)
                else:
                    return self._fail(8, locals())
            if delta is not None:
                if k != 0 or a_tot != 0 or steps:
                    return self._fail(9, locals())
                d = self.num(delta[0])
                bb = self.const_value(S.exp(b_tot)) if b_tot != 0 else (Fraction(1), Fraction(0))
                if d is None or bb is None:
                    return self._fail(10, locals())
                c = (C[0] * bb[0] - C[1] * bb[1], C[0] * bb[1] + C[1] * bb[0])
                out.append('dl %s %d %s' % (gq(c), delta[1], gq(d)))
                continue
            if steps:
                dn = [self.num(x) for x in steps]
                if any(x is None or x[1] != 0 for x in dn):
                    return self._fail(11, locals())
                d = max(x[0] for x in dn)
            else:
                d = Fraction(0)
                stepped = False
            p = self.num(a_tot)
            if p is None:
                return self._fail(12, locals())
            # C * t^k * exp(a t + b) u(t-d) = C e^{b + a d} ((t-d)+d)^k e^{a (t-d)} u(t-d)
            q = S.expand(b_tot + a_tot * S.Rational(d.numerator, d.denominator))
            ev = self.const_value(S.exp(q)) if q != 0 else (Fraction(1), Fraction(0))
            if ev is None:
                return self._fail(13, locals())
            c0 = (C[0] * ev[0] - C[1] * ev[1], C[0] * ev[1] + C[1] * ev[0])
            for i in range(k + 1):
                if d == 0 and i != k:
                    continue
                m = binom(k, i) * d ** (k - i) * fact(i)
                out.append('ep %s %d %s %s' % (gq((c0[0] * m, c0[1] * m)), i, gq(p), fstr(d)))
        return out, guarded, stepped


# --------------------------------------------------------------------------- generator

def poly_mul(p, q):
    r = [(Fraction(0), Fraction(0))] * (len(p) + len(q) - 1)
    r = list(r)
    for i, a in enumerate(p):
        for j, b in enumerate(q):
            r[i + j] = (r[i + j][0] + a[0] * b[0] - a[1] * b[1], r[i + j][1] + a[0] * b[1] + a[1] * b[0])
    return r


class Gen:
    def __init__(self, rng):
        self.rng = rng

    def real_pole(self):
        return Fraction(self.rng.randint(-6, 2), self.rng.choice([1, 1, 2]))

    def pole_set(self):
        """[(pole (re, im), multiplicity)] with conjugates included; description tags"""
        rng = self.rng
        kind = rng.choice(['real', 'real', 'real2', 'complex', 'complex', 'repeated', 'repeated', 'origin', 'origin-rep',
                           'mixed', 'mixed', 'repeated-complex', 'high'])
        poles = []
        if kind == 'real':
            poles = [((self.real_pole(), Fraction(0)), 1)]
        elif kind == 'real2':
            poles = [((self.real_pole(), Fraction(0)), 1), ((self.real_pole(), Fraction(0)), 1)]
        elif kind == 'complex':
            a, b = self.real_pole(), Fraction(rng.randint(1, 5), rng.choice([1, 2]))
            poles = [((a, b), 1), ((a, -b), 1)]
            if rng.random() < 0.5:
                poles.append(((self.real_pole(), Fraction(0)), 1))
        elif kind == 'repeated':
            poles = [((self.real_pole(), Fraction(0)), rng.randint(2, 4))]
            if rng.random() < 0.5:
                poles.append(((self.real_pole(), Fraction(0)), 1))
        elif kind == 'origin':
            poles = [((Fraction(0), Fraction(0)), 1), ((self.real_pole(), Fraction(0)), rng.randint(1, 2))]
        elif kind == 'origin-rep':
            poles = [((Fraction(0), Fraction(0)), rng.randint(2, 3)), ((self.real_pole(), Fraction(0)), 1)]
        elif kind == 'mixed':
            a, b = self.real_pole(), Fraction(rng.randint(1, 4))
            poles = [((a, b), 1), ((a, -b), 1), ((self.real_pole(), Fraction(0)), rng.randint(1, 2)),
                     ((Fraction(0), Fraction(0)), 1)]
        elif kind == 'repeated-complex':
            a, b = Fraction(rng.randint(-3, 0)), Fraction(rng.randint(1, 3))
            poles = [((a, b), 2), ((a, -b), 2)]
        else:
            poles = [((self.real_pole(), Fraction(0)), 4), ((self.real_pole(), Fraction(0)), 2)]
        # merge equal poles
        merged = {}
        for p, m in poles:
            merged[p] = merged.get(p, 0) + m
        poles = [(p, min(m, 4)) for p, m in merged.items()]
        return kind, poles

    def ratfun(self):
        """-> dict with A, B coefficient lists (constant first, (re,im) pairs), text, tags"""
        kind, poles = self.pole_set()
        return self.build(kind, poles)

    def rcoef(self, nonzero=False):
        while True:
            c = Fraction(self.rng.randint(-5, 5), self.rng.choice([1, 1, 2]))
            if c != 0 or not nonzero:
                return c

    def build(self, kind, poles, B=None, lc=None, T=None, quotient=None, offset=None):
        """rational function from a pole list [(pole (re, im), multiplicity)]; numerator `B` (real coefficient list,
        constant first) random unless given; with `quotient` (list, constant first) B = quotient*A + random remainder"""
        rng = self.rng
        A = [(Fraction(1), Fraction(0))]
        for (p, m) in poles:
            for _ in range(m):
                A = poly_mul(A, [(-p[0], -p[1]), (Fraction(1), Fraction(0))])
        if lc is None:
            lc = Fraction(rng.choice([1, 1, 2, 3]), rng.choice([1, 1, 2]))
        A = [(a[0] * lc, a[1] * lc) for a in A]
        assert all(a[1] == 0 for a in A)
        degA = len(A) - 1
        if quotient is not None:
            M = [(self.rcoef(), Fraction(0)) for _ in range(degA)]
            QA = poly_mul([(q, Fraction(0)) for q in quotient], A)
            B = [(QA[i][0] + (M[i][0] if i < len(M) else 0), Fraction(0)) for i in range(len(QA))]
            proper = False
        elif B is not None:
            B = [(Fraction(b), Fraction(0)) for b in B]
            proper = len(B) - 1 < degA
        else:
            proper = rng.random() < 0.7
            degB = rng.randint(0, degA - 1) if proper else rng.randint(degA, degA + 2)
            B = [(Fraction(rng.randint(-5, 5), rng.choice([1, 1, 2])), Fraction(0)) for _ in range(degB + 1)]
            if B[-1][0] == 0:
                B[-1] = (Fraction(1), Fraction(0))
        degB = len(B) - 1
        if T is None:
            T = rng.choice([Fraction(0)] * 5 + [Fraction(1, 2), Fraction(1), Fraction(2)])

        def ptxt(c):
            return ' + '.join('(%s)*s**%d' % (a[0], i) for i, a in enumerate(c))
        txt = '(%s)/(%s)' % (ptxt(B), ptxt(A))
        rat_txt = txt
        if offset:
            # delay factor with a constant part in the exponent: exp(-T s + c) = e^c e^{-sT}  (c a multiple of the unit G)
            txt = 'exp(-(%s)*s + (%s))*%s' % (T, offset, txt)
        elif T != 0:
            txt = 'exp(-(%s)*s)*%s' % (T, txt)
        stable = all(p[0][0] < 0 or (p[0] == (0, 0) and p[1] == 1) for p in poles)
        rep_complex = any(p[0][1] != 0 and p[1] > 1 for p in poles)
        deg2_not_under = degA == 2 and all(p[0][1] == 0 for p in poles)
        deg2_via_num = degA < 2 and degB == 2          # Ratfun.degree == 2 although the denominator is first order
        return {'A': A, 'B': B, 'T': T, 'txt': txt, 'kind': kind, 'proper': proper, 'degA': degA, 'degB': degB,
                'repeated_complex': rep_complex, 'degree2_not_underdamped': deg2_not_under, 'degree2_via_numerator': deg2_via_num,
                'delayed': T != 0, 'stable_or_step': stable, 'maxmult': max(m for _, m in poles),
                'offset': Fraction(offset or 0), 'rat_txt': rat_txt}

    # ---- directed stream 1: second-order sections (every branch of `do_damped_sin` and its fall-backs)
    SECOND_ORDER_DEN = ['underdamped', 'underdamped', 'undamped', 'overdamped', 'critical', 'origin', 'unstable-complex']
    SECOND_ORDER_NUM = ['const', 'lin', 'lin-nodc', 'quad-full', 'quad-full', 'quad-nolin', 'quad-nodc', 'quad-pure']

    def second_order(self, den=None, num=None, T=None):
        """B/A with deg A = 2 and deg B <= 2: denominators underdamped (-a +- jb), undamped, overdamped (two real poles),
        critically damped, with a pole at the origin; numerators with every zero / non-zero pattern of (b0, b1, b2)"""
        rng = self.rng
        den = den or rng.choice(self.SECOND_ORDER_DEN)
        num = num or rng.choice(self.SECOND_ORDER_NUM)
        a = Fraction(rng.randint(1, 5), rng.choice([1, 2]))
        b = Fraction(rng.randint(1, 5), rng.choice([1, 2]))
        if den == 'underdamped':
            poles = [((-a, b), 1), ((-a, -b), 1)]
        elif den == 'unstable-complex':
            poles = [((a, b), 1), ((a, -b), 1)]
        elif den == 'undamped':
            poles = [((Fraction(0), b), 1), ((Fraction(0), -b), 1)]
        elif den == 'overdamped':
            poles = [((-a, Fraction(0)), 1), ((-a - b, Fraction(0)), 1)]
        elif den == 'critical':
            poles = [((-a, Fraction(0)), 2)]
        else:
            poles = [((Fraction(0), Fraction(0)), 1), ((-a, Fraction(0)), 1)]
        nz = lambda: self.rcoef(nonzero=True)
        B = {'const': [nz()], 'lin': [nz(), nz()], 'lin-nodc': [0, nz()], 'quad-full': [nz(), nz(), nz()],
             'quad-nolin': [nz(), 0, nz()], 'quad-nodc': [0, nz(), nz()], 'quad-pure': [0, 0, nz()]}[num]
        tm = self.build('second-order:%s:%s' % (den, num), poles, B=B, T=T)
        return tm

    # ---- directed stream 2: improper rational functions with a chosen quotient
    QUOTIENT_SHAPES = ['dense', 'gap', 'gap', 'gaps', 'trailing-zero', 'gap-then-trailing', 'constant', 'linear']

    def improper(self, shape=None, T=None):
        """B = Q*A + M with Q of degree <= 4 chosen with zero coefficients in every position pattern"""
        rng = self.rng
        shape = shape or rng.choice(self.QUOTIENT_SHAPES)
        nz = lambda: self.rcoef(nonzero=True)
        if shape == 'dense':
            Q = [nz() for _ in range(rng.randint(3, 5))]
        elif shape == 'gap':                     # one interior zero followed by non-zero lower coefficients
            n = rng.randint(3, 5)
            Q = [nz() for _ in range(n)]
            Q[rng.randint(1, n - 2)] = Fraction(0)
        elif shape == 'gaps':
            Q = [nz(), Fraction(0), nz(), Fraction(0), nz()][:rng.choice([3, 5])]
            if len(Q) == 3:
                Q = [nz(), Fraction(0), nz()]
        elif shape == 'trailing-zero':
            Q = [Fraction(0)] * rng.randint(1, 2) + [nz() for _ in range(rng.randint(1, 2))]
        elif shape == 'gap-then-trailing':
            Q = [Fraction(0), nz(), Fraction(0), nz()]
        elif shape == 'constant':
            Q = [nz()]
        else:
            Q = [rng.choice([Fraction(0), nz()]), nz()]
        kind, poles = self.pole_set()
        while kind in ('high', 'repeated-complex', 'mixed'):
            kind, poles = self.pole_set()
        return self.build('improper:%s:%s' % (shape, kind), poles, quotient=Q, T=T)


OPTION_AXES = [('causal', [False, True]), ('ac', [False, True]), ('dc', [False, True]),
               ('damped_sin', [True, False]), ('damping', [None, 'under', 'over', 'critical']),
               ('zero_initial_conditions', [True, False])]


def all_option_sets():
    names = [n for n, _ in OPTION_AXES]
    out = []
    for combo in itertools.product(*[v for _, v in OPTION_AXES]):
        o = dict(zip(names, combo))
        out.append(o)
    return out


def opts_kwargs(o):
    kw = {}
    for k, v in o.items():
        if k in ('causal', 'ac', 'dc') and not v:
            continue
        if k == 'damping' and v is None:
            continue
        kw[k] = v
    return kw


def run(chk, replay=None):
    text, info = tx_ilt.generate(common.REPO)
    gen_path = os.path.join(common.LEAN, 'Lcapy', 'Generated', 'ILTFlags.lean')
    # the C10 driver links the C09 model (Spec `L`, Driver/C09.lean), whose generated table must be current as well
    from translate import tx_laplace
    ltext, _linfo = tx_laplace.generate(common.REPO)
    lgen_path = os.path.join(common.LEAN, 'Lcapy', 'Generated', 'LaplaceTable.lean')
    with common.LakeLock():
        if not os.path.exists(gen_path) or open(gen_path).read() != text:
            with open(gen_path, 'w') as f:
                f.write(text)
        if not os.path.exists(lgen_path) or open(lgen_path).read() != ltext:
            with open(lgen_path, 'w') as f:
                f.write(ltext)
    chk.coverage['translator'] = {'status': 'ok' if not info['unparsed'] else 'partial', 'definitions': len(info['defs']),
                                  'unparsed': info['unparsed'], 'conjPartnerMustBeSimple': info['flag'],
                                  'keyOptions': info['keyOptions'], 'readOptions': info['readOptions'],
                                  'dampedSin': info['dampedSin'], 'qLoop': info['qLoop'], 'residueDivisor': info['residueDivisor'], 'make': info['make'], 'tlineEnd': info['tlineEnd']}
    broken = chk.lean(['Lcapy/Props/C10.lean', 'Lcapy/Props/C10b.lean', 'Lcapy/Props/C10c.lean', 'Lcapy/Props/C10d.lean', 'Lcapy/Props/NonVacuityC10.lean'],
                      helper_files=['Lcapy/Proofs/ResidueSub.lean', 'Lcapy/Model/ResidueSub.lean', 'Lcapy/Proofs/TLine.lean', 'Lcapy/Model/TLine.lean', 'Lcapy/Proofs/Laplace.lean', 'Lcapy/Proofs/LaplaceILT.lean', 'Lcapy/Proofs/LaplaceDS.lean', 'Lcapy/Spec/Signal.lean',
                                    'Lcapy/Model/ExpPoly.lean', 'Lcapy/Model/ILT.lean', 'Lcapy/Generated/ILTFlags.lean', 'Lcapy/Driver/C10.lean',
                                    'Lcapy/Driver/C09.lean'],
                      leanchecker=(chk.tier == 'thorough'))
    chk.coverage['trusted_base'] = chk.coverage['trusted_base'] + [
        'the harness canonicaliser c10.Canon (SymPy time-domain expression -> formal signal items: term splitting, '
        'cos/sin -> complex exponentials by SymPy rewrite(exp), re-centring of t^k at a delay)',
        'SymPy Poly.all_coeffs / Ratfun.poles when handing Lcapy\'s (Q,R,P,O) data and the pole hint to the verified checker '
        '(the hint is untrusted: every cofactor is re-multiplied by the checker)',
        'the multiplicative stand-in for exp/cos/sin of rational constants used when sampling (Driver/C09.lean mkE, c09.Sampler)']
    drv = chk.get_driver()
    rng = chk.rng
    quick = chk.tier == 'quick'
    import glob
    if not replay:
        for old in glob.glob(os.path.join(common.VERIF, 'replays', 'C10', '%d-*.json' % chk.seed)):
            os.unlink(old)

    import time
    import sympy as S
    import lcapy
    from lcapy import expr as lexpr, s as ls, t as lt
    from lcapy.ratfun import Ratfun
    from lcapy.inverse_laplace import inverse_laplace_transformer as ILTr
    ssym, tsym = ls.sympy, lt.sympy

    n_funcs = 45 if quick else 380
    n_opts = 4 if quick else 10
    gen = Gen(rng)
    OPTS = all_option_sets()
    chk.coverage['rule'] = ('each case = (F(s), option set): F = B/A with A built from chosen poles (real, origin, complex-conjugate pairs over the '
                            'Gaussian rationals, repeated up to multiplicity 4; proper in 70% of draws, else improper by up to 2 degrees) times '
                            'exp(-sT), T in {0, 1/2, 1, 2}; one sum of two such terms in every fourth input; option sets drawn from all 128 '
                            'combinations of causal/ac/dc/damped_sin/damping/zero_initial_conditions (the default set and causal=True always '
                            'included); directed stream 1: second-order sections (under/over/critically damped, undamped, origin pole) with '
                            'numerators of degree 0..2 in every zero pattern, inverted with damped_sin=True x causal x damping; directed '
                            'stream 2: improper B = Q*A + M with a chosen quotient Q of degree <= 4 (dense / interior zero coefficients / '
                            'trailing zeros); non-trivial = Lcapy returned a closed form that the canonicaliser understood; distinct by (F, options)')
    disagreements = []
    counterexamples = [0]

    def coeffs(poly_expr):
        p = S.Poly(S.expand(poly_expr), ssym)
        cs = list(reversed(p.all_coeffs()))
        out = []
        for c in cs:
            re, im = S.expand(c).as_real_imag()
            if not (re.is_Rational and im.is_Rational):
                return None
            out.append((Fraction(int(re.p), int(re.q)), Fraction(int(im.p), int(im.q))))
        return out

    def numtok(x):
        re, im = S.expand(S.simplify(x)).as_real_imag()
        re, im = S.nsimplify(re), S.nsimplify(im)
        if not (re.is_Rational and im.is_Rational):
            return None
        return gq((Fraction(int(re.p), int(re.q)), Fraction(int(im.p), int(im.q))))

    def qrpo_tokens(Fs, damping, method):
        """Lcapy's as_QRPO for one term -> (B, A, Q, RPO tokens, pole tokens, delay) or None"""
        rf = Ratfun(Fs, ssym)
        Q, R, P, O, delay, undef = rf.as_QRPO(damping, method)
        Bc, Ac = coeffs(rf.B), coeffs(rf.A)
        Qc = coeffs(Q) if Q != 0 else []
        if Bc is None or Ac is None or Qc is None:
            return None
        rpo = []
        for r, p, o in zip(R, P, O):
            rt, pt = numtok(r), numtok(p)
            if rt is None or pt is None:
                return None
            rpo += [rt, pt, str(int(o))]
        _, M, A2, _, _ = rf.as_QMA()
        poles = []
        for root in Ratfun(M / A2, ssym).poles():
            pt = numtok(root.expr)
            if pt is None:
                return None
            poles += [pt, str(int(root.n))]
        d = numtok(delay)
        return {'B': ' '.join(gq(c) for c in Bc), 'A': ' '.join(gq(c) for c in Ac), 'Q': ' '.join(gq(c) for c in Qc),
                'RPO': ' '.join(rpo), 'poles': ' '.join(poles), 'T': d}

    def residue_methods(Fs, tmtxt, keybase):
        """correspondence of the MODEL of `_find_residues_sub` (Model/ResidueSub.lean, theorem find_residues_sub_sound)
        with the real function on the arguments `as_QRPO` hands to it, entry by entry in the code's order; the solution of
        `_find_residues_ec` through the checker with the cofactors built by the source's rule (model `ecCofactors`)"""
        try:
            rf = Ratfun(Fs, ssym)
            Q, M, A, delay, undef = rf.as_QMA()
            sexpr = Ratfun(M / A, ssym)
            poles = sexpr.poles()
            if len(poles) == 0 or (len(poles) == 1 and poles[0].n == 1):
                chk.count('residue-model', 'not-reached(single simple pole / polynomial)')
                return
            B = sexpr.B
            B /= sexpr.Apoly().LC()
            Bc = coeffs(B)
            ptoks = []
            for pl in poles:
                pt = numtok(pl.expr)
                if pt is None:
                    Bc = None
                    break
                ptoks += [pt, str(int(pl.n))]
            if Bc is None:
                chk.count('residue-model', 'not-gaussian-rational')
                return
            Rs, Ps, Os = rf._find_residues_sub(poles, B)
            Re, Pe, Oe = rf._find_residues_ec(poles, B)
        except Exception as ex:   # noqa
            chk.count('degenerate', 'residue-method-error:' + type(ex).__name__)
            return
        btxt, ptxt = ' '.join(gq(c) for c in Bc), ' '.join(ptoks)
        rep = drv.ask1('res.sub ; %s ; %s' % (btxt, ptxt))
        hyp, _, mtoks = rep.partition(' | ')
        real = []
        for r, p_, o in zip(Rs, Ps, Os):
            real += [numtok(r), numtok(p_), str(int(o))]
        chk.count('residue-model', 'sub:' + hyp)
        chk.case(('residue-sub', tmtxt), True)
        if None not in real:
            chk.coverage['correspondence']['compared'] += 1
            if mtoks.split(' ') != real and not (mtoks == '' and real == []):
                chk.coverage['correspondence']['disagreements'] += 1
                disagreements.append({'F': tmtxt, 'what': '_find_residues_sub', 'B': btxt, 'poles': ptxt, 'lcapy': ' '.join(real), 'model': mtoks})
        rtoks = [numtok(r) for r in Re]
        if None not in rtoks:
            ok = drv.ask1('res.ec ; %s ; %s ; %s' % (btxt, ptxt, ' '.join(rtoks)))
            chk.count('residue-model', 'ec:' + ok)
            if ok != 'true':
                counterexamples[0] += 1
                chk.counterexample(dict(keybase, what='find_residues_ec'),
                                   {'input': {'F': tmtxt, 'B': btxt, 'poles': ptxt}, 'lcapy': {'R': rtoks, 'P': [str(x) for x in Pe], 'O': [int(x) for x in Oe]},
                                    'spec': 'B = sum r_i * cof_i with cof_i * (s - p_i)^o_i = prod (s - p)^n (pfCheck with the cofactors of the '
                                            'source rule; theorem pf_check_sound)'},
                                   'Ratfun._find_residues_ec returned residues that do not reconstruct the expression')

    def one_input(terms, idx, forced_opts=None, option_sets=None, outer=None):
        """terms: list of generated ratfun dicts (a sum)"""
        smp = Sampler(rng, S)
        txt = ' + '.join(tm['txt'] for tm in terms)
        if outer is not None:
            # the same sum written with a common delay factored out: exp(-T s) * (F1 + exp(-T1 s) F2 + ...); the terms
            # carry their TOTAL delays, `outer` = (T, [inner delays])
            To, inner = outer
            txt = 'exp(-(%s)*s)*(%s)' % (To, ' + '.join(('exp(-(%s)*s)*%s' % (Ti, tm['rat_txt'])) if Ti != 0 else tm['rat_txt']
                                                         for Ti, tm in zip(inner, terms)))
        outer_rec = None if outer is None else [fstr(outer[0]), [fstr(x) for x in outer[1]]]

        def report(key, rp, what):
            # finding C10-F24 (outer delay of a factored sum dropped by `term`), reported to the coordinator: until
            # known-findings.json has an entry with this id (status known -> KNOWN-FINDING, status fixed -> VIOLATION on
            # regression) failing cases of that region are counted, not alarmed
            if key.get('outer_delay_factored') and not any(f.get('id') == 'C10-F24' for f in chk.findings):
                chk.count('pending-finding', 'C10-F24 outer delay of a factored sum is not applied (%s)' % key.get('what'))
                return
            counterexamples[0] += 1
            chk.counterexample(key, rp, what)
        tags = '+'.join(tm['kind'] for tm in terms)
        chk.count('pole-kind', tags)
        chk.count('proper', '/'.join('proper' if tm['proper'] else 'improper' for tm in terms))
        chk.count('delay', '/'.join('delayed' if tm['delayed'] else 'none' for tm in terms))
        chk.count('max-multiplicity', str(max(tm['maxmult'] for tm in terms)))
        try:
            X = lexpr(txt)
        except Exception as ex:   # noqa
            chk.count('degenerate', 'lcapy-parse:' + type(ex).__name__)
            return
        rec_terms = [{'A': [gq(c) for c in tm['A']], 'B': [gq(c) for c in tm['B']], 'T': fstr(tm['T']), 'txt': tm['txt'],
                      'kind': tm['kind'], 'proper': tm['proper'], 'delayed': tm['delayed'], 'maxmult': tm['maxmult'],
                      'stable_or_step': tm['stable_or_step'], 'repeated_complex': tm['repeated_complex'],
                      'degree2_not_underdamped': tm['degree2_not_underdamped'],
                      'degree2_via_numerator': tm.get('degree2_via_numerator', False),
                      'offset': fstr(tm.get('offset', Fraction(0))), 'rat_txt': tm.get('rat_txt', '')} for tm in terms]
        keybase = {'kind': tags, 'proper': all(tm['proper'] for tm in terms), 'delayed': any(tm['delayed'] for tm in terms),
                   'terms': len(terms), 'repeated_complex': any(tm['repeated_complex'] for tm in terms),
                   'degree2_not_underdamped': any(tm['degree2_not_underdamped'] for tm in terms),
                   'degree2_via_numerator': any(tm.get('degree2_via_numerator', False) for tm in terms),
                   'exponent_offset': any(tm.get('offset', 0) != 0 for tm in terms), 'outer_delay_factored': outer is not None}
        # ---- (a) the QRPO data of the real code through the verified checker (both residue methods)
        term_exprs = [lexpr(tm['txt']).sympy for tm in terms]
        qr = []
        for tm, Fs in zip(terms, term_exprs):
            residue_methods(Fs, tm['txt'], keybase)
            for method in ('sub', 'ec'):
                try:
                    d = qrpo_tokens(Fs, None, method)
                except Exception as ex:   # noqa
                    chk.count('degenerate', 'as_QRPO-error:' + type(ex).__name__)
                    d = None
                if d is None:
                    chk.count('qrpo', 'not-gaussian-rational')
                    if method == 'sub':
                        qr.append(None)
                    continue
                ok = drv.ask1('pf.check ; %s ; %s ; %s ; %s ; %s' % (d['B'], d['A'], d['Q'], d['RPO'], d['poles']))
                chk.count('qrpo', method + ':' + ok)
                chk.case(('qrpo', tm['txt'], method), ok == 'true')
                if ok != 'true':
                    counterexamples[0] += 1
                    chk.counterexample(dict(keybase, what='as_QRPO', method=method),
                                       {'input': {'F': tm['txt'], 'method': method}, 'lcapy': d,
                                        'spec': 'B/A = Q + sum r/(s-p)^o (pfCheck, theorem pf_check_sound)'},
                                       'Ratfun.as_QRPO returned partial-fraction data that does not reconstruct the expression')
                if method == 'sub':
                    qr.append(d)
        # input value at the sample point (Lean evaluates B/A and the delay factor)
        want = [Fraction(0), Fraction(0)]
        want_ok = True
        for tm in terms:
            r = drv.ask1('rat.eval %s %s ; %s ; %s' % (smp.env_tokens(), fstr(tm['T']), ' '.join(gq(c) for c in tm['B']),
                                                       ' '.join(gq(c) for c in tm['A'])))
            v = c09.parse_val(r)
            if v is None:
                want_ok = False
            else:
                # e^c for the constant part of the exponent: the sampler's stand-in v^(c/G)
                ec = smp.v ** int(tm.get('offset', Fraction(0)) / G)
                want[0] += v[0] * ec
                want[1] += v[1] * ec
        if not want_ok:
            chk.count('degenerate', 'sample-hits-pole')
            return
        want = tuple(want)
        # ---- (b) option sets
        chosen = [OPTS[0], dict(OPTS[0], causal=True)] + rng.sample(OPTS, n_opts)
        if option_sets is not None:
            # ({} = the plain partial-fraction route: damped_sin off unless the set asks for it)
            chosen = [dict(dict(OPTS[0], damped_sin=False), **o) for o in option_sets]
        if forced_opts is not None:
            chosen = [dict(OPTS[0], **forced_opts)] + chosen[:2]
        first = None
        results = {}
        for oi, o in enumerate(chosen + [chosen[0]]):
            kw = opts_kwargs(o)
            okey = tuple(sorted((k, str(v)) for k, v in kw.items()))
            canon_key = (txt, okey)
            chk.count('options', ','.join('%s=%s' % kv for kv in okey) or 'default')
            try:
                res = X.inverse_laplace(**kw).sympy
            except Exception as ex:   # noqa
                chk.case(canon_key, False)
                chk.count('degenerate', 'lcapy-error:' + type(ex).__name__)
                continue
            if res.has(S.nan) or res.has(S.zoo):
                chk.case(canon_key, True)
                counterexamples[0] += 1
                chk.counterexample(dict(keybase, options=dict(kw), damped_sin=bool(kw.get('damped_sin', False)), what='roundtrip'),
                                   {'input': {'terms': rec_terms, 'F': txt, 'outer': outer_rec, 'options': kw}, 'lcapy': str(res)[:300],
                                    'spec': 'a returned closed form must be a time function whose forward transform is the input'},
                                   'inverse transform returned nan / zoo')
                continue
            cnv = Canon(S, tsym, smp)
            cn = cnv.items(res)
            if cn is None:
                chk.case(canon_key, False)
                chk.count('degenerate', 'result-shape-not-canonicalised')
                if len(chk.coverage['correspondence']['diagnostics']) < 8:
                    chk.coverage['correspondence']['diagnostics'].append('not canonicalised (%s): %s %s -> %s' % (getattr(cnv, 'why', '?'), txt, kw, str(res)[:200]))
                continue
            items, guarded, stepped = cn
            chk.case(canon_key, True)
            if okey in results and results[okey] != (sorted(items), guarded):
                counterexamples[0] += 1
                chk.counterexample(dict(keybase, what='cache'),
                                   {'input': {'terms': rec_terms, 'F': txt, 'outer': outer_rec, 'options': kw}, 'lcapy': [str(results[okey]), str((sorted(items), guarded))],
                                    'spec': 'same input and options => same result, whatever was inverted in between'},
                                   'inverse transform depends on the history of calls')
            results[okey] = (sorted(items), guarded)
            if idx < 3 and oi < 2:
                chk.sample({'F': txt, 'outer': outer_rec, 'options': kw, 'result': str(res)[:200], 'items': items, 'guarded': guarded})
            has_regular = any(it.startswith('ep') for it in items)
            # oracle 1: forward transform of the returned function = input
            got = c09.parse_val(drv.ask1('sig.L %s ; %s' % (smp.env_tokens(), ' '.join(items))))
            key = dict(keybase, options=dict(kw), damped_sin=bool(kw.get('damped_sin', False)))
            if got is None:
                chk.count('degenerate', 'sig.L-undefined')
            elif got != want:
                report(dict(key, what='roundtrip'),
                                   {'input': {'terms': rec_terms, 'F': txt, 'outer': outer_rec, 'options': kw, 's': fstr(smp.s)}, 'lcapy': str(res)[:400], 'items': items,
                                    'forward': [fstr(got[0]), fstr(got[1])], 'input_value': [fstr(want[0]), fstr(want[1])],
                                    'spec': 'L(ilt F)(s) = F(s) at the sample point (theorems ilt_laplace / ilt_inverts)'},
                                   'forward transform of the returned time function differs from the input')
            # oracle 2: causality flags
            # 'dc', 'ac', 'causal' are mutually exclusive assumptions: "the last one overrides" (Assumptions.merge/set);
            # kwargs are passed in the order causal, ac, dc
            # (model of Assumptions.set / merge, theorem assumption_last_overrides; the driver folds the keywords in order)
            asm = [(k, kw[k]) for k in kw if k in ('causal', 'ac', 'dc')]
            causal = drv.ask1('asm.causal ' + ' '.join('%s=%d' % (k, 1 if v else 0) for k, v in asm)) == 'true' if asm else False
            chk.count('effective-causal', str(causal))
            if causal:
                isc = drv.ask1('sig.causal ; %s' % ' '.join(items))
                if guarded or (has_regular and not stepped) or isc != 'true':
                    report(dict(key, what='causal'),
                                       {'input': {'terms': rec_terms, 'F': txt, 'outer': outer_rec, 'options': kw}, 'lcapy': str(res)[:400],
                                        'spec': 'causal=True => no t >= 0 condition, every regular term multiplied by a step with delay >= 0 '
                                                '(theorems make_causal, causal_zero_before)'},
                                       'causal result is not zero for t < 0')
            else:
                undelayed_regular = any(it.startswith('ep') and it.split(' ')[-1] == '0' for it in items)
                if undelayed_regular and not stepped and not guarded:
                    report(dict(key, what='guard'),
                                       {'input': {'terms': rec_terms, 'F': txt, 'outer': outer_rec, 'options': kw}, 'lcapy': str(res)[:400],
                                        'spec': 'not causal and a unilateral part => result valid for t >= 0 only (theorem make_guard)'},
                                       'non-causal result lacks the t >= 0 condition')
            # correspondence with the model (synthesis from the checked QRPO data)
            if got is not None and got != want:
                chk.count('correspondence-skipped', 'oracle-failed')
            elif all(q is not None for q in qr):
                mv = [Fraction(0), Fraction(0)]
                mg = False
                mok = True
                for q, tm in zip(qr, terms):
                    r = None
                    if kw.get('damped_sin', False) and len(tm['A']) == 3 and len(tm['B']) <= 3:
                        # `ratfun`: Ddegree == 2 and Ndegree <= 2 -> do_damped_sin (generated arithmetic); its error guards
                        # (reply `fallback`) send the input to the partial-fraction route
                        om = omega1_of(tm['A'])
                        if om is None:
                            chk.count('damped-sin-model', 'omega1-not-gaussian-rational')
                        elif om == (0, 0):
                            chk.count('damped-sin-model', 'fallback')
                        else:
                            rr = drv.ask1('ilt.ds %s %d %s ; %s ; %s ; %s' % (
                                smp.env_tokens(), 1 if causal else 0, fstr(tm['T']), ' '.join(gq(c) for c in reversed(tm['B'])),
                                ' '.join(gq(c) for c in reversed(tm['A'])), gq(om)))
                            chk.count('damped-sin-model', 'fallback' if rr == 'fallback' else ('modelled' if len(rr.split(' ')) == 3 else rr))
                            if rr != 'fallback':
                                r = rr.split(' ')
                    if r is None:
                        r = drv.ask1('ilt.model %s %d %s ; %s ; %s' % (smp.env_tokens(), 1 if causal else 0, q['T'], q['Q'], q['RPO'])).split(' ')
                    v = c09.parse_val(r[0])
                    if v is None or len(r) != 3:
                        mok = False
                        break
                    mv[0] += v[0]
                    mv[1] += v[1]
                    mg = mg or r[1] == '1'
                if mok and got is not None:
                    chk.coverage['correspondence']['compared'] += 1
                    if tuple(mv) != got or mg != guarded:
                        chk.coverage['correspondence']['disagreements'] += 1
                        disagreements.append({'F': txt, 'outer': outer_rec, 'options': kw, 'lcapy': [fstr(got[0]), fstr(got[1]), guarded],
                                              'model': [fstr(mv[0]), fstr(mv[1]), mg], 'result': str(res)[:300]})
            # oracle 3: initial / final value (single undelayed strictly proper term)
            if oi == 0 and len(terms) == 1 and not terms[0]['delayed'] and terms[0]['proper'] and got == want:
                try:
                    iv = X.post_initial_value().sympy
                    re, im = S.expand(iv).as_real_imag()
                    v0 = c09.parse_val(drv.ask1('sig.val0 ; %s' % ' '.join(items)))
                    chk.count('limits', 'initial')
                    if re.is_Rational and im.is_Rational and v0 is not None:
                        if (Fraction(int(re.p), int(re.q)), Fraction(int(im.p), int(im.q))) != v0:
                            counterexamples[0] += 1
                            chk.counterexample(dict(key, what='initial_value'),
                                               {'input': {'F': txt}, 'lcapy': str(iv), 'time_function': str(res)[:300], 'f0plus': [fstr(v0[0]), fstr(v0[1])],
                                                'spec': 'post_initial_value = f(0+) of the returned time function (initial_value_identity)'},
                                               'post_initial_value differs from the limit of the returned time function')
                    if terms[0]['stable_or_step']:
                        fv = X.final_value().sympy
                        re, im = S.expand(fv).as_real_imag()
                        vi = c09.parse_val(drv.ask1('sig.valinf ; %s' % ' '.join(items)))
                        chk.count('limits', 'final')
                        if re.is_Rational and im.is_Rational and vi is not None:
                            if (Fraction(int(re.p), int(re.q)), Fraction(int(im.p), int(im.q))) != vi:
                                counterexamples[0] += 1
                                chk.counterexample(dict(key, what='final_value'),
                                                   {'input': {'F': txt}, 'lcapy': str(fv), 'time_function': str(res)[:300], 'finf': [fstr(vi[0]), fstr(vi[1])],
                                                    'spec': 'final_value = limit of the returned time function (final_value_identity)'},
                                                   'final_value differs from the limit of the returned time function')
                except Exception as ex:   # noqa
                    chk.count('degenerate', 'limit-error:' + type(ex).__name__)


    # ---- cache stage: the memo must separate every option that influences the result.
    # For each expression and each pair of option sets (a, b): from a CLEARED cache call a then b; the answer to b must be
    # the answer b gets on an empty cache.  Both orders.  Expressions: s**n times undefined transforms (where
    # zero_initial_conditions matters), products / quotients with undefined transforms (causal matters: convolution limits),
    # second-order rational functions (damped_sin, damping, causal matter), delayed terms.
    CACHE_EXPRS = ['s*V(s)', 's**2*I(s)', '7*s*V(s)', 's**3*V(s)', 'V(s)/(s + 1)', 'V(s)/s', '3*V(s)*exp(-2*s)',
                   '1/(s**2 + 2*s + 5)', '(s + 3)/(s**2 + 2*s + 5)', '4/((s + 1)*(s + 2))', '1/(s + 2)**2', '5/s',
                   'exp(-s)/(s**2 + 4*s + 13)', '(s**2 + 1)/(s**2 + 2*s + 5)']
    CACHE_AXES = [('zero_initial_conditions', True, False), ('causal', False, True), ('damped_sin', False, True),
                  ('damping', None, 'over'), ('damping', None, 'critical')]

    def cache_kwargs(base, name, val):
        kw = dict(base)
        if val is None or (name == 'causal' and not val):
            kw.pop(name, None)
        else:
            kw[name] = val
        return kw

    def cache_pair(etxt, kwa, kwb, origin):
        """cleared cache: a then b   versus   cleared cache: b"""
        try:
            X = lexpr(etxt)
        except Exception as ex:   # noqa
            chk.count('degenerate', 'lcapy-parse:' + type(ex).__name__)
            return
        def call(kw):
            try:
                return X.inverse_laplace(**kw).sympy
            except Exception as ex:   # noqa
                return ('error', type(ex).__name__)
        ILTr.clear_cache()
        call(kwa)
        after = call(kwb)
        ILTr.clear_cache()
        fresh = call(kwb)
        ILTr.clear_cache()
        differs = sorted(k for k in set(kwa) | set(kwb) if kwa.get(k) != kwb.get(k))
        chk.case(('cache', etxt, tuple(sorted((k, str(v)) for k, v in kwa.items())), tuple(sorted((k, str(v)) for k, v in kwb.items()))),
                 not isinstance(fresh, tuple))
        chk.count('cache-stage', ','.join(differs))
        same = (after == fresh) if not (isinstance(after, tuple) or isinstance(fresh, tuple)) else (after == fresh)
        if not same:
            counterexamples[0] += 1
            chk.counterexample({'what': 'cache', 'option': ','.join(differs), 'undefined_transform': any(c in etxt for c in ('V(s)', 'I(s)'))},
                               {'input': {'cache_pair': {'expr': etxt, 'first': kwa, 'second': kwb}},
                                'lcapy': {'second_after_first': str(after)[:300], 'second_on_empty_cache': str(fresh)[:300]},
                                'spec': 'the result of inverse_laplace(**second) must not depend on an earlier inverse_laplace(**first) of the same '
                                        'expression (theorem ilt_key_complete: every option read is part of the cache key)',
                                'origin': origin},
                               'inverse Laplace result depends on an earlier call with other options (result cache key)')

    def cache_stage():
        exprs = list(CACHE_EXPRS)
        if not quick:
            exprs += ['%d*s**%d*V(s)' % (rng.randint(2, 9), rng.randint(1, 3)) for _ in range(6)]
            exprs += [gen.ratfun()['txt'] for _ in range(25)]
        bases = [{}] if quick else [{}, {'causal': True}, {'zero_initial_conditions': False}, {'damped_sin': True}]
        for etxt in exprs:
            for base in bases:
                for (name, v0, v1) in CACHE_AXES:
                    kwa, kwb = cache_kwargs(base, name, v0), cache_kwargs(base, name, v1)
                    if kwa == kwb:
                        continue
                    cache_pair(etxt, kwa, kwb, 'cache-stage')
                    cache_pair(etxt, kwb, kwa, 'cache-stage')

    # ---- undefined-transform stage: products F(s)*V(s) with an undefined V (product_undef1): the derivative route
    # (s**n * V), the integration route (V/s) and the convolution route (rational F), judged by putting a CONCRETE signal
    # g(t) = t^k e^{-a t}/k! in place of v(t) in Lcapy's answer, evaluating the integrals / derivatives with SymPy and
    # transforming forward with the Lean spec `L`: must equal F(s) * G(s), G(s) = 1/(s+a)^(k+1).
    vfun = S.Function('v')

    class CaseTimeout(Exception):
        pass

    def _alarm(sig, frm):
        raise CaseTimeout()

    def concretise(r, k, a, smp):
        """v(x) -> x^k e^{-a x}/k! inside Lcapy's answer (also under Derivative / Subs / Integral), evaluated for t > 0, then
        canonicalised; SymPy work only, under a per-case time limit that only counts"""
        import signal
        ra = S.Rational(a.numerator, a.denominator)
        old = signal.signal(signal.SIGALRM, _alarm)
        signal.alarm(12 if quick else 20)
        try:
            e = r.replace(vfun, lambda x: x ** k * S.exp(-ra * x) / S.factorial(k))
            e = e.doit()
            e = e.subs({S.Heaviside(-tsym): 0, S.Heaviside(tsym): 1})       # the answer is judged for t > 0
            cnv = Canon(S, tsym, smp)
            cn = cnv.items(e) if not (e.has(S.oo) or e.has(S.nan) or e.has(S.zoo)) else None
            return e, cn, getattr(cnv, 'why', '?')
        finally:
            signal.alarm(0)
            signal.signal(signal.SIGALRM, old)

    def undef_case(route, ftxt, B, A, n, const, origin='undef-stage', only=None):
        """route: 'deriv' (F = const*s**n), 'integ' (F = const/s), 'conv' (F = const*B/A strictly proper), 'mixed' (oracle only)"""
        etxt = '%s*V(s)' % ftxt if route != 'rawtext' else ftxt
        try:
            X = lexpr(etxt)
        except Exception as ex:   # noqa
            chk.count('degenerate', 'lcapy-parse:' + type(ex).__name__)
            return
        smp = Sampler(rng, S)
        optsets = [{'causal': True, 'zero_initial_conditions': False}, {'zero_initial_conditions': False},
                   {'causal': True, 'zero_initial_conditions': True}]
        if only is not None:
            optsets = [only]
        qd = None
        if route == 'conv':
            try:
                qd = qrpo_tokens(lexpr(ftxt).sympy / const, None, 'sub')
            except Exception:   # noqa
                qd = None
        for kw in optsets:
            zic = kw['zero_initial_conditions']
            causal = bool(kw.get('causal', False))
            try:
                res = X.inverse_laplace(**kw).sympy
            except Exception as ex:   # noqa
                chk.count('degenerate', 'lcapy-error:' + type(ex).__name__)
                continue
            uppers = set()
            for ig in res.atoms(S.Integral):
                up = ig.limits[0][2]
                uppers.add('inf' if up == S.oo else ('t' if up == tsym else 'other'))
            chk.count('undef-route', '%s:upper=%s' % (route, '/'.join(sorted(uppers)) or 'none'))
            # zero_initial_conditions=True is the claim v(0) = ... = v^(n-1)(0) = 0: use a v(t) that satisfies it (deriv_entry_zic)
            for k in ((max(3, n, len(B) - 1),) if zic else (0, 1)):
                a = Fraction(rng.randint(1, 4), rng.choice([1, 2]))
                gitem = 'ep 1 %d %s 0' % (k, fstr(-a))
                ckey = ('undef', etxt, tuple(sorted((x, str(y)) for x, y in kw.items())), k, fstr(a))
                if any(ig.has(S.DiracDelta) for ig in res.atoms(S.Integral)):
                    # an impulse at the end point of the integration range: SymPy counts half of it
                    chk.case(ckey, False)
                    chk.count('degenerate', 'impulse-at-integration-endpoint')
                    continue
                got = None
                if 'inf' in uppers and not causal:
                    # convention of Lcapy (its forward transform reads Integral(.., (tau, 0, oo)) as the convolution of causal
                    # factors): without `causal` the upper limit is oo; the model mirrors it (convUpper false = inf) and the
                    # literal integral is not evaluated.  With causal=True the upper limit must be t (theorem convolution_entry).
                    chk.case(ckey, False)
                    chk.count('undef-oracle', route + ':upper-limit-oo-convention(not evaluated)')
                else:
                    try:
                        tc0 = time.time()
                        e, cn, why = concretise(res, k, a, smp)
                        chk.count('undef-seconds', '%s:<=%d' % (route, int(time.time() - tc0) + 1))
                    except CaseTimeout:
                        chk.case(ckey, False)
                        chk.count('degenerate', 'sympy-integration:per-case-time-limit')
                        continue
                    except Exception as ex:   # noqa
                        chk.case(ckey, False)
                        chk.count('degenerate', 'sympy-integration:' + type(ex).__name__)
                        continue
                    Ag = list(A)
                    for _ in range(k + 1):
                        Ag = poly_mul(Ag, [(a, Fraction(0)), (Fraction(1), Fraction(0))])
                    want = c09.parse_val(drv.ask1('rat.eval %s 0 ; %s ; %s' % (smp.env_tokens(), ' '.join(gq(c) for c in B), ' '.join(gq(c) for c in Ag))))
                    key = {'what': 'undef-product', 'route': route, 'causal': causal, 'zero_initial_conditions': zic,
                           'upper_limit': '/'.join(sorted(uppers)) or 'none'}
                    rp = {'input': {'undef': {'route': route, 'F': ftxt, 'B': [gq(c) for c in B], 'A': [gq(c) for c in A], 'n': n, 'const': fstr(const),
                                              'options': kw}, 'v(t)': 't^%d e^{-%s t}/%d!' % (k, a, k)},
                          'lcapy': str(res)[:300], 'with_v': str(e)[:300],
                          'spec': 'for every concrete v the returned expression has the transform F(s)*V(s) (theorems convolution_entry, '
                                  'deriv_entry, deriv_entry_zic)', 'origin': origin}
                    if cn is not None:
                        got = c09.parse_val(drv.ask1('sig.L %s ; %s' % (smp.env_tokens(), ' '.join(cn[0]))))
                    chk.case(ckey, got is not None)
                    if want is None:
                        chk.count('degenerate', 'sample-hits-pole')
                        continue
                    bad = (cn is None and (e.has(S.oo) or e.has(S.zoo) or e.has(S.nan))) or (got is not None and got != want)
                    if cn is None and not bad:
                        chk.count('degenerate', 'result-shape-not-canonicalised')
                        if len(chk.coverage['correspondence']['diagnostics']) < 8:
                            chk.coverage['correspondence']['diagnostics'].append('undef not canonicalised (%s): %s %s -> %s' % (why, etxt, kw, str(e)[:160]))
                        continue
                    if bad:
                        counterexamples[0] += 1
                        rp['forward'] = None if got is None else [fstr(got[0]), fstr(got[1])]
                        rp['input_value'] = [fstr(want[0]), fstr(want[1])]
                        chk.counterexample(key, rp, 'inverse transform of a product with an undefined transform is wrong for a concrete v(t)')
                    else:
                        chk.count('undef-oracle', route + ':ok')
                # correspondence with the model
                mv = None
                mup = None
                if route == 'deriv':
                    r = c09.parse_val(drv.ask1('ilt.deriv %s %d %d ; %s' % (smp.env_tokens(), 1 if zic else 0, n, gitem)))
                    mv = None if r is None else (r[0] * const, r[1] * const)
                    mup = set()
                elif route == 'integ':
                    rr = drv.ask1('ilt.conv %s 1 ; ; 1 0 1 ; %s' % (smp.env_tokens(), gitem)).split(' ')
                    r = c09.parse_val(rr[1]) if len(rr) == 2 else None
                    mv = None if r is None else (r[0] * const, r[1] * const)
                    mup = {'t'}          # `1/s * V(s)`: Integral(v(tau), (tau, 0, t)) whatever `causal`
                elif route == 'conv' and qd is not None and qd['Q'] == '':
                    rr = drv.ask1('ilt.conv %s %d ; ; %s ; %s' % (smp.env_tokens(), 1 if causal else 0, qd['RPO'], gitem)).split(' ')
                    r = c09.parse_val(rr[1]) if len(rr) == 2 else None
                    mv = None if r is None else (r[0] * const, r[1] * const)
                    mup = {rr[0]}
                if mup is not None:
                    chk.coverage['correspondence']['compared'] += 1
                    value_ok = True
                    if mv is not None and got is not None and 'inf' not in mup and not (zic and k < n):
                        value_ok = (mv == got)
                    if mup != uppers or not value_ok:
                        chk.coverage['correspondence']['disagreements'] += 1
                        disagreements.append({'F': etxt, 'options': kw, 'what': 'undef-product ' + route, 'model_upper': sorted(mup), 'lcapy_upper': sorted(uppers),
                                              'model': None if mv is None else [fstr(mv[0]), fstr(mv[1])], 'lcapy': None if got is None else [fstr(got[0]), fstr(got[1])],
                                              'result': str(res)[:200]})

    def pending_or_report(fid, key, rp, what):
        """a failing case in the region of a suspected defect reported to the coordinator under the id `fid`: until
        known-findings.json has an entry with that id it is only counted (status known -> KNOWN-FINDING through the match key,
        status fixed -> a recurrence is a VIOLATION)"""
        if not any(f.get('id') == fid for f in chk.findings):
            chk.count('pending-finding', '%s %s' % (fid, what[:70]))
            return
        counterexamples[0] += 1
        chk.counterexample(key, rp, what)

    # ---- hyperbolic stage: lossless transmission-line forms.  With w = exp(-s T): (c cosh + d sinh)/(a cosh + b sinh) =
    # ((c+d) + (c-d) w^2)/((a+b) + (a-b) w^2) = P(w)/Q(w) and a returned sum of delayed impulses / steps is a power series in w;
    # the first terms of EVERY returned sum are judged exactly by the Lean oracle `seriesCheck` (theorem series_check_sound).
    def series_terms(e, Tval, nsum):
        """Lcapy's result -> ([(coef (re, im), k)], set of func kinds, order up to which the listed terms are complete) | (None, why)"""
        if isinstance(e, S.Piecewise) and len(e.args) == 1:
            e = e.args[0][0]
        extra = e.free_symbols - {tsym}
        sums = e.atoms(S.Sum)
        if any(x not in [sm.limits[0][0] for sm in sums] for x in extra):
            return None, 'free-symbol:' + ','.join(sorted(str(x) for x in extra))
        out, kinds, complete = [], set(), None

        def atom_term(term):
            fs = [a for a in term.atoms(S.DiracDelta, S.Heaviside) if isinstance(a, S.Heaviside) or len(a.args) == 1]
            if len(fs) != 1:
                return 'shape'
            f = fs[0]
            c = S.simplify(term / f)
            if c.has(tsym):
                return 'shape'
            tau = S.expand(tsym - f.args[0])
            k = S.nsimplify(tau / S.Rational(Tval.numerator, Tval.denominator))
            cc = Canon(S, tsym, None).num(c)
            if tau.has(tsym) or not (k.is_Integer and k >= 0) or cc is None:
                return 'delay-not-a-multiple-of-T:%s' % tau
            out.append((cc, int(k)))
            kinds.add(type(f).__name__)
            return None
        for term in S.Add.make_args(S.expand(e)):
            sms = list(term.atoms(S.Sum))
            if not sms:
                why = atom_term(term)
                if why:
                    return None, why
                continue
            if len(sms) != 1:
                return None, 'shape'
            sm = sms[0]
            pref = term / sm
            mvar, m0, m1 = sm.limits[0]
            if m1 != S.oo or pref.has(tsym):
                return None, 'shape'
            for mm in range(int(m0), int(m0) + nsum + 1):
                inner = S.expand(pref * sm.function.subs(mvar, mm))
                before = len(out)
                for tt in S.Add.make_args(inner):
                    why = atom_term(tt)
                    if why:
                        return None, why
                if mm == int(m0) + nsum:          # the first omitted term: everything below its order is complete
                    ks = [k for _, k in out[before:]]
                    del out[before:]
                    if ks:
                        complete = min(ks) - 1 if complete is None else min(complete, min(ks) - 1)
        return (out, kinds, complete), None

    def hyper_case(form, a, b, c, d, T, const, over_s, kw, origin='hyperbolic-stage'):
        def arg():
            return '(%s)*s' % T
        den = '((%s)*cosh(%s) + (%s)*sinh(%s))' % (a, arg(), b, arg())
        if form == 'end':
            body = '(%s)/%s' % (const, den)
            P = [Fraction(0), 2 * const]
        elif form == 'start':
            body = '(%s)*((%s)*cosh(%s) + (%s)*sinh(%s))/%s' % (const, c, arg(), d, arg(), den)
            P = [const * (c + d), Fraction(0), const * (c - d)]
        elif form == 'cosh':
            body, a, b, P = '(%s)/cosh(%s)' % (const, arg()), Fraction(1), Fraction(0), [Fraction(0), 2 * const]
        elif form == 'sinh':
            body, a, b, P = '(%s)/sinh(%s)' % (const, arg()), Fraction(0), Fraction(1), [Fraction(0), 2 * const]
        else:
            body, a, b, P = '(%s)/tanh(%s)' % (const, arg()), Fraction(0), Fraction(1), [const, Fraction(0), const]
        Q = [a + b, Fraction(0), a - b]
        txt = body if not over_s else '%s/s' % body
        key = {'what': 'hyperbolic', 'form': form, 'over_s': over_s, 'matched': a == b}
        fid = {'tanh': 'C10-F25', 'start': 'C10-F26'}.get(form)
        rp = {'input': {'hyperbolic': {'form': form, 'a': fstr(a), 'b': fstr(b), 'c': fstr(c), 'd': fstr(d), 'T': fstr(T), 'const': fstr(const),
                                       'over_s': over_s, 'options': kw}, 'F': txt},
              'spec': 'with w = exp(-sT) the returned series of delayed impulses/steps is the power series of P(w)/Q(w) '
                      '(oracle seriesCheck, theorem series_check_sound; model tline_end: tline_end_partial)', 'origin': origin}
        chk.count('hyperbolic', '%s%s' % (form, '/s' if over_s else ''))
        ckey = ('hyperbolic', txt, tuple(sorted((x, str(y)) for x, y in kw.items())))

        def fail(what):
            if fid:
                pending_or_report(fid, key, rp, what)
            else:
                counterexamples[0] += 1
                chk.counterexample(key, rp, what)
        try:
            res = lexpr(txt).inverse_laplace(**kw).sympy
        except Exception as ex:   # noqa
            chk.case(ckey, False)
            chk.count('degenerate', 'lcapy-error:' + type(ex).__name__)
            return
        rp['lcapy'] = str(res)[:300]
        if res.has(S.nan) or res.has(S.zoo):
            chk.case(ckey, False)
            chk.count('degenerate', 'hyperbolic-nan')
            return
        st, why = series_terms(res, T, 4)
        if st is None:
            chk.case(ckey, why.startswith('free-symbol') or why.startswith('delay'))
            if why.startswith('free-symbol') or why.startswith('delay'):
                fail('returned expression is not a series of impulses/steps delayed by multiples of T (%s)' % why)
            else:
                chk.count('degenerate', 'result-shape-not-canonicalised')
            return
        terms, kinds, complete = st
        chk.case(ckey, True)
        want_kind = 'Heaviside' if over_s else 'DiracDelta'
        ttoks = ' '.join('%s %d' % (gq(cf), k) for cf, k in terms)
        order = 8 if complete is None else complete
        ok = drv.ask1('series.check ; %s ; %s ; %s ; %d' % (' '.join(fstr(x) for x in P), ' '.join(fstr(x) for x in Q), ttoks, order))
        rp['terms'] = ttoks
        rp['order'] = order
        if kinds - {want_kind} or ok != 'true':
            fail('inverse transform of a hyperbolic form is not the series of the input in w = exp(-sT)')
        else:
            chk.count('hyperbolic-oracle', form + ':ok')
        if form == 'end':
            mt = drv.ask1('tline.end %s %s %d' % (fstr(a), fstr(b), 4 if a != b else 1)).split(' ')
            model = []
            for i in range(0, len(mt) - 1, 2):
                cv = c09.parse_val(mt[i])
                model.append(((cv[0] * const, cv[1] * const), int(mt[i + 1])))
            chk.coverage['correspondence']['compared'] += 1
            if sorted(model, key=lambda x: x[1]) != sorted(terms, key=lambda x: x[1]):
                chk.coverage['correspondence']['disagreements'] += 1
                disagreements.append({'F': txt, 'what': 'tline_end', 'model': str(model)[:200], 'lcapy': str(terms)[:200], 'result': str(res)[:200]})

    def hyper_stage():
        def rq(nonzero=True):
            return Fraction(rng.randint(1, 9), rng.choice([1, 1, 2]))
        n = 4 if quick else 30
        for i in range(n):
            a, b = rq(), rq()
            while a == b:
                b = rq()
            T = rng.choice([Fraction(1), Fraction(2), Fraction(1, 2), Fraction(3)])
            const = rng.choice([Fraction(1), Fraction(5), Fraction(3, 2)])
            hyper_case('end', a, b, 0, 0, T, const, i % 2 == 1, {'causal': True} if i % 4 < 2 else {})
        hyper_case('end', Fraction(3), Fraction(3), 0, 0, Fraction(2), Fraction(1), False, {'causal': True})
        for form in ('cosh', 'sinh', 'tanh'):
            hyper_case(form, 0, 0, 0, 0, rng.choice([Fraction(1), Fraction(2)]), rng.choice([Fraction(1), Fraction(7)]), False, {'causal': True})
        for i in range(2 if quick else 16):
            a, b, c, d = rq(), rq(), rq(), rq()
            while a == b or c == d or b * d == a * c:
                b, d = rq(), rq()
            hyper_case('start', a, b, c, d, Fraction(1), Fraction(1), i % 2 == 1, {'causal': True})
        # matched source (a == b: reflection coefficient at the source end is zero): a single echo
        hyper_case('start', Fraction(1), Fraction(1), Fraction(rng.choice([3, 5])), Fraction(rng.choice([1, 4])), Fraction(2), Fraction(1), False, {'causal': True})

    def shift_case(a, b):
        """V(a*s + b): func() -> v(t/a) e^{-b t/a}/a; judged with a concrete v"""
        etxt = 'V(%s*s + %s)' % (a, b)
        smp = Sampler(rng, S)
        kw = {'causal': True, 'zero_initial_conditions': False}
        try:
            res = lexpr(etxt).inverse_laplace(**kw).sympy
        except Exception as ex:   # noqa
            chk.count('degenerate', 'lcapy-error:' + type(ex).__name__)
            return
        for k in (0, 1):
            al = Fraction(rng.randint(1, 4), rng.choice([1, 2]))
            ckey = ('undef-shift', etxt, k, fstr(al))
            try:
                e, cn, why = concretise(res, k, al, smp)
            except Exception as ex:   # noqa
                chk.case(ckey, False)
                chk.count('degenerate', 'sympy-integration:' + type(ex).__name__)
                continue
            Ag = [(Fraction(1), Fraction(0))]
            for _ in range(k + 1):
                Ag = poly_mul(Ag, [(Fraction(b) + al, Fraction(0)), (Fraction(a), Fraction(0))])
            want = c09.parse_val(drv.ask1('rat.eval %s 0 ; 1 ; %s' % (smp.env_tokens(), ' '.join(gq(c) for c in Ag))))
            got = c09.parse_val(drv.ask1('sig.L %s ; %s' % (smp.env_tokens(), ' '.join(cn[0])))) if cn is not None else None
            chk.case(ckey, got is not None)
            chk.count('undef-route', 'shift')
            if got is None or want is None:
                chk.count('degenerate', 'result-shape-not-canonicalised')
                continue
            if got != want:
                pending_or_report('C10-F27', {'what': 'undef-product', 'route': 'shift'},
                                  {'input': {'shift': {'a': str(a), 'b': str(b)}, 'F': etxt, 'v(t)': 't^%d e^{-%s t}/%d!' % (k, al, k)}, 'lcapy': str(res)[:200],
                                   'with_v': str(e)[:200], 'forward': [fstr(got[0]), fstr(got[1])], 'input_value': [fstr(want[0]), fstr(want[1])],
                                   'spec': 'ILT{V(a s + b)} = v(t/a) exp(-b t/a)/a: with a concrete v the forward transform must be G(a s + b)'},
                                  'V(a*s+b): inverse transform has the wrong exponential weight')
            else:
                chk.count('undef-oracle', 'shift:ok')

    # ---- symbolic damping stage: second-order sections with SYMBOLIC coefficients (multi-term damping coefficient, zeta/omega_0
    # form, extra real pole) inverted with damping = None / 'under' / 'over'; afterwards the symbols are given rational values
    # consistent with the option (perfect-square discriminants) and the time function must transform back to H (Lean `L`).
    def damping_case(txt, values, Bn, An, damping, origin='damping-stage'):
        smp = Sampler(rng, S)
        kw = {'causal': True}
        if damping is not None:
            kw['damping'] = damping
        ckey = ('damping', txt, str(damping), tuple(sorted(values.items())))
        chk.count('symbolic-damping', '%s' % damping)
        try:
            res = lexpr(txt).inverse_laplace(**kw).sympy
        except Exception as ex:   # noqa
            chk.case(ckey, False)
            chk.count('degenerate', 'lcapy-error:' + type(ex).__name__)
            return
        sub = {sy: S.Rational(Fraction(values[sy.name]).numerator, Fraction(values[sy.name]).denominator)
               for sy in res.free_symbols if sy.name in values}
        he = res.subs(sub)
        key = {'what': 'roundtrip', 'symbolic': True, 'damping': str(damping)}
        rp = {'input': {'damping_case': {'F': txt, 'values': {k: str(v) for k, v in values.items()}, 'B': [fstr(x) for x in Bn], 'A': [fstr(x) for x in An],
                                         'damping': damping}}, 'lcapy': str(res)[:400], 'with_values': str(he)[:300], 'origin': origin,
              'spec': 'for symbolic coefficients and every damping option the returned time function, with the symbols given values '
                      'consistent with the option, transforms back to H(s) (theorems ilt_executed_laplace / pf_check_sound on numeric data)'}
        if he.free_symbols - {tsym} or he.has(S.nan) or he.has(S.zoo):
            chk.case(ckey, True)
            counterexamples[0] += 1
            chk.counterexample(key, rp, 'symbolic inverse transform does not evaluate at admissible coefficient values')
            return
        cnv = Canon(S, tsym, smp)
        cn = cnv.items(S.simplify(he)) or cnv.items(he)
        want = c09.parse_val(drv.ask1('rat.eval %s 0 ; %s ; %s' % (smp.env_tokens(), ' '.join(fstr(x) for x in Bn), ' '.join(fstr(x) for x in An))))
        if cn is None or want is None:
            chk.case(ckey, False)
            chk.count('degenerate', 'result-shape-not-canonicalised')
            if len(chk.coverage['correspondence']['diagnostics']) < 8:
                chk.coverage['correspondence']['diagnostics'].append('damping not canonicalised (%s): %s -> %s' % (getattr(cnv, 'why', '?'), txt, str(he)[:160]))
            return
        got = c09.parse_val(drv.ask1('sig.L %s ; %s' % (smp.env_tokens(), ' '.join(cn[0]))))
        chk.case(ckey, True)
        if got != want:
            counterexamples[0] += 1
            rp['forward'] = None if got is None else [fstr(got[0]), fstr(got[1])]
            rp['input_value'] = [fstr(want[0]), fstr(want[1])]
            chk.counterexample(key, rp, 'symbolic inverse transform (damping option) does not transform back to the input')
        else:
            chk.count('symbolic-damping-oracle', 'ok')

    def damping_stage():
        F = Fraction
        for damping in (None, 'under', 'over'):
            under = damping != 'over'
            sg = F(rng.randint(2, 4))                      # half the damping coefficient
            r = F(rng.randint(1, 3)) if under else F(rng.randint(1, int(sg) - 1))
            q = sg * sg + r * r if under else sg * sg - r * r
            a1 = F(rng.randint(1, int(2 * sg) - 1))
            # multi-term damping coefficient
            damping_case('(s + 3)/(s**2 + (a + c)*s + b)', {'a': a1, 'c': 2 * sg - a1, 'b': q}, [F(3), F(1)], [q, 2 * sg, F(1)], damping)
            # symbolic numerator, single-term coefficient
            damping_case('(e*s + 1)/(s**2 + a*s + b)', {'a': 2 * sg, 'b': q, 'e': F(2)}, [F(1), F(2)], [q, 2 * sg, F(1)], damping)
            if not quick or damping != None:
                z, w0 = (F(3, 5), F(5)) if under else (F(5, 3), F(3))
                damping_case('1/(s**2 + 2*zeta*omega_0*s + omega_0**2)', {'zeta': z, 'omega_0': w0}, [F(1)], [w0 * w0, 2 * z * w0, F(1)], damping)
            if not quick:
                dd = F(rng.randint(5, 7))
                damping_case('(s + 3)/((s**2 + (a + c)*s + b)*(s + d))', {'a': a1, 'c': 2 * sg - a1, 'b': q, 'd': dd}, [F(3), F(1)],
                             [q * dd, q + 2 * sg * dd, 2 * sg + dd, F(1)], damping)

    def undef_stage():
        one = (Fraction(1), Fraction(0))
        zero = (Fraction(0), Fraction(0))
        for n in ((1, 2, 3) if quick else (1, 2, 3, 4)):
            c = Fraction(rng.randint(1, 5))
            undef_case('deriv', '%s*s**%d' % (c, n), [zero] * n + [(c, Fraction(0))], [one], n, c)
        undef_case('integ', '3/s', [(Fraction(3), Fraction(0))], [zero, one], 0, Fraction(3))
        kinds = ['real', 'repeated', 'origin-rep', 'real2'] if quick else ['real', 'repeated', 'origin-rep', 'real2', 'complex', 'mixed', 'origin'] * 2
        for kd in kinds:
            kind, poles = gen.pole_set()
            guard = 0
            while kind != kd and guard < 200:
                kind, poles = gen.pole_set()
                guard += 1
            if kd == 'real':      # 1/s alone is the integration route
                poles = [((Fraction(-rng.randint(1, 5), 1), Fraction(0)), 1)]
            degA = sum(m for _, m in poles)
            tm = gen.build('undef:' + kd, poles, B=[gen.rcoef(nonzero=True)], lc=Fraction(1), T=Fraction(0))
            undef_case('conv', tm['txt'], tm['B'], tm['A'], 0, Fraction(1))
        # composite forms (oracle only): polynomial and improper factors expand into derivative + convolution terms
        shift_case(2, 3)
        shift_case(1, 1)
        undef_case('mixed', '(2*s + 1)', [one, (Fraction(2), Fraction(0))], [one], 1, Fraction(1))
        undef_case('mixed', '((s + 3)/(s + 1))', [(Fraction(3), Fraction(0)), one], [one, one], 1, Fraction(1))
        if not quick:
            undef_case('mixed', '(s/(s + 2))', [zero, one], [(Fraction(2), Fraction(0)), one], 1, Fraction(1))
            undef_case('mixed', '((s**2 + 1)/(s + 2))', [one, zero, one], [(Fraction(2), Fraction(0)), one], 2, Fraction(1))

    t0 = time.time()
    if replay:
        # ./vcheck C10 --replay <file>: re-run the recorded input with the recorded option set first
        import json
        rp = json.load(open(replay if os.path.isabs(replay) else os.path.join(common.VERIF, replay)))
        inp = rp.get('input', {})
        n_funcs = 0
        if 'cache_pair' in inp:
            cp = inp['cache_pair']
            chk.coverage['replayed'] = cp
            cache_pair(cp['expr'], cp['first'], cp['second'], 'replay')
        if 'damping_case' in inp:
            dcs = inp['damping_case']
            chk.coverage['replayed'] = dcs
            damping_case(dcs['F'], {k: Fraction(v) for k, v in dcs['values'].items()}, [Fraction(x) for x in dcs['B']], [Fraction(x) for x in dcs['A']],
                         dcs['damping'], origin='replay')
        if 'shift' in inp:
            shift_case(int(inp['shift']['a']), int(inp['shift']['b']))
        if 'hyperbolic' in inp:
            h = inp['hyperbolic']
            chk.coverage['replayed'] = h
            hyper_case(h['form'], Fraction(h['a']), Fraction(h['b']), Fraction(h['c']), Fraction(h['d']), Fraction(h['T']), Fraction(h['const']),
                       h['over_s'], h['options'], origin='replay')
        if 'undef' in inp:
            u = inp['undef']
            chk.coverage['replayed'] = u
            undef_case(u['route'], u['F'], [c09.parse_val(x) for x in u['B']], [c09.parse_val(x) for x in u['A']], u['n'],
                       Fraction(u['const']), origin='replay', only=u['options'])
        if 'terms' in inp:
            terms = []
            for tm in inp['terms']:
                tm = dict(tm)
                tm['A'] = [c09.parse_val(x) for x in tm['A']]
                tm['B'] = [c09.parse_val(x) for x in tm['B']]
                tm['T'] = Fraction(tm['T'])
                tm['offset'] = Fraction(tm.get('offset', 0))
                terms.append(tm)
            chk.coverage['replayed'] = inp.get('F')
            one_input(terms, 0, forced_opts=inp.get('options'), outer=(Fraction(inp['outer'][0]), [Fraction(x) for x in inp['outer'][1]]) if inp.get('outer') else None)
    stage_s = {}
    if not replay:
        ts0 = time.time()
        cache_stage()
        stage_s['cache'] = round(time.time() - ts0, 1)
        ts0 = time.time()
        undef_stage()
        stage_s['undef'] = round(time.time() - ts0, 1)
        ts0 = time.time()
        hyper_stage()
        stage_s['hyperbolic'] = round(time.time() - ts0, 1)
        ts0 = time.time()
        damping_stage()
        stage_s['damping'] = round(time.time() - ts0, 1)
    ts0 = time.time()
    # ---- directed stream 1: second-order sections with damped_sin=True (do_damped_sin: strictly proper with constant /
    # first-order numerator, biproper; every zero pattern of the numerator coefficients; under/over/critically damped,
    # undamped, pole at the origin -> the fall-back to the partial-fraction route), crossed with causal / damping / delay
    DS_OPTS = [{'damped_sin': True}, {'damped_sin': True, 'causal': True}]
    DS_DEN = ['undamped', 'overdamped', 'critical', 'origin', 'unstable-complex', 'underdamped']
    n_second = 0 if replay else (len(gen.SECOND_ORDER_NUM) + len(DS_DEN) if quick else 80)
    for i in range(n_second):
        num = gen.SECOND_ORDER_NUM[i % len(gen.SECOND_ORDER_NUM)]
        den = 'underdamped' if i < len(gen.SECOND_ORDER_NUM) else DS_DEN[i % len(DS_DEN)]
        tm = gen.second_order(den=den, num=num if i < len(gen.SECOND_ORDER_NUM) else None)
        chk.count('second-order', tm['kind'])
        extra = {'damped_sin': True, 'damping': rng.choice(['under', 'over', 'critical'])}
        one_input([tm], 1000 + i, option_sets=DS_OPTS + [extra, {}])
    # ---- directed stream 2: improper rational functions B = Q*A + M with a chosen quotient (dense, with interior zero
    # coefficients, with trailing zeros), i.e. every pattern of Dirac-delta derivatives the polynomial part can produce
    n_improper = 0 if replay else (len(gen.QUOTIENT_SHAPES) if quick else 56)
    for i in range(n_improper):
        tm = gen.improper(shape=gen.QUOTIENT_SHAPES[i % len(gen.QUOTIENT_SHAPES)])
        chk.count('improper-quotient', tm['kind'].split(':')[1])
        one_input([tm], 2000 + i, option_sets=[{}, {'causal': True}])
    # ---- directed stream 3: sums of three terms with pairwise different delays (one undelayed), theorem delay_sum
    n_sums = 0 if replay else (3 if quick else 40)
    for i in range(n_sums):
        delays = [Fraction(0), Fraction(1, 2), Fraction(2)] if i % 2 == 0 else [Fraction(1), Fraction(3, 2), Fraction(3)]
        terms = []
        for T in delays:
            kind, poles = gen.pole_set()
            while kind in ('high', 'mixed', 'repeated-complex'):
                kind, poles = gen.pole_set()
            terms.append(gen.build(kind, poles, T=T))
        chk.count('delayed-sums', '/'.join(fstr(T) for T in delays))
        one_input(terms, 3000 + i, option_sets=[{}, {'causal': True}])
    # ---- directed stream 4: delay factors whose exponent has a constant part, exp(-T s + c) (delay_factor / as_B_A_delay_undef)
    n_off = 0 if replay else (4 if quick else 40)
    for i in range(n_off):
        kind, poles = gen.pole_set()
        while kind in ('high', 'mixed', 'repeated-complex'):
            kind, poles = gen.pole_set()
        c = [Fraction(-1), Fraction(1, 4), Fraction(-1, 2), Fraction(1)][i % 4]
        T = [Fraction(2), Fraction(1, 2), Fraction(1), Fraction(1)][i % 4]
        tm = gen.build(kind, poles, T=T, offset=c)
        chk.count('exponent-offset', 'T=%s c=%s' % (T, c))
        one_input([tm], 4000 + i, option_sets=[{}, {'causal': True}])
    # ---- directed stream 5: a common delay factored out of a sum, exp(-T s) * (F1 + exp(-T1 s) F2): the multi-term fallback of `term`
    n_outer = 0 if replay else (3 if quick else 30)
    for i in range(n_outer):
        To = [Fraction(1), Fraction(1, 2), Fraction(2)][i % 3]
        inner = [Fraction(0), [Fraction(1), Fraction(1, 2), Fraction(3, 2)][i % 3]]
        terms = []
        for Ti in inner:
            kind, poles = gen.pole_set()
            while kind not in ('real', 'real2', 'origin', 'repeated', 'complex'):
                kind, poles = gen.pole_set()
            terms.append(gen.build(kind, poles, T=To + Ti))
        chk.count('outer-delay', 'T=%s inner=%s' % (To, '/'.join(fstr(x) for x in inner)))
        one_input(terms, 5000 + i, option_sets=[{}, {'causal': True}], outer=(To, inner))
    # ---- directed stream 6: repeated complex-conjugate pole pairs (the conjugate-pair combination must not touch them)
    n_rc = 0 if replay else (2 if quick else 20)
    for i in range(n_rc):
        a, b = Fraction(rng.randint(-3, 0)), Fraction(rng.randint(1, 3))
        poles = [((a, b), 2), ((a, -b), 2)] + ([((gen.real_pole(), Fraction(0)), 1)] if i % 2 else [])
        tm = gen.build('repeated-complex', poles, T=Fraction(0) if i % 2 == 0 else Fraction(1))
        tm['proper'] or chk.count('repeated-complex', 'improper')
        chk.count('repeated-complex', 'directed')
        one_input([tm], 6000 + i, option_sets=[{}, {'causal': True}])
    for i in range(n_funcs):
        terms = [gen.ratfun()]
        if i % 4 == 3:
            terms.append(gen.ratfun())
        one_input(terms, i)
    stage_s['streams'] = round(time.time() - ts0, 1)
    chk.coverage['generation_s'] = round(time.time() - t0, 1)
    chk.coverage['stage_seconds'] = stage_s

    chk.coverage['correspondence']['samples_of_disagreement'] = disagreements[:5]
    if broken and counterexamples[0] == 0 and not chk.known_seen:
        for b in broken[:20]:
            chk.unexplained('broken-obligation', b, chk.coverage.get('build_log_tail', '')[-600:])
    elif broken:
        chk.coverage['broken_obligations_explained_by_counterexamples'] = True
    if disagreements and counterexamples[0] == 0 and not chk.known_seen:
        chk.unexplained('broken-correspondence', disagreements[0]['F'], disagreements[0])


if __name__ == '__main__':
    common.main_wrapper('C10', run)
