"""C08, TwoPort NETWORK level (round 3): streams run by harness/c08.py.

  E  equation():   port quantities obtained from ANOTHER representation (spec relation, validated by Lean) are
                   substituted into `X.equation()` of the real classes (all 8 matrix classes, with the documented
                   normalised waves a = (V + Z0 I) / (2 sqrt Z0) for S and T) and into `TwoPort?Model.equation()`
                   (with sources); the residual must vanish.
  S  sources:      `t.Amodel … t.Zmodel` of a two-port with sources held in any native representation: exact
                   correspondence with the generated model, oracle = ports of the native affine relation (Lean
                   `arel`) must satisfy the converted model's affine relation (Lean `arel`).
  C  cascades:     2–4 stages, mixed native representations, non-reciprocal, with sources, any bracketing, all
                   spellings (chain / append / prepend / cascade / *): correspondence with the generated model,
                   oracle = the internal port variables are eliminated stage by stage, Lean validates the witness
                   chain (`cascWit`) and judges the library's overall B model on the end ports.
  P  connections:  parallel / series / hybrid / inverse_hybrid with sources, same scheme.
  G3 pivots:       for every ordered pair of V/I representations and matrices with zero entries: Lcapy's result is
                   finite exactly when the Lean existence pivot is non-zero (direct formulas), never finite when it
                   is zero (any route).

Every case is a plain dict of strings, so a replay file re-runs exactly one case on the real code.
"""
import json
from fractions import Fraction

import common
from common import fstr

MREPS = 'ABGHYZ'
REPS = 'ABGHSTYZ'
OFFSET = {'A': ('V1a', 'I1a'), 'B': ('V2b', 'I2b'), 'G': ('I1g', 'V2g'), 'H': ('V1h', 'I2h'),
          'Y': ('I1y', 'I2y'), 'Z': ('V1z', 'V2z')}
# (lhs, rhs) of the defining equation: (variable, sign); only used to GENERATE ports, Lean validates them
VEC = {'A': ((('V1', 1), ('I1', 1)), (('V2', 1), ('I2', -1))),
       'B': ((('V2', 1), ('I2', -1)), (('V1', 1), ('I1', 1))),
       'G': ((('I1', 1), ('V2', 1)), (('V1', 1), ('I2', 1))),
       'H': ((('V1', 1), ('I2', 1)), (('I1', 1), ('V2', 1))),
       'Y': ((('I1', 1), ('I2', 1)), (('V1', 1), ('V2', 1))),
       'Z': ((('V1', 1), ('V2', 1)), (('I1', 1), ('I2', 1)))}
PV = ['V1', 'I1', 'V2', 'I2']
CHAIN_METHODS = ['chain', 'append', 'prepend', 'cascade', 'mul']
CONN = {'parallel': ('par', 'Y', ('V1', 'V2')), 'series': ('ser', 'Z', ('I1', 'I2')),
        'hybrid': ('hyb', 'H', ('I1', 'V2')), 'inverse_hybrid': ('invhyb', 'G', ('V1', 'I2'))}


def port_from_lin(rep, l, r, Z0):
    """the port (V1, I1, V2, I2) whose `lin` vectors are l (lhs) and r (rhs) for representation rep
    (inverse of the table in Spec.rel; used only to *generate* candidate ports, which the Lean
    spec then validates)"""
    l1, l2 = l
    r1, r2 = r
    if rep == 'A':
        return (l1, l2, r1, -r2)
    if rep == 'B':
        return (r1, r2, l1, -l2)
    if rep == 'G':
        return (r1, l1, l2, r2)
    if rep == 'H':
        return (l1, r1, r2, l2)
    if rep == 'Y':
        return (r1, l1, r2, l2)
    if rep == 'Z':
        return (l1, r1, l2, r2)
    if rep == 'S':   # l = (b1, b2), r = (a1, a2)
        a1, a2, b1, b2 = r1, r2, l1, l2
    else:            # T: l = (b1, a1), r = (a2, b2)
        b1, a1, a2, b2 = l1, l2, r1, r2
    return ((a1 + b1) / 2, (a1 - b1) / (2 * Z0), (a2 + b2) / 2, (a2 - b2) / (2 * Z0))


def mulv(m, r):
    return (m[0] * r[0] + m[1] * r[1], m[2] * r[0] + m[3] * r[1])


def basis_ports(rep, m, Z0, rng):
    """two independent ports satisfying the spec relation of `rep` with matrix m"""
    out = []
    for r in ((Fraction(rng.randint(1, 9)), Fraction(0)), (Fraction(0), Fraction(rng.randint(1, 9)))):
        out.append(port_from_lin(rep, mulv(m, r), r, Z0))
    r = (Fraction(rng.randint(-9, 9), rng.randint(1, 5)), Fraction(rng.randint(-9, 9), rng.randint(1, 5)))
    out.append(port_from_lin(rep, mulv(m, r), r, Z0))
    return out


def F(x):
    return x if isinstance(x, Fraction) else Fraction(x)


def rows(rep, m, s):
    """the two linear equations  c . (V1, I1, V2, I2) = s_k  of  lhs = M rhs + s"""
    lhs, rhs = VEC[rep]
    out = []
    for k in (0, 1):
        c = {v: Fraction(0) for v in PV}
        lv, ls = lhs[k]
        c[lv] += ls
        for j in (0, 1):
            rv, rs = rhs[j]
            c[rv] -= m[2 * k + j] * rs
        out.append((c, s[k]))
    return out


def solve2(eqs, known, unknown):
    """solve the 2 equations for the 2 unknown port variables; None when singular"""
    a = [[eqs[k][0][u] for u in unknown] for k in (0, 1)]
    b = [eqs[k][1] - sum(eqs[k][0][v] * known[v] for v in known) for k in (0, 1)]
    det = a[0][0] * a[1][1] - a[0][1] * a[1][0]
    if det == 0:
        return None
    x = (b[0] * a[1][1] - a[0][1] * b[1]) / det
    y = (a[0][0] * b[1] - b[0] * a[1][0]) / det
    return {unknown[0]: x, unknown[1]: y}


class Stage:
    def __init__(self, rep, m, s):
        self.rep, self.m, self.s = rep, [F(v) for v in m], [F(v) for v in s]

    def toks(self):
        return '%s %s %s' % (self.rep, ' '.join(fstr(v) for v in self.m), ' '.join(fstr(v) for v in self.s))

    def asdict(self):
        return {'rep': self.rep, 'm': [fstr(v) for v in self.m], 's': [fstr(v) for v in self.s]}

    @staticmethod
    def fromdict(d):
        return Stage(d['rep'], [Fraction(v) for v in d['m']], [Fraction(v) for v in d['s']])

    def port(self, known):
        """complete a port from two known variables (dict) using the native affine relation"""
        unknown = [v for v in PV if v not in known]
        sol = solve2(rows(self.rep, self.m, self.s), known, unknown)
        if sol is None:
            return None
        sol.update(known)
        return tuple(sol[v] for v in PV)


def srat(L, x):
    return L.sympy.Rational(x.numerator, x.denominator)


def lc_stage(L, st, short=False):
    """the real object: TwoPort<N>Model(<N>Matrix(...), <sources>)  (or its TP<N> subclass)"""
    cls = getattr(L.tp, ('TP%s' if short else 'TwoPort%sModel') % st.rep)
    mat = getattr(L.tp, st.rep + 'Matrix')(((srat(L, st.m[0]), srat(L, st.m[1])), (srat(L, st.m[2]), srat(L, st.m[3]))))
    o1, o2 = OFFSET[st.rep]
    return cls(mat, **{o1: srat(L, st.s[0]), o2: srat(L, st.s[1])})


def lc_read(L, obj, subs=None):
    """(native class letter, matrix, sources) of a real TwoPort object as Fractions (None = not finite)"""
    rep = obj.model
    m = L.mat(obj.params, subs or {})
    s = [L.tofrac(obj.sources[0], subs or {}), L.tofrac(obj.sources[1], subs or {})]
    return rep, m, s


def finite(xs):
    return xs is not None and all(v is not None for v in xs)


def parse_stage_reply(r):
    """driver reply `N m11 m12 m21 m22 s1 s2` -> (rep, m, s) with None for undef; or the error word"""
    t = r.split()
    if len(t) != 7:
        return r
    f = [None if x == 'undef' else Fraction(x) for x in t[1:]]
    return (t[0], f[:4], f[4:])


def rand_q(rng, nz=True, big=9):
    while True:
        x = Fraction(rng.randint(-big, big), rng.randint(1, 5))
        if x != 0 or not nz:
            return x


def rand_stage(rng, rep=None, sources=True):
    rep = rep or rng.choice(MREPS)
    while True:
        m = [rand_q(rng) for _ in range(4)]
        if m[0] * m[3] - m[1] * m[2] != 0 and m[1] != m[2]:     # invertible, non-reciprocal in every V/I form
            break
    s = [rand_q(rng, nz=False, big=6) for _ in range(2)] if sources else [Fraction(0), Fraction(0)]
    return Stage(rep, m, s)


# ------------------------------------------------------------------------------------------------ trees
def tree_order(t):
    """signal-order list of leaf indices of a method tree  ('leaf', i) | (method, left, right)"""
    if t[0] == 'leaf':
        return [t[1]]
    l, r = tree_order(t[1]), tree_order(t[2])
    return r + l if t[0] == 'prepend' else l + r


def tree_postfix(t, stages):
    if t[0] == 'leaf':
        return 'S ' + stages[t[1]].toks()
    return '%s %s %s' % (tree_postfix(t[1], stages), tree_postfix(t[2], stages), t[0])


def tree_lcapy(t, objs):
    if t[0] == 'leaf':
        return objs[t[1]]
    a, b = tree_lcapy(t[1], objs), tree_lcapy(t[2], objs)
    if t[0] == 'mul':
        return a * b
    return getattr(a, t[0])(b)


def tree_str(t):
    if t[0] == 'leaf':
        return 's%d' % t[1]
    if t[0] == 'mul':
        return '(%s * %s)' % (tree_str(t[1]), tree_str(t[2]))
    return '%s.%s(%s)' % (tree_str(t[1]), t[0], tree_str(t[2]))


def rand_tree(rng, idx):
    if len(idx) == 1:
        return ('leaf', idx[0])
    k = rng.randint(1, len(idx) - 1)
    meth = rng.choice(CHAIN_METHODS)
    l, r = rand_tree(rng, idx[:k]), rand_tree(rng, idx[k:])
    return (meth, r, l) if meth == 'prepend' else (meth, l, r)


def tree_tolist(t):
    return list(t) if t[0] == 'leaf' else [t[0], tree_tolist(t[1]), tree_tolist(t[2])]


def tree_fromlist(t):
    return ('leaf', t[1]) if t[0] == 'leaf' else (t[0], tree_fromlist(t[1]), tree_fromlist(t[2]))


# ------------------------------------------------------------------------------------------------ the streams
class Net:
    def __init__(self, chk, drv, L):
        self.chk, self.drv, self.L = chk, drv, L
        self.rng = chk.rng
        self.counterexamples = 0
        self.disagreements = []
        self.chain_conv = {}

    # ---- helpers
    def lean_arel(self, rep, m, s, port):
        return self.drv.ask1('tpn.arel %s %s %s %s' % (rep, ' '.join(fstr(v) for v in m), ' '.join(fstr(v) for v in s),
                                                      ' '.join(fstr(v) for v in port))) == 'true'

    def lean_rel(self, rep, m, Z0, port):
        return self.drv.ask1('tp.rel %s %s %s %s' % (rep, ' '.join(fstr(v) for v in m), fstr(Z0),
                                                    ' '.join(fstr(v) for v in port))) == 'true'

    def compare(self, what, case, lcapy, model):
        """exact correspondence of (rep, m, s) triples; undefined on both sides agrees"""
        cor = self.chk.coverage['correspondence']
        if isinstance(model, str):
            self.chk.count('model', model)
            return
        cor['compared'] += 1
        lf = lcapy is not None and finite(lcapy[1]) and finite(lcapy[2])
        mf = finite(model[1]) and finite(model[2])
        if lf and mf:
            if (lcapy[0], list(lcapy[1]), list(lcapy[2])) != (model[0], list(model[1]), list(model[2])):
                cor['disagreements'] += 1
                self.disagreements.append({'what': what, 'case': case,
                                           'lcapy': [lcapy[0], [fstr(v) for v in lcapy[1]], [fstr(v) for v in lcapy[2]]],
                                           'model': [model[0], [fstr(v) for v in model[1]], [fstr(v) for v in model[2]]]})
        elif lf != mf:
            self.chk.count('degenerate', 'net-one-side-undefined')

    def cex(self, key, case, what, **extra):
        self.counterexamples += 1
        rep = {'input': case}
        rep.update(extra)
        self.chk.counterexample(key, rep, what)

    # ---- E: equation()
    def case_equation(self, case):
        """case: {'stream': 'equation', 'from': W, 'matrix': [...], 'to': X, 'Z0r': r, 'rhs': [r1, r2]}"""
        L, S = self.L, self.L.sympy
        W, X = case['from'], case['to']
        m = [Fraction(v) for v in case['matrix']]
        r = Fraction(case['Z0r'])
        Z0 = r * r
        rhs = [Fraction(v) for v in case['rhs']]
        port = port_from_lin(W, mulv(m, rhs), rhs, Z0)
        if not self.lean_rel(W, m, Z0, port):
            raise common.Infra('equation stream: generated port outside rel %s' % W)
        self.chk.count('equation', '%s->%s.equation()' % (W, X))
        subs = {'Z_0': srat(L, Z0)}
        try:
            MX = getattr(L.make(W, m), X + 'params')
            got = L.mat(MX, subs)
        except Exception as e:   # noqa
            self.chk.count('lcapy-error', 'equation:%s->%s:%s' % (W, X, type(e).__name__))
            self.chk.case(('equation', W, X, tuple(m), r), False)
            return
        if not finite(got):
            self.chk.count('degenerate', 'equation-matrix-not-finite')
            self.chk.case(('equation', W, X, tuple(m), r), False)
            return
        res = self.residual(MX, port, Z0, r)
        nontriv = any(v != 0 for v in port)
        self.chk.case(('equation', W, X, tuple(m), r, tuple(rhs)), nontriv)
        # Lean judge of the same statement with the documented normalised waves
        leanN = self.drv.ask1('tpn.relN %s %s %s %s %s' % (X, ' '.join(fstr(v) for v in got), fstr(Z0), fstr(r),
                                                          ' '.join(fstr(v) for v in port)))
        if leanN != 'true':
            # the converted MATRIX is wrong: that is the conversion oracle's business (reported there)
            self.chk.count('equation', 'matrix-already-wrong')
            return
        if res is None or any(v != 0 for v in res):
            self.cex({'kind': 'equation', 'class': X}, case,
                     '%sMatrix.equation() is not satisfied by the port quantities of the two-port it was converted from' % X,
                     lcapy_matrix=[fstr(v) for v in got], port=[fstr(v) for v in port],
                     equation=str(MX.equation()).replace('\n', ' ')[:300],
                     residual=None if res is None else [fstr(v) for v in res],
                     spec='rel %s m p holds (Lean), relN %s (lcapy matrix) p holds (Lean), but lhs - rhs of equation() != 0' % (W, X))

    def residual(self, M, port, Z0, r, sources_ok=True):
        """lhs - rhs of M.equation() at the port (V, I and the normalised waves)"""
        L, S = self.L, self.L.sympy
        eq = M.equation()
        lhs, rhs = eq.lhs, eq.rhs
        lhs = lhs.sympy if hasattr(lhs, 'sympy') else lhs
        rhs = rhs.sympy if hasattr(rhs, 'sympy') else rhs
        res = S.Matrix(S.MatAdd(lhs, -rhs).doit())
        V1, I1, V2, I2 = port
        vals = {'V1': V1, 'I1': I1, 'V2': V2, 'I2': I2, 'Z_0': Z0,
                'a1': (V1 + Z0 * I1) / (2 * r), 'b1': (V1 - Z0 * I1) / (2 * r),
                'a2': (V2 + Z0 * I2) / (2 * r), 'b2': (V2 - Z0 * I2) / (2 * r)}
        sub = {}
        for sy in res.free_symbols:
            if sy.name not in vals:
                return None      # an unknown symbol in the equation: cannot be satisfied identically
            sub[sy] = srat(L, vals[sy.name])
        res = res.subs(sub)
        out = []
        for e in res:
            e = S.nsimplify(S.cancel(e))
            if not e.is_Rational:
                return None
            out.append(Fraction(int(e.p), int(e.q)))
        return out

    def case_model_equation(self, case):
        """case: {'stream': 'model-equation', 'stage': {...}, 'to': P, 'known': {var: value}}"""
        L = self.L
        st = Stage.fromdict(case['stage'])
        P = case['to']
        known = {k: Fraction(v) for k, v in case['known'].items()}
        port = st.port(known)
        self.chk.count('equation', 'TwoPort%sModel->%smodel.equation()' % (st.rep, P))
        if port is None:
            self.chk.count('degenerate', 'model-equation-singular')
            return
        if not self.lean_arel(st.rep, st.m, st.s, port):
            raise common.Infra('model-equation stream: generated port outside arel %s' % st.rep)
        try:
            obj = lc_stage(L, st)
            M = obj if P == st.rep else getattr(obj, P + 'model')
            rep, m, s = lc_read(L, M)
        except Exception as e:   # noqa
            self.chk.count('lcapy-error', 'model-equation:%s' % type(e).__name__)
            return
        if not (finite(m) and finite(s)):
            self.chk.count('degenerate', 'model-not-finite')
            return
        self.chk.case(('model-equation', st.toks(), P, tuple(sorted(known.items()))), True)
        if not self.lean_arel(rep, m, s, port):
            self.chk.count('equation', 'model-already-wrong')      # reported by the sources stream
            return
        res = self.residual(M, port, Fraction(1), Fraction(1))
        if res is None or any(v != 0 for v in res):
            self.cex({'kind': 'model-equation', 'class': P}, case,
                     'TwoPort%sModel.equation() is not satisfied by the port quantities of its own affine relation' % P,
                     lcapy=[rep, [fstr(v) for v in m], [fstr(v) for v in s]], port=[fstr(v) for v in port],
                     equation=str(M.equation()).replace('\n', ' ')[:300],
                     residual=None if res is None else [fstr(v) for v in res],
                     spec='arel %s (lcapy matrix, sources) p holds (Lean) but lhs - rhs of equation() != 0' % P)

    # ---- N: TwoPort.Aparams … TwoPort.Zparams (dispatch on the native matrix class)
    def case_params(self, case):
        """case: {'stream': 'params', 'stage': {...}, 'to': P, 'Z0': z, 'rhs': [r1, r2]}"""
        L = self.L
        st = Stage.fromdict(case['stage'])
        P = case['to']
        Z0 = Fraction(case['Z0'])
        self.chk.count('params', 'TwoPort%sModel.%sparams' % (st.rep, P))
        r = self.drv.ask1('tpn.params %s %s %s' % (P, st.toks(), fstr(Z0)))
        mod = r if r in ('unknown-def', 'bad-op') else [None if t == 'undef' else Fraction(t) for t in r.split()]
        try:
            got = L.mat(getattr(lc_stage(L, st), P + 'params'), {'Z_0': srat(L, Z0)})
        except ZeroDivisionError:
            got = None
        except Exception as e:   # noqa
            self.chk.count('lcapy-error', 'params:%s->%s:%s' % (st.rep, P, type(e).__name__))
            self.chk.case(('params', st.toks(), P, Z0), False)
            return
        if isinstance(mod, str):
            self.chk.count('model', mod)
        else:
            self.chk.coverage['correspondence']['compared'] += 1
            if finite(got) and finite(mod) and list(got) != list(mod):
                self.chk.coverage['correspondence']['disagreements'] += 1
                self.disagreements.append({'what': 'TPN_%sparams' % P, 'case': case, 'lcapy': [fstr(v) for v in got],
                                           'model': [fstr(v) for v in mod]})
        self.chk.case(('params', st.toks(), P, Z0), finite(got))
        if not finite(got):
            self.chk.count('degenerate', 'params-not-finite')
            return
        rhs = [Fraction(v) for v in case['rhs']]
        port = port_from_lin(st.rep, mulv(st.m, rhs), rhs, Z0)
        if not self.lean_rel(st.rep, st.m, Z0, port):
            raise common.Infra('params stream: generated port outside rel %s' % st.rep)
        if not self.lean_rel(P, got, Z0, port):
            self.cex({'kind': 'params', 'from': st.rep, 'to': P}, case,
                     'TwoPort%sModel.%sparams does not describe the port relation of the two-port' % (st.rep, P),
                     lcapy=[fstr(v) for v in got], port=[fstr(v) for v in port],
                     spec='rel %s m p holds but rel %s (lcapy result) p fails' % (st.rep, P))

    # ---- K: constructors of the model classes
    def case_ctor(self, case):
        """case: {'stream': 'ctor', 'class': N, 'short': bool, 'entries': [v|None x4], 'sources': [v|None x2],
                  'zero': 'int'|'sympy'|'lcapy', 'matrix_arg': bool, 'rhs': [r1, r2]}"""
        L, S = self.L, self.L.sympy
        N = case['class']
        ents = [None if v is None else Fraction(v) for v in case['entries']]
        srcs = [None if v is None else Fraction(v) for v in case['sources']]
        zk = case['zero']
        self.chk.count('ctor', '%s zero=%s%s%s' % (N, zk, ' omitted-entry' if None in ents else '',
                                                  ' matrix-arg' if case.get('matrix_arg') else ''))

        def arg(v):
            if v is None:
                return None
            if v == 0:
                if zk == 'int':
                    return 0
                if zk == 'sympy':
                    return S.S.Zero
                import lcapy
                return lcapy.expr(0)
            return srat(L, v)
        cls = getattr(L.tp, ('TP%s' if case.get('short') else 'TwoPort%sModel') % N)
        o1, o2 = OFFSET[N]
        kw = {k: arg(v) for k, v in zip((o1, o2), srcs) if v is not None}
        try:
            if case.get('matrix_arg'):
                mat = getattr(L.tp, N + 'Matrix')(((arg(ents[0]), arg(ents[1])), (arg(ents[2]), arg(ents[3]))))
                obj = cls(mat, **kw)
            else:
                obj = cls(*[arg(v) for v in ents], **kw)
            P = obj.params
            got = []
            for i in (0, 1):
                for j in (0, 1):
                    e = P[i, j]
                    e = e.sympy if hasattr(e, 'sympy') else S.sympify(e)
                    got.append('sym' if e.free_symbols else fstr(L.tofrac(e, {})))
            for k in (0, 1):
                e = obj.sources[k]
                e = e.sympy if hasattr(e, 'sympy') else S.sympify(e)
                got.append('sym' if e.free_symbols else fstr(L.tofrac(e, {})))
        except Exception as e:   # noqa
            self.chk.count('lcapy-error', 'ctor:%s:%s' % (N, type(e).__name__))
            self.chk.case(('ctor', json.dumps(case, sort_keys=True)), False)
            return
        # model: the generated defaulting rule (sources default to 0, entries to a free symbol)
        r = self.drv.ask1('tpn.ctor %s %s' % (N, ' '.join('none' if v is None else fstr(v) for v in ents + srcs)))
        if r in ('unknown-def', 'bad-op'):
            self.chk.count('model', r)
        else:
            mod = r.split()
            mod = mod[:4] + ['0' if t == 'sym' else t for t in mod[4:]]
            self.chk.coverage['correspondence']['compared'] += 1
            if mod != got:
                self.chk.coverage['correspondence']['disagreements'] += 1
                self.disagreements.append({'what': 'TwoPort%sModel.__init__' % N, 'case': case, 'lcapy': got, 'model': mod})
        self.chk.case(('ctor', json.dumps(case, sort_keys=True)), True)
        # oracle: the defining equation with the GIVEN entries must hold for the object's reported matrix
        want = ['sym' if v is None else fstr(v) for v in ents] + [fstr(v or Fraction(0)) for v in srcs]
        if got == want:
            if None not in ents:
                m = ents
                sv = [v or Fraction(0) for v in srcs]
                rhs = [Fraction(v) for v in case['rhs']]
                lhs = mulv(m, rhs)
                port = port_from_lin(N, (lhs[0] + sv[0], lhs[1] + sv[1]), rhs, Fraction(1))
                if not self.lean_arel(N, m, sv, port) or not self.lean_arel(N, [Fraction(v) for v in got[:4]],
                                                                             [Fraction(v) for v in got[4:]], port):
                    raise common.Infra('ctor stream: identical entries but Lean arel disagrees')
            return
        # entries differ: exhibit a port of the SPECIFIED two-port that the reported matrix does not admit
        # (a substituted free symbol is given the value 1, any value would do)
        m = [v if v is not None else Fraction(1) for v in ents]
        sv = [v or Fraction(0) for v in srcs]
        gm = [Fraction(1) if t == 'sym' else Fraction(t) for t in got[:4]]
        gs = [Fraction(1) if t == 'sym' else Fraction(t) for t in got[4:]]
        for rhs in ([Fraction(v) for v in case['rhs']], [Fraction(1), Fraction(0)], [Fraction(0), Fraction(1)], [Fraction(0), Fraction(0)]):
            lhs = mulv(m, rhs)
            port = port_from_lin(N, (lhs[0] + sv[0], lhs[1] + sv[1]), rhs, Fraction(1))
            if not self.lean_arel(N, m, sv, port):
                raise common.Infra('ctor stream: generated port outside arel %s' % N)
            if not self.lean_arel(N, gm, gs, port):
                self.cex({'kind': 'ctor', 'class': N}, case,
                         '%s(...) does not keep the entries it is given (a numeric zero / given value is replaced)' % cls.__name__,
                         given=want, lcapy=got, port=[fstr(v) for v in port],
                         spec='arel %s (given entries) p holds but arel %s (object.params, object.sources; free symbols := 1) p fails' % (N, N))
                return
        self.cex({'kind': 'ctor', 'class': N}, case, '%s(...) reports entries different from those given' % cls.__name__,
                 given=want, lcapy=got)

    # ---- M: matrix-level chain with an argument of another representation
    def case_chain_mixed(self, case):
        """case: {'stream': 'chain-mixed', 'class': 'A'|'B', 'method': 'chain'|'cascade', 'a': [...], 'b_rep': X,
                  'b': [...] (the A resp. B matrix of the second stage), 'Z0': z, 'drive': [x, y]}"""
        L = self.L
        C, X, meth = case['class'], case['b_rep'], case['method']
        a = [Fraction(v) for v in case['a']]
        b = [Fraction(v) for v in case['b']]
        Z0 = Fraction(case['Z0'])
        subs = {'Z_0': srat(L, Z0)}
        self.chk.count('chain-mixed', '%sMatrix.%s(%sMatrix)' % (C, meth, X))
        try:
            MB = getattr(L.make(C, b), X + 'params')
            bx = L.mat(MB, subs)
            if not finite(bx):
                self.chk.count('degenerate', 'chain-mixed-arg-not-finite')
                return
            R = getattr(L.make(C, a), meth)(MB)
            got = L.mat(R, subs)
            rtype = type(R).__name__
        except Exception as e:   # noqa
            self.chk.count('lcapy-error', 'chain-mixed:%s' % type(e).__name__)
            self.chk.case(('chain-mixed', C, X, tuple(a), tuple(b)), False)
            return
        if not finite(got):
            self.chk.count('degenerate', 'chain-mixed-not-finite')
            self.chk.case(('chain-mixed', C, X, tuple(a), tuple(b)), False)
            return
        # model: generated X_to_C (if the generated chain converts its argument) then C_chain
        conv = case.get('_conv')
        arg = bx
        if conv and conv.get(C) == C + 'params':
            r = self.drv.ask1('tp.conv %s_to_%s %s %s' % (X, C, ' '.join(fstr(v) for v in bx), fstr(Z0)))
            arg = None if r in ('unknown-def', 'bad-op') or 'undef' in r else [Fraction(t) for t in r.split()]
        if arg is not None:
            r = self.drv.ask1('tp.chain %s_%s %s %s' % (C, meth, ' '.join(fstr(v) for v in a), ' '.join(fstr(v) for v in arg)))
            if r not in ('unknown-def', 'bad-op') and 'undef' not in r:
                self.chk.coverage['correspondence']['compared'] += 1
                if [Fraction(t) for t in r.split()] != got:
                    self.chk.coverage['correspondence']['disagreements'] += 1
                    self.disagreements.append({'what': '%s_%s(%s)' % (C, meth, X), 'case': case, 'lcapy': [fstr(v) for v in got], 'model': r})
        # oracle: a cascaded port.  second stage: spec relation of ITS representation with ITS matrix
        x, y = [Fraction(v) for v in case['drive']]
        if C == 'A':
            q = port_from_lin(X, mulv(bx, (x, y)), (x, y), Z0)
            if not self.lean_rel(X, bx, Z0, q):
                raise common.Infra('chain-mixed: generated port outside rel %s' % X)
            V1, I1 = mulv(a, (q[0], q[1]))          # (V1, I1) = A (V2, -I2) with V2 = q.V1, -I2 = q.I1
            p = (V1, I1, q[0], -q[1])
        else:
            V2, mI2 = mulv(a, (x, y))               # (V2, -I2) = B (V1, I1)
            p = (x, y, V2, -mI2)
            qb = mulv(b, (V2, mI2))                  # the second stage through its B matrix (only to GENERATE q)
            q = (V2, mI2, qb[0], -qb[1])
            if not self.lean_rel(X, bx, Z0, q):
                self.chk.count('degenerate', 'chain-mixed-second-stage-conversion-wrong')   # conversion oracle's business
                return
        if not self.lean_rel(C, a, Z0, p):
            raise common.Infra('chain-mixed: first-stage port outside rel %s' % C)
        whole = (p[0], p[1], q[2], q[3])
        self.chk.case(('chain-mixed', C, meth, X, tuple(a), tuple(b), x, y), True)
        if rtype != C + 'Matrix' or not self.lean_rel(C, got, Z0, whole):
            self.cex({'kind': 'chain-mixed', 'class': C}, case,
                     '%sMatrix.%s(<%sMatrix>) does not carry the cascaded port (the argument is not converted)' % (C, meth, X),
                     argument=[fstr(v) for v in bx], lcapy=[fstr(v) for v in got], result_class=rtype,
                     port=[fstr(v) for v in whole],
                     spec='rel %s a p, rel %s b q, Cascade p q r hold (Lean) but rel %s (lcapy result) r fails' % (C, X, C))

    # ---- mutation of a matrix after a conversion was taken (no stale caches)
    def case_stale(self, case):
        """case: {'stream': 'stale-cache', 'class': X, 'matrix': [...], 'index': [i, j], 'value': v, 'Z0': z, 'rhs': [..]}"""
        L = self.L
        X = case['class']
        m = [Fraction(v) for v in case['matrix']]
        i, j = case['index']
        v = Fraction(case['value'])
        Z0 = Fraction(case['Z0'])
        subs = {'Z_0': srat(L, Z0)}
        m2 = list(m)
        m2[2 * i + j] = v
        self.chk.count('stale-cache', X)
        try:
            M = L.make(X, m)
            for P in REPS:                      # take every conversion once
                try:
                    getattr(M, P + 'params')
                except Exception:   # noqa
                    pass
            M[i, j] = srat(L, v)
        except Exception as e:   # noqa
            self.chk.count('lcapy-error', 'stale:%s' % type(e).__name__)
            return
        rhs = [Fraction(t) for t in case['rhs']]
        port = port_from_lin(X, mulv(m2, rhs), rhs, Z0)
        if not self.lean_rel(X, m2, Z0, port):
            raise common.Infra('stale stream: generated port outside rel %s' % X)
        self.chk.case(('stale-cache', X, tuple(m), i, j, v), True)
        for P in REPS:
            try:
                got = L.mat(getattr(M, P + 'params'), subs)
            except Exception:   # noqa
                continue
            if not finite(got):
                continue
            if not self.lean_rel(P, got, Z0, port):
                self.cex({'kind': 'stale-cache', 'class': X, 'to': P}, case,
                         '%sMatrix.%sparams after M[%d, %d] = %s still describes the matrix before the assignment' % (X, P, i, j, fstr(v)),
                         lcapy=[fstr(t) for t in got], port=[fstr(t) for t in port],
                         spec='rel %s (mutated matrix) p holds but rel %s (lcapy result) p fails' % (X, P))

    # ---- S: sources / X-model conversions
    def case_sources(self, case):
        """case: {'stream': 'sources', 'stage': {...}, 'to': P, 'rhs': [[r1, r2], ...]}"""
        L = self.L
        st = Stage.fromdict(case['stage'])
        P = case['to']
        self.chk.count('sources', '%s->%smodel' % (st.rep, P))
        mod = parse_stage_reply(self.drv.ask1('tpn.model %smodel %s 1' % (P, st.toks())))
        try:
            obj = lc_stage(L, st, short=case.get('short', False))
            M = getattr(obj, P + 'model')
            got = lc_read(L, M)
        except ZeroDivisionError:
            got = None
        except Exception as e:   # noqa
            self.chk.count('lcapy-error', 'sources:%s->%s:%s' % (st.rep, P, type(e).__name__))
            self.chk.case(('sources', st.toks(), P), False)
            return
        self.compare('%s_%smodel' % (st.rep, P), case, got, mod)
        ok = got is not None and finite(got[1]) and finite(got[2])
        self.chk.case(('sources', st.toks(), P), ok)
        if not ok:
            self.chk.count('degenerate', 'sources-not-finite')
            return
        if got[0] != P:
            self.cex({'kind': 'sources', 'from': st.rep, 'to': P, 'cause': 'wrong-class'}, case,
                     '.%smodel returns a %s model' % (P, got[0]))
            return
        for rhs in case['rhs']:
            rhs = [Fraction(v) for v in rhs]
            lhs = mulv(st.m, rhs)
            lhs = (lhs[0] + st.s[0], lhs[1] + st.s[1])
            port = port_from_lin(st.rep, lhs, rhs, Fraction(1))
            if not self.lean_arel(st.rep, st.m, st.s, port):
                raise common.Infra('sources stream: generated port outside arel %s' % st.rep)
            if not self.lean_arel(P, got[1], got[2], port):
                # which source entry is off?  (structural key for known-findings)
                self.cex({'kind': 'sources', 'from': st.rep, 'to': P}, case,
                         'TwoPort%sModel.%smodel (matrix + source vector) does not describe the same affine port relation' % (st.rep, P),
                         lcapy=[got[0], [fstr(v) for v in got[1]], [fstr(v) for v in got[2]]],
                         model=mod if isinstance(mod, str) else [mod[0], [None if v is None else fstr(v) for v in mod[1]],
                                                                 [None if v is None else fstr(v) for v in mod[2]]],
                         port=[fstr(v) for v in port],
                         spec='arel %s (given) p holds but arel %s (lcapy result) p fails' % (st.rep, P))
                return

    # ---- C: cascades
    def case_cascade(self, case):
        """case: {'stream': 'cascade', 'stages': [...], 'tree': nested list, 'V1': .., 'I1': ..}"""
        L = self.L
        stages = [Stage.fromdict(d) for d in case['stages']]
        tree = tree_fromlist(case['tree'])
        natives = ''.join(s.rep for s in stages)
        order = tree_order(tree)
        self.chk.count('cascade', 'n=%d' % len(stages))
        self.chk.count('cascade-last-stage', stages[order[-1]].rep)
        for t in self._methods(tree):
            self.chk.count('cascade-method', t)
        mod = parse_stage_reply(self.drv.ask1('tpn.tree 1 %s' % tree_postfix(tree, stages)))
        try:
            objs = [lc_stage(L, s, short=(i % 2 == 1)) for i, s in enumerate(stages)]
            R = tree_lcapy(tree, objs)
            got = lc_read(L, R)
        except ZeroDivisionError:
            got = None
        except Exception as e:   # noqa
            self.chk.count('lcapy-error', 'cascade:%s' % type(e).__name__)
            self.chk.case(('cascade', case['expr']), False)
            return
        self.compare('cascade', case, got, mod)
        ok = got is not None and finite(got[1]) and finite(got[2])
        if not ok:
            self.chk.count('degenerate', 'cascade-not-finite')
            self.chk.case(('cascade', case['expr'], natives), False)
            return
        # oracle: eliminate the internal port variables stage by stage, in signal order
        V, I = Fraction(case['V1']), Fraction(case['I1'])
        V1, I1 = V, I
        wit = []
        for k in order:
            p = stages[k].port({'V1': V, 'I1': I})
            if p is None:
                self.chk.count('degenerate', 'cascade-stage-has-no-forward-solution')
                self.chk.case(('cascade', case['expr'], natives), False)
                return
            wit.append((stages[k], p[2], p[3]))
            V, I = p[2], -p[3]
        V2, I2 = wit[-1][1], wit[-1][2]
        req = 'tpn.casc %s ; %s' % (' '.join(fstr(v) for v in (V1, I1, V2, I2)),
                                    ' ; '.join('%s %s %s' % (s.toks(), fstr(vm), fstr(im)) for (s, vm, im) in wit))
        if self.drv.ask1(req) != 'true':
            raise common.Infra('cascade stream: witness chain rejected by Lean cascWit: %s' % req[:300])
        self.chk.case(('cascade', case['expr'], tuple(s.toks() for s in stages), V1, I1), True)
        if got[0] != 'B' or not self.lean_arel('B', got[1], got[2], (V1, I1, V2, I2)):
            self.cex({'kind': 'cascade', 'last': stages[order[-1]].rep},
                     case, 'cascade %s of stages with native representations %s does not carry the cascaded port' % (case['expr'], natives),
                     lcapy=[got[0], [fstr(v) for v in got[1]], [fstr(v) for v in got[2]]],
                     model=mod if isinstance(mod, str) else [mod[0], [None if v is None else fstr(v) for v in mod[1]],
                                                             [None if v is None else fstr(v) for v in mod[2]]],
                     port=[fstr(v) for v in (V1, I1, V2, I2)],
                     internal=[[fstr(vm), fstr(im)] for (_, vm, im) in wit[:-1]],
                     spec='cascWit stages witnesses (V1, I1, V2, I2) holds (Lean) but arel B (lcapy Chain result) fails')

    def _methods(self, t):
        return [] if t[0] == 'leaf' else [t[0]] + self._methods(t[1]) + self._methods(t[2])

    # ---- P: parallel / series / hybrid / inverse hybrid
    def case_connection(self, case):
        """case: {'stream': 'connection', 'method': .., 'stages': [a, b], 'shared': [x, y]}"""
        L = self.L
        a, b = [Stage.fromdict(d) for d in case['stages']]
        meth = case['method']
        kind, rep, shared = CONN[meth]
        self.chk.count('connection', '%s(%s,%s)' % (meth, a.rep, b.rep))
        mod = parse_stage_reply(self.drv.ask1('tpn.tree 1 S %s S %s %s' % (a.toks(), b.toks(), meth)))
        try:
            R = getattr(lc_stage(L, a), meth)(lc_stage(L, b, short=True))
            got = lc_read(L, R)
        except ZeroDivisionError:
            got = None
        except Exception as e:   # noqa
            self.chk.count('lcapy-error', 'connection:%s:%s' % (meth, type(e).__name__))
            self.chk.case(('connection', meth, a.toks(), b.toks()), False)
            return
        self.compare(meth, case, got, mod)
        ok = got is not None and finite(got[1]) and finite(got[2])
        if not ok:
            self.chk.count('degenerate', 'connection-not-finite')
            self.chk.case(('connection', meth, a.toks(), b.toks()), False)
            return
        vals = dict(zip(shared, [Fraction(v) for v in case['shared']]))
        p, q = a.port(vals), b.port(vals)
        if p is None or q is None:
            self.chk.count('degenerate', 'connection-stage-singular')
            self.chk.case(('connection', meth, a.toks(), b.toks()), False)
            return
        r = tuple(p[i] if PV[i] in shared else p[i] + q[i] for i in range(4))
        if self.drv.ask1('tpn.conn %s %s %s %s' % (kind, ' '.join(fstr(v) for v in p), ' '.join(fstr(v) for v in q),
                                                  ' '.join(fstr(v) for v in r))) != 'true' \
                or not self.lean_arel(a.rep, a.m, a.s, p) or not self.lean_arel(b.rep, b.m, b.s, q):
            raise common.Infra('connection stream: generated ports rejected by Lean')
        self.chk.case(('connection', meth, a.toks(), b.toks(), tuple(vals.items())), True)
        if got[0] != rep or not self.lean_arel(rep, got[1], got[2], r):
            self.cex({'kind': 'connection', 'method': meth}, case,
                     '%s of two-ports with native representations %s, %s does not describe the combined port' % (meth, a.rep, b.rep),
                     lcapy=[got[0], [fstr(v) for v in got[1]], [fstr(v) for v in got[2]]],
                     port=[fstr(v) for v in r], constituents=[[fstr(v) for v in p], [fstr(v) for v in q]],
                     spec='Conn.%s p q r, arel a p, arel b q hold (Lean) but arel %s (lcapy result) r fails' % (kind, rep))

    # ---- G3: existence pivots
    def case_pivot(self, case, routes):
        """case: {'stream': 'pivot', 'from': X, 'to': P, 'matrix': [...]}"""
        L = self.L
        X, P = case['from'], case['to']
        m = [Fraction(v) for v in case['matrix']]
        piv = Fraction(self.drv.ask1('tpn.pivot %s %s %s' % (X, P, ' '.join(fstr(v) for v in m))))
        try:
            got = L.mat(getattr(L.make(X, m), P + 'params'), {})
            err = None
        except ZeroDivisionError:
            got, err = None, 'ZeroDivisionError'
        except Exception as e:   # noqa
            got, err = None, type(e).__name__
        fin = finite(got)
        direct = (X + P) not in routes        # routes = conversions that go through another representation
        self.chk.case(('pivot', X, P, tuple(m)), True)
        self.chk.count('pivot', '%s pivot%s0 lcapy-%s' % ('direct' if direct else 'routed', '=' if piv == 0 else '!=',
                                                          'finite' if fin else ('raises' if err else 'zoo/nan')))
        self.chk.coverage['correspondence']['compared'] += 1
        if piv == 0 and fin:
            # a finite matrix for a representation that does not exist (theorem pivot_necessary): find the failing port
            for port in basis_ports(X, m, Fraction(1), self.rng):
                if not self.lean_rel(P, got, Fraction(1), port):
                    self.cex({'kind': 'pivot', 'from': X, 'to': P}, case,
                             '%sMatrix.%sparams returns a finite matrix although representation %s does not exist (pivot = 0)' % (X, P, P),
                             lcapy=[fstr(v) for v in got], port=[fstr(v) for v in port],
                             spec='pivot %s %s m = 0, rel %s m p holds but rel %s (lcapy result) p fails' % (X, P, X, P))
                    return
            raise common.Infra('pivot stream: finite matrix with zero pivot satisfied all basis ports (contradicts pivot_necessary)')
        if piv != 0 and not fin and direct:
            self.chk.coverage['correspondence']['disagreements'] += 1
            self.disagreements.append({'what': 'pivot %s->%s' % (X, P), 'case': case, 'lcapy': err or 'not finite',
                                       'model': 'exists: pivot = %s' % fstr(piv)})

    # ------------------------------------------------------------------------------------------ generators
    def run(self, routes):
        chk, rng = self.chk, self.rng
        quick = chk.tier == 'quick'
        n_eq = 3 if quick else 12
        n_src = 10 if quick else 60
        n_casc = 28 if quick else 240
        n_conn = 3 if quick else 16
        n_piv = 1 if quick else 4
        # E
        for X in REPS:
            for k in range(n_eq):
                W = rng.choice([w for w in REPS if w != X])
                case = {'stream': 'equation', 'from': W, 'to': X, 'matrix': [fstr(rand_q(rng)) for _ in range(4)],
                        'Z0r': fstr(Fraction(rng.randint(1, 5), rng.randint(1, 3))),
                        'rhs': [fstr(rand_q(rng)), fstr(rand_q(rng, nz=False))]}
                self.guard(self.case_equation, case)
        for P in MREPS:
            for k in range(max(1, n_eq // 2)):
                st = rand_stage(rng, rep=rng.choice(MREPS) if k else P)
                kn = rng.sample(PV, 2)
                case = {'stream': 'model-equation', 'stage': st.asdict(), 'to': P,
                        'known': {kn[0]: fstr(rand_q(rng)), kn[1]: fstr(rand_q(rng, nz=False))}}
                self.guard(self.case_model_equation, case)
        # K: constructors (zero entries of three kinds, omitted arguments, matrix argument)
        k = 0
        for N in MREPS:
            for zk in ('int', 'sympy', 'lcapy'):
                for rep_ in range(1 if quick else 4):
                    ents = [rand_q(rng) for _ in range(4)]
                    for z in rng.sample(range(4), rng.randint(1, 2)):
                        ents[z] = Fraction(0)
                    srcs = [rng.choice([None, Fraction(0), rand_q(rng)]) for _ in range(2)]
                    case = {'stream': 'ctor', 'class': N, 'short': bool(k % 2), 'zero': zk, 'matrix_arg': False,
                            'entries': [fstr(v) for v in ents], 'sources': [None if v is None else fstr(v) for v in srcs],
                            'rhs': [fstr(rand_q(rng)), fstr(rand_q(rng))]}
                    k += 1
                    self.guard(self.case_ctor, case)
            ents = [rand_q(rng) for _ in range(4)]
            om = [None if (i in rng.sample(range(1, 4), rng.randint(1, 2))) else fstr(v) for i, v in enumerate(ents)]
            self.guard(self.case_ctor, {'stream': 'ctor', 'class': N, 'short': True, 'zero': 'int', 'matrix_arg': False,
                                        'entries': om, 'sources': [None, fstr(rand_q(rng))], 'rhs': ['1', '2']})
            ents[rng.randrange(4)] = Fraction(0)
            self.guard(self.case_ctor, {'stream': 'ctor', 'class': N, 'short': False, 'zero': 'sympy', 'matrix_arg': True,
                                        'entries': [fstr(v) for v in ents], 'sources': [fstr(rand_q(rng)), None],
                                        'rhs': [fstr(rand_q(rng)), fstr(rand_q(rng))]})
        # M: AMatrix / BMatrix .chain / .cascade with an argument of every representation
        for C in 'AB':
            for X in (REPS if C == 'A' else MREPS):
                for rep_ in range(1 if quick else 4):
                    case = {'stream': 'chain-mixed', 'class': C, 'method': rng.choice(['chain', 'cascade']), 'b_rep': X,
                            'a': [fstr(v) for v in rand_stage(rng, sources=False).m],
                            'b': [fstr(v) for v in rand_stage(rng, sources=False).m],
                            'Z0': fstr(Fraction(rng.randint(1, 9), rng.randint(1, 4))),
                            'drive': [fstr(rand_q(rng)), fstr(rand_q(rng, nz=False))], '_conv': self.chain_conv}
                    self.guard(self.case_chain_mixed, case)
        # stale caches
        for X in REPS:
            for rep_ in range(1 if quick else 3):
                case = {'stream': 'stale-cache', 'class': X, 'matrix': [fstr(v) for v in rand_stage(rng, sources=False).m],
                        'index': [rng.randrange(2), rng.randrange(2)], 'value': fstr(rand_q(rng)),
                        'Z0': fstr(Fraction(rng.randint(1, 9), rng.randint(1, 4))),
                        'rhs': [fstr(rand_q(rng)), fstr(rand_q(rng))]}
                self.guard(self.case_stale, case)
        # N
        for N in MREPS:
            for P in REPS:
                st = rand_stage(rng, rep=N, sources=False)
                case = {'stream': 'params', 'stage': st.asdict(), 'to': P,
                        'Z0': fstr(Fraction(rng.randint(1, 9), rng.randint(1, 4))),
                        'rhs': [fstr(rand_q(rng)), fstr(rand_q(rng, nz=False))]}
                self.guard(self.case_params, case)
        # S
        k = 0
        for N in MREPS:
            for P in MREPS:
                for j in range(max(1, n_src // 10)):
                    st = rand_stage(rng, rep=N)
                    case = {'stream': 'sources', 'stage': st.asdict(), 'to': P, 'short': bool(k % 2),
                            'rhs': [['0', '0'], [fstr(rand_q(rng)), fstr(rand_q(rng))]]}
                    k += 1
                    self.guard(self.case_sources, case)
        # C
        for k in range(n_casc):
            n = 2 + k % 3
            stages = [rand_stage(rng, sources=(rng.random() < 0.6)) for _ in range(n)]
            if k % 4 == 0:
                stages[-1] = rand_stage(rng, rep=rng.choice('ZYGHA'), sources=(rng.random() < 0.6))
            tree = rand_tree(rng, list(range(n)))
            case = {'stream': 'cascade', 'stages': [s.asdict() for s in stages], 'tree': tree_tolist(tree),
                    'expr': tree_str(tree), 'V1': fstr(rand_q(rng)), 'I1': fstr(rand_q(rng, nz=False))}
            if k < 3:
                chk.sample({'cascade': case['expr'], 'natives': ''.join(s.rep for s in stages)})
            self.guard(self.case_cascade, case)
        # P
        for meth in CONN:
            for k in range(n_conn):
                a, b = rand_stage(rng), rand_stage(rng)
                case = {'stream': 'connection', 'method': meth, 'stages': [a.asdict(), b.asdict()],
                        'shared': [fstr(rand_q(rng)), fstr(rand_q(rng, nz=False))]}
                self.guard(self.case_connection, case)
        # G3: named degenerate two-ports + random zero patterns
        named = [('A', [2, 0, 0, Fraction(1, 2)], 'ideal transformer'), ('A', [1, 5, 0, 1], 'series impedance'),
                 ('A', [1, 0, Fraction(1, 3), 1], 'shunt admittance'), ('A', [0, 4, Fraction(1, 4), 0], 'gyrator'),
                 ('A', [Fraction(1, 7), 0, 0, 0], 'ideal voltage amplifier'), ('Z', [3, 3, 3, 3], 'shunt impedance as Z'),
                 ('Y', [2, -2, -2, 2], 'series admittance as Y')]
        for (X, m, nm) in named:
            for P in MREPS:
                if P != X:
                    self.guard(lambda c: self.case_pivot(c, routes),
                               {'stream': 'pivot', 'from': X, 'to': P, 'matrix': [fstr(F(v)) for v in m], 'name': nm})
        for X in MREPS:
            for k in range(n_piv):
                m = [rand_q(rng) for _ in range(4)]
                for z in rng.sample(range(4), rng.randint(1, 2)):
                    m[z] = Fraction(0)
                for P in MREPS:
                    if P != X:
                        self.guard(lambda c: self.case_pivot(c, routes),
                                   {'stream': 'pivot', 'from': X, 'to': P, 'matrix': [fstr(v) for v in m]})

    def guard(self, fn, case):
        try:
            with common.time_limit(30):
                fn(case)
        except common.TimeLimit:
            self.chk.count('timeout', case.get('stream', '?'))

    def replay(self, case, routes):
        fn = {'equation': self.case_equation, 'params': self.case_params, 'ctor': self.case_ctor,
              'chain-mixed': self.case_chain_mixed, 'stale-cache': self.case_stale, 'model-equation': self.case_model_equation, 'sources': self.case_sources,
              'cascade': self.case_cascade, 'connection': self.case_connection,
              'pivot': lambda c: self.case_pivot(c, routes)}.get(case.get('stream'))
        if fn is None:
            return False
        fn(case)
        return True
