"""C04 -- Thevenin and Norton equivalents reproduce the terminal behaviour of the original.

1. lake build Lcapy.Props.C04 (port_affine, port_affine_unique, thevenin_norton_equiv,
   thevenin_port, norton_port, load_invariance, killAll_has_no_sources), axioms audit.
2. Correspondence: Voc between random node pairs and the driving-point impedance (all sources
   AND initial conditions killed, 1 A probe) computed by the Lean MNA model from the raw netlist
   against `cct.thevenin(p, m)` / `cct.impedance(p, m)` of the real Lcapy at rational points.
3. Oracle on the real code: Voc = Isc * Z and Z * Y = 1; the port voltage with an injected
   probe current J is Voc + Z J (port_affine) for several J; an external load (R, series RC,
   series RL, R with a source) attached to the original circuit and to the Thevenin / Norton
   one-ports sees the same voltage; impedance does not depend on which node is called ground;
   impedance and transfer functions do not contain initial-condition symbols.
"""
import os
import sys
import warnings
from fractions import Fraction

sys.path.insert(0, os.path.dirname(os.path.abspath(__file__)))
import common
from common import fstr
import gen_netlist
from gen_netlist import fs
from c01 import parse_reply

warnings.filterwarnings('ignore')


def run(chk, replay=None):
    broken = chk.lean(['Lcapy/Props/C04.lean'],
                      helper_files=['Lcapy/Proofs/Linear.lean', 'Lcapy/Proofs/MNA.lean', 'Lcapy/Model/MNA.lean',
                                    'Lcapy/Model/Sources.lean', 'Lcapy/Spec/Laws.lean', 'Lcapy/Props/C03.lean'],
                      leanchecker=(chk.tier == 'thorough'))
    drv = chk.get_driver()
    import lcapy
    import sympy as S
    from lcapy import state, s as ss
    state.current_sign_convention = 'passive'
    rng = chk.rng
    quick = chk.tier == 'quick'
    ncases = 30 if quick else 300
    chk.coverage['rule'] = ('random connected netlists (R C L V I E G F H TF, step sources, with/without initial conditions) x a random '
                            'node pair (grounded or floating port); loads R, series RC, series RL, R + step source; probe currents; '
                            'non-trivial = Lcapy returns a Thevenin model with Z != 0 and the Lean model is non-singular; distinct by text + port')
    n_cex = 0
    disagreements = []

    def R_(x):
        return S.Rational(x.numerator, x.denominator)

    def at(e, sp, subs):
        x = e.sympy if hasattr(e, 'sympy') else S.sympify(e)
        x = x.subs({q: R_(subs[q.name]) for q in x.free_symbols if q.name in subs})
        x = x.subs(ss.sympy, R_(sp))
        return common.gauss_rational(S.simplify(x))

    conv_budget = [8 if quick else 120]

    def one_case(case):
        nonlocal n_cex
        if any(l.split()[0][:2] in ('TR', 'AM', 'GY') or l.split()[0][0] in 'KW' for l in case['lines']):
            chk.count('skipped', 'kind-not-used-here')
        subs = case['subs']
        text = '\n'.join(case['lcapy'])
        sp = Fraction(rng.randint(1, 9), rng.randint(2, 5))
        try:
            cct = lcapy.Circuit(text)
            nodes = [n for n in cct.node_list]
            if len(nodes) < 2:
                return
            p, m = rng.sample(nodes, 2)
            if rng.random() < 0.5 and '0' in nodes and p != '0':
                m = '0'
            th = cct.thevenin(p, m)
            no = cct.norton(p, m)
            Voc = at(th.Voc.laplace(), sp, subs)
            Z = at(th.Z, sp, subs)
            Isc = at(no.Isc.laplace(), sp, subs)
            Y = at(no.Y, sp, subs)
        except Exception as e:   # noqa
            chk.count('lcapy-error', type(e).__name__ + ':' + str(e)[:40])
            chk.case(('err', text), False)
            return
        if None in (Voc, Z, Isc, Y):
            chk.count('lcapy', 'non-rational-sample')
            chk.case(('nr', text), False)
            return
        chk.count('analysis', case['analysis'])
        chk.count('port', 'grounded' if m == '0' or p == '0' else 'floating')
        nontriv = Z != (0, 0)
        chk.case((text, p, m, sp), nontriv)
        chk.sample({'netlist': case['lcapy'], 'port': [p, m], 's': fstr(sp)})
        key_in = {'netlist': case['lcapy'], 'port': [p, m], 's': fstr(sp), 'subs': {q: fstr(v) for q, v in subs.items()}}

        def cmul(a, b):
            return (a[0] * b[0] - a[1] * b[1], a[0] * b[1] + a[1] * b[0])

        # (a) Thevenin <-> Norton consistency
        chk.count('oracle', 'voc=isc*z')
        if cmul(Isc, Z) != Voc or (nontriv and cmul(Z, Y) != (1, 0)):
            n_cex += 1
            chk.counterexample({'kind': 'thevenin-norton-consistency'},
                               {'input': key_in, 'lcapy': {'Voc': str(Voc), 'Z': str(Z), 'Isc': str(Isc), 'Y': str(Y)},
                                'spec': 'Voc = Isc Z and Z Y = 1'}, 'Thevenin and Norton models are not equivalent')
        # (a') Voc = Isc Z also holds for the models reported under the other documented current sign conventions
        #      (hybrid, active): the property does not restrict the configuration
        if conv_budget[0] > 0:
            conv_budget[0] -= 1
            for cv in ('hybrid', 'active'):
                try:
                    state.current_sign_convention = cv
                    c_cv = lcapy.Circuit(text)
                    no_cv = c_cv.norton(p, m)
                    th_cv = c_cv.thevenin(p, m)
                    Isc_cv = at(no_cv.Isc.laplace(), sp, subs)
                    Voc_cv = at(th_cv.Voc.laplace(), sp, subs)
                    Z_cv = at(th_cv.Z, sp, subs)
                except Exception as e:   # noqa
                    chk.count('lcapy-error', 'convention:' + type(e).__name__)
                    continue
                finally:
                    state.current_sign_convention = 'passive'
                chk.count('oracle', 'models-under-%s' % cv)
                if None not in (Isc_cv, Voc_cv, Z_cv) and cmul(Isc_cv, Z_cv) != Voc_cv:
                    n_cex += 1
                    chk.counterexample({'kind': 'thevenin-norton-consistency', 'convention': cv},
                                       {'input': dict(key_in, current_sign_convention=cv),
                                        'lcapy': {'Voc': str(Voc_cv), 'Z': str(Z_cv), 'Isc': str(Isc_cv), 'passive': {'Voc': str(Voc), 'Z': str(Z), 'Isc': str(Isc)}},
                                        'spec': 'Voc = Isc Z under every current sign convention'},
                                       'Thevenin and Norton models are not equivalent under current_sign_convention=%s' % cv)
                    break
        # (b) no initial-condition symbols/values leak into Z: compare with the IC-free circuit
        try:
            l_noic = []
            for ll in case['lcapy']:
                tk = ll.split()
                if tk[0][0] in 'CL' and len(tk) == 5:
                    tk = tk[:4]
                l_noic.append(' '.join(tk))
            Z0 = at(lcapy.Circuit('\n'.join(l_noic)).impedance(p, m), sp, subs)
            chk.count('oracle', 'z-ignores-ics')
            if Z0 is not None and Z0 != Z:
                n_cex += 1
                chk.counterexample({'kind': 'impedance-ics'},
                                   {'input': key_in, 'lcapy': {'Z': str(Z), 'Z without ICs': str(Z0)},
                                    'spec': 'impedance is that of the network with initial conditions set to zero'},
                                   'driving-point impedance depends on initial conditions')
        except Exception as e:   # noqa
            chk.count('lcapy-error', 'noic:' + type(e).__name__)
        # (c) port_affine on the real code: inject J (a step) and compare with Voc + Z J / s
        for J in (Fraction(1), Fraction(-5, 2)):
            try:
                c2 = lcapy.Circuit(text + '\nIprobe_ %s %s step %s' % (p, m, fs(J)))
                vp = at((c2[p].V.laplace() - c2[m].V.laplace()), sp, subs)
                want = (Voc[0] + (Z[0] * J) / sp, Voc[1] + (Z[1] * J) / sp)
                chk.count('oracle', 'port-affine')
                if vp is not None and vp != want:
                    n_cex += 1
                    chk.counterexample({'kind': 'port-affine'},
                                       {'input': dict(key_in, probe=fstr(J)), 'lcapy': {'V_port': str(vp), 'Voc + Z J/s': str(want)},
                                        'spec': 'port voltage is Voc + Z times the injected current'},
                                       'port voltage is not affine in the injected current with slope Z and offset Voc')
                    break
            except Exception as e:   # noqa
                chk.count('lcapy-error', 'probe:' + type(e).__name__)
        # (d) load invariance: original + load  vs  thevenin | load  vs  norton | load
        if nontriv:
            ld = rng.choice(['R', 'RC', 'RL', 'RV'])
            rl = Fraction(rng.randint(1, 9), rng.randint(1, 3))
            try:
                if ld == 'R':
                    lines_l = ['Rload_ %s %s %s' % (p, m, fs(rl))]
                    op = lcapy.R(R_(rl))
                elif ld == 'RC':
                    lines_l = ['Rload_ %s nl_ %s' % (p, fs(rl)), 'Cload_ nl_ %s 2' % m]
                    op = lcapy.R(R_(rl)) + lcapy.C(2)
                elif ld == 'RL':
                    lines_l = ['Rload_ %s nl_ %s' % (p, fs(rl)), 'Lload_ nl_ %s 3' % m]
                    op = lcapy.R(R_(rl)) + lcapy.L(3)
                else:
                    lines_l = ['Rload_ %s nl_ %s' % (p, fs(rl)), 'Vload_ nl_ %s step 2' % m]
                    op = lcapy.R(R_(rl)) + lcapy.Vstep(2)
                chk.count('load', ld)
                c3 = lcapy.Circuit(text + '\n' + '\n'.join(lines_l))
                v_orig = at(c3[p].V.laplace() - c3[m].V.laplace(), sp, subs)
                v_th = at((th | op).cct[1].V.laplace(), sp, subs)
                v_no = at((no | op).cct[1].V.laplace(), sp, subs)
                chk.count('oracle', 'load-invariance')
                if None not in (v_orig, v_th, v_no) and not (v_orig == v_th == v_no):
                    n_cex += 1
                    chk.counterexample({'kind': 'load-invariance', 'load': ld},
                                       {'input': dict(key_in, load=lines_l), 'lcapy': {'original': str(v_orig), 'thevenin': str(v_th), 'norton': str(v_no)},
                                        'spec': 'same load voltage with the original, the Thevenin model and the Norton model'},
                                       'load voltage changes when the circuit is replaced by its equivalent')
            except Exception as e:   # noqa
                chk.count('lcapy-error', 'load:' + type(e).__name__ + str(e)[:30])
        # (e) ground independence of the impedance
        try:
            other = [n for n in nodes if n not in ('0',)]
            if other:
                g = rng.choice(other)
                sw = {'0': g, g: '0'}
                l_sw = []
                for ll in case['lcapy']:
                    tk = ll.split()
                    ty = ''.join(ch for ch in tk[0] if ch.isalpha())
                    nn = {'TF': 4, 'GY': 4, 'E': 4, 'G': 4}.get(ty, 0 if ty == 'K' else 2)
                    for i in range(1, 1 + nn):
                        tk[i] = sw.get(tk[i], tk[i])
                    l_sw.append(' '.join(tk))
                Zg = at(lcapy.Circuit('\n'.join(l_sw)).impedance(sw.get(p, p), sw.get(m, m)), sp, subs)
                chk.count('oracle', 'ground-independence')
                if Zg is not None and Zg != Z and not any(l.split()[0][:2] == 'TR' for l in case['lcapy']):
                    n_cex += 1
                    chk.counterexample({'kind': 'ground-dependence'},
                                       {'input': dict(key_in, regrounded=l_sw), 'lcapy': {'Z': str(Z), 'Z regrounded': str(Zg)},
                                        'spec': 'impedance does not depend on which node is grounded'},
                                       'driving-point impedance depends on the choice of ground')
        except Exception as e:   # noqa
            chk.count('lcapy-error', 'reground:' + type(e).__name__)
        # ---- correspondence with the Lean model: Voc and Z from the raw netlist
        if not subs and not any(l.split()[0][:2] in ('TR',) for l in case['lines']):
            an = ('ivp %s' if any(l.split()[0][0] in 'CL' and len(l.split()) == 5 for l in case['lines']) else 's %s') % fstr(sp)
            rep = drv.ask1('mna.solve %s || %s' % (an, ' || '.join(case['lines'])))
            killed = []
            for ll in case['lines']:
                tk = ll.split()
                if tk[0][0] in 'VI' and tk[0][1:].isdigit():
                    tk = tk[:3] + ['step', '0']
                if tk[0][0] in 'CL' and len(tk) == 5:
                    tk = tk[:4]
                killed.append(' '.join(tk))
            killed.append('Iprobe_ %s %s step 1' % (p, m))
            rep2 = drv.ask1('mna.solve s %s || %s' % (fstr(sp), ' || '.join(killed)))
            if rep.startswith('ok') and rep2.startswith('ok'):
                mv = parse_reply(rep)['V']
                mz = parse_reply(rep2)['V']
                mVoc = (mv[p][0] - mv[m][0], mv[p][1] - mv[m][1])
                mZ = ((mz[p][0] - mz[m][0]) * sp, (mz[p][1] - mz[m][1]) * sp)
                chk.coverage['correspondence']['compared'] += 1
                chk.count('model', 'voc-and-z-compared')
                if mVoc != Voc or mZ != Z:
                    chk.coverage['correspondence']['disagreements'] += 1
                    disagreements.append({'netlist': case['lines'], 'port': [p, m], 's': fstr(sp),
                                          'lcapy': {'Voc': str(Voc), 'Z': str(Z)}, 'model': {'Voc': str(mVoc), 'Z': str(mZ)}})
            else:
                chk.count('model', (rep if not rep.startswith('ok') else rep2)[:30])


    done = 0
    attempts = 0
    while done < ncases and attempts < 6 * ncases:
        attempts += 1
        case = gen_netlist.random_case(rng, analysis=rng.choice(['s', 's', 'ivp']), max_nodes=5)
        # keep only circuits the Lean model finds non-singular at a probe point (ill-posed draws are outside the property)
        pre = drv.ask1('mna.solve %s 5/3 || %s' % ('ivp' if any(l.split()[0][0] in 'CL' and len(l.split()) == 5 for l in case['lines']) else 's',
                                                    ' || '.join(case['lines'])))
        if not pre.startswith('ok'):
            chk.count('generator', 'rejected:' + pre.split(':')[0][:20])
            continue
        done += 1
        try:
            with common.time_limit(60 if quick else 120):
                one_case(case)
        except common.TimeLimit:
            chk.count('lcapy-error', 'time-limit')
            chk.case(('timeout', tuple(case['lcapy'])), False)

    # ---- one-port networks: net.thevenin() / net.norton() against the network itself
    def leaf(kind):
        a = R_(Fraction(rng.randint(1, 9), rng.randint(1, 3)))
        b = R_(Fraction(rng.randint(1, 9), rng.randint(1, 3)) * rng.choice([1, -1]))
        if kind == 'R':
            return lcapy.R(a)
        if kind == 'C':
            return lcapy.C(a, b) if rng.random() < 0.5 else lcapy.C(a)
        if kind == 'L':
            return lcapy.L(a, b) if rng.random() < 0.5 else lcapy.L(a)
        if kind == 'V':
            return lcapy.Vstep(b)
        return lcapy.Istep(b)

    def tree(depth, top='ser'):
        n = rng.randint(2, 4)
        if top == 'ser':
            kinds = [rng.choice(['R', 'C', 'L', 'V', 'C', 'R']) for _ in range(n)]
        else:
            kinds = [rng.choice(['R', 'C', 'L', 'I', 'R']) for _ in range(n)]
        parts = []
        for kd in kinds:
            if depth > 0 and rng.random() < 0.35:
                parts.append(tree(depth - 1, 'par' if top == 'ser' else 'ser'))
            else:
                parts.append(leaf(kd))
        net = parts[0]
        for q in parts[1:]:
            net = (net + q) if top == 'ser' else (net | q)
        return net

    def directed_net(i):
        """a source with a network whose total immittance is purely inductive / capacitive / resistive (the forms for which
        the models are built by `.cpt()` from k/s, k*s, k), single and combined elements"""
        a = R_(Fraction(rng.randint(2, 9), rng.randint(1, 3)))
        a2 = R_(Fraction(rng.randint(2, 9), rng.randint(1, 3)))
        b = R_(Fraction(rng.randint(1, 9), rng.randint(1, 3)) * rng.choice([1, -1]))
        X = [lcapy.L, lcapy.C, lcapy.R][i % 3]
        form = (i // 3) % 4
        if form == 0:
            return lcapy.Vstep(b) + X(a)
        if form == 1:
            return lcapy.Istep(b) | X(a)
        if form == 2:
            return lcapy.Vstep(b) + X(a) + X(a2)
        return lcapy.Vstep(b) + (X(a) | X(a2))

    nnets = 14 if quick else 200
    ndirected_nets = 12 if quick else 48
    for k in range(nnets + ndirected_nets):
        sp = Fraction(rng.randint(1, 9), rng.randint(2, 5))
        try:
            with common.time_limit(20):
                net = directed_net(k) if k < ndirected_nets else tree(1, rng.choice(['ser', 'par']))
                desc = str(net)
                Voc0 = at(net.Voc.laplace(), sp, {})
                Z0 = at(net.Z, sp, {})
                th = net.thevenin()
                no = net.norton()
                VocT, ZT = at(th.Voc.laplace(), sp, {}), at(th.Z, sp, {})
                IscN, YN = at(no.Isc.laplace(), sp, {}), at(no.Y, sp, {})
                Isc0 = at(net.Isc.laplace(), sp, {})
        except (Exception, common.TimeLimit) as e:   # noqa
            chk.count('lcapy-error', 'oneport:' + type(e).__name__)
            chk.case(('oneport-err', k), False)
            continue
        if None in (Voc0, Z0, VocT, ZT, IscN, YN, Isc0):
            chk.case(('oneport-nr', desc), False)
            continue
        chk.case(('oneport', desc, sp), True)
        chk.count('oracle', 'oneport-models')
        if len(chk.coverage['samples']) < 8:
            chk.sample({'oneport': desc, 's': fstr(sp)})
        def close(a, b):
            # thevenin()/norton() of a one-port go through the time domain with numerically found roots, so their
            # values may carry floating-point noise: compare with a relative tolerance, never exactly
            da = abs(complex(float(a[0]), float(a[1])) - complex(float(b[0]), float(b[1])))
            return da <= 1e-7 * max(1.0, abs(complex(float(b[0]), float(b[1]))))
        bad = None
        yz = (YN[0] * Z0[0] - YN[1] * Z0[1], YN[0] * Z0[1] + YN[1] * Z0[0])
        y_ok = Z0 == (0, 0) or close(yz, (Fraction(1), Fraction(0)))
        if not close(VocT, Voc0) or not close(ZT, Z0):
            bad = 'thevenin() model (Voc %s, Z %s) differs from the network (Voc %s, Z %s)' % (VocT, ZT, Voc0, Z0)
        elif not close(IscN, Isc0) or not y_ok:
            bad = 'norton() model (Isc %s, Y %s) differs from the network (Isc %s, Z %s; Y Z = %s)' % (IscN, YN, Isc0, Z0, yz)
        elif (VocT, ZT, IscN) != (Voc0, Z0, Isc0):
            chk.count('oneport', 'equal-up-to-float-noise')
        if bad:
            n_cex += 1
            chk.counterexample({'kind': 'oneport-model'},
                               {'input': {'oneport': desc, 's': fstr(sp)}, 'lcapy': bad,
                                'spec': 'the Thevenin / Norton model of a one-port has the Voc, Isc, Z, Y of the one-port'},
                               'one-port Thevenin/Norton model differs from the network it was derived from')

    # ---- transfer functions: transfer / voltage_gain / transimpedance / current_gain / transadmittance are those of the
    #      network with the independent sources killed and zero initial conditions.  Spec side: the Lean MNA model of the
    #      killed netlist with a unit test source at port 1 (and a 0 V short at port 2 for the short-circuit quantities).
    #      Ladder-shaped netlists of six or more elements take Lcapy's ladder shortcut; outputs at interior nodes included.
    def ladder_net():
        nsec = rng.randint(3, 5)
        lines = []
        cnt = {}
        def nm(t):
            cnt[t] = cnt.get(t, 0) + 1
            return '%s%d' % (t, cnt[t])
        def val():
            return fs(Fraction(rng.randint(1, 9), rng.randint(1, 3)))
        node = 1
        for i in range(nsec):
            ty = rng.choice(['R', 'R', 'L', 'C'])
            lines.append('%s %d %d %s' % (nm(ty), node, node + 1, val()))
            node += 1
            ty = rng.choice(['C', 'C', 'R', 'L'])
            if rng.random() < 0.25:      # a two-element shunt arm
                mid = 'm%d' % node
                lines.append('%s %d %s %s' % (nm(ty), node, mid, val()))
                lines.append('%s %s 0 %s' % (nm('R'), mid, val()))
            else:
                lines.append('%s %d 0 %s' % (nm(ty), node, val()))
        extra = []
        if rng.random() < 0.4:           # an independent source inside the network (to be killed)
            extra = ['I1 0 %d step %s' % (rng.randint(2, node), val())]
        return lines, extra, node

    def killed_lines(lines):
        out = []
        for ll in lines:
            tk = ll.split()
            if tk[0][0] == 'V':
                out.append('W %s %s' % (tk[1], tk[2]))
            elif tk[0][0] == 'I':
                continue
            elif tk[0][0] in 'CL' and len(tk) == 5:
                out.append(' '.join(tk[:4]))
            else:
                out.append(ll)
        return out

    for k in range(10 if quick else 150):
        sp = Fraction(rng.randint(1, 9), rng.randint(2, 5))
        if k % 5 == 4:
            case = gen_netlist.random_case(rng, analysis='s', max_nodes=5)
            if case['subs'] or any(l.split()[0][0] in 'KW' or l.split()[0][:2] in ('TR', 'AM', 'GY', 'TF') for l in case['lines']):
                continue
            lines, extra = case['lines'], []
            nodes_ = sorted({n_ for l in lines for n_ in l.split()[1:3]} - {'0'})
            if len(nodes_) < 2:
                continue
            p1, p2 = rng.sample(nodes_, 2)
            family = 'random'
        else:
            lines, extra, last = ladder_net()
            p1, p2 = '1', str(rng.randint(2, last))
            family = 'ladder-interior' if p2 != str(last) else 'ladder-end'
        klines = killed_lines(lines)
        text = '\n'.join(lines + extra)
        chk.count('transfer-family', family)
        want = {}
        r1 = drv.ask1('mna.solve s %s || %s' % (fstr(sp), ' || '.join(klines + ['Vt_ %s 0 step %s' % (p1, fs(sp))])))
        r2 = drv.ask1('mna.solve s %s || %s' % (fstr(sp), ' || '.join(klines + ['It_ %s 0 step %s' % (p1, fs(sp))])))
        r3 = drv.ask1('mna.solve s %s || %s' % (fstr(sp), ' || '.join(klines + ['Vt_ %s 0 step %s' % (p1, fs(sp)), 'Vsh_ %s 0 step 0' % p2])))
        r4 = drv.ask1('mna.solve s %s || %s' % (fstr(sp), ' || '.join(klines + ['It_ %s 0 step %s' % (p1, fs(sp)), 'Vsh_ %s 0 step 0' % p2])))
        if r1.startswith('ok'):
            want['transfer'] = want['voltage_gain'] = parse_reply(r1)['V'][p2]
        if r2.startswith('ok'):
            want['transimpedance'] = parse_reply(r2)['V'][p2]
        if r3.startswith('ok'):
            j = parse_reply(r3)['J']['Vsh_']
            want['transadmittance'] = (-j[0], -j[1])
        if r4.startswith('ok'):
            j = parse_reply(r4)['J']['Vsh_']
            want['current_gain'] = (-j[0], -j[1])
        chk.case(('transfer', text, p1, p2, sp), bool(want))
        if not want:
            chk.count('model', 'transfer:' + r1[:20])
            continue
        try:
            with common.time_limit(60):
                cct = lcapy.Circuit(text)
                got = {q: at(getattr(cct, q)(p1, 0, p2, 0), sp, {}) for q in want}
        except (Exception, common.TimeLimit) as e:   # noqa
            chk.count('lcapy-error', 'transfer:' + type(e).__name__ + ':' + str(e)[:40])
            continue
        for q in sorted(want):
            chk.count('oracle', 'transfer-function:' + q)
            if got[q] is not None and got[q] != want[q]:
                n_cex += 1
                chk.counterexample({'kind': 'transfer-function', 'quantity': q, 'family': family},
                                   {'input': {'netlist': lines + extra, 'port1': [p1, '0'], 'port2': [p2, '0'], 's': fstr(sp)},
                                    'lcapy': {q: str(got[q])}, 'spec': '%s of the killed network by the Lean MNA model = %s' % (q, want[q])},
                                   '%s(%s,0,%s,0) is not that of the network with sources killed' % (q, p1, p2))
                break

    chk.coverage['correspondence']['samples_of_disagreement'] = disagreements[:5]
    if broken and n_cex == 0:
        for b in broken[:20]:
            chk.unexplained('broken-obligation', b, chk.coverage.get('build_log_tail', '')[-600:])
    if disagreements and n_cex == 0:
        chk.unexplained('broken-correspondence', 'Voc / Z model vs lcapy', disagreements[0])


if __name__ == '__main__':
    common.main_wrapper('C04', run)
