"""C04 -- Thevenin and Norton equivalents reproduce the terminal behaviour of the original.

1. lake build Lcapy.Props.C04 (port_affine, port_affine_unique, thevenin_norton_equiv, thevenin_port, norton_port,
   load_invariance, killAll_has_no_sources), Props/C04Ground (reground_laws_iff, measure_ground_independent and the
   seven quantities), Props/C04Ops (killAll_indep_zero, killed_ivp_is_lap, experiments_from_source, voc_keeps_ics,
   zparams_rel, yparams_rel, …), Props/C04Load (load_substitution, thevenin_any_load, model_any_load, isc_voc_zth,
   impedance_admittance_inverse), the auditors' witness file Props/NonVacuityC04; axioms audit.
2. Correspondence: Voc between random node pairs and the driving-point impedance (all sources
   AND initial conditions killed, 1 A probe) computed by the Lean MNA model from the raw netlist
   against `cct.thevenin(p, m)` / `cct.impedance(p, m)` of the real Lcapy at rational points.
3. Oracle on the real code: Voc = Isc * Z and Z * Y = 1; the port voltage with an injected
   probe current J is Voc + Z J (port_affine) for several J; an external load (R, series RC,
   series RL, R with a source) attached to the original circuit and to the Thevenin / Norton
   one-ports sees the same voltage; impedance does not depend on which node is called ground;
   impedance and transfer functions do not contain initial-condition symbols.
4. Round 3: ports of ac (phasor) and dc circuits through their own analysis kinds; the port experiments are built by
   the LEAN model from the raw netlist (`port.*` requests: kill, probe, re-ground, two-port drive); re-grounding through
   Lcapy's own `_add_ground` (netlist without a node 0); two-port extraction (Zparams, Yparams, Aparams, Hparams,
   twoport()) judged by the C08 port relations on the driven killed netlist.
"""
import os
import sys
import warnings
from fractions import Fraction

sys.path.insert(0, os.path.dirname(os.path.abspath(__file__)))
import common
from common import fstr
import gen_netlist
from gen_netlist import fs
from c01 import parse_reply, norm

warnings.filterwarnings('ignore')


def lean_with_retry(chk, files, **kw):
    """`chk.lean`, repeated when the axiom audit itself could not run: the audit (`lake env lean <audit file>`) is not
    under the build lock, so it fails with a Lean error when another engineer's build is rewriting a shared .olean at that
    moment.  That is infrastructure trouble, not a broken obligation; a persistent failure is reported as such."""
    import time as _t
    broken = []
    for attempt in range(3):
        broken = chk.lean(files, **kw)
        if 'audit:lean-error' not in broken:
            return broken
        chk.count('infrastructure', 'axiom-audit-retried')
        _t.sleep(15 + 15 * attempt)
    raise common.Infra('the axiom audit could not run: ' + str(chk.coverage.get('audit', {}).get('log', ''))[-400:])


class hard_time_limit(common.time_limit):
    """like common.time_limit, but the alarm re-arms itself: Lcapy has bare `except:` clauses that swallow the first
    TimeLimit, after which the computation would run unbounded"""

    def __enter__(self):
        import signal

        def handler(signum, frame):
            signal.alarm(1)
            raise common.TimeLimit('time limit %ds' % self.seconds)
        self.old = signal.signal(signal.SIGALRM, handler)
        signal.alarm(self.seconds)
        return self


def run(chk, replay=None):
    from translate import tx_portops
    gtext, ginfo = tx_portops.generate(common.REPO)
    gen_path = os.path.join(common.LEAN, 'Lcapy', 'Generated', 'PortOps.lean')
    with common.LakeLock():
        if not os.path.exists(gen_path) or open(gen_path).read() != gtext:
            with open(gen_path, 'w') as f:
                f.write(gtext)
    chk.coverage['translator'] = {'status': 'ok' if not ginfo['unparsed'] else 'partial', 'unparsed': ginfo['unparsed'],
                                  'operations': [list(r[:1]) + [r[2], r[4], r[6]] for r in ginfo['ops']],
                                  'helpers': [list(h[:5]) for h in ginfo['helpers']],
                                  'killNoArgsKillsICs': ginfo['killNoArgsKillsICs'], 'addGround': ginfo['addGround']}
    broken = lean_with_retry(chk, ['Lcapy/Props/C04.lean', 'Lcapy/Props/C04Ground.lean', 'Lcapy/Props/C04Ops.lean', 'Lcapy/Props/C04Load.lean',
                                   'Lcapy/Props/C04OnePort.lean', 'Lcapy/Props/NonVacuityC04.lean'],
                      helper_files=['Lcapy/Proofs/Linear.lean', 'Lcapy/Proofs/MNA.lean', 'Lcapy/Model/MNA.lean',
                                    'Lcapy/Model/Sources.lean', 'Lcapy/Spec/Laws.lean', 'Lcapy/Props/C03.lean',
                                    'Lcapy/Proofs/Ground.lean', 'Lcapy/Proofs/PortOps.lean', 'Lcapy/Model/PortOps.lean', 'Lcapy/Generated/PortOps.lean', 'Lcapy/Driver/C04.lean'],
                      leanchecker=(chk.tier == 'thorough'))
    import time as _time
    tmark = {'t': chk.t0}
    timing = chk.coverage.setdefault('timing_s', {})

    def mark(name):
        now = _time.time()
        timing[name] = round(timing.get(name, 0) + now - tmark['t'], 1)
        tmark['t'] = now
    drv = chk.get_driver()
    mark('lean-build-and-audit')
    import lcapy
    import sympy as S
    from lcapy import state, s as ss
    state.current_sign_convention = 'passive'
    rng = chk.rng
    quick = chk.tier == 'quick'
    ncases = 30 if quick else 300
    chk.coverage['rule'] = ('random connected netlists (R C L V I E G F H TF, step sources, with/without initial conditions) x a random '
                            'node pair (grounded or floating port); loads R, series RC, series RL, R + step source; probe currents; '
                            'non-trivial = Lcapy returns a Thevenin model with Z != 0 and the Lean model is non-singular; distinct by text + port')
    n_cex = 0
    disagreements = []

    def R_(x):
        return S.Rational(x.numerator, x.denominator)

    def at(e, sp, subs):
        x = e.sympy if hasattr(e, 'sympy') else S.sympify(e)
        x = x.subs({q: R_(subs[q.name]) for q in x.free_symbols if q.name in subs})
        x = x.subs(ss.sympy, R_(sp))
        return common.gauss_rational(S.simplify(x))

    conv_budget = [6 if quick else 120]

    def cmul(a, b):
        return (a[0] * b[0] - a[1] * b[1], a[0] * b[1] + a[1] * b[0])

    def one_case(case):
        """one netlist x one node pair, in the analysis kind of the netlist: 's' (step sources, zero state), 'ivp' (initial
        conditions), 'ac' (phasors at the netlist's angular frequency), 'dc'"""
        nonlocal n_cex
        subs = case['subs']
        kind = case['analysis']
        text = '\n'.join(case['lcapy'])
        sp = Fraction(rng.randint(1, 9), rng.randint(2, 5))
        om = case.get('omega')
        has_ic = any(l.split()[0][0] in 'CL' and len(l.split()) == 5 for l in case['lines'])
        if kind == 'ac':
            an_tok, pt = 'ac %s' % fstr(om), (Fraction(0), om)         # s = j omega
        elif kind == 'dc':
            an_tok, pt = 'dc', (Fraction(0), Fraction(0))
        else:
            an_tok, pt = ('ivp %s' if has_ic else 's %s') % fstr(sp), (sp, Fraction(0))
        ptS = R_(pt[0]) + S.I * R_(pt[1])

        def imm(e):
            """an immittance / transfer function at the analysis point"""
            x = e.sympy if hasattr(e, 'sympy') else S.sympify(e)
            x = x.subs({q: R_(subs[q.name]) for q in x.free_symbols if q.name in subs})
            x = S.simplify(x.subs(ss.sympy, ptS))
            if x.has(S.zoo, S.nan, S.oo):
                return None
            return common.gauss_rational(x)

        def src(X):
            """a voltage / current (superposition) in the analysis domain of this netlist"""
            if kind in ('s', 'ivp'):
                return at(X.laplace(), sp, subs)
            if kind == 'dc':
                x = X.dc
            else:
                ks = [k_ for k_ in X.ac_keys() if S.simplify(S.sympify(k_) - R_(om)) == 0]
                if not ks:
                    return (Fraction(0), Fraction(0))
                x = X[ks[0]]
            x = x.sympy if hasattr(x, 'sympy') else S.sympify(x)
            x = x.subs({q: R_(subs[q.name]) for q in x.free_symbols if q.name in subs})
            return common.gauss_rational(S.expand_complex(S.simplify(x)))

        def probe_line(name, p_, m_, J):
            if kind == 'ac':
                return '%s %s %s ac %s 0 %s' % (name, p_, m_, fs(J), fs(om))
            if kind == 'dc':
                return '%s %s %s dc %s' % (name, p_, m_, fs(J))
            return '%s %s %s step %s' % (name, p_, m_, fs(J))

        def probe_val(J):
            """value of that probe source in the analysis domain"""
            return (J / sp, Fraction(0)) if kind in ('s', 'ivp') else (J, Fraction(0))

        try:
            cct = lcapy.Circuit(text)
            nodes = [n for n in cct.node_list]
            if len(nodes) < 2:
                return
            p, m = rng.sample(nodes, 2)
            if rng.random() < 0.5 and '0' in nodes and p != '0':
                m = '0'
        except Exception as e:   # noqa
            chk.count('lcapy-error', kind + ':' + type(e).__name__ + ':' + str(e)[:40])
            chk.case(('err', text), False)
            return
        # the two models are requested separately: across a voltage source (Z = 0) only the Thevenin model exists, across
        # an open pair (Y = 0) only the Norton model; whatever exists is checked
        th = no = Voc = Z = Isc = Y = None
        try:
            th = cct.thevenin(p, m)
            Voc, Z = src(th.Voc), imm(th.Z)
        except Exception as e:   # noqa
            chk.count('lcapy-error', kind + ':thevenin:' + type(e).__name__ + ':' + str(e)[:30])
            th = None
        try:
            no = cct.norton(p, m)
            Isc, Y = src(no.Isc), imm(no.Y)
        except Exception as e:   # noqa
            chk.count('lcapy-error', kind + ':norton:' + type(e).__name__ + ':' + str(e)[:30])
            no = None
        if th is not None and None in (Voc, Z):
            chk.count('lcapy', 'thevenin-undefined-at-the-point:' + kind)
            th = None
        if no is not None and None in (Isc, Y):
            chk.count('lcapy', 'norton-undefined-at-the-point:' + kind)
            no = None
        if th is None and no is None:
            chk.case(('nr', text), False)
            return
        if th is None:
            # the Thevenin quantities from the Norton ones when Y != 0 (they are compared with the model and the probes below)
            if Y == (0, 0):
                chk.count('lcapy', 'only-norton-with-Y=0')
                chk.case(('nr', text), False)
                return
            d_ = Y[0] * Y[0] + Y[1] * Y[1]
            Z = (Y[0] / d_, -Y[1] / d_)
            Voc = cmul(Isc, Z)
        chk.count('models', ('thevenin' if th is not None else '') + ('+' if th is not None and no is not None else '') + ('norton' if no is not None else ''))
        chk.count('analysis', kind + ('+ics' if has_ic else ''))
        chk.count('port', 'grounded' if m == '0' or p == '0' else 'floating')
        nontriv = Z != (0, 0)
        chk.case((text, p, m, sp), nontriv)
        chk.sample({'netlist': case['lcapy'], 'port': [p, m], 'analysis': an_tok})
        key_in = {'netlist': case['lcapy'], 'port': [p, m], 'analysis': an_tok, 's': fstr(sp), 'subs': {q: fstr(v) for q, v in subs.items()}}
        ktag = {} if kind in ('s', 'ivp') else {'analysis': kind}
        both = th is not None and no is not None

        # (a) Thevenin <-> Norton consistency
        if both:
            chk.count('oracle', 'voc=isc*z')
        if both and (cmul(Isc, Z) != Voc or (nontriv and cmul(Z, Y) != (1, 0))):
            n_cex += 1
            chk.counterexample(dict({'kind': 'thevenin-norton-consistency'}, **ktag),
                               {'input': key_in, 'lcapy': {'Voc': str(Voc), 'Z': str(Z), 'Isc': str(Isc), 'Y': str(Y)},
                                'spec': 'Voc = Isc Z and Z Y = 1'}, 'Thevenin and Norton models are not equivalent')
        # (a') Voc = Isc Z also holds for the models reported under the other documented current sign conventions
        #      (hybrid, active): the property does not restrict the configuration
        if both and conv_budget[0] > 0 and kind in ('s', 'ivp'):
            conv_budget[0] -= 1
            for cv in ('hybrid', 'active'):
                try:
                    state.current_sign_convention = cv
                    c_cv = lcapy.Circuit(text)
                    no_cv = c_cv.norton(p, m)
                    th_cv = c_cv.thevenin(p, m)
                    Isc_cv = at(no_cv.Isc.laplace(), sp, subs)
                    Voc_cv = at(th_cv.Voc.laplace(), sp, subs)
                    Z_cv = at(th_cv.Z, sp, subs)
                except Exception as e:   # noqa
                    chk.count('lcapy-error', 'convention:' + type(e).__name__)
                    continue
                finally:
                    state.current_sign_convention = 'passive'
                chk.count('oracle', 'models-under-%s' % cv)
                if None not in (Isc_cv, Voc_cv, Z_cv) and cmul(Isc_cv, Z_cv) != Voc_cv:
                    n_cex += 1
                    chk.counterexample({'kind': 'thevenin-norton-consistency', 'convention': cv},
                                       {'input': dict(key_in, current_sign_convention=cv),
                                        'lcapy': {'Voc': str(Voc_cv), 'Z': str(Z_cv), 'Isc': str(Isc_cv), 'passive': {'Voc': str(Voc), 'Z': str(Z), 'Isc': str(Isc)}},
                                        'spec': 'Voc = Isc Z under every current sign convention'},
                                       'Thevenin and Norton models are not equivalent under current_sign_convention=%s' % cv)
                    break
        # (b) kills_ics on the real code: the killed circuit has no independent source and no initial condition, and
        #     no initial-condition symbols/values leak into Z: compare with the IC-free circuit
        try:
            kn = cct.kill()
            # (a voltage source that controls a CCCS / CCVS is kept as a 0 V source, `cpt._zero()`: that IS killed)
            left = [x_.name for x_ in kn.elements.values() if x_.has_ic]
            for sn in kn.independent_sources:
                el_ = kn.elements[sn]
                if not ((el_.is_voltage_source and el_.Voc == 0) or (el_.is_current_source and el_.Isc == 0)):
                    left.append(sn)
            chk.count('oracle', 'kill-leaves-nothing')
            if left:
                n_cex += 1
                chk.counterexample({'kind': 'impedance-ics', 'where': 'kill'},
                                   {'input': key_in, 'lcapy': {'killed netlist': str(kn.netlist()), 'still live': left},
                                    'spec': 'kill() zeroes every independent source and every initial condition'},
                                   'kill() leaves sources or initial conditions alive: %s' % left)
            l_noic = []
            for ll in case['lcapy']:
                tk = ll.split()
                if tk[0][0] in 'CL' and len(tk) == 5:
                    tk = tk[:4]
                l_noic.append(' '.join(tk))
            if has_ic:
                Z0 = imm(lcapy.Circuit('\n'.join(l_noic)).impedance(p, m))
                chk.count('oracle', 'z-ignores-ics')
                if Z0 is not None and Z0 != Z:
                    n_cex += 1
                    chk.counterexample({'kind': 'impedance-ics'},
                                       {'input': key_in, 'lcapy': {'Z': str(Z), 'Z without ICs': str(Z0)},
                                        'spec': 'impedance is that of the network with initial conditions set to zero'},
                                       'driving-point impedance depends on initial conditions')
        except Exception as e:   # noqa
            chk.count('lcapy-error', 'noic:' + type(e).__name__)
        # (c) port_affine on the real code: inject J and compare with Voc + Z J
        for J in (Fraction(1), Fraction(-5, 2)):
            try:
                c2 = lcapy.Circuit(text + '\n' + probe_line('Iprobe_', p, m, J))
                vp = src(c2[p].V - c2[m].V)
                zj = cmul(Z, probe_val(J))
                want = (Voc[0] + zj[0], Voc[1] + zj[1])
                chk.count('oracle', 'port-affine')
                if vp is not None and vp != want:
                    n_cex += 1
                    chk.counterexample(dict({'kind': 'port-affine'}, **ktag),
                                       {'input': dict(key_in, probe=fstr(J)), 'lcapy': {'V_port': str(vp), 'Voc + Z J': str(want)},
                                        'spec': 'port voltage is Voc + Z times the injected current'},
                                       'port voltage is not affine in the injected current with slope Z and offset Voc')
                    break
            except Exception as e:   # noqa
                chk.count('lcapy-error', 'probe:' + type(e).__name__)
        # (d) load invariance: original + load  vs  thevenin | load  vs  norton | load, in the netlist's own analysis kind
        if nontriv:
            ld = rng.choice(['R', 'RC', 'RL', 'RV'] if kind != 'dc' else ['R', 'RV', 'RL'])
            rl = Fraction(rng.randint(1, 9), rng.randint(1, 3))
            try:
                if ld == 'R':
                    lines_l = ['Rload_ %s %s %s' % (p, m, fs(rl))]
                    op = lcapy.R(R_(rl))
                elif ld == 'RC':
                    lines_l = ['Rload_ %s nl_ %s' % (p, fs(rl)), 'Cload_ nl_ %s 2' % m]
                    op = lcapy.R(R_(rl)) + lcapy.C(2)
                elif ld == 'RL':
                    lines_l = ['Rload_ %s nl_ %s' % (p, fs(rl)), 'Lload_ nl_ %s 3' % m]
                    op = lcapy.R(R_(rl)) + lcapy.L(3)
                elif kind == 'ac':
                    lines_l = ['Rload_ %s nl_ %s' % (p, fs(rl)), 'Vload_ nl_ %s ac 2 0 %s' % (m, fs(om))]
                    op = lcapy.R(R_(rl)) + lcapy.Vac(2, 0, R_(om))
                elif kind == 'dc':
                    lines_l = ['Rload_ %s nl_ %s' % (p, fs(rl)), 'Vload_ nl_ %s dc 2' % m]
                    op = lcapy.R(R_(rl)) + lcapy.Vdc(2)
                else:
                    lines_l = ['Rload_ %s nl_ %s' % (p, fs(rl)), 'Vload_ nl_ %s step 2' % m]
                    op = lcapy.R(R_(rl)) + lcapy.Vstep(2)
                chk.count('load', ld + ':' + kind)
                c3 = lcapy.Circuit(text + '\n' + '\n'.join(lines_l))
                v_orig = src(c3[p].V - c3[m].V)
                v_th = src((th | op).cct[1].V) if th is not None else v_orig
                v_no = src((no | op).cct[1].V) if no is not None else v_orig
                chk.count('oracle', 'load-invariance')
                if None not in (v_orig, v_th, v_no) and not (v_orig == v_th == v_no):
                    n_cex += 1
                    chk.counterexample(dict({'kind': 'load-invariance', 'load': ld}, **ktag),
                                       {'input': dict(key_in, load=lines_l), 'lcapy': {'original': str(v_orig), 'thevenin': str(v_th), 'norton': str(v_no)},
                                        'spec': 'same load voltage with the original, the Thevenin model and the Norton model'},
                                       'load voltage changes when the circuit is replaced by its equivalent')
            except Exception as e:   # noqa
                chk.count('lcapy-error', 'load:' + type(e).__name__ + str(e)[:30])
        # (e) ground independence (Props/C04Ground): (i) the same netlist with the names `0` and g exchanged; (ii) the netlist
        #     with node `0` renamed, so that Lcapy's own `_add_ground(Nm)` makes the negative port node the reference.
        #     Applicable when every component is ground-free (the Lean model says so: no TR / SP / common-mode gain)
        try:
            gfree = drv.ask1('port.groundfree %s || %s ||' % (an_tok, ' || '.join(case['lines']))) == 'true'
            other = [n for n in nodes if n not in ('0',)]
            if other and not gfree:
                chk.count('oracle', 'ground-independence:not-ground-free')
            if other and gfree:
                g = rng.choice(other)
                for how in ('swap', 'add_ground'):
                    sw = {'0': g, g: '0'} if how == 'swap' else {'0': 'gnd_'}
                    l_sw = []
                    for ll in case['lcapy']:
                        tk = ll.split()
                        ty = ''.join(ch for ch in tk[0] if ch.isalpha())
                        if ty.startswith('E') and len(tk) > 3 and tk[3] == 'opamp':
                            idx = [1, 2, 4, 5]
                        else:
                            nn = {'TF': 4, 'GY': 4, 'E': 4, 'G': 4, 'TP': 4}.get(ty, 0 if ty == 'K' else 2)
                            idx = range(1, 1 + nn)
                        for i in idx:
                            tk[i] = sw.get(tk[i], tk[i])
                        l_sw.append(' '.join(tk))
                    Zg = imm(lcapy.Circuit('\n'.join(l_sw)).impedance(sw.get(p, p), sw.get(m, m)))
                    chk.count('oracle', 'ground-independence:' + how)
                    if Zg is not None and Zg != Z:
                        n_cex += 1
                        chk.counterexample({'kind': 'ground-dependence', 'how': how},
                                           {'input': dict(key_in, regrounded=l_sw), 'lcapy': {'Z': str(Z), 'Z regrounded': str(Zg)},
                                            'spec': 'impedance does not depend on which node is grounded'},
                                           'driving-point impedance depends on the choice of ground')
                        break
        except Exception as e:   # noqa
            chk.count('lcapy-error', 'reground:' + type(e).__name__)
        # ---- correspondence with the Lean model, which builds the experiments itself from the raw netlist
        #      (Model/PortOps.lean: kill, probe, re-ground): Voc, Isc of the original circuit, Z and Y of the killed one,
        #      and Z again on the netlist re-grounded at a random node (measure_ground_independent, executed)
        if not subs:
            body = ' || '.join(case['lines'])
            reps = {q: drv.ask1('port.%s %s || %s || %s %s' % (q, an_tok, body, p, m)) for q in ('voc', 'isc', 'impedance', 'admittance')}
            g2 = rng.choice(nodes)
            reps['impedance@' + g2] = drv.ask1('port.impedance %s || %s || %s %s ground=%s' % (an_tok, body, p, m, g2))
            ind = drv.ask1('port.indep %s || %s ||' % (an_tok, body)).split()[1:]
            if any(v != '0' for v in ind):
                chk.coverage['correspondence']['disagreements'] += 1
                disagreements.append({'netlist': case['lines'], 'model': 'killAll leaves ' + ' '.join(ind)})
            if reps['voc'].startswith('ok') and reps['impedance'].startswith('ok'):
                mVoc, mZ = norm(reps['voc'].split()[1]), norm(reps['impedance'].split()[1])
                chk.coverage['correspondence']['compared'] += 1
                chk.count('model', 'voc-and-z-compared:' + kind)
                bad = mVoc != Voc or mZ != Z
                if no is not None and reps['isc'].startswith('ok') and norm(reps['isc'].split()[1]) != Isc:
                    bad = True
                if no is not None and reps['admittance'].startswith('ok') and nontriv and norm(reps['admittance'].split()[1]) != Y:
                    bad = True
                if gfree_of(case, an_tok) and reps['impedance@' + g2].startswith('ok') and norm(reps['impedance@' + g2].split()[1]) != mZ:
                    bad = True
                if bad:
                    chk.coverage['correspondence']['disagreements'] += 1
                    disagreements.append({'netlist': case['lines'], 'port': [p, m], 'analysis': an_tok,
                                          'lcapy': {'Voc': str(Voc), 'Z': str(Z), 'Isc': str(Isc), 'Y': str(Y)}, 'model': reps})
            else:
                chk.count('model', (reps['voc'] if not reps['voc'].startswith('ok') else reps['impedance'])[:30])

    def gfree_of(case, an_tok):
        return drv.ask1('port.groundfree %s || %s ||' % (an_tok, ' || '.join(case['lines']))) == 'true'

    done = 0
    attempts = 0
    plan = (['s'] * 8 + ['ivp'] * 7 + ['ac'] * 6 + ['dc'] * 4) if quick else (['s'] * 40 + ['ivp'] * 40 + ['ac'] * 35 + ['dc'] * 25)
    while done < len(plan) and attempts < 6 * len(plan):
        attempts += 1
        kind = plan[done]
        case = gen_netlist.random_case(rng, analysis=kind, max_nodes=5)
        if any(l.split()[0][:2] in ('TR', 'AM', 'GY') or l.split()[0][0] in 'KW' for l in case['lines']):
            chk.count('generator', 'kinds-not-used-here')
        # keep only circuits the Lean model finds non-singular at a probe point (ill-posed draws are outside the property)
        has_ic = any(l.split()[0][0] in 'CL' and len(l.split()) == 5 for l in case['lines'])
        if kind == 'ivp' and not has_ic and rng.random() < 0.7:
            chk.count('generator', 'ivp-draw-without-ics-redrawn')
            continue
        pre_an = {'ac': 'ac %s' % fstr(case.get('omega') or 1), 'dc': 'dc'}.get(kind, ('ivp' if has_ic else 's') + ' 5/3')
        pre = drv.ask1('mna.solve %s || %s' % (pre_an, ' || '.join(case['lines'])))
        if not pre.startswith('ok'):
            chk.count('generator', 'rejected:' + pre.split(':')[0][:20])
            continue
        done += 1
        try:
            with hard_time_limit(60 if quick else 120):
                one_case(case)
        except common.TimeLimit:
            chk.count('lcapy-error', 'time-limit')
            chk.case(('timeout', tuple(case['lcapy'])), False)
    mark('netlist-ports')

    # ---- one-port networks: net.thevenin() / net.norton() against the network itself
    def leaf(kind):
        a = R_(Fraction(rng.randint(1, 9), rng.randint(1, 3)))
        b = R_(Fraction(rng.randint(1, 9), rng.randint(1, 3)) * rng.choice([1, -1]))
        if kind == 'R':
            return lcapy.R(a)
        if kind == 'C':
            return lcapy.C(a, b) if rng.random() < 0.5 else lcapy.C(a)
        if kind == 'L':
            return lcapy.L(a, b) if rng.random() < 0.5 else lcapy.L(a)
        if kind == 'V':
            return lcapy.Vstep(b)
        return lcapy.Istep(b)

    def tree(depth, top='ser'):
        n = rng.randint(2, 4)
        if top == 'ser':
            kinds = [rng.choice(['R', 'C', 'L', 'V', 'C', 'R']) for _ in range(n)]
        else:
            kinds = [rng.choice(['R', 'C', 'L', 'I', 'R']) for _ in range(n)]
        parts = []
        for kd in kinds:
            if depth > 0 and rng.random() < 0.35:
                parts.append(tree(depth - 1, 'par' if top == 'ser' else 'ser'))
            else:
                parts.append(leaf(kd))
        net = parts[0]
        for q in parts[1:]:
            net = (net + q) if top == 'ser' else (net | q)
        return net

    def directed_net(i):
        """a source with a network whose total immittance is purely inductive / capacitive / resistive (the forms for which
        the models are built by `.cpt()` from k/s, k*s, k), single and combined elements"""
        a = R_(Fraction(rng.randint(2, 9), rng.randint(1, 3)))
        a2 = R_(Fraction(rng.randint(2, 9), rng.randint(1, 3)))
        b = R_(Fraction(rng.randint(1, 9), rng.randint(1, 3)) * rng.choice([1, -1]))
        X = [lcapy.L, lcapy.C, lcapy.R][i % 3]
        form = (i // 3) % 4
        if form == 0:
            return lcapy.Vstep(b) + X(a)
        if form == 1:
            return lcapy.Istep(b) | X(a)
        if form == 2:
            return lcapy.Vstep(b) + X(a) + X(a2)
        return lcapy.Vstep(b) + (X(a) | X(a2))

    def odd_parallel_net(i):
        """3 or 5 parallel branches that `simplify()` cannot merge (each a series pair of different kinds, or a lone
        reactive element), with sources and initial conditions: `thevenin()` / `norton()` flatten the nested `|` into one
        n-ary `Par`, whose netlist is drawn branch by branch around the centre"""
        def val():
            return R_(Fraction(rng.randint(1, 9), rng.randint(1, 3)))
        b = R_(Fraction(rng.randint(1, 9), rng.randint(1, 3)) * rng.choice([1, -1]))
        if i % 3:
            # three branches: a source branch, a reactive branch (with / without initial condition), a mixed series branch
            pool = [lambda: lcapy.Vstep(b) + lcapy.R(val()),
                    lambda: (lcapy.C(val(), b) if i % 2 else lcapy.C(val())),
                    lambda: rng.choice([lcapy.R(val()) + lcapy.L(val()), lcapy.L(val(), b) + lcapy.R(val()), lcapy.R(val()) + lcapy.C(val())])]
            picks = [0, 1, 2]
        else:
            # five branches of pairwise different kinds (nothing for simplify() to merge), second order at most
            pool = [lambda: lcapy.Vstep(b) + lcapy.R(val()), lambda: lcapy.C(val()), lambda: lcapy.R(val()) + lcapy.L(val()),
                    lambda: lcapy.Istep(-b), lambda: lcapy.R(val())]
            picks = [0, 1, 2, 3, 4]
        rng.shuffle(picks)
        net = pool[picks[0]]()
        for q in picks[1:]:
            net = net | pool[q]()
        return net

    MERGE_PLAN = [('C', 'ser', (1, 0)), ('L', 'par', (0, 1)), ('C', 'ser', (0, 1)), ('L', 'par', (1, 0)), ('L', 'ser', (1, 0)), ('C', 'par', (0, 1)),
                  ('C', 'ser', (1, 1)), ('L', 'par', (1, 1)), ('L', 'ser', (0, 1)), ('C', 'par', (1, 0)), ('L', 'ser', (1, 1)), ('C', 'par', (1, 1)),
                  ('C', 'ser', (0, 0)), ('L', 'par', (0, 0))]

    def merge_net(i):
        """two reactive elements of one kind that `simplify()` merges (series C + C, parallel L | L and the other two pairings),
        with an initial condition on the first, the second, both or none, other elements in between, and a source"""
        X, top, (ic1, ic2) = MERGE_PLAN[i % len(MERGE_PLAN)]
        mk = lcapy.C if X == 'C' else lcapy.L

        def val():
            return R_(Fraction(rng.randint(1, 9), rng.randint(1, 3)))

        def icv():
            return R_(Fraction(rng.randint(1, 9), rng.randint(1, 3)) * rng.choice([1, -1]))
        e1 = mk(val(), icv()) if ic1 else mk(val())
        e2 = mk(val(), icv()) if ic2 else mk(val())
        mid = rng.choice([lcapy.R(val()), (lcapy.L(val()) if X == 'C' else lcapy.C(val())), None])
        parts = [e1] + ([mid] if mid is not None else []) + [e2]
        net = parts[0]
        for q in parts[1:]:
            net = (net + q) if top == 'ser' else (net | q)
        if rng.random() < 0.5:
            b = icv()
            net = (net + lcapy.Vstep(b)) if top == 'ser' else (net | lcapy.Istep(b))
        return net

    nnets = 8 if quick else 120
    ndirected_nets = 12 if quick else 48
    nodd_nets = 4 if quick else 30
    nmerge_nets = 6 if quick else 42
    t_stream = _time.time()
    for k in range(nnets + ndirected_nets + nodd_nets + nmerge_nets):
        sp = Fraction(rng.randint(1, 9), rng.randint(2, 5))
        t_net = _time.time()
        fam = 'random-tree'
        # the directed families always run; random trees only while the stream's time budget lasts (counted, never reported)
        if k >= ndirected_nets + nodd_nets + nmerge_nets and _time.time() - t_stream > (55 if quick else 240):
            chk.count('oneport', 'random-tree-skipped:stream-time-budget')
            continue
        try:
            with hard_time_limit(8 if quick else 12):
                if k < ndirected_nets:
                    net = directed_net(k)
                    fam = 'directed'
                elif k < ndirected_nets + nodd_nets:
                    net = odd_parallel_net(k)
                    fam = 'odd-parallel'
                elif k < ndirected_nets + nodd_nets + nmerge_nets:
                    net = merge_net(k - ndirected_nets - nodd_nets)
                    fam = 'mergeable-pair'
                else:
                    net = tree(1, rng.choice(['ser', 'par']))
                chk.count('oneport', fam)
                desc = str(net)
                Voc0 = at(net.Voc.laplace(), sp, {})
                Z0 = at(net.Z, sp, {})
                th = net.thevenin()
                no = net.norton()
                VocT, ZT = at(th.Voc.laplace(), sp, {}), at(th.Z, sp, {})
                IscN, YN = at(no.Isc.laplace(), sp, {}), at(no.Y, sp, {})
                Isc0 = at(net.Isc.laplace(), sp, {})
        except (Exception, common.TimeLimit) as e:   # noqa
            chk.count('lcapy-error', 'oneport:%s:%s' % (fam, type(e).__name__))
            chk.case(('oneport-err', k), False)
            timing['oneport:' + fam] = round(timing.get('oneport:' + fam, 0) + _time.time() - t_net, 1)
            continue
        timing['oneport:' + fam] = round(timing.get('oneport:' + fam, 0) + _time.time() - t_net, 1)
        if None in (Voc0, Z0, VocT, ZT, IscN, YN, Isc0):
            chk.case(('oneport-nr', desc), False)
            continue
        chk.case(('oneport', desc, sp), True)
        chk.count('oracle', 'oneport-models')
        if len(chk.coverage['samples']) < 8:
            chk.sample({'oneport': desc, 's': fstr(sp)})
        def close(a, b):
            # thevenin()/norton() of a one-port go through the time domain with numerically found roots, so their
            # values may carry floating-point noise: compare with a relative tolerance, never exactly
            da = abs(complex(float(a[0]), float(a[1])) - complex(float(b[0]), float(b[1])))
            return da <= 1e-7 * max(1.0, abs(complex(float(b[0]), float(b[1]))))
        bad = None
        yz = (YN[0] * Z0[0] - YN[1] * Z0[1], YN[0] * Z0[1] + YN[1] * Z0[0])
        y_ok = Z0 == (0, 0) or close(yz, (Fraction(1), Fraction(0)))
        if not close(VocT, Voc0) or not close(ZT, Z0):
            bad = 'thevenin() model (Voc %s, Z %s) differs from the network (Voc %s, Z %s)' % (VocT, ZT, Voc0, Z0)
        elif not close(IscN, Isc0) or not y_ok:
            bad = 'norton() model (Isc %s, Y %s) differs from the network (Isc %s, Z %s; Y Z = %s)' % (IscN, YN, Isc0, Z0, yz)
        elif not close(VocT, cmul(IscN, ZT)):
            bad = 'thevenin() and norton() models are inconsistent: Voc %s, Isc %s, Z %s' % (VocT, IscN, ZT)
        elif (VocT, ZT, IscN) != (Voc0, Z0, Isc0):
            chk.count('oneport', 'equal-up-to-float-noise')
        if bad:
            n_cex += 1
            chk.counterexample({'kind': 'oneport-model'},
                               {'input': {'oneport': desc, 's': fstr(sp)}, 'lcapy': bad,
                                'spec': 'the Thevenin / Norton model of a one-port has the Voc, Isc, Z, Y of the one-port'},
                               'one-port Thevenin/Norton model differs from the network it was derived from')

    # ---- transfer functions: transfer / voltage_gain / transimpedance / current_gain / transadmittance are those of the
    #      network with the independent sources killed and zero initial conditions.  Spec side: the Lean MNA model of the
    #      killed netlist with a unit test source at port 1 (and a 0 V short at port 2 for the short-circuit quantities).
    #      Ladder-shaped netlists of six or more elements take Lcapy's ladder shortcut; outputs at interior nodes included.
    def ladder_net():
        nsec = rng.randint(3, 5)
        lines = []
        cnt = {}
        def nm(t):
            cnt[t] = cnt.get(t, 0) + 1
            return '%s%d' % (t, cnt[t])
        def val():
            return fs(Fraction(rng.randint(1, 9), rng.randint(1, 3)))
        node = 1
        for i in range(nsec):
            ty = rng.choice(['R', 'R', 'L', 'C'])
            lines.append('%s %d %d %s' % (nm(ty), node, node + 1, val()))
            node += 1
            ty = rng.choice(['C', 'C', 'R', 'L'])
            if rng.random() < 0.25:      # a two-element shunt arm
                mid = 'm%d' % node
                lines.append('%s %d %s %s' % (nm(ty), node, mid, val()))
                lines.append('%s %s 0 %s' % (nm('R'), mid, val()))
            else:
                lines.append('%s %d 0 %s' % (nm(ty), node, val()))
        extra = []
        if rng.random() < 0.4:           # an independent source inside the network (to be killed)
            extra = ['I1 0 %d step %s' % (rng.randint(2, node), val())]
        return lines, extra, node

    mark('oneport-networks')
    # ---- one-port trees whose leaves carry SYMBOLIC values named like component names (R('R1'), C('C1'), L('L1'), V('Vs'))
    #      mixed with numeric leaves of the same type, in every order, sources included: the circuit route (`ParSer.Voc/Isc`
    #      through the generated netlist) must name every branch apart.  thevenin() / norton() against the network's own
    #      quantities and against each other (Voc = Isc Z), symbols substituted by rationals afterwards.
    def symnamed_net(i):
        X = [('R', lcapy.R), ('C', lcapy.C), ('L', lcapy.L)][i % 3]
        nm, mk = X
        subs_ = {nm + '1': Fraction(rng.randint(1, 9), rng.randint(1, 3)), 'Vs': Fraction(rng.randint(1, 9)), 'Is': Fraction(rng.randint(1, 9))}
        sym, num = mk(nm + '1'), mk(R_(Fraction(rng.randint(1, 9), rng.randint(1, 3))))
        form = (i // 3) % 6
        vs = lcapy.V('Vs') if i % 2 == 0 else lcapy.Vstep(R_(Fraction(rng.randint(1, 9))))
        isrc = lcapy.I('Is') if i % 2 == 0 else lcapy.Istep(R_(Fraction(rng.randint(1, 9))))
        r0 = lcapy.R(R_(Fraction(rng.randint(1, 9), rng.randint(1, 3))))
        if form == 0:
            net = (vs + sym) | num
        elif form == 1:
            net = num | (vs + sym)
        elif form == 2:
            net = (vs + num) | sym
        elif form == 3:
            net = (vs + sym + r0) | (num + lcapy.R('R1' if nm != 'R' else 'R9'))
        elif form == 4:
            net = (isrc | sym | r0) + num
        else:
            net = sym + (isrc | num | r0)
        if 'R9' in str(net) or (form == 3 and nm != 'R'):
            subs_['R9'] = Fraction(rng.randint(1, 9), rng.randint(1, 3))
            subs_.setdefault('R1', Fraction(rng.randint(1, 9), rng.randint(1, 3)))
        return net, subs_

    for k in range(6 if quick else 36):
        sp = Fraction(rng.randint(1, 9), rng.randint(2, 5))
        try:
            with hard_time_limit(10 if quick else 15):
                net, sb = symnamed_net(k)
                desc = str(net)
                Voc0, Z0, Isc0 = at(net.Voc.laplace(), sp, sb), at(net.Z, sp, sb), at(net.Isc.laplace(), sp, sb)
                th, no = net.thevenin(), net.norton()
                VocT, ZT = at(th.Voc.laplace(), sp, sb), at(th.Z, sp, sb)
                IscN, YN = at(no.Isc.laplace(), sp, sb), at(no.Y, sp, sb)
        except (Exception, common.TimeLimit) as e:   # noqa
            chk.count('lcapy-error', 'oneport:symbol-named:' + type(e).__name__)
            chk.case(('oneport-sym-err', k), False)
            continue
        chk.count('oneport', 'symbol-named')
        if None in (Voc0, Z0, Isc0, VocT, ZT, IscN, YN):
            chk.case(('oneport-sym-nr', desc), False)
            continue
        chk.case(('oneport-sym', desc, sp), True)
        chk.count('oracle', 'oneport-models')
        bad = None
        if (VocT, ZT) != (Voc0, Z0):
            bad = 'thevenin() model (Voc %s, Z %s) differs from the network (Voc %s, Z %s)' % (VocT, ZT, Voc0, Z0)
        elif IscN != Isc0 or (Z0 != (0, 0) and cmul(YN, Z0) != (1, 0)):
            bad = 'norton() model (Isc %s, Y %s) differs from the network (Isc %s, Z %s)' % (IscN, YN, Isc0, Z0)
        elif VocT != cmul(IscN, ZT) or Voc0 != cmul(Isc0, Z0):
            bad = 'Voc = Isc Z fails: models (Voc %s, Isc %s, Z %s), network (Voc %s, Isc %s, Z %s)' % (VocT, IscN, ZT, Voc0, Isc0, Z0)
        if bad:
            n_cex += 1
            chk.counterexample({'kind': 'oneport-model', 'leaves': 'symbol-named'},
                               {'input': {'oneport': desc, 's': fstr(sp), 'subs': {q: fstr(v) for q, v in sb.items()}}, 'lcapy': bad,
                                'spec': 'the Thevenin / Norton model of a one-port has the Voc, Isc, Z, Y of the one-port, and Voc = Isc Z'},
                               'one-port with symbol-named leaves: Thevenin/Norton model differs from the network')
    mark('oneport-symbol-named')

    # ---- one-port networks with AC sources at an explicitly NAMED frequency symbol, a numeric frequency, or the default
    #      symbol omega_0, through thevenin() AND norton(): every quantity is read as the phasor of its time-domain form at
    #      the source's own frequency (symbol substituted by a rational W; immittances at s = jW): Voc = Isc Z, Z Y = 1, the
    #      models against the network's own Voc / Isc / Z(s), and the same voltage across a resistive load
    from c14 import sin_coeffs
    from lcapy import t as tt_

    def ac_phasor(X, W, wsubs):
        """phasor at angular frequency W of a voltage / current (superposition or expression), through its time-domain form"""
        e = X.time().sympy if hasattr(X, 'time') else S.sympify(X)
        e = e.subs({q: wsubs[q.name] for q in e.free_symbols if q.name in wsubs})
        co = sin_coeffs(S, e, tt_.sympy, [W])
        if co is None or co['dc'] != 0:
            return None
        return (co[W][0], -co[W][1])

    def ac_imm(Zx, W, wsubs):
        e = Zx.sympy if hasattr(Zx, 'sympy') else S.sympify(Zx)
        e = e.subs({q: wsubs[q.name] for q in e.free_symbols if q.name in wsubs})
        e = S.simplify(e.subs(ss.sympy, S.I * R_(W)))
        if e.has(S.zoo, S.nan, S.oo):
            return None
        return common.gauss_rational(S.expand_complex(e))

    for k in range(8 if quick else 48):
        W = Fraction(rng.randint(1, 9), rng.randint(1, 3))
        how = ['named', 'numeric', 'default', 'named'][k % 4]
        wa = {'named': 'w1', 'numeric': R_(W), 'default': None}[how]
        # the default symbol omega_0 stands for W only when the source uses it; otherwise it is given ANOTHER value, so that an
        # immittance evaluated at the wrong frequency shows as a wrong number
        wsubs = {'w1': R_(W), 'omega_0': R_(W) if how == 'default' else R_(W + 1)}
        A = R_(Fraction(rng.randint(1, 9), rng.randint(1, 3)))

        def val():
            return R_(Fraction(rng.randint(1, 9), rng.randint(1, 3)))
        try:
            with hard_time_limit(20 if quick else 30):
                src_v = lcapy.Vac(A, 0, wa) if wa is not None else lcapy.Vac(A)
                src_i = lcapy.Iac(A, 0, wa) if wa is not None else lcapy.Iac(A)
                form = (k // 4) % 4
                if form == 0:
                    net = src_v + lcapy.R(val()) + lcapy.L(val())
                elif form == 1:
                    net = src_v + lcapy.R(val()) + lcapy.C(val())
                elif form == 2:
                    net = src_i | lcapy.R(val()) | lcapy.C(val())
                else:
                    net = src_i | lcapy.R(val()) | lcapy.L(val())
                desc = str(net)
                th, no = net.thevenin(), net.norton()
                q = {'Voc0': ac_phasor(net.Voc, W, wsubs), 'Isc0': ac_phasor(net.Isc, W, wsubs), 'Z0': ac_imm(net.Z, W, wsubs),
                     'VocT': ac_phasor(th.Voc, W, wsubs), 'ZT': ac_imm(th.Z, W, wsubs),
                     'IscN': ac_phasor(no.Isc, W, wsubs), 'YN': ac_imm(no.Y, W, wsubs)}
                rl = R_(Fraction(rng.randint(1, 9), rng.randint(1, 3)))
                q['vL0'] = ac_phasor((net | lcapy.R(rl)).Voc, W, wsubs)
                q['vLT'] = ac_phasor((th | lcapy.R(rl)).Voc, W, wsubs)
                q['vLN'] = ac_phasor((no | lcapy.R(rl)).Voc, W, wsubs)
        except (Exception, common.TimeLimit) as e:   # noqa
            chk.count('lcapy-error', 'oneport:ac:' + type(e).__name__ + ':' + str(e)[:30])
            chk.case(('oneport-ac-err', k), False)
            continue
        chk.count('oneport', 'ac-source:' + how)
        if any(v is None for v in q.values()):
            chk.count('lcapy', 'oneport-ac:not-a-rational-phasor')
            chk.case(('oneport-ac-nr', desc), False)
            continue
        chk.case(('oneport-ac', desc, W), True)
        chk.count('oracle', 'oneport-ac-models')
        bad = None
        if q['VocT'] != q['Voc0'] or q['ZT'] != q['Z0']:
            bad = 'thevenin() model differs from the network'
        elif q['IscN'] != q['Isc0'] or cmul(q['YN'], q['Z0']) != (1, 0):
            bad = 'norton() model differs from the network (Z Y = %s)' % (cmul(q['YN'], q['Z0']),)
        elif q['VocT'] != cmul(q['IscN'], q['ZT']):
            bad = 'Voc = Isc Z fails for the models'
        elif not (q['vL0'] == q['vLT'] == q['vLN']):
            bad = 'the load voltage differs between the network and its models'
        if bad:
            n_cex += 1
            chk.counterexample({'kind': 'oneport-model', 'analysis': 'ac', 'frequency': how},
                               {'input': {'oneport': desc, 'omega': fstr(W)}, 'lcapy': dict({k_: str(v) for k_, v in q.items()}, what=bad),
                                'spec': 'at the source frequency: models = network, Voc = Isc Z, Z Y = 1, equal load voltage'},
                               'ac one-port: ' + bad)
    mark('oneport-ac')

    TQ = ('transfer', 'voltage_gain', 'transimpedance', 'transadmittance', 'current_gain')

    def rename_ground(lines):
        """the same netlist without a node `0` (so that Lcapy's `_add_ground(N1m)` chooses the reference)"""
        out = []
        for ll in lines:
            tk = ll.split()
            ty = ''.join(ch for ch in tk[0] if ch.isalpha())
            nn = {'TF': 4, 'GY': 4, 'E': 4, 'G': 4, 'TP': 4}.get(ty, 0 if ty == 'K' else 2)
            for i in range(1, 1 + nn):
                if tk[i] == '0':
                    tk[i] = 'gnd_'
            out.append(' '.join(tk))
        return out

    for k in range(9 if quick else 80):
        sp = Fraction(rng.randint(1, 9), rng.randint(2, 5))
        if k % 5 == 4:
            case = gen_netlist.random_case(rng, analysis='s', max_nodes=5)
            if case['subs'] or any(l.split()[0][0] in 'KW' or l.split()[0][:2] in ('TR', 'AM', 'GY', 'TF') or ' opamp ' in l for l in case['lines']):
                continue
            lines, extra = case['lines'], []
            nodes_ = sorted({n_ for l in lines for n_ in l.split()[1:3]} - {'0'})
            if len(nodes_) < 2:
                continue
            p1, p2 = rng.sample(nodes_, 2)
            m1 = m2 = '0'
            if len(nodes_) >= 3 and rng.random() < 0.5:       # floating ports
                m1 = rng.choice([n_ for n_ in nodes_ if n_ != p1])
                m2 = rng.choice([n_ for n_ in nodes_ + ['0'] if n_ != p2])
            family = 'random' if (m1, m2) == ('0', '0') else 'random-floating'
        else:
            lines, extra, last = ladder_net()
            p1, p2 = '1', str(rng.randint(2, last))
            m1 = m2 = '0'
            family = 'ladder-interior' if p2 != str(last) else 'ladder-end'
            if k % 5 in (1, 3):
                # an output port whose negative terminal is NOT the common one (the voltage across a series arm, or up to the
                # middle of a two-element shunt arm): never a ladder for Lcapy, always the general route
                cand = sorted({n_ for l in lines for n_ in l.split()[1:3]} - {'0', p2})
                m2 = rng.choice(cand)
                family = 'ladder-floating-output'
        text = '\n'.join(lines + extra)
        body = ' || '.join(lines + extra)
        chk.count('transfer-family', family)
        # spec side: the Lean model kills the netlist and attaches the probes itself (Model/PortOps.lean)
        want = {}
        for q in TQ:
            r = drv.ask1('port.%s s %s || %s || %s %s %s %s' % ('transfer' if q == 'voltage_gain' else q, fstr(sp), body, p1, m1, p2, m2))
            if r.startswith('ok') and 'undef' not in r:
                want[q] = norm(r.split()[1])
        chk.case(('transfer', text, p1, m1, p2, m2, sp), bool(want))
        if not want:
            chk.count('model', 'transfer:' + r[:20])
            continue
        try:
            with hard_time_limit(60):
                cct = lcapy.Circuit(text)
                got = {q: at(getattr(cct, q)(p1, m1, p2, m2), sp, {}) for q in want}
        except (Exception, common.TimeLimit) as e:   # noqa
            chk.count('lcapy-error', 'transfer:' + type(e).__name__ + ':' + str(e)[:40])
            continue
        failed = False
        for q in sorted(want):
            chk.count('oracle', 'transfer-function:' + q)
            if got[q] is not None and got[q] != want[q]:
                n_cex += 1
                failed = True
                chk.counterexample({'kind': 'transfer-function', 'quantity': q, 'family': family},
                                   {'input': {'netlist': lines + extra, 'port1': [p1, m1], 'port2': [p2, m2], 's': fstr(sp)},
                                    'lcapy': {q: str(got[q])}, 'spec': '%s of the killed network by the Lean MNA model = %s' % (q, want[q])},
                                   '%s(%s,%s,%s,%s) is not that of the network with sources killed' % (q, p1, m1, p2, m2))
                break
        # ground independence of the transfer functions (Props/C04Ground): the netlist without a node `0`, where Lcapy's
        # `_add_ground(N1m)` makes the negative input node the reference; and the model re-grounded at that node
        if not failed and k % 2 == 0:
            q = rng.choice(sorted(want))
            try:
                with hard_time_limit(60):
                    ren = {'0': 'gnd_'}
                    c2 = lcapy.Circuit('\n'.join(rename_ground(lines + extra)))
                    g2 = at(getattr(c2, q)(ren.get(p1, p1), ren.get(m1, m1), ren.get(p2, p2), ren.get(m2, m2)), sp, {})
                mg = drv.ask1('port.%s s %s || %s || %s %s %s %s ground=%s' % ('transfer' if q == 'voltage_gain' else q, fstr(sp), body, p1, m1, p2, m2, m1))
                chk.count('oracle', 'ground-independence:transfer-functions')
                if mg.startswith('ok') and norm(mg.split()[1]) != want[q]:
                    chk.coverage['correspondence']['disagreements'] += 1
                    disagreements.append({'netlist': lines + extra, 'quantity': q, 'model': want[q], 'model regrounded': mg})
                if g2 is not None and g2 != got[q]:
                    n_cex += 1
                    chk.counterexample({'kind': 'ground-dependence', 'quantity': q},
                                       {'input': {'netlist': lines + extra, 'regrounded': rename_ground(lines + extra), 'port1': [p1, m1], 'port2': [p2, m2], 's': fstr(sp)},
                                        'lcapy': {q: str(got[q]), q + ' regrounded': str(g2)},
                                        'spec': 'transfer functions do not depend on which node is grounded'},
                                       '%s depends on the choice of ground' % q)
            except (Exception, common.TimeLimit) as e:   # noqa
                chk.count('lcapy-error', 'transfer-reground:' + type(e).__name__ + ':' + str(e)[:40])
    mark('transfer-functions')

    # ---- two-port extraction from a netlist (Props/C04Ops zparams_rel / yparams_rel / zparams_convert): Zparams, Yparams,
    #      Aparams, Hparams of random and ladder netlists.  Correspondence: the Lean model's probe experiments (port.zparams:
    #      open-circuit drive, port.yparams: short-circuit drive) and the code's GENERATED conversions of C08.  Oracle: the
    #      REAL killed netlist driven with arbitrary currents at both ports -- Lcapy's own solution (V1, I1, V2, I2) must
    #      satisfy the C08 relation `rel` of each reported matrix (judged by the Lean spec, `tp.rel`).
    def m2s(M):
        return ' '.join(fstr(x_) for x_ in M)

    for k in range(6 if quick else 40):
        sp = Fraction(rng.randint(1, 9), rng.randint(2, 5))
        if k % 3 == 2:
            case = gen_netlist.random_case(rng, analysis=rng.choice(['s', 'ivp']), max_nodes=5)
            if case['subs'] or any(l.split()[0][0] in 'KW' or l.split()[0][:2] in ('TR', 'AM', 'GY', 'TF') or ' opamp ' in l for l in case['lines']):
                continue
            lines = case['lines']
            nodes_ = sorted({n_ for l in lines for n_ in l.split()[1:3]} - {'0'})
            if len(nodes_) < 2:
                continue
            p1, p2 = rng.sample(nodes_, 2)
            m1 = m2 = '0'
            if len(nodes_) >= 3 and rng.random() < 0.4:
                m1 = rng.choice([n_ for n_ in nodes_ if n_ not in (p1, p2)])
            family = 'random'
        else:
            lines, extra, last = ladder_net()
            lines = lines + extra
            p1, p2 = '1', str(rng.randint(2, last))
            m1 = m2 = '0'
            family = 'ladder'
            if k % 3 == 1:
                # a second port whose negative terminal is not the common one
                cand = sorted({n_ for l in lines for n_ in l.split()[1:3]} - {'0', p2, p1})
                if cand:
                    m2 = rng.choice(cand)
                    family = 'ladder-floating-port2'
        text = '\n'.join(lines)
        body = ' || '.join(lines)
        chk.count('twoport-family', family)
        rz = drv.ask1('port.zparams s %s || %s || %s %s %s %s' % (fstr(sp), body, p1, m1, p2, m2))
        ry = drv.ask1('port.yparams s %s || %s || %s %s %s %s' % (fstr(sp), body, p1, m1, p2, m2))
        chk.case(('twoport', text, p1, m1, p2, m2, sp), rz.startswith('ok'))
        if not rz.startswith('ok') or 'undef' in rz or ',' in rz:
            chk.count('model', 'twoport:' + rz[:20])
            continue
        mZ = [Fraction(x_) for x_ in rz.split()[1:]]
        try:
            with hard_time_limit(90):
                cct = lcapy.Circuit(text)
                got = {}
                for nm in ('Z', 'Y', 'A', 'H'):
                    try:
                        M = getattr(cct, nm + 'params')(p1, m1, p2, m2)
                        vals = [at(M[i, j_], sp, {}) for i in (0, 1) for j_ in (0, 1)]
                        if all(v_ is not None and v_[1] == 0 for v_ in vals):
                            got[nm] = [v_[0] for v_ in vals]
                    except Exception as e:   # noqa
                        chk.count('lcapy-error', 'twoport-%s:%s' % (nm, type(e).__name__))
                # the n-port routines (open-circuit drive with one current source per port; short-circuit drive with one
                # voltage source per port): the model's two extraction experiments
                for nm, fn in (('Zn', 'Zparamsn'), ('Yn', 'Yparamsn')):
                    try:
                        M = getattr(cct, fn)(p1, m1, p2, m2)
                        vals = [at(M[i, j_], sp, {}) for i in (0, 1) for j_ in (0, 1)]
                        if all(v_ is not None and v_[1] == 0 for v_ in vals):
                            got[nm] = [v_[0] for v_ in vals]
                    except Exception as e:   # noqa
                        chk.count('lcapy-error', 'twoport-%s:%s' % (nm, type(e).__name__))
                # drive the real killed netlist with arbitrary port currents
                i1 = Fraction(rng.randint(1, 7), rng.randint(1, 3)) * rng.choice([1, -1])
                i2 = Fraction(rng.randint(1, 7), rng.randint(1, 3)) * rng.choice([1, -1])
                kd = cct.kill()
                drv_lines = str(kd.netlist()) + '\nIa_ %s %s step %s\nIb_ %s %s step %s' % (p1, m1, fs(i1 * sp), p2, m2, fs(i2 * sp))
                cd_ = lcapy.Circuit(drv_lines)
                V1 = at((cd_[p1].V - cd_[m1].V).laplace(), sp, {})
                V2 = at((cd_[p2].V - cd_[m2].V).laplace(), sp, {})
        except (Exception, common.TimeLimit) as e:   # noqa
            chk.count('lcapy-error', 'twoport:' + type(e).__name__ + ':' + str(e)[:40])
            continue
        # correspondence: Z by the open-circuit experiments of the model; Y by its short-circuit experiments AND by the
        # code's own conversion of Z (GENERATED); A, H by the code's conversions
        if 'Z' in got:
            chk.coverage['correspondence']['compared'] += 1
            chk.count('model', 'zparams-compared')
            if got['Z'] != mZ:
                chk.coverage['correspondence']['disagreements'] += 1
                disagreements.append({'netlist': lines, 'ports': [p1, m1, p2, m2], 's': fstr(sp), 'lcapy Z': m2s(got['Z']), 'model Z': m2s(mZ)})
        for nm, conv in (('Y', 'Z_to_Y'), ('A', 'Z_to_A'), ('H', 'Z_to_H')):
            if nm in got:
                r = drv.ask1('tp.conv %s %s 0' % (conv, m2s(mZ)))
                if 'undef' in r:
                    chk.count('model', 'twoport:%s-undefined' % conv)
                    continue
                chk.coverage['correspondence']['compared'] += 1
                if [Fraction(x_) for x_ in r.split()] != got[nm]:
                    chk.coverage['correspondence']['disagreements'] += 1
                    disagreements.append({'netlist': lines, 'ports': [p1, m1, p2, m2], 's': fstr(sp), 'lcapy ' + nm: m2s(got[nm]), 'model ' + conv: r})
        if 'Y' in got and ry.startswith('ok') and 'undef' not in ry and ',' not in ry:
            chk.coverage['correspondence']['compared'] += 1
            chk.count('model', 'yparams-short-circuit-compared')
            if [Fraction(x_) for x_ in ry.split()[1:]] != got['Y']:
                chk.coverage['correspondence']['disagreements'] += 1
                disagreements.append({'netlist': lines, 'ports': [p1, m1, p2, m2], 's': fstr(sp), 'lcapy Y': m2s(got['Y']), 'model short-circuit Y': ry})
        for nm, rr in (('Zn', rz), ('Yn', ry)):
            if nm in got and rr.startswith('ok') and 'undef' not in rr and ',' not in rr:
                chk.coverage['correspondence']['compared'] += 1
                chk.count('model', nm + 'params-compared')
                if [Fraction(x_) for x_ in rr.split()[1:]] != got[nm]:
                    chk.coverage['correspondence']['disagreements'] += 1
                    disagreements.append({'netlist': lines, 'ports': [p1, m1, p2, m2], 's': fstr(sp), 'lcapy ' + nm: m2s(got[nm]), 'model': rr})
        # oracle: the C08 port relation of each reported matrix on the driven real circuit
        if V1 is None or V2 is None or V1[1] != 0 or V2[1] != 0:
            chk.count('lcapy', 'twoport-drive-not-rational')
            continue
        for nm in sorted(got):
            verdict = drv.ask1('tp.rel %s %s 0 %s %s %s %s' % (nm[0], m2s(got[nm]), fstr(V1[0]), fstr(i1), fstr(V2[0]), fstr(i2)))
            chk.count('oracle', 'twoport-relation:' + nm)
            if verdict != 'true':
                n_cex += 1
                chk.counterexample({'kind': 'twoport-extraction', 'representation': nm, 'family': family},
                                   {'input': {'netlist': lines, 'port1': [p1, m1], 'port2': [p2, m2], 's': fstr(sp), 'I1': fstr(i1), 'I2': fstr(i2)},
                                    'lcapy': {nm + 'params': m2s(got[nm]), 'V1': fstr(V1[0]), 'V2': fstr(V2[0])},
                                    'spec': 'the C08 port relation of the %s representation holds for the killed netlist driven at both ports' % nm},
                                   '%sparams of the netlist do not describe its port behaviour' % nm)
                break
    mark('twoport-extraction')

    # ---- component-level shortcuts (mnacpts.py Cpt.thevenin / norton / oneport), multi-frequency one-ports, LoadCircuit
    for k in range(3 if quick else 20):
        sp = Fraction(rng.randint(1, 9), rng.randint(2, 5))
        r1, r2 = (Fraction(rng.randint(1, 9), rng.randint(1, 3)) for _ in range(2))
        v0 = Fraction(rng.randint(1, 9))
        flip = k % 2 == 1
        text = 'V1 1 0 step %s\nR1 1 2 %s\n%s' % (fs(v0), fs(r1), ('R2 0 2 %s' if flip else 'R2 2 0 %s') % fs(r2))
        chk.case(('cpt-shortcut', text), True)
        try:
            with hard_time_limit(40):
                cct = lcapy.Circuit(text)
                for meth in ('thevenin', 'norton'):
                    a_ = getattr(cct, meth)('R2')
                    b_ = getattr(cct.R2, meth)()
                    qa = at((a_.Voc if meth == 'thevenin' else a_.Isc).laplace(), sp, {})
                    qb = at((b_.Voc if meth == 'thevenin' else b_.Isc).laplace(), sp, {})
                    chk.count('oracle', 'cpt-shortcut:' + meth)
                    if None not in (qa, qb) and qa != qb:
                        n_cex += 1
                        chk.counterexample({'kind': 'cpt-shortcut', 'method': meth},
                                           {'input': {'netlist': text.split('\n'), 's': fstr(sp)},
                                            'lcapy': {'cct.%s("R2")' % meth: str(qa), 'cct.R2.%s()' % meth: str(qb)},
                                            'spec': 'the component shortcut is the model between the component\'s nodes, positive node first, like cct.%s(name)' % meth},
                                           'cct.R2.%s() has the opposite polarity of cct.%s("R2")' % (meth, meth))
                        break
        except (Exception, common.TimeLimit) as e:   # noqa
            chk.count('lcapy-error', 'cpt-shortcut:' + type(e).__name__)
    for k in range(2 if quick else 12):
        W1, W2 = Fraction(rng.randint(1, 4)), Fraction(rng.randint(5, 9))
        A1, A2 = R_(Fraction(rng.randint(1, 9))), R_(Fraction(rng.randint(1, 9)))
        rr = R_(Fraction(rng.randint(1, 9), rng.randint(1, 3)))
        try:
            with hard_time_limit(40):
                net = lcapy.Vac(A1, 0, R_(W1)) + lcapy.Vac(A2, 0, R_(W2)) + (lcapy.R(rr) if k % 2 == 0 else lcapy.R(rr) + lcapy.L(2))
                desc = str(net)
                th = net.thevenin()
                c0 = sin_coeffs(S, net.Voc.time().sympy, tt_.sympy, [W1, W2])
                cT = sin_coeffs(S, th.Voc.time().sympy, tt_.sympy, [W1, W2])
        except (Exception, common.TimeLimit) as e:   # noqa
            chk.count('lcapy-error', 'oneport:two-frequencies:' + type(e).__name__)
            continue
        chk.case(('oneport-2w', desc), True)
        chk.count('oracle', 'oneport-two-frequencies')
        if c0 is not None and cT is not None and c0 != cT:
            n_cex += 1
            chk.counterexample({'kind': 'oneport-model', 'analysis': 'ac', 'frequency': 'two'},
                               {'input': {'oneport': desc}, 'lcapy': {'network Voc': str(c0), 'thevenin() Voc': str(cT)},
                                'spec': 'the Thevenin model keeps every frequency component of Voc'},
                               'thevenin() of a one-port with sources at two frequencies drops a component')
    for k in range(2 if quick else 12):
        sp = Fraction(rng.randint(1, 9), rng.randint(2, 5))
        va, vb = R_(Fraction(rng.randint(1, 9))), R_(Fraction(rng.randint(1, 9)))
        ra, rb = R_(Fraction(rng.randint(1, 9), rng.randint(1, 3))), R_(Fraction(rng.randint(1, 9), rng.randint(1, 3)))
        try:
            with hard_time_limit(40):
                a_ = lcapy.Vstep(va) + lcapy.R(ra) + (lcapy.L(1) if k % 2 else lcapy.R(1))
                b_ = (lcapy.Vstep(vb) + lcapy.R(rb)) if k < 1 or k % 3 else lcapy.R(rb) + lcapy.C(2)
                lc = a_.load(b_)
                I_ = at(lc.I.laplace(), sp, {})
                V_ = at(lc.V.laplace(), sp, {})
                Va, Vb, Za, Zb = at(a_.Voc.laplace(), sp, {}), at(b_.Voc.laplace(), sp, {}), at(a_.Z, sp, {}), at(b_.Z, sp, {})
        except (Exception, common.TimeLimit) as e:   # noqa
            chk.count('lcapy-error', 'load-circuit:' + type(e).__name__)
            continue
        if None in (I_, V_, Va, Vb, Za, Zb):
            continue
        chk.case(('load-circuit', str(a_), str(b_), sp), True)
        chk.count('oracle', 'load-circuit')
        # spec (Thevenin lines of the two networks): Va - Za I = V = Vb + Zb I
        lhs = (Va[0] - cmul(Za, I_)[0], Va[1] - cmul(Za, I_)[1])
        rhs = (Vb[0] + cmul(Zb, I_)[0], Vb[1] + cmul(Zb, I_)[1])
        if not (lhs == V_ == rhs):
            n_cex += 1
            chk.counterexample({'kind': 'load-circuit'},
                               {'input': {'source': str(a_), 'load': str(b_), 's': fstr(sp)},
                                'lcapy': {'I': str(I_), 'V': str(V_), 'Voc_s - Z_s I': str(lhs), 'Voc_l + Z_l I': str(rhs)},
                                'spec': 'the load voltage and current lie on the Thevenin lines of both networks'},
                               'LoadCircuit.I / V are not the operating point of source and load')
    mark('shortcuts-multifreq-loadcircuit')

    chk.coverage['correspondence']['samples_of_disagreement'] = disagreements[:5]
    if broken and n_cex == 0:
        for b in broken[:20]:
            chk.unexplained('broken-obligation', b, chk.coverage.get('build_log_tail', '')[-600:])
    if disagreements and n_cex == 0:
        chk.unexplained('broken-correspondence', 'Voc / Z model vs lcapy', disagreements[0])


if __name__ == '__main__':
    common.main_wrapper('C04', run)
