"""C03, round-3 streams (imported by c03.py).

LAP   : the reassembly clause in the Laplace domain.  Circuits whose sources carry non-zero phases (ac keyword with
        phase, complex ac amplitude, cos+sin sums, phase-shifted sinusoids), dc, step and exponential parts, with and
        without initial conditions.  For an observed node voltage V (a Superposition):
          (a) V(s) := V.laplace() at a rational point  ==  sum of the transforms of ITS OWN dc / phasor / transient
              parts, each transformed by the Lean model (`sup.terms`: dc c -> c/s, phasor a+jb -> (a s - b w)/(s^2+w^2),
              transient terms through the ExpPoly transform);
          (b) V(s) == unilateral transform (Lean, `sup.terms`) of ITS OWN time-domain form V(t), canonicalised into
              exponential-polynomial terms (sinusoids as pairs of complex exponentials);
          (c) correspondence: the Lean model `sup.solve` analyses the RAW netlist (raw source terms -> Decompose model ->
              one MNA analysis per kind -> reassembly) and must reproduce V(s) and the dc / phasor parts;
          (d) initial-value problems: a source written with the `ac` keyword must give the same V(s) as the same
              source written as a time-domain expression.
NOISE : voltages between node pairs and across components in networks with 2-3 noise sources that share / do not
        share identifiers: whole, each source alone (kill_except), the SUM of the per-source parts and WHOLE MINUS a
        part (amplitude-level combinations inside a Superposition) against the Lean `noisePower` of transfer functions
        computed by the Lean MNA model from the raw netlist (`noise.resp`).
NALG  : NoiseExpression operator algebra (+, -, unary -, scalar *, zero operands on either side, shared / distinct
        identifiers) against the executable Lean model (`nalg.op`).
GROUPS: `cct.sub` keys, `_analysis_groups()`, `cct.analysis` flags, `kill`/`kill_except` netlists against the Lean model
        (`grp.run`).
"""
import os
import sys
from fractions import Fraction

sys.path.insert(0, os.path.dirname(os.path.abspath(__file__)))
import common
from common import fstr


def fs(x):
    x = Fraction(x)
    return str(x.numerator) if x.denominator == 1 else '{%d/%d}' % (x.numerator, x.denominator)


def gq(z):
    return fstr(z[0]) if z[1] == 0 else '%s,%s' % (fstr(z[0]), fstr(z[1]))


def parse_gq(s):
    if s == 'undef':
        return None
    p = s.split(',')
    return (Fraction(p[0]), Fraction(p[1]) if len(p) > 1 else Fraction(0))


def finding_listed(chk, key):
    """is there an entry (any status) in known-findings.json whose `match` is contained in `key`?  Probes of defects
    that are present on the current tree run only once the coordinator has listed them (status known: reported as
    KNOWN-FINDING; status fixed: a real check from then on), so that the unchanged tree stays green meanwhile."""
    for f in chk.findings:
        m = f.get('match', {})
        if m and all((key.get(k) in v) if isinstance(v, list) else key.get(k) == v for k, v in m.items()):
            return True
    return False


GAIN = 'Ka'          # symbolic gain of factored source expressions (not `k`: that is Lcapy's discrete-frequency variable)


class ConstSmp:
    """constants of the time-domain forms met here are Gaussian rationals"""

    def value(self, e, ssym, extra):
        return common.gauss_rational(e)


# --------------------------------------------------------------------------------------------------------- LAP

PHASES = [('pi/2', 1, (0, 1)), ('-pi/2', 1, (0, -1)), ('pi', 1, (-1, 0)),
          ('atan(4/3)', 5, (3, 4)), ('-atan(3/4)', 5, (4, -3)), ('atan(3/4)', 5, (4, 3)), ('pi - atan(4/3)', 5, (-3, 4))]


def sx(x):
    """a Fraction as a sympy-parsable text"""
    x = Fraction(x)
    return str(x.numerator) if x.denominator == 1 else '(%d/%d)' % (x.numerator, x.denominator)


def gen_value(rng, kind):
    """-> dict(args=<lcapy text after the nodes>, tokens=[raw term tokens], alt=<equivalent t-domain text or None>)"""
    w = rng.choice([Fraction(2), Fraction(3), Fraction(1, 2), Fraction(3, 2)])
    k = rng.randint(1, 3)

    def ac_tok(re, im):            # phasor re + j im  =  re cos wt - im sin wt
        return 'ac:%s:%s:%s' % (fstr(w), fstr(re), fstr(-im))

    def texpr(re, im):
        return '%s*cos(%s*t) + %s*sin(%s*t)' % (sx(re), sx(w), sx(-im), sx(w))
    if kind == 'ack':
        ph, m, (cr, ci) = rng.choice(PHASES)
        A = m * k * rng.choice([1, -1])
        re, im = Fraction(A * cr, m), Fraction(A * ci, m)
        return {'args': 'ac %s {%s} %s' % (fs(A), ph, fs(w)), 'tokens': [ac_tok(re, im)], 'alt': '{%s}' % texpr(re, im), 'kind': kind}
    if kind == 'accx':
        re, im = Fraction(rng.randint(-5, 5)), Fraction(rng.choice([-4, -3, -2, -1, 1, 2, 3, 4]), rng.randint(1, 2))
        return {'args': 'ac {%s + %s*j} 0 %s' % (sx(re), sx(im), fs(w)), 'tokens': [ac_tok(re, im)], 'alt': '{%s}' % texpr(re, im), 'kind': kind}
    if kind == 'cs':
        a, b = Fraction(rng.randint(1, 6), rng.randint(1, 2)) * rng.choice([1, -1]), Fraction(rng.randint(1, 6), rng.randint(1, 2)) * rng.choice([1, -1])
        return {'args': '{%s*cos(%s*t) + %s*sin(%s*t)}' % (sx(a), sx(w), sx(b), sx(w)), 'tokens': ['ac:%s:%s:%s' % (fstr(w), fstr(a), fstr(b))], 'alt': None, 'kind': kind}
    if kind == 'ph':
        A = 5 * k
        if rng.random() < 0.5:
            return {'args': '{%d*cos(%s*t + atan(4/3))}' % (A, sx(w)), 'tokens': [ac_tok(Fraction(3 * k), Fraction(4 * k))], 'alt': None, 'kind': kind}
        return {'args': '{%d*sin(%s*t + atan(3/4))}' % (A, sx(w)), 'tokens': ['ac:%s:%s:%s' % (fstr(w), fstr(3 * k), fstr(4 * k))], 'alt': None, 'kind': kind}
    if kind == 'fact':
        # ONE product term: symbolic gain times a sum of cos and sin of one frequency (not expanded by SymPy)
        a, b = Fraction(rng.randint(1, 5)) * rng.choice([1, -1]), Fraction(rng.randint(1, 5)) * rng.choice([1, -1])
        kv = Fraction(rng.randint(1, 7), rng.randint(1, 3))
        return {'args': '{%s*(%s*cos(%s*t) + %s*sin(%s*t))}' % (GAIN, sx(a), sx(w), sx(b), sx(w)),
                'tokens': ['ac:%s:%s:%s' % (fstr(w), fstr(kv * a), fstr(kv * b))],
                'alt': '{%s*cos(%s*t) + %s*sin(%s*t)}' % (sx(kv * a), sx(w), sx(kv * b), sx(w)), 'kind': kind, 'subs': {GAIN: fstr(kv)}}
    if kind in ('fact-dc', 'fact-tr'):
        # products that expand into SEVERAL kinds (dc + ac, ac + transient)
        a = Fraction(rng.randint(1, 5))
        d = Fraction(rng.randint(1, 5))
        kv = Fraction(rng.randint(1, 7), rng.randint(1, 3))
        if kind == 'fact-dc':
            return {'args': '{%s*(%s + %s*cos(%s*t))}' % (GAIN, sx(d), sx(a), sx(w)),
                    'tokens': ['dc:%s' % fstr(kv * d), 'ac:%s:%s:0' % (fstr(w), fstr(kv * a))],
                    'alt': '{%s + %s*cos(%s*t)}' % (sx(kv * d), sx(kv * a), sx(w)), 'kind': kind, 'subs': {GAIN: fstr(kv)}}
        p = rng.randint(1, 3)
        return {'args': '{%s*(%s + %s*exp(-%d*t)*u(t))}' % (GAIN, sx(d), sx(a), p),
                'tokens': ['dc:%s' % fstr(kv * d), 'ep:%s:0:%d' % (fstr(kv * a), -p)],
                'alt': '{%s + %s*exp(-%d*t)*u(t)}' % (sx(kv * d), sx(kv * a), p), 'kind': kind, 'subs': {GAIN: fstr(kv)}}
    v = Fraction(rng.randint(1, 9), rng.randint(1, 3)) * rng.choice([1, -1])
    if kind == 'dc':
        return {'args': 'dc %s' % fs(v), 'tokens': ['dc:%s' % fstr(v)], 'alt': None, 'kind': kind}
    if kind == 'step':
        return {'args': 'step %s' % fs(v), 'tokens': ['ep:%s:0:0' % fstr(v)], 'alt': None, 'kind': kind}
    if kind == 'exp':
        p = rng.randint(1, 3)
        return {'args': '{%s*exp(-%d*t)*u(t)}' % (sx(v), p), 'tokens': ['ep:%s:0:%d' % (fstr(v), -p)], 'alt': None, 'kind': kind}
    if kind == 'mix':
        d = Fraction(rng.randint(1, 5))
        a, b = Fraction(rng.randint(1, 5)), Fraction(rng.randint(1, 5)) * rng.choice([1, -1])
        w2 = rng.choice([x for x in (Fraction(2), Fraction(3), Fraction(1, 2)) if x != w])
        c2 = Fraction(rng.randint(1, 4))
        p = rng.randint(1, 3)
        two = rng.random() < 0.5
        txt = '%s + %s*cos(%s*t) + %s*sin(%s*t)' % (sx(d), sx(a), sx(w), sx(b), sx(w))
        toks = ['dc:%s' % fstr(d), 'ac:%s:%s:0' % (fstr(w), fstr(a)), 'ac:%s:0:%s' % (fstr(w), fstr(b))]
        if two:
            txt += ' + %s*sin(%s*t)' % (sx(c2), sx(w2))
            toks.append('ac:%s:0:%s' % (fstr(w2), fstr(c2)))
        txt += ' + %s*exp(-%d*t)*u(t)' % (sx(abs(v)), p)
        toks.append('ep:%s:0:%d' % (fstr(abs(v)), -p))
        return {'args': '{%s}' % txt, 'tokens': toks, 'alt': None, 'kind': kind}
    raise ValueError(kind)


def gen_lap_case(rng, idx, probe=None):
    """-> JSON-serialisable description of one LAP case"""
    r = lambda: fs(Fraction(rng.randint(1, 6), rng.randint(1, 3)))   # noqa
    ivp = (idx % 3 == 2)
    ic = lambda: (' ' + fs(Fraction(rng.randint(1, 5), rng.randint(1, 2)) * rng.choice([1, -1]))) if ivp else ''   # noqa
    tmpl = idx % 5
    phased = ['ack', 'accx', 'cs', 'ph', 'fact', 'fact']
    k1 = phased[idx % 6] if not ivp else ['ack', 'accx'][idx % 2]
    k2 = rng.choice(['dc', 'step', 'exp', 'mix', 'ack', 'cs', 'fact'])
    if not ivp and idx % 4 == 1:
        # DC-driven without ac: the route `laplace()` (all sources in ONE Laplace analysis, initial conditions from the
        # dc solution) is defined
        k1, k2 = 'dc', rng.choice(['step', 'exp', 'step', 'dc'])
    if probe:
        k1 = probe
    srcs = []
    plain = []
    if tmpl == 0:
        srcs = [('V1', '1', '0', k1)]
        plain = ['R1 1 2 %s' % r(), 'C1 2 0 %s%s' % (r(), ic())] + (['R2 2 0 %s' % r()] if rng.random() < 0.5 else [])
    elif tmpl == 1:
        srcs = [('V1', '1', '0', k1)]
        plain = ['R1 1 2 %s' % r(), 'L1 2 0 %s%s' % (r(), ic())]
    elif tmpl == 2:
        srcs = [('V1', '1', '0', k1), ('V2', '2', '3', k2)]
        plain = ['R1 1 2 %s' % r(), 'C1 2 0 %s%s' % (r(), ic()), 'R2 3 0 %s' % r()]
    elif tmpl == 3:
        srcs = [('I1', '0', '1', k1), ('V2', '3', '0', k2)]
        plain = ['R1 1 0 %s' % r(), 'C1 1 2 %s%s' % (r(), ic()), 'R2 2 3 %s' % r()]
    else:
        R, L, C = rng.choice([(3, 1, Fraction(1, 2)), (2, 1, Fraction(1, 5)), (5, 1, Fraction(1, 6)), (4, 1, Fraction(1, 13))])
        srcs = [('V1', '1', '0', k1)]
        plain = ['R1 1 2 %s' % fs(R), 'L1 2 3 %s' % fs(L), 'C1 3 0 %s%s' % (fs(C), ic())]
    sl = []
    subs = {}
    for (nm, a, b, kd) in srcs:
        v = gen_value(rng, kd)
        sl.append({'name': nm, 'n1': a, 'n2': b, 'args': v['args'], 'tokens': v['tokens'], 'alt': v['alt'], 'kind': v['kind']})
        subs.update(v.get('subs', {}))
    s0 = Fraction(rng.randint(1, 9), rng.randint(2, 5))
    nodes = sorted({x for l in plain for x in l.split()[1:3]} - {'0'})
    rng.shuffle(nodes)
    return {'stream': 'lap', 'sources': sl, 'plain': plain, 's': fstr(s0), 'ivp': ivp, 'nodes': nodes[:2], 'template': tmpl,
            'subs': subs, 'probe': probe}


def lap_case(chk, drv, desc, L):
    """run one LAP case; L = dict of lazily imported modules.  Returns number of counterexamples raised; appends
    correspondence disagreements to L['disagreements']"""
    lcapy, S = L['lcapy'], L['S']
    tt, ss = L['t'], L['s']
    from c02 import TCanon
    s0 = Fraction(desc['s'])
    R = lambda x: S.Rational(Fraction(x).numerator, Fraction(x).denominator)   # noqa
    ncex = 0
    srcs = desc['sources']
    lines = ['%s %s %s %s' % (q['name'], q['n1'], q['n2'], q['args']) for q in srcs] + desc['plain']
    chk.count('lap-template', 't%d%s' % (desc['template'], '-ivp' if desc['ivp'] else ''))
    for q in srcs:
        chk.count('lap-source-kind', q['kind'])

    subs = {k_: Fraction(v_) for k_, v_ in (desc.get('subs') or {}).items()}

    def num(e):
        """substitute the numeric values of the symbolic gains"""
        x = e.sympy if hasattr(e, 'sympy') else S.sympify(e)
        if subs:
            x = x.subs({q: R(subs[q.name]) for q in x.free_symbols if q.name in subs})
        return x

    def gr(e):
        x = S.expand_complex(num(e))
        g = common.gauss_rational(x)
        if g is None:
            g = common.gauss_rational(S.simplify(x))
        return g

    def at_s(e):
        x = num(e).subs(ss.sympy, R(s0))
        return common.gauss_rational(S.simplify(x))

    def canon_time(e):
        """sympy time-domain expression -> raw term tokens (GQ valued) or None"""
        e = S.expand_trig(num(e))
        cn = TCanon(S, tt.sympy, ConstSmp())
        sg = cn.signal(e)
        if sg is None:
            return None
        toks = []
        for it in sg['post']:
            w = it.split(' ')
            if w[0] == 'ep':
                if Fraction(w[4]) != 0:
                    return None
                toks.append('ep:%s:%s:%s' % (w[1], w[2], w[3]))
            elif w[0] == 'dl':
                if w[2] != '0' or parse_gq(w[3]) != (0, 0):
                    return None
                toks.append('dl:%s' % w[1])
            else:
                return None
        return toks

    def lean_total(toks):
        rep = drv.ask1('sup.terms %s %s' % (fstr(s0), ' '.join(toks)) if toks else 'sup.terms %s dc:0' % fstr(s0))
        md = dict(p.split('=', 1) for p in rep.split()) if '=' in rep else {}
        return parse_gq(md['total']) if 'total' in md else None

    try:
        with common.time_limit(90):
            cct = lcapy.Circuit('\n'.join(lines))
            obs = {}
            for n in desc['nodes']:
                V = cct[n].V
                Vs = at_s(V.laplace())
                obs[n] = (V, Vs)
    except (Exception, common.TimeLimit) as e:   # noqa
        chk.count('lcapy-error', 'lap:' + type(e).__name__ + ':' + str(e)[:30])
        chk.case(('lap-err', tuple(lines)), False)
        return 0
    chk.case(('lap', tuple(lines), desc['s']), True)
    chk.sample({'stream': 'lap', 'netlist': lines, 's': desc['s']})
    base_in = {'stream': 'lap', 'desc': desc, 'netlist': lines}

    # (c) the Lean model on the raw netlist
    mreq = 'sup.solve %s || %s' % (fstr(s0), ' || '.join(
        ['%s %s %s terms %s' % (q['name'], q['n1'], q['n2'], ' '.join(q['tokens'])) for q in srcs] +
        [l.replace('{', '').replace('}', '') for l in desc['plain']]))
    mrep = drv.ask1(mreq)
    model = {}
    if mrep.startswith('ok ivp'):
        for it in mrep.split()[2:]:
            n, v = it.split('=')
            model[n] = {'total': parse_gq(v)}
    elif mrep.startswith('ok super'):
        for it in mrep.split()[3:]:
            n, v = it.split('=')
            dcv, acv, trv, tot = v.split(';')
            model[n] = {'dc': parse_gq(dcv), 'ac': {Fraction(a.split(':')[0]): parse_gq(a.split(':')[1]) for a in acv.split('|') if a},
                        'tr': parse_gq(trv), 'total': parse_gq(tot)}
    else:
        chk.count('model', 'lap:' + mrep[:40])

    for n, (V, Vs) in obs.items():
        if Vs is None:
            chk.count('lcapy', 'lap-non-rational-sample')
            continue
        # (a) V(s) = sum of the transforms of its own parts
        try:
            with common.time_limit(60):
                toks = []
                ok = True
                if not desc['ivp']:
                    dcv = gr(V.dc)
                    if dcv is None:
                        ok = False
                    elif dcv != (0, 0):
                        toks.append('dc:%s' % gq(dcv))
                    phs = {}
                    for w, ph in V.ac.items():
                        g = gr(ph)
                        wk = common.gauss_rational(S.sympify(w))
                        if g is None or wk is None:
                            ok = False
                            break
                        phs[wk[0]] = g
                        toks.append('ac:%s:%s:%s' % (fstr(wk[0]), fstr(g[0]), fstr(-g[1])))
                    trt = canon_time(V.transient.sympy) if ok else None
                    if trt is None:
                        ok = False
                    else:
                        toks += trt
                    if ok:
                        want = lean_total(toks)
                        chk.count('oracle', 'lap-parts-checked')
                        if any(p[1] != 0 for p in phs.values()):
                            chk.count('oracle', 'lap-parts-with-quadrature-phasor')
                        if want is None or want != Vs:
                            ncex += 1
                            chk.counterexample({'kind': 'laplace-reassembly', 'route': 'parts'},
                                               {'input': dict(base_in, node=n), 'lcapy': {'V(s) at s': str(Vs), 'parts': toks, 'V': str(V)},
                                                'spec': 'sum of the Lean transforms of the dc / phasor / transient parts = %s' % (want,)},
                                               'V(s) of node %s differs from the sum of the transforms of its own dc/ac/transient parts' % n)
                    else:
                        chk.count('lcapy', 'lap-parts-not-canonical')
                # (b) V(s) = transform of its own V(t)
                vt = canon_time(V.time().sympy)
                if vt is None:
                    chk.count('lcapy', 'lap-time-not-canonical')
                else:
                    want = lean_total(vt)
                    chk.count('oracle', 'lap-time-checked')
                    if want is None or want != Vs:
                        ncex += 1
                        chk.counterexample({'kind': 'laplace-reassembly', 'route': 'time'},
                                           {'input': dict(base_in, node=n), 'lcapy': {'V(s) at s': str(Vs), 'V(t)': str(V.time()), 'terms': vt},
                                            'spec': 'unilateral transform (Lean) of V(t) = %s' % (want,)},
                                           'V(s) of node %s is not the unilateral Laplace transform of its own V(t)' % n)
        except (Exception, common.TimeLimit) as e:   # noqa
            chk.count('lcapy-error', 'lap-parts:' + type(e).__name__)
        # (c) correspondence with the model
        if n in model and model[n].get('total') is not None:
            chk.coverage['correspondence']['compared'] += 1
            chk.count('model', 'lap-total-compared')
            bad = None
            if model[n]['total'] != Vs:
                bad = ('total', model[n]['total'], Vs)
            elif 'ac' in model[n] and not desc['ivp']:
                try:
                    for w, ph in V.ac.items():
                        g = gr(ph)
                        wk = common.gauss_rational(S.sympify(w))[0]
                        mv = model[n]['ac'].get(wk, (Fraction(0), Fraction(0)))
                        if g is not None and g != mv:
                            bad = ('phasor %s' % wk, mv, g)
                    g = gr(V.dc)
                    if g is not None and g != model[n]['dc']:
                        bad = ('dc', model[n]['dc'], g)
                except Exception as e:   # noqa
                    chk.count('lcapy-error', 'lap-model-parts:' + type(e).__name__)
            if bad and desc.get('probe'):
                chk.count('model', 'lap-probe-model-differs')
            elif bad:
                chk.coverage['correspondence']['disagreements'] += 1
                L['disagreements'].append({'stream': 'lap', 'netlist': lines, 's': desc['s'], 'node': n, 'what': bad[0], 'model': str(bad[1]), 'lcapy': str(bad[2])})

    # (e) every public regrouping route of netlist.py must describe the same signal as the default per-kind route
    ncex += route_checks(chk, drv, desc, L, cct, obs, model, at_s, gr, canon_time, lean_total, base_in)

    # (d) the same source written differently (ac keyword / factored product  vs  expanded time-domain expression)
    if any(q['alt'] for q in srcs) and (desc['ivp'] or any(q['kind'].startswith('fact') for q in srcs)):
        alt = ['%s %s %s %s' % (q['name'], q['n1'], q['n2'], q['alt'] or q['args']) for q in srcs] + desc['plain']
        try:
            with common.time_limit(90):
                c2 = lcapy.Circuit('\n'.join(alt))
                for n, (V, Vs) in obs.items():
                    V2 = at_s(c2[n].V.laplace())
                    if Vs is None or V2 is None:
                        continue
                    chk.count('oracle', 'lap-ivp-ac-keyword-checked' if desc['ivp'] else 'lap-factored-vs-expanded-checked')
                    if V2 != Vs:
                        ncex += 1
                        chk.counterexample({'kind': 'laplace-reassembly', 'route': 'ivp-ac-keyword'} if desc['ivp'] else
                                           dict({'kind': 'regrouping', 'route': 'factored-source'}, **({'probe': desc['probe']} if desc.get('probe') else {})),
                                           {'input': dict(base_in, node=n, alt_netlist=alt),
                                            'lcapy': {'ac keyword': str(Vs), 'time-domain expression': str(V2)},
                                            'spec': 'the response does not depend on how the same source is written'},
                                           'V(s) of node %s differs between the source as written (ac keyword / factored product) and the same source as an expanded t-domain expression' % n)
        except (Exception, common.TimeLimit) as e:   # noqa
            chk.count('lcapy-error', 'lap-ivp-alt:' + type(e).__name__)
    return ncex


ROUTES = ['dc', 'ac', 'transient', 'time', 'laplace']      # Netlist.dc(), ac(omega), transient(), time(), laplace()
# (Netlist.noise() is exercised in the NOISE stream; transient_time() / transient_laplace() select the misspelt kinds
#  'tranient_time' / 'tranient_laplace' and raise -- counted, an error is not a wrong result)


def route_checks(chk, drv, desc, L, cct, obs, model, at_s, gr, canon_time, lean_total, base_in):
    """`however the sources are grouped`: the sub-netlists returned by the public regrouping methods of netlist.py give
    the part of the default response they stand for (dc(), ac(w), transient()) or the whole of it (time(), laplace())."""
    S = L['S']
    ncex = 0
    if desc['ivp']:
        return 0
    s0 = Fraction(desc['s'])

    def bad(route, n, got, want, detail=None):
        key = {'kind': 'regrouping', 'route': route + '()'}
        if desc.get('probe'):
            key['probe'] = desc['probe']
        return chk.counterexample(key, {'input': dict(base_in, node=n, route=route), 'lcapy': {'route ' + route + '()': str(got), 'default per-kind route': str(want)},
                                        'spec': 'every grouping of the sources describes the same signal' + (' ; ' + detail if detail else '')},
                                  'node %s: Netlist.%s() gives a different signal than the default per-kind analysis' % (n, route))
    for route in ROUTES:
        try:
            with common.time_limit(60):
                if route == 'dc':
                    r = cct.dc()
                    for n, (V, Vs) in obs.items():
                        got, want = gr(r[n].V.dc), gr(V.dc)
                        if got is None or want is None:
                            continue
                        chk.count('oracle', 'route-dc-checked')
                        if got != want:
                            ncex += 1
                            bad(route, n, got, want)
                elif route == 'ac':
                    for n, (V, Vs) in obs.items():
                        for w, ph in V.ac.items():
                            r = cct.ac(w)
                            phs = r[n].V.ac
                            got = gr(list(phs.values())[0]) if len(phs) == 1 else ((Fraction(0), Fraction(0)) if len(phs) == 0 else None)
                            want = gr(ph)
                            if got is None or want is None:
                                continue
                            chk.count('oracle', 'route-ac-checked')
                            if got != want:
                                ncex += 1
                                bad(route, n, got, want, 'omega = %s' % w)
                elif route == 'transient':
                    r = cct.transient()
                    for n, (V, Vs) in obs.items():
                        got, want = at_s(r[n].V.laplace()), at_s(V.transient_laplace)
                        if got is None or want is None:
                            continue
                        chk.count('oracle', 'route-transient-checked')
                        if got != want:
                            ncex += 1
                            bad(route, n, got, want)
                elif route == 'time':
                    r = cct.time()
                    for n, (V, Vs) in obs.items():
                        got = at_s(r[n].V.laplace())
                        if got is None or Vs is None:
                            continue
                        chk.count('oracle', 'route-time-checked')
                        if got != Vs:
                            ncex += 1
                            bad(route, n, got, Vs)
                else:
                    r = cct.laplace()
                    if r is None:
                        chk.count('lcapy', 'route-laplace-undefined(ac source)')
                        continue
                    for n, (V, Vs) in obs.items():
                        Vr = r[n].V
                        got = at_s(Vr.laplace())
                        if got is None or Vs is None:
                            continue
                        chk.count('oracle', 'route-laplace-checked')
                        if got != Vs:
                            ncex += 1
                            bad(route, n, got, Vs, 'V(s) at s = %s' % desc['s'])
                            continue
                        vt = canon_time(Vr.time().sympy)
                        if vt is not None:
                            chk.count('oracle', 'route-laplace-time-checked')
                            wt = lean_total(vt)
                            if wt != Vs:
                                ncex += 1
                                bad(route, n, wt, Vs, 'Lean transform of the V(t) of the route')
        except (Exception, common.TimeLimit) as e:   # noqa
            chk.count('lcapy-error', 'route-%s:%s' % (route, type(e).__name__))
    return ncex


# --------------------------------------------------------------------------------------------------------- NOISE

def gen_noise_case(rng, idx):
    r = lambda: fs(Fraction(rng.randint(1, 6), rng.randint(1, 3)))   # noqa
    amp = lambda: fs(Fraction(rng.randint(1, 6), rng.randint(1, 3)))   # noqa
    tmpl = [0, 1, 0, 2][idx % 4]
    if tmpl == 0:
        # two (three) voltage noise sources from nodes to ground: with one killed its node is grounded
        a, b = rng.choice([('1', '2'), ('2', '1')])
        plain = ['R1 %s %s %s' % (b, a, r()), 'R2 %s 3 %s' % (a, r()), 'C1 3 0 %s' % r(), 'R3 %s 3 %s' % (b, r())]
        places = [('V', '1', '0'), ('V', '2', '0')]
        if rng.random() < 0.4:
            plain.append('R4 3 4 %s' % r())
            places.append(('V', '4', '0') if rng.random() < 0.5 else ('I', '0', '3'))
    elif tmpl == 1:
        plain = ['R1 1 2 %s' % r(), 'C1 2 0 %s' % r(), 'R2 0 3 %s' % r(), 'R3 2 4 %s' % r(), 'R4 4 0 %s' % r()]
        places = [('V', '1', '0'), ('V', '3', '2'), ('I', '0', '4')][:rng.randint(2, 3)]
    else:
        plain = ['R1 1 2 %s' % r(), 'L1 2 3 %s' % r(), 'R2 3 0 %s' % r(), 'C1 2 0 %s' % r(), 'R3 0 1 %s' % r()]
        places = [('I', '0', '1'), ('V', '3', '4'), ('I', '2', '3')][:rng.randint(2, 3)]
        plain.append('R4 4 0 %s' % r())
    if rng.random() < 0.5:
        places = [(ty, b_, a_) for (ty, a_, b_) in places]
    share = tmpl == 0 or rng.random() < 0.75
    ids = []
    for i_ in range(len(places)):
        if share and i_ < 2:
            ids.append('nx')
        else:
            ids.append(rng.choice(['nx', 'ny', None]))
    names = []
    src = []
    for i_, ((ty, a_, b_), nid) in enumerate(zip(places, ids)):
        nm = '%sn%d' % (ty, i_ + 1)
        names.append(nm)
        src.append('%s %s %s noise %s%s' % (nm, a_, b_, amp(), (' ' + nid) if nid else ''))
    nodes = sorted({x for l in plain + src for x in l.split()[1:3]} - {'0'})
    obs = []
    for _ in range(2):
        p, m = rng.sample(nodes, 2)
        obs.append({'kind': 'pair', 'np': p, 'nm': m})
    for l in rng.sample(plain, 2):
        tk = l.split()
        obs.append({'kind': 'cpt', 'name': tk[0], 'np': tk[1], 'nm': tk[2]})
    # a pair whose positive node is the node of a grounded voltage noise source (noise-free when that source is killed)
    gv = [l.split() for l in src if l[0] == 'V' and '0' in l.split()[1:3]]
    if gv:
        tk = rng.choice(gv)
        p = tk[1] if tk[2] == '0' else tk[2]
        others = [n for n in nodes if n != p]
        obs.append({'kind': 'pair', 'np': p, 'nm': rng.choice(others)})
    w = Fraction(rng.randint(1, 9), rng.randint(1, 4))
    return {'stream': 'noise', 'lines': src + plain, 'names': names, 'ids': ids, 'w': fstr(w), 'obs': obs, 'template': tmpl}


def noise_case(chk, drv, desc, L):
    lcapy, S = L['lcapy'], L['S']
    om = L['omega']
    lines, names, ids = desc['lines'], desc['names'], desc['ids']
    W = Fraction(desc['w'])
    RW = S.Rational(W.numerator, W.denominator)
    ncex = 0
    chk.count('noise2', 'template-%d ids:%s' % (desc['template'], ','.join(x or 'auto' for x in ids)))
    pairs = []
    for o in desc['obs']:
        if (o['np'], o['nm']) not in pairs:
            pairs.append((o['np'], o['nm']))
    rep = drv.ask1('noise.resp %s %s || %s' % (fstr(W), ','.join('%s:%s' % p for p in pairs), ' || '.join(lines)))
    if not rep.startswith('ok '):
        chk.count('model', 'noise:' + rep[:40])
        chk.case(('noise2-model-err', tuple(lines)), False)
        return 0
    model = {}
    for it in rep.split()[1:]:
        key, val = it.split('=')
        pw, srcs = val.split(';')
        vs = {}
        for sv in srcs.split('|'):
            nm, nid, g = sv.split('@')
            vs[nm] = (nid, parse_gq(g))
        model[tuple(key.split(':'))] = (Fraction(pw), vs)

    def lean_power(vs, only):
        groups = {}
        for nm in only:
            nid, g = vs[nm]
            groups.setdefault(nid, []).append('%s:%s:1' % (fstr(g[0]), fstr(g[1])))
        if not groups:
            return Fraction(0)
        return Fraction(drv.ask1('noise.power ' + ' | '.join(' '.join(g) for g in groups.values())))

    def n2(V):
        x = S.simplify((V.n.sympy ** 2).subs(om.sympy, RW))
        g = common.gauss_rational(x)
        return g

    def observe(c, o):
        if o['kind'] == 'cpt':
            return c[o['name']].V
        return c.get_Vd(o['np'], o['nm'])
    chk.case(('noise2', tuple(lines), desc['w']), True)
    chk.sample({'stream': 'noise', 'netlist': lines, 'omega': desc['w'], 'observed': desc['obs']})
    try:
        with common.time_limit(120):
            cct = lcapy.Circuit('\n'.join(lines))
            alone = {nm: cct.kill_except(nm) for nm in names}
            for o in desc['obs']:
                pw_all, vs = model[(o['np'], o['nm'])]
                base_in = {'stream': 'noise', 'desc': desc, 'netlist': lines, 'observed': o, 'omega': desc['w']}
                whole = observe(cct, o)
                parts = {nm: observe(alone[nm], o) for nm in names}
                zero_left = [nm for nm in names if vs[nm][1] is not None and vs[nm][1] != (0, 0) and
                             drv_zero_np(drv, desc, nm, o, W)]
                if zero_left:
                    chk.count('noise2', 'positive-node-noise-free-for-one-source')
                checks = [('whole', whole, list(names))]
                for nm in names:
                    checks.append(('alone:' + nm, parts[nm], [nm]))
                tot = None
                for nm in names:
                    tot = parts[nm] if tot is None else tot + parts[nm]
                # per-source parts keep their identifier only when it is explicit (an automatic one is re-drawn per circuit)
                checks.append(('sum-of-parts', tot, list(names)))
                for nm, nid in zip(names, ids):
                    if nid is not None:
                        checks.append(('whole-minus:' + nm, whole - parts[nm], [x for x in names if x != nm]))
                nkey = {'kind': 'regrouping', 'route': 'noise()'}
                if finding_listed(chk, nkey):
                    # Netlist.noise(): the sub-netlist of the noise parts must give the same noise voltage
                    try:
                        checks.append(('route-noise()', observe(cct.noise(), o), list(names)))
                    except Exception as e:   # noqa
                        chk.count('lcapy-error', 'route-noise:' + type(e).__name__)
                for (what, V, only) in checks:
                    got = n2(V)
                    want = lean_power(vs, only)
                    if got is None:
                        chk.count('lcapy', 'noise2-non-rational')
                        continue
                    chk.count('oracle', 'noise2-' + what.split(':')[0] + '-checked')
                    if got != (want, 0):
                        ncex += 1
                        shared = len({x for x in ids if x}) < len([x for x in ids if x])
                        chk.counterexample(nkey if what == 'route-noise()' else {'kind': 'noise-combination', 'what': what.split(':')[0], 'shared_ids': shared},
                                           {'input': dict(base_in, combination=what),
                                            'lcapy': {'n^2': str(got), 'V': str(V)},
                                            'spec': 'Lean noisePower of the transfer functions of the Lean MNA model = %s ; per-source responses %s' % (want, {k: str(v) for k, v in vs.items()})},
                                           'noise voltage (%s, %s -> %s): the %s is not combined as amplitude within an identifier / power across identifiers' % (o['kind'], o['np'], o['nm'], what))
                        break
                # correspondence: complex amplitude of each source alone
                for nm, nid in zip(names, ids):
                    try:
                        P = parts[nm]
                        ks = P.noise_keys()
                        if len(ks) == 0:
                            g = (Fraction(0), Fraction(0))
                        elif len(ks) == 1:
                            g = common.gauss_rational(S.simplify(P[ks[0]].sympy.subs(om.sympy, RW)))
                        else:
                            g = None
                        if g is None:
                            continue
                        chk.coverage['correspondence']['compared'] += 1
                        chk.count('model', 'noise2-amplitude-compared')
                        if g != vs[nm][1]:
                            chk.coverage['correspondence']['disagreements'] += 1
                            L['disagreements'].append({'stream': 'noise', 'netlist': lines, 'omega': desc['w'], 'observed': o, 'source': nm,
                                                       'model': str(vs[nm][1]), 'lcapy': str(g)})
                    except Exception as e:   # noqa
                        chk.count('lcapy-error', 'noise2-amp:' + type(e).__name__)
    except (Exception, common.TimeLimit) as e:   # noqa
        chk.count('lcapy-error', 'noise2:' + type(e).__name__ + ':' + str(e)[:40])
    return ncex


_ZCACHE = {}


def drv_zero_np(drv, desc, nm, o, W):
    """is the positive node noise-free (w.r.t. ground) for source nm alone?  (Lean model)"""
    key = (tuple(desc['lines']), desc['w'], o['np'])
    if key not in _ZCACHE:
        rep = drv.ask1('noise.resp %s %s:0 || %s' % (fstr(W), o['np'], ' || '.join(desc['lines'])))
        z = {}
        if rep.startswith('ok '):
            for sv in rep.split()[1].split('=')[1].split(';')[1].split('|'):
                n_, nid, g = sv.split('@')
                z[n_] = parse_gq(g)
        _ZCACHE[key] = z
    return _ZCACHE[key].get(nm) == (0, 0)


# --------------------------------------------------------------------------------------------------------- NALG

NID = {'nx': 1, 'ny': 2, 'n0': 0}


def gen_nalg_case(rng, idx):
    def val(zero_p):
        if rng.random() < zero_p:
            return (0, 0)
        return (rng.randint(-5, 5), rng.randint(-5, 5))
    op = ['sub', 'add', 'neg', 'smul', 'chain-zero-left', 'chain-cancel', 'chain-scale'][idx % 7]
    nx = rng.choice(['nx', 'ny'])
    ny = nx if rng.random() < 0.6 else rng.choice(['nx', 'ny'])
    x = val(0.35 if op in ('sub', 'add') else 0.1)
    y = val(0.25)
    if op == 'chain-zero-left':
        x, ny = (0, 0), nx
    c = Fraction(rng.randint(-6, 6), rng.randint(1, 3))
    return {'stream': 'nalg', 'op': op, 'x': list(x), 'y': list(y), 'z': list(val(0.0)), 'nx': nx, 'ny': ny, 'c': fstr(c)}


def nalg_case(chk, drv, desc, L):
    S = L['S']
    from lcapy.noiseomegaexpr import AngularFourierNoiseDomainVoltage as NV
    from lcapy import j
    ncex = 0
    op = desc['op']
    chk.count('nalg', op + (' same-nid' if desc['nx'] == desc['ny'] else ' distinct-nid') +
              (' x=0' if tuple(desc['x']) == (0, 0) else '') + (' y=0' if tuple(desc['y']) == (0, 0) else ''))
    chk.case(('nalg', op, tuple(desc['x']), tuple(desc['y']), desc['nx'], desc['ny'], desc['c']), True)

    def mk(v, nid):
        return NV(v[0] + v[1] * j, nid=nid)

    def tok(v, nid):
        return 'amp:%d:%d:%d' % (v[0], v[1], NID[nid])

    def canon(r, operands):
        """Lcapy result -> model token"""
        g = common.gauss_rational(S.expand_complex(r.sympy))
        nid = r.nid
        if nid in [o for o in operands]:
            if g is None:
                return None
            return 'amp:%s:%s:%d' % (fstr(g[0]), fstr(g[1]), NID[nid])
        # a fresh identifier: the value is a root of a power sum
        p = common.gauss_rational(S.simplify(S.expand_complex(r.sympy) ** 2))
        if p is None or p[1] != 0:
            return None
        return 'rss:%s:9' % fstr(p[0])

    def model(o, *args):
        return drv.ask1('nalg.op %s 9 %s' % (o, ' '.join(args)))

    x, y, z = tuple(desc['x']), tuple(desc['y']), tuple(desc['z'])
    nx, ny = desc['nx'], desc['ny']
    c = Fraction(desc['c'])
    cs = S.Rational(c.numerator, c.denominator)
    base_in = {'stream': 'nalg', 'desc': desc}
    try:
        X, Y = mk(x, nx), mk(y, ny)
        if op in ('add', 'sub'):
            r = X + Y if op == 'add' else X - Y
            want = model(op, tok(x, nx), tok(y, ny))
            got = canon(r, [nx, ny])
            laws = []
            if nx == ny:
                # amplitude semantics of one identifier: value is x ± y, identifier kept
                sgn = 1 if op == 'add' else -1
                laws.append(('amp:%d:%d:%d' % (x[0] + sgn * y[0], x[1] + sgn * y[1], NID[nx]), 'same identifier: amplitudes %s' % ('add' if op == 'add' else 'subtract')))
            elif y != (0, 0):
                laws.append(('rss:%d:9' % (x[0] ** 2 + x[1] ** 2 + y[0] ** 2 + y[1] ** 2), 'distinct identifiers: powers add'))
            else:
                laws.append((tok(x, nx), 'zero right operand is neutral'))
        elif op == 'neg':
            r = -X
            want = model('neg', tok(x, nx))
            got = canon(r, [nx])
            laws = [('amp:%d:%d:%d' % (-x[0], -x[1], NID[nx]), 'unary minus negates the amplitude and keeps the identifier')]
        elif op == 'smul':
            r = (X * cs) if desc['x'][0] % 2 == 0 else (cs * X)
            want = model('smul:%s' % fstr(c), tok(x, nx))
            got = canon(r, [nx])
            laws = [('amp:%s:%s:%d' % (fstr(c * x[0]), fstr(c * x[1]), NID[nx]), 'scalar multiple scales the amplitude and keeps the identifier')]
        elif op == 'chain-zero-left':
            # (0 - y) + z  ==  z - y   for one identifier (voltage between nodes whose positive node is noise-free, then combined)
            r = (X - Y) + mk(z, nx)
            w1 = model('sub', tok(x, nx), tok(y, nx))
            want = model('add', w1, tok(z, nx)) if w1 != 'none' else 'none'
            got = canon(r, [nx])
            laws = [('amp:%d:%d:%d' % (z[0] - y[0], z[1] - y[1], NID[nx]), '(0 - y) + z = z - y in amplitude')]
        elif op == 'chain-cancel':
            # (x + y) - y == x for one identifier
            r = (X + mk(y, nx)) - mk(y, nx)
            w1 = model('add', tok(x, nx), tok(y, nx))
            want = model('sub', w1, tok(y, nx)) if w1 != 'none' else 'none'
            got = canon(r, [nx])
            laws = [(tok(x, nx), '(x + y) - y = x for one identifier')]
        else:
            # c (x + y) == c x + c y for one identifier
            r = (X + mk(y, nx)) * cs
            r2 = X * cs + mk(y, nx) * cs
            w1 = model('add', tok(x, nx), tok(y, nx))
            want = model('smul:%s' % fstr(c), w1) if w1 != 'none' else 'none'
            got = canon(r, [nx])
            laws = [(canon(r2, [nx]), 'c (x + y) = c x + c y for one identifier')]
    except Exception as e:   # noqa
        chk.count('lcapy-error', 'nalg:' + type(e).__name__ + ':' + str(e)[:30])
        return 0
    if got is None:
        chk.count('lcapy', 'nalg-not-canonical')
        return 0
    for (lw, txt) in laws:
        chk.count('oracle', 'nalg-law-checked')
        if lw is not None and got != lw:
            ncex += 1
            chk.counterexample({'kind': 'noise-algebra', 'op': op, 'same_nid': nx == ny},
                               {'input': base_in, 'lcapy': {'result': got, 'expr': str(r), 'nid': r.nid}, 'spec': '%s: expected %s' % (txt, lw)},
                               'NoiseExpression arithmetic: %s is violated' % txt)
    if want != 'none':
        chk.coverage['correspondence']['compared'] += 1
        chk.count('model', 'nalg-compared')
        if want != got:
            chk.coverage['correspondence']['disagreements'] += 1
            L['disagreements'].append({'stream': 'nalg', 'desc': desc, 'model': want, 'lcapy': got})
    else:
        chk.count('model', 'nalg-outside-model')
    return ncex


# --------------------------------------------------------------------------------------------------------- GROUPS

FORM_OF = {'ack': 'kwac', 'accx': 'kwac', 'cs': 'texpr', 'ph': 'texpr', 'mix': 'texpr', 'exp': 'texpr', 'dc': 'kwdc', 'step': 'kwstep'}


def gen_groups_case(rng, idx):
    r = lambda: fs(Fraction(rng.randint(1, 6), rng.randint(1, 3)))   # noqa
    nsrc = rng.randint(1, 4)
    nodes = ['1', '2', '3', '4']
    lines = []      # (lcapy text, model text)
    names = []
    vnames = []
    for i in range(nsrc):
        ty = rng.choice('VVI')
        nm = '%s%d' % (ty, i + 1)
        a, b = rng.sample(['0'] + nodes[:3], 2)
        kd = rng.choice(['ack', 'accx', 'cs', 'ph', 'mix', 'exp', 'dc', 'step', 'dcx', 's', 'noise', 'noise'])
        if kd == 'noise':
            nid = rng.choice(['nx', 'ny', None])
            amp = fs(Fraction(rng.randint(1, 5), rng.randint(1, 2)))
            nm = '%sn%d' % (ty, i + 1)
            lines.append(('%s %s %s noise %s%s' % (nm, a, b, amp, (' ' + nid) if nid else ''),
                          '%s %s %s noise:%s' % (nm, a, b, nid or ('auto-' + nm))))
        elif kd == 'dcx':
            v = Fraction(rng.randint(1, 9), rng.randint(1, 3))
            lines.append(('%s %s %s {%s}' % (nm, a, b, sx(v)), '%s %s %s texpr dc:%s' % (nm, a, b, fstr(v))))
        elif kd == 's':
            v, p = rng.randint(1, 5), rng.randint(1, 3)
            lines.append(('%s %s %s s {%d/(s + %d)}' % (nm, a, b, v, p), '%s %s %s kws ep:%d:0:%d' % (nm, a, b, v, -p)))
        else:
            g = gen_value(rng, kd)
            lines.append(('%s %s %s %s' % (nm, a, b, g['args']), '%s %s %s %s %s' % (nm, a, b, FORM_OF[kd], ' '.join(g['tokens']))))
        names.append(nm)
        if ty == 'V' and kd != 'noise':
            vnames.append(nm)
    shape = idx % 4          # 0: resistive, 1: reactive without ICs, 2: with ICs, 3: ICs that are zero / mixed
    npass = rng.randint(2, 4)
    for i in range(npass):
        a, b = rng.sample(['0'] + nodes, 2)
        l = 'R%d %s %s %s' % (i + 1, a, b, r())
        lines.append((l, l))
    if shape >= 1:
        for i in range(rng.randint(1, 2)):
            ty = rng.choice('CL')
            a, b = rng.sample(['0'] + nodes, 2)
            ic = ''
            if shape == 2 or (shape == 3 and rng.random() < 0.7):
                ic = ' ' + (fs(Fraction(rng.randint(1, 5), rng.randint(1, 2)) * rng.choice([1, -1])) if shape == 2 or rng.random() < 0.4 else '0')
            l = '%s%d %s %s %s%s' % (ty, i + 1, a, b, r(), ic)
            lines.append((l, l))
    if vnames and rng.random() < 0.5:
        ty = rng.choice('HF')
        a, b = rng.sample(['0'] + nodes, 2)
        l = '%s1 %s %s %s %s' % (ty, a, b, rng.choice(vnames), r())
        lines.append((l, l))
    if rng.random() < 0.3:
        a, b = rng.sample(['0'] + nodes, 2)
        c, d = rng.sample(['0'] + nodes, 2)
        l = '%s1 %s %s %s %s %s' % (rng.choice('EG'), a, b, c, d, r())
        lines.append((l, l))
    order = list(range(len(lines)))
    rng.shuffle(order)
    lines = [lines[i] for i in order]
    kills = []
    pool = names + ['ICs']
    for _ in range(3):
        k = rng.randint(0, min(2, len(pool)))
        kills.append({'mode': rng.choice(['kill', 'except']), 'names': rng.sample(pool, k)})
    return {'stream': 'groups', 'lcapy': [l[0] for l in lines], 'model': [l[1] for l in lines], 'kills': kills, 'shape': shape,
            'sub': idx % 3 == 0}


def groups_case(chk, drv, desc, L):
    lcapy, S = L['lcapy'], L['S']
    chk.count('groups', 'shape-%d' % desc['shape'])
    rep = drv.ask1('grp.run || ' + ' || '.join(desc['model']))
    if not rep.startswith('groups '):
        chk.count('model', 'groups:' + rep[:30])
        return 0
    gtxt, ftxt = rep[len('groups '):].split(' flags ')
    mg = {}
    for it in [x for x in gtxt.split(';') if x]:
        k, v = it.split('=')
        mg[k] = [x for x in v.split(',') if x]
    mf = dict(x.split('=', 1) for x in ftxt.split())
    chk.case(('groups', tuple(desc['lcapy'])), True)
    try:
        with common.time_limit(60):
            cct = lcapy.Circuit('\n'.join(desc['lcapy']))
            try:
                a = cct.analysis
            except ValueError as e:
                chk.count('lcapy-error', 'groups:' + str(e)[:40])
                return 0
            import warnings
            with warnings.catch_warnings():
                warnings.simplefilter('ignore')
                lg_raw = cct._analysis_groups()
                # building the sub-netlists is slow; their keys are the keys of the groups by construction
                subkeys = list(cct.sub.keys()) if desc.get('sub', True) else list(lg_raw.keys())
    except (Exception, common.TimeLimit) as e:   # noqa
        chk.count('lcapy-error', 'groups:' + type(e).__name__ + ':' + str(e)[:30])
        return 0
    auto = {}
    for lt in desc['lcapy']:
        tk = lt.split()
        if len(tk) == 5 and tk[3] == 'noise':
            auto[tk[0]] = True

    def ckey(k, srcs):
        if isinstance(k, str):
            if k in ('dc', 'transient', 'ivp', 'time'):
                return k
            if k[0] == 'n':
                if len(srcs) == 1 and srcs[0] in auto:
                    return 'noise:auto-' + srcs[0]
                return 'noise:' + k
            return k
        g = common.gauss_rational(S.sympify(k))
        return 'ac:' + (fstr(g[0]) if g else str(k))
    lg = {}
    for k, v in lg_raw.items():
        lg[ckey(k, list(v))] = list(v)
    norm = lambda d: {k: (sorted(v) if k in ('ivp', 'time') else v) for k, v in d.items()}   # noqa
    chk.coverage['correspondence']['compared'] += 1
    chk.count('model', 'groups-compared')
    for k in lg:
        chk.count('groups-key', k.split(':')[0])
    bad = None
    if norm(lg) != norm(mg):
        bad = ('_analysis_groups', norm(mg), norm(lg))
    elif len(subkeys) != len(lg_raw):
        bad = ('cct.sub keys', sorted(mg), [str(x) for x in subkeys])
    else:
        lf = {'has_ic': a.has_ic, 'zeroic': a.zeroic, 'has_s': a.has_s, 'has_ac': a.has_ac, 'has_dc': a.has_dc, 'has_transient': a.has_transient,
              'ac_count': a.ac_count, 'dc_count': a.dc_count, 'causal': a.causal, 'reactive': a.reactive, 'ac': a.ac, 'dc': a.dc,
              'time_domain': a.time_domain, 'ivp': a.ivp, 'independent_sources': a.independent_sources, 'dependent_sources': a.dependent_sources,
              'control_sources': a.control_sources, 'reactances': a.reactances, 'ics': a.ics}
        try:
            if list(cct.sources) != list(a.dependent_sources) + list(a.independent_sources):
                bad = ('cct.sources', mf.get('dependent_sources', '') + ' + ' + mf.get('independent_sources', ''), str(cct.sources))
        except Exception as e:   # noqa
            chk.count('lcapy-error', 'sources:' + type(e).__name__)
        for k, v in lf.items():
            if isinstance(v, bool):
                v = '1' if v else '0'
            elif isinstance(v, list):
                v = ','.join(v)
            else:
                v = str(v)
            if mf.get(k, '') != v:
                bad = ('analysis.' + k, mf.get(k), v)
                break
    if bad:
        chk.coverage['correspondence']['disagreements'] += 1
        L['disagreements'].append({'stream': 'groups', 'netlist': desc['lcapy'], 'what': bad[0], 'model': str(bad[1]), 'lcapy': str(bad[2])})
    # kill / kill_except
    for kl in desc['kills']:
        try:
            new = cct.kill(*kl['names']) if kl['mode'] == 'kill' else cct.kill_except(*kl['names'])
        except Exception as e:   # noqa
            chk.count('lcapy-error', 'kill:' + type(e).__name__)
            continue
        got = []
        orig = {lt.split()[0]: lt.split() for lt in desc['lcapy']}
        for lt in str(new).strip().split('\n'):
            tk = lt.split(';')[0].split()
            if tk[0] == 'W':
                got.append('W:%s:%s' % (tk[1], tk[2]))
            elif tk[0] == 'O':
                got.append('O:%s:%s' % (tk[1], tk[2]))
            elif tk[0][0] in 'VI' and tk[0] in orig and tk[-1] == '0' and orig[tk[0]][-1] != '0' and 'noise' not in tk:
                got.append('zeroed:%s:%s:%s' % (tk[0], tk[1], tk[2]))
            elif tk[0][0] in 'CL' and tk[0] in orig and (len(tk) < len(orig[tk[0]]) or
                                                          (len(tk) == 5 and tk[4] == '0' and orig[tk[0]][4] != '0')):
                # the initial condition was removed (or zeroed: both mean 'no initial energy')
                got.append('noic:' + tk[0])
            else:
                got.append('kept:' + tk[0])
        mrep = drv.ask1('grp.kill %s %s || %s' % (kl['mode'], ','.join(kl['names']) or '-', ' || '.join(desc['model'])))
        chk.coverage['correspondence']['compared'] += 1
        chk.count('model', 'kill-compared')
        zero_ic = {nm_ for nm_, tk_ in orig.items() if nm_[0] in 'CL' and len(tk_) == 5 and tk_[4] == '0'}
        norm_k = lambda l_: [('kept:' + x_[5:]) if x_.startswith('noic:') and x_[5:] in zero_ic else x_ for x_ in l_]   # noqa
        if norm_k(mrep.split()[1:]) != norm_k(got):
            chk.coverage['correspondence']['disagreements'] += 1
            L['disagreements'].append({'stream': 'groups', 'netlist': desc['lcapy'], 'what': '%s %s' % (kl['mode'], kl['names']),
                                       'model': mrep, 'lcapy': ' '.join(got)})
    return 0



# --------------------------------------------------------------------------------------------------------- PROBES
# Defects that are present on the current tree; each runs only when known-findings.json lists its key (see finding_listed).

PROBE_KEYS = {
    'ivp-noncausal': {'kind': 'superposition', 'analysis': 'ivp', 'noncausal_source': True},
    'decompose-phasor-after-t': {'kind': 'decompose', 'cause': 'phasor-key-after-t'},
    'fact-dc': {'kind': 'regrouping', 'route': 'factored-source', 'probe': 'fact-dc'},
    'fact-tr': {'kind': 'regrouping', 'route': 'factored-source', 'probe': 'fact-tr'},
}


def probes(chk, drv, L, rng, n):
    lcapy, S = L['lcapy'], L['S']
    tt, ss = L['t'], L['s']
    ncex = 0
    R = lambda x: S.Rational(Fraction(x).numerator, Fraction(x).denominator)   # noqa
    for name, key in PROBE_KEYS.items():
        if not finding_listed(chk, key):
            chk.count('probe', name + ':not-listed-skipped')
            continue
        for i in range(n):
            chk.count('probe', name)
            if name in ('fact-dc', 'fact-tr'):
                d = gen_lap_case(rng, [0, 6, 4, 10][i % 4], probe=name)      # non-ivp single-source templates
                d['ivp'] = False
                ncex += lap_case(chk, drv, d, L)
            elif name == 'ivp-noncausal':
                # an initial-value problem driven by a NON-causal source (dc / ac keyword): whole = source alone + ICs alone
                r, c0 = Fraction(rng.randint(1, 5)), Fraction(rng.randint(1, 3))
                ic = Fraction(rng.randint(1, 6))
                src = rng.choice(['ac %d 0 %d' % (rng.randint(1, 5), rng.randint(1, 3)), 'dc %d' % rng.randint(1, 5)])
                lines = ['V1 1 0 ' + src, 'R1 1 2 %s' % fs(r), rng.choice(['C1 2 0 %s %s', 'L1 2 0 %s %s']) % (fs(c0), fs(ic))]
                s0 = Fraction(rng.randint(1, 9), rng.randint(2, 5))
                try:
                    with common.time_limit(60):
                        cct = lcapy.Circuit('\n'.join(lines))
                        at = lambda V: common.gauss_rational(S.simplify(V.laplace().sympy.subs(ss.sympy, R(s0))))   # noqa
                        whole = at(cct['2'].V)
                        a = at(cct.kill_except('V1')['2'].V)
                        b = at(cct.kill_except('ICs')['2'].V)
                    chk.case(('probe-ivp', tuple(lines)), True)
                    if None not in (whole, a, b) and (a[0] + b[0], a[1] + b[1]) != whole:
                        ncex += 1
                        chk.counterexample(key, {'input': {'netlist': lines, 's': fstr(s0), 'node': '2'},
                                                 'lcapy': {'whole': str(whole), 'V1 alone': str(a), 'ICs alone': str(b)},
                                                 'spec': 'V(s) = response to the source alone (zero initial state) + response to the initial conditions alone'},
                                           'initial-value problem with a non-causal source: the single-source circuit built by kill_except drops the '
                                           'initial conditions instead of zeroing them and is analysed in steady state')
                except (Exception, common.TimeLimit) as e:   # noqa
                    chk.count('lcapy-error', 'probe-ivp:' + type(e).__name__)
            else:
                # a time-domain sinusoid and an explicit phasor of the SAME frequency added into one superposition
                from lcapy.superpositionvoltage import SuperpositionVoltage
                from lcapy import phasor
                w, a, b = rng.randint(1, 4), rng.randint(1, 5), rng.randint(1, 5)
                try:
                    sup = SuperpositionVoltage('%d*cos(%d*t)' % (a, w)) + SuperpositionVoltage(phasor(b, omega=w))
                    dec = sup.decompose()
                    got = {str(k_): common.gauss_rational(S.expand_complex(v_.sympy)) for k_, v_ in dec.items()}
                    rep = drv.ask1('dec.run ac:%d:%d:0 ac:%d:%d:0' % (w, a, w, b))
                    chk.case(('probe-dec', w, a, b), True)
                    if got != {str(w): (Fraction(a + b), Fraction(0))}:
                        ncex += 1
                        chk.counterexample(key, {'input': {'expression': '%d*cos(%d*t)  +  phasor(%d, omega=%d)' % (a, w, b, w)},
                                                 'lcapy': {'decompose()': str(dec), 'time()': str(sup.time())}, 'model': rep,
                                                 'spec': 'the decomposition accumulates the phasors of one frequency (Lean model)'},
                                           'Superposition.decompose() overwrites the phasor obtained from the time-domain part with the explicit phasor of the same frequency')
                except Exception as e:   # noqa
                    chk.count('lcapy-error', 'probe-dec:' + type(e).__name__)
    return ncex
