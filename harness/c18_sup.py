"""C18, goal G1: the operators of Superposition and of phasors with equal / unequal angular frequency, sequences
(imported by c18.py).

Stream `superposition`: Superposition objects of both quantities with every combination of components that
circuit analysis produces (dc, ac, transient-s, time, dc+ac, dc+s, noise) x right/left operands (every
(domain, quantity) operand of the main stream, a number, a Superposition of either quantity) x {+, radd, -, *, rmul,
/, ==}.  Correspondence with the Lean model (q.supadd / q.supsub / q.supmul / q.supdiv / q.supeq); oracle by the
spec predicates: a sum with another defined quantity must be refused and never compares equal, every component of
an accepted result is a signal of the right quantity with the units of its domain (signalOk).

Stream `phasor`: phasor voltages / currents / ratios at omega in {3, 5, omega} x {*, /, +, -, ==} with each
other, with constant-domain immittances Y(j3), and with angular-Fourier expressions: correspondence with
q.phmul / q.phdiv / q.phadd; oracle: mulOk / divOk / addOk and omegaOk (different angular frequencies are refused).

Stream `sequence`: sequences built from typed discrete-time expressions keep the quantity and units of their
elements through indexing, as_impulses, ZT, DFT, scaling and addition (correspondence only)."""
import common
from translate import tx_tables

SUP_KINDS = {
    'dc': lambda q: ['3'],
    'ac': lambda q: ['2*cos(3*t)'],
    's': lambda q: ['laplace:1/(s+1)'],
    't': lambda q: ['exp(-t)*u(t)'],
    'dc+ac': lambda q: ['3 + 2*cos(3*t)'],
    'dc+s': lambda q: ['3', 'laplace:1/(s+1)'],
    'noise': lambda q: ['noise:3'],
}


def errkind(R, e):
    m = str(e)
    if isinstance(e, TypeError):
        return 'type'
    if 'Incompatible quantities' in m:
        return 'quantities'
    if 'Cannot handle value' in m:
        return 'kind'
    if 'Incompatible phasor angular frequencies' in m:
        return 'omega'
    k = R.errkind(e)
    return {'quantities': 'table'}.get(k, k)


def make_sup(R, q, kind):
    import lcapy
    from lcapy.superpositionvoltage import SuperpositionVoltage
    from lcapy.superpositioncurrent import SuperpositionCurrent
    cls = SuperpositionVoltage if q == 'voltage' else SuperpositionCurrent
    args = []
    for a in SUP_KINDS[kind](q):
        if a.startswith('laplace:'):
            args.append(R.exprclasses['laplace'][q](a[8:]))
        elif a.startswith('noise:'):
            args.append(R.exprclasses['angular fourier noise'][q](a[6:], nid='n1'))
        else:
            args.append(a)
    return cls(*args)


def observe_sup(R, r):
    """('sup', quantity, {key: (domain, quantity, units vector)}) of a Superposition result"""
    comps = {}
    for k, v in r.items():
        comps[str(k)] = (getattr(v, 'domain', '?'), getattr(v, 'quantity', '?'), R.units_vec(v.units))
    return ('sup', r.quantity, comps)


def sup_stream(chk, R, ask, violation, operands, wire_domain, ustr, opd_wire, quick, rng, replay_input=None):
    import lcapy
    sups = {}
    for q in ('voltage', 'current'):
        for kind in SUP_KINDS:
            try:
                sups[(q, kind)] = make_sup(R, q, kind)
            except Exception as e:   # noqa
                chk.count('superposition', 'cannot-build:%s' % kind)
    chk.coverage['superposition_objects'] = {'%s/%s' % k: sorted(str(x) for x in v.keys()) for k, v in sups.items()}
    # right operands
    args = [('number', 3, None), ('number', 2.5, None)]
    for q in ('voltage', 'current'):
        args.append(('sup:' + q, sups.get((q, 'dc')), None))
    keys = [k for k in operands if k[2] in ('var', 'const') and not (k[2] == 'const' and (k[0], k[1], 'var') in operands)]
    keys += [k for k in operands if k[2] == 'zero' and k[1] in ('voltage', 'current', 'undefined') and k[0] in ('time', 'laplace')]
    for k in keys:
        x, d = operands[k]
        args.append(('ex', x, (k, d)))
    if quick and replay_input is None:
        sup_sel = [k for k in sups if k[1] in ('dc', 's', 'dc+ac', 'noise')]
    else:
        sup_sel = list(sups)
    ops = ['+', 'radd', '-', '*', 'rmul', '/', '==']
    only = replay_input or {}
    n_cmp = 0
    for sk in sup_sel:
        qS, kind = sk
        if only and (only.get('sup') != list(sk)):
            continue
        S = sups[sk]
        have = set(str(k) for k in S.keys())
        for tag, x, meta in args:
            if x is None:
                continue
            if only and only.get('arg') != (tag if meta is None else list(meta[0])):
                continue
            for op in ops:
                if only and only.get('sop') != op:
                    continue
                if quick and not only and meta is not None and op in ('radd', 'rmul') and rng.random() < 0.6:
                    continue
                try:
                    with common.time_limit(10):
                        if op == '+':
                            r = S + x
                        elif op == 'radd':
                            r = x + S
                        elif op == '-':
                            r = S - x
                        elif op == '*':
                            r = S * x
                        elif op == 'rmul':
                            r = x * S
                        elif op == '/':
                            r = S / x
                        else:
                            r = (S == x)
                    if op == '==':
                        real = ('eq', bool(r))
                    elif hasattr(r, 'decompose') and hasattr(r, 'items'):
                        real = observe_sup(R, r)
                    else:
                        real = ('other', type(r).__name__)
                except common.TimeLimit:
                    chk.count('superposition', 'time-limit')
                    continue
                except AttributeError as e:
                    # `Expr + Superposition` is not offered: Expr.__add__ does not hand over to Superposition.__radd__
                    chk.count('superposition', 'not-offered:%s:%s' % (op, str(e)[-30:]))
                    continue
                except Exception as e:   # noqa
                    real = ('err', errkind(R, e))
                chk.count('operator', 'sup ' + op)
                chk.count('outcome sup ' + op, real[0] if real[0] != 'err' else 'err:' + real[1].split(':')[0])
                argname = tag if meta is None else list(meta[0])
                inp = {'op': 'superposition', 'sup': list(sk), 'arg': argname, 'sop': op,
                       'x_desc': list(meta[1]) if meta else None}
                chk.case(('sup', sk, str(argname), op), real[0] != 'err')
                noise = kind == 'noise' or (meta is not None and meta[1][0] in ('fourier noise', 'angular fourier noise'))
                # ---------------- model
                wire = tag if meta is None else 'ex ' + opd_wire(meta[1])
                mop = {'+': 'q.supadd', 'radd': 'q.supadd', '-': 'q.supsub', '*': 'q.supmul', 'rmul': 'q.supmul',
                       '/': 'q.supdiv', '==': 'q.supeq'}[op]
                m = ask('%s %s %s' % (mop, qS, wire)).split()
                if not noise:
                    chk.coverage['correspondence']['compared'] += 1
                    n_cmp += 1
                    bad = None
                    if op == '==':
                        if m[0] == 'raises' and real not in (('err', 'quantities'), ('err', 'kind')) and real[0] != 'err':
                            bad = 'model: the comparison raises'
                        if m[0] == 'compares' and real == ('err', 'quantities'):
                            bad = 'model: values are compared'
                    elif m[0] == 'err':
                        if real != ('err', m[1]):
                            bad = 'model: err ' + m[1]
                    else:
                        if real[0] == 'sup':
                            if real[1] != m[1]:
                                bad = 'model: Superposition of quantity ' + m[1]
                            elif m[2] != '-' and op in ('+', 'radd', '-'):
                                key = m[2]
                                cands = [c for k_, c in real[2].items() if (k_ == key or (key == 'omega0' and k_ not in ('t', 's', 'f', 'dc')))]
                                if not cands:
                                    bad = 'model: a component under key %s' % key
                                elif all(c[1] != m[4] for c in cands):
                                    bad = 'model: component of quantity %s' % m[4]
                                elif key not in have and key != 'omega0' and all(wire_domain(c[0]) != m[3] for c in cands if c[0] in WIRE):
                                    bad = 'model: component stored as %s' % m[3]
                        elif real[0] == 'err' and real[1] in ('quantities', 'kind', 'type'):
                            bad = 'model accepts'
                        elif real[0] == 'err':
                            chk.count('superposition', 'component-level-error:' + real[1].split(':')[0])
                    if bad:
                        chk.coverage['correspondence']['disagreements'] += 1
                        lst = chk.coverage.setdefault('superposition_disagreements', [])
                        if len(lst) < 10:
                            lst.append({'input': inp, 'lcapy': str(real)[:300], 'model': ' '.join(m), 'why': bad})
                else:
                    chk.count('not-modelled', 'noise sup ' + op)
                # ---------------- oracle (spec)
                xq = None
                if tag.startswith('sup:'):
                    xq = tag[4:]
                elif meta is not None:
                    xq = meta[1][1]
                if op in ('+', 'radd', '-', '==') and xq is not None:
                    # eqOk(..., equal = true) is false exactly when the spec demands a refusal (mustRefuse) for these quantities
                    must = ask('q.eqok %s %s 0 0 1 1' % (qS, xq)) != 'true'
                    accepted = real[0] == 'sup' or real == ('eq', True)
                    if must and accepted:
                        if noise:
                            key = {'kind': 'sum', 'family': 'noise-operators'}
                        elif xq in ('impedancesquared', 'admittancesquared'):
                            key = {'kind': 'sum', 'family': 'superposition-relabels-squared-immittance'}
                        else:
                            key = {'kind': 'sum' if op != '==' else 'equal', 'family': 'superposition', 'x_quantity': xq}
                        violation(key, inp, str(real)[:300],
                                  'mustRefuse: a Superposition%s and an expression of the defined quantity %s are not added and never compare equal' % (qS.capitalize(), xq),
                                  'Superposition%s(%s) %s %s accepted' % (qS.capitalize(), kind, op, xq))
                        continue
                if real[0] == 'sup':
                    for k_, (d, q, uv) in real[2].items():
                        if uv is None or d not in WIRE:
                            chk.count('superposition', 'component-not-judged')
                            continue
                        if ask('q.signalok %s %s %s %s' % (real[1], wire_domain(d), q, ustr(uv))) != 'true':
                            if noise:
                                key = {'kind': 'dimension', 'family': 'noise-operators'}
                            else:
                                key = {'kind': 'superposition-component', 'sop': op, 'component_domain': d}
                            violation(key, inp, str(real)[:300],
                                      'signalOk: every component of a Superposition%s is a %s with the units of its domain' % (real[1].capitalize(), real[1]),
                                      'component %s is a %s with units %s' % (k_, q, ustr(uv)))
                            break
    chk.coverage['superposition_compared'] = n_cmp


WIRE = tx_tables.DOMAINS


# ====================================================================== phasors

def phasor_stream(chk, R, ask, violation, wire_domain, ustr, opd_wire, cfg_wire, CONFIGS, quick, rng, replay_input=None):
    import lcapy
    from lcapy import j, s
    E = R.exprclasses
    om_sym = lcapy.omega
    items = []      # (name, object, omega tag)
    for q in ('voltage', 'current', 'undefined'):
        for om, tag in ((3, 'n3'), (5, 'n5'), (om_sym, 'sym')):
            for val, vn in (('4', 'const'), ('0', 'zero')):
                if vn == 'zero' and tag == 'n5':
                    continue
                try:
                    items.append(('phasor/%s/%s/%s' % (q, tag, vn), E['phasor'][q](val, omega=om), tag))
                except Exception:   # noqa
                    chk.count('phasor', 'cannot-build')
    for q in ('impedance', 'admittance', 'transfer'):
        for om, tag in ((3, 'n3'), (5, 'n5'), (om_sym, 'sym')):
            try:
                items.append(('phasor ratio/%s/%s' % (q, tag), E['phasor ratio'][q]('R_0', omega=om), tag))
            except Exception:   # noqa
                chk.count('phasor', 'cannot-build')
    Y = E['laplace']['admittance']('1/(s+2)')
    Z = E['laplace']['impedance']('s+2')
    for nm, x in (('Y(j3)', Y(j * 3)), ('Z(j3)', Z(j * 3)), ('Y(s)', Y), ('Y(omega)', Y(om_sym)), ('Z(jw)', Z(lcapy.jw)),
                  ('3', E['constant']['undefined']('3')), ('V(omega)', E['angular fourier']['voltage']('3*omega'))):
        items.append((nm, x, '-'))
    only = replay_input or {}
    cmp_ = 0
    disag = chk.coverage.setdefault('phasor_disagreements', [])
    for an, a, at in items:
        if not an.startswith('phasor'):
            continue
        ad = R.describe(a)
        for xn, x, xt in items:
            if only and (only.get('a') != an or only.get('x') != xn):
                continue
            xd = R.describe(x)
            if ad[2] is None or xd[2] is None:
                continue
            for op in ('*', '/', '+', '-', '=='):
                if only and only.get('pop') != op:
                    continue
                inp = {'op': 'phasor', 'a': an, 'x': xn, 'pop': op}
                cfg = CONFIGS[0]
                if op == '==':
                    try:
                        real = ('eq', bool(a == x))
                    except Exception as e:   # noqa
                        real = ('err', errkind(R, e))
                else:
                    try:
                        r = {'*': lambda: a * x, '/': lambda: a / x, '+': lambda: a + x, '-': lambda: a - x}[op]()
                        o = R.observe(r)
                        om = getattr(r, 'omega', None)
                        otag = '-' if om is None else ('sym' if str(om) == 'omega' else 'n%s' % om)
                        real = ('ok', o[1], o[2], o[3], otag)
                    except ZeroDivisionError:
                        continue
                    except Exception as e:   # noqa
                        real = ('err', errkind(R, e))
                chk.count('operator', 'phasor ' + op)
                chk.count('outcome phasor ' + op, real[0] if real[0] != 'err' else 'err:' + real[1].split(':')[0])
                chk.case(('phasor', an, xn, op), real[0] != 'err')
                both = an.split('/')[0] == xn.split('/')[0] and xn.startswith('phasor')
                same = at == xt
                anyzero = ad[3] or xd[3]
                # ---- model
                if op in ('*', '/', '+', '-'):
                    if op in ('*', '/'):
                        line = '%s %s %s %s %s' % ('q.phmul' if op == '*' else 'q.phdiv', opd_wire(ad), at, opd_wire(xd), xt)
                    else:
                        line = 'q.phadd %s %s %s %s %s' % (cfg_wire(cfg), opd_wire(ad), at, opd_wire(xd), xt)
                    m = ask(line).split()
                    chk.coverage['correspondence']['compared'] += 1
                    cmp_ += 1
                    if m[0] == 'err':
                        mm = ('err', m[1])
                    else:
                        mm = ('ok', {wire_domain(d): d for d in WIRE}.get(m[1], m[1]), m[2],
                              tuple(int(i) for i in m[3].split(',')), m[4])
                    rr = real
                    if real[0] == 'ok' and mm[0] == 'ok' and (op in ('+', '-') or real[4] == '-' or mm[4] == '-'):
                        rr = real[:4] + (mm[4],)       # the omega of sums / constant results is not compared
                    if rr != mm and not (real[0] == 'err' and mm[0] == 'err' and real[1].split(':')[0] == mm[1]):
                        chk.coverage['correspondence']['disagreements'] += 1
                        if len(disag) < 10:
                            disag.append({'input': inp, 'lcapy': str(real), 'model': str(mm)})
                # ---- oracle
                if op in ('+', '-', '=='):
                    accepted = real[0] == 'ok' or real == ('eq', True)
                    ok = ask('q.omegaok %d %d %d %d' % (both, same, anyzero, not accepted))
                    if ok != 'true':
                        violation({'kind': 'sum' if op != '==' else 'equal', 'family': 'phasors-of-different-angular-frequency'}, inp, str(real),
                                  'omegaOk: phasors of different angular frequencies are different domains: not added, never equal',
                                  '%s %s %s accepted' % (an, op, xn))
                if op in ('*', '/') and real[0] == 'ok' and real[3] is not None:
                    ok = ask('%s %s %s %s %s %s %s' % ('q.mulok' if op == '*' else 'q.divok', ad[1], ustr(ad[2]), xd[1], ustr(xd[2]), real[2], ustr(real[3])))
                    if both and not same and not anyzero:
                        violation({'kind': 'dimension', 'family': 'phasors-of-different-angular-frequency'}, inp, str(real),
                                  'omegaOk: phasors of different angular frequencies are not combined', '%s %s %s accepted' % (an, op, xn))
                    elif ok != 'true':
                        violation({'kind': 'dimension', 'family': 'other', 'op': op, 'a_quantity': ad[1], 'x_quantity': xd[1]}, inp, str(real),
                                  'mulOk / divOk on phasor operands', '%s %s %s is a %s [%s]' % (an, op, xn, real[2], ustr(real[3])))
    chk.coverage['phasor_compared'] = cmp_


# ====================================================================== sequences

def sequence_stream(chk, R, ask, violation, wire_domain, ustr):
    E = R.exprclasses
    for q in ('voltage', 'current', 'impedance', 'transfer'):
        try:
            x = E['discrete time'][q]('3**(-n)*u(n)')
            sq = x.seq((0, 1, 2))
        except Exception:   # noqa
            chk.count('sequence', 'cannot-build')
            continue
        forms = [('[1]', lambda: sq[1]), ('as_impulses()', lambda: sq.as_impulses()), ('expr', lambda: sq.expr),
                 ('(sq+sq)[1]', lambda: (sq + sq)[1]), ('(2*sq)[1]', lambda: (sq * 2)[1]),
                 ('ZT()[1]', lambda: sq.ZT()[1]), ('DFT()[1]', lambda: sq.DFT()[1])]
        xu = R.units_vec(x.units)
        for nm, f in forms:
            try:
                with common.time_limit(10):
                    r = f()
            except (Exception, common.TimeLimit):   # noqa
                chk.count('sequence', 'not-computable')
                continue
            chk.count('operator', 'sequence')
            chk.case(('sequence', q, nm), True)
            ru = R.units_vec(r.units) if hasattr(r, 'units') else None
            if getattr(r, 'quantity', None) != q or ru is None or ask('q.sameunits %s %s' % (ustr(xu), ustr(ru))) != 'true':
                violation({'kind': 'sequence', 'form': nm}, {'op': 'sequence', 'quantity': q, 'form': nm},
                          {'class': type(r).__name__, 'quantity': getattr(r, 'quantity', None), 'units': str(getattr(r, 'units', None))},
                          'the elements of a sequence keep the quantity and units of the expression it was sampled from',
                          'seq of a %s: %s is a %s [%s]' % (q, nm, getattr(r, 'quantity', None), getattr(r, 'units', None)))
        # sequences of different quantities are not added
        try:
            other = E['discrete time']['current' if q != 'current' else 'voltage']('2**(-n)*u(n)').seq((0, 1, 2))
            try:
                sq + other
                violation({'kind': 'sum', 'family': 'sequence'}, {'op': 'sequence', 'quantity': q, 'form': '+'}, 'accepted',
                          'mustRefuse: sequences of different defined quantities are not added', 'sequence sum accepted')
            except ValueError:
                chk.count('sequence', 'sum-refused')
        except Exception:   # noqa
            chk.count('sequence', 'not-computable')
