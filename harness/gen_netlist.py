"""Generator of random well-formed netlists in the restricted grammar that the Lean front-end
(lean/Lcapy/Model/Netlist.lean) parses.  Every random choice comes from the rng passed in.

A generated case is a dict:
  analysis : 'dc' | 's' | 'ivp' | 'ac'
  lines    : netlist lines with explicit rational values  (fed to the Lean model)
  lcapy    : the same netlist for Lcapy; symbolic components carry no value there
  subs     : {symbol name: Fraction} values of the symbolic components
  omega    : Fraction (ac only)
"""
from fractions import Fraction


def fs(x):
    x = Fraction(x)
    return str(x.numerator) if x.denominator == 1 else '{%d/%d}' % (x.numerator, x.denominator)


def rv(rng, lo=1, hi=9, den=4):
    return Fraction(rng.randint(lo, hi), rng.randint(1, den))


def sv(rng):
    x = Fraction(rng.randint(1, 9), rng.randint(1, 3))
    return x if rng.random() < 0.7 else -x


class Gen:
    def __init__(self, rng, analysis, nnodes, nextra, kinds, symbolic_prob=0.25, names=None):
        self.rng = rng
        self.analysis = analysis
        self.nodes = ['0'] + (names or [str(i) for i in range(1, nnodes)])
        self.nextra = nextra
        self.kinds = kinds
        self.symbolic_prob = symbolic_prob
        self.count = {}
        self.lines = []       # (model line, lcapy line)
        self.subs = {}
        self.vsources = []
        self.inductors = {}   # name -> value

    def name(self, ty):
        self.count[ty] = self.count.get(ty, 0) + 1
        return '%s%d' % (ty, self.count[ty])

    def src_args(self, v):
        a = self.analysis
        if a == 'dc':
            return self.rng.choice(['dc %s' % fs(v), '%s' % fs(v)])
        if a == 's':
            return 'step %s' % fs(v)
        if a == 'ivp':
            return self.rng.choice(['step %s' % fs(v), 'dc %s' % fs(v), '%s' % fs(v)])
        if a == 'ac':
            # `ac V [phi]`: amplitude and phase; quarter-turn phases keep the phasor Gaussian rational
            if self.rng.random() < 0.5:
                return 'ac %s %s' % (fs(v), self.rng.choice(['{pi/2}', '{-pi/2}', 'pi', '{pi/2}', '{-pi/2}']))
            return 'ac %s' % fs(v)
        raise ValueError(a)

    def src_args_lcapy(self, args):
        if self.analysis == 'ac':
            if len(args.split()) == 3:          # phase present
                return args + ' %s' % fs(self.omega)
            return args + ' 0 %s' % fs(self.omega)
        return args

    def add(self, ty, nodes, value=None, extra_model='', extra_lcapy=None, symbolic_ok=True):
        nm = self.name(ty)
        ns = ' '.join(nodes)
        if value is None:
            ml = '%s %s%s' % (nm, ns, extra_model)
            ll = '%s %s%s' % (nm, ns, extra_model if extra_lcapy is None else extra_lcapy)
        else:
            ml = '%s %s %s%s' % (nm, ns, fs(value), extra_model)
            if symbolic_ok and self.rng.random() < self.symbolic_prob and not extra_model:
                ll = '%s %s' % (nm, ns)           # symbolic: Lcapy uses the component name as its value
                self.subs[nm] = Fraction(value)
            else:
                ll = '%s %s %s%s' % (nm, ns, fs(value), extra_model if extra_lcapy is None else extra_lcapy)
        self.lines.append((ml, ll))
        return nm

    def two_nodes(self):
        a, b = self.rng.sample(self.nodes, 2)
        return [a, b]

    def four_nodes(self):
        if len(self.nodes) >= 4 and self.rng.random() < 0.5:
            return self.rng.sample(self.nodes, 4)
        a, b = self.rng.sample(self.nodes, 2)
        c, d = self.rng.sample(self.nodes, 2)
        return [a, b, c, d]

    def element(self, ty, nodes=None):
        rng = self.rng
        a = self.analysis
        if ty == 'R':
            return self.add('R', nodes or self.two_nodes(), rv(rng))
        if ty == 'C':
            ic = ''
            if a == 'ivp' and rng.random() < 0.7:
                ic = ' %s' % fs(sv(rng))
            return self.add('C', nodes or self.two_nodes(), rv(rng), extra_model=ic)
        if ty == 'L':
            ic = ''
            if a == 'ivp' and rng.random() < 0.7:
                ic = ' %s' % fs(sv(rng))
            val = rng.choice([Fraction(1), Fraction(4), Fraction(9), Fraction(1, 4), Fraction(4, 9)]) if 'K' in self.kinds else rv(rng)
            nm = self.add('L', nodes or self.two_nodes(), val, extra_model=ic, symbolic_ok=('K' not in self.kinds))
            self.inductors[nm] = val
            return nm
        if ty == 'V':
            args = self.src_args(sv(rng))
            nm = self.name('V')
            ns = ' '.join(nodes or self.two_nodes())
            self.lines.append(('%s %s %s' % (nm, ns, args), '%s %s %s' % (nm, ns, self.src_args_lcapy(args))))
            self.vsources.append(nm)
            return nm
        if ty == 'I':
            args = self.src_args(sv(rng))
            nm = self.name('I')
            ns = ' '.join(nodes or self.two_nodes())
            self.lines.append(('%s %s %s' % (nm, ns, args), '%s %s %s' % (nm, ns, self.src_args_lcapy(args))))
            return nm
        if ty == 'E':
            extra = ''
            if rng.random() < 0.3:
                extra = ' %s' % fs(sv(rng))       # common-mode gain Ac
            return self.add('E', self.four_nodes(), sv(rng), extra_model=extra)
        if ty == 'G':
            return self.add('G', self.four_nodes(), sv(rng))
        if ty in ('F', 'H'):
            if not self.vsources:
                return None
            ctrl = rng.choice(self.vsources)
            nm = self.name(ty)
            ns = ' '.join(self.two_nodes())
            l = '%s %s %s %s' % (nm, ns, ctrl, fs(sv(rng)))
            self.lines.append((l, l))
            return nm
        if ty == 'TF':
            return self.add('TF', self.four_nodes(), sv(rng))
        if ty == 'GY':
            return self.add('GY', self.four_nodes(), rv(rng))
        if ty == 'TR':
            return self.add('TR', self.two_nodes(), sv(rng))
        if ty == 'AM':
            return self.add('AM', self.two_nodes())
        if ty == 'O':
            return self.add('O', self.two_nodes())
        if ty == 'K':
            if len(self.inductors) < 2:
                return None
            l1, l2 = rng.sample(sorted(self.inductors), 2)
            nm = self.name('K')
            k = Fraction(rng.randint(1, 9), 10)
            l = '%s %s %s %s' % (nm, l1, l2, fs(k))
            self.lines.append((l, l))
            return nm
        if ty == 'TP':
            return self.twoport(rng.choice('ABGHYZ'), self.four_nodes())
        if ty == 'SP':
            kw = rng.choice(['pp', 'pm', 'ppp', 'pmm', 'ppm'])
            if len(self.nodes) < len(kw) + 1:
                return None
            return self.summing(kw, rng.sample(self.nodes, len(kw) + 1))
        if ty == 'W':
            # a wire to a fresh node name, then something hangs off the new node
            new = 'w%d' % (self.count.get('W', 0) + 1)
            old = rng.choice(self.nodes)
            self.count['W'] = self.count.get('W', 0) + 1
            l = 'W %s %s' % (old, new)
            self.lines.append((l, l))
            self.nodes.append(new)
            return 'W'
        raise ValueError(ty)

    def twoport(self, letter, nodes):
        """`TPn Np Nm Ncp Ncm <letter> p11 p12 p21 p22` with explicit rational parameters for which the code's
        conversion to the stamped representation (A for A,B,G,H; Y for Y,Z) is defined"""
        rng = self.rng
        for _ in range(50):
            p = [sv(rng) if rng.random() < 0.85 else Fraction(0) for _ in range(4)]
            det = p[0] * p[3] - p[1] * p[2]
            if letter in ('B', 'Z') and det == 0:
                continue
            if letter in ('G', 'H') and p[2] == 0:
                continue
            break
        nm = self.name('TP')
        l = '%s %s %s %s' % (nm, ' '.join(nodes), letter, ' '.join(fs(x) for x in p))
        self.lines.append((l, l))
        return nm

    def summing(self, kw, nodes):
        nm = self.name('SP')
        l = '%s %s %s' % (nm, kw, ' '.join(nodes[:len(kw) + 1]))
        self.lines.append((l, l))
        return nm

    def build(self):
        rng = self.rng
        self.omega = Fraction(rng.randint(1, 9), rng.randint(1, 3))
        # spanning tree so that every node is connected; tree branches are passive elements or V sources
        order = self.nodes[1:]
        rng.shuffle(order)
        connected = ['0']
        tree_kinds = [k for k in self.kinds if k in ('R', 'C', 'L', 'V')] or ['R']
        if self.analysis == 'dc':
            tree_kinds = [k for k in tree_kinds if k != 'C'] or ['R']
        first = True
        for n in order:
            m = rng.choice(connected)
            ty = 'V' if (first and 'V' in self.kinds) else rng.choice(tree_kinds + ['R'])
            first = False
            nodes = [n, m] if rng.random() < 0.5 else [m, n]
            self.element(ty, nodes)
            connected.append(n)
        extras = [k for k in self.kinds]
        for _ in range(self.nextra):
            self.element(rng.choice(extras))
        if self.analysis in ('ac', 's') and not any(m.split()[0][0] in 'CL' for (m, _) in self.lines):
            # purely resistive circuits are analysed in Lcapy's resistive time-domain kind; keep one reactive element
            self.element(rng.choice(['C', 'L']))
        if len(self.lines) < 2:
            self.element('R')
        if self.analysis == 'ivp' and not any((' ' in m) and m.split()[0][0] in 'CL' and len(m.split()) == 5 for (m, _) in self.lines):
            # an initial-value problem needs at least one explicit initial condition
            nm = self.name('C')
            l = '%s %s %s %s' % (nm, ' '.join(self.two_nodes()), fs(rv(rng)), fs(sv(rng)))
            self.lines.append((l, l))
        return {'analysis': self.analysis,
                'lines': [m for (m, _) in self.lines],
                'lcapy': [l for (_, l) in self.lines],
                'subs': dict(self.subs), 'omega': self.omega}


KIND_SETS = [
    ['R', 'V', 'I'],
    ['R', 'C', 'L', 'V', 'I'],
    ['R', 'C', 'L', 'V', 'I', 'E', 'G'],
    ['R', 'L', 'V', 'F', 'H', 'I'],
    ['R', 'C', 'V', 'TF', 'GY'],
    ['R', 'L', 'C', 'V', 'K'],
    ['R', 'C', 'L', 'V', 'I', 'E', 'G', 'F', 'H', 'TF', 'GY', 'TR', 'AM', 'O', 'W'],
]


def directed_case(rng, kind, analysis=None, floating=True):
    if kind == 'TL':
        analysis = 'dc'
    """a small circuit in which a component of the given kind certainly appears, with all of its
    terminals on non-ground nodes when `floating` (so that no stamp entry is hidden by the ground
    row/column), optional arguments present, either orientation"""
    if kind in ('Kic1', 'Kic2', 'Kfirst', 'Cic', 'Lic'):
        analysis = 'ivp'          # decided before the skeleton is drawn, so that its sources are written for this kind
    analysis = analysis or rng.choice(['dc', 's', 'ivp', 'ac'])
    g = Gen(rng, analysis, 5, 0, ['R', 'V', 'I', 'C', 'L'], symbolic_prob=0.15)
    g.omega = Fraction(rng.randint(1, 9), rng.randint(1, 3))
    n = ['1', '2', '3', '4'] if floating else ['1', '0', '2', '0']
    if not floating and rng.random() < 0.5:
        n = ['1', '2', '3', '0']
    # a driven resistive/reactive skeleton touching every node
    g.element('V', ['1', '0'])
    g.element('R', ['1', '2'])
    g.element(rng.choice(['R', 'C', 'L']) if analysis != 'dc' else 'R', ['2', '0'])
    g.element('R', ['3', '0'])
    g.element('R', ['3', '4'])
    g.element(rng.choice(['R', 'C', 'L']) if analysis != 'dc' else 'R', ['4', '0'])
    g.element('R', ['2', '3'])      # keeps nodes 3 and 4 alive (non-zero control voltages / currents)
    perm = list(n)
    if rng.random() < 0.5:
        perm = [perm[1], perm[0], perm[2], perm[3]]
    if rng.random() < 0.5:
        perm = [perm[0], perm[1], perm[3], perm[2]]
    rv_ = rv(rng)
    sv_ = sv(rng)
    if kind == 'Eac':
        g.add('E', perm, sv_, extra_model=' %s' % fs(sv(rng)))
    elif kind == 'E':
        g.add('E', perm, sv_)
    elif kind in ('Eopamp', 'EopampRo'):
        nm = g.name('E')
        l = '%s %s %s opamp %s %s %s %s%s' % (nm, perm[0], perm[1], perm[2], perm[3], fs(sv_), fs(sv(rng)),
                                               (' ' + fs(rv_)) if kind == 'EopampRo' else '')
        g.lines.append((l, l))
    elif kind == 'Efdopamp':
        # `Ename Np Nm fdopamp Nip Nim Nocm Ad Ac`; the output common-mode node is held by a source
        # (outputs never on the node that V1 drives: V1 and the two VCVS halves would form a loop of voltage sources)
        if '1' in perm[:2]:
            perm = [perm[2], perm[3], perm[0], perm[1]]
        g.element('R', ['5', '0'])
        g.element('R', ['5', '2'])
        nm = g.name('E')
        l = '%s %s %s fdopamp %s %s 5 %s %s' % (nm, perm[0], perm[1], perm[2], perm[3], fs(sv_), fs(sv(rng)))
        g.lines.append((l, l))
    elif kind == 'Einamp':
        # `Ename Np Nm inamp Nip Nim Nrp Nrm Ad Ac Rf` with the external gain resistor between Nrp and Nrm
        if '1' in perm[:2]:
            perm = [perm[2], perm[3], perm[0], perm[1]]
        g.element('R', ['6', '7'])
        nm = g.name('E')
        l = '%s %s %s inamp %s %s 6 7 %s %s %s' % (nm, perm[0], perm[1], perm[2], perm[3], fs(sv_), fs(sv(rng)), fs(rv_))
        g.lines.append((l, l))
    elif kind == 'G':
        g.add('G', perm, sv_)
    elif kind == 'TF':
        g.add('TF', perm, sv_)
    elif kind == 'GY':
        g.add('GY', perm, rv_)
    elif kind in ('F', 'H'):
        g.element('V', ['4', '3'] if rng.random() < 0.5 else ['3', '4'])
        nm = g.name(kind)
        l = '%s %s %s %s %s' % (nm, perm[0], perm[1], rng.choice(g.vsources), fs(sv_))
        g.lines.append((l, l))
    elif kind in ('Hamm', 'HL', 'HR', 'HC'):
        # CCVS controlled by a component that is not a voltage source; the H line before or after it
        cty = {'Hamm': 'AM', 'HL': 'L', 'HR': 'R', 'HC': 'C'}[kind]
        cn = ['4', '3'] if rng.random() < 0.5 else ['3', '4']
        if not floating:
            cn = rng.choice([['3', '0'], ['0', '4']])
        pos = len(g.lines)
        cname = g.add('AM', cn) if cty == 'AM' else g.element(cty, cn)
        nm = g.name('H')
        l = '%s %s %s %s %s' % (nm, perm[0], perm[1], cname, fs(sv_))
        g.lines.insert(pos if rng.random() < 0.5 else len(g.lines), (l, l))
        if rng.random() < 0.3:      # a second source controlled by the same component
            nm = g.name('H')
            l = '%s %s %s %s %s' % (nm, '2', '0', cname, fs(sv(rng)))
            g.lines.append((l, l))
    elif kind == 'TR':
        g.add('TR', perm[:2], sv_)
    elif kind == 'AM':
        g.add('AM', perm[:2])
    elif kind == 'K':
        g.kinds = ['K']
        g.inductors = {}
        # two DIFFERENT inductances (a mutual inductance computed from one of them only must show)
        la, lb = rng.sample([Fraction(1), Fraction(4), Fraction(9), Fraction(1, 4), Fraction(4, 9)], 2)
        for nn_, val in (([perm[0], perm[1]], la), ([perm[2], perm[3]], lb)):
            ic = (' %s' % fs(sv(rng))) if (analysis == 'ivp' and rng.random() < 0.7) else ''
            g.inductors[g.add('L', nn_, val, extra_model=ic, symbolic_ok=False)] = val
        g.element('K')
    elif kind in ('Kic1', 'Kic2'):
        # coupled inductors in an initial-value problem: exactly one of the pair (Kic1) or both (Kic2) with an
        # explicit initial current
        g.analysis = analysis = 'ivp'
        g.kinds = ['K']
        g.inductors = {}
        which = rng.randint(0, 1)
        vals_ = rng.sample([Fraction(1), Fraction(4), Fraction(9), Fraction(1, 4), Fraction(4, 9)], 2)
        for i_, nn_ in enumerate(([perm[0], perm[1]], [perm[2], perm[3]])):
            val = vals_[i_]
            ic = (' %s' % fs(sv(rng))) if (kind == 'Kic2' or i_ == which) else ''
            g.inductors[g.add('L', nn_, val, extra_model=ic, symbolic_ok=False)] = val
        g.element('K')
    elif kind == 'Cic':
        g.analysis = analysis = 'ivp'
        g.add('C', perm[:2], rv_, extra_model=' %s' % fs(sv_))
    elif kind == 'Lic':
        g.analysis = analysis = 'ivp'
        g.inductors[g.add('L', perm[:2], rv_, extra_model=' %s' % fs(sv_))] = rv_
    elif kind == 'I':
        g.element('I', perm[:2])
    elif kind == 'Ipar':
        # several contributions to the same entries of Is: two current sources across the same node pair (either
        # orientation) and, in an initial-value problem, a charged capacitor there too (before or after them)
        if analysis == 'ivp' and rng.random() < 0.5:
            g.add('C', perm[:2], rv_, extra_model=' %s' % fs(sv_))
        g.element('I', perm[:2])
        g.element('I', perm[:2] if rng.random() < 0.5 else [perm[1], perm[0]])
        if analysis == 'ivp' and rng.random() < 0.5:
            g.add('C', [perm[1], perm[0]], rv(rng), extra_model=' %s' % fs(sv(rng)))
    elif kind == 'Kfirst':
        # the K line BEFORE its inductors (the order in which the stamps accumulate into Es / D), both with initial currents
        g.analysis = analysis = 'ivp'
        g.kinds = ['K']
        g.inductors = {}
        vals_ = rng.sample([Fraction(1), Fraction(4), Fraction(9), Fraction(1, 4), Fraction(4, 9)], 2)
        pos = len(g.lines)
        for i_, nn_ in enumerate(([perm[0], perm[1]], [perm[2], perm[3]])):
            g.inductors[g.add('L', nn_, vals_[i_], extra_model=' %s' % fs(sv(rng)), symbolic_ok=False)] = vals_[i_]
        g.element('K')
        g.lines.insert(pos, g.lines.pop())
    elif kind == 'W':
        g.element('W')
        g.element('R', [g.nodes[-1], perm[0]])
    elif kind.startswith('TP'):
        g.twoport(kind[2], perm)
    elif kind.startswith('SP'):
        g.summing(kind[2:], perm)
    elif kind == 'TL':
        nm = g.name('TL')
        l = '%s %s %s' % (nm, ' '.join(perm), fs(rv_))
        g.lines.append((l, l))
    else:
        raise ValueError(kind)
    if analysis in ('ac', 's') and not any(m.split()[0][0] in 'CL' for (m, _) in g.lines):
        g.element(rng.choice(['C', 'L']), ['2', '4'])
    if analysis == 'ivp' and not any(m.split()[0][0] in 'CL' and len(m.split()) == 5 for (m, _) in g.lines):
        nm = g.name('C')
        l = '%s 2 4 %s %s' % (nm, fs(rv(rng)), fs(sv(rng)))
        g.lines.append((l, l))
    return {'analysis': analysis, 'lines': [m for (m, _) in g.lines], 'lcapy': [l for (_, l) in g.lines],
            'subs': dict(g.subs), 'omega': g.omega, 'kinds': [kind], 'directed': kind}


DIRECTED_KINDS = ['E', 'Eac', 'Eopamp', 'EopampRo', 'Efdopamp', 'Einamp', 'G', 'F', 'H', 'TF', 'GY', 'TR', 'AM', 'K', 'Kic1', 'Kic2', 'Cic', 'Lic', 'I', 'Ipar', 'Kfirst', 'W',
                  'Hamm', 'HL', 'HR', 'HC', 'TPA', 'TPB', 'TPG', 'TPH', 'TPY', 'TPZ', 'SPpp', 'SPpm', 'SPppp', 'SPpmm', 'SPppm', 'TL']


KIND_SETS_EXT = [
    ['R', 'C', 'V', 'I', 'TP', 'SP'],
    ['R', 'L', 'C', 'V', 'TP', 'TF', 'G'],
]


def random_case(rng, analysis=None, max_nodes=5, ext=False):
    analysis = analysis or rng.choice(['dc', 's', 'ivp', 'ac'])
    kinds = list(rng.choice(KIND_SETS + KIND_SETS_EXT if ext else KIND_SETS))
    nn = rng.randint(2, max_nodes)
    names = None
    if rng.random() < 0.3:
        pool = ['a', 'b', 'in', 'out', 'x1', 'mid', 'p', 'q', 'n7']
        names = rng.sample(pool, nn - 1)
    g = Gen(rng, analysis, nn, rng.randint(0, 3), kinds, names=names)
    case = g.build()
    case['kinds'] = kinds
    return case
