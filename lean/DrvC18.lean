import Lcapy.Driver.Loop
import Lcapy.Driver.C18
def main : IO Unit := Lcapy.Driver.runDriver [Lcapy.Driver.C18.handle]
