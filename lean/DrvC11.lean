import Lcapy.Driver.Loop
import Lcapy.Driver.C11
def main : IO Unit := Lcapy.Driver.runDriver [Lcapy.Driver.C11.handle]
