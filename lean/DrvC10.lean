import Lcapy.Driver.Loop
import Lcapy.Driver.C09
import Lcapy.Driver.C10
def main : IO Unit := Lcapy.Driver.runDriver [Lcapy.Driver.C10.handle, Lcapy.Driver.C09.handle]
