import Lcapy.Driver.Loop
import Lcapy.Driver.C01
import Lcapy.Driver.C03
def main : IO Unit := Lcapy.Driver.runDriver [Lcapy.Driver.C01.handle, Lcapy.Driver.C03.handle]
