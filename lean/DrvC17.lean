import Lcapy.Driver.Loop
import Lcapy.Driver.C17
def main : IO Unit := Lcapy.Driver.runDriver [Lcapy.Driver.C17.handle]
