import Lcapy.Driver.Loop
import Lcapy.Driver.C17
import Lcapy.Driver.C17Sim
def main : IO Unit := Lcapy.Driver.runDriver [Lcapy.Driver.C17.handle, Lcapy.Driver.C17Sim.handle]
