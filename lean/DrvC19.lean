import Lcapy.Driver.Loop
import Lcapy.Driver.C19
def main : IO Unit := Lcapy.Driver.runDriver [Lcapy.Driver.C19.handle]
