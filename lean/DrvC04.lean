import Lcapy.Driver.Loop
import Lcapy.Driver.C01
import Lcapy.Driver.C03
import Lcapy.Driver.C04
import Lcapy.Driver.C08
def main : IO Unit := Lcapy.Driver.runDriver [Lcapy.Driver.C04.handle, Lcapy.Driver.C01.handle, Lcapy.Driver.C03.handle, Lcapy.Driver.C08.handle]
