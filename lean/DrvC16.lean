import Lcapy.Driver.Loop
import Lcapy.Driver.C16
def main : IO Unit := Lcapy.Driver.runDriver [Lcapy.Driver.C16.handle]
