import Lcapy.Driver.Loop
import Lcapy.Driver.C01
import Lcapy.Driver.C15
def main : IO Unit := Lcapy.Driver.runDriver [Lcapy.Driver.C15.handle, Lcapy.Driver.C01.handle]
