import Lcapy.Driver.Loop
import Lcapy.Driver.C02
def main : IO Unit := Lcapy.Driver.runDriver
  [Lcapy.Driver.C02.handle, Lcapy.Driver.C01.handle, Lcapy.Driver.C09.handle, Lcapy.Driver.C10.handle]
