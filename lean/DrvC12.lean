import Lcapy.Driver.Loop
import Lcapy.Driver.C12
def main : IO Unit := Lcapy.Driver.runDriver [Lcapy.Driver.C12.handle]
