import Lcapy.Driver.Loop
import Lcapy.Driver.C20
import Lcapy.Driver.C20Placer
def main : IO Unit := Lcapy.Driver.runDriver [Lcapy.Driver.C20.handle, Lcapy.Driver.C20Placer.handle]
