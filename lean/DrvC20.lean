import Lcapy.Driver.Loop
import Lcapy.Driver.C20
def main : IO Unit := Lcapy.Driver.runDriver [Lcapy.Driver.C20.handle]
