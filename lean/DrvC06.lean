import Lcapy.Driver.Loop
import Lcapy.Driver.C06
def main : IO Unit := Lcapy.Driver.runDriver [Lcapy.Driver.C06.handle]
