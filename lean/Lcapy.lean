-- Root of the library: everything a fresh `lake build` must check.
import Lcapy.Model.M2
import Lcapy.Model.CRat
import Lcapy.Generated.TwoPort
import Lcapy.Spec.TwoPort
import Lcapy.Spec.TwoPortExec
import Lcapy.Proofs.TwoPortBase
import Lcapy.Props.C08
import Lcapy.Model.GQ
import Lcapy.Spec.Laws
import Lcapy.Spec.LawsExec
import Lcapy.Model.MNA
import Lcapy.Model.Netlist
import Lcapy.Proofs.MNA
import Lcapy.Props.C01
