import Lcapy.Model.M2
import Lcapy.Generated.TwoPort
