/-
  C20 (round 3) -- Lcapy's GRAPH PLACER (lcapy/schemgraph.py `Graph.solve`) inside the model: property theorems.

  Model  : Lcapy/Model/LayoutPlacer.lean (faithful to the code: insertion order, tie breaking, worklists; tied to the
           code on every run by exact comparison of ordered graphs and per-gnode positions on the real graphs)
  Proofs : Lcapy/Proofs/LayoutPlacer.lean

  What is proved for EVERY graph (any number of gnodes / edges):
    * `check_positions` decides exactly the edge constraints (`solve_conflicts_iff`);
    * `prune` keeps enough: if nothing is reported, the kept edges imply all the pruned parallel ones, hence a solve
      without conflicts satisfies every original edge (`solve_sat`);
    * `longest_path`: the labels of the memoised DFS are CERTIFIED by an executable check; certified labels dominate
      every walk, so the returned path is a genuine longest path (`longest_path_maximal`).  On the real graphs the
      certificate holds in every run (counted by the harness);
    * `assign_longest` lays the longest path out tightly, `assign_fixed1` places a gnode exactly at the size of the fixed
      edge it used -- no "only edge into its head" restriction (`assign_longest_exact`, `assign_fixed_exact`);
    * the even split of `assign_stretchy1` closes the gap between the two known gnodes iff
      `n·(W − E) = (n − m)·(sep − E)` (`even_split_closes_iff`): it always does when the path the positions are assigned
      along is itself a longest path with as many stretchy edges (`even_split_tight`), it stops short when that path is
      shorter (`even_split_misses`) and it overshoots -- the closing edge gets too short -- iff
      `n·(E − W) < (m − n)·(sep − E)` (`even_split_overshoots_iff`).
  Not proved (said plainly): a GLOBAL structural characterisation of the graphs on which the whole worklist
  (`assign_stretchy`, several interleaved steps) leaves no conflict -- finding C20-F20b stays an observed finding.  The
  executable predicate is `(solve g).conflicts ≠ []`, decided by `solve_conflicts_iff`.  The harness counts, for every
  conflict on the real graphs, which local mechanism is present (a non-closing split; a dangling gnode placed at the
  distance of a path THROUGH other still unplaced gnodes, as in the recorded F20b example): most conflicts show neither
  -- they are chords between gnodes assigned in different steps, which no step looks at (the TODO in the code).  What is
  missing for an exact iff is an invariant that relates the positions assigned by different worklist steps.
-/
import Lcapy.Proofs.LayoutPlacer

namespace Lcapy.C20
open Lcapy.Layout Lcapy.Placer

/-! ## 1. `check_positions` and `prune` -/

/-- the conflicts `check_positions` reports are exactly the violated edge constraints: none ⇔ every forward edge of
    every gnode holds (≥ size when stretchy, = size when fixed, both ends placed) -/
theorem solve_conflicts_iff (g : PGraph) (pos : Pos) :
    checkPositions g pos = [] ↔ ∀ x ∈ g, ∀ e ∈ x.fedges, SatE pos e := checkPositions_nil_iff g pos

/-- `prune` drops parallel edges between the same two gnodes; if it reports nothing, the edges it keeps imply the ones it
    drops (sizes are positive, as `Graph.add` guarantees) -/
theorem prune_sound (E : List GE) (pos : Pos) (hpos : ∀ e ∈ E, 0 < e.size) (hg : grizzleList E = [])
    (hs : ∀ b ∈ pruneList E, SatE pos b) : ∀ e ∈ E, SatE pos e := pruneList_sound E pos hpos hg hs

/-- **a solve without conflicts and without `prune` messages satisfies every edge of the ORIGINAL graph** -/
theorem solve_sat (g0 : PGraph) (s : Solved) (h : solve g0 = .ok s) (hc : s.conflicts = [])
    (hm : pruneMessages g0 = []) (hpos : ∀ x ∈ g0, ∀ e ∈ x.fedges, 0 < e.size) :
    ∀ x ∈ g0, ∀ e ∈ x.fedges, SatE s.pos e := by
  unfold solve at h
  simp only [bind, Except.bind, pure, Except.pure] at h
  cases h1 : longestPathCert (addStartNodes (prune g0)) [] "start" "end" with
  | error m => simp [h1] at h
  | ok pc =>
    obtain ⟨path, cert⟩ := pc
    simp only [h1] at h
    cases h2 : assignLongest path ⟨[], g0.names ++ ["start", "end"]⟩ with
    | error m => simp [h2] at h
    | ok st1 =>
      simp only [h2] at h
      cases h3 : assignFixed (addStartNodes (prune g0)) (st1.unknown.length + 1) st1 with
      | error m => simp [h3] at h
      | ok st2 =>
        simp only [h3] at h
        cases h4 : assignStretchy (addStartNodes (prune g0)) (st2.unknown.length + 1) st2 [] with
        | error m => simp [h4] at h
        | ok r =>
          obtain ⟨st3, steps⟩ := r
          simp only [h4] at h
          split at h
          · simp at h
          · simp only [Except.ok.injEq] at h
            subst h
            simp only at hc ⊢
            have hall := (checkPositions_nil_iff _ _).1 hc
            intro x hx
            apply pruneList_sound x.fedges st3.pos (hpos x hx)
            · unfold pruneMessages at hm
              exact (List.flatMap_eq_nil_iff.1 hm) x hx
            · intro b hb
              obtain ⟨x', hx', hb'⟩ := addStartNodes_hasF _ b (prune_hasF g0 x hx b hb)
              exact hall x' hx' b hb'

/-! ## 2. `longest_path` -/

/-- **certificate**: labels that pass the executable check `lpCert` dominate the length of every walk to the target
    through gnodes of unknown position -/
theorem longest_path_labels (g : PGraph) (pos : Pos) (src dst : String) (d : List (String × Rat))
    (hc : lpCert g pos src dst d = true) (v : String) (q : List GE) (hq : IsChain g pos src dst v q)
    (hv : (aget d v).isSome = true) : ∃ x, aget d v = some x ∧ pathDist q ≤ x ∧ 0 ≤ x :=
  lpCert_bound g pos src dst d hc v q hq hv

/-- **`longest_path` returns a longest path** whenever its run is certified: a genuine walk from `src` to `dst`, at least
    as long as every other one -/
theorem longest_path_maximal (g : PGraph) (pos : Pos) (src dst : String) (p : List GE)
    (h : longestPathCert g pos src dst = .ok (p, true)) :
    IsChain g pos src dst src p ∧ ∀ q, IsChain g pos src dst src q → pathDist q ≤ pathDist p :=
  longestPathCert_max g pos src dst p h

/-- the executable walk check used by the certificate decides `IsChain` -/
theorem chain_check (g : PGraph) (pos : Pos) (src dst v : String) (q : List GE) :
    chainB g pos src dst v q = true ↔ IsChain g pos src dst v q := chainB_iff g pos src dst v q

/-! ## 3. `assign_longest`, `assign_fixed` -/

/-- every edge of the longest path is drawn with exactly its size -/
theorem assign_longest_exact (p : List GE) (hc : Consecutive p) (st st' : St) (h : assignLongest p st = .ok st') :
    ∀ e ∈ p, ∃ a, aget st'.pos e.src = some a ∧ aget st'.pos e.dst = some (a + e.size) :=
  assignLongest_exact p hc st st' h

/-- a gnode placed by `assign_fixed1` lies at exactly the size of a FIXED edge from a gnode of known position --
    whatever other edges enter or leave it -/
theorem assign_fixed_exact (g : PGraph) (pos : Pos) (n : String) (x : Rat) (h : assignFixed1 g pos n = some x) :
    (∃ e ∈ g.fedgesOf n, e.stretch = false ∧ ∃ b, aget pos e.dst = some b ∧ b - x = e.size) ∨
    (∃ e ∈ g.redgesOf n, e.stretch = false ∧ ∃ b, aget pos e.dst = some b ∧ x - b = e.size) :=
  assignFixed1_exact g pos n x h

/-! ## 4. the even split of `assign_stretchy1` (finding C20-F20b) -/

/-- where the walk of `assign_stretchy1` ends: start + Σ sizes + (number of stretchy edges)·stretch -/
theorem walk_end (which : GE → String) (s : Rat) (p : List GE) (x : Rat) (st : St) (x' : Rat) (st' : St)
    (h : walkAssign which s p x st = .ok (x', st')) : x' = x + pathDist p + (pathStretches p : Rat) * s :=
  walkAssign_end which s p x st x' st' h

/-- `E`, `n`: extent and stretchy edges of the LONGEST path between the two known gnodes (used for the stretch);
    `W`, `m`: those of the path the positions are assigned along.  The walk arrives exactly at the known gnode iff … -/
theorem even_split_closes_iff (fp tp E W : Rat) (n m : Nat) (hn : 0 < n) :
    fp + W + (m : Rat) * ((tp - fp - E) / (n : Rat)) = tp ↔
      (n : Rat) * (W - E) = ((n : Rat) - (m : Rat)) * (tp - fp - E) := evenSplit_closes_iff fp tp E W n m hn

/-- sufficient: the walk is itself a longest path with as many stretchy edges -/
theorem even_split_tight (fp tp E : Rat) (n : Nat) (hn : 0 < n) :
    fp + E + (n : Rat) * ((tp - fp - E) / (n : Rat)) = tp := by
  rw [even_split_closes_iff fp tp E E n n hn]; ring

/-- the walk OVERSHOOTS the known gnode -- so that the closing edge is drawn shorter than planned, a violation as soon as
    the overshoot exceeds that edge's own stretch -- iff it has more stretchy edges than the longest path and
    `n·(E − W) < (m − n)·(sep − E)` -/
theorem even_split_overshoots_iff (fp tp E W : Rat) (n m : Nat) (hn : 0 < n) :
    tp < fp + W + (m : Rat) * ((tp - fp - E) / (n : Rat)) ↔
      (n : Rat) * (E - W) < ((m : Rat) - (n : Rat)) * (tp - fp - E) := by
  have hn' : (0 : Rat) < (n : Rat) := by exact_mod_cast hn
  have e : fp + W + (m : Rat) * ((tp - fp - E) / (n : Rat)) - tp =
      (((m : Rat) - (n : Rat)) * (tp - fp - E) - (n : Rat) * (E - W)) / (n : Rat) := by
    field_simp; ring
  constructor
  · intro h
    have h1 : 0 < (((m : Rat) - (n : Rat)) * (tp - fp - E) - (n : Rat) * (E - W)) / (n : Rat) := by rw [← e]; linarith
    by_contra hle
    have hle' : ((m : Rat) - (n : Rat)) * (tp - fp - E) - (n : Rat) * (E - W) ≤ 0 := by linarith [not_lt.mp hle]
    have := div_nonpos_of_nonpos_of_nonneg hle' (le_of_lt hn')
    linarith
  · intro h
    have h1 : 0 < (((m : Rat) - (n : Rat)) * (tp - fp - E) - (n : Rat) * (E - W)) / (n : Rat) :=
      div_pos (by linarith) hn'
    rw [← e] at h1; linarith

/-- a walk that is SHORTER than the longest path but has as many stretchy edges never arrives exactly: it stops short by
    `E − W`, and the closing edge is drawn that much longer than its size (harmless when it is stretchy, a violation when
    it is fixed) -/
theorem even_split_misses (fp tp E W : Rat) (n : Nat) (hn : 0 < n) (hW : W < E) :
    fp + W + (n : Rat) * ((tp - fp - E) / (n : Rat)) ≠ tp := by
  rw [Ne, even_split_closes_iff fp tp E W n n hn]
  have hn' : (0 : Rat) < (n : Rat) := by exact_mod_cast hn
  intro h
  have : (n : Rat) * (W - E) < 0 := mul_neg_of_pos_of_neg hn' (by linarith)
  rw [h] at this
  simp at this

/-! ## non-vacuity -/

/-- a diamond with a long and a short branch: the run is certified, nothing conflicts, the short branch is stretched by
    an even split (1.5 per stretchy edge) -/
def diamond : PGraph :=
  [⟨"a", [⟨"0", "a", "b", 1, true⟩, ⟨"2", "a", "c", 3, true⟩], []⟩,
   ⟨"b", [⟨"1", "b", "d", 1, true⟩], [⟨"0", "b", "a", 1, true⟩]⟩,
   ⟨"c", [⟨"3", "c", "d", 2, true⟩], [⟨"2", "c", "a", 3, true⟩]⟩,
   ⟨"d", [], [⟨"1", "d", "b", 1, true⟩, ⟨"3", "d", "c", 2, true⟩]⟩]

example : (match solve diamond with
    | .ok s => s.certified && s.conflicts.isEmpty && decide (aget s.pos "b" = some (5/2)) && decide (aget s.pos "d" = some 5)
    | .error _ => false) = true := by decide +kernel

/-- the hypotheses of `solve_sat` hold for it -/
example : pruneMessages diamond = [] ∧ ∀ x ∈ diamond, ∀ e ∈ x.fedges, 0 < e.size := by decide +kernel

/-- `prune_sound`: a fixed edge of size 2 parallel to a stretchy edge of size 1 -/
example : grizzleList [⟨"0", "a", "b", 2, false⟩, ⟨"1", "a", "b", 1, true⟩] = [] ∧
    pruneList [⟨"0", "a", "b", 2, false⟩, ⟨"1", "a", "b", 1, true⟩] = [⟨"0", "a", "b", 2, false⟩] := by decide +kernel

/-- … and the other way round it is reported -/
example : grizzleList [⟨"0", "a", "b", 1, false⟩, ⟨"1", "a", "b", 2, true⟩] ≠ [] := by decide +kernel

/-- `longest_path_maximal`: the certificate holds on the diamond (with the dummy gnodes) -/
example : (match longestPathCert (addStartNodes (prune diamond)) [] "start" "end" with
    | .ok (p, c) => c && decide (pathDist p = 5)
    | .error _ => false) = true := by decide +kernel

end Lcapy.C20
