/-
  C06, round 3: the NETLIST-LEVEL round trip, composed from the line-level theorem: a multi-line netlist
  of components in normal form is printed one component per line, split at the newlines, and read
  back line by line to the same netlist; printing is idempotent.
  PARTIAL (hence the `_partial` names): not covered are directive / comment / blank lines and anonymous
  components (their names are generated from the names already in use), namespaced names (`a.R1`), option
  values containing `{ } ,` and the `def` key, and the values excluded by `normalCpt` (findings C06-e/a/b);
  these are validated by correspondence and oracle only.
-/
import Lcapy.Props.C06Line
namespace Lcapy.C06
open Lcapy.Parser Lcapy.Spec.Netlist

/-! ### netlist level: a printed netlist is read back line by line -/

theorem splitOn_joinWith_lines (ls : List Str) (hne : ls ≠ []) (h : ∀ l ∈ ls, ∀ c ∈ l, c ≠ '\n') :
    splitOn '\n' (joinWith ['\n'] ls) = ls := by
  induction ls with
  | nil => exact absurd rfl hne
  | cons l rest ih =>
    cases rest with
    | nil => simpa [joinWith] using splitOn_nosep '\n' l (h l (by simp))
    | cons m rest' =>
      have e : joinWith ['\n'] (l :: m :: rest') = l ++ '\n' :: joinWith ['\n'] (m :: rest') := by simp [joinWith]
      rw [e, splitOn_cons_sep '\n' l _ (h l (by simp)), ih (by simp) (fun x hx => h x (by simp [hx]))]

theorem eltsSet_fresh (es : List Cpt) (c : Cpt) (h : ∀ e ∈ es, e.name ≠ c.name) : eltsSet es c = es ++ [c] := by
  unfold eltsSet
  have : es.any (fun e => e.name == c.name) = false := by
    rw [List.any_eq_false]; intro e he; simpa using h e he
  simp [this]

theorem preLine_id (l : Str) (h : l.head? ≠ some '.') : preLine l = l := by
  unfold preLine
  have : startsWith l ['.', '.', '.'] = false := by
    cases l with
    | nil => rfl
    | cons a t =>
      have : a ≠ '.' := by intro e; subst e; simp at h
      simp [startsWith, List.isPrefixOf]
      intro e; exact absurd e.symm this
  simp [this]

/-- what the line-level theorem provides for one line -/
def LineOK (g : Grammar) (l : Str) (c' : Cpt) : Prop :=
  (∀ used, parse g used [] l = .ok (c', none)) ∧ (∃ o, optsParse c'.opts = .ok o) ∧ strip l = l ∧ l.head? ≠ some '.'

theorem addLines_lines (g : Grammar) (lcs : List (Str × Cpt)) (hl : ∀ p ∈ lcs, LineOK g p.1 p.2)
    (hd : (lcs.map (·.2.name)).Nodup) (s0 : NState) (hf : ∀ p ∈ lcs, ∀ e ∈ s0.elts, e.name ≠ p.2.name) :
    addLines g s0 (lcs.map (·.1)) = .ok ⟨s0.elts ++ lcs.map (·.2), s0.namer⟩ := by
  induction lcs generalizing s0 with
  | nil => simp [addLines]
  | cons p rest ih =>
    obtain ⟨l, c'⟩ := p
    obtain ⟨hparse, ⟨o, ho⟩, hstrip, hhead⟩ := hl (l, c') (by simp)
    simp only [List.map_cons, List.nodup_cons] at hd
    have hset := eltsSet_fresh s0.elts c' (hf (l, c') (by simp))
    have hline : addLine g s0 (strip l) = .ok ⟨s0.elts ++ [c'], s0.namer⟩ := by
      unfold addLine
      rw [hstrip, preLine_id l hhead, hparse s0.used]
      simp only [ho, hset]
    simp only [List.map_cons, addLines, hline]
    rw [ih (fun q hq => hl q (by simp [hq])) hd.2 ⟨s0.elts ++ [c'], s0.namer⟩]
    · simp
    · intro q hq e he
      simp only [List.mem_append, List.mem_singleton] at he
      rcases he with he | rfl
      · exact hf q (by simp [hq]) e he
      · intro heq
        exact hd.1 (List.mem_map.mpr ⟨q, hq, heq.symm⟩)

theorem lines_exist_partial (g : Grammar) (hg : grammarWF g = true) (cs : List Cpt)
    (hn : ∀ c ∈ cs, ∃ r ∈ g.rules, normalCpt g r c = true ∧ ∃ o, optsParse c.opts = .ok o ∧ optsNormal o = true)
    (hnl : ∀ c ∈ cs, ∀ l, printCpt g c = some l → ∀ ch ∈ l, ch ≠ '\n')
    (lines : List Str) (hp : cs.mapM (printCpt g) = some lines) :
    ∃ lcs : List (Str × Cpt), lcs.map (·.1) = lines
      ∧ (lcs.map (·.2)).mapM (printCpt g) = some lines
      ∧ (∀ p ∈ lcs, LineOK g p.1 p.2 ∧ p.1 ≠ [] ∧ ∀ ch ∈ p.1, ch ≠ '\n')
      ∧ lcs.map (·.2.name) = cs.map (·.name)
      ∧ sameNetlist cs (lcs.map (·.2)) = true := by
  induction cs generalizing lines with
  | nil =>
    simp at hp; subst hp
    exact ⟨[], rfl, rfl, by simp, rfl, rfl⟩
  | cons c rest ih =>
    simp only [List.mapM_cons] at hp
    cases hl : printCpt g c with
    | none => simp [hl] at hp
    | some l =>
      cases hr : rest.mapM (printCpt g) with
      | none => simp [hl, hr] at hp
      | some ls =>
        simp [hl, hr] at hp; subst hp
        obtain ⟨r, hr', hnc, o, ho, hon⟩ := hn c (by simp)
        obtain ⟨c', hparse, hsame, hprint, hname, hopts, hstrip, hhead, hdot, hnene⟩ :=
          line_roundtrip_full_partial g hg r hr' c hnc o ho hon l hl
        obtain ⟨lcs, h1, h2, h3, h4, h5⟩ := ih (fun x hx => hn x (by simp [hx])) (fun x hx => hnl x (by simp [hx])) ls hr
        refine ⟨(l, c') :: lcs, by simp [h1], ?_, ?_, by simp [h4, hname], by simp [sameNetlist, hsame, h5]⟩
        · simp [List.mapM_cons, hprint, h2]
        · intro p hp'
          rcases List.mem_cons.mp hp' with rfl | hp'
          · refine ⟨⟨hparse, hopts, hstrip, by rw [hhead]; exact hdot⟩, ?_, hnl c (by simp) l hl⟩
            intro e
            have e' : l = [] := e
            rw [e'] at hhead
            cases hcn : c.name with
            | nil => exact hnene hcn
            | cons a t => rw [hcn] at hhead; simp at hhead
          · exact h3 p hp'

/-- **netlist_roundtrip_partial.**  A netlist of components in normal form with pairwise distinct names: the
    printed text (one component per line) is parsed back, line by line, to a netlist that the
    specification identifies with the original (`sameNetlist`), and printing that netlist gives the same
    text (idempotence).  (`hnl`: no printed line contains a newline -- it would be split.) -/
theorem netlist_roundtrip_partial (g : Grammar) (hg : grammarWF g = true) (cs : List Cpt) (hne : cs ≠ [])
    (hn : ∀ c ∈ cs, ∃ r ∈ g.rules, normalCpt g r c = true ∧ ∃ o, optsParse c.opts = .ok o ∧ optsNormal o = true)
    (hd : (cs.map (·.name)).Nodup)
    (hnl : ∀ c ∈ cs, ∀ l, printCpt g c = some l → ∀ ch ∈ l, ch ≠ '\n')
    (txt : Str) (hp : printNetlist g ⟨cs, []⟩ = some txt) :
    ∃ cs', parseNetlist g txt = .ok ⟨cs', []⟩ ∧ sameNetlist cs cs' = true
      ∧ printNetlist g ⟨cs', []⟩ = some txt := by
  unfold printNetlist at hp
  simp only at hp
  cases hm : cs.mapM (printCpt g) with
  | none => simp [hm] at hp
  | some lines =>
    simp only [hm, Option.map_some, Option.some.injEq] at hp
    obtain ⟨lcs, h1, h2, h3, h4, h5⟩ := lines_exist_partial g hg cs hn hnl lines hm
    have hlne : lcs ≠ [] := by
      intro e; subst e
      simp at h4
      exact hne h4
    have hlines_ne : lines ≠ [] := by rw [← h1]; simpa using hlne
    have hends : ∀ l ∈ lines, l ≠ [] ∧ (∀ c, l.head? = some c → isWs c = false) ∧ (∀ c, l.getLast? = some c → isWs c = false) := by
      intro l hl
      rw [← h1] at hl
      obtain ⟨p, hp', rfl⟩ := List.mem_map.mp hl
      have := h3 p hp'
      have hs := this.1.2.2.1
      refine ⟨this.2.1, ?_, ?_⟩
      · intro c hc; rw [← hs] at hc; exact (strip_ends p.1).1 c hc
      · intro c hc; rw [← hs] at hc; exact (strip_ends p.1).2 c hc
    have hstrip : strip txt = txt := by
      rw [← hp]
      apply strip_id
      · intro c hc
        cases hl : lines with
        | nil => exact absurd hl hlines_ne
        | cons l0 rest =>
          rw [hl] at hc
          rw [joinWith_head _ _ _ (hends l0 (by rw [hl]; simp)).1] at hc
          exact (hends l0 (by rw [hl]; simp)).2.1 c hc
      · intro c hc
        rw [joinWith_getLast ['\n'] lines hlines_ne (fun t ht => (hends t ht).1)] at hc
        exact (hends _ (List.getLast_mem _)).2.2 c hc
    have hsplit : splitOn '\n' txt = lines := by
      rw [← hp]
      apply splitOn_joinWith_lines lines hlines_ne
      intro l hl
      rw [← h1] at hl
      obtain ⟨p, hp', rfl⟩ := List.mem_map.mp hl
      exact (h3 p hp').2.2
    refine ⟨lcs.map (·.2), ?_, h5, ?_⟩
    · unfold parseNetlist
      rw [hstrip, hsplit, ← h1]
      have := addLines_lines g lcs (fun p hp' => (h3 p hp').1) (by rw [h4]; exact hd) NState.empty (by simp [NState.empty])
      simpa [NState.empty] using this
    · unfold printNetlist
      simp only [h2, Option.map_some, hp]

/-- **netlist_roundtrip_table_partial.**  `netlist_roundtrip_partial` for the checked-out grammar. -/
theorem netlist_roundtrip_table_partial (cs : List Cpt) (hne : cs ≠ [])
    (hn : ∀ c ∈ cs, ∃ r ∈ theGrammar.rules, normalCpt theGrammar r c = true
      ∧ ∃ o, optsParse c.opts = .ok o ∧ optsNormal o = true)
    (hd : (cs.map (·.name)).Nodup)
    (hnl : ∀ c ∈ cs, ∀ l, printCpt theGrammar c = some l → ∀ ch ∈ l, ch ≠ '\n')
    (txt : Str) (hp : printNetlist theGrammar ⟨cs, []⟩ = some txt) :
    ∃ cs', parseNetlist theGrammar txt = .ok ⟨cs', []⟩ ∧ sameNetlist cs cs' = true
      ∧ printNetlist theGrammar ⟨cs', []⟩ = some txt :=
  netlist_roundtrip_partial theGrammar table_wf2 cs hne hn hd hnl txt hp

/-- non-vacuity: a two-line netlist satisfies every hypothesis, so the theorem yields its round trip -/
example : ∃ cs', parseNetlist theGrammar "V1 1 0 ac {a + b} 0; down\nR1 1 0".toList = .ok ⟨cs', []⟩
    ∧ printNetlist theGrammar ⟨cs', []⟩ = some "V1 1 0 ac {a + b} 0; down\nR1 1 0".toList := by
  let v := exCpt "Vac" "V1" "V" "1" ["1", "0"] [some "a + b", none, none] (some 2) "ac" "down"
  let r := exCpt "R" "R1" "R" "1" ["1", "0"] [some "R1"] none "" ""
  have hv : printCpt theGrammar v = some "V1 1 0 ac {a + b} 0; down".toList := by decide +kernel
  have hr : printCpt theGrammar r = some "R1 1 0".toList := by decide +kernel
  obtain ⟨cs', h1, _, h3⟩ := netlist_roundtrip_table_partial [v, r] (by simp)
    (by
      intro c hc
      simp only [List.mem_cons, List.not_mem_nil, or_false] at hc
      rcases hc with rfl | rfl
      · exact ⟨exRule "Vac", by decide +kernel, by decide +kernel, [("down".toList, .s [])], by rfl, by decide⟩
      · exact ⟨exRule "R", by decide +kernel, by decide +kernel, [], by rfl, by decide⟩)
    (by decide)
    (by
      intro c hc l hl
      simp only [List.mem_cons, List.not_mem_nil, or_false] at hc
      rcases hc with rfl | rfl
      · rw [hv] at hl; cases hl; decide
      · rw [hr] at hl; cases hl; decide)
    "V1 1 0 ac {a + b} 0; down\nR1 1 0".toList (by decide +kernel)
  exact ⟨cs', h1, h3⟩

end Lcapy.C06
