/-
  PROPERTY C01 -- solved circuits obey Kirchhoff's laws and every component's defining
  relation; the solution is unique and does not depend on the solver.

  `Laws`   : the spec (Lcapy/Spec/Laws.lean): KCL at every non-ground node + each component's
             documented relation, in each analysis kind.
  `Solves` : the model (Lcapy/Model/MNA.lean): every row of A x = Z assembled from the
             `_stamp` mirror vanishes.
  Only property theorems live here; helper lemmas are in Lcapy/Proofs/MNA.lean.
-/
import Lcapy.Proofs.MNA
import Mathlib.Tactic.NormNum
import Mathlib.Tactic.Linarith
namespace Lcapy.C01
open Lcapy.MNA Ix
variable {K : Type} [Field K]

/-- Well-formed netlist: no branch current is claimed by two components
    (`unknown_branch_currents` has no duplicates). -/
def WF (cs : List (Cpt K)) : Prop := (cs.flatMap owned).Nodup

/-- **mna_iff_laws**: for every well-formed netlist of any size, in every analysis kind, at every
    point s, an assignment of node voltages and branch currents solves the assembled MNA
    system iff it satisfies Kirchhoff's current law at every non-ground node and the defining
    relation of every component. -/
theorem mna_iff_laws (kind : Kind) (s : K) (cs : List (Cpt K)) (x : Ix → K) (hwf : WF cs) :
    Solves kind s cs x ↔ Laws kind s cs x := by
  have hnd : ((cs.flatMap (laws kind s x)).map Prod.fst).Nodup := by
    have : (cs.flatMap (laws kind s x)).map Prod.fst = cs.flatMap owned := by
      rw [List.map_flatMap]
      congr 1
      funext c
      exact laws_fst kind s x c
    rw [this]; exact hwf
  have hbr := filtered_sums_zero_iff (cs.flatMap (laws kind s x)) hnd
  constructor
  · intro h
    refine ⟨?_, ?_⟩
    · intro k hk
      have := h (node k) (by simp [hk])
      rw [residual_stampAll] at this
      rw [← this]
      congr 1
      apply List.map_congr_left
      intro c _
      exact (stamp_node_row kind s c x k hk).symm
    · intro c hc p hp
      apply hbr.mp
      · intro m
        have := h (br m) (by simp)
        rw [residual_stampAll] at this
        rw [← lawsAt_sum, ← this]
        congr 1
        apply List.map_congr_left
        intro c _
        exact (stamp_branch_row kind s c x m).symm
      · exact List.mem_flatMap.mpr ⟨c, hc, hp⟩
  · rintro ⟨hk, hl⟩ r hr
    rw [residual_stampAll]
    cases r with
    | node k =>
      have hk0 : k ≠ 0 := by intro h0; apply hr; rw [h0]
      rw [← hk k hk0]
      congr 1
      apply List.map_congr_left
      intro c _
      exact stamp_node_row kind s c x k hk0
    | br m =>
      have := hbr.mpr (fun p hp => by
        obtain ⟨c, hc, hpc⟩ := List.mem_flatMap.mp hp
        exact hl c hc p hpc) m
      rw [← lawsAt_sum] at this
      rw [← this]
      congr 1
      apply List.map_congr_left
      intro c _
      exact stamp_branch_row kind s c x m

/-- `mna_iff_laws` at the point s = j·ω.  Nothing here is specific to phasors: AC analysis at angular frequency ω IS the
    Laplace analysis at s = jω in this model (`j` any element of the carrier, e.g. the imaginary unit of ℚ(j)); what makes an
    analysis a phasor analysis -- source values given as phasors V·e^{jφ} -- is the front-end's `srcValue`, tied by the
    correspondence. -/
theorem mna_iff_laws_ac (j ω : K) (cs : List (Cpt K)) (x : Ix → K) (hwf : WF cs) :
    Solves .lap (j * ω) cs x ↔ Laws .lap (j * ω) cs x :=
  mna_iff_laws .lap (j * ω) cs x hwf

/-! ### Uniqueness and solver independence -/

/-- the homogeneous system: all right-hand sides dropped -/
def SolvesHom (kind : Kind) (s : K) (cs : List (Cpt K)) (z : Ix → K) : Prop :=
  ∀ r, r ≠ node 0 → lhsSum r (ground z) (stampAll kind s cs).lhs = 0

/-- the indices that occur in an assembled system: rows and columns of A, rows of Z -/
def unknowns (st : Stamp K) : List Ix :=
  st.lhs.flatMap (fun e => [e.1, e.2.1]) ++ st.rhs.map (fun e => e.1)

/-- `i` is an unknown of the netlist: a non-ground node voltage or a branch current that occurs in the
    assembled system.  (An index of `Ix` that does not occur has an empty row and an empty column: the
    system says nothing about it, and Lcapy reports nothing for it.) -/
def Unknown (kind : Kind) (s : K) (cs : List (Cpt K)) (i : Ix) : Prop :=
  i ≠ node 0 ∧ i ∈ unknowns (stampAll kind s cs)

theorem mem_unknowns_append (a b : Stamp K) (i : Ix) :
    i ∈ unknowns (a.append b) ↔ i ∈ unknowns a ∨ i ∈ unknowns b := by
  simp only [unknowns, Stamp.append, List.flatMap_append, List.map_append, List.mem_append]
  tauto

/-- every index that a component's own stamp mentions is an unknown of the netlist -/
theorem mem_unknowns_stampAll (kind : Kind) (s : K) (cs : List (Cpt K)) (c : Cpt K) (hc : c ∈ cs) (i : Ix)
    (hi : i ∈ unknowns (stamp kind s c)) : i ∈ unknowns (stampAll kind s cs) := by
  induction cs with
  | nil => simp at hc
  | cons h t ih =>
    simp only [stampAll, List.foldr_cons] at ih ⊢
    rw [mem_unknowns_append]
    rcases List.mem_cons.mp hc with rfl | hct
    · exact Or.inl hi
    · exact Or.inr (ih hct)

/-- the homogeneous system forces the unknowns in `U` to vanish -/
def NonsingularOn (U : Ix → Prop) (kind : Kind) (s : K) (cs : List (Cpt K)) : Prop :=
  ∀ z, SolvesHom kind s cs z → ∀ i, U i → z i = 0

/-- the MNA matrix is non-singular: the homogeneous system has only the trivial solution ON THE UNKNOWNS OF
    THE NETLIST.  (Round-3 correction: the earlier definition quantified over every index of `Ix`, also
    those that do not occur in the netlist and are unconstrained, so no finite netlist satisfied it and
    the uniqueness theorems held vacuously; see `ex_nonsingular` for a netlist that satisfies this one.) -/
def Nonsingular (kind : Kind) (s : K) (cs : List (Cpt K)) : Prop :=
  NonsingularOn (Unknown kind s cs) kind s cs

/-- uniqueness on any set of unknowns on which the homogeneous system is trivial -/
theorem mna_unique_on (U : Ix → Prop) (kind : Kind) (s : K) (cs : List (Cpt K)) (x y : Ix → K)
    (hns : NonsingularOn U kind s cs) (hx : Solves kind s cs x) (hy : Solves kind s cs y) :
    ∀ i, U i → x i = y i := by
  intro i hi
  have hz : SolvesHom kind s cs (fun i => x i - y i) := by
    intro r hr
    have h1 := hx r hr
    have h2 := hy r hr
    simp only [residual] at h1 h2
    have hg : ground (fun i => x i - y i) = fun i => ground x i - ground y i := by
      funext i
      cases i with
      | node k => cases k <;> simp [ground]
      | br m => simp [ground]
    rw [hg, lhsSum_sub]
    rw [sub_eq_zero] at h1 h2
    rw [h1, h2, sub_self]
  have := hns _ hz i hi
  exact sub_eq_zero.mp this

/-- **mna_unique**: when the matrix is non-singular the reported solution is THE solution: every node
    voltage and branch current of the netlist is determined. -/
theorem mna_unique (kind : Kind) (s : K) (cs : List (Cpt K)) (x y : Ix → K)
    (hns : Nonsingular kind s cs) (hx : Solves kind s cs x) (hy : Solves kind s cs y) :
    ∀ i, Unknown kind s cs i → x i = y i :=
  mna_unique_on _ kind s cs x y hns hx hy

/-- **solver_independent**: `mna_unique` RESTATED for two arbitrary procedures that return a solution of the assembled system.
    No solver (DM, LU, GE, ADJ, …) is modelled: that each of Lcapy's methods returns a solution when it succeeds is checked by
    the oracle on the real code (every method against `Laws` / against DM), not proved. -/
theorem solver_independent (kind : Kind) (s : K) (cs : List (Cpt K))
    (solver₁ solver₂ : List (Cpt K) → Ix → K)
    (h₁ : Solves kind s cs (solver₁ cs)) (h₂ : Solves kind s cs (solver₂ cs))
    (hns : Nonsingular kind s cs) : ∀ i, Unknown kind s cs i → solver₁ cs i = solver₂ cs i :=
  mna_unique kind s cs _ _ hns h₁ h₂

/-- consequently the unique solution of the MNA system is the unique assignment obeying the laws -/
theorem laws_unique (kind : Kind) (s : K) (cs : List (Cpt K)) (x y : Ix → K) (hwf : WF cs)
    (hns : Nonsingular kind s cs) (hx : Laws kind s cs x) (hy : Laws kind s cs y) :
    ∀ i, Unknown kind s cs i → x i = y i :=
  mna_unique kind s cs x y hns ((mna_iff_laws kind s cs x hwf).mpr hx) ((mna_iff_laws kind s cs y hwf).mpr hy)

/-- `laws_unique` on any set of unknowns -/
theorem laws_unique_on (U : Ix → Prop) (kind : Kind) (s : K) (cs : List (Cpt K)) (x y : Ix → K) (hwf : WF cs)
    (hns : NonsingularOn U kind s cs) (hx : Laws kind s cs x) (hy : Laws kind s cs y) :
    ∀ i, U i → x i = y i :=
  mna_unique_on U kind s cs x y hns ((mna_iff_laws kind s cs x hwf).mpr hx) ((mna_iff_laws kind s cs y hwf).mpr hy)

/-- non-vacuity of `Nonsingular` (and so of mna_unique / solver_independent / laws_unique):
    `V1 1 0 6; R1 1 2 2; R2 2 0 3` at dc — the homogeneous system forces V(1), V(2) and the source
    current to vanish, and these are exactly the unknowns of the netlist. -/
theorem ex_nonsingular :
    Nonsingular .dc (0 : ℚ) [.V 1 0 0 6, .R 1 2 2, .R 2 0 3] := by
  intro z hz i hi
  have h1 := hz (node 1) (by simp)
  have h2 := hz (node 2) (by simp)
  have h3 := hz (br 0) (by simp)
  simp [stampAll, stamp, Stamp.append, branchPattern, admPattern, lhsSum, ground] at h1 h2 h3
  obtain ⟨hi0, hi⟩ := hi
  simp [unknowns, stampAll, stamp, Stamp.append, branchPattern, admPattern] at hi
  have e1 : z (node 1) = 0 := h3
  have e2 : z (node 2) = 0 := by rw [e1] at h2; linarith
  have e3 : z (br 0) = 0 := by rw [e1, e2] at h1; linarith
  rcases hi with h | h | h | h | h | h | h | h | h | h | h | h | h | h <;> subst h <;>
    first | assumption | exact absurd rfl hi0

/-! ### Rows stamped more than once -/

/-- **dup_row_same_solutions**: every CCVS that names the same admittance-type controlling component stamps that
    component's control row again (`+=`), so the assembled row `mc` is a multiple `(1 + c)` of itself.  Whenever
    `1 + c ≠ 0` (always, over ℚ or ℂ, for c further copies) the solutions are those of the system with the row
    stamped once -- the system `mna_iff_laws` speaks about. -/
theorem dup_row_same_solutions (st d : Stamp K) (mc : Nat) (c : K) (hc : 1 + c ≠ 0) (x : Ix → K)
    (hd : ∀ r, residual d x r = if r = br mc then c * residual st x (br mc) else 0) :
    (∀ r, r ≠ node 0 → residual (st.append d) x r = 0) ↔ (∀ r, r ≠ node 0 → residual st x r = 0) := by
  have key : ∀ r, residual (st.append d) x r = 0 ↔ residual st x r = 0 := by
    intro r
    rw [residual_append, hd r]
    by_cases hr : r = br mc
    · subst hr
      simp only [if_true]
      constructor
      · intro h
        have : (1 + c) * residual st x (br mc) = 0 := by rw [← h]; ring
        rcases mul_eq_zero.mp this with h1 | h1
        · exact absurd h1 hc
        · exact h1
      · intro h; rw [h]; ring
    · simp [hr]
  constructor
  · intro h r hr; exact (key r).mp (h r hr)
  · intro h r hr; exact (key r).mpr (h r hr)

/-- non-vacuity: a CCVS controlled by a resistor, and the control row stamped a second time -/
example (x : Ix → ℚ) (r : Ix) :
    residual (ctrlRow 3 4 1 (1/2 : ℚ) 0) x r =
      if r = br 1 then 1 * residual (stamp .dc 0 (.HY 1 2 0 3 4 1 (1/2 : ℚ) 0 5)) x (br 1) else 0 := by
  by_cases hr : r = br 1
  · subst hr; simp [ctrlRow, stamp, branchPattern, residual, lhsSum, rhsSum, lhsSum_append]
  · simp only [hr, if_false]
    cases r with
    | node k => simp [ctrlRow, residual, lhsSum, rhsSum]
    | br m =>
      have : m ≠ 1 := fun h => hr (by rw [h])
      simp [ctrlRow, residual, lhsSum, rhsSum, Ne.symm this]

/-! ### Opamp form (`Ename Np Nm opamp Ncp Ncm Ad Ac Ro`, expanded by `Eopamp._expand`) -/

/-- (the list `[E o n2 …, R o n1 Ro]` is what the executed `Netlist.expandRaw` produces for an `opamp` line with Ro ≠ 0:
    `opamp_expandRaw_Ro` in Props/C01Amp.lean)
    **opamp_expand_law**: the expansion of an opamp with output resistance Ro — a VCVS from a
    fresh internal node `o` plus Ro from `o` to the output node — obeys the documented amplifier
    relation at its terminals: V(Np) − V(Nm) = Ad·(Vcp − Vcm) + Ac·(Vcp + Vcm)/2 + Ro·J, where J is the
    current flowing into the output terminal (−J is delivered to the circuit), whenever KCL holds at
    the internal node (to which nothing else is attached) and the VCVS law holds. -/
theorem opamp_expand_law (kind : Kind) (s : K) (x : Ix → K) (o n1 n2 ncp ncm m : Nat) (Ad Ac Ro : K)
    (hRo : Ro ≠ 0) (ho1 : o ≠ n1) (ho2 : o ≠ n2)
    (hkcl : lsum ([Cpt.E o n2 ncp ncm m Ad Ac, Cpt.R o n1 Ro].map (outflow kind s x o)) = 0)
    (hlaw : ∀ p ∈ laws kind s x (Cpt.E o n2 ncp ncm m Ad Ac), p.2 = 0) :
    vd x n1 n2 = Ad * vd x ncp ncm + Ac * ((volt x ncp + volt x ncm) / 2) + Ro * x (br m) := by
  have hE := hlaw (m, vd x o n2 - (Ad * vd x ncp ncm + Ac * ((volt x ncp + volt x ncm) / 2))) (by simp [laws])
  simp only [List.map_cons, List.map_nil, lsum, outflow, twoTerm, if_true, ho1, ho2, if_false,
    (Ne.symm ho1), (Ne.symm ho2)] at hkcl
  simp only [vd] at hE hkcl ⊢
  simp at hkcl
  field_simp at hkcl
  grind

/-! ### Non-vacuity: a concrete circuit (V1 1 0 6; R1 1 2 3; L1 2 0 2 with i0 = 1, ivp at s = 2) -/

def exCkt : List (Cpt ℚ) := [.V 1 0 0 3, .R 1 2 3, .Ind 2 0 1 2 (some 1) []]

example : WF exCkt := by simp [WF, exCkt, owned]

/-- V(1) = 3, V(2) = 6/7, J_V1 = −5/7, J_L1 = 5/7 obeys the laws at s = 2 -/
example : Laws .ivp 2 exCkt (fun i => match i with
    | node 1 => 3 | node 2 => 6/7 | br 0 => -5/7 | br 1 => 5/7 | _ => 0) := by
  constructor
  · intro k hk
    match k with
    | 0 => exact absurd rfl hk
    | 1 => norm_num [exCkt, outflow, twoTerm, lsum, vd, volt]
    | 2 => norm_num [exCkt, outflow, twoTerm, lsum, vd, volt]
    | (k + 3) => simp [exCkt, outflow, twoTerm, lsum]
  · intro c hc p hp
    simp only [exCkt, List.mem_cons, List.mem_nil_iff, or_false] at hc
    rcases hc with rfl | rfl | rfl <;>
      simp only [laws, List.mem_cons, List.mem_nil_iff, or_false] at hp <;>
      (try subst hp) <;> norm_num [vd, volt, mutualDrop, mutualIC, lsum]

end Lcapy.C01
