/-
  PROPERTY C01 -- solved circuits obey Kirchhoff's laws and every component's defining
  relation; the solution is unique and does not depend on the solver.

  `Laws`   : the spec (Lcapy/Spec/Laws.lean): KCL at every non-ground node + each component's
             documented relation, in each analysis kind.
  `Solves` : the model (Lcapy/Model/MNA.lean): every row of A x = Z assembled from the
             `_stamp` mirror vanishes.
  Only property theorems live here; helper lemmas are in Lcapy/Proofs/MNA.lean.
-/
import Lcapy.Proofs.MNA
import Mathlib.Tactic.NormNum
namespace Lcapy.C01
open Lcapy.MNA Ix
variable {K : Type} [Field K]

/-- Well-formed netlist: no branch current is claimed by two components
    (`unknown_branch_currents` has no duplicates). -/
def WF (cs : List (Cpt K)) : Prop := (cs.flatMap owned).Nodup

/-- **mna_iff_laws**: for every well-formed netlist of any size, in every analysis kind, at every
    point s, an assignment of node voltages and branch currents solves the assembled MNA
    system iff it satisfies Kirchhoff's current law at every non-ground node and the defining
    relation of every component. -/
theorem mna_iff_laws (kind : Kind) (s : K) (cs : List (Cpt K)) (x : Ix → K) (hwf : WF cs) :
    Solves kind s cs x ↔ Laws kind s cs x := by
  have hnd : ((cs.flatMap (laws kind s x)).map Prod.fst).Nodup := by
    have : (cs.flatMap (laws kind s x)).map Prod.fst = cs.flatMap owned := by
      rw [List.map_flatMap]
      congr 1
      funext c
      exact laws_fst kind s x c
    rw [this]; exact hwf
  have hbr := filtered_sums_zero_iff (cs.flatMap (laws kind s x)) hnd
  constructor
  · intro h
    refine ⟨?_, ?_⟩
    · intro k hk
      have := h (node k) (by simp [hk])
      rw [residual_stampAll] at this
      rw [← this]
      congr 1
      apply List.map_congr_left
      intro c _
      exact (stamp_node_row kind s c x k hk).symm
    · intro c hc p hp
      apply hbr.mp
      · intro m
        have := h (br m) (by simp)
        rw [residual_stampAll] at this
        rw [← lawsAt_sum, ← this]
        congr 1
        apply List.map_congr_left
        intro c _
        exact (stamp_branch_row kind s c x m).symm
      · exact List.mem_flatMap.mpr ⟨c, hc, hp⟩
  · rintro ⟨hk, hl⟩ r hr
    rw [residual_stampAll]
    cases r with
    | node k =>
      have hk0 : k ≠ 0 := by intro h0; apply hr; rw [h0]
      rw [← hk k hk0]
      congr 1
      apply List.map_congr_left
      intro c _
      exact stamp_node_row kind s c x k hk0
    | br m =>
      have := hbr.mpr (fun p hp => by
        obtain ⟨c, hc, hpc⟩ := List.mem_flatMap.mp hp
        exact hl c hc p hpc) m
      rw [← lawsAt_sum] at this
      rw [← this]
      congr 1
      apply List.map_congr_left
      intro c _
      exact stamp_branch_row kind s c x m

/-- the same statement for phasor analysis: AC analysis at angular frequency ω is the Laplace
    analysis at the point s = jω (here `j` is any element with j² = −1 of the carrier). -/
theorem mna_iff_laws_ac (j ω : K) (_hj : j * j = -1) (cs : List (Cpt K)) (x : Ix → K) (hwf : WF cs) :
    Solves .lap (j * ω) cs x ↔ Laws .lap (j * ω) cs x :=
  mna_iff_laws .lap (j * ω) cs x hwf

/-! ### Uniqueness and solver independence -/

/-- the homogeneous system: all right-hand sides dropped -/
def SolvesHom (kind : Kind) (s : K) (cs : List (Cpt K)) (z : Ix → K) : Prop :=
  ∀ r, r ≠ node 0 → lhsSum r (ground z) (stampAll kind s cs).lhs = 0

/-- the MNA matrix is non-singular: the homogeneous system has only the trivial solution -/
def Nonsingular (kind : Kind) (s : K) (cs : List (Cpt K)) : Prop :=
  ∀ z, SolvesHom kind s cs z → ∀ i, i ≠ node 0 → z i = 0

/-- **mna_unique**: when the matrix is non-singular the reported solution is THE solution. -/
theorem mna_unique (kind : Kind) (s : K) (cs : List (Cpt K)) (x y : Ix → K)
    (hns : Nonsingular kind s cs) (hx : Solves kind s cs x) (hy : Solves kind s cs y) :
    ∀ i, i ≠ node 0 → x i = y i := by
  intro i hi
  have hz : SolvesHom kind s cs (fun i => x i - y i) := by
    intro r hr
    have h1 := hx r hr
    have h2 := hy r hr
    simp only [residual] at h1 h2
    have hg : ground (fun i => x i - y i) = fun i => ground x i - ground y i := by
      funext i
      cases i with
      | node k => cases k <;> simp [ground]
      | br m => simp [ground]
    rw [hg, lhsSum_sub]
    rw [sub_eq_zero] at h1 h2
    rw [h1, h2, sub_self]
  have := hns _ hz i hi
  exact sub_eq_zero.mp this

/-- **solver_independent**: any two procedures that return a solution of the assembled system
    (DM, LU, GE, ADJ, … are all such procedures when they succeed) return the same node voltages
    and branch currents on every non-singular circuit. -/
theorem solver_independent (kind : Kind) (s : K) (cs : List (Cpt K))
    (solver₁ solver₂ : List (Cpt K) → Ix → K)
    (h₁ : Solves kind s cs (solver₁ cs)) (h₂ : Solves kind s cs (solver₂ cs))
    (hns : Nonsingular kind s cs) : ∀ i, i ≠ node 0 → solver₁ cs i = solver₂ cs i :=
  mna_unique kind s cs _ _ hns h₁ h₂

/-- consequently the unique solution of the MNA system is the unique assignment obeying the laws -/
theorem laws_unique (kind : Kind) (s : K) (cs : List (Cpt K)) (x y : Ix → K) (hwf : WF cs)
    (hns : Nonsingular kind s cs) (hx : Laws kind s cs x) (hy : Laws kind s cs y) :
    ∀ i, i ≠ node 0 → x i = y i :=
  mna_unique kind s cs x y hns ((mna_iff_laws kind s cs x hwf).mpr hx) ((mna_iff_laws kind s cs y hwf).mpr hy)

/-! ### Opamp form (`Ename Np Nm opamp Ncp Ncm Ad Ac Ro`, expanded by `Eopamp._expand`) -/

/-- **opamp_expand_law**: the expansion of an opamp with output resistance Ro — a VCVS from a
    fresh internal node `o` plus Ro from `o` to the output node — obeys the documented amplifier
    relation at its terminals: V(Np) − V(Nm) = Ad·(Vcp − Vcm) + Ac·(Vcp + Vcm)/2 + Ro·J, where J is the
    current flowing into the output terminal (−J is delivered to the circuit), whenever KCL holds at
    the internal node (to which nothing else is attached) and the VCVS law holds. -/
theorem opamp_expand_law (kind : Kind) (s : K) (x : Ix → K) (o n1 n2 ncp ncm m : Nat) (Ad Ac Ro : K)
    (hRo : Ro ≠ 0) (ho1 : o ≠ n1) (ho2 : o ≠ n2)
    (hkcl : lsum ([Cpt.E o n2 ncp ncm m Ad Ac, Cpt.R o n1 Ro].map (outflow kind s x o)) = 0)
    (hlaw : ∀ p ∈ laws kind s x (Cpt.E o n2 ncp ncm m Ad Ac), p.2 = 0) :
    vd x n1 n2 = Ad * vd x ncp ncm + Ac * ((volt x ncp + volt x ncm) / 2) + Ro * x (br m) := by
  have hE := hlaw (m, vd x o n2 - (Ad * vd x ncp ncm + Ac * ((volt x ncp + volt x ncm) / 2))) (by simp [laws])
  simp only [List.map_cons, List.map_nil, lsum, outflow, twoTerm, if_true, ho1, ho2, if_false,
    (Ne.symm ho1), (Ne.symm ho2)] at hkcl
  simp only [vd] at hE hkcl ⊢
  simp at hkcl
  field_simp at hkcl
  grind

/-! ### Non-vacuity: a concrete circuit (V1 1 0 6; R1 1 2 3; L1 2 0 2 with i0 = 1, ivp at s = 2) -/

def exCkt : List (Cpt ℚ) := [.V 1 0 0 3, .R 1 2 3, .Ind 2 0 1 2 (some 1) []]

example : WF exCkt := by simp [WF, exCkt, owned]

/-- V(1) = 3, V(2) = 6/7, J_V1 = −5/7, J_L1 = 5/7 obeys the laws at s = 2 -/
example : Laws .ivp 2 exCkt (fun i => match i with
    | node 1 => 3 | node 2 => 6/7 | br 0 => -5/7 | br 1 => 5/7 | _ => 0) := by
  constructor
  · intro k hk
    match k with
    | 0 => exact absurd rfl hk
    | 1 => norm_num [exCkt, outflow, twoTerm, lsum, vd, volt]
    | 2 => norm_num [exCkt, outflow, twoTerm, lsum, vd, volt]
    | (k + 3) => simp [exCkt, outflow, twoTerm, lsum]
  · intro c hc p hp
    simp only [exCkt, List.mem_cons, List.mem_nil_iff, or_false] at hc
    rcases hc with rfl | rfl | rfl <;>
      simp only [laws, List.mem_cons, List.mem_nil_iff, or_false] at hp <;>
      (try subst hp) <;> norm_num [vd, volt, mutualDrop, mutualIC, lsum]

end Lcapy.C01
