/-
  C16 -- the FULL property at the generated configuration.  This module builds iff lcapy's
  source satisfies the side conditions of `fresh_refinement`:
    * `_invalidate` clears every memoised member   (fails while F14a is open: `_components`, `_sim`)
    * `_cpt_add` detaches an overridden component   (fails while F14b is open)
    * `Node.remove` never raises half way           (fails while the failed-remove defect is open)
    * `remove` / override detach from every node     (C16Tables; a sliced loop breaks `remove_detaches_all_nodes`)
    * no read-only member mutates a cached object    (C16Tables `shared_cached_objects_not_mutated`)
  While it does not build, the check reports these theorems as broken obligations; they count as
  explained only if the oracle exhibits the corresponding failing history on the real code.
-/
import Lcapy.Props.C16Tables
namespace Lcapy.C16
open Lcapy.Cache Lcapy.Gen.Caches

/-- every memoised member is dropped by `_invalidate` -/
theorem memoised_subset_cleared : ∀ p ∈ config.memoised, config.isCleared p.1 = true := by decide

/-- re-adding an existing name detaches the old component from its nodes -/
theorem override_detaches : config.overrideDetaches = true := by decide

/-- `Node.remove` deletes a node only when nothing is connected to it any more, so that
    `Netlist.remove` cannot raise half way (fails while the failed-remove defect is open) -/
theorem node_delete_guarded : config.keepConnectedNode = true := by decide

/-- CURRENT CODE, FULL: every query after every exception-free history of public operations
    answers as on a freshly built circuit -/
theorem fresh_refinement_current (ops : List Op) (hpub : ∀ op ∈ ops, op.isPublic)
    (hok : NoRaise config World.empty ops)
    (i : Nat) (inst : Inst) (hi : (run config World.empty ops).insts[i]? = some inst) (q : String) :
    answer config (run config World.empty ops) i q = answer config (build inst.elts) 0 q :=
  (fresh_refinement config memoised_subset_cleared add_invalidates add_multi_invalidates remove_invalidates override_detaches
    remove_detaches_all_nodes override_detaches_all_nodes no_query_damages_cache
    ops hpub hok i inst hi).1 q

/-- CURRENT CODE, with the non-empty observation (slots read + elements) of EVERY query, also the memo-less ones -/
theorem fresh_refinement_observation_current (ops : List Op) (hpub : ∀ op ∈ ops, op.isPublic)
    (hok : NoRaise config World.empty ops)
    (i : Nat) (inst : Inst) (hi : (run config World.empty ops).insts[i]? = some inst) (q : String) :
    observation config (run config World.empty ops) i q = observation config (build inst.elts) 0 q :=
  (fresh_refinement_observation config memoised_subset_cleared add_invalidates add_multi_invalidates remove_invalidates
    override_detaches remove_detaches_all_nodes override_detaches_all_nodes no_query_damages_cache ops hpub hok i inst hi q).1

/-- CURRENT CODE: the generated configuration meets the side conditions of `query_transparent` for every slot -/
theorem cfg_ok_current : CfgOK config (fun _ => true) := by
  refine ⟨?_, fun _ _ _ _ => rfl, by rw [no_query_damages_cache]; intro p hp; cases hp⟩
  intro s _ hk
  cases hk' : config.kindOf s with
  | none => simp [hk'] at hk
  | some k => exact memoised_subset_cleared (s, k) (lookup_mem _ _ _ hk')

/-- CURRENT CODE: a query (of any kind, on any instance) inserted anywhere in an exception-free history of public
    operations changes no later answer -/
theorem query_transparent_current (pre post : List Op) (i : Nat) (q : String)
    (hpub : ∀ op ∈ pre ++ post, op.isPublic) (hok : NoRaise config World.empty (pre ++ post)) (j : Nat) (q' : String) :
    answer config (run config World.empty (pre ++ .query i q :: post)) j q' =
      answer config (run config World.empty (pre ++ post)) j q' :=
  query_transparent config (fun _ => true) cfg_ok_current pre post i q
    (runOK_of_flags config add_invalidates add_multi_invalidates remove_invalidates override_detaches
      remove_detaches_all_nodes override_detaches_all_nodes _ _ hpub hok) j q' (fun _ _ => rfl)

end Lcapy.C16
