/-
  C16 -- the FULL property at the generated configuration.  This module builds iff lcapy's
  source satisfies the side conditions of `fresh_refinement`:
    * `_invalidate` clears every memoised member   (fails while F14a is open: `_components`, `_sim`)
    * `_cpt_add` detaches an overridden component   (fails while F14b is open)
    * `Node.remove` never raises half way           (fails while the failed-remove defect is open)
  While it does not build, the check reports these theorems as broken obligations; they count as
  explained only if the oracle exhibits the corresponding failing history on the real code.
-/
import Lcapy.Props.C16Tables
namespace Lcapy.C16
open Lcapy.Cache Lcapy.Gen.Caches

/-- every memoised member is dropped by `_invalidate` -/
theorem memoised_subset_cleared : ∀ p ∈ config.memoised, config.isCleared p.1 = true := by decide

/-- re-adding an existing name detaches the old component from its nodes -/
theorem override_detaches : config.overrideDetaches = true := by decide

/-- `Node.remove` deletes a node only when nothing is connected to it any more, so that
    `Netlist.remove` cannot raise half way (fails while the failed-remove defect is open) -/
theorem node_delete_guarded : config.keepConnectedNode = true := by decide

/-- CURRENT CODE, FULL: every query after every exception-free history of public operations
    answers as on a freshly built circuit -/
theorem fresh_refinement_current (ops : List Op) (hpub : ∀ op ∈ ops, op.isPublic)
    (hok : NoRaise config World.empty ops)
    (i : Nat) (inst : Inst) (hi : (run config World.empty ops).insts[i]? = some inst) (q : String) :
    answer config (run config World.empty ops) i q = answer config (build inst.elts) 0 q :=
  (fresh_refinement config memoised_subset_cleared add_invalidates add_multi_invalidates remove_invalidates override_detaches
    ops hpub hok i inst hi).1 q

end Lcapy.C16
