/-
  C09 — the Laplace transform returned for a signal equals its defining integral.

  Setting.  `ExpPoly K` (Spec/Signal.lean): formal causal signals; `L E f s`: the formal unilateral
  transform from 0⁻, defined term-wise and anchored to the integral by `anchor_real`, `anchor_complex_k0`
  below.  `E` is any exponential (`IsExp E`: additive, `E 0 = 1`), so every statement holds for the real /
  complex exponential and for the driver's rational stand-in.  `sem` (Model/Laplace.lean) gives the signal denoted
  by a raw time-domain term, built from the operations `smul, delay, expWeight, tmul, deriv, scale, conv, integ`;
  `lcapyTerm` mirrors the dispatch of `LaplaceTransformer.term`; `Gen.*Entry` are generated from the source text
  of `LaplaceTransformer.function`.

  Three groups of theorems:
   (A) transform theorems of the specification (all signals, all non-pole points, any field);
   (B) every closed-form branch of the code's dispatch computes the transform of the signal its input denotes
       (const, exp, sin_cos incl. the e^β gain, the GENERATED function table, func, derivative_undef incl. scaled / shifted
       arguments, integral / convolution recognition, the DiracDelta·x(t) sifting branch, clip_step, reversed steps);
   (C) anchors: over ℂ with the true exponential the formal transform IS the defining integral on the whole delta-free
       exponential-polynomial class (`anchor_complex`, `lt_term_is_integral`, `lt_is_integral`), the operations with which `sem`
       builds signals are pointwise products (`smooth_factor_pointwise`), so the specification value of a product of smooth
       factors and a step is its integral (`smooth_product_is_integral`), and the code's sin_cos formula is that integral
       (`sin_cos_is_integral`).  Deltas stay formal pairs.
-/
import Lcapy.Proofs.Laplace
import Lcapy.Proofs.LaplaceEntries
import Lcapy.Proofs.LaplaceUndef
import Lcapy.Proofs.LaplaceWindow
import Lcapy.Proofs.LaplaceAnchor
import Lcapy.Proofs.LaplaceIntegral
import Lcapy.Proofs.LaplaceSemantics
namespace Lcapy.C09
open Lcapy.Laplace

section A
variable {K : Type} [Field K] (E : K → K)

/-- the transform is linear -/
theorem lt_linear (a b s : K) (f g : ExpPoly K) :
    L E (smul a f ++ smul b g) s = a * L E f s + b * L E g s := by
  rw [L_append, L_smul, L_smul]

/-- delay theorem: `L{f(t−T)}(s) = e^{−sT} L f(s)` -/
theorem lt_delay (hE : IsExp E) (T s : K) (f : ExpPoly K) :
    L E (delay T f) s = E (-(s * T)) * L E f s := L_delay E hE T s f

/-- exponential weighting: `L{e^{at} f(t)}(s) = L f (s − a)`, deltas and delayed terms included -/
theorem lt_exp_weight (hE : IsExp E) (a s : K) (f : ExpPoly K) :
    L E (expWeight E a f) s = L E f (s - a) := L_expWeight E hE a s f

/-- similarity theorem: `L{f(a t)}(s) = (1/a) L f (s/a)` -/
theorem lt_scale (a s : K) (ha : a ≠ 0) (f : ExpPoly K) :
    L E (scale a f) s = 1 / a * L E f (s / a) := L_scale E a s ha f

/-- multiplication by `t` is `−d/ds` (formal derivative; `lt_tmul_deriv` shows it is the analytic one) -/
theorem lt_tmul (s : K) (f : ExpPoly K) : L E (tmul f) s = negDL E f s := L_tmul E s f

/-- derivative theorem for a signal given on the whole axis: `L{Dx}(s) = s·L x(s) − x(0⁻)` -/
theorem lt_deriv [DecidableEq K] (hE : IsExp E) (s : K) (x : Signal K) (h : NonPole x.post s) :
    (Signal.deriv x).L E s = s * x.L E s - pre0 x.pre := L_signal_deriv E hE s x h

/-- … and for a causal signal (distributional derivative, `x(0⁻) = 0`) -/
theorem lt_deriv_causal (s : K) (f : ExpPoly K) (h : NonPole f s) :
    L E (deriv f) s = s * L E f s := L_deriv E s f h

/-- running integral from 0⁻: `L{∫f}(s) = L f(s) / s` -/
theorem lt_integral [DecidableEq K] (hE : IsExp E) (s : K) (hs : s ≠ 0) (f : ExpPoly K) (hf : NonPole f s) :
    L E (integ f) s = L E f s / s := L_integ E hE s hs f hf

/-- convolution theorem on `ExpPoly` (equal and distinct poles of any order, deltas, delays) -/
theorem lt_convolution [DecidableEq K] (hE : IsExp E) (s : K) (f g : ExpPoly K)
    (hf : NonPole f s) (hg : NonPole g s) :
    L E (conv f g) s = L E f s * L E g s := L_conv E hE s f g hf hg

/-- the lower limit is 0⁻: an impulse at the origin is fully included.  DEFINITIONAL: this unfolds `Term.L` on `dl 1 0 0` — deltas are
    formal pairs (no integral anchor exists for them); the theorem records the convention of the specification, it is not derived -/
theorem lt_delta_at_origin (hE : IsExp E) (s : K) : L E [Term.dl 1 0 0] s = 1 := by
  simp [Term.L, pw, hE.zero]

/-- what the signal does before `t = 0` does not matter.  DEFINITIONAL (`rfl`): `Signal.L` is defined as `L x.post`; records the
    convention of the specification (the integral counterpart is `lt_is_integral`: the integral runs over `(0, ∞)` only) -/
theorem lt_ignores_negative_time (s : K) (pre₁ pre₂ : List (K × Nat × K)) (post : ExpPoly K) :
    (Signal.mk pre₁ post).L E s = (Signal.mk pre₂ post).L E s := rfl

-- non-vacuity: a concrete exponential stand-in on ℚ, a non-pole point, non-zero pre-history
example : IsExp (fun _ : ℚ => (1 : ℚ)) := ⟨fun _ _ => by simp, rfl⟩
example : NonPole [Term.ep (2 : ℚ) 1 (-3) 0, Term.dl 1 0 0] (1 : ℚ) := by
  intro t ht; simp at ht; rcases ht with rfl | rfl <;> norm_num
example : pre0 [((5 : ℚ), 0, (-1 : ℚ))] = 5 := by simp [pre0]

end A

/-! ### (B) the closed-form branches of `LaplaceTransformer.term` -/

section B
variable {K : Type} [Field K] [LinearOrder K] [IsStrictOrderedRing K]

/-- `expr == 1`:  `c ↦ c / s`  (at a non-pole point `s ≠ 0`: the totalised `c/0 = 0` is not relied on) -/
theorem const_entry (env : Env K) (hE : IsExp env.E) (c : K) (_hs : env.s ≠ 0) :
    lcapyTerm env (.prod c []) = (.const, some (c / env.s)) ∧
    specValue env (.prod c []) = some (c / env.s) := const_entry' env hE c

/-- `exp(a t)`:  `c / (s − a)`  (at a non-pole point `s ≠ a`) -/
theorem exp_entry (env : Env K) (hE : IsExp env.E) (c a : K) (ha : a ≠ 0) (_hs : env.s - a ≠ 0) :
    lcapyTerm env (.prod c [.exp a]) = (.exp, some (c / (env.s - a))) ∧
    specValue env (.prod c [.exp a]) = some (c / (env.s - a)) := exp_entry' env hE c a ha

-- (`sin_cos_entry`, the sin_cos fast path, is stated after this section over ANY field with an imaginary unit: an ordered
-- field has none, so a statement inside this section would be vacuous)

/-- The table of `LaplaceTransformer.function` (GENERATED from the source text on every run): each entry is
    the transform of the unit function composed with `t ↦ a t`, `a > 0`.  (`spec_*`: the signal denoted by
    `rect(a t)` etc. has the transform obtained from the unit entry by the similarity theorem `lt_scale`.) -/
theorem function_entry_rect (env : Env K) (hE : IsExp env.E) (a : K) (ha : 0 < a) (hs : env.s ≠ 0) :
    specValue env (.prod 1 [.fn .rect a 0]) = some (Gen.rectEntry env.E env.s a) := by
  rw [spec_rect env hE a ha hs]
  simp only [Gen.rectEntry, ofN_eq, pw_eq]; push_cast
  try rw [show (-env.s / (2 * a)) = -(env.s * (1 / (2 * a))) by field_simp]
  try (congr 1; first | (field_simp; ring1) | field_simp | ring1)

theorem function_entry_ramp (env : Env K) (hE : IsExp env.E) (a : K) (ha : 0 < a) (hs : env.s ≠ 0) :
    specValue env (.prod 1 [.fn .ramp a 0]) = some (Gen.rampEntry env.E env.s a) := by
  rw [spec_ramp env hE a ha hs]
  simp only [Gen.rampEntry, ofN_eq, pw_eq]
  try (congr 1; first | (field_simp; ring1) | field_simp | ring1)

theorem function_entry_tri (env : Env K) (hE : IsExp env.E) (a : K) (ha : 0 < a) (hs : env.s ≠ 0) :
    specValue env (.prod 1 [.fn .tri a 0]) = some (Gen.triEntry env.E env.s a) := by
  rw [spec_tri env hE a ha hs]
  simp only [Gen.triEntry, ofN_eq, pw_eq]; push_cast
  try rw [show (-env.s / a) = -(env.s * (1 / a)) by field_simp]
  try (congr 1; first | (field_simp; ring1) | field_simp | ring1)

theorem function_entry_rampstep (env : Env K) (hE : IsExp env.E) (a : K) (ha : 0 < a) (hs : env.s ≠ 0) :
    specValue env (.prod 1 [.fn .rampstep a 0]) = some (Gen.rampstepEntry env.E env.s a) := by
  rw [spec_rampstep env hE a ha hs]
  simp only [Gen.rampstepEntry, ofN_eq, pw_eq]; push_cast
  try rw [show (-env.s / a) = -(env.s * (1 / a)) by field_simp]
  try (congr 1; first | (field_simp; ring1) | field_simp | ring1)

/-- the table is only used for a positive scale: `function` refuses a time-reversed argument (GENERATED flag; the model's
    `lcapyTerm` follows it; a regression of fix C09-F26 breaks exactly this) -/
theorem fn_rejects_negative_scale : Gen.fnRejectsNegScale = true := by decide

/-- the unit entries themselves, e.g. `L{tri(t)} = 1/s − (1 − e^{−s})/s²`, and the similarity step -/
theorem function_entries_from_unit (env : Env K) (hE : IsExp env.E) (a : K) (ha : 0 < a) (hs : env.s ≠ 0) :
    specValue env (.prod 1 [.fn .tri a 0])
      = some (1 / a * (1 / (env.s / a) - (1 - env.E (-(env.s / a * 1))) / (env.s / a) ^ 2)) := by
  rw [spec_tri env hE a ha hs]
  rw [show -(env.s / a * 1) = -(env.s * (1 / a)) by field_simp]
  congr 1; field_simp

/-- `func`: `x(a t + b)` (a > 0, delay −b/a ≥ 0) ↦ `X(s/a)/a · e^{s b/a}` — for EVERY causal signal put for `x` -/
theorem func_entry (env : Env K) (hE : IsExp env.E) (c a b : K) (ha : a ≠ 0) (hb : b ≤ 0) :
    specValue env (.undef c a b) = (lcapyTerm env (.undef c a b)).2 := func_entry' env hE c a b ha hb

/-- `x(t)·e^{at}` ↦ `X(s − a)` -/
theorem func_exp_entry (env : Env K) (hE : IsExp env.E) (c a : K) :
    specValue env (.undefExp c a) = (lcapyTerm env (.undefExp c a)).2 := func_exp_entry' env hE c a

/-- `derivative_undef` with initial conditions: `s^n X(s) − Σ_{m<n} s^{n−m−1} x^{(m)}(0⁻)`, any order `n`,
    any whole-axis signal put for `x` -/
theorem deriv_undef_entry (env : Env K) (hE : IsExp env.E) (hx : NonPole env.xsig.post env.s) (hz : env.zic = false)
    (c : K) (n : Nat) :
    specValue env (.dundef c n) = (lcapyTerm env (.dundef c n)).2 := deriv_undef_entry' env hE hx hz c n

/-- … and with `zero_initial_conditions=True`: `s^n X(s)`, right when `x` vanishes before `t = 0` -/
theorem deriv_undef_entry_zic (env : Env K) (hx : NonPole env.xsig.post env.s) (hz : env.zic = true)
    (hpre : env.xsig.pre = []) (c : K) (n : Nat) :
    specValue env (.dundef c n) = (lcapyTerm env (.dundef c n)).2 := deriv_undef_entry_zic' env hx hz hpre c n

/-- `integral`: running integral ↦ `X(s)/s`; convolutions ↦ products -/
theorem integral_entry (env : Env K) (hE : IsExp env.E) (c : K) (hs : env.s ≠ 0) (hx : NonPole env.xsig.post env.s) :
    specValue env (.iundef c) = (lcapyTerm env (.iundef c)).2 := integral_entry' env hE c hs hx

theorem conv_entry (env : Env K) (hE : IsExp env.E) (c : K)
    (hx : NonPole env.xsig.post env.s) (hy : NonPole env.ysig env.s) :
    specValue env (.convXY c) = (lcapyTerm env (.convXY c)).2 := conv_entry' env hE c hx hy

theorem conv_exp_entry (env : Env K) (hE : IsExp env.E) (c a : K) (ha : env.s - a ≠ 0)
    (hx : NonPole env.xsig.post env.s) :
    specValue env (.convExpX c a) = (lcapyTerm env (.convExpX c a)).2 := conv_exp_entry' env hE c a ha hx

/-- `Derivative(x(a t + b), t, n)` — what the transform must be (x causal, delay −b/a ≥ 0): `c·sⁿ·X(s/a)/a·e^{s b/a}`
    (derivative theorem after the similarity and shift theorems) -/
theorem deriv_undef_at_spec (env : Env K) (hE : IsExp env.E) (c a b : K) (n : Nat) (ha : a ≠ 0) (hb : b ≤ 0)
    (hx : NonPole env.xsig.post (env.s / a)) :
    specValue env (.dundefAt c n a b)
      = some (c * (Xof env (env.s / a) / a * (if b = 0 then 1 else env.E (env.s * b / a)) * pw env.s n)) :=
  deriv_undef_at_spec' env hE c a b n ha hb hx

/-- … `derivative_undef` computes it when the source applies `self.func` to the differentiated function (flag GENERATED from the
    source text; finding C09-F24: the code wrote `X(s)` whatever the argument) … -/
theorem deriv_undef_at_entry (env : Env K) (hE : IsExp env.E) (hflag : Gen.derivAppliesShift = true) (hz : env.zic = true)
    (c a b : K) (n : Nat) (ha : a ≠ 0) (hb : b ≤ 0) (hx : NonPole env.xsig.post (env.s / a)) :
    specValue env (.dundefAt c n a b) = (lcapyTerm env (.dundefAt c n a b)).2 :=
  deriv_undef_at_entry' env hE hflag hz c a b n ha hb hx

/-- the source does (GENERATED flag, re-read on every run; a regression of fix C09-F24 breaks exactly this) -/
theorem deriv_undef_applies_shift : Gen.derivAppliesShift = true := by decide

/-- … and in either form for the plain argument `x(t)` -/
theorem deriv_undef_at_plain_entry (env : Env K) (hE : IsExp env.E) (hz : env.zic = true) (c : K) (n : Nat)
    (hx : NonPole env.xsig.post env.s) :
    specValue env (.dundefAt c n 1 0) = (lcapyTerm env (.dundefAt c n 1 0)).2 := deriv_undef_at_plain env hE hz c n hx

/-- sifting: `c·x(t)·δ(a t + b)` with the impulse at `τ = −b/a ≥ 0`, `x` continuous there, transforms to `c·x(τ)·e^{−sτ}/a`;
    an impulse before the origin contributes nothing -/
theorem delta_undef_spec (env : Env K) (c a b : K) (h0 : 0 ≤ -(b / a)) (hcont : contAt env.xsig.post (-(b / a)) = true) :
    specValue env (.deltaX c a b)
      = some (c * evalAt env.E env.xsig.post (-(b / a)) * env.E (-(env.s * -(b / a))) / a) :=
  delta_undef_spec' env c a b h0 hcont

theorem delta_undef_before_origin_spec (env : Env K) (c a b : K) (h0 : ¬ 0 ≤ -(b / a)) :
    specValue env (.deltaX c a b) = some 0 := delta_undef_before_origin env c a b h0

/-- the `DiracDelta * x(t)` branch of `term` computes it when the source implements the sifting property (flag GENERATED;
    finding C09-F25: the code returned the time function `x(t)`) -/
theorem delta_undef_entry (env : Env K) (hflag : Gen.deltaUndefSifts = true) (c a b : K) (h0 : 0 ≤ -(b / a))
    (hcont : contAt env.xsig.post (-(b / a)) = true) :
    specValue env (.deltaX c a b) = (lcapyTerm env (.deltaX c a b)).2 := delta_undef_entry' env hflag c a b h0 hcont

/-- the source does (GENERATED flag; a regression of fix C09-F25 breaks exactly this) -/
theorem delta_undef_sifts : Gen.deltaUndefSifts = true := by decide

example : contAt [Term.ep (1 : ℚ) 0 (-3) 0] (1 / 2) = true := by norm_num [contAt]

/-! #### time-reversed steps (windows) and the `clip_step` rewriting -/

/-- Window: a signal switched off at `T`, `g(t)·u(t−τ)·u(T−t)` (the model's base `u(t−τ) − u(t−T)` multiplied by any
    product `g` of smooth factors), has the transform `L{g u(t−τ)} − L{g u(t−T)}`; the second term is the delayed
    signal of `lt_delay`. -/
theorem lt_window (E : K → K) (J c tau T s : K) (sm : List (Atom K)) :
    L E (sm.foldl (applySmooth E J) [.ep c 0 0 tau, .ep (-c) 0 0 T]) s
      = L E (sm.foldl (applySmooth E J) [.ep c 0 0 tau]) s + L E (sm.foldl (applySmooth E J) [.ep (-c) 0 0 T]) s :=
  window_transform' E J c tau T s sm

/-- … and that base really is the window: `c` on `τ ≤ t < T`, zero elsewhere -/
theorem window_pointwise (E : K → K) (hE0 : E 0 = 1) (c tau T t : K) (hT : tau ≤ T) :
    evalAt E [.ep c 0 0 tau, .ep (-c) 0 0 T] t = if tau ≤ t ∧ t < T then c else 0 :=
  window_pointwise' E hE0 c tau T t hT

/-- `L{c·u(a t + b)}`, `a < 0 < b` (on until `T = −b/a`): `c (1 − e^{−sT}) / s` — the defining integral over `[0, T]` -/
theorem reversed_step_entry (env : Env K) (hE : IsExp env.E) (c a b : K) (ha : a < 0) (hb : 0 < b) (hs : env.s ≠ 0) :
    specValue env (.prod c [.step a b]) = some (c * (1 - env.E (-(env.s * -(b / a)))) / env.s) := by
  have h1 : ¬ (0 : K) ≤ a := not_le.mpr ha
  have h2 : ¬ -(b / a) ≤ 0 := by
    have : b / a < 0 := div_neg_of_pos_of_neg hb ha
    intro h; linarith
  simp [specValue, sem, semProd, expandAtoms, semSimple, List.filterMap, deltaSel, stepSel, offSel, List.filter, isSmooth,
    h1, h2, Term.L, pw, hE.zero]
  field_simp; ring

/-- `clip_step` (guard GENERATED from the source text of `LaplaceTransformer.term`): when the guard holds, replacing
    `Heaviside(a t + b)` by 1 does not change the signal on the unilateral axis.  Sound exactly because the guard
    implies `a > 0 ∧ b ≥ 0`; a guard that only looks at `b` would also drop time-reversed steps (next example). -/
theorem clip_step_sound (E : K → K) (J c a b : K) (atoms : List (Atom K)) (hg : Gen.clipGuard a b = true)
    (hd : NoDeltaAtoms atoms) :
    semSimple E J c (.step a b :: atoms) = semSimple E J c atoms := by
  have h : 0 < a ∧ 0 < b := by simpa [Gen.clipGuard, not_le] using hg
  exact drop_step_sound E J c a b atoms h.1 h.2.le hd

-- dropping a time-reversed step is NOT sound: u(1 − t) is not 1 on t ≥ 0
example : semSimple (K := ℚ) (fun _ => 1) 0 1 [.step (-1) 1] ≠ semSimple (K := ℚ) (fun _ => 1) 0 1 [] := by
  norm_num [semSimple, List.filterMap, deltaSel, stepSel, offSel, List.filter, isSmooth]
-- non-vacuity of the guard
example : Gen.clipGuard (2 : ℚ) (1 / 2) = true := by norm_num [Gen.clipGuard]

end B

/-! ### anchors: the term-wise definition is the integral -/

/-- `∫_0^∞ c·t^k/k!·e^{pt} · e^{−st} dt = L{ep c k p 0}(s)` for real `p < s` (region of convergence), all `k` -/
theorem anchor_real (c : ℝ) (k : ℕ) (p s : ℝ) (h : p < s) :
    ∫ t in Set.Ioi (0:ℝ), (c * t ^ k / (k.factorial : ℝ) * Real.exp (p * t)) * Real.exp (-(s * t))
      = L Real.exp [Term.ep c k p 0] s := anchor_real_L c k p s h

/-- complex rate (sin/cos, complex exponentials), order 0 -/
theorem anchor_complex_k0 (p s : ℂ) (h : p.re < s.re) :
    ∫ t : ℝ in Set.Ioi (0:ℝ), Complex.exp (p * t) * Complex.exp (-(s * t)) = 1 / (s - p) :=
  Lcapy.Laplace.anchor_complex_k0 p s h

/-- complex rate (sin/cos, damped sinusoids, complex exponentials), EVERY order `k`, on the half-plane `Re s > Re p`
    (induction on `k`, integration by parts from `integral_exp_mul_complex_Ioi`) -/
theorem anchor_complex (k : ℕ) (p s : ℂ) (h : p.re < s.re) :
    ∫ t : ℝ in Set.Ioi (0:ℝ), (t : ℂ) ^ k * Complex.exp (p * t) * Complex.exp (-(s * t))
      = (k.factorial : ℂ) / (s - p) ^ (k + 1) := Lcapy.Laplace.anchor_complex k p s h

/-- one delayed basis term `c (t−d)^k/k! e^{p(t−d)} u(t−d)`, `d ≥ 0`: `x(t) e^{−st}` is integrable on `(0,∞)` and its integral is
    the formal transform `c e^{−sd}/(s−p)^{k+1}` (the delay shifts the integral) -/
theorem lt_term_is_integral (c : ℂ) (k : ℕ) (p d s : ℂ) (hd : d.im = 0) (hd0 : 0 ≤ d.re) (h : p.re < s.re) :
    MeasureTheory.IntegrableOn (fun t : ℝ => (Term.ep c k p d).timeFn t * Complex.exp (-(s * t))) (Set.Ioi 0) ∧
    ∫ t : ℝ in Set.Ioi (0:ℝ), (Term.ep c k p d).timeFn t * Complex.exp (-(s * t)) = (Term.ep c k p d).L Complex.exp s :=
  Lcapy.Laplace.lt_term_is_integral c k p d s hd hd0 h

/-- **the formal transform IS the defining integral on the whole exponential-polynomial class**: for every delta-free formal signal
    with non-negative real delays (finite sums of `c (t−d)^k/k! e^{p(t−d)} u(t−d)`, `c`, `p` complex — polynomials, real and complex
    exponentials, sin/cos/sinh/cosh, damped sinusoids and their delayed versions) and every `s` to the right of all its poles,
    `x(t) e^{−st}` is integrable on `(0, ∞)` and `∫_0^∞ x(t) e^{−st} dt = L x (s)`  (`timeFn`: the signal as a function of real time,
    same reading as `Term.at`). Deltas stay formal. -/
theorem lt_is_integral (f : ExpPoly ℂ) (s : ℂ) (hnd : NoDelta f) (hd : RealDelays f) (hs : InROC f s) :
    MeasureTheory.IntegrableOn (fun t : ℝ => timeFn f t * Complex.exp (-(s * t))) (Set.Ioi 0) ∧
    ∫ t : ℝ in Set.Ioi (0:ℝ), timeFn f t * Complex.exp (-(s * t)) = L Complex.exp f s :=
  Lcapy.Laplace.lt_is_integral f s hnd hd hs

example : NoDelta [Term.ep 2 1 (-3 + 4 * Complex.I) 0, Term.ep 1 0 (-1) 1] ∧
    RealDelays [Term.ep 2 1 (-3 + 4 * Complex.I) 0, Term.ep 1 0 (-1) 1] ∧
    InROC [Term.ep 2 1 (-3 + 4 * Complex.I) 0, Term.ep 1 0 (-1) 1] 0 := by
  refine ⟨?_, ?_, ?_⟩ <;> (intro t ht; simp at ht; rcases ht with rfl | rfl <;> simp [Term.delayOf])

/-- the textbook pairs of the damped sinusoids, as instances of `lt_is_integral` -/
theorem anchor_damped_sin (al w : ℝ) (s : ℂ) (h : -al < s.re) :
    ∫ t : ℝ in Set.Ioi (0:ℝ), ((Real.exp (-al * t) * Real.sin (w * t) : ℝ) : ℂ) * Complex.exp (-(s * t))
      = w / ((s + al) ^ 2 + w ^ 2) := Lcapy.Laplace.anchor_damped_sin al w s h

theorem anchor_damped_cos (al w : ℝ) (s : ℂ) (h : -al < s.re) :
    ∫ t : ℝ in Set.Ioi (0:ℝ), ((Real.exp (-al * t) * Real.cos (w * t) : ℝ) : ℂ) * Complex.exp (-(s * t))
      = (s + al) / ((s + al) ^ 2 + w ^ 2) := Lcapy.Laplace.anchor_damped_cos al w s h

/-! ### the meaning function `sem` is the pointwise product, and the code's formulas are integrals -/

/-- every smooth factor of the raw-term language (`t^k`, `a t + b`, `e^{at}`, `sin/cos(ωt+φ)`, `sinh/cosh(at)`) acts on a delta-free
    signal as multiplication by the function of real time it denotes (`atomFn`) — the operations `tmul`, `expWeight`, `smul`
    with which `sem` builds signals mean what their names say -/
theorem smooth_factor_pointwise (x : Atom ℂ) (f : ExpPoly ℂ) (hf : Regular f) :
    Regular (applySmooth Complex.exp Complex.I f x) ∧
    ∀ t, timeFn (applySmooth Complex.exp Complex.I f x) t = atomFn x t * timeFn f t :=
  applySmooth_pointwise x f hf

/-- the specification value of `c · Π gᵢ(t) · u(t−τ)`, `τ ≥ 0`, is its defining integral at every `s` right of all poles -/
theorem smooth_product_is_integral (sm : List (Atom ℂ)) (c : ℂ) (tau : ℝ) (htau : 0 ≤ tau) (s : ℂ)
    (hs : InROC (sm.foldl (applySmooth Complex.exp Complex.I) [Term.ep c 0 0 (tau : ℂ)]) s) :
    ∫ t : ℝ in Set.Ioi (0:ℝ), ((sm.map (fun x => atomFn x t)).prod * (if tau ≤ t then c else 0)) * Complex.exp (-(s * t))
      = L Complex.exp (sm.foldl (applySmooth Complex.exp Complex.I) [Term.ep c 0 0 (tau : ℂ)]) s :=
  Lcapy.Laplace.smooth_product_is_integral sm c tau htau s hs

example : InROC ([Atom.tpow 2, Atom.exp (-1)].foldl (applySmooth Complex.exp Complex.I) [Term.ep 3 0 0 ((1 : ℝ) : ℂ)]) 0 := by
  intro x hx
  simp [applySmooth, iter, tmul, Term.tmul, expWeight, Term.expWeight] at hx
  rcases hx with rfl | rfl | rfl | rfl <;> simp

/-- the `sin_cos` fast path: `c·e^{αt}·sin/cos(ωt+φ)·u(t−τ)`, any phase, damping and delay (a negative `τ` is clipped to 0 on both
    sides), is the stated combination of the two conjugate exponentials `e^{(α ± jω)t}` — over ANY field with an imaginary unit `J`
    (ℂ, the driver's Gaussian rationals); the only fact about `≤` that is used is `0 ≤ 1` -/
theorem sin_cos_entry {K : Type} [Field K] [LE K] [DecidableLE K] [DecidableEq K]
    (env : Env K) (hE : IsExp env.E) (hJ : env.J * env.J = -1) (h01 : (0 : K) ≤ 1) (h20 : (2 : K) ≠ 0)
    (c al w ph tau : K) (isCos : Bool) (h1 : env.s - al - env.J * w ≠ 0) (h2 : env.s - al + env.J * w ≠ 0) :
    specValue env (.prod c [.exp al, .trig isCos w ph, .step 1 (-tau)]) = some (c * sinCosFormula env al isCos w ph tau) :=
  sin_cos_entry_gen env hE hJ h01 h20 c al w ph tau isCos h1 h2

/-- `sin_cos` with a constant in the exponent, `c·e^{αt+β}·sin/cos(ωt+φ)·u(t−τ)`: the code's extra factor `e^β`
    (`alpha, beta = scale_shift(exparg, t)` … `if beta != 0: E = exp(beta) * E`) -/
theorem sin_cos_entry_beta {K : Type} [Field K] [LE K] [DecidableLE K] [DecidableEq K]
    (env : Env K) (hE : IsExp env.E) (hJ : env.J * env.J = -1) (h01 : (0 : K) ≤ 1) (h20 : (2 : K) ≠ 0)
    (c al be w ph tau : K) (isCos : Bool) (h1 : env.s - al - env.J * w ≠ 0) (h2 : env.s - al + env.J * w ≠ 0) :
    specValue env (.prod c [.expb al be, .trig isCos w ph, .step 1 (-tau)])
      = some (c * (env.E be * sinCosFormula env al isCos w ph tau)) :=
  sin_cos_entry_beta' env hE hJ h01 h20 c al be w ph tau isCos h1 h2

-- non-vacuity: ℂ with the true exponential and `J = i`
example : IsExp Complex.exp ∧ Complex.I * Complex.I = -1 ∧ (2 : ℂ) ≠ 0 := ⟨isExp_cexp, by simp, two_ne_zero⟩

section
-- `sinCosFormula` compares the delay with 0: on ℂ this is Mathlib's order (`z ≤ w ↔ z.re ≤ w.re ∧ z.im = w.im`), the real order on real delays
open scoped ComplexOrder
attribute [local instance] Classical.propDecidable

/-- **the `sin_cos` fast path of the code is the defining integral**: the code's formula (`sinCosFormula`, the mirror of
    `LaplaceTransformer.sin_cos` that the correspondence compares with the real code on every run) for `c·e^{αt}·sin/cos(ωt+φ)·u(t−τ)`
    equals `∫_0^∞ c e^{αt} sin/cos(ωt+φ) u(t − max(τ,0)) e^{−st} dt` for all real `α, ω, φ, τ`, complex `c` and every `s` with `Re s > α` -/
theorem sin_cos_is_integral (s c : ℂ) (al w ph tau : ℝ) (isCos : Bool) (h : al < s.re) :
    c * sinCosFormula (cenv s) (al : ℂ) isCos (w : ℂ) (ph : ℂ) (tau : ℂ)
      = ∫ t : ℝ in Set.Ioi (0:ℝ), (Complex.exp (al * t) * ((if isCos then Complex.cos (w * t + ph) else Complex.sin (w * t + ph))
            * (if max tau 0 ≤ t then c else 0))) * Complex.exp (-(s * t)) :=
  Lcapy.Laplace.sin_cos_is_integral s c al w ph tau isCos h
end

end Lcapy.C09
