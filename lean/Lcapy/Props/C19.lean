/-
  PROPERTY C19 -- network synthesis realises the requested immittance.

  Model: `Lcapy/Model/PolySynth.lean` (one-port RLCG networks `Net` with impedance `Net.Z`, the pattern
  realisations of lcapy/synthesis.py on the dictionary `Coll` that `partfrac()` + `collect()` produce, the
  Cauer ladders on continued-fraction coefficients, series/parallel sums of sections for the Foster
  forms) and the continued-fraction model shared with C11 (`Lcapy/Model/Ratfun.lean`: `cfStep`, `cfRun`).
  `none` = the method raises, `some none` = the empty network (`None`), `some (some net)` = a network.

  Guards: Lean's field division is total (`1/0 = 0`); every theorem below that speaks about an impedance
  of a ladder carries explicit hypotheses that the evaluation point is not zero and that no intermediate
  immittance vanishes (`LadderDefined`), so no statement holds "because of" `1/0 = 0`.
  Only property theorems live here; helper lemmas are in Lcapy/Proofs/PolySynth.lean, PolyCF.lean.
-/
import Lcapy.Proofs.PolySynth
import Lcapy.Proofs.PolyCF
import Lcapy.Proofs.PolyRatfun
import Mathlib.Tactic.NormNum
namespace Lcapy.C19
open Lcapy Lcapy.Poly Lcapy.Ratfun Lcapy.Synth
variable {K : Type} [Field K] [DecidableEq K]
set_option linter.unusedSimpArgs false
set_option linter.unusedVariables false
set_option linter.unusedSectionVars false

/-! ## 1. Continued-fraction expansion (`continued_fraction_coeffs`) -/

/-- `N = Q·D + N₂`, i.e. `N/D = Q + 1/(D/N₂)`, with `Q = LT(N)/LT(D)` -/
theorem cf_step (N D : List K) (q : K) (k : Nat) (N2 : List K) (h : cfStep N D = some (q, k, N2))
    (hD : lc D ≠ 0) (x : K) :
    Poly.eval N x = q * x ^ k * Poly.eval D x + Poly.eval N2 x := cfStep_eval h hD x

/-- termination (explicit obligation): the recursion never runs out of the fuel `cfCoeffs` supplies -/
theorem cf_terminates (fuel : Nat) (N D : List K) (hD : lc D ≠ 0)
    (hf : (trim N).length + (trim D).length ≤ fuel) : cfRun fuel N D ≠ .fuelOut := cfRun_fuel fuel N D hD hf

/-- `evalCF (cfCoeffs N D) = N/D` wherever the continued fraction is defined -/
theorem cf_value (fuel : Nat) (N D : List K) (cs : List (K × Nat)) (env : Env K)
    (h : cfRun fuel N D = .ok cs) (hdef : cfDefined fuel N D env.x = true) :
    (cfExpr cs).eval env = Poly.eval N env.x / Poly.eval D env.x := cfExpr_value fuel N D cs env h hdef
example : cfRun 5 ([1, 0, 1] : List ℚ) [0, 1] = .ok [(1, 1), (1, 1)] := by decide +kernel

/-- the expression `as_continued_fraction` builds and the ladder value `cfVal` are the same number -/
theorem cfExpr_eq_cfVal (cs : List (K × Nat)) (env : Env K) : (cfExpr cs).eval env = cfVal false env.x cs := by
  induction cs with
  | nil => simp [cfExpr, cfVal, RExpr.eval]
  | cons c rest ih =>
    obtain ⟨q, k⟩ := c
    cases rest with
    | nil => simp [cfExpr, cfVal, RExpr.eval, monoVal]
    | cons r rs => simp only [cfExpr, cfVal, RExpr.eval, monoVal, ih]; simp

/-! ## 2. Cauer ladders -/

/-- the ladder is defined at `x`: `x ≠ 0`, every coefficient is non-zero except possibly a leading one,
    and no partial continued fraction vanishes -/
def LadderDefined (inv : Bool) (x : K) : List (K × Nat) → Prop
  | [] => True
  | c :: rest => x ≠ 0 ∧ (rest ≠ [] → cfVal inv x rest ≠ 0) ∧ LadderDefined inv x rest

/-- **cauerI_realises**: the ladder `cauerI` builds from continued-fraction coefficients has impedance
    `c0 + 1/(c1 + 1/(c2 + …))` -/
theorem cauerI_realises (x : K) (cs : List (K × Nat)) (net : Net K)
    (h : cauerI true cs = some (some net)) (hdef : LadderDefined false x cs) :
    net.Z x = cfVal false x cs := by
  have hne : cs ≠ [] := by rintro rfl; simp [cauerI] at h
  exact (cauerI_value x cs true (some net) h hne).1 rfl
example : ∃ net, cauerI true ([(1, 1), (1, 1)] : List (ℚ × Nat)) = some (some net) := ⟨_, rfl⟩
example : LadderDefined false (2 : ℚ) [(1, 1), (1, 1)] := by
  simp [LadderDefined, cfVal, monoVal, npow]

/-- end to end: `Z = N/D`, coefficients from the expansion, network from the ladder -/
theorem cauerI_realises_ratfun (fuel : Nat) (N D : List K) (cs : List (K × Nat)) (net : Net K) (env : Env K)
    (hc : cfRun fuel N D = .ok cs) (hdef : cfDefined fuel N D env.x = true)
    (h : cauerI true cs = some (some net)) (hl : LadderDefined false env.x cs) :
    net.Z env.x = Poly.eval N env.x / Poly.eval D env.x := by
  rw [cauerI_realises env.x cs net h hl, ← cfExpr_eq_cfVal, cf_value fuel N D cs env hc hdef]

/-- **cauerII_realises**: with the coefficients `q·x^(−k)` of `(1/Z).continued_fraction_inverse_coeffs()`
    the ladder `cauerII` builds has ADMITTANCE `c0 + 1/(c1 + 1/(c2 + …))`.  (How the inverse coefficients are
    generated is not modelled; the oracle checks `as_continued_fraction_inverse` in C11 and the impedance of
    the returned network here.) -/
theorem cauerII_realises (x : K) (cs : List (K × Nat)) (net : Net K)
    (h : cauerII true true cs = some (some net)) (hdef : LadderDefined true x cs) (hz : net.Z x ≠ 0) :
    1 / net.Z x = cfVal true x cs := by
  have hne : cs ≠ [] := by rintro rfl; simp [cauerII] at h
  exact (cauerII_value x cs true true (some net) h hne).1 rfl
example : ∃ net, cauerII true true ([(0, 0), (2, 1), (3, 0)] : List (ℚ × Nat)) = some (some net) := ⟨_, rfl⟩

/-- **cfi_value**: `continued_fraction_inverse_coeffs` (the forward expansion in `1/var` on the reversed
    coefficient lists) gives coefficients `q·x^(−k)` whose continued fraction is `N/D` -/
theorem cfi_value (N D : List K) (cs : List (K × Nat)) (x : K) (hx : x ≠ 0)
    (h : cfiCoeffs N D = .ok cs) (hD : D ≠ [])
    (hdef : cfDefinedSwap (2 * (max N.length D.length + max N.length D.length) + 3)
      (revPad N (max N.length D.length)) (revPad D (max N.length D.length)) (1 / x) = true) :
    cfVal true x cs = Poly.eval N x / Poly.eval D x := cfi_value' N D cs x hx h hD hdef
example : cfiCoeffs ([1] : List ℚ) [1, 1] = .ok [(1, 0), (-1, 1), (-1, 0)] := by decide +kernel

/-- termination of the inverse expansion (explicit obligation; `cfiCoeffs` supplies `4m + 3` fuel for lists
    of at most `m` coefficients) -/
theorem cfi_terminates (fuel : Nat) (N D : List K) (hN : lc N ≠ 0) (hD : lc D ≠ 0)
    (hf : 2 * ((trim N).length + (trim D).length) + (if (trim N).length < (trim D).length then 1 else 0) ≤ fuel) :
    cfRunSwap fuel N D ≠ .fuelOut := cfRunSwap_fuel fuel N D hN hD hf

/-- Cauer II end to end: coefficients of `1/Z = D/N`, ladder from them, impedance `N/D` -/
theorem cauerII_realises_ratfun (N D : List K) (cs : List (K × Nat)) (net : Net K) (x : K) (hx : x ≠ 0)
    (hc : cfiCoeffs D N = .ok cs) (hN : N ≠ [])
    (hdef : cfDefinedSwap (2 * (max D.length N.length + max D.length N.length) + 3)
      (revPad D (max D.length N.length)) (revPad N (max D.length N.length)) (1 / x) = true)
    (h : cauerII true true cs = some (some net)) (hl : LadderDefined true x cs) (hz : net.Z x ≠ 0) :
    net.Z x = Poly.eval N x / Poly.eval D x := by
  have h1 := cauerII_realises x cs net h hl hz
  rw [cfi_value D N cs x hx hc hN hdef] at h1
  rw [← one_div_one_div (net.Z x), h1, one_div_div]

/-- a coefficient that is neither a constant nor proportional to `var` makes `cauerI` raise -/
theorem cauerI_rejects (q : K) (k : Nat) (hk : 2 ≤ k) (hq : q ≠ 0) (rest : List (K × Nat)) (even : Bool) :
    cauerI even ((q, k) :: rest) = none := by
  obtain ⟨k, rfl⟩ : ∃ j, k = j + 2 := ⟨k - 2, by omega⟩
  simp only [cauerI]
  cases cauerI (!even) rest with
  | none => rfl
  | some t => cases even <;> simp [hq, monoColl, seriesRL, parallelGC]

/-! ## 3. Pattern forms and rejection -/

/-- `seriesRL … seriesRLC`: a returned network has the collected impedance `c0 + cp·x + cm/x`.
    Guards: `x ≠ 0` and every coefficient of the dictionary is non-zero (`hnz`) -- the elements `C(1/a)`, `G(1/a)` invert
    them, and with Lean's total division a zero entry would be "realised" by `C(1/0)` for the wrong reason.  `collect`
    never produces a zero coefficient and neither does the model of it (`collOf_entries_nonzero` in C19Forms.lean). -/
theorem series_forms_realise (d : Coll K) (x : K) (net : Net K) (hx : x ≠ 0)
    (h : seriesRL d = some (some net) ∨ seriesRC d = some (some net) ∨ seriesGC d = some (some net) ∨
         seriesLC d = some (some net) ∨ seriesRLC d = some (some net)) (hnz : d.EntriesNonzero) :
    net.Z x = d.value x := series_forms_value d x (some net) h

/-- `parallelRL … parallelRLC`: a returned network has the collected ADMITTANCE (same guards, plus `net.Z x ≠ 0`) -/
theorem parallel_forms_realise (d : Coll K) (x : K) (net : Net K) (hx : x ≠ 0) (hz : net.Z x ≠ 0)
    (h : parallelRL d = some (some net) ∨ parallelRC d = some (some net) ∨ parallelGC d = some (some net) ∨
         parallelLC d = some (some net) ∨ parallelRLC d = some (some net)) (hnz : d.EntriesNonzero) :
    1 / net.Z x = d.value x := parallel_forms_value d x (some net) h
example : seriesRLC (⟨some 3, some 2, some 5, false⟩ : Coll ℚ) = some (some (.ser (.ser (.R 3) (.C (1 / 5))) (.L 2))) := rfl

/-- **reject_otherwise**: terms other than `1`, `var`, `1/var` make every pattern raise -/
theorem reject_otherwise (d : Coll K) (h : d.other = true) :
    seriesRL d = none ∧ seriesRC d = none ∧ seriesGC d = none ∧ seriesLC d = none ∧ seriesRLC d = none ∧
    parallelRL d = none ∧ parallelRC d = none ∧ parallelGC d = none ∧ parallelLC d = none ∧ parallelRLC d = none :=
  reject_other d h

/-- a term the pattern has no element for makes it raise (`var` for RC/GC, `1/var` for RL, a constant for LC) -/
theorem reject_missing_element (d : Coll K) :
    (d.cm.isSome = true → seriesRL d = none ∧ parallelRC d = none ∧ parallelGC d = none) ∧
    (d.cp.isSome = true → seriesRC d = none ∧ seriesGC d = none ∧ parallelRL d = none) ∧
    (d.c0.getD 0 ≠ 0 → seriesLC d = none ∧ parallelLC d = none) := by
  refine ⟨fun h => ?_, fun h => ?_, fun h => ?_⟩
  · simp [seriesRL, parallelRC, parallelGC, h]
  · simp [seriesRC, seriesGC, parallelRL, h]
  · simp [seriesLC, parallelLC, h]

/-! ## 4. Foster forms.  The synthesis statements are `fosterI_realises_ratfun` / `fosterII_realises_ratfun` in
     C19Forms.lean (from `N/D` to the network).  Here: two helper lemmas (sections in series / parallel add) and the
     statement from a CHECKED partial-fraction expansion. -/

/-- helper lemma: sections in series add their impedances -/
theorem serAll_Z (nets : List (Net K)) (net : Net K) (x : K) (h : serAll nets = some net) :
    net.Z x = (nets.map (fun n => n.Z x)).sum := by
  have := Z_serAll nets x
  rw [h] at this; exact this

/-- helper lemma: sections in parallel add their admittances -/
theorem parAll_Y (nets : List (Net K)) (net : Net K) (x : K) (h : parAll nets = some net) :
    1 / net.Z x = (nets.map (fun n => 1 / n.Z x)).sum := by
  have := Y_parAll nets x
  rw [h] at this; exact this

/-- Foster I from a CHECKED partial-fraction expansion: term `r/(x−p)^o` ↦ a section with that impedance
    (the end-to-end statements from `N/D` are `fosterI_realises_ratfun` / `fosterII_realises_ratfun` in C19Forms.lean) -/
theorem fosterI_realises_terms (B A Q : List K) (poles : List (K × Nat)) (terms : List (K × K × Nat))
    (nets : List (Net K)) (qnet net : Net K) (x : K)
    (hc : pfCheck B A Q poles terms = true) (hA : Poly.eval A x ≠ 0)
    (hq : qnet.Z x = Poly.eval Q x)
    (hs : nets.map (fun n => n.Z x) = terms.map (fun t => t.1 / (x - t.2.1) ^ t.2.2))
    (h : serAll (qnet :: nets) = some net) :
    net.Z x = Poly.eval B x / Poly.eval A x := by
  rw [serAll_Z (qnet :: nets) net x h, pfCheck_sound B A Q poles terms x hc hA]
  simp [hq, hs, pfValue]

end Lcapy.C19
