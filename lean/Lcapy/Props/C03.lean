/-
  PROPERTY C03 -- responses are linear in the sources: superposition over sources and
  signal kinds.  Only property theorems live here; helpers are in Lcapy/Proofs/Linear.lean.
-/
import Lcapy.Proofs.Linear
import Lcapy.Proofs.LinearN
import Lcapy.Model.Decompose
import Lcapy.Spec.Noise
import Lcapy.Props.C01
namespace Lcapy.C03
open Lcapy.MNA Ix
variable {K : Type} [Field K]

/-- **scaling** (ALL independent quantities at once; one source: Props/C03Groups.lean `scaling_one_source`,
    `scaling_one_of_many`): scaling every independent source (and initial condition) by `a` scales every
    node voltage and branch current by `a`.  Any netlist, any analysis kind, any point s. -/
theorem scaling (kind : Kind) (s a : K) (cs : List (Cpt K)) (x : Ix → K)
    (h : Solves kind s cs x) :
    Solves kind s (cs.map (Cpt.mapSrc (fun v => a * v))) (fun i => a * x i) := by
  intro r hr
  rw [residual_scale, h r hr, mul_zero]

/-- **superposition**: if two copies of a circuit differ only in the values of their
    independent sources / initial conditions, the sum of their solutions solves the circuit
    whose source values are the sums.  Netlists of any size. -/
theorem superposition (kind : Kind) (s : K) (cs cs' : List (Cpt K)) (x y : Ix → K)
    (hs : List.Forall₂ SameShape cs cs')
    (hx : Solves kind s cs x) (hy : Solves kind s cs' y) :
    Solves kind s (List.zipWith Cpt.addSrc cs cs') (fun i => x i + y i) := by
  intro r hr
  have hx' := hx r hr
  have hy' := hy r hr
  rw [residual_stampAll] at hx' hy' ⊢
  have key : ∀ (l l' : List (Cpt K)), List.Forall₂ SameShape l l' →
      lsum ((List.zipWith Cpt.addSrc l l').map (fun c => residual (stamp kind s c) (fun i => x i + y i) r)) =
        lsum (l.map (fun c => residual (stamp kind s c) x r)) +
        lsum (l'.map (fun c => residual (stamp kind s c) y r)) := by
    intro l l' hl
    induction hl with
    | nil => simp [lsum]
    | cons hc _ ih =>
      simp only [List.zipWith_cons_cons, List.map_cons, lsum, ih, residual_add_cpt kind s _ _ hc]
      ring
  rw [key cs cs' hs, hx', hy', add_zero]

/-- each source acting alone: the response to the sum of the sources is the sum of the responses,
    and by `C01.mna_unique` it is THE response when the circuit is non-singular. -/
theorem superposition_unique (kind : Kind) (s : K) (cs cs' : List (Cpt K)) (x y z : Ix → K)
    (hs : List.Forall₂ SameShape cs cs')
    (hx : Solves kind s cs x) (hy : Solves kind s cs' y)
    (hz : Solves kind s (List.zipWith Cpt.addSrc cs cs') z)
    (hns : C01.Nonsingular kind s (List.zipWith Cpt.addSrc cs cs')) :
    ∀ i, C01.Unknown kind s (List.zipWith Cpt.addSrc cs cs') i → z i = x i + y i :=
  C01.mna_unique kind s _ z _ hns hz (superposition kind s cs cs' x y hs hx hy)

/-- REMARK (the definition of `outflow` at value 0, not a claimed result; the kill content is Props/C03Wire.lean
    `kill_V_equiv`): a killed current source (value 0) injects nothing anywhere, like an open circuit -/
theorem killed_I_is_open (kind : Kind) (s : K) (x : Ix → K) (n1 n2 k : Nat) :
    outflow kind s x k (.I n1 n2 0) = outflow kind s x k (.Open n1 n2) := by
  simp [outflow, twoTerm]

/-- REMARK (the definition of `laws` at value 0; says nothing about currents/KCL — the statement that a killed V
    source IS the wire Lcapy replaces it with, node merging included, is Props/C03Wire.lean `kill_V_equiv`):
    a killed voltage source (value 0) forces its two nodes to the same voltage -/
theorem killed_V_is_short (kind : Kind) (s : K) (x : Ix → K) (n1 n2 m : Nat) :
    (∀ p ∈ laws kind s x (.V n1 n2 m 0), p.2 = 0) ↔ volt x n1 = volt x n2 := by
  simp [laws, vd, sub_eq_zero]

/-! ### decomposition into dc / per-frequency ac / transient parts reassembles to the signal -/
section
open Lcapy.Decompose
variable [DecidableEq K]

omit [DecidableEq K] in
theorem sumK_append (a b : List K) : sumK (a ++ b) = sumK a + sumK b := by
  induction a with
  | nil => simp [sumK]
  | cons h t ih => simp [sumK, ih, add_assoc]

theorem acInsert_sem (C S : K → K) (w a b : K) (l : List (K × K × K)) :
    sumK ((acInsert w a b l).map (fun p => p.2.1 * C p.1 + p.2.2 * S p.1)) =
      sumK (l.map (fun p => p.2.1 * C p.1 + p.2.2 * S p.1)) + (a * C w + b * S w) := by
  induction l with
  | nil => simp [acInsert, sumK]
  | cons h t ih =>
    obtain ⟨w', a', b'⟩ := h
    by_cases hw : w' = w
    · subst hw; simp [acInsert, sumK]; ring
    · simp [acInsert, hw, sumK, ih]; ring

theorem step_sem (C S : K → K) (X : Nat → K) (d : Decomp K) (t : Term K) :
    semDecomp C S X (step d t) = semDecomp C S X d + semTerm C S X t := by
  cases t with
  | dc c => simp [step, semDecomp, semTerm]; ring
  | ac w a b => simp [step, semDecomp, semTerm, acInsert_sem]; ring
  | tr i c => simp [step, semDecomp, semTerm, sumK_append, sumK]; ring

/-- **decompose_reassemble**: however many terms of whatever kinds a source expression has
    (including several sinusoids of one frequency), the DC + per-frequency phasor + transient
    decomposition adds back to the same signal at every instant. -/
theorem decompose_reassemble (C S : K → K) (X : Nat → K) (ts : List (Term K)) :
    semDecomp C S X (decompose ts) = sumK (ts.map (semTerm C S X)) := by
  have gen : ∀ (d : Decomp K), semDecomp C S X (ts.foldl step d) =
      semDecomp C S X d + sumK (ts.map (semTerm C S X)) := by
    induction ts with
    | nil => intro d; simp [sumK]
    | cons t ts ih => intro d; simp only [List.foldl_cons, List.map_cons, sumK, ih, step_sem]; ring
  rw [decompose, gen]; simp [semDecomp, sumK]

/-- grouping invariance: decomposing a permutation of the terms gives the same signal -/
theorem grouping_invariant (C S : K → K) (X : Nat → K) (ts ts' : List (Term K)) (h : ts.Perm ts') :
    semDecomp C S X (decompose ts) = semDecomp C S X (decompose ts') := by
  rw [decompose_reassemble, decompose_reassemble]
  induction h with
  | nil => rfl
  | cons _ _ ih => simp [sumK, ih]
  | swap a b l => simp [sumK]; ring
  | trans _ _ ih1 ih2 => rw [ih1, ih2]
end

/-! ### noise: same identifier adds in amplitude, distinct identifiers add in power -/
section
open Lcapy.Noise

/-- REMARK (sanity of the SPEC formula on a 2-element list, same transfer value; the claimed noise content is
    Props/C03Noise.lean `parts_power_is_noisePower`, `lookup_superAdd`, `noise_sub_zero_left`): one identifier, amplitudes add -/
theorem noise_same_id_amplitude (h : K × K) (a b : K) :
    noisePower [[(h, a), (h, b)]] = normSq h * ((a + b) * (a + b)) := by
  simp [noisePower, groupSum, normSq]; ring

/-- REMARK (sanity of the spec formula, 2 sources): distinct identifiers, powers add -/
theorem noise_distinct_ids_power (h : K × K) (a b : K) :
    noisePower [[(h, a)], [(h, b)]] = normSq h * (a * a + b * b) := by
  simp [noisePower, groupSum, normSq]; ring

theorem groupSum_perm (g g' : List ((K × K) × K)) (hp : g.Perm g') : groupSum g = groupSum g' := by
  induction hp with
  | nil => rfl
  | cons x _ ih => obtain ⟨⟨re, im⟩, a⟩ := x; simp [groupSum, ih]
  | swap x y l =>
    obtain ⟨⟨re, im⟩, a⟩ := x; obtain ⟨⟨re', im'⟩, a'⟩ := y
    simp [groupSum]; constructor <;> ring
  | trans _ _ ih1 ih2 => rw [ih1, ih2]

/-- the total does not depend on the order in which the noise sources of an identifier are listed,
    nor on the order of the identifiers -/
theorem noisePower_perm (gs gs' : List (List ((K × K) × K))) (hp : gs.Perm gs') :
    noisePower gs = noisePower gs' := by
  induction hp with
  | nil => rfl
  | cons _ _ ih => simp [noisePower, ih]
  | swap x y l => simp [noisePower]; ring
  | trans _ _ ih1 ih2 => rw [ih1, ih2]

/-- REMARK (sanity of the spec formula, 2 sources): splitting one identifier group into two identifiers changes the
    power by the cross term: same-identifier sources are NOT interchangeable with distinct ones -/
theorem noise_cross_term (h1 h2 : K × K) (a b : K) :
    noisePower [[(h1, a), (h2, b)]] =
      noisePower [[(h1, a)], [(h2, b)]] + 2 * (a * b) * (h1.1 * h2.1 + h1.2 * h2.2) := by
  simp [noisePower, groupSum, normSq]; ring
end

/-! ### N sources: the response is the sum of the responses to each source acting alone -/

/-- **each_source_alone** (the property's first sentence at full strength): take ANY netlist with any
    number of components; `alone cs` lists, for every component in turn, the netlist in which only that
    component keeps its independent quantities (source value / initial conditions) and every other one
    is zeroed — what `kill_except` builds.  If `xs` are solutions of these single-source circuits, their
    sum solves the full circuit.  Every analysis kind, every point s, netlists of any size. -/
theorem each_source_alone (kind : Kind) (s : K) (cs : List (Cpt K)) (xs : List (Ix → K))
    (hl : xs.length = cs.length)
    (h : List.Forall₂ (fun a x => Solves kind s a x) (alone cs) xs) :
    Solves kind s cs (sumX xs) := by
  intro r hr
  rw [← sumRes_alone kind s r cs xs hl]
  have key : ∀ (as : List (List (Cpt K))) (ys : List (Ix → K)),
      List.Forall₂ (fun a x => Solves kind s a x) as ys → sumRes kind s r as ys = 0 := by
    intro as ys hf
    induction hf with
    | nil => simp [sumRes]
    | cons hax _ ih => simp [sumRes, hax r hr, ih]
  exact key _ _ h

/-- … and when the full circuit is non-singular it is THE reported response (C01.mna_unique) -/
theorem each_source_alone_unique (kind : Kind) (s : K) (cs : List (Cpt K)) (xs : List (Ix → K))
    (z : Ix → K) (hl : xs.length = cs.length)
    (h : List.Forall₂ (fun a x => Solves kind s a x) (alone cs) xs)
    (hz : Solves kind s cs z) (hns : C01.Nonsingular kind s cs) :
    ∀ i, C01.Unknown kind s cs i → z i = sumX xs i :=
  C01.mna_unique kind s _ z _ hns hz (each_source_alone kind s cs xs hl h)

/-- the single-source family has one member per component, and in member j exactly component j keeps
    its sources (the others are `zeroSrc`) -/
theorem alone_card (cs : List (Cpt K)) : (alone cs).length = cs.length := alone_length cs

/-- non-vacuity: V1 1 0 6; R1 1 2 2; I1 2 0 3 (ground = node 0) at dc — the two single-source
    solutions (V alone: 6 V at both nodes, −0 A … ; I alone: node 2 at +6 V) and their sum -/
example :
    let cs : List (Cpt ℚ) := [.V 1 0 0 6, .R 1 2 2, .I 2 0 3]
    alone cs = [[.V 1 0 0 6, .R 1 2 2, .I 2 0 0], [.V 1 0 0 0, .R 1 2 2, .I 2 0 0],
                [.V 1 0 0 0, .R 1 2 2, .I 2 0 3]] := by
  simp [alone, killAll, Cpt.zeroSrc, Cpt.mapSrc]

/-- non-vacuity: two sinusoids of one frequency plus DC -/
example : (Lcapy.Decompose.decompose [Lcapy.Decompose.Term.ac (3 : ℚ) 1 0, .dc 2, .ac 3 0 1]).ac = [(3, 1, 1)] := by
  simp [Lcapy.Decompose.decompose, Lcapy.Decompose.step, Lcapy.Decompose.acInsert]

end Lcapy.C03
