/-
  AUDIT (auditor share C04): machine-checked NON-VACUITY witnesses for the theorems of Props/C04.lean, C04Ground.lean,
  C04Load.lean, C04Ops.lean.  Every theorem with hypotheses is APPLIED to a realistic input for which all hypotheses
  are proved:
    * the divider `V1 1 0 5; R1 1 2 3; R2 2 0 6`, port (2, 0): Voc = 10/3, Zth = 2, Isc = 5/3, Y = 1/2, H = 2/3;
      loaded by a series RC (interior node), by a short circuit, re-grounded at its output node;
    * its Thevenin (`V 2 0 10/3; Y 1 2 1/2`) and Norton (`I 1 0 5/3; Y 1 0 1/2`) models;
    * `V1 1 0 5; R1 1 2 3; C1 2 0 2 4` (charged capacitor) in the initial-value analysis;
    * the T network `R1 1 3 1; R2 3 2 2; R3 3 0 3` between ports (1, 0) and (2, 0), re-grounded at the interior node.
  All in the Laplace analysis kinds at the point s = 1 over ℚ.  Also: `Measures`, `C01.WF`, `C01.Nonsingular`,
  `Cpt.GroundFree` and the separation hypothesis of C04Load are satisfiable by these inputs; two examples that show
  where a statement is silent (`Measures` of an unsolvable experiment, the Thevenin model for Zth = 0).
  New file; nothing else is touched.  No sorry / axiom / native_decide.
-/
import Lcapy.Props.C04
import Lcapy.Props.C04Ground
import Lcapy.Props.C04Load
import Lcapy.Props.C04Ops
namespace Lcapy.NonVacuity.C04
set_option linter.unusedTactic false
set_option linter.unreachableTactic false
set_option linter.unnecessarySeqFocus false
set_option linter.unusedSimpArgs false
open Lcapy.MNA Ix Lcapy.C04

/-- `V1 1 0 5; R1 1 2 3; R2 2 0 6`, port (2, 0); Laplace analysis at the point s = 1 -/
def div : List (Cpt ℚ) := [.V 1 0 0 5, .R 1 2 3, .R 2 0 6]

/-- port open: V(1) = 5, V(2) = Voc = 10/3, source current −5/9 -/
def x0 : Ix → ℚ := fun i => match i with | node 1 => 5 | node 2 => 10/3 | br 0 => -5/9 | _ => 0
/-- sources killed, 1 A into node 2: V(1) = 0, V(2) = Zth = 2, current through the killed source 2/3 -/
def xu : Ix → ℚ := fun i => match i with | node 1 => 0 | node 2 => 2 | br 0 => 2/3 | _ => 0

theorem wf_div : C01.WF div := by simp [C01.WF, div, owned]

theorem wf_probe (J : ℚ) : C01.WF (withProbe div 2 0 J) := by simp [C01.WF, withProbe, div, owned]

theorem laws_x0 : Laws .lap 1 (withProbe div 2 0 0) x0 := by
  constructor
  · intro k hk
    match k with
    | 0 => exact absurd rfl hk
    | 1 => norm_num [withProbe, div, x0, outflow, twoTerm, lsum, vd, volt]
    | 2 => norm_num [withProbe, div, x0, outflow, twoTerm, lsum, vd, volt]
    | (k + 3) => simp [withProbe, div, outflow, twoTerm, lsum]
  · intro c hc p hp
    simp only [withProbe, div, List.cons_append, List.nil_append, List.mem_cons, List.mem_nil_iff, or_false] at hc
    rcases hc with rfl | rfl | rfl | rfl <;>
      simp only [laws, List.mem_cons, List.mem_nil_iff, or_false] at hp <;>
      (try subst hp) <;> norm_num [vd, volt, x0] <;> (try simp_all)

theorem solves_x0 : Solves .lap 1 (withProbe div 2 0 0) x0 :=
  (C01.mna_iff_laws _ _ _ _ (wf_probe 0)).mpr laws_x0

theorem laws_xu : Laws .lap 1 (withProbe (killAll div) 2 0 1) xu := by
  constructor
  · intro k hk
    match k with
    | 0 => exact absurd rfl hk
    | 1 => norm_num [withProbe, killAll, Cpt.mapSrc, div, xu, outflow, twoTerm, lsum, vd, volt]
    | 2 => norm_num [withProbe, killAll, Cpt.mapSrc, div, xu, outflow, twoTerm, lsum, vd, volt]
    | (k + 3) => simp [withProbe, killAll, Cpt.mapSrc, div, outflow, twoTerm, lsum]
  · intro c hc p hp
    simp only [withProbe, killAll, Cpt.mapSrc, div, List.map_cons, List.map_nil, List.cons_append, List.nil_append,
      List.mem_cons, List.mem_nil_iff, or_false] at hc
    rcases hc with rfl | rfl | rfl | rfl <;>
      simp only [laws, List.mem_cons, List.mem_nil_iff, or_false] at hp <;>
      (try subst hp) <;> norm_num [vd, volt, xu] <;> (try simp_all)

theorem solves_xu : Solves .lap 1 (withProbe (killAll div) 2 0 1) xu :=
  (C01.mna_iff_laws _ _ _ _ (by simp [C01.WF, withProbe, killAll, Cpt.mapSrc, div, owned])).mpr laws_xu

/-- `port_affine` applied: x0 + 3·xu solves the divider with 3 A injected -/
theorem nv_port_affine : Solves .lap 1 (withProbe div 2 0 3) (fun i => x0 i + 3 * xu i) :=
  port_affine .lap 1 div 2 0 x0 xu 3 solves_x0 solves_xu

/-- the probed divider is non-singular: V(1), V(2), J(V1) are forced to 0 by the homogeneous system and
    they are exactly its unknowns -/
theorem nonsingular_probe (J : ℚ) : C01.Nonsingular .lap 1 (withProbe div 2 0 J) := by
  intro z hz i hi
  have h1 := hz (node 1) (by simp)
  have h2 := hz (node 2) (by simp)
  have h3 := hz (br 0) (by simp)
  simp [withProbe, div, stampAll, stamp, Stamp.append, branchPattern, admPattern, lhsSum, ground] at h1 h2 h3
  obtain ⟨hi0, hi⟩ := hi
  simp [C01.unknowns, withProbe, div, stampAll, stamp, Stamp.append, branchPattern, admPattern] at hi
  have e1 : z (node 1) = 0 := h3
  have e2 : z (node 2) = 0 := by rw [e1] at h2; linarith
  have e3 : z (br 0) = 0 := by rw [e1, e2] at h1; linarith
  rcases hi with h | h | h | h | h | h | h | h | h | h | h | h | h | h | h | h <;> subst h <;>
    first | assumption | exact absurd rfl hi0

/-- `port_affine_unique` applied with z := the explicit solution for J = 3 (V(2) = 10/3 + 3·2 = 28/3) -/
def z3 : Ix → ℚ := fun i => match i with | node 1 => 5 | node 2 => 28/3 | br 0 => 13/9 | _ => 0

theorem laws_z3 : Laws .lap 1 (withProbe div 2 0 3) z3 := by
  constructor
  · intro k hk
    match k with
    | 0 => exact absurd rfl hk
    | 1 => norm_num [withProbe, div, z3, outflow, twoTerm, lsum, vd, volt]
    | 2 => norm_num [withProbe, div, z3, outflow, twoTerm, lsum, vd, volt]
    | (k + 3) => simp [withProbe, div, outflow, twoTerm, lsum]
  · intro c hc p hp
    simp only [withProbe, div, List.cons_append, List.nil_append, List.mem_cons, List.mem_nil_iff, or_false] at hc
    rcases hc with rfl | rfl | rfl | rfl <;>
      simp only [laws, List.mem_cons, List.mem_nil_iff, or_false] at hp <;>
      (try subst hp) <;> norm_num [vd, volt, z3] <;> (try simp_all)

theorem nv_port_affine_unique : vd z3 2 0 = vd x0 2 0 + 3 * vd xu 2 0 :=
  port_affine_unique .lap 1 div 2 0 x0 xu z3 3 solves_x0 solves_xu
    ((C01.mna_iff_laws _ _ _ _ (wf_probe 3)).mpr laws_z3) (nonsingular_probe 3)

example : vd x0 2 0 = 10/3 ∧ vd xu 2 0 = 2 ∧ vd z3 2 0 = 28/3 := by norm_num [vd, volt, x0, xu, z3]

/-! ### the two models (C04.lean) -/

/-- Thevenin model of the divider (Voc = 10/3, Zth = 2) with 3 A injected: V(1) = 28/3 -/
def xt : Ix → ℚ := fun i => match i with | node 1 => 28/3 | node 2 => 10/3 | br 0 => 3 | _ => 0

theorem laws_xt : Laws .lap 1 [.V 2 0 0 (10/3), .Y 1 2 (1 / 2), .I 1 0 3] xt := by
  constructor
  · intro k hk
    match k with
    | 0 => exact absurd rfl hk
    | 1 => norm_num [xt, outflow, twoTerm, lsum, vd, volt]
    | 2 => norm_num [xt, outflow, twoTerm, lsum, vd, volt]
    | (k + 3) => simp [outflow, twoTerm, lsum]
  · intro c hc p hp
    simp only [List.mem_cons, List.mem_nil_iff, or_false] at hc
    rcases hc with rfl | rfl | rfl <;>
      simp only [laws, List.mem_cons, List.mem_nil_iff, or_false] at hp <;>
      (try subst hp) <;> norm_num [vd, volt, xt] <;> (try simp_all)

/-- Norton model (Isc = 5/3, Yn = 1/2) with 3 A injected: V(1) = 28/3 -/
def xn : Ix → ℚ := fun i => match i with | node 1 => 28/3 | _ => 0

theorem laws_xn : Laws .lap 1 [.I 1 0 ((10/3) / 2), .Y 1 0 (1 / 2), .I 1 0 3] xn := by
  constructor
  · intro k hk
    match k with
    | 0 => exact absurd rfl hk
    | 1 => norm_num [xn, outflow, twoTerm, lsum, vd, volt]
    | (k + 2) => simp [outflow, twoTerm, lsum]
  · intro c hc p hp
    simp only [List.mem_cons, List.mem_nil_iff, or_false] at hc
    rcases hc with rfl | rfl | rfl <;> simp [laws] at hp

theorem nv_thevenin_port : vd xt 1 0 = 10/3 + 2 * 3 :=
  thevenin_port .lap 1 (10/3) 2 3 (by norm_num) xt laws_xt

theorem nv_norton_port : vd xn 1 0 = ((10/3) / 2 + 3) / (1 / 2) :=
  norton_port .lap 1 ((10/3) / 2) (1 / 2) 3 (by norm_num) xn laws_xn

theorem nv_load_invariance : vd xt 1 0 = 10/3 + 2 * 3 ∧ vd xn 1 0 = 10/3 + 2 * 3 :=
  load_invariance .lap 1 (10/3) 2 3 (by norm_num) xt xn laws_xt laws_xn

/-- `thevenin_norton_equiv` / `voc_isc_z` are satisfiable (Zth = 2) — but they are identities of the field ℚ in which
    "Isc" and "Yn" are DEFINED as Voc/Zth and 1/Zth; no circuit occurs in them (see the report). -/
example : ((28/3 : ℚ) = 10/3 - 2 * (-3)) ↔ ((-3 : ℚ) = (10/3) / 2 - (1 / 2) * (28/3)) :=
  thevenin_norton_equiv (10/3) 2 (28/3) (-3) (by norm_num)
example : (10/3 : ℚ) = ((10/3) / 2) * 2 ∧ (2 : ℚ) * (1 / 2) = 1 := voc_isc_z (10/3) 2 (by norm_num)

/-- the hypothesis `Zth ≠ 0` of `thevenin_port` is needed BECAUSE of the model chosen for the series element
    (`.Y 1 2 (1/Zth)`, an open circuit for Zth = 0 by `1/0 = 0`): for a port across an ideal source (Zth = 0, which Lcapy
    accepts for `thevenin`) that netlist has no solution with J ≠ 0, so the Thevenin theorem is not stated for it. -/
example (x : Ix → ℚ) : ¬ Laws .lap 1 [.V 2 0 0 (10/3), .Y 1 2 (1 / 0), .I 1 0 3] x := by
  rintro ⟨hk, _⟩
  have k1 := hk 1 (by decide)
  norm_num [outflow, twoTerm, lsum] at k1

/-! ### ground independence (C04Ground.lean) -/

theorem gf_div : ∀ c ∈ withProbe div 2 0 0, c.GroundFree := by simp [withProbe, div, Cpt.GroundFree]

/-- `reground_laws` applied: the divider re-grounded at its output node 2 (`V1 1 2 5; R1 1 0 3; R2 0 2 6` after the
    renaming 0 ↔ 2) is solved by the shifted assignment -/
theorem nv_reground_laws : Laws .lap 1 (reground 2 (withProbe div 2 0 0)) (regroundSol 2 x0) :=
  reground_laws .lap 1 2 _ x0 gf_div laws_x0

example : reground 2 (withProbe div 2 0 0) = [.V 1 2 0 5, .R 1 0 3, .R 0 2 6, .I 0 2 0] := by
  simp [reground, withProbe, div, Cpt.mapNodes, swap0]

example : regroundSol 2 x0 (node 1) = 5/3 ∧ regroundSol 2 x0 (node 2) = -(10/3) ∧ regroundSol 2 x0 (br 0) = -5/9 := by
  norm_num [regroundSol, swap0, volt, x0]

theorem nv_reground_laws_iff :
    Laws .lap 1 (withProbe div 2 0 0) x0 ↔ Laws .lap 1 (reground 2 (withProbe div 2 0 0)) (regroundSol 2 x0) :=
  reground_laws_iff .lap 1 2 _ x0 gf_div

/-- `Measures` is satisfiable: the driving-point impedance of the divider at (2, 0) is 2 (= 3 ∥ 6): the probed circuit
    has a solution and EVERY solution reads 2 -/
theorem measures_impedance : Measures .lap 1 (impedanceExp div 2 0) (2 : ℚ) := by
  refine ⟨⟨xu, laws_xu⟩, ?_⟩
  rintro x ⟨hk, hl⟩
  have k1 := hk 1 (by decide)
  have k2 := hk 2 (by decide)
  simp [impedanceExp, zProbe, killAll, Cpt.mapSrc, div, laws, outflow, twoTerm, lsum, vd, volt, Obs.read] at k1 k2 hl ⊢
  linarith

theorem nv_impedance_ground_independent :
    Measures .lap 1 (impedanceExp (reground 2 div) (swap0 2 2) (swap0 2 0)) (2 : ℚ) :=
  (impedance_ground_independent .lap 1 2 div 2 0 2 (by simp [div, Cpt.GroundFree])).mp measures_impedance

theorem nv_measure_ground_independent : Measures .lap 1 ((impedanceExp div 2 0).reground 1) (2 : ℚ) :=
  (measure_ground_independent .lap 1 1 _ 2
    (by simp [impedanceExp, zProbe, killAll, Cpt.mapSrc, div, Cpt.GroundFree])).mp measures_impedance

/-- admittance of the divider at (2, 0) with the test source on the fresh branch 1: Y = 1/2 -/
def xa : Ix → ℚ := fun i => match i with | node 1 => 0 | node 2 => 1 | br 0 => 1/3 | br 1 => -1/2 | _ => 0

theorem measures_admittance : Measures .lap 1 (admittanceExp div 2 0 1) (1/2 : ℚ) := by
  refine ⟨⟨xa, ?_⟩, ?_⟩
  · constructor
    · intro k hk
      match k with
      | 0 => exact absurd rfl hk
      | 1 => norm_num [admittanceExp, killAll, Cpt.mapSrc, div, xa, outflow, twoTerm, lsum, vd, volt]
      | 2 => norm_num [admittanceExp, killAll, Cpt.mapSrc, div, xa, outflow, twoTerm, lsum, vd, volt]
      | (k + 3) => simp [admittanceExp, killAll, Cpt.mapSrc, div, outflow, twoTerm, lsum]
    · norm_num [admittanceExp, killAll, Cpt.mapSrc, div, laws, vd, volt, xa]
  · rintro x ⟨hk, hl⟩
    have k1 := hk 1 (by decide)
    have k2 := hk 2 (by decide)
    simp [admittanceExp, killAll, Cpt.mapSrc, div, laws, outflow, twoTerm, lsum, vd, volt, Obs.read] at k1 k2 hl ⊢
    linarith

theorem nv_admittance_ground_independent :
    Measures .lap 1 (admittanceExp (reground 2 div) (swap0 2 2) (swap0 2 0) 1) (1/2 : ℚ) :=
  (admittance_ground_independent .lap 1 2 div 2 0 1 (1/2) (by simp [div, Cpt.GroundFree])).mp measures_admittance

/-- voltage transfer of the divider from (1, 0) to (2, 0): the source V1 across the input pair is removed, H = 2/3 -/
def xh : Ix → ℚ := fun i => match i with | node 1 => 1 | node 2 => 2/3 | br 1 => -1/9 | _ => 0

theorem measures_transfer : Measures .lap 1 (transferExp div 1 0 2 0 1) (2/3 : ℚ) := by
  refine ⟨⟨xh, ?_⟩, ?_⟩
  · constructor
    · intro k hk
      match k with
      | 0 => exact absurd rfl hk
      | 1 => norm_num [transferExp, vProbe, Cpt.isVAcross, killAll, Cpt.mapSrc, div, xh, outflow, twoTerm, lsum, vd, volt]
      | 2 => norm_num [transferExp, vProbe, Cpt.isVAcross, killAll, Cpt.mapSrc, div, xh, outflow, twoTerm, lsum, vd, volt]
      | (k + 3) => simp [transferExp, vProbe, Cpt.isVAcross, killAll, Cpt.mapSrc, div, outflow, twoTerm, lsum]
    · norm_num [transferExp, vProbe, Cpt.isVAcross, killAll, Cpt.mapSrc, div, laws, vd, volt, xh]
  · rintro x ⟨hk, hl⟩
    have k2 := hk 2 (by decide)
    simp [transferExp, vProbe, Cpt.isVAcross, killAll, Cpt.mapSrc, div, laws, outflow, twoTerm, lsum, vd, volt,
      Obs.read] at k2 hl ⊢
    linarith

theorem nv_transfer_ground_independent :
    Measures .lap 1 (transferExp (reground 2 div) (swap0 2 1) (swap0 2 0) (swap0 2 2) (swap0 2 0) 1) (2/3 : ℚ) :=
  (transfer_ground_independent .lap 1 2 div 1 0 2 0 1 (2/3) (by simp [div, Cpt.GroundFree])).mp measures_transfer

/-- the T network `R1 1 3 1; R2 3 2 2; R3 3 0 3` of C04Ops.lean, ports (1, 0) and (2, 0): transimpedance Z21 = 3 -/
theorem measures_transimpedance : Measures .lap 1 (transimpedanceExp exT 1 0 2 0) (3 : ℚ) := by
  refine ⟨⟨exTx1, ?_⟩, ?_⟩
  · constructor
    · intro k hk
      match k with
      | 0 => exact absurd rfl hk
      | 1 => norm_num [transimpedanceExp, zProbe, killAll, Cpt.mapSrc, exT, exTx1, outflow, twoTerm, lsum, vd, volt]
      | 2 => norm_num [transimpedanceExp, zProbe, killAll, Cpt.mapSrc, exT, exTx1, outflow, twoTerm, lsum, vd, volt]
      | 3 => norm_num [transimpedanceExp, zProbe, killAll, Cpt.mapSrc, exT, exTx1, outflow, twoTerm, lsum, vd, volt]
      | (k + 4) => simp [transimpedanceExp, zProbe, killAll, Cpt.mapSrc, exT, outflow, twoTerm, lsum]
    · simp [transimpedanceExp, zProbe, killAll, Cpt.mapSrc, exT, laws]
  · rintro x ⟨hk, _⟩
    have k1 := hk 1 (by decide)
    have k2 := hk 2 (by decide)
    have k3 := hk 3 (by decide)
    simp [transimpedanceExp, zProbe, killAll, Cpt.mapSrc, exT, outflow, twoTerm, lsum, vd, volt, Obs.read] at k1 k2 k3 ⊢
    linarith

/-- re-grounded at the INTERIOR node 3: both ports become floating -/
theorem nv_transimpedance_ground_independent :
    Measures .lap 1 (transimpedanceExp (reground 3 exT) (swap0 3 1) (swap0 3 0) (swap0 3 2) (swap0 3 0)) (3 : ℚ) :=
  (transimpedance_ground_independent .lap 1 3 exT 1 0 2 0 3 (by simp [exT, Cpt.GroundFree])).mp measures_transimpedance

/-- current gain of the T network (port 2 shorted by `Vshort_` on branch 0): I2/I1 = −3/5 -/
def xg : Ix → ℚ := fun i => match i with | node 1 => 11/5 | node 2 => 0 | node 3 => 6/5 | br 0 => 3/5 | _ => 0

theorem measures_current_gain : Measures .lap 1 (currentGainExp exT 1 0 2 0 0) (-(3/5) : ℚ) := by
  refine ⟨⟨xg, ?_⟩, ?_⟩
  · constructor
    · intro k hk
      match k with
      | 0 => exact absurd rfl hk
      | 1 => norm_num [currentGainExp, zProbe, killAll, Cpt.mapSrc, exT, xg, outflow, twoTerm, lsum, vd, volt]
      | 2 => norm_num [currentGainExp, zProbe, killAll, Cpt.mapSrc, exT, xg, outflow, twoTerm, lsum, vd, volt]
      | 3 => norm_num [currentGainExp, zProbe, killAll, Cpt.mapSrc, exT, xg, outflow, twoTerm, lsum, vd, volt]
      | (k + 4) => simp [currentGainExp, zProbe, killAll, Cpt.mapSrc, exT, outflow, twoTerm, lsum]
    · norm_num [currentGainExp, zProbe, killAll, Cpt.mapSrc, exT, laws, vd, volt, xg]
  · rintro x ⟨hk, hl⟩
    have k1 := hk 1 (by decide)
    have k2 := hk 2 (by decide)
    have k3 := hk 3 (by decide)
    simp [currentGainExp, zProbe, killAll, Cpt.mapSrc, exT, laws, outflow, twoTerm, lsum, vd, volt, Obs.read]
      at k1 k2 k3 hl ⊢
    linarith

theorem nv_current_gain_ground_independent :
    Measures .lap 1 (currentGainExp (reground 3 exT) (swap0 3 1) (swap0 3 0) (swap0 3 2) (swap0 3 0) 0) (-(3/5) : ℚ) :=
  (current_gain_ground_independent .lap 1 3 exT 1 0 2 0 0 _ (by simp [exT, Cpt.GroundFree])).mp measures_current_gain

/-- transadmittance of the T network (1 V on branch 0 at port 1, port 2 shorted on branch 1): Y21 = −3/11 -/
def xy1 : Ix → ℚ := fun i => match i with
  | node 1 => 1 | node 2 => 0 | node 3 => 6/11 | br 0 => -5/11 | br 1 => 3/11 | _ => 0

theorem measures_transadmittance : Measures .lap 1 (transadmittanceExp exT 1 0 2 0 0 1) (-(3/11) : ℚ) := by
  refine ⟨⟨xy1, ?_⟩, ?_⟩
  · constructor
    · intro k hk
      match k with
      | 0 => exact absurd rfl hk
      | 1 => norm_num [transadmittanceExp, vProbe, Cpt.isVAcross, killAll, Cpt.mapSrc, exT, xy1, outflow, twoTerm, lsum, vd, volt]
      | 2 => norm_num [transadmittanceExp, vProbe, Cpt.isVAcross, killAll, Cpt.mapSrc, exT, xy1, outflow, twoTerm, lsum, vd, volt]
      | 3 => norm_num [transadmittanceExp, vProbe, Cpt.isVAcross, killAll, Cpt.mapSrc, exT, xy1, outflow, twoTerm, lsum, vd, volt]
      | (k + 4) => simp [transadmittanceExp, vProbe, Cpt.isVAcross, killAll, Cpt.mapSrc, exT, outflow, twoTerm, lsum]
    · norm_num [transadmittanceExp, vProbe, Cpt.isVAcross, killAll, Cpt.mapSrc, exT, laws, vd, volt, xy1]
  · rintro x ⟨hk, hl⟩
    have k2 := hk 2 (by decide)
    have k3 := hk 3 (by decide)
    simp [transadmittanceExp, vProbe, Cpt.isVAcross, killAll, Cpt.mapSrc, exT, laws, outflow, twoTerm, lsum, vd, volt,
      Obs.read] at k2 k3 hl ⊢
    linarith

theorem nv_transadmittance_ground_independent :
    Measures .lap 1
      (transadmittanceExp (reground 3 exT) (swap0 3 1) (swap0 3 0) (swap0 3 2) (swap0 3 0) 0 1) (-(3/11) : ℚ) :=
  (transadmittance_ground_independent .lap 1 3 exT 1 0 2 0 0 1 _ (by simp [exT, Cpt.GroundFree])).mp
    measures_transadmittance

/-- `measure_ground_independent` and its seven corollaries have NO solvability hypothesis: for a probed circuit
    without a solution (1 A forced into the dangling node 7 of the divider) `Measures` is false for every value on both
    sides and the equivalence says nothing. -/
example (q : ℚ) : ¬ Measures .lap 1 (impedanceExp div 7 0) q := by
  rintro ⟨⟨x, hk, _⟩, _⟩
  have k7 := hk 7 (by decide)
  norm_num [impedanceExp, zProbe, killAll, Cpt.mapSrc, div, outflow, twoTerm, lsum] at k7

/-! ### arbitrary loads (C04Load.lean): the divider loaded by the series RC `R3 2 3 1; C1 3 0 2` (interior node 3) -/

def rc : List (Cpt ℚ) := [.R 2 3 1, .Cap 3 0 2 none]
/-- V(1) = 5, V(2) = 10/7, V(3) = 10/21, source current −25/21 (s = 1: the capacitor has admittance 2) -/
def zl : Ix → ℚ := fun i => match i with | node 1 => 5 | node 2 => 10/7 | node 3 => 10/21 | br 0 => -25/21 | _ => 0

theorem laws_zl : Laws .lap 1 (div ++ rc) zl := by
  constructor
  · intro k hk
    match k with
    | 0 => exact absurd rfl hk
    | 1 => norm_num [div, rc, zl, outflow, twoTerm, lsum, vd, volt, capCurrent]
    | 2 => norm_num [div, rc, zl, outflow, twoTerm, lsum, vd, volt, capCurrent]
    | 3 => norm_num [div, rc, zl, outflow, twoTerm, lsum, vd, volt, capCurrent]
    | (k + 4) => simp [div, rc, outflow, twoTerm, lsum]
  · norm_num [div, rc, laws, vd, volt, zl]

theorem sep_rc : ∀ c ∈ rc, ∀ n ∈ nodesOf c, n = 2 ∨ n = 0 ∨ ∀ c' ∈ div, ∀ n' ∈ nodesOf c', n' ≠ n := by
  simp [rc, div, nodesOf]

/-- the load delivers −20/21 A into node 2 (it draws 20/21 A) -/
theorem kcl_rc : kclAt .lap 1 rc zl 2 = 20/21 := by
  norm_num [kclAt, rc, zl, outflow, twoTerm, lsum, vd, volt, capCurrent]

theorem nv_load_substitution : Laws .lap 1 (div ++ [.I 2 0 (-(kclAt .lap 1 rc zl 2))]) zl :=
  load_substitution .lap 1 div rc 2 0 zl (by decide) sep_rc laws_zl

/-- `thevenin_any_load` applied: 10/7 = 10/3 + (−20/21)·2 -/
theorem nv_thevenin_any_load : vd zl 2 0 = vd x0 2 0 + -(kclAt .lap 1 rc zl 2) * vd xu 2 0 :=
  thevenin_any_load .lap 1 div rc 2 0 zl x0 xu (by decide) wf_div sep_rc laws_zl solves_x0 solves_xu
    (nonsingular_probe _)

example : vd zl 2 0 = 10/7 ∧ vd x0 2 0 + -(kclAt .lap 1 rc zl 2) * vd xu 2 0 = 10/7 := by
  rw [kcl_rc]; norm_num [vd, volt, zl, x0, xu]

/-- the SHORT CIRCUIT `Vshort_ 2 0` (branch 1) as the load: the measured short-circuit current 5/3 satisfies
    0 = Voc − Isc·Zth.  This is the statement "Voc = Isc·Zth" for the MEASURED Isc, which no theorem of Props/C04*.lean
    states (`thevenin_norton_equiv` / `voc_isc_z` define Isc as Voc/Zth); it follows from `thevenin_any_load`. -/
def short : List (Cpt ℚ) := [.V 2 0 1 0]
def zs : Ix → ℚ := fun i => match i with | node 1 => 5 | node 2 => 0 | br 0 => -5/3 | br 1 => 5/3 | _ => 0

theorem laws_zs : Laws .lap 1 (div ++ short) zs := by
  constructor
  · intro k hk
    match k with
    | 0 => exact absurd rfl hk
    | 1 => norm_num [div, short, zs, outflow, twoTerm, lsum, vd, volt]
    | 2 => norm_num [div, short, zs, outflow, twoTerm, lsum, vd, volt]
    | (k + 3) => simp [div, short, outflow, twoTerm, lsum]
  · norm_num [div, short, laws, vd, volt, zs]

theorem nv_isc_from_any_load : (0 : ℚ) = vd x0 2 0 + -(zs (br 1)) * vd xu 2 0 := by
  have h := thevenin_any_load .lap 1 div short 2 0 zs x0 xu (by decide) wf_div (by simp [short, div, nodesOf]) laws_zs
    solves_x0 solves_xu (nonsingular_probe _)
  have e : kclAt .lap 1 short zs 2 = zs (br 1) := by simp [kclAt, short, outflow, twoTerm, lsum]
  have v : vd zs 2 0 = 0 := by norm_num [vd, volt, zs]
  rw [e, v] at h
  exact h

/-- `model_any_load`: the same RC load (now `R3 1 3 1; C1 3 0 2`) on the Thevenin and on the Norton model -/
def rc1 : List (Cpt ℚ) := [.R 1 3 1, .Cap 3 0 2 none]
def zt : Ix → ℚ := fun i => match i with | node 1 => 10/7 | node 2 => 10/3 | node 3 => 10/21 | br 0 => -20/21 | _ => 0
def zn : Ix → ℚ := fun i => match i with | node 1 => 10/7 | node 3 => 10/21 | _ => 0

theorem laws_zt : Laws .lap 1 ([.V 2 0 0 (10/3), .Y 1 2 (1 / 2)] ++ rc1) zt := by
  constructor
  · intro k hk
    match k with
    | 0 => exact absurd rfl hk
    | 1 => norm_num [rc1, zt, outflow, twoTerm, lsum, vd, volt, capCurrent]
    | 2 => norm_num [rc1, zt, outflow, twoTerm, lsum, vd, volt, capCurrent]
    | 3 => norm_num [rc1, zt, outflow, twoTerm, lsum, vd, volt, capCurrent]
    | (k + 4) => simp [rc1, outflow, twoTerm, lsum]
  · norm_num [rc1, laws, vd, volt, zt]

theorem laws_zn : Laws .lap 1 ([.I 1 0 ((10/3) / 2), .Y 1 0 (1 / 2)] ++ rc1) zn := by
  constructor
  · intro k hk
    match k with
    | 0 => exact absurd rfl hk
    | 1 => norm_num [rc1, zn, outflow, twoTerm, lsum, vd, volt, capCurrent]
    | 2 => norm_num [rc1, zn, outflow, twoTerm, lsum, vd, volt, capCurrent]
    | 3 => norm_num [rc1, zn, outflow, twoTerm, lsum, vd, volt, capCurrent]
    | (k + 4) => simp [rc1, outflow, twoTerm, lsum]
  · norm_num [rc1, laws, vd, volt, zn]

theorem nv_model_any_load :
    vd zt 1 0 = 10/3 + 2 * -(kclAt .lap 1 rc1 zt 1) ∧ vd zn 1 0 = 10/3 + 2 * -(kclAt .lap 1 rc1 zn 1) :=
  model_any_load .lap 1 (10/3) 2 (by norm_num) rc1 zt zn (by simp [rc1, nodesOf]) (by simp [rc1, nodesOf])
    laws_zt laws_zn

/-- original, Thevenin model and Norton model: same load voltage 10/7 and same load current 20/21 -/
example : vd zl 2 0 = 10/7 ∧ vd zt 1 0 = 10/7 ∧ vd zn 1 0 = 10/7 ∧
    kclAt .lap 1 rc zl 2 = 20/21 ∧ kclAt .lap 1 rc1 zt 1 = 20/21 ∧ kclAt .lap 1 rc1 zn 1 = 20/21 := by
  norm_num [kclAt, rc, rc1, zl, zt, zn, outflow, twoTerm, lsum, vd, volt, capCurrent]

/-! ### C04Ops.lean -/

/-- `V1 1 0 5; R1 1 2 3; C1 2 0 2 4` (capacitor charged to 4 V), initial-value analysis at s = 1 -/
def rcic : List (Cpt ℚ) := [.V 1 0 0 5, .R 1 2 3, .Cap 2 0 2 (some 4)]

/-- hypothesis of `killed_ivp_is_lap` on a realistic probed circuit (through `probed_killed_ok`) -/
theorem nv_probed_killed_ok : ∀ c ∈ killAll rcic ++ [Cpt.I 2 0 1], ∀ v ∈ c.killSrcs.indep, v = 0 :=
  probed_killed_ok rcic [.I 2 0 1] (by simp)

theorem nv_killed_ivp_is_lap (x : Ix → ℚ) :
    Laws .ivp 1 (killAll rcic ++ [Cpt.I 2 0 1]) x ↔ Laws .lap 1 (killAll rcic ++ [Cpt.I 2 0 1]) x :=
  killed_ivp_is_lap 1 _ x nv_probed_killed_ok

/-- … and the hypothesis is not satisfied by the un-killed netlist (its capacitor carries 4 V) -/
example : ¬ ∀ c ∈ rcic, ∀ v ∈ c.killSrcs.indep, v = 0 := by
  intro h
  have := h (.Cap 2 0 2 (some 4)) (by simp [rcic]) 4 (by simp [Cpt.killSrcs, Cpt.indep])
  norm_num at this

/-- response to the source alone (IC zeroed): V(2) = 5/7;  response to the IC alone (source killed): V(2) = 24/7 -/
def xsrc : Ix → ℚ := fun i => match i with | node 1 => 5 | node 2 => 5/7 | br 0 => -10/7 | _ => 0
def xic : Ix → ℚ := fun i => match i with | node 1 => 0 | node 2 => 24/7 | br 0 => 8/7 | _ => 0

theorem solves_xsrc : Solves .ivp 1 (rcic.map Cpt.killICs) xsrc := by
  rw [C01.mna_iff_laws _ _ _ _ (by simp [C01.WF, rcic, Cpt.killICs, owned])]
  constructor
  · intro k hk
    match k with
    | 0 => exact absurd rfl hk
    | 1 => norm_num [rcic, Cpt.killICs, xsrc, outflow, twoTerm, lsum, vd, volt, capCurrent]
    | 2 => norm_num [rcic, Cpt.killICs, xsrc, outflow, twoTerm, lsum, vd, volt, capCurrent]
    | (k + 3) => simp [rcic, Cpt.killICs, outflow, twoTerm, lsum]
  · norm_num [rcic, Cpt.killICs, laws, vd, volt, xsrc]

theorem solves_xic : Solves .ivp 1 (rcic.map Cpt.killSrcs) xic := by
  rw [C01.mna_iff_laws _ _ _ _ (by simp [C01.WF, rcic, Cpt.killSrcs, owned])]
  constructor
  · intro k hk
    match k with
    | 0 => exact absurd rfl hk
    | 1 => norm_num [rcic, Cpt.killSrcs, xic, outflow, twoTerm, lsum, vd, volt, capCurrent]
    | 2 => norm_num [rcic, Cpt.killSrcs, xic, outflow, twoTerm, lsum, vd, volt, capCurrent]
    | (k + 3) => simp [rcic, Cpt.killSrcs, outflow, twoTerm, lsum]
  · norm_num [rcic, Cpt.killSrcs, laws, vd, volt, xic]

theorem nv_voc_keeps_ics :
    Solves .ivp 1 rcic (fun i => xsrc i + xic i) ∧
      vd (fun i => xsrc i + xic i) 2 0 = vd xsrc 2 0 + vd xic 2 0 :=
  voc_keeps_ics .ivp 1 rcic xsrc xic 2 0 solves_xsrc solves_xic

example : vd xsrc 2 0 + vd xic 2 0 = 29/7 := by norm_num [vd, volt, xsrc, xic]

/-- `ic_is_a_source`: an isolated 2 F capacitor charged to 4 V, s = 1 -/
def xc : Ix → ℚ := fun i => match i with | node 1 => 4 | _ => 0

theorem laws_xc : Laws .ivp 1 [.Cap 1 0 2 (some 4)] xc := by
  constructor
  · intro k hk
    match k with
    | 0 => exact absurd rfl hk
    | 1 => norm_num [xc, outflow, twoTerm, lsum, vd, volt, capCurrent]
    | (k + 2) => simp [outflow, twoTerm, lsum]
  · simp [laws]

theorem nv_ic_is_a_source : vd xc 1 0 = 4 / 1 := ic_is_a_source 1 2 4 (by norm_num) (by norm_num) xc laws_xc

/-! two-port extraction on the T network `exT` of C04Ops.lean, ports (1, 0), (2, 0) -/

theorem wf_zdrive (i1 i2 : ℚ) : C01.WF (zDrive exT 1 0 2 0 i1 i2) := by
  simp [C01.WF, zDrive, killAll, exT, owned, Cpt.mapSrc]

theorem solves_tx1 : Solves .lap 1 (zDrive exT 1 0 2 0 1 0) exTx1 := by
  rw [C01.mna_iff_laws _ _ _ _ (wf_zdrive 1 0)]
  constructor
  · intro k hk
    match k with
    | 0 => exact absurd rfl hk
    | 1 => norm_num [zDrive, killAll, exT, Cpt.mapSrc, exTx1, outflow, twoTerm, lsum, vd, volt]
    | 2 => norm_num [zDrive, killAll, exT, Cpt.mapSrc, exTx1, outflow, twoTerm, lsum, vd, volt]
    | 3 => norm_num [zDrive, killAll, exT, Cpt.mapSrc, exTx1, outflow, twoTerm, lsum, vd, volt]
    | (k + 4) => simp [zDrive, killAll, exT, Cpt.mapSrc, outflow, twoTerm, lsum]
  · simp [zDrive, killAll, exT, Cpt.mapSrc, laws]

theorem solves_tx2 : Solves .lap 1 (zDrive exT 1 0 2 0 0 1) exTx2 := by
  rw [C01.mna_iff_laws _ _ _ _ (wf_zdrive 0 1)]
  constructor
  · intro k hk
    match k with
    | 0 => exact absurd rfl hk
    | 1 => norm_num [zDrive, killAll, exT, Cpt.mapSrc, exTx2, outflow, twoTerm, lsum, vd, volt]
    | 2 => norm_num [zDrive, killAll, exT, Cpt.mapSrc, exTx2, outflow, twoTerm, lsum, vd, volt]
    | 3 => norm_num [zDrive, killAll, exT, Cpt.mapSrc, exTx2, outflow, twoTerm, lsum, vd, volt]
    | (k + 4) => simp [zDrive, killAll, exT, Cpt.mapSrc, outflow, twoTerm, lsum]
  · simp [zDrive, killAll, exT, Cpt.mapSrc, laws]

theorem nv_zDrive_linear : Solves .lap 1 (zDrive exT 1 0 2 0 1 2) (fun i => 1 * exTx1 i + 2 * exTx2 i) :=
  zDrive_linear .lap 1 exT 1 0 2 0 exTx1 exTx2 1 2 solves_tx1 solves_tx2

theorem nv_zparams_rel : ∃ x, Solves .lap 1 (zDrive exT 1 0 2 0 1 2) x ∧
    Spec.rel .Z (zMatrix exTx1 exTx2 1 0 2 0) 0 ⟨vd x 1 0, 1, vd x 2 0, 2⟩ :=
  zparams_rel .lap 1 exT 1 0 2 0 exTx1 exTx2 1 2 solves_tx1 solves_tx2

theorem nonsingular_zdrive (i1 i2 : ℚ) : C01.Nonsingular .lap 1 (zDrive exT 1 0 2 0 i1 i2) := by
  intro z hz i hi
  have h1 := hz (node 1) (by simp)
  have h2 := hz (node 2) (by simp)
  have h3 := hz (node 3) (by simp)
  simp [zDrive, killAll, exT, Cpt.mapSrc, stampAll, stamp, Stamp.append, admPattern, lhsSum, ground] at h1 h2 h3
  obtain ⟨hi0, hi⟩ := hi
  simp [C01.unknowns, zDrive, killAll, exT, Cpt.mapSrc, stampAll, stamp, Stamp.append, admPattern] at hi
  have e3 : z (node 3) = 0 := by linarith
  have e1 : z (node 1) = 0 := by rw [e3] at h1; linarith
  have e2 : z (node 2) = 0 := by rw [e3] at h2; linarith
  rcases hi with h | h | h | h | h | h | h | h | h | h | h | h | h | h | h <;> subst h <;>
    first | assumption | exact absurd rfl hi0

/-- the explicit response to (I1, I2) = (1, 2): V(1) = 10, V(2) = 13, V(3) = 9 -/
def tz : Ix → ℚ := fun i => match i with | node 1 => 10 | node 2 => 13 | node 3 => 9 | _ => 0

theorem solves_tz : Solves .lap 1 (zDrive exT 1 0 2 0 1 2) tz := by
  rw [C01.mna_iff_laws _ _ _ _ (wf_zdrive 1 2)]
  constructor
  · intro k hk
    match k with
    | 0 => exact absurd rfl hk
    | 1 => norm_num [zDrive, killAll, exT, Cpt.mapSrc, tz, outflow, twoTerm, lsum, vd, volt]
    | 2 => norm_num [zDrive, killAll, exT, Cpt.mapSrc, tz, outflow, twoTerm, lsum, vd, volt]
    | 3 => norm_num [zDrive, killAll, exT, Cpt.mapSrc, tz, outflow, twoTerm, lsum, vd, volt]
    | (k + 4) => simp [zDrive, killAll, exT, Cpt.mapSrc, outflow, twoTerm, lsum]
  · simp [zDrive, killAll, exT, Cpt.mapSrc, laws]

theorem nv_zparams_rel_unique :
    Spec.rel .Z (zMatrix exTx1 exTx2 1 0 2 0) 0 ⟨vd tz 1 0, 1, vd tz 2 0, 2⟩ :=
  zparams_rel_unique .lap 1 exT 1 0 2 0 exTx1 exTx2 tz 1 2 solves_tx1 solves_tx2 solves_tz (nonsingular_zdrive 1 2)

/-- `zparams_convert` on the extracted Z = [[4, 3], [3, 5]] and the port quantities above; all four pivot conditions
    hold, so all four conclusions are obtained -/
theorem nv_zparams_convert :
    Spec.rel .Y (Gen.Z_to_Y ⟨4, 3, 3, 5⟩ 0) 0 (⟨10, 1, 13, 2⟩ : Spec.Port ℚ) ∧
    Spec.rel .H (Gen.Z_to_H ⟨4, 3, 3, 5⟩ 0) 0 (⟨10, 1, 13, 2⟩ : Spec.Port ℚ) ∧
    Spec.rel .A (Gen.Z_to_A ⟨4, 3, 3, 5⟩ 0) 0 (⟨10, 1, 13, 2⟩ : Spec.Port ℚ) ∧
    Spec.rel .B (Gen.Z_to_B ⟨4, 3, 3, 5⟩ 0) 0 (⟨10, 1, 13, 2⟩ : Spec.Port ℚ) := by
  have h := zparams_convert (⟨4, 3, 3, 5⟩ : M2 ℚ) ⟨10, 1, 13, 2⟩ (by norm_num [Spec.rel, Spec.lin])
  exact ⟨h.1 (by norm_num [M2.det]), h.2.1 (by norm_num), h.2.2.1 (by norm_num), h.2.2.2 (by norm_num)⟩

/-- short-circuit extraction: 1 V on branch 0 at port 1 with port 2 shorted on branch 1 (`xy1` above), and vice versa -/
def xy2 : Ix → ℚ := fun i => match i with
  | node 1 => 0 | node 2 => 1 | node 3 => 3/11 | br 0 => 3/11 | br 1 => -4/11 | _ => 0

theorem wf_ydrive (v1 v2 : ℚ) : C01.WF (yDrive exT 1 0 2 0 0 1 v1 v2) := by
  simp [C01.WF, yDrive, killAll, exT, owned, Cpt.mapSrc]

theorem laws_xy1 : Laws .lap 1 (yDrive exT 1 0 2 0 0 1 1 0) xy1 := by
  constructor
  · intro k hk
    match k with
    | 0 => exact absurd rfl hk
    | 1 => norm_num [yDrive, killAll, exT, Cpt.mapSrc, xy1, outflow, twoTerm, lsum, vd, volt]
    | 2 => norm_num [yDrive, killAll, exT, Cpt.mapSrc, xy1, outflow, twoTerm, lsum, vd, volt]
    | 3 => norm_num [yDrive, killAll, exT, Cpt.mapSrc, xy1, outflow, twoTerm, lsum, vd, volt]
    | (k + 4) => simp [yDrive, killAll, exT, Cpt.mapSrc, outflow, twoTerm, lsum]
  · norm_num [yDrive, killAll, exT, Cpt.mapSrc, laws, vd, volt, xy1]

theorem laws_xy2 : Laws .lap 1 (yDrive exT 1 0 2 0 0 1 0 1) xy2 := by
  constructor
  · intro k hk
    match k with
    | 0 => exact absurd rfl hk
    | 1 => norm_num [yDrive, killAll, exT, Cpt.mapSrc, xy2, outflow, twoTerm, lsum, vd, volt]
    | 2 => norm_num [yDrive, killAll, exT, Cpt.mapSrc, xy2, outflow, twoTerm, lsum, vd, volt]
    | 3 => norm_num [yDrive, killAll, exT, Cpt.mapSrc, xy2, outflow, twoTerm, lsum, vd, volt]
    | (k + 4) => simp [yDrive, killAll, exT, Cpt.mapSrc, outflow, twoTerm, lsum]
  · norm_num [yDrive, killAll, exT, Cpt.mapSrc, laws, vd, volt, xy2]

theorem solves_xy1 : Solves .lap 1 (yDrive exT 1 0 2 0 0 1 1 0) xy1 :=
  (C01.mna_iff_laws _ _ _ _ (wf_ydrive 1 0)).mpr laws_xy1
theorem solves_xy2 : Solves .lap 1 (yDrive exT 1 0 2 0 0 1 0 1) xy2 :=
  (C01.mna_iff_laws _ _ _ _ (wf_ydrive 0 1)).mpr laws_xy2

theorem nv_yDrive_linear : Solves .lap 1 (yDrive exT 1 0 2 0 0 1 10 13) (fun i => 10 * xy1 i + 13 * xy2 i) :=
  yDrive_linear .lap 1 exT 1 0 2 0 0 1 xy1 xy2 10 13 solves_xy1 solves_xy2

theorem nv_yparams_rel : ∃ x, Solves .lap 1 (yDrive exT 1 0 2 0 0 1 10 13) x ∧
    Spec.rel .Y (yMatrix xy1 xy2 0 1) 0 ⟨10, -(x (br 0)), 13, -(x (br 1))⟩ :=
  yparams_rel .lap 1 exT 1 0 2 0 0 1 xy1 xy2 10 13 solves_xy1 solves_xy2

/-- the extracted Y = (1/11)·[[5, −3], [−3, 4]] is the inverse of the extracted Z = [[4, 3], [3, 5]] -/
example : yMatrix xy1 xy2 0 1 = ⟨5/11, -(3/11), -(3/11), 4/11⟩ := by norm_num [yMatrix, xy1, xy2]

theorem nv_yDrive_port_voltages : vd xy1 1 0 = 1 ∧ vd xy1 2 0 = 0 :=
  yDrive_port_voltages .lap 1 exT 1 0 2 0 0 1 xy1 1 0 laws_xy1

/-! ### a statement the Props files do not contain (suggestion to the owner; provable from `thevenin_any_load`) -/

/-- "open-circuit voltage = short-circuit current × driving-point impedance" for the MEASURED short-circuit current
    (the branch current of `Vshort_ p m` on branch `b`, what `Isc` of netlistopsmixin.py reads), any netlist. -/
theorem suggested_isc_voc_zth {K : Type} [Field K] (kind : Kind) (s : K) (cs : List (Cpt K)) (p m b : Nat)
    (z x0 xu : Ix → K) (hpm : p ≠ m) (hwf : C01.WF cs)
    (h : Laws kind s (cs ++ [.V p m b 0]) z)
    (h0 : Solves kind s (withProbe cs p m 0) x0)
    (hu : Solves kind s (withProbe (killAll cs) p m 1) xu)
    (hns : C01.Nonsingular kind s (withProbe cs p m (-(kclAt kind s [.V p m b 0] z p)))) :
    vd x0 p m = z (br b) * vd xu p m := by
  have h1 := thevenin_any_load kind s cs [.V p m b 0] p m z x0 xu hpm hwf (by simp [nodesOf]) h h0 hu hns
  have e : kclAt kind s [.V p m b 0] z p = z (br b) := by simp [kclAt, outflow, twoTerm, lsum, Ne.symm hpm]
  have v : vd z p m = 0 := by
    have := h.2 (.V p m b 0) (by simp) (b, vd z p m - 0) (by simp [laws])
    simpa using this
  rw [e, v] at h1
  linear_combination -h1

/-- … applied to the divider: 10/3 = (5/3)·2 -/
example : vd x0 2 0 = zs (br 1) * vd xu 2 0 :=
  suggested_isc_voc_zth .lap 1 div 2 0 1 zs x0 xu (by decide) wf_div laws_zs solves_x0 solves_xu (nonsingular_probe _)

end Lcapy.NonVacuity.C04
