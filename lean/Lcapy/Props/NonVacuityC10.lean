/-
  AUDIT (auditor B) -- machine-checked non-vacuity witnesses for Props/C10.lean, C10b.lean, C10c.lean.
  Every theorem with hypotheses is APPLIED to a concrete non-trivial input with all hypotheses proved.
-/
import Lcapy.Props.C10
import Lcapy.Props.C10b
import Lcapy.Props.C10c
import Mathlib.Analysis.SpecialFunctions.Exp
namespace Lcapy.NonVacuity.C10
open Lcapy.Laplace Lcapy.C10
set_option linter.unusedSimpArgs false

theorem isExp_rexp : IsExp Real.exp := ⟨Real.exp_add, Real.exp_zero⟩

/-! ### Props/C10.lean -/

/-- `(2s + 1) + 3/(s+1)² + 1/(s+2)`, delayed by 5 -/
noncomputable def pfR : PF ℝ := ⟨[1, 2], [(3, -1, 2), (1, -2, 1)], 5⟩
theorem ho_pfR : ∀ x ∈ pfR.R, 0 < x.2.2 := by
  intro x hx; simp [pfR] at hx; rcases hx with rfl | rfl <;> norm_num
example := ilt_laplace Real.exp pfR 1 ho_pfR
example := delay_shift Real.exp isExp_rexp [1, 2] [(3, -1, 2), (1, -2, 1)] 5 1 ho_pfR

/-- `1/(s² + 3s + 2) = 1/(s+1) − 1/(s+2)`: data accepted by the checker, evaluated at the non-pole s = 1 -/
def pfQ : PF ℚ := ⟨[], [(1, -1, 1), (-1, -2, 1)], 0⟩
theorem hcheck : pfCheck (K := ℚ) [1] [2, 3, 1] pfQ.Q pfQ.R [[2, 1], [1, 1]] = true := by
  norm_num [pfQ, pfCheck, checkCofs, sumCof, Poly.eqv, Poly.mul, Poly.add, Poly.smul, Poly.linPow]
theorem ho_pfQ : ∀ x ∈ pfQ.R, 0 < x.2.2 := by
  intro x hx; simp [pfQ] at hx; rcases hx with rfl | rfl <;> norm_num
theorem hA : Poly.eval ([2, 3, 1] : Poly ℚ) 1 ≠ 0 := by norm_num [Poly.eval]
example := pf_check_sound (K := ℚ) [1] [2, 3, 1] pfQ.Q pfQ.R [[2, 1], [1, 1]] hcheck 1 hA
example := ilt_inverts (fun _ : ℚ => 1) [1] [2, 3, 1] pfQ [[2, 1], [1, 1]] hcheck ho_pfQ 1 hA

section complex
attribute [local instance] Classical.propDecidable
open Complex

theorem hp : (-1 + 3 * I : ℂ) ≠ -1 - 3 * I := by
  intro h; have := congrArg Complex.im h; simp at this; norm_num at this
theorem hs1 : (1 : ℂ) - (-1 + 3 * I) ≠ 0 := by
  intro h; have := congrArg Complex.re h; simp at this
theorem hs2 : (1 : ℂ) - (-1 - 3 * I) ≠ 0 := by
  intro h; have := congrArg Complex.re h; simp at this
theorem h20 : (1 + 1 : ℂ) ≠ 0 := by norm_num
example := conj_pair_combine Complex.exp Complex.I_mul_I h20 (1 + 2 * I) (1 - 2 * I) (-1 + 3 * I) (-1 - 3 * I) 2 1 hp hs1 hs2

/-- a conjugate pair of simple poles followed by a real double pole -/
noncomputable def RC : List (ℂ × ℂ × Nat) := [(1 + 2 * I, -1 + 3 * I, 1), (1 - 2 * I, -1 - 3 * I, 1), (5, -2, 2), (7, -2, 1)]
theorem ho_RC : ∀ x ∈ RC, 0 < x.2.2 := by
  intro x hx; simp [RC] at hx; rcases hx with rfl | rfl | rfl | rfl <;> norm_num
theorem hn_RC : ∀ x ∈ RC, (1 : ℂ) - x.2.1 ≠ 0 := by
  intro x hx; simp only [RC, List.mem_cons, List.mem_nil_iff, or_false] at hx
  rcases hx with rfl | rfl | rfl | rfl
  · exact hs1
  · exact hs2
  · norm_num
  · norm_num
example := ratfun_loop_sound Complex.exp Complex.I_mul_I h20 (starRingEnd ℂ) 2 1 RC ho_RC hn_RC
end complex

example := residue_sub_simple_partial (3 : ℚ) 4 1 2 5 (by norm_num) (by norm_num) (by norm_num)

example := make_guard (K := ℚ) [([Term.dl 1 0 0], [Term.ep 1 0 (-1) 0])] ⟨_, List.mem_singleton_self _, by simp⟩

/-- `2 e^{−t} + 3 t e^{−2t}`, undelayed, no impulses; s = 1 is not a pole -/
noncomputable def fR : ExpPoly ℝ := [Term.ep 2 0 (-1) 0, Term.ep 3 1 (-2) 0]
theorem np_fR : NonPole fR 1 := by
  intro t ht; simp [fR] at ht; rcases ht with rfl | rfl <;> norm_num
theorem nd_fR : NoDelta fR := by
  intro t ht; simp [fR] at ht; rcases ht with rfl | rfl <;> trivial
theorem d0_fR : ∀ t ∈ fR, t.delayOf = 0 := by
  intro t ht; simp [fR] at ht; rcases ht with rfl | rfl <;> rfl
example := initial_value_identity Real.exp isExp_rexp fR 1 np_fR nd_fR d0_fR
/-- a step plus a decaying exponential: final value 4 -/
noncomputable def gR : ExpPoly ℝ := [Term.ep 4 0 0 0, Term.ep 2 0 (-1) 0]
theorem d0_gR : ∀ t ∈ gR, t.delayOf = 0 := by
  intro t ht; simp [gR] at ht; rcases ht with rfl | rfl <;> rfl
example := final_value_identity Real.exp isExp_rexp gR 1 one_ne_zero d0_gR
example : valInf gR = 4 := by simp [valInf, gR]

theorem causal_ex : Causal ([Term.ep (1 : ℚ) 0 (-1) 2, Term.dl 1 1 0] : ExpPoly ℚ) := by
  intro t ht; simp at ht; rcases ht with rfl | rfl <;> simp [Term.delayOf]
example := causal_zero_before (fun _ : ℚ => 1) _ causal_ex (-3) (by norm_num)

/-! ### Props/C10b.lean -/
section ds
attribute [local instance] Classical.propDecidable
open Complex

theorem hsq : ((1 : ℂ) * 2) ^ 2 = 5 / 1 - (2 / 1 / 2) ^ 2 := by norm_num
theorem hden : (1 : ℂ) * 1 ^ 2 + 2 * 1 + 5 ≠ 0 := by norm_num

/-- `(s² + 3s + 1)/(s² + 2s + 5)`, `(3s + 1)/(…)`, `1/(…)`: all three branches of `do_damped_sin` return a result and
    every hypothesis of `damped_sin_value3/2/1` holds at s = 1 -/
example : ∃ c u, dampedSin I [1, 3, 1] [1, 2, 5] 1 2 (0 : ℂ) = some (c, u) ∧
    L Complex.exp (c ++ u) 1 = Complex.exp (-(1 * 0)) * ((1 * 1 ^ 2 + 3 * 1 + 1) / (1 * 1 ^ 2 + 2 * 1 + 5)) := by
  have hsome : (dampedSin I [1, 3, 1] [1, 2, 5] 1 2 (0 : ℂ)).isSome = true := by
    simp only [dampedSin, dsInput, Gen.dsNumNormalised, Gen.dsDenNormalised]; norm_num
  obtain ⟨⟨c, u⟩, h⟩ := Option.isSome_iff_exists.mp hsome
  exact ⟨c, u, h, damped_sin_value3 Complex.exp I_mul_I h20 1 3 1 1 2 5 1 2 0 1 c u h one_ne_zero one_ne_zero one_ne_zero
    two_ne_zero hsq hden⟩
example : ∃ c u, dampedSin I [3, 1] [1, 2, 5] 1 2 (0 : ℂ) = some (c, u) ∧
    L Complex.exp (c ++ u) 1 = Complex.exp (-(1 * 0)) * ((3 * 1 + 1) / (1 * 1 ^ 2 + 2 * 1 + 5)) := by
  have hsome : (dampedSin I [3, 1] [1, 2, 5] 1 2 (0 : ℂ)).isSome = true := by
    simp only [dampedSin, dsInput, Gen.dsNumNormalised, Gen.dsDenNormalised]; norm_num
  obtain ⟨⟨c, u⟩, h⟩ := Option.isSome_iff_exists.mp hsome
  exact ⟨c, u, h, damped_sin_value2 Complex.exp I_mul_I h20 3 1 1 2 5 1 2 0 1 c u h (by norm_num) one_ne_zero one_ne_zero
    two_ne_zero hsq hden⟩
example : ∃ c u, dampedSin I [7] [1, 2, 5] 1 2 (0 : ℂ) = some (c, u) ∧
    L Complex.exp (c ++ u) 1 = Complex.exp (-(1 * 0)) * (7 / (1 * 1 ^ 2 + 2 * 1 + 5)) := by
  have hsome : (dampedSin I [7] [1, 2, 5] 1 2 (0 : ℂ)).isSome = true := by
    simp only [dampedSin, dsInput, Gen.dsNumNormalised, Gen.dsDenNormalised]; norm_num
  obtain ⟨⟨c, u⟩, h⟩ := Option.isSome_iff_exists.mp hsome
  exact ⟨c, u, h, damped_sin_value1 Complex.exp I_mul_I h20 7 1 2 5 1 2 0 1 c u h one_ne_zero one_ne_zero
    two_ne_zero hsq hden⟩
end ds

/-- `damped_sin_sqrt`: `s² + 6s + 25`: ω0 = 5, ζ = 3/5, √(1−ζ²) = 4/5 — genuine (rational) square roots -/
example := damped_sin_sqrt (K := ℚ) 1 3 1 1 6 25 5 (4 / 5) one_ne_zero (by norm_num) (by norm_num)
  (by norm_num [Gen.dsSqrtArg1, dsInput, Gen.dsDenNormalised, Gen.dsNumNormalised])
  (by norm_num [Gen.dsSqrtArg2, dsInput, Gen.dsDenNormalised, Gen.dsNumNormalised, ofN, pw])

/-- `delay_sum`: two terms with different delays -/
noncomputable def pfs : List (PF ℝ) := [pfR, ⟨[], [(2, -3, 1)], 1⟩]
theorem ho_pfs : ∀ pf ∈ pfs, ∀ x ∈ pf.R, 0 < x.2.2 := by
  intro pf hpf; simp only [pfs, List.mem_cons, List.mem_nil_iff, or_false] at hpf
  rcases hpf with rfl | rfl
  · exact ho_pfR
  · intro x hx; simp at hx; subst hx; norm_num
example := delay_sum Real.exp pfs 1 ho_pfs

/-- `convolution_entry`: F = 3/(s+1)² + 1/(s+2), g = e^{−4t} u(t), at s = 1 -/
noncomputable def pfF : PF ℝ := ⟨[], [(3, -1, 2), (1, -2, 1)], 0⟩
theorem ho_pfF : ∀ x ∈ pfF.R, 0 < x.2.2 := by
  intro x hx; simp [pfF] at hx; rcases hx with rfl | rfl <;> norm_num
theorem np_ilt : NonPole (ilt pfF) 1 := by
  intro t ht; simp [pfF, ilt, iltQ, iltR] at ht; rcases ht with rfl | rfl <;> norm_num
noncomputable def gE : ExpPoly ℝ := [Term.ep 1 0 (-4) 0]
theorem np_gE : NonPole gE 1 := by
  intro t ht; simp [gE] at ht; subst ht; norm_num
example := convolution_entry Real.exp isExp_rexp pfF gE 1 ho_pfF np_ilt np_gE

/-- `deriv_entry`, `deriv_entry_zic`: g = t e^{−2t} (regular, undelayed, g(0) = 0), n = 1, s = 3 -/
noncomputable def gT : ExpPoly ℝ := [Term.ep 1 1 (-2) 0]
theorem reg_gT : Regular0 gT := by
  refine ⟨?_, ?_⟩ <;> (intro t ht; simp [gT] at ht; subst ht) <;> trivial
theorem np_gT : NonPole gT 3 := by
  intro t ht; simp [gT] at ht; subst ht; norm_num
example := deriv_entry Real.exp isExp_rexp gT 3 np_gT reg_gT 2
example := deriv_entry_zic Real.exp isExp_rexp gT 3 np_gT reg_gT 1
  (by intro m hm; interval_cases m; simp [derivCN, val0plus, gT])

example := assumption_last_overrides [("ac", true), ("causal", false)] "causal" "dc" (by decide) (by decide)

/-! ### Props/C10c.lean -/
/-- `(s + 3)/((s+1)³ (s+2))` at s = 1 -/
example := find_residues_sub_sound (K := ℚ) [3, 1] [(-1, 3), (-2, 1)] (by decide) (by decide) 1
  (by intro x hx; simp at hx; rcases hx with rfl | rfl <;> norm_num)
example := residues_principal_part (K := ℚ) [3, 1] [2, 1] (-1) 3 (by norm_num [Poly.eval])
example := taylor_fraction (K := ℚ) (-1) 3 (Polynomial.X + Polynomial.C 3) (Polynomial.X + Polynomial.C 2)
  (by simp; norm_num)


/-! ### the composition that Driver/C10.lean executes (`iltQsrc T Q ++ ratfunLoop …`, not `ilt pf`)

  Audit finding C10-1: the statement for the executed composition was missing from Props; it is now claimed as
  `C10.ilt_executed_laplace` / `C10.ilt_executed_inverts` (Props/C10b.lean).  Applied here to concrete data over ℂ
  (conjugate pair + double real pole, delay 2, polynomial part 2s + 1) and over ℚ with checker-accepted data. -/
section executed
attribute [local instance] Classical.propDecidable
open Complex
example := ilt_executed_laplace Complex.exp Complex.I_mul_I h20 (starRingEnd ℂ) [1, 2] RC 2 1 ho_RC hn_RC
theorem hcheckC : pfCheck (K := ℂ) [1] [2, 3, 1] [] [(1, -1, 1), (-1, -2, 1)] [[2, 1], [1, 1]] = true := by
  norm_num [pfCheck, checkCofs, sumCof, Poly.eqv, Poly.mul, Poly.add, Poly.smul, Poly.linPow]
example := ilt_executed_inverts Complex.exp Complex.I_mul_I h20 (starRingEnd ℂ) [1] [2, 3, 1] [] [(1, -1, 1), (-1, -2, 1)]
  [[2, 1], [1, 1]] 2 1 hcheckC (by intro x hx; simp at hx; rcases hx with rfl | rfl <;> norm_num) (by norm_num [Poly.eval])
end executed

/-- audit finding C10-3: the causal=True output of the executed model is `Causal` and vanishes before t = 0 -/
example := ilt_causal_output (fun _ : ℚ => 1) 0 id [1, 2] [(3, -1, 2), (1, -2, 1)] 2 (by norm_num) true
example := (ilt_causal_output (fun _ : ℚ => 1) 0 id [1, 2] [(3, -1, 2), (1, -2, 1)] 0 (le_refl _) false).2.2 (-1) (by norm_num)

end Lcapy.NonVacuity.C10
