/-
  PROPERTY C08 -- two-port parameter sets are mutually consistent and match their port
  definitions.  Only property theorems (and the side conditions they are stated under, plus
  non-vacuity examples) live in this file; helper lemmas are in Lcapy/Proofs/TwoPortBase.lean.

  Every definition named `X_to_P`, `X_<attr>`, `X_chain`, `X_<section>` is GENERATED from
  /repo/lcapy/twoport.py on every run (Lcapy/Generated/TwoPort.lean), so these theorems are
  re-checked against what the code says now.

  Side conditions `ok_X_P` are the pivots that must be non-zero for the target representation
  (and, for delegated routes, each intermediate representation) to exist.
-/
import Lcapy.Proofs.TwoPortBase
import Mathlib.Tactic.NormNum
namespace Lcapy.C08
open Lcapy Lcapy.Spec Lcapy.Gen Lcapy.TwoPort
variable {K : Type} [Field K]
set_option linter.unusedSimpArgs false
set_option linter.unusedVariables false

/-! ## 0. The code's `equation()` methods spell the relations the spec uses -/
theorem equations_match : Gen.equations = Spec.equationNames := by decide

/-! ## 1. Conversions: all 64 ordered pairs -/

/-- `Matrix.inv` converts between the members of each inverse pair (A,B), (G,H), (Y,Z). -/
theorem inv_pair (Q P : Rep)
    (hQP : (Q, P) ∈ [(Rep.A, Rep.B), (.B, .A), (.G, .H), (.H, .G), (.Y, .Z), (.Z, .Y)])
    (m : M2 K) (Z0 : K) (p : Port K) (h : m.det ≠ 0) :
    rel Q m Z0 p ↔ rel P (M2.inv m) Z0 p := by
  simp only [List.mem_cons, Prod.mk.injEq, List.mem_nil_iff, or_false] at hQP
  rcases hQP with ⟨rfl, rfl⟩ | ⟨rfl, rfl⟩ | ⟨rfl, rfl⟩ | ⟨rfl, rfl⟩ | ⟨rfl, rfl⟩ | ⟨rfl, rfl⟩ <;>
    exact lin_inv m h _ _ _ _

theorem SoundConv.thenInv {X Q P : Rep} {f h : M2 K → K → M2 K} {ok1 : M2 K → K → Prop}
    (hQP : (Q, P) ∈ [(Rep.A, Rep.B), (.B, .A), (.G, .H), (.H, .G), (.Y, .Z), (.Z, .Y)])
    (h1 : SoundConv X Q h ok1) (hf : ∀ m Z0, f m Z0 = M2.inv (h m Z0)) :
    SoundConv X P f (fun m Z0 => ok1 m Z0 ∧ (h m Z0).det ≠ 0) := by
  intro m Z0 p ⟨o1, o2⟩
  rw [hf, h1 m Z0 p o1, inv_pair Q P hQP (h m Z0) Z0 p o2]

def ok_A_A (m : M2 K) (Z0 : K) : Prop := True
theorem A_to_A_sound : SoundConv .A .A (A_to_A (K := K)) ok_A_A :=
  SoundConv.id _ _ (fun _ _ => rfl)

def ok_A_B (m : M2 K) (Z0 : K) : Prop := m.det ≠ 0
theorem A_to_B_sound : SoundConv .A .B (A_to_B (K := K)) ok_A_B := by
  intro m Z0 p h
  simp only [A_to_B, A_to_A]
  exact inv_pair _ _ (by decide) m Z0 p h

def ok_A_H (m : M2 K) (Z0 : K) : Prop := m.a22 ≠ 0
theorem A_to_H_sound : SoundConv .A .H (A_to_H (K := K)) ok_A_H := by
  intro m Z0 p h
  obtain ⟨V1, I1, V2, I2⟩ := p
  simp only [ok_A_H] at h
  simp only [rel, lin, A_to_H, M2.det]
  tp_both

def ok_A_G (m : M2 K) (Z0 : K) : Prop := ok_A_H m Z0 ∧ (A_to_H m Z0).det ≠ 0
theorem A_to_G_sound : SoundConv .A .G (A_to_G (K := K)) ok_A_G :=
  SoundConv.thenInv (by decide) A_to_H_sound (fun _ _ => rfl)

def ok_A_S (m : M2 K) (Z0 : K) : Prop := m.a12 + Z0 * (m.a11 + m.a22) + Z0 * Z0 * m.a21 ≠ 0 ∧ Z0 ≠ 0 ∧ (2 : K) ≠ 0
theorem A_to_S_sound : SoundConv .A .S (A_to_S (K := K)) ok_A_S := by
  intro m Z0 p ⟨h, hz, h2⟩
  obtain ⟨V1, I1, V2, I2⟩ := p
  obtain ⟨d, hd⟩ : ∃ d, d = m.a12 + Z0 * (m.a11 + m.a22) + Z0 * Z0 * m.a21 := ⟨_, rfl⟩
  rw [← hd] at h
  simp only [rel, lin, A_to_S, wa1, wa2, wb1, wb2, ← hd]
  constructor
  · rintro ⟨rfl, rfl⟩
    constructor <;> (field_simp; rw [hd]; ring)
  · rintro ⟨h1, h2⟩
    field_simp at h1 h2
    constructor <;> grind

def ok_S_T (m : M2 K) (Z0 : K) : Prop := m.a21 ≠ 0
theorem S_to_T_sound : SoundConv .S .T (S_to_T (K := K)) ok_S_T := by
  intro m Z0 p h
  simp only [rel]
  generalize wa1 Z0 p = a1; generalize wa2 Z0 p = a2
  generalize wb1 Z0 p = b1; generalize wb2 Z0 p = b2
  simp only [ok_S_T] at h
  simp only [lin, S_to_T, M2.det]
  constructor <;> (rintro ⟨h1, h2⟩; constructor <;> (field_simp; grind))

def ok_A_T (m : M2 K) (Z0 : K) : Prop := ok_A_S m Z0 ∧ ok_S_T (A_to_S m Z0) Z0
theorem A_to_T_sound : SoundConv .A .T (A_to_T (K := K)) ok_A_T :=
  SoundConv.comp A_to_S_sound S_to_T_sound (fun _ _ => rfl)

def ok_A_Y (m : M2 K) (Z0 : K) : Prop := m.a12 ≠ 0
theorem A_to_Y_sound : SoundConv .A .Y (A_to_Y (K := K)) ok_A_Y := by
  intro m Z0 p h
  obtain ⟨V1, I1, V2, I2⟩ := p
  simp only [ok_A_Y] at h
  simp only [rel, lin, A_to_Y, M2.det]
  tp_both

def ok_A_Z (m : M2 K) (Z0 : K) : Prop := m.a21 ≠ 0
theorem A_to_Z_sound : SoundConv .A .Z (A_to_Z (K := K)) ok_A_Z := by
  intro m Z0 p h
  obtain ⟨V1, I1, V2, I2⟩ := p
  simp only [ok_A_Z] at h
  simp only [rel, lin, A_to_Z, M2.det]
  tp_both

def ok_B_A (m : M2 K) (Z0 : K) : Prop := m.det ≠ 0
theorem B_to_A_sound : SoundConv .B .A (B_to_A (K := K)) ok_B_A := by
  intro m Z0 p h
  simp only [B_to_A, B_to_B]
  exact inv_pair _ _ (by decide) m Z0 p h

def ok_B_B (m : M2 K) (Z0 : K) : Prop := True
theorem B_to_B_sound : SoundConv .B .B (B_to_B (K := K)) ok_B_B :=
  SoundConv.id _ _ (fun _ _ => rfl)

def ok_B_G (m : M2 K) (Z0 : K) : Prop := m.a22 ≠ 0
theorem B_to_G_sound : SoundConv .B .G (B_to_G (K := K)) ok_B_G := by
  intro m Z0 p h
  obtain ⟨V1, I1, V2, I2⟩ := p
  simp only [ok_B_G] at h
  simp only [rel, lin, B_to_G, M2.det]
  tp_both

def ok_B_H (m : M2 K) (Z0 : K) : Prop := m.a11 ≠ 0
theorem B_to_H_sound : SoundConv .B .H (B_to_H (K := K)) ok_B_H := by
  intro m Z0 p h
  obtain ⟨V1, I1, V2, I2⟩ := p
  simp only [ok_B_H] at h
  simp only [rel, lin, B_to_H, M2.det]
  tp_both

def ok_B_S (m : M2 K) (Z0 : K) : Prop := ok_B_A m Z0 ∧ ok_A_S (B_to_A m Z0) Z0
theorem B_to_S_sound : SoundConv .B .S (B_to_S (K := K)) ok_B_S :=
  SoundConv.comp B_to_A_sound A_to_S_sound (fun _ _ => rfl)

def ok_B_T (m : M2 K) (Z0 : K) : Prop := ok_B_S m Z0 ∧ ok_S_T (B_to_S m Z0) Z0
theorem B_to_T_sound : SoundConv .B .T (B_to_T (K := K)) ok_B_T :=
  SoundConv.comp B_to_S_sound S_to_T_sound (fun _ _ => rfl)

def ok_B_Y (m : M2 K) (Z0 : K) : Prop := m.a12 ≠ 0
theorem B_to_Y_sound : SoundConv .B .Y (B_to_Y (K := K)) ok_B_Y := by
  intro m Z0 p h
  obtain ⟨V1, I1, V2, I2⟩ := p
  simp only [ok_B_Y] at h
  simp only [rel, lin, B_to_Y, M2.det]
  tp_both

def ok_B_Z (m : M2 K) (Z0 : K) : Prop := m.a21 ≠ 0
theorem B_to_Z_sound : SoundConv .B .Z (B_to_Z (K := K)) ok_B_Z := by
  intro m Z0 p h
  obtain ⟨V1, I1, V2, I2⟩ := p
  simp only [ok_B_Z] at h
  simp only [rel, lin, B_to_Z, M2.det]
  tp_both

def ok_G_A (m : M2 K) (Z0 : K) : Prop := m.a21 ≠ 0
theorem G_to_A_sound : SoundConv .G .A (G_to_A (K := K)) ok_G_A := by
  intro m Z0 p h
  obtain ⟨V1, I1, V2, I2⟩ := p
  simp only [ok_G_A] at h
  simp only [rel, lin, G_to_A, M2.det]
  tp_both

def ok_G_B (m : M2 K) (Z0 : K) : Prop := m.a12 ≠ 0
theorem G_to_B_sound : SoundConv .G .B (G_to_B (K := K)) ok_G_B := by
  intro m Z0 p h
  obtain ⟨V1, I1, V2, I2⟩ := p
  simp only [ok_G_B] at h
  simp only [rel, lin, G_to_B, M2.det]
  tp_both

def ok_G_G (m : M2 K) (Z0 : K) : Prop := True
theorem G_to_G_sound : SoundConv .G .G (G_to_G (K := K)) ok_G_G :=
  SoundConv.id _ _ (fun _ _ => rfl)

def ok_G_H (m : M2 K) (Z0 : K) : Prop := m.det ≠ 0
theorem G_to_H_sound : SoundConv .G .H (G_to_H (K := K)) ok_G_H := by
  intro m Z0 p h
  simp only [G_to_H, G_to_G]
  exact inv_pair _ _ (by decide) m Z0 p h

def ok_G_S (m : M2 K) (Z0 : K) : Prop := ok_G_A m Z0 ∧ ok_A_S (G_to_A m Z0) Z0
theorem G_to_S_sound : SoundConv .G .S (G_to_S (K := K)) ok_G_S :=
  SoundConv.comp G_to_A_sound A_to_S_sound (fun _ _ => rfl)

def ok_G_T (m : M2 K) (Z0 : K) : Prop := ok_G_S m Z0 ∧ ok_S_T (G_to_S m Z0) Z0
theorem G_to_T_sound : SoundConv .G .T (G_to_T (K := K)) ok_G_T :=
  SoundConv.comp G_to_S_sound S_to_T_sound (fun _ _ => rfl)

def ok_H_Y (m : M2 K) (Z0 : K) : Prop := m.a11 ≠ 0
theorem H_to_Y_sound : SoundConv .H .Y (H_to_Y (K := K)) ok_H_Y := by
  intro m Z0 p h
  obtain ⟨V1, I1, V2, I2⟩ := p
  simp only [ok_H_Y] at h
  simp only [rel, lin, H_to_Y, M2.det]
  tp_both

def ok_G_Y (m : M2 K) (Z0 : K) : Prop := ok_G_H m Z0 ∧ ok_H_Y (G_to_H m Z0) Z0
theorem G_to_Y_sound : SoundConv .G .Y (G_to_Y (K := K)) ok_G_Y :=
  SoundConv.comp G_to_H_sound H_to_Y_sound (fun _ _ => rfl)

def ok_H_Z (m : M2 K) (Z0 : K) : Prop := m.a22 ≠ 0
theorem H_to_Z_sound : SoundConv .H .Z (H_to_Z (K := K)) ok_H_Z := by
  intro m Z0 p h
  obtain ⟨V1, I1, V2, I2⟩ := p
  simp only [ok_H_Z] at h
  simp only [rel, lin, H_to_Z, M2.det]
  tp_both

def ok_G_Z (m : M2 K) (Z0 : K) : Prop := ok_G_H m Z0 ∧ ok_H_Z (G_to_H m Z0) Z0
theorem G_to_Z_sound : SoundConv .G .Z (G_to_Z (K := K)) ok_G_Z :=
  SoundConv.comp G_to_H_sound H_to_Z_sound (fun _ _ => rfl)

def ok_H_A (m : M2 K) (Z0 : K) : Prop := m.a21 ≠ 0
theorem H_to_A_sound : SoundConv .H .A (H_to_A (K := K)) ok_H_A := by
  intro m Z0 p h
  obtain ⟨V1, I1, V2, I2⟩ := p
  simp only [ok_H_A] at h
  simp only [rel, lin, H_to_A, M2.det]
  tp_both

def ok_H_B (m : M2 K) (Z0 : K) : Prop := m.a12 ≠ 0
theorem H_to_B_sound : SoundConv .H .B (H_to_B (K := K)) ok_H_B := by
  intro m Z0 p h
  obtain ⟨V1, I1, V2, I2⟩ := p
  simp only [ok_H_B] at h
  simp only [rel, lin, H_to_B, M2.det]
  tp_both

def ok_H_H (m : M2 K) (Z0 : K) : Prop := True
theorem H_to_H_sound : SoundConv .H .H (H_to_H (K := K)) ok_H_H :=
  SoundConv.id _ _ (fun _ _ => rfl)

def ok_H_G (m : M2 K) (Z0 : K) : Prop := m.det ≠ 0
theorem H_to_G_sound : SoundConv .H .G (H_to_G (K := K)) ok_H_G := by
  intro m Z0 p h
  simp only [H_to_G, H_to_H]
  exact inv_pair _ _ (by decide) m Z0 p h

def ok_H_S (m : M2 K) (Z0 : K) : Prop := ok_H_A m Z0 ∧ ok_A_S (H_to_A m Z0) Z0
theorem H_to_S_sound : SoundConv .H .S (H_to_S (K := K)) ok_H_S :=
  SoundConv.comp H_to_A_sound A_to_S_sound (fun _ _ => rfl)

def ok_H_T (m : M2 K) (Z0 : K) : Prop := ok_H_S m Z0 ∧ ok_S_T (H_to_S m Z0) Z0
theorem H_to_T_sound : SoundConv .H .T (H_to_T (K := K)) ok_H_T :=
  SoundConv.comp H_to_S_sound S_to_T_sound (fun _ _ => rfl)

def ok_S_A (m : M2 K) (Z0 : K) : Prop := m.a21 ≠ 0 ∧ Z0 ≠ 0 ∧ (2 : K) ≠ 0
theorem S_to_A_sound : SoundConv .S .A (S_to_A (K := K)) ok_S_A := by
  intro m Z0 p ⟨h, hz, h2⟩
  obtain ⟨V1, I1, V2, I2⟩ := p
  simp only [rel, lin, S_to_A, M2.sdiv, M2.det, wa1, wa2, wb1, wb2]
  constructor
  · rintro ⟨h1, h2⟩
    constructor <;> (field_simp; grind)
  · rintro ⟨rfl, rfl⟩
    constructor <;> (field_simp; ring)

def ok_S_B (m : M2 K) (Z0 : K) : Prop := ok_S_A m Z0 ∧ (S_to_A m Z0).det ≠ 0
theorem S_to_B_sound : SoundConv .S .B (S_to_B (K := K)) ok_S_B :=
  SoundConv.thenInv (by decide) S_to_A_sound (fun _ _ => rfl)

def ok_S_H (m : M2 K) (Z0 : K) : Prop := ok_S_A m Z0 ∧ ok_A_H (S_to_A m Z0) Z0
theorem S_to_H_sound : SoundConv .S .H (S_to_H (K := K)) ok_S_H :=
  SoundConv.comp S_to_A_sound A_to_H_sound (fun _ _ => rfl)

def ok_S_G (m : M2 K) (Z0 : K) : Prop := ok_S_H m Z0 ∧ (S_to_H m Z0).det ≠ 0
theorem S_to_G_sound : SoundConv .S .G (S_to_G (K := K)) ok_S_G :=
  SoundConv.thenInv (by decide) S_to_H_sound (fun _ _ => rfl)

def ok_S_S (m : M2 K) (Z0 : K) : Prop := True
theorem S_to_S_sound : SoundConv .S .S (S_to_S (K := K)) ok_S_S :=
  SoundConv.id _ _ (fun _ _ => rfl)

def ok_S_Z (m : M2 K) (Z0 : K) : Prop := ok_S_A m Z0 ∧ ok_A_Z (S_to_A m Z0) Z0
theorem S_to_Z_sound : SoundConv .S .Z (S_to_Z (K := K)) ok_S_Z :=
  SoundConv.comp S_to_A_sound A_to_Z_sound (fun _ _ => rfl)

def ok_S_Y (m : M2 K) (Z0 : K) : Prop := ok_S_Z m Z0 ∧ (S_to_Z m Z0).det ≠ 0
theorem S_to_Y_sound : SoundConv .S .Y (S_to_Y (K := K)) ok_S_Y :=
  SoundConv.thenInv (by decide) S_to_Z_sound (fun _ _ => rfl)

def ok_T_S (m : M2 K) (Z0 : K) : Prop := m.a22 ≠ 0
theorem T_to_S_sound : SoundConv .T .S (T_to_S (K := K)) ok_T_S := by
  intro m Z0 p h
  simp only [rel]
  generalize wa1 Z0 p = a1; generalize wa2 Z0 p = a2
  generalize wb1 Z0 p = b1; generalize wb2 Z0 p = b2
  simp only [ok_T_S] at h
  simp only [lin, T_to_S, M2.det]
  constructor <;> (rintro ⟨h1, h2⟩; constructor <;> (field_simp; grind))

def ok_T_A (m : M2 K) (Z0 : K) : Prop := ok_T_S m Z0 ∧ ok_S_A (T_to_S m Z0) Z0
theorem T_to_A_sound : SoundConv .T .A (T_to_A (K := K)) ok_T_A :=
  SoundConv.comp T_to_S_sound S_to_A_sound (fun _ _ => rfl)

def ok_T_B (m : M2 K) (Z0 : K) : Prop := ok_T_A m Z0 ∧ (T_to_A m Z0).det ≠ 0
theorem T_to_B_sound : SoundConv .T .B (T_to_B (K := K)) ok_T_B :=
  SoundConv.thenInv (by decide) T_to_A_sound (fun _ _ => rfl)

def ok_T_H (m : M2 K) (Z0 : K) : Prop := ok_T_A m Z0 ∧ ok_A_H (T_to_A m Z0) Z0
theorem T_to_H_sound : SoundConv .T .H (T_to_H (K := K)) ok_T_H :=
  SoundConv.comp T_to_A_sound A_to_H_sound (fun _ _ => rfl)

def ok_T_G (m : M2 K) (Z0 : K) : Prop := ok_T_H m Z0 ∧ (T_to_H m Z0).det ≠ 0
theorem T_to_G_sound : SoundConv .T .G (T_to_G (K := K)) ok_T_G :=
  SoundConv.thenInv (by decide) T_to_H_sound (fun _ _ => rfl)

def ok_T_T (m : M2 K) (Z0 : K) : Prop := True
theorem T_to_T_sound : SoundConv .T .T (T_to_T (K := K)) ok_T_T :=
  SoundConv.id _ _ (fun _ _ => rfl)

def ok_T_Z (m : M2 K) (Z0 : K) : Prop := ok_T_A m Z0 ∧ ok_A_Z (T_to_A m Z0) Z0
theorem T_to_Z_sound : SoundConv .T .Z (T_to_Z (K := K)) ok_T_Z :=
  SoundConv.comp T_to_A_sound A_to_Z_sound (fun _ _ => rfl)

def ok_T_Y (m : M2 K) (Z0 : K) : Prop := ok_T_Z m Z0 ∧ (T_to_Z m Z0).det ≠ 0
theorem T_to_Y_sound : SoundConv .T .Y (T_to_Y (K := K)) ok_T_Y :=
  SoundConv.thenInv (by decide) T_to_Z_sound (fun _ _ => rfl)

def ok_Y_A (m : M2 K) (Z0 : K) : Prop := m.a21 ≠ 0
theorem Y_to_A_sound : SoundConv .Y .A (Y_to_A (K := K)) ok_Y_A := by
  intro m Z0 p h
  obtain ⟨V1, I1, V2, I2⟩ := p
  simp only [ok_Y_A] at h
  simp only [rel, lin, Y_to_A, M2.det]
  tp_both

def ok_Y_B (m : M2 K) (Z0 : K) : Prop := m.a12 ≠ 0
theorem Y_to_B_sound : SoundConv .Y .B (Y_to_B (K := K)) ok_Y_B := by
  intro m Z0 p h
  obtain ⟨V1, I1, V2, I2⟩ := p
  simp only [ok_Y_B] at h
  simp only [rel, lin, Y_to_B, M2.det]
  tp_both

def ok_Y_H (m : M2 K) (Z0 : K) : Prop := m.a11 ≠ 0
theorem Y_to_H_sound : SoundConv .Y .H (Y_to_H (K := K)) ok_Y_H := by
  intro m Z0 p h
  obtain ⟨V1, I1, V2, I2⟩ := p
  simp only [ok_Y_H] at h
  simp only [rel, lin, Y_to_H, M2.det]
  tp_both

def ok_Y_G (m : M2 K) (Z0 : K) : Prop := ok_Y_H m Z0 ∧ (Y_to_H m Z0).det ≠ 0
theorem Y_to_G_sound : SoundConv .Y .G (Y_to_G (K := K)) ok_Y_G :=
  SoundConv.thenInv (by decide) Y_to_H_sound (fun _ _ => rfl)

def ok_Y_S (m : M2 K) (Z0 : K) : Prop := ok_Y_A m Z0 ∧ ok_A_S (Y_to_A m Z0) Z0
theorem Y_to_S_sound : SoundConv .Y .S (Y_to_S (K := K)) ok_Y_S :=
  SoundConv.comp Y_to_A_sound A_to_S_sound (fun _ _ => rfl)

def ok_Y_T (m : M2 K) (Z0 : K) : Prop := ok_Y_S m Z0 ∧ ok_S_T (Y_to_S m Z0) Z0
theorem Y_to_T_sound : SoundConv .Y .T (Y_to_T (K := K)) ok_Y_T :=
  SoundConv.comp Y_to_S_sound S_to_T_sound (fun _ _ => rfl)

def ok_Y_Y (m : M2 K) (Z0 : K) : Prop := True
theorem Y_to_Y_sound : SoundConv .Y .Y (Y_to_Y (K := K)) ok_Y_Y :=
  SoundConv.id _ _ (fun _ _ => rfl)

def ok_Y_Z (m : M2 K) (Z0 : K) : Prop := m.det ≠ 0
theorem Y_to_Z_sound : SoundConv .Y .Z (Y_to_Z (K := K)) ok_Y_Z := by
  intro m Z0 p h
  obtain ⟨V1, I1, V2, I2⟩ := p
  obtain ⟨d, hd⟩ : ∃ d, d = m.det := ⟨_, rfl⟩
  simp only [ok_Y_Z, ← hd] at h
  simp only [rel, lin, Y_to_Z, ← hd]
  simp only [M2.det] at hd
  tp_both_det

def ok_Z_A (m : M2 K) (Z0 : K) : Prop := m.a21 ≠ 0
theorem Z_to_A_sound : SoundConv .Z .A (Z_to_A (K := K)) ok_Z_A := by
  intro m Z0 p h
  obtain ⟨V1, I1, V2, I2⟩ := p
  simp only [ok_Z_A] at h
  simp only [rel, lin, Z_to_A, M2.det]
  tp_both

def ok_Z_B (m : M2 K) (Z0 : K) : Prop := m.a12 ≠ 0
theorem Z_to_B_sound : SoundConv .Z .B (Z_to_B (K := K)) ok_Z_B := by
  intro m Z0 p h
  obtain ⟨V1, I1, V2, I2⟩ := p
  simp only [ok_Z_B] at h
  simp only [rel, lin, Z_to_B, M2.det]
  tp_both

def ok_Z_H (m : M2 K) (Z0 : K) : Prop := m.a22 ≠ 0
theorem Z_to_H_sound : SoundConv .Z .H (Z_to_H (K := K)) ok_Z_H := by
  intro m Z0 p h
  obtain ⟨V1, I1, V2, I2⟩ := p
  simp only [ok_Z_H] at h
  simp only [rel, lin, Z_to_H, M2.det]
  tp_both

def ok_Z_G (m : M2 K) (Z0 : K) : Prop := ok_Z_H m Z0 ∧ (Z_to_H m Z0).det ≠ 0
theorem Z_to_G_sound : SoundConv .Z .G (Z_to_G (K := K)) ok_Z_G :=
  SoundConv.thenInv (by decide) Z_to_H_sound (fun _ _ => rfl)

def ok_Z_S (m : M2 K) (Z0 : K) : Prop := ok_Z_A m Z0 ∧ ok_A_S (Z_to_A m Z0) Z0
theorem Z_to_S_sound : SoundConv .Z .S (Z_to_S (K := K)) ok_Z_S :=
  SoundConv.comp Z_to_A_sound A_to_S_sound (fun _ _ => rfl)

def ok_Z_T (m : M2 K) (Z0 : K) : Prop := ok_Z_S m Z0 ∧ ok_S_T (Z_to_S m Z0) Z0
theorem Z_to_T_sound : SoundConv .Z .T (Z_to_T (K := K)) ok_Z_T :=
  SoundConv.comp Z_to_S_sound S_to_T_sound (fun _ _ => rfl)

def ok_Z_Y (m : M2 K) (Z0 : K) : Prop := m.det ≠ 0
theorem Z_to_Y_sound : SoundConv .Z .Y (Z_to_Y (K := K)) ok_Z_Y := by
  intro m Z0 p h
  obtain ⟨V1, I1, V2, I2⟩ := p
  obtain ⟨d, hd⟩ : ∃ d, d = m.det := ⟨_, rfl⟩
  simp only [ok_Z_Y, ← hd] at h
  simp only [rel, lin, Z_to_Y, ← hd]
  simp only [M2.det] at hd
  tp_both_det

def ok_Z_Z (m : M2 K) (Z0 : K) : Prop := True
theorem Z_to_Z_sound : SoundConv .Z .Z (Z_to_Z (K := K)) ok_Z_Z :=
  SoundConv.id _ _ (fun _ _ => rfl)

/-! ## 2. Round trips: converting to another representation and back is the identity
      wherever both conversions exist -/

theorem roundtrip {X P : Rep} {f g : M2 K → K → M2 K} {ok1 ok2 : M2 K → K → Prop}
    (h1 : SoundConv X P f ok1) (h2 : SoundConv P X g ok2) (hX : X ≠ .S ∧ X ≠ .T)
    (m : M2 K) (Z0 : K) (o1 : ok1 m Z0) (o2 : ok2 (f m Z0) Z0) : g (f m Z0) Z0 = m :=
  (rel_inj_VI X hX Z0 _ _ (fun p => by rw [h1 m Z0 p o1, h2 _ Z0 p o2])).symm

theorem roundtrip_wave {X P : Rep} {f g : M2 K → K → M2 K} {ok1 ok2 : M2 K → K → Prop}
    (h1 : SoundConv X P f ok1) (h2 : SoundConv P X g ok2)
    (m : M2 K) (Z0 : K) (hz : Z0 ≠ 0) (h2' : (2 : K) ≠ 0)
    (o1 : ok1 m Z0) (o2 : ok2 (f m Z0) Z0) : g (f m Z0) Z0 = m :=
  (rel_inj X Z0 hz h2' _ _ (fun p => by rw [h1 m Z0 p o1, h2 _ Z0 p o2])).symm

theorem roundtrip_A_B (m : M2 K) (Z0 : K)
    (o1 : ok_A_B m Z0) (o2 : ok_B_A (A_to_B m Z0) Z0) :
    B_to_A (A_to_B m Z0) Z0 = m :=
  roundtrip A_to_B_sound B_to_A_sound (by decide) m Z0 o1 o2

theorem roundtrip_A_G (m : M2 K) (Z0 : K)
    (o1 : ok_A_G m Z0) (o2 : ok_G_A (A_to_G m Z0) Z0) :
    G_to_A (A_to_G m Z0) Z0 = m :=
  roundtrip A_to_G_sound G_to_A_sound (by decide) m Z0 o1 o2

theorem roundtrip_A_H (m : M2 K) (Z0 : K)
    (o1 : ok_A_H m Z0) (o2 : ok_H_A (A_to_H m Z0) Z0) :
    H_to_A (A_to_H m Z0) Z0 = m :=
  roundtrip A_to_H_sound H_to_A_sound (by decide) m Z0 o1 o2

theorem roundtrip_A_S (m : M2 K) (Z0 : K)
    (o1 : ok_A_S m Z0) (o2 : ok_S_A (A_to_S m Z0) Z0) :
    S_to_A (A_to_S m Z0) Z0 = m :=
  roundtrip A_to_S_sound S_to_A_sound (by decide) m Z0 o1 o2

theorem roundtrip_A_T (m : M2 K) (Z0 : K)
    (o1 : ok_A_T m Z0) (o2 : ok_T_A (A_to_T m Z0) Z0) :
    T_to_A (A_to_T m Z0) Z0 = m :=
  roundtrip A_to_T_sound T_to_A_sound (by decide) m Z0 o1 o2

theorem roundtrip_A_Y (m : M2 K) (Z0 : K)
    (o1 : ok_A_Y m Z0) (o2 : ok_Y_A (A_to_Y m Z0) Z0) :
    Y_to_A (A_to_Y m Z0) Z0 = m :=
  roundtrip A_to_Y_sound Y_to_A_sound (by decide) m Z0 o1 o2

theorem roundtrip_A_Z (m : M2 K) (Z0 : K)
    (o1 : ok_A_Z m Z0) (o2 : ok_Z_A (A_to_Z m Z0) Z0) :
    Z_to_A (A_to_Z m Z0) Z0 = m :=
  roundtrip A_to_Z_sound Z_to_A_sound (by decide) m Z0 o1 o2

theorem roundtrip_B_A (m : M2 K) (Z0 : K)
    (o1 : ok_B_A m Z0) (o2 : ok_A_B (B_to_A m Z0) Z0) :
    A_to_B (B_to_A m Z0) Z0 = m :=
  roundtrip B_to_A_sound A_to_B_sound (by decide) m Z0 o1 o2

theorem roundtrip_B_G (m : M2 K) (Z0 : K)
    (o1 : ok_B_G m Z0) (o2 : ok_G_B (B_to_G m Z0) Z0) :
    G_to_B (B_to_G m Z0) Z0 = m :=
  roundtrip B_to_G_sound G_to_B_sound (by decide) m Z0 o1 o2

theorem roundtrip_B_H (m : M2 K) (Z0 : K)
    (o1 : ok_B_H m Z0) (o2 : ok_H_B (B_to_H m Z0) Z0) :
    H_to_B (B_to_H m Z0) Z0 = m :=
  roundtrip B_to_H_sound H_to_B_sound (by decide) m Z0 o1 o2

theorem roundtrip_B_S (m : M2 K) (Z0 : K)
    (o1 : ok_B_S m Z0) (o2 : ok_S_B (B_to_S m Z0) Z0) :
    S_to_B (B_to_S m Z0) Z0 = m :=
  roundtrip B_to_S_sound S_to_B_sound (by decide) m Z0 o1 o2

theorem roundtrip_B_T (m : M2 K) (Z0 : K)
    (o1 : ok_B_T m Z0) (o2 : ok_T_B (B_to_T m Z0) Z0) :
    T_to_B (B_to_T m Z0) Z0 = m :=
  roundtrip B_to_T_sound T_to_B_sound (by decide) m Z0 o1 o2

theorem roundtrip_B_Y (m : M2 K) (Z0 : K)
    (o1 : ok_B_Y m Z0) (o2 : ok_Y_B (B_to_Y m Z0) Z0) :
    Y_to_B (B_to_Y m Z0) Z0 = m :=
  roundtrip B_to_Y_sound Y_to_B_sound (by decide) m Z0 o1 o2

theorem roundtrip_B_Z (m : M2 K) (Z0 : K)
    (o1 : ok_B_Z m Z0) (o2 : ok_Z_B (B_to_Z m Z0) Z0) :
    Z_to_B (B_to_Z m Z0) Z0 = m :=
  roundtrip B_to_Z_sound Z_to_B_sound (by decide) m Z0 o1 o2

theorem roundtrip_G_A (m : M2 K) (Z0 : K)
    (o1 : ok_G_A m Z0) (o2 : ok_A_G (G_to_A m Z0) Z0) :
    A_to_G (G_to_A m Z0) Z0 = m :=
  roundtrip G_to_A_sound A_to_G_sound (by decide) m Z0 o1 o2

theorem roundtrip_G_B (m : M2 K) (Z0 : K)
    (o1 : ok_G_B m Z0) (o2 : ok_B_G (G_to_B m Z0) Z0) :
    B_to_G (G_to_B m Z0) Z0 = m :=
  roundtrip G_to_B_sound B_to_G_sound (by decide) m Z0 o1 o2

theorem roundtrip_G_H (m : M2 K) (Z0 : K)
    (o1 : ok_G_H m Z0) (o2 : ok_H_G (G_to_H m Z0) Z0) :
    H_to_G (G_to_H m Z0) Z0 = m :=
  roundtrip G_to_H_sound H_to_G_sound (by decide) m Z0 o1 o2

theorem roundtrip_G_S (m : M2 K) (Z0 : K)
    (o1 : ok_G_S m Z0) (o2 : ok_S_G (G_to_S m Z0) Z0) :
    S_to_G (G_to_S m Z0) Z0 = m :=
  roundtrip G_to_S_sound S_to_G_sound (by decide) m Z0 o1 o2

theorem roundtrip_G_T (m : M2 K) (Z0 : K)
    (o1 : ok_G_T m Z0) (o2 : ok_T_G (G_to_T m Z0) Z0) :
    T_to_G (G_to_T m Z0) Z0 = m :=
  roundtrip G_to_T_sound T_to_G_sound (by decide) m Z0 o1 o2

theorem roundtrip_G_Y (m : M2 K) (Z0 : K)
    (o1 : ok_G_Y m Z0) (o2 : ok_Y_G (G_to_Y m Z0) Z0) :
    Y_to_G (G_to_Y m Z0) Z0 = m :=
  roundtrip G_to_Y_sound Y_to_G_sound (by decide) m Z0 o1 o2

theorem roundtrip_G_Z (m : M2 K) (Z0 : K)
    (o1 : ok_G_Z m Z0) (o2 : ok_Z_G (G_to_Z m Z0) Z0) :
    Z_to_G (G_to_Z m Z0) Z0 = m :=
  roundtrip G_to_Z_sound Z_to_G_sound (by decide) m Z0 o1 o2

theorem roundtrip_H_A (m : M2 K) (Z0 : K)
    (o1 : ok_H_A m Z0) (o2 : ok_A_H (H_to_A m Z0) Z0) :
    A_to_H (H_to_A m Z0) Z0 = m :=
  roundtrip H_to_A_sound A_to_H_sound (by decide) m Z0 o1 o2

theorem roundtrip_H_B (m : M2 K) (Z0 : K)
    (o1 : ok_H_B m Z0) (o2 : ok_B_H (H_to_B m Z0) Z0) :
    B_to_H (H_to_B m Z0) Z0 = m :=
  roundtrip H_to_B_sound B_to_H_sound (by decide) m Z0 o1 o2

theorem roundtrip_H_G (m : M2 K) (Z0 : K)
    (o1 : ok_H_G m Z0) (o2 : ok_G_H (H_to_G m Z0) Z0) :
    G_to_H (H_to_G m Z0) Z0 = m :=
  roundtrip H_to_G_sound G_to_H_sound (by decide) m Z0 o1 o2

theorem roundtrip_H_S (m : M2 K) (Z0 : K)
    (o1 : ok_H_S m Z0) (o2 : ok_S_H (H_to_S m Z0) Z0) :
    S_to_H (H_to_S m Z0) Z0 = m :=
  roundtrip H_to_S_sound S_to_H_sound (by decide) m Z0 o1 o2

theorem roundtrip_H_T (m : M2 K) (Z0 : K)
    (o1 : ok_H_T m Z0) (o2 : ok_T_H (H_to_T m Z0) Z0) :
    T_to_H (H_to_T m Z0) Z0 = m :=
  roundtrip H_to_T_sound T_to_H_sound (by decide) m Z0 o1 o2

theorem roundtrip_H_Y (m : M2 K) (Z0 : K)
    (o1 : ok_H_Y m Z0) (o2 : ok_Y_H (H_to_Y m Z0) Z0) :
    Y_to_H (H_to_Y m Z0) Z0 = m :=
  roundtrip H_to_Y_sound Y_to_H_sound (by decide) m Z0 o1 o2

theorem roundtrip_H_Z (m : M2 K) (Z0 : K)
    (o1 : ok_H_Z m Z0) (o2 : ok_Z_H (H_to_Z m Z0) Z0) :
    Z_to_H (H_to_Z m Z0) Z0 = m :=
  roundtrip H_to_Z_sound Z_to_H_sound (by decide) m Z0 o1 o2

theorem roundtrip_S_A (m : M2 K) (Z0 : K) (hz : Z0 ≠ 0) (h2 : (2 : K) ≠ 0)
    (o1 : ok_S_A m Z0) (o2 : ok_A_S (S_to_A m Z0) Z0) :
    A_to_S (S_to_A m Z0) Z0 = m :=
  roundtrip_wave S_to_A_sound A_to_S_sound m Z0 hz h2 o1 o2

theorem roundtrip_S_B (m : M2 K) (Z0 : K) (hz : Z0 ≠ 0) (h2 : (2 : K) ≠ 0)
    (o1 : ok_S_B m Z0) (o2 : ok_B_S (S_to_B m Z0) Z0) :
    B_to_S (S_to_B m Z0) Z0 = m :=
  roundtrip_wave S_to_B_sound B_to_S_sound m Z0 hz h2 o1 o2

theorem roundtrip_S_G (m : M2 K) (Z0 : K) (hz : Z0 ≠ 0) (h2 : (2 : K) ≠ 0)
    (o1 : ok_S_G m Z0) (o2 : ok_G_S (S_to_G m Z0) Z0) :
    G_to_S (S_to_G m Z0) Z0 = m :=
  roundtrip_wave S_to_G_sound G_to_S_sound m Z0 hz h2 o1 o2

theorem roundtrip_S_H (m : M2 K) (Z0 : K) (hz : Z0 ≠ 0) (h2 : (2 : K) ≠ 0)
    (o1 : ok_S_H m Z0) (o2 : ok_H_S (S_to_H m Z0) Z0) :
    H_to_S (S_to_H m Z0) Z0 = m :=
  roundtrip_wave S_to_H_sound H_to_S_sound m Z0 hz h2 o1 o2

theorem roundtrip_S_T (m : M2 K) (Z0 : K) (hz : Z0 ≠ 0) (h2 : (2 : K) ≠ 0)
    (o1 : ok_S_T m Z0) (o2 : ok_T_S (S_to_T m Z0) Z0) :
    T_to_S (S_to_T m Z0) Z0 = m :=
  roundtrip_wave S_to_T_sound T_to_S_sound m Z0 hz h2 o1 o2

theorem roundtrip_S_Y (m : M2 K) (Z0 : K) (hz : Z0 ≠ 0) (h2 : (2 : K) ≠ 0)
    (o1 : ok_S_Y m Z0) (o2 : ok_Y_S (S_to_Y m Z0) Z0) :
    Y_to_S (S_to_Y m Z0) Z0 = m :=
  roundtrip_wave S_to_Y_sound Y_to_S_sound m Z0 hz h2 o1 o2

theorem roundtrip_S_Z (m : M2 K) (Z0 : K) (hz : Z0 ≠ 0) (h2 : (2 : K) ≠ 0)
    (o1 : ok_S_Z m Z0) (o2 : ok_Z_S (S_to_Z m Z0) Z0) :
    Z_to_S (S_to_Z m Z0) Z0 = m :=
  roundtrip_wave S_to_Z_sound Z_to_S_sound m Z0 hz h2 o1 o2

theorem roundtrip_T_A (m : M2 K) (Z0 : K) (hz : Z0 ≠ 0) (h2 : (2 : K) ≠ 0)
    (o1 : ok_T_A m Z0) (o2 : ok_A_T (T_to_A m Z0) Z0) :
    A_to_T (T_to_A m Z0) Z0 = m :=
  roundtrip_wave T_to_A_sound A_to_T_sound m Z0 hz h2 o1 o2

theorem roundtrip_T_B (m : M2 K) (Z0 : K) (hz : Z0 ≠ 0) (h2 : (2 : K) ≠ 0)
    (o1 : ok_T_B m Z0) (o2 : ok_B_T (T_to_B m Z0) Z0) :
    B_to_T (T_to_B m Z0) Z0 = m :=
  roundtrip_wave T_to_B_sound B_to_T_sound m Z0 hz h2 o1 o2

theorem roundtrip_T_G (m : M2 K) (Z0 : K) (hz : Z0 ≠ 0) (h2 : (2 : K) ≠ 0)
    (o1 : ok_T_G m Z0) (o2 : ok_G_T (T_to_G m Z0) Z0) :
    G_to_T (T_to_G m Z0) Z0 = m :=
  roundtrip_wave T_to_G_sound G_to_T_sound m Z0 hz h2 o1 o2

theorem roundtrip_T_H (m : M2 K) (Z0 : K) (hz : Z0 ≠ 0) (h2 : (2 : K) ≠ 0)
    (o1 : ok_T_H m Z0) (o2 : ok_H_T (T_to_H m Z0) Z0) :
    H_to_T (T_to_H m Z0) Z0 = m :=
  roundtrip_wave T_to_H_sound H_to_T_sound m Z0 hz h2 o1 o2

theorem roundtrip_T_S (m : M2 K) (Z0 : K) (hz : Z0 ≠ 0) (h2 : (2 : K) ≠ 0)
    (o1 : ok_T_S m Z0) (o2 : ok_S_T (T_to_S m Z0) Z0) :
    S_to_T (T_to_S m Z0) Z0 = m :=
  roundtrip_wave T_to_S_sound S_to_T_sound m Z0 hz h2 o1 o2

theorem roundtrip_T_Y (m : M2 K) (Z0 : K) (hz : Z0 ≠ 0) (h2 : (2 : K) ≠ 0)
    (o1 : ok_T_Y m Z0) (o2 : ok_Y_T (T_to_Y m Z0) Z0) :
    Y_to_T (T_to_Y m Z0) Z0 = m :=
  roundtrip_wave T_to_Y_sound Y_to_T_sound m Z0 hz h2 o1 o2

theorem roundtrip_T_Z (m : M2 K) (Z0 : K) (hz : Z0 ≠ 0) (h2 : (2 : K) ≠ 0)
    (o1 : ok_T_Z m Z0) (o2 : ok_Z_T (T_to_Z m Z0) Z0) :
    Z_to_T (T_to_Z m Z0) Z0 = m :=
  roundtrip_wave T_to_Z_sound Z_to_T_sound m Z0 hz h2 o1 o2

theorem roundtrip_Y_A (m : M2 K) (Z0 : K)
    (o1 : ok_Y_A m Z0) (o2 : ok_A_Y (Y_to_A m Z0) Z0) :
    A_to_Y (Y_to_A m Z0) Z0 = m :=
  roundtrip Y_to_A_sound A_to_Y_sound (by decide) m Z0 o1 o2

theorem roundtrip_Y_B (m : M2 K) (Z0 : K)
    (o1 : ok_Y_B m Z0) (o2 : ok_B_Y (Y_to_B m Z0) Z0) :
    B_to_Y (Y_to_B m Z0) Z0 = m :=
  roundtrip Y_to_B_sound B_to_Y_sound (by decide) m Z0 o1 o2

theorem roundtrip_Y_G (m : M2 K) (Z0 : K)
    (o1 : ok_Y_G m Z0) (o2 : ok_G_Y (Y_to_G m Z0) Z0) :
    G_to_Y (Y_to_G m Z0) Z0 = m :=
  roundtrip Y_to_G_sound G_to_Y_sound (by decide) m Z0 o1 o2

theorem roundtrip_Y_H (m : M2 K) (Z0 : K)
    (o1 : ok_Y_H m Z0) (o2 : ok_H_Y (Y_to_H m Z0) Z0) :
    H_to_Y (Y_to_H m Z0) Z0 = m :=
  roundtrip Y_to_H_sound H_to_Y_sound (by decide) m Z0 o1 o2

theorem roundtrip_Y_S (m : M2 K) (Z0 : K)
    (o1 : ok_Y_S m Z0) (o2 : ok_S_Y (Y_to_S m Z0) Z0) :
    S_to_Y (Y_to_S m Z0) Z0 = m :=
  roundtrip Y_to_S_sound S_to_Y_sound (by decide) m Z0 o1 o2

theorem roundtrip_Y_T (m : M2 K) (Z0 : K)
    (o1 : ok_Y_T m Z0) (o2 : ok_T_Y (Y_to_T m Z0) Z0) :
    T_to_Y (Y_to_T m Z0) Z0 = m :=
  roundtrip Y_to_T_sound T_to_Y_sound (by decide) m Z0 o1 o2

theorem roundtrip_Y_Z (m : M2 K) (Z0 : K)
    (o1 : ok_Y_Z m Z0) (o2 : ok_Z_Y (Y_to_Z m Z0) Z0) :
    Z_to_Y (Y_to_Z m Z0) Z0 = m :=
  roundtrip Y_to_Z_sound Z_to_Y_sound (by decide) m Z0 o1 o2

theorem roundtrip_Z_A (m : M2 K) (Z0 : K)
    (o1 : ok_Z_A m Z0) (o2 : ok_A_Z (Z_to_A m Z0) Z0) :
    A_to_Z (Z_to_A m Z0) Z0 = m :=
  roundtrip Z_to_A_sound A_to_Z_sound (by decide) m Z0 o1 o2

theorem roundtrip_Z_B (m : M2 K) (Z0 : K)
    (o1 : ok_Z_B m Z0) (o2 : ok_B_Z (Z_to_B m Z0) Z0) :
    B_to_Z (Z_to_B m Z0) Z0 = m :=
  roundtrip Z_to_B_sound B_to_Z_sound (by decide) m Z0 o1 o2

theorem roundtrip_Z_G (m : M2 K) (Z0 : K)
    (o1 : ok_Z_G m Z0) (o2 : ok_G_Z (Z_to_G m Z0) Z0) :
    G_to_Z (Z_to_G m Z0) Z0 = m :=
  roundtrip Z_to_G_sound G_to_Z_sound (by decide) m Z0 o1 o2

theorem roundtrip_Z_H (m : M2 K) (Z0 : K)
    (o1 : ok_Z_H m Z0) (o2 : ok_H_Z (Z_to_H m Z0) Z0) :
    H_to_Z (Z_to_H m Z0) Z0 = m :=
  roundtrip Z_to_H_sound H_to_Z_sound (by decide) m Z0 o1 o2

theorem roundtrip_Z_S (m : M2 K) (Z0 : K)
    (o1 : ok_Z_S m Z0) (o2 : ok_S_Z (Z_to_S m Z0) Z0) :
    S_to_Z (Z_to_S m Z0) Z0 = m :=
  roundtrip Z_to_S_sound S_to_Z_sound (by decide) m Z0 o1 o2

theorem roundtrip_Z_T (m : M2 K) (Z0 : K)
    (o1 : ok_Z_T m Z0) (o2 : ok_T_Z (Z_to_T m Z0) Z0) :
    T_to_Z (Z_to_T m Z0) Z0 = m :=
  roundtrip Z_to_T_sound T_to_Z_sound (by decide) m Z0 o1 o2

theorem roundtrip_Z_Y (m : M2 K) (Z0 : K)
    (o1 : ok_Z_Y m Z0) (o2 : ok_Y_Z (Z_to_Y m Z0) Z0) :
    Y_to_Z (Z_to_Y m Z0) Z0 = m :=
  roundtrip Z_to_Y_sound Y_to_Z_sound (by decide) m Z0 o1 o2

/-! ## 3. Derived quantities equal their port definitions, whichever representation
      they are computed from -/

/-- entries of Y and Z are the trans-admittances / trans-impedances by definition -/
theorem entry_sound (R : Rep) (d : Derived) (e : M2 K → K)
    (hR : (R = .Y ∧ d = .fwdTransadmittance ∧ e = M2.a21) ∨ (R = .Y ∧ d = .revTransadmittance ∧ e = M2.a12) ∨
          (R = .Z ∧ d = .fwdTransimpedance ∧ e = M2.a21) ∨ (R = .Z ∧ d = .revTransimpedance ∧ e = M2.a12))
    (m : M2 K) (Z0 : K) (p : Port K) (h : rel R m Z0 p) : d.holds (e m) p := by
  obtain ⟨V1, I1, V2, I2⟩ := p
  rcases hR with ⟨rfl, rfl, rfl⟩ | ⟨rfl, rfl, rfl⟩ | ⟨rfl, rfl, rfl⟩ | ⟨rfl, rfl, rfl⟩ <;>
    (simp only [rel, lin, Derived.holds] at h ⊢; obtain ⟨h1, h2⟩ := h; intro h0; grind)

def okd_A_Z1oc (m : M2 K) (Z0 : K) : Prop := m.a21 ≠ 0
theorem A_Z1oc_sound : DerivedSound .A .Z1oc (A_Z1oc (K := K)) okd_A_Z1oc := by
  intro m Z0 p h
  obtain ⟨V1, I1, V2, I2⟩ := p
  simp only [okd_A_Z1oc] at h
  simp only [rel, lin, Derived.holds, A_Z1oc, M2.det]
  rintro ⟨h1, h2⟩ h0
  grind

def okd_A_Z1sc (m : M2 K) (Z0 : K) : Prop := m.a22 ≠ 0
theorem A_Z1sc_sound : DerivedSound .A .Z1sc (A_Z1sc (K := K)) okd_A_Z1sc := by
  intro m Z0 p h
  obtain ⟨V1, I1, V2, I2⟩ := p
  simp only [okd_A_Z1sc] at h
  simp only [rel, lin, Derived.holds, A_Z1sc, M2.det]
  rintro ⟨h1, h2⟩ h0
  grind

def okd_A_Z2oc (m : M2 K) (Z0 : K) : Prop := m.a21 ≠ 0
theorem A_Z2oc_sound : DerivedSound .A .Z2oc (A_Z2oc (K := K)) okd_A_Z2oc := by
  intro m Z0 p h
  obtain ⟨V1, I1, V2, I2⟩ := p
  simp only [okd_A_Z2oc] at h
  simp only [rel, lin, Derived.holds, A_Z2oc, M2.det]
  rintro ⟨h1, h2⟩ h0
  grind

def okd_A_Z2sc (m : M2 K) (Z0 : K) : Prop := m.a11 ≠ 0
theorem A_Z2sc_sound : DerivedSound .A .Z2sc (A_Z2sc (K := K)) okd_A_Z2sc := by
  intro m Z0 p h
  obtain ⟨V1, I1, V2, I2⟩ := p
  simp only [okd_A_Z2sc] at h
  simp only [rel, lin, Derived.holds, A_Z2sc, M2.det]
  rintro ⟨h1, h2⟩ h0
  grind

def okd_A_Vgain12 (m : M2 K) (Z0 : K) : Prop := m.a11 ≠ 0
theorem A_Vgain12_sound : DerivedSound .A .Vgain12 (A_Vgain12 (K := K)) okd_A_Vgain12 := by
  intro m Z0 p h
  obtain ⟨V1, I1, V2, I2⟩ := p
  simp only [okd_A_Vgain12] at h
  simp only [rel, lin, Derived.holds, A_Vgain12, M2.det]
  rintro ⟨h1, h2⟩ h0
  grind

def okd_A_Vgain21 (m : M2 K) (Z0 : K) : Prop := m.a22 ≠ 0
theorem A_Vgain21_sound : DerivedSound .A .Vgain21 (A_Vgain21 (K := K)) okd_A_Vgain21 := by
  intro m Z0 p h
  obtain ⟨V1, I1, V2, I2⟩ := p
  simp only [okd_A_Vgain21] at h
  simp only [rel, lin, Derived.holds, A_Vgain21, M2.det]
  rintro ⟨h1, h2⟩ h0
  grind

def okd_A_Igain12 (m : M2 K) (Z0 : K) : Prop := m.a22 ≠ 0
theorem A_Igain12_sound : DerivedSound .A .Igain12 (A_Igain12 (K := K)) okd_A_Igain12 := by
  intro m Z0 p h
  obtain ⟨V1, I1, V2, I2⟩ := p
  simp only [okd_A_Igain12] at h
  simp only [rel, lin, Derived.holds, A_Igain12, M2.det]
  rintro ⟨h1, h2⟩ h0
  grind

def okd_A_Igain21 (m : M2 K) (Z0 : K) : Prop := m.a11 ≠ 0
theorem A_Igain21_sound : DerivedSound .A .Igain21 (A_Igain21 (K := K)) okd_A_Igain21 := by
  intro m Z0 p h
  obtain ⟨V1, I1, V2, I2⟩ := p
  simp only [okd_A_Igain21] at h
  simp only [rel, lin, Derived.holds, A_Igain21, M2.det]
  rintro ⟨h1, h2⟩ h0
  grind

def okd_A_forward_transadmittance (m : M2 K) (Z0 : K) : Prop := m.a12 ≠ 0
theorem A_forward_transadmittance_sound : DerivedSound .A .fwdTransadmittance (A_forward_transadmittance (K := K)) okd_A_forward_transadmittance := by
  intro m Z0 p h
  obtain ⟨V1, I1, V2, I2⟩ := p
  simp only [okd_A_forward_transadmittance] at h
  simp only [rel, lin, Derived.holds, A_forward_transadmittance, M2.det]
  rintro ⟨h1, h2⟩ h0
  grind

def okd_A_reverse_transadmittance (m : M2 K) (Z0 : K) : Prop := m.a12 ≠ 0
theorem A_reverse_transadmittance_sound : DerivedSound .A .revTransadmittance (A_reverse_transadmittance (K := K)) okd_A_reverse_transadmittance := by
  intro m Z0 p h
  obtain ⟨V1, I1, V2, I2⟩ := p
  simp only [okd_A_reverse_transadmittance] at h
  simp only [rel, lin, Derived.holds, A_reverse_transadmittance, M2.det]
  rintro ⟨h1, h2⟩ h0
  grind

def okd_A_forward_transimpedance (m : M2 K) (Z0 : K) : Prop := ok_A_Z m Z0
theorem A_forward_transimpedance_sound : DerivedSound .A .fwdTransimpedance (A_forward_transimpedance (K := K)) okd_A_forward_transimpedance :=
  fun m Z0 p o h => entry_sound .Z .fwdTransimpedance M2.a21 (by simp) _ Z0 p ((A_to_Z_sound m Z0 p o).mp h)

def okd_A_reverse_transimpedance (m : M2 K) (Z0 : K) : Prop := ok_A_Z m Z0
theorem A_reverse_transimpedance_sound : DerivedSound .A .revTransimpedance (A_reverse_transimpedance (K := K)) okd_A_reverse_transimpedance :=
  fun m Z0 p o h => entry_sound .Z .revTransimpedance M2.a12 (by simp) _ Z0 p ((A_to_Z_sound m Z0 p o).mp h)

def okd_A_voltage_gain (m : M2 K) (Z0 : K) : Prop := okd_A_Vgain12 m Z0
theorem A_voltage_gain_sound : DerivedSound .A .Vgain12 (A_voltage_gain (K := K)) okd_A_voltage_gain :=
  A_Vgain12_sound

def okd_A_forward_voltage_gain (m : M2 K) (Z0 : K) : Prop := okd_A_Vgain12 m Z0
theorem A_forward_voltage_gain_sound : DerivedSound .A .Vgain12 (A_forward_voltage_gain (K := K)) okd_A_forward_voltage_gain :=
  A_Vgain12_sound

def okd_A_reverse_voltage_gain (m : M2 K) (Z0 : K) : Prop := okd_A_Vgain21 m Z0
theorem A_reverse_voltage_gain_sound : DerivedSound .A .Vgain21 (A_reverse_voltage_gain (K := K)) okd_A_reverse_voltage_gain :=
  A_Vgain21_sound

def okd_A_current_gain (m : M2 K) (Z0 : K) : Prop := okd_A_Igain12 m Z0
theorem A_current_gain_sound : DerivedSound .A .Igain12 (A_current_gain (K := K)) okd_A_current_gain :=
  A_Igain12_sound

def okd_A_forward_current_gain (m : M2 K) (Z0 : K) : Prop := okd_A_Igain12 m Z0
theorem A_forward_current_gain_sound : DerivedSound .A .Igain12 (A_forward_current_gain (K := K)) okd_A_forward_current_gain :=
  A_Igain12_sound

def okd_A_reverse_current_gain (m : M2 K) (Z0 : K) : Prop := okd_A_Igain21 m Z0
theorem A_reverse_current_gain_sound : DerivedSound .A .Igain21 (A_reverse_current_gain (K := K)) okd_A_reverse_current_gain :=
  A_Igain21_sound

def okd_A_transadmittance (m : M2 K) (Z0 : K) : Prop := ok_A_Y m Z0
theorem A_transadmittance_sound : DerivedSound .A .fwdTransadmittance (A_transadmittance (K := K)) okd_A_transadmittance :=
  fun m Z0 p o h => entry_sound .Y .fwdTransadmittance M2.a21 (by simp) _ Z0 p ((A_to_Y_sound m Z0 p o).mp h)

def okd_A_transimpedance (m : M2 K) (Z0 : K) : Prop := ok_A_Z m Z0
theorem A_transimpedance_sound : DerivedSound .A .fwdTransimpedance (A_transimpedance (K := K)) okd_A_transimpedance :=
  fun m Z0 p o h => entry_sound .Z .fwdTransimpedance M2.a21 (by simp) _ Z0 p ((A_to_Z_sound m Z0 p o).mp h)

def okd_B_Z1oc (m : M2 K) (Z0 : K) : Prop := m.a21 ≠ 0
theorem B_Z1oc_sound : DerivedSound .B .Z1oc (B_Z1oc (K := K)) okd_B_Z1oc := by
  intro m Z0 p h
  obtain ⟨V1, I1, V2, I2⟩ := p
  simp only [okd_B_Z1oc] at h
  simp only [rel, lin, Derived.holds, B_Z1oc, M2.det]
  rintro ⟨h1, h2⟩ h0
  grind

def okd_B_Z1sc (m : M2 K) (Z0 : K) : Prop := m.a11 ≠ 0
theorem B_Z1sc_sound : DerivedSound .B .Z1sc (B_Z1sc (K := K)) okd_B_Z1sc := by
  intro m Z0 p h
  obtain ⟨V1, I1, V2, I2⟩ := p
  simp only [okd_B_Z1sc] at h
  simp only [rel, lin, Derived.holds, B_Z1sc, M2.det]
  rintro ⟨h1, h2⟩ h0
  grind

def okd_B_Z2oc (m : M2 K) (Z0 : K) : Prop := m.a21 ≠ 0
theorem B_Z2oc_sound : DerivedSound .B .Z2oc (B_Z2oc (K := K)) okd_B_Z2oc := by
  intro m Z0 p h
  obtain ⟨V1, I1, V2, I2⟩ := p
  simp only [okd_B_Z2oc] at h
  simp only [rel, lin, Derived.holds, B_Z2oc, M2.det]
  rintro ⟨h1, h2⟩ h0
  grind

def okd_B_Z2sc (m : M2 K) (Z0 : K) : Prop := m.a22 ≠ 0
theorem B_Z2sc_sound : DerivedSound .B .Z2sc (B_Z2sc (K := K)) okd_B_Z2sc := by
  intro m Z0 p h
  obtain ⟨V1, I1, V2, I2⟩ := p
  simp only [okd_B_Z2sc] at h
  simp only [rel, lin, Derived.holds, B_Z2sc, M2.det]
  rintro ⟨h1, h2⟩ h0
  grind

def okd_B_Vgain12 (m : M2 K) (Z0 : K) : Prop := m.a22 ≠ 0
theorem B_Vgain12_sound : DerivedSound .B .Vgain12 (B_Vgain12 (K := K)) okd_B_Vgain12 := by
  intro m Z0 p h
  obtain ⟨V1, I1, V2, I2⟩ := p
  simp only [okd_B_Vgain12] at h
  simp only [rel, lin, Derived.holds, B_Vgain12, M2.det]
  rintro ⟨h1, h2⟩ h0
  grind

def okd_B_Vgain21 (m : M2 K) (Z0 : K) : Prop := m.a11 ≠ 0
theorem B_Vgain21_sound : DerivedSound .B .Vgain21 (B_Vgain21 (K := K)) okd_B_Vgain21 := by
  intro m Z0 p h
  obtain ⟨V1, I1, V2, I2⟩ := p
  simp only [okd_B_Vgain21] at h
  simp only [rel, lin, Derived.holds, B_Vgain21, M2.det]
  rintro ⟨h1, h2⟩ h0
  grind

def okd_B_Igain12 (m : M2 K) (Z0 : K) : Prop := m.a11 ≠ 0
theorem B_Igain12_sound : DerivedSound .B .Igain12 (B_Igain12 (K := K)) okd_B_Igain12 := by
  intro m Z0 p h
  obtain ⟨V1, I1, V2, I2⟩ := p
  simp only [okd_B_Igain12] at h
  simp only [rel, lin, Derived.holds, B_Igain12, M2.det]
  rintro ⟨h1, h2⟩ h0
  grind

def okd_B_Igain21 (m : M2 K) (Z0 : K) : Prop := m.a22 ≠ 0
theorem B_Igain21_sound : DerivedSound .B .Igain21 (B_Igain21 (K := K)) okd_B_Igain21 := by
  intro m Z0 p h
  obtain ⟨V1, I1, V2, I2⟩ := p
  simp only [okd_B_Igain21] at h
  simp only [rel, lin, Derived.holds, B_Igain21, M2.det]
  rintro ⟨h1, h2⟩ h0
  grind

def okd_B_forward_transadmittance (m : M2 K) (Z0 : K) : Prop := m.a12 ≠ 0
theorem B_forward_transadmittance_sound : DerivedSound .B .fwdTransadmittance (B_forward_transadmittance (K := K)) okd_B_forward_transadmittance := by
  intro m Z0 p h
  obtain ⟨V1, I1, V2, I2⟩ := p
  simp only [okd_B_forward_transadmittance] at h
  simp only [rel, lin, Derived.holds, B_forward_transadmittance, M2.det]
  rintro ⟨h1, h2⟩ h0
  grind

def okd_B_reverse_transadmittance (m : M2 K) (Z0 : K) : Prop := m.a12 ≠ 0
theorem B_reverse_transadmittance_sound : DerivedSound .B .revTransadmittance (B_reverse_transadmittance (K := K)) okd_B_reverse_transadmittance := by
  intro m Z0 p h
  obtain ⟨V1, I1, V2, I2⟩ := p
  simp only [okd_B_reverse_transadmittance] at h
  simp only [rel, lin, Derived.holds, B_reverse_transadmittance, M2.det]
  rintro ⟨h1, h2⟩ h0
  grind

def okd_B_forward_transimpedance (m : M2 K) (Z0 : K) : Prop := ok_B_Z m Z0
theorem B_forward_transimpedance_sound : DerivedSound .B .fwdTransimpedance (B_forward_transimpedance (K := K)) okd_B_forward_transimpedance :=
  fun m Z0 p o h => entry_sound .Z .fwdTransimpedance M2.a21 (by simp) _ Z0 p ((B_to_Z_sound m Z0 p o).mp h)

def okd_B_reverse_transimpedance (m : M2 K) (Z0 : K) : Prop := ok_B_Z m Z0
theorem B_reverse_transimpedance_sound : DerivedSound .B .revTransimpedance (B_reverse_transimpedance (K := K)) okd_B_reverse_transimpedance :=
  fun m Z0 p o h => entry_sound .Z .revTransimpedance M2.a12 (by simp) _ Z0 p ((B_to_Z_sound m Z0 p o).mp h)

def okd_B_voltage_gain (m : M2 K) (Z0 : K) : Prop := okd_B_Vgain12 m Z0
theorem B_voltage_gain_sound : DerivedSound .B .Vgain12 (B_voltage_gain (K := K)) okd_B_voltage_gain :=
  B_Vgain12_sound

def okd_B_forward_voltage_gain (m : M2 K) (Z0 : K) : Prop := okd_B_Vgain12 m Z0
theorem B_forward_voltage_gain_sound : DerivedSound .B .Vgain12 (B_forward_voltage_gain (K := K)) okd_B_forward_voltage_gain :=
  B_Vgain12_sound

def okd_B_reverse_voltage_gain (m : M2 K) (Z0 : K) : Prop := okd_B_Vgain21 m Z0
theorem B_reverse_voltage_gain_sound : DerivedSound .B .Vgain21 (B_reverse_voltage_gain (K := K)) okd_B_reverse_voltage_gain :=
  B_Vgain21_sound

def okd_B_current_gain (m : M2 K) (Z0 : K) : Prop := okd_B_Igain12 m Z0
theorem B_current_gain_sound : DerivedSound .B .Igain12 (B_current_gain (K := K)) okd_B_current_gain :=
  B_Igain12_sound

def okd_B_forward_current_gain (m : M2 K) (Z0 : K) : Prop := okd_B_Igain12 m Z0
theorem B_forward_current_gain_sound : DerivedSound .B .Igain12 (B_forward_current_gain (K := K)) okd_B_forward_current_gain :=
  B_Igain12_sound

def okd_B_reverse_current_gain (m : M2 K) (Z0 : K) : Prop := okd_B_Igain21 m Z0
theorem B_reverse_current_gain_sound : DerivedSound .B .Igain21 (B_reverse_current_gain (K := K)) okd_B_reverse_current_gain :=
  B_Igain21_sound

def okd_B_transadmittance (m : M2 K) (Z0 : K) : Prop := ok_B_Y m Z0
theorem B_transadmittance_sound : DerivedSound .B .fwdTransadmittance (B_transadmittance (K := K)) okd_B_transadmittance :=
  fun m Z0 p o h => entry_sound .Y .fwdTransadmittance M2.a21 (by simp) _ Z0 p ((B_to_Y_sound m Z0 p o).mp h)

def okd_B_transimpedance (m : M2 K) (Z0 : K) : Prop := ok_B_Z m Z0
theorem B_transimpedance_sound : DerivedSound .B .fwdTransimpedance (B_transimpedance (K := K)) okd_B_transimpedance :=
  fun m Z0 p o h => entry_sound .Z .fwdTransimpedance M2.a21 (by simp) _ Z0 p ((B_to_Z_sound m Z0 p o).mp h)

def okd_G_Z1oc (m : M2 K) (Z0 : K) : Prop := ok_G_A m Z0 ∧ okd_A_Z1oc (G_to_A m Z0) Z0
theorem G_Z1oc_sound : DerivedSound .G .Z1oc (G_Z1oc (K := K)) okd_G_Z1oc :=
  DerivedSound.via G_to_A_sound A_Z1oc_sound (fun _ _ => rfl)

def okd_G_Z1sc (m : M2 K) (Z0 : K) : Prop := ok_G_A m Z0 ∧ okd_A_Z1sc (G_to_A m Z0) Z0
theorem G_Z1sc_sound : DerivedSound .G .Z1sc (G_Z1sc (K := K)) okd_G_Z1sc :=
  DerivedSound.via G_to_A_sound A_Z1sc_sound (fun _ _ => rfl)

def okd_G_Z2oc (m : M2 K) (Z0 : K) : Prop := ok_G_A m Z0 ∧ okd_A_Z2oc (G_to_A m Z0) Z0
theorem G_Z2oc_sound : DerivedSound .G .Z2oc (G_Z2oc (K := K)) okd_G_Z2oc :=
  DerivedSound.via G_to_A_sound A_Z2oc_sound (fun _ _ => rfl)

def okd_G_Z2sc (m : M2 K) (Z0 : K) : Prop := ok_G_A m Z0 ∧ okd_A_Z2sc (G_to_A m Z0) Z0
theorem G_Z2sc_sound : DerivedSound .G .Z2sc (G_Z2sc (K := K)) okd_G_Z2sc :=
  DerivedSound.via G_to_A_sound A_Z2sc_sound (fun _ _ => rfl)

def okd_G_Vgain12 (m : M2 K) (Z0 : K) : Prop := ok_G_A m Z0 ∧ okd_A_Vgain12 (G_to_A m Z0) Z0
theorem G_Vgain12_sound : DerivedSound .G .Vgain12 (G_Vgain12 (K := K)) okd_G_Vgain12 :=
  DerivedSound.via G_to_A_sound A_Vgain12_sound (fun _ _ => rfl)

def okd_G_Vgain21 (m : M2 K) (Z0 : K) : Prop := ok_G_A m Z0 ∧ okd_A_Vgain21 (G_to_A m Z0) Z0
theorem G_Vgain21_sound : DerivedSound .G .Vgain21 (G_Vgain21 (K := K)) okd_G_Vgain21 :=
  DerivedSound.via G_to_A_sound A_Vgain21_sound (fun _ _ => rfl)

def okd_G_Igain12 (m : M2 K) (Z0 : K) : Prop := ok_G_A m Z0 ∧ okd_A_Igain12 (G_to_A m Z0) Z0
theorem G_Igain12_sound : DerivedSound .G .Igain12 (G_Igain12 (K := K)) okd_G_Igain12 :=
  DerivedSound.via G_to_A_sound A_Igain12_sound (fun _ _ => rfl)

def okd_G_Igain21 (m : M2 K) (Z0 : K) : Prop := ok_G_A m Z0 ∧ okd_A_Igain21 (G_to_A m Z0) Z0
theorem G_Igain21_sound : DerivedSound .G .Igain21 (G_Igain21 (K := K)) okd_G_Igain21 :=
  DerivedSound.via G_to_A_sound A_Igain21_sound (fun _ _ => rfl)

def okd_G_forward_transadmittance (m : M2 K) (Z0 : K) : Prop := ok_G_Y m Z0
theorem G_forward_transadmittance_sound : DerivedSound .G .fwdTransadmittance (G_forward_transadmittance (K := K)) okd_G_forward_transadmittance :=
  fun m Z0 p o h => entry_sound .Y .fwdTransadmittance M2.a21 (by simp) _ Z0 p ((G_to_Y_sound m Z0 p o).mp h)

def okd_G_reverse_transadmittance (m : M2 K) (Z0 : K) : Prop := ok_G_Y m Z0
theorem G_reverse_transadmittance_sound : DerivedSound .G .revTransadmittance (G_reverse_transadmittance (K := K)) okd_G_reverse_transadmittance :=
  fun m Z0 p o h => entry_sound .Y .revTransadmittance M2.a12 (by simp) _ Z0 p ((G_to_Y_sound m Z0 p o).mp h)

def okd_G_forward_transimpedance (m : M2 K) (Z0 : K) : Prop := ok_G_Z m Z0
theorem G_forward_transimpedance_sound : DerivedSound .G .fwdTransimpedance (G_forward_transimpedance (K := K)) okd_G_forward_transimpedance :=
  fun m Z0 p o h => entry_sound .Z .fwdTransimpedance M2.a21 (by simp) _ Z0 p ((G_to_Z_sound m Z0 p o).mp h)

def okd_G_reverse_transimpedance (m : M2 K) (Z0 : K) : Prop := ok_G_Z m Z0
theorem G_reverse_transimpedance_sound : DerivedSound .G .revTransimpedance (G_reverse_transimpedance (K := K)) okd_G_reverse_transimpedance :=
  fun m Z0 p o h => entry_sound .Z .revTransimpedance M2.a12 (by simp) _ Z0 p ((G_to_Z_sound m Z0 p o).mp h)

def okd_G_voltage_gain (m : M2 K) (Z0 : K) : Prop := okd_G_Vgain12 m Z0
theorem G_voltage_gain_sound : DerivedSound .G .Vgain12 (G_voltage_gain (K := K)) okd_G_voltage_gain :=
  G_Vgain12_sound

def okd_G_forward_voltage_gain (m : M2 K) (Z0 : K) : Prop := okd_G_Vgain12 m Z0
theorem G_forward_voltage_gain_sound : DerivedSound .G .Vgain12 (G_forward_voltage_gain (K := K)) okd_G_forward_voltage_gain :=
  G_Vgain12_sound

def okd_G_reverse_voltage_gain (m : M2 K) (Z0 : K) : Prop := okd_G_Vgain21 m Z0
theorem G_reverse_voltage_gain_sound : DerivedSound .G .Vgain21 (G_reverse_voltage_gain (K := K)) okd_G_reverse_voltage_gain :=
  G_Vgain21_sound

def okd_G_current_gain (m : M2 K) (Z0 : K) : Prop := okd_G_Igain12 m Z0
theorem G_current_gain_sound : DerivedSound .G .Igain12 (G_current_gain (K := K)) okd_G_current_gain :=
  G_Igain12_sound

def okd_G_forward_current_gain (m : M2 K) (Z0 : K) : Prop := okd_G_Igain12 m Z0
theorem G_forward_current_gain_sound : DerivedSound .G .Igain12 (G_forward_current_gain (K := K)) okd_G_forward_current_gain :=
  G_Igain12_sound

def okd_G_reverse_current_gain (m : M2 K) (Z0 : K) : Prop := okd_G_Igain21 m Z0
theorem G_reverse_current_gain_sound : DerivedSound .G .Igain21 (G_reverse_current_gain (K := K)) okd_G_reverse_current_gain :=
  G_Igain21_sound

def okd_G_transadmittance (m : M2 K) (Z0 : K) : Prop := ok_G_Y m Z0
theorem G_transadmittance_sound : DerivedSound .G .fwdTransadmittance (G_transadmittance (K := K)) okd_G_transadmittance :=
  fun m Z0 p o h => entry_sound .Y .fwdTransadmittance M2.a21 (by simp) _ Z0 p ((G_to_Y_sound m Z0 p o).mp h)

def okd_G_transimpedance (m : M2 K) (Z0 : K) : Prop := ok_G_Z m Z0
theorem G_transimpedance_sound : DerivedSound .G .fwdTransimpedance (G_transimpedance (K := K)) okd_G_transimpedance :=
  fun m Z0 p o h => entry_sound .Z .fwdTransimpedance M2.a21 (by simp) _ Z0 p ((G_to_Z_sound m Z0 p o).mp h)

def okd_H_Z1oc (m : M2 K) (Z0 : K) : Prop := ok_H_A m Z0 ∧ okd_A_Z1oc (H_to_A m Z0) Z0
theorem H_Z1oc_sound : DerivedSound .H .Z1oc (H_Z1oc (K := K)) okd_H_Z1oc :=
  DerivedSound.via H_to_A_sound A_Z1oc_sound (fun _ _ => rfl)

def okd_H_Z1sc (m : M2 K) (Z0 : K) : Prop := ok_H_A m Z0 ∧ okd_A_Z1sc (H_to_A m Z0) Z0
theorem H_Z1sc_sound : DerivedSound .H .Z1sc (H_Z1sc (K := K)) okd_H_Z1sc :=
  DerivedSound.via H_to_A_sound A_Z1sc_sound (fun _ _ => rfl)

def okd_H_Z2oc (m : M2 K) (Z0 : K) : Prop := ok_H_A m Z0 ∧ okd_A_Z2oc (H_to_A m Z0) Z0
theorem H_Z2oc_sound : DerivedSound .H .Z2oc (H_Z2oc (K := K)) okd_H_Z2oc :=
  DerivedSound.via H_to_A_sound A_Z2oc_sound (fun _ _ => rfl)

def okd_H_Z2sc (m : M2 K) (Z0 : K) : Prop := ok_H_A m Z0 ∧ okd_A_Z2sc (H_to_A m Z0) Z0
theorem H_Z2sc_sound : DerivedSound .H .Z2sc (H_Z2sc (K := K)) okd_H_Z2sc :=
  DerivedSound.via H_to_A_sound A_Z2sc_sound (fun _ _ => rfl)

def okd_H_Vgain12 (m : M2 K) (Z0 : K) : Prop := ok_H_A m Z0 ∧ okd_A_Vgain12 (H_to_A m Z0) Z0
theorem H_Vgain12_sound : DerivedSound .H .Vgain12 (H_Vgain12 (K := K)) okd_H_Vgain12 :=
  DerivedSound.via H_to_A_sound A_Vgain12_sound (fun _ _ => rfl)

def okd_H_Vgain21 (m : M2 K) (Z0 : K) : Prop := ok_H_A m Z0 ∧ okd_A_Vgain21 (H_to_A m Z0) Z0
theorem H_Vgain21_sound : DerivedSound .H .Vgain21 (H_Vgain21 (K := K)) okd_H_Vgain21 :=
  DerivedSound.via H_to_A_sound A_Vgain21_sound (fun _ _ => rfl)

def okd_H_Igain12 (m : M2 K) (Z0 : K) : Prop := ok_H_A m Z0 ∧ okd_A_Igain12 (H_to_A m Z0) Z0
theorem H_Igain12_sound : DerivedSound .H .Igain12 (H_Igain12 (K := K)) okd_H_Igain12 :=
  DerivedSound.via H_to_A_sound A_Igain12_sound (fun _ _ => rfl)

def okd_H_Igain21 (m : M2 K) (Z0 : K) : Prop := ok_H_A m Z0 ∧ okd_A_Igain21 (H_to_A m Z0) Z0
theorem H_Igain21_sound : DerivedSound .H .Igain21 (H_Igain21 (K := K)) okd_H_Igain21 :=
  DerivedSound.via H_to_A_sound A_Igain21_sound (fun _ _ => rfl)

def okd_H_forward_transadmittance (m : M2 K) (Z0 : K) : Prop := ok_H_Y m Z0
theorem H_forward_transadmittance_sound : DerivedSound .H .fwdTransadmittance (H_forward_transadmittance (K := K)) okd_H_forward_transadmittance :=
  fun m Z0 p o h => entry_sound .Y .fwdTransadmittance M2.a21 (by simp) _ Z0 p ((H_to_Y_sound m Z0 p o).mp h)

def okd_H_reverse_transadmittance (m : M2 K) (Z0 : K) : Prop := ok_H_Y m Z0
theorem H_reverse_transadmittance_sound : DerivedSound .H .revTransadmittance (H_reverse_transadmittance (K := K)) okd_H_reverse_transadmittance :=
  fun m Z0 p o h => entry_sound .Y .revTransadmittance M2.a12 (by simp) _ Z0 p ((H_to_Y_sound m Z0 p o).mp h)

def okd_H_forward_transimpedance (m : M2 K) (Z0 : K) : Prop := ok_H_Z m Z0
theorem H_forward_transimpedance_sound : DerivedSound .H .fwdTransimpedance (H_forward_transimpedance (K := K)) okd_H_forward_transimpedance :=
  fun m Z0 p o h => entry_sound .Z .fwdTransimpedance M2.a21 (by simp) _ Z0 p ((H_to_Z_sound m Z0 p o).mp h)

def okd_H_reverse_transimpedance (m : M2 K) (Z0 : K) : Prop := ok_H_Z m Z0
theorem H_reverse_transimpedance_sound : DerivedSound .H .revTransimpedance (H_reverse_transimpedance (K := K)) okd_H_reverse_transimpedance :=
  fun m Z0 p o h => entry_sound .Z .revTransimpedance M2.a12 (by simp) _ Z0 p ((H_to_Z_sound m Z0 p o).mp h)

def okd_H_voltage_gain (m : M2 K) (Z0 : K) : Prop := okd_H_Vgain12 m Z0
theorem H_voltage_gain_sound : DerivedSound .H .Vgain12 (H_voltage_gain (K := K)) okd_H_voltage_gain :=
  H_Vgain12_sound

def okd_H_forward_voltage_gain (m : M2 K) (Z0 : K) : Prop := okd_H_Vgain12 m Z0
theorem H_forward_voltage_gain_sound : DerivedSound .H .Vgain12 (H_forward_voltage_gain (K := K)) okd_H_forward_voltage_gain :=
  H_Vgain12_sound

def okd_H_reverse_voltage_gain (m : M2 K) (Z0 : K) : Prop := okd_H_Vgain21 m Z0
theorem H_reverse_voltage_gain_sound : DerivedSound .H .Vgain21 (H_reverse_voltage_gain (K := K)) okd_H_reverse_voltage_gain :=
  H_Vgain21_sound

def okd_H_current_gain (m : M2 K) (Z0 : K) : Prop := okd_H_Igain12 m Z0
theorem H_current_gain_sound : DerivedSound .H .Igain12 (H_current_gain (K := K)) okd_H_current_gain :=
  H_Igain12_sound

def okd_H_forward_current_gain (m : M2 K) (Z0 : K) : Prop := okd_H_Igain12 m Z0
theorem H_forward_current_gain_sound : DerivedSound .H .Igain12 (H_forward_current_gain (K := K)) okd_H_forward_current_gain :=
  H_Igain12_sound

def okd_H_reverse_current_gain (m : M2 K) (Z0 : K) : Prop := okd_H_Igain21 m Z0
theorem H_reverse_current_gain_sound : DerivedSound .H .Igain21 (H_reverse_current_gain (K := K)) okd_H_reverse_current_gain :=
  H_Igain21_sound

def okd_H_transadmittance (m : M2 K) (Z0 : K) : Prop := ok_H_Y m Z0
theorem H_transadmittance_sound : DerivedSound .H .fwdTransadmittance (H_transadmittance (K := K)) okd_H_transadmittance :=
  fun m Z0 p o h => entry_sound .Y .fwdTransadmittance M2.a21 (by simp) _ Z0 p ((H_to_Y_sound m Z0 p o).mp h)

def okd_H_transimpedance (m : M2 K) (Z0 : K) : Prop := ok_H_Z m Z0
theorem H_transimpedance_sound : DerivedSound .H .fwdTransimpedance (H_transimpedance (K := K)) okd_H_transimpedance :=
  fun m Z0 p o h => entry_sound .Z .fwdTransimpedance M2.a21 (by simp) _ Z0 p ((H_to_Z_sound m Z0 p o).mp h)

def okd_S_Z1oc (m : M2 K) (Z0 : K) : Prop := ok_S_A m Z0 ∧ okd_A_Z1oc (S_to_A m Z0) Z0
theorem S_Z1oc_sound : DerivedSound .S .Z1oc (S_Z1oc (K := K)) okd_S_Z1oc :=
  DerivedSound.via S_to_A_sound A_Z1oc_sound (fun _ _ => rfl)

def okd_S_Z1sc (m : M2 K) (Z0 : K) : Prop := ok_S_A m Z0 ∧ okd_A_Z1sc (S_to_A m Z0) Z0
theorem S_Z1sc_sound : DerivedSound .S .Z1sc (S_Z1sc (K := K)) okd_S_Z1sc :=
  DerivedSound.via S_to_A_sound A_Z1sc_sound (fun _ _ => rfl)

def okd_S_Z2oc (m : M2 K) (Z0 : K) : Prop := ok_S_A m Z0 ∧ okd_A_Z2oc (S_to_A m Z0) Z0
theorem S_Z2oc_sound : DerivedSound .S .Z2oc (S_Z2oc (K := K)) okd_S_Z2oc :=
  DerivedSound.via S_to_A_sound A_Z2oc_sound (fun _ _ => rfl)

def okd_S_Z2sc (m : M2 K) (Z0 : K) : Prop := ok_S_A m Z0 ∧ okd_A_Z2sc (S_to_A m Z0) Z0
theorem S_Z2sc_sound : DerivedSound .S .Z2sc (S_Z2sc (K := K)) okd_S_Z2sc :=
  DerivedSound.via S_to_A_sound A_Z2sc_sound (fun _ _ => rfl)

def okd_S_Vgain12 (m : M2 K) (Z0 : K) : Prop := ok_S_A m Z0 ∧ okd_A_Vgain12 (S_to_A m Z0) Z0
theorem S_Vgain12_sound : DerivedSound .S .Vgain12 (S_Vgain12 (K := K)) okd_S_Vgain12 :=
  DerivedSound.via S_to_A_sound A_Vgain12_sound (fun _ _ => rfl)

def okd_S_Vgain21 (m : M2 K) (Z0 : K) : Prop := ok_S_A m Z0 ∧ okd_A_Vgain21 (S_to_A m Z0) Z0
theorem S_Vgain21_sound : DerivedSound .S .Vgain21 (S_Vgain21 (K := K)) okd_S_Vgain21 :=
  DerivedSound.via S_to_A_sound A_Vgain21_sound (fun _ _ => rfl)

def okd_S_Igain12 (m : M2 K) (Z0 : K) : Prop := ok_S_A m Z0 ∧ okd_A_Igain12 (S_to_A m Z0) Z0
theorem S_Igain12_sound : DerivedSound .S .Igain12 (S_Igain12 (K := K)) okd_S_Igain12 :=
  DerivedSound.via S_to_A_sound A_Igain12_sound (fun _ _ => rfl)

def okd_S_Igain21 (m : M2 K) (Z0 : K) : Prop := ok_S_A m Z0 ∧ okd_A_Igain21 (S_to_A m Z0) Z0
theorem S_Igain21_sound : DerivedSound .S .Igain21 (S_Igain21 (K := K)) okd_S_Igain21 :=
  DerivedSound.via S_to_A_sound A_Igain21_sound (fun _ _ => rfl)

def okd_S_forward_transadmittance (m : M2 K) (Z0 : K) : Prop := ok_S_Y m Z0
theorem S_forward_transadmittance_sound : DerivedSound .S .fwdTransadmittance (S_forward_transadmittance (K := K)) okd_S_forward_transadmittance :=
  fun m Z0 p o h => entry_sound .Y .fwdTransadmittance M2.a21 (by simp) _ Z0 p ((S_to_Y_sound m Z0 p o).mp h)

def okd_S_reverse_transadmittance (m : M2 K) (Z0 : K) : Prop := ok_S_Y m Z0
theorem S_reverse_transadmittance_sound : DerivedSound .S .revTransadmittance (S_reverse_transadmittance (K := K)) okd_S_reverse_transadmittance :=
  fun m Z0 p o h => entry_sound .Y .revTransadmittance M2.a12 (by simp) _ Z0 p ((S_to_Y_sound m Z0 p o).mp h)

def okd_S_forward_transimpedance (m : M2 K) (Z0 : K) : Prop := ok_S_Z m Z0
theorem S_forward_transimpedance_sound : DerivedSound .S .fwdTransimpedance (S_forward_transimpedance (K := K)) okd_S_forward_transimpedance :=
  fun m Z0 p o h => entry_sound .Z .fwdTransimpedance M2.a21 (by simp) _ Z0 p ((S_to_Z_sound m Z0 p o).mp h)

def okd_S_reverse_transimpedance (m : M2 K) (Z0 : K) : Prop := ok_S_Z m Z0
theorem S_reverse_transimpedance_sound : DerivedSound .S .revTransimpedance (S_reverse_transimpedance (K := K)) okd_S_reverse_transimpedance :=
  fun m Z0 p o h => entry_sound .Z .revTransimpedance M2.a12 (by simp) _ Z0 p ((S_to_Z_sound m Z0 p o).mp h)

def okd_S_voltage_gain (m : M2 K) (Z0 : K) : Prop := okd_S_Vgain12 m Z0
theorem S_voltage_gain_sound : DerivedSound .S .Vgain12 (S_voltage_gain (K := K)) okd_S_voltage_gain :=
  S_Vgain12_sound

def okd_S_forward_voltage_gain (m : M2 K) (Z0 : K) : Prop := okd_S_Vgain12 m Z0
theorem S_forward_voltage_gain_sound : DerivedSound .S .Vgain12 (S_forward_voltage_gain (K := K)) okd_S_forward_voltage_gain :=
  S_Vgain12_sound

def okd_S_reverse_voltage_gain (m : M2 K) (Z0 : K) : Prop := okd_S_Vgain21 m Z0
theorem S_reverse_voltage_gain_sound : DerivedSound .S .Vgain21 (S_reverse_voltage_gain (K := K)) okd_S_reverse_voltage_gain :=
  S_Vgain21_sound

def okd_S_current_gain (m : M2 K) (Z0 : K) : Prop := okd_S_Igain12 m Z0
theorem S_current_gain_sound : DerivedSound .S .Igain12 (S_current_gain (K := K)) okd_S_current_gain :=
  S_Igain12_sound

def okd_S_forward_current_gain (m : M2 K) (Z0 : K) : Prop := okd_S_Igain12 m Z0
theorem S_forward_current_gain_sound : DerivedSound .S .Igain12 (S_forward_current_gain (K := K)) okd_S_forward_current_gain :=
  S_Igain12_sound

def okd_S_reverse_current_gain (m : M2 K) (Z0 : K) : Prop := okd_S_Igain21 m Z0
theorem S_reverse_current_gain_sound : DerivedSound .S .Igain21 (S_reverse_current_gain (K := K)) okd_S_reverse_current_gain :=
  S_Igain21_sound

def okd_S_transadmittance (m : M2 K) (Z0 : K) : Prop := ok_S_Y m Z0
theorem S_transadmittance_sound : DerivedSound .S .fwdTransadmittance (S_transadmittance (K := K)) okd_S_transadmittance :=
  fun m Z0 p o h => entry_sound .Y .fwdTransadmittance M2.a21 (by simp) _ Z0 p ((S_to_Y_sound m Z0 p o).mp h)

def okd_S_transimpedance (m : M2 K) (Z0 : K) : Prop := ok_S_Z m Z0
theorem S_transimpedance_sound : DerivedSound .S .fwdTransimpedance (S_transimpedance (K := K)) okd_S_transimpedance :=
  fun m Z0 p o h => entry_sound .Z .fwdTransimpedance M2.a21 (by simp) _ Z0 p ((S_to_Z_sound m Z0 p o).mp h)

def okd_T_Z1oc (m : M2 K) (Z0 : K) : Prop := ok_T_A m Z0 ∧ okd_A_Z1oc (T_to_A m Z0) Z0
theorem T_Z1oc_sound : DerivedSound .T .Z1oc (T_Z1oc (K := K)) okd_T_Z1oc :=
  DerivedSound.via T_to_A_sound A_Z1oc_sound (fun _ _ => rfl)

def okd_T_Z1sc (m : M2 K) (Z0 : K) : Prop := ok_T_A m Z0 ∧ okd_A_Z1sc (T_to_A m Z0) Z0
theorem T_Z1sc_sound : DerivedSound .T .Z1sc (T_Z1sc (K := K)) okd_T_Z1sc :=
  DerivedSound.via T_to_A_sound A_Z1sc_sound (fun _ _ => rfl)

def okd_T_Z2oc (m : M2 K) (Z0 : K) : Prop := ok_T_A m Z0 ∧ okd_A_Z2oc (T_to_A m Z0) Z0
theorem T_Z2oc_sound : DerivedSound .T .Z2oc (T_Z2oc (K := K)) okd_T_Z2oc :=
  DerivedSound.via T_to_A_sound A_Z2oc_sound (fun _ _ => rfl)

def okd_T_Z2sc (m : M2 K) (Z0 : K) : Prop := ok_T_A m Z0 ∧ okd_A_Z2sc (T_to_A m Z0) Z0
theorem T_Z2sc_sound : DerivedSound .T .Z2sc (T_Z2sc (K := K)) okd_T_Z2sc :=
  DerivedSound.via T_to_A_sound A_Z2sc_sound (fun _ _ => rfl)

def okd_T_Vgain12 (m : M2 K) (Z0 : K) : Prop := ok_T_A m Z0 ∧ okd_A_Vgain12 (T_to_A m Z0) Z0
theorem T_Vgain12_sound : DerivedSound .T .Vgain12 (T_Vgain12 (K := K)) okd_T_Vgain12 :=
  DerivedSound.via T_to_A_sound A_Vgain12_sound (fun _ _ => rfl)

def okd_T_Vgain21 (m : M2 K) (Z0 : K) : Prop := ok_T_A m Z0 ∧ okd_A_Vgain21 (T_to_A m Z0) Z0
theorem T_Vgain21_sound : DerivedSound .T .Vgain21 (T_Vgain21 (K := K)) okd_T_Vgain21 :=
  DerivedSound.via T_to_A_sound A_Vgain21_sound (fun _ _ => rfl)

def okd_T_Igain12 (m : M2 K) (Z0 : K) : Prop := ok_T_A m Z0 ∧ okd_A_Igain12 (T_to_A m Z0) Z0
theorem T_Igain12_sound : DerivedSound .T .Igain12 (T_Igain12 (K := K)) okd_T_Igain12 :=
  DerivedSound.via T_to_A_sound A_Igain12_sound (fun _ _ => rfl)

def okd_T_Igain21 (m : M2 K) (Z0 : K) : Prop := ok_T_A m Z0 ∧ okd_A_Igain21 (T_to_A m Z0) Z0
theorem T_Igain21_sound : DerivedSound .T .Igain21 (T_Igain21 (K := K)) okd_T_Igain21 :=
  DerivedSound.via T_to_A_sound A_Igain21_sound (fun _ _ => rfl)

def okd_T_forward_transadmittance (m : M2 K) (Z0 : K) : Prop := ok_T_Y m Z0
theorem T_forward_transadmittance_sound : DerivedSound .T .fwdTransadmittance (T_forward_transadmittance (K := K)) okd_T_forward_transadmittance :=
  fun m Z0 p o h => entry_sound .Y .fwdTransadmittance M2.a21 (by simp) _ Z0 p ((T_to_Y_sound m Z0 p o).mp h)

def okd_T_reverse_transadmittance (m : M2 K) (Z0 : K) : Prop := ok_T_Y m Z0
theorem T_reverse_transadmittance_sound : DerivedSound .T .revTransadmittance (T_reverse_transadmittance (K := K)) okd_T_reverse_transadmittance :=
  fun m Z0 p o h => entry_sound .Y .revTransadmittance M2.a12 (by simp) _ Z0 p ((T_to_Y_sound m Z0 p o).mp h)

def okd_T_forward_transimpedance (m : M2 K) (Z0 : K) : Prop := ok_T_Z m Z0
theorem T_forward_transimpedance_sound : DerivedSound .T .fwdTransimpedance (T_forward_transimpedance (K := K)) okd_T_forward_transimpedance :=
  fun m Z0 p o h => entry_sound .Z .fwdTransimpedance M2.a21 (by simp) _ Z0 p ((T_to_Z_sound m Z0 p o).mp h)

def okd_T_reverse_transimpedance (m : M2 K) (Z0 : K) : Prop := ok_T_Z m Z0
theorem T_reverse_transimpedance_sound : DerivedSound .T .revTransimpedance (T_reverse_transimpedance (K := K)) okd_T_reverse_transimpedance :=
  fun m Z0 p o h => entry_sound .Z .revTransimpedance M2.a12 (by simp) _ Z0 p ((T_to_Z_sound m Z0 p o).mp h)

def okd_T_voltage_gain (m : M2 K) (Z0 : K) : Prop := okd_T_Vgain12 m Z0
theorem T_voltage_gain_sound : DerivedSound .T .Vgain12 (T_voltage_gain (K := K)) okd_T_voltage_gain :=
  T_Vgain12_sound

def okd_T_forward_voltage_gain (m : M2 K) (Z0 : K) : Prop := okd_T_Vgain12 m Z0
theorem T_forward_voltage_gain_sound : DerivedSound .T .Vgain12 (T_forward_voltage_gain (K := K)) okd_T_forward_voltage_gain :=
  T_Vgain12_sound

def okd_T_reverse_voltage_gain (m : M2 K) (Z0 : K) : Prop := okd_T_Vgain21 m Z0
theorem T_reverse_voltage_gain_sound : DerivedSound .T .Vgain21 (T_reverse_voltage_gain (K := K)) okd_T_reverse_voltage_gain :=
  T_Vgain21_sound

def okd_T_current_gain (m : M2 K) (Z0 : K) : Prop := okd_T_Igain12 m Z0
theorem T_current_gain_sound : DerivedSound .T .Igain12 (T_current_gain (K := K)) okd_T_current_gain :=
  T_Igain12_sound

def okd_T_forward_current_gain (m : M2 K) (Z0 : K) : Prop := okd_T_Igain12 m Z0
theorem T_forward_current_gain_sound : DerivedSound .T .Igain12 (T_forward_current_gain (K := K)) okd_T_forward_current_gain :=
  T_Igain12_sound

def okd_T_reverse_current_gain (m : M2 K) (Z0 : K) : Prop := okd_T_Igain21 m Z0
theorem T_reverse_current_gain_sound : DerivedSound .T .Igain21 (T_reverse_current_gain (K := K)) okd_T_reverse_current_gain :=
  T_Igain21_sound

def okd_T_transadmittance (m : M2 K) (Z0 : K) : Prop := ok_T_Y m Z0
theorem T_transadmittance_sound : DerivedSound .T .fwdTransadmittance (T_transadmittance (K := K)) okd_T_transadmittance :=
  fun m Z0 p o h => entry_sound .Y .fwdTransadmittance M2.a21 (by simp) _ Z0 p ((T_to_Y_sound m Z0 p o).mp h)

def okd_T_transimpedance (m : M2 K) (Z0 : K) : Prop := ok_T_Z m Z0
theorem T_transimpedance_sound : DerivedSound .T .fwdTransimpedance (T_transimpedance (K := K)) okd_T_transimpedance :=
  fun m Z0 p o h => entry_sound .Z .fwdTransimpedance M2.a21 (by simp) _ Z0 p ((T_to_Z_sound m Z0 p o).mp h)

def okd_Y_Z1oc (m : M2 K) (Z0 : K) : Prop := ok_Y_A m Z0 ∧ okd_A_Z1oc (Y_to_A m Z0) Z0
theorem Y_Z1oc_sound : DerivedSound .Y .Z1oc (Y_Z1oc (K := K)) okd_Y_Z1oc :=
  DerivedSound.via Y_to_A_sound A_Z1oc_sound (fun _ _ => rfl)

def okd_Y_Z1sc (m : M2 K) (Z0 : K) : Prop := m.a11 ≠ 0
theorem Y_Z1sc_sound : DerivedSound .Y .Z1sc (Y_Z1sc (K := K)) okd_Y_Z1sc := by
  intro m Z0 p h
  obtain ⟨V1, I1, V2, I2⟩ := p
  simp only [okd_Y_Z1sc] at h
  simp only [rel, lin, Derived.holds, Y_Z1sc, M2.det]
  rintro ⟨h1, h2⟩ h0
  grind

def okd_Y_Z2oc (m : M2 K) (Z0 : K) : Prop := ok_Y_A m Z0 ∧ okd_A_Z2oc (Y_to_A m Z0) Z0
theorem Y_Z2oc_sound : DerivedSound .Y .Z2oc (Y_Z2oc (K := K)) okd_Y_Z2oc :=
  DerivedSound.via Y_to_A_sound A_Z2oc_sound (fun _ _ => rfl)

def okd_Y_Z2sc (m : M2 K) (Z0 : K) : Prop := m.a22 ≠ 0
theorem Y_Z2sc_sound : DerivedSound .Y .Z2sc (Y_Z2sc (K := K)) okd_Y_Z2sc := by
  intro m Z0 p h
  obtain ⟨V1, I1, V2, I2⟩ := p
  simp only [okd_Y_Z2sc] at h
  simp only [rel, lin, Derived.holds, Y_Z2sc, M2.det]
  rintro ⟨h1, h2⟩ h0
  grind

def okd_Y_Vgain12 (m : M2 K) (Z0 : K) : Prop := m.a22 ≠ 0
theorem Y_Vgain12_sound : DerivedSound .Y .Vgain12 (Y_Vgain12 (K := K)) okd_Y_Vgain12 := by
  intro m Z0 p h
  obtain ⟨V1, I1, V2, I2⟩ := p
  simp only [okd_Y_Vgain12] at h
  simp only [rel, lin, Derived.holds, Y_Vgain12, M2.det]
  rintro ⟨h1, h2⟩ h0
  grind

def okd_Y_Vgain21 (m : M2 K) (Z0 : K) : Prop := m.a11 ≠ 0
theorem Y_Vgain21_sound : DerivedSound .Y .Vgain21 (Y_Vgain21 (K := K)) okd_Y_Vgain21 := by
  intro m Z0 p h
  obtain ⟨V1, I1, V2, I2⟩ := p
  simp only [okd_Y_Vgain21] at h
  simp only [rel, lin, Derived.holds, Y_Vgain21, M2.det]
  rintro ⟨h1, h2⟩ h0
  grind

def okd_Y_Igain12 (m : M2 K) (Z0 : K) : Prop := m.a11 ≠ 0
theorem Y_Igain12_sound : DerivedSound .Y .Igain12 (Y_Igain12 (K := K)) okd_Y_Igain12 := by
  intro m Z0 p h
  obtain ⟨V1, I1, V2, I2⟩ := p
  simp only [okd_Y_Igain12] at h
  simp only [rel, lin, Derived.holds, Y_Igain12, M2.det]
  rintro ⟨h1, h2⟩ h0
  grind

def okd_Y_Igain21 (m : M2 K) (Z0 : K) : Prop := m.a22 ≠ 0
theorem Y_Igain21_sound : DerivedSound .Y .Igain21 (Y_Igain21 (K := K)) okd_Y_Igain21 := by
  intro m Z0 p h
  obtain ⟨V1, I1, V2, I2⟩ := p
  simp only [okd_Y_Igain21] at h
  simp only [rel, lin, Derived.holds, Y_Igain21, M2.det]
  rintro ⟨h1, h2⟩ h0
  grind

def okd_Y_forward_transadmittance (m : M2 K) (Z0 : K) : Prop := True
theorem Y_forward_transadmittance_sound : DerivedSound .Y .fwdTransadmittance (Y_forward_transadmittance (K := K)) okd_Y_forward_transadmittance :=
  fun m Z0 p o h => entry_sound .Y .fwdTransadmittance M2.a21 (by simp) m Z0 p h

def okd_Y_reverse_transadmittance (m : M2 K) (Z0 : K) : Prop := True
theorem Y_reverse_transadmittance_sound : DerivedSound .Y .revTransadmittance (Y_reverse_transadmittance (K := K)) okd_Y_reverse_transadmittance :=
  fun m Z0 p o h => entry_sound .Y .revTransadmittance M2.a12 (by simp) m Z0 p h

def okd_Y_forward_transimpedance (m : M2 K) (Z0 : K) : Prop := ok_Y_Z m Z0
theorem Y_forward_transimpedance_sound : DerivedSound .Y .fwdTransimpedance (Y_forward_transimpedance (K := K)) okd_Y_forward_transimpedance :=
  fun m Z0 p o h => entry_sound .Z .fwdTransimpedance M2.a21 (by simp) _ Z0 p ((Y_to_Z_sound m Z0 p o).mp h)

def okd_Y_reverse_transimpedance (m : M2 K) (Z0 : K) : Prop := ok_Y_Z m Z0
theorem Y_reverse_transimpedance_sound : DerivedSound .Y .revTransimpedance (Y_reverse_transimpedance (K := K)) okd_Y_reverse_transimpedance :=
  fun m Z0 p o h => entry_sound .Z .revTransimpedance M2.a12 (by simp) _ Z0 p ((Y_to_Z_sound m Z0 p o).mp h)

def okd_Y_voltage_gain (m : M2 K) (Z0 : K) : Prop := okd_Y_Vgain12 m Z0
theorem Y_voltage_gain_sound : DerivedSound .Y .Vgain12 (Y_voltage_gain (K := K)) okd_Y_voltage_gain :=
  Y_Vgain12_sound

def okd_Y_forward_voltage_gain (m : M2 K) (Z0 : K) : Prop := okd_Y_Vgain12 m Z0
theorem Y_forward_voltage_gain_sound : DerivedSound .Y .Vgain12 (Y_forward_voltage_gain (K := K)) okd_Y_forward_voltage_gain :=
  Y_Vgain12_sound

def okd_Y_reverse_voltage_gain (m : M2 K) (Z0 : K) : Prop := okd_Y_Vgain21 m Z0
theorem Y_reverse_voltage_gain_sound : DerivedSound .Y .Vgain21 (Y_reverse_voltage_gain (K := K)) okd_Y_reverse_voltage_gain :=
  Y_Vgain21_sound

def okd_Y_current_gain (m : M2 K) (Z0 : K) : Prop := okd_Y_Igain12 m Z0
theorem Y_current_gain_sound : DerivedSound .Y .Igain12 (Y_current_gain (K := K)) okd_Y_current_gain :=
  Y_Igain12_sound

def okd_Y_forward_current_gain (m : M2 K) (Z0 : K) : Prop := okd_Y_Igain12 m Z0
theorem Y_forward_current_gain_sound : DerivedSound .Y .Igain12 (Y_forward_current_gain (K := K)) okd_Y_forward_current_gain :=
  Y_Igain12_sound

def okd_Y_reverse_current_gain (m : M2 K) (Z0 : K) : Prop := okd_Y_Igain21 m Z0
theorem Y_reverse_current_gain_sound : DerivedSound .Y .Igain21 (Y_reverse_current_gain (K := K)) okd_Y_reverse_current_gain :=
  Y_Igain21_sound

def okd_Y_transadmittance (m : M2 K) (Z0 : K) : Prop := True
theorem Y_transadmittance_sound : DerivedSound .Y .fwdTransadmittance (Y_transadmittance (K := K)) okd_Y_transadmittance :=
  fun m Z0 p o h => entry_sound .Y .fwdTransadmittance M2.a21 (by simp) m Z0 p h

def okd_Y_transimpedance (m : M2 K) (Z0 : K) : Prop := ok_Y_Z m Z0
theorem Y_transimpedance_sound : DerivedSound .Y .fwdTransimpedance (Y_transimpedance (K := K)) okd_Y_transimpedance :=
  fun m Z0 p o h => entry_sound .Z .fwdTransimpedance M2.a21 (by simp) _ Z0 p ((Y_to_Z_sound m Z0 p o).mp h)

def okd_Z_Z1oc (m : M2 K) (Z0 : K) : Prop := True
theorem Z_Z1oc_sound : DerivedSound .Z .Z1oc (Z_Z1oc (K := K)) okd_Z_Z1oc := by
  intro m Z0 p h
  obtain ⟨V1, I1, V2, I2⟩ := p
  simp only [okd_Z_Z1oc] at h
  simp only [rel, lin, Derived.holds, Z_Z1oc, M2.det]
  rintro ⟨h1, h2⟩ h0
  grind

def okd_Z_Z1sc (m : M2 K) (Z0 : K) : Prop := ok_Z_A m Z0 ∧ okd_A_Z1sc (Z_to_A m Z0) Z0
theorem Z_Z1sc_sound : DerivedSound .Z .Z1sc (Z_Z1sc (K := K)) okd_Z_Z1sc :=
  DerivedSound.via Z_to_A_sound A_Z1sc_sound (fun _ _ => rfl)

def okd_Z_Z2oc (m : M2 K) (Z0 : K) : Prop := True
theorem Z_Z2oc_sound : DerivedSound .Z .Z2oc (Z_Z2oc (K := K)) okd_Z_Z2oc := by
  intro m Z0 p h
  obtain ⟨V1, I1, V2, I2⟩ := p
  simp only [okd_Z_Z2oc] at h
  simp only [rel, lin, Derived.holds, Z_Z2oc, M2.det]
  rintro ⟨h1, h2⟩ h0
  grind

def okd_Z_Z2sc (m : M2 K) (Z0 : K) : Prop := ok_Z_A m Z0 ∧ okd_A_Z2sc (Z_to_A m Z0) Z0
theorem Z_Z2sc_sound : DerivedSound .Z .Z2sc (Z_Z2sc (K := K)) okd_Z_Z2sc :=
  DerivedSound.via Z_to_A_sound A_Z2sc_sound (fun _ _ => rfl)

def okd_Z_Vgain12 (m : M2 K) (Z0 : K) : Prop := m.a11 ≠ 0
theorem Z_Vgain12_sound : DerivedSound .Z .Vgain12 (Z_Vgain12 (K := K)) okd_Z_Vgain12 := by
  intro m Z0 p h
  obtain ⟨V1, I1, V2, I2⟩ := p
  simp only [okd_Z_Vgain12] at h
  simp only [rel, lin, Derived.holds, Z_Vgain12, M2.det]
  rintro ⟨h1, h2⟩ h0
  grind

def okd_Z_Vgain21 (m : M2 K) (Z0 : K) : Prop := m.a22 ≠ 0
theorem Z_Vgain21_sound : DerivedSound .Z .Vgain21 (Z_Vgain21 (K := K)) okd_Z_Vgain21 := by
  intro m Z0 p h
  obtain ⟨V1, I1, V2, I2⟩ := p
  simp only [okd_Z_Vgain21] at h
  simp only [rel, lin, Derived.holds, Z_Vgain21, M2.det]
  rintro ⟨h1, h2⟩ h0
  grind

def okd_Z_Igain12 (m : M2 K) (Z0 : K) : Prop := m.a22 ≠ 0
theorem Z_Igain12_sound : DerivedSound .Z .Igain12 (Z_Igain12 (K := K)) okd_Z_Igain12 := by
  intro m Z0 p h
  obtain ⟨V1, I1, V2, I2⟩ := p
  simp only [okd_Z_Igain12] at h
  simp only [rel, lin, Derived.holds, Z_Igain12, M2.det]
  rintro ⟨h1, h2⟩ h0
  grind

def okd_Z_Igain21 (m : M2 K) (Z0 : K) : Prop := m.a11 ≠ 0
theorem Z_Igain21_sound : DerivedSound .Z .Igain21 (Z_Igain21 (K := K)) okd_Z_Igain21 := by
  intro m Z0 p h
  obtain ⟨V1, I1, V2, I2⟩ := p
  simp only [okd_Z_Igain21] at h
  simp only [rel, lin, Derived.holds, Z_Igain21, M2.det]
  rintro ⟨h1, h2⟩ h0
  grind

def okd_Z_forward_transadmittance (m : M2 K) (Z0 : K) : Prop := ok_Z_Y m Z0
theorem Z_forward_transadmittance_sound : DerivedSound .Z .fwdTransadmittance (Z_forward_transadmittance (K := K)) okd_Z_forward_transadmittance :=
  fun m Z0 p o h => entry_sound .Y .fwdTransadmittance M2.a21 (by simp) _ Z0 p ((Z_to_Y_sound m Z0 p o).mp h)

def okd_Z_reverse_transadmittance (m : M2 K) (Z0 : K) : Prop := ok_Z_Y m Z0
theorem Z_reverse_transadmittance_sound : DerivedSound .Z .revTransadmittance (Z_reverse_transadmittance (K := K)) okd_Z_reverse_transadmittance :=
  fun m Z0 p o h => entry_sound .Y .revTransadmittance M2.a12 (by simp) _ Z0 p ((Z_to_Y_sound m Z0 p o).mp h)

def okd_Z_forward_transimpedance (m : M2 K) (Z0 : K) : Prop := True
theorem Z_forward_transimpedance_sound : DerivedSound .Z .fwdTransimpedance (Z_forward_transimpedance (K := K)) okd_Z_forward_transimpedance :=
  fun m Z0 p o h => entry_sound .Z .fwdTransimpedance M2.a21 (by simp) m Z0 p h

def okd_Z_reverse_transimpedance (m : M2 K) (Z0 : K) : Prop := True
theorem Z_reverse_transimpedance_sound : DerivedSound .Z .revTransimpedance (Z_reverse_transimpedance (K := K)) okd_Z_reverse_transimpedance :=
  fun m Z0 p o h => entry_sound .Z .revTransimpedance M2.a12 (by simp) m Z0 p h

def okd_Z_voltage_gain (m : M2 K) (Z0 : K) : Prop := okd_Z_Vgain12 m Z0
theorem Z_voltage_gain_sound : DerivedSound .Z .Vgain12 (Z_voltage_gain (K := K)) okd_Z_voltage_gain :=
  Z_Vgain12_sound

def okd_Z_forward_voltage_gain (m : M2 K) (Z0 : K) : Prop := okd_Z_Vgain12 m Z0
theorem Z_forward_voltage_gain_sound : DerivedSound .Z .Vgain12 (Z_forward_voltage_gain (K := K)) okd_Z_forward_voltage_gain :=
  Z_Vgain12_sound

def okd_Z_reverse_voltage_gain (m : M2 K) (Z0 : K) : Prop := okd_Z_Vgain21 m Z0
theorem Z_reverse_voltage_gain_sound : DerivedSound .Z .Vgain21 (Z_reverse_voltage_gain (K := K)) okd_Z_reverse_voltage_gain :=
  Z_Vgain21_sound

def okd_Z_current_gain (m : M2 K) (Z0 : K) : Prop := okd_Z_Igain12 m Z0
theorem Z_current_gain_sound : DerivedSound .Z .Igain12 (Z_current_gain (K := K)) okd_Z_current_gain :=
  Z_Igain12_sound

def okd_Z_forward_current_gain (m : M2 K) (Z0 : K) : Prop := okd_Z_Igain12 m Z0
theorem Z_forward_current_gain_sound : DerivedSound .Z .Igain12 (Z_forward_current_gain (K := K)) okd_Z_forward_current_gain :=
  Z_Igain12_sound

def okd_Z_reverse_current_gain (m : M2 K) (Z0 : K) : Prop := okd_Z_Igain21 m Z0
theorem Z_reverse_current_gain_sound : DerivedSound .Z .Igain21 (Z_reverse_current_gain (K := K)) okd_Z_reverse_current_gain :=
  Z_Igain21_sound

def okd_Z_transadmittance (m : M2 K) (Z0 : K) : Prop := ok_Z_Y m Z0
theorem Z_transadmittance_sound : DerivedSound .Z .fwdTransadmittance (Z_transadmittance (K := K)) okd_Z_transadmittance :=
  fun m Z0 p o h => entry_sound .Y .fwdTransadmittance M2.a21 (by simp) _ Z0 p ((Z_to_Y_sound m Z0 p o).mp h)

def okd_Z_transimpedance (m : M2 K) (Z0 : K) : Prop := True
theorem Z_transimpedance_sound : DerivedSound .Z .fwdTransimpedance (Z_transimpedance (K := K)) okd_Z_transimpedance :=
  fun m Z0 p o h => entry_sound .Z .fwdTransimpedance M2.a21 (by simp) m Z0 p h

/-! ## 3b. Derived quantities have the same VALUE whichever representation they are computed from

  The `X_attr_sound` theorems above say that each value meets its port definition; the port
  definition determines the value as soon as some port of the two-port meets the premise with a
  non-zero input (`DerivedSound.agree / unique`), and such a port always exists when the quantity
  is defined (`pinPortA_spec`).  Hence `attr_agree`: any two representations of the same two-port
  give the same value; `X_attr_agree` (160 instances): the value computed from representation X
  equals the value computed from the chain matrix of the same two-port. -/

/-- the port variable that a derived quantity requires to vanish / its output / its input -/
def dPremise : Derived → Port K → K
  | .Z1oc, p => p.I2 | .Z1sc, p => p.V2 | .Z2oc, p => p.I1 | .Z2sc, p => p.V1
  | .Vgain12, p => p.I2 | .Vgain21, p => p.I1 | .Igain12, p => p.V2 | .Igain21, p => p.V1
  | .fwdTransadmittance, p => p.V2 | .revTransadmittance, p => p.V1
  | .fwdTransimpedance, p => p.I2 | .revTransimpedance, p => p.I1
def dOut : Derived → Port K → K
  | .Z1oc, p => p.V1 | .Z1sc, p => p.V1 | .Z2oc, p => p.V2 | .Z2sc, p => p.V2
  | .Vgain12, p => p.V2 | .Vgain21, p => p.V1 | .Igain12, p => p.I2 | .Igain21, p => p.I1
  | .fwdTransadmittance, p => p.I2 | .revTransadmittance, p => p.I1
  | .fwdTransimpedance, p => p.V2 | .revTransimpedance, p => p.V1
def dIn : Derived → Port K → K
  | .Z1oc, p => p.I1 | .Z1sc, p => p.I1 | .Z2oc, p => p.I2 | .Z2sc, p => p.I2
  | .Vgain12, p => p.V1 | .Vgain21, p => p.V2 | .Igain12, p => p.I1 | .Igain21, p => p.I2
  | .fwdTransadmittance, p => p.V1 | .revTransadmittance, p => p.V2
  | .fwdTransimpedance, p => p.I1 | .revTransimpedance, p => p.I2

/-- (definition check) `Derived.holds` is "premise = 0 → out = q · in" -/
theorem derived_holds_iff (d : Derived) (q : K) (p : Port K) :
    d.holds q p ↔ (dPremise d p = 0 → dOut d p = q * dIn d p) := by
  cases d <;> exact Iff.rfl

/-- two values that both meet the port definition on a port with non-zero input coincide -/
theorem DerivedSound.agree {X Q : Rep} {d : Derived} {q q' : M2 K → K → K} {ok ok' : M2 K → K → Prop}
    (h : DerivedSound X d q ok) (h' : DerivedSound Q d q' ok') (m m' : M2 K) (Z0 : K)
    (o : ok m Z0) (o' : ok' m' Z0)
    (hex : ∃ p, rel X m Z0 p ∧ rel Q m' Z0 p ∧ dPremise d p = 0 ∧ dIn d p ≠ 0) :
    q m Z0 = q' m' Z0 := by
  obtain ⟨p, hp, hp', h0, hin⟩ := hex
  have e1 := (derived_holds_iff d _ p).mp (h m Z0 p o hp) h0
  have e2 := (derived_holds_iff d _ p).mp (h' m' Z0 p o' hp') h0
  exact mul_right_cancel₀ hin (e1.symm.trans e2)

/-- a soundness theorem determines the value of the attribute -/
theorem DerivedSound.unique {X : Rep} {d : Derived} {q q' : M2 K → K → K} {ok ok' : M2 K → K → Prop}
    (h : DerivedSound X d q ok) (h' : DerivedSound X d q' ok') (m : M2 K) (Z0 : K)
    (o : ok m Z0) (o' : ok' m Z0)
    (hex : ∃ p, rel X m Z0 p ∧ dPremise d p = 0 ∧ dIn d p ≠ 0) : q m Z0 = q' m Z0 := by
  obtain ⟨p, hp, h0, hin⟩ := hex
  exact DerivedSound.agree h h' m m Z0 o o' ⟨p, hp, hp, h0, hin⟩

/-- the entry of the chain matrix that must be non-zero for the quantity to be defined -/
def pinEntry : Derived → M2 K → K
  | .Z1oc, a => a.a21 | .Z1sc, a => a.a22 | .Z2oc, a => a.a21 | .Z2sc, a => a.a11
  | .Vgain12, a => a.a11 | .Vgain21, a => a.a22 | .Igain12, a => a.a22 | .Igain21, a => a.a11
  | .fwdTransadmittance, a => a.a12 | .revTransadmittance, a => a.a12
  | .fwdTransimpedance, a => a.a21 | .revTransimpedance, a => a.a21

/-- a port of the two-port with chain matrix `a` that meets the premise, with input = `pinEntry` -/
def pinPortA : Derived → M2 K → Port K
  | .Z1oc, a => ⟨a.a11, a.a21, 1, 0⟩
  | .Z1sc, a => ⟨a.a12, a.a22, 0, -1⟩
  | .Z2oc, a => ⟨a.a11 * a.a22 - a.a12 * a.a21, 0, a.a22, a.a21⟩
  | .Z2sc, a => ⟨0, a.a21 * a.a12 - a.a22 * a.a11, a.a12, a.a11⟩
  | .Vgain12, a => ⟨a.a11, a.a21, 1, 0⟩
  | .Vgain21, a => ⟨a.a11 * a.a22 - a.a12 * a.a21, 0, a.a22, a.a21⟩
  | .Igain12, a => ⟨a.a12, a.a22, 0, -1⟩
  | .Igain21, a => ⟨0, a.a21 * a.a12 - a.a22 * a.a11, a.a12, a.a11⟩
  | .fwdTransadmittance, a => ⟨a.a12, a.a22, 0, -1⟩
  | .revTransadmittance, a => ⟨0, a.a21 * a.a12 - a.a22 * a.a11, a.a12, a.a11⟩
  | .fwdTransimpedance, a => ⟨a.a11, a.a21, 1, 0⟩
  | .revTransimpedance, a => ⟨a.a11 * a.a22 - a.a12 * a.a21, 0, a.a22, a.a21⟩

theorem pinPortA_spec (d : Derived) (a : M2 K) (Z0 : K) :
    rel .A a Z0 (pinPortA d a) ∧ dPremise d (pinPortA d a) = 0 ∧ dIn d (pinPortA d a) = pinEntry d a := by
  cases d <;> refine ⟨?_, rfl, rfl⟩ <;> simp only [rel, lin, pinPortA] <;> constructor <;> ring

/-- THE CLAUSE OF THE PROPERTY: a derived quantity computed from matrices `m` (representation X)
    and `m'` (representation Y) of the same two-port (chain matrix `a`) has the same value -/
theorem attr_agree {X Q : Rep} {d : Derived} {q q' : M2 K → K → K} {ok ok' : M2 K → K → Prop}
    (h : DerivedSound X d q ok) (h' : DerivedSound Q d q' ok') (m m' a : M2 K) (Z0 : K)
    (o : ok m Z0) (o' : ok' m' Z0)
    (hX : ∀ p, rel X m Z0 p ↔ rel .A a Z0 p) (hY : ∀ p, rel Q m' Z0 p ↔ rel .A a Z0 p)
    (hpin : pinEntry d a ≠ 0) : q m Z0 = q' m' Z0 := by
  obtain ⟨hr, h0, hin⟩ := pinPortA_spec d a Z0
  exact DerivedSound.agree h h' m m' Z0 o o' ⟨pinPortA d a, (hX _).mpr hr, (hY _).mpr hr, h0, by rw [hin]; exact hpin⟩

/-- … in particular across any conversion `f : X → P` of the library -/
theorem attr_agree_conv {X P : Rep} {d : Derived} {q q' : M2 K → K → K} {ok ok' okf okg : M2 K → K → Prop}
    {f g : M2 K → K → M2 K}
    (h : DerivedSound X d q ok) (h' : DerivedSound P d q' ok') (hf : SoundConv X P f okf) (hg : SoundConv X .A g okg)
    (m : M2 K) (Z0 : K) (o : ok m Z0) (o' : ok' (f m Z0) Z0) (of : okf m Z0) (og : okg m Z0)
    (hpin : pinEntry d (g m Z0) ≠ 0) : q m Z0 = q' (f m Z0) Z0 :=
  attr_agree h h' m (f m Z0) (g m Z0) Z0 o o' (fun p => hg m Z0 p og)
    (fun p => by rw [← hf m Z0 p of]; exact hg m Z0 p og) hpin

set_option hygiene false in
macro "pin_of_okd" : tactic => `(tactic| (simpa [okd_A_Z1oc, okd_A_Z1sc, okd_A_Z2oc, okd_A_Z2sc, okd_A_Vgain12, okd_A_Vgain21, okd_A_Igain12, okd_A_Igain21, okd_A_forward_transadmittance, okd_A_reverse_transadmittance, okd_A_forward_transimpedance, okd_A_reverse_transimpedance, okd_A_voltage_gain, okd_A_forward_voltage_gain, okd_A_reverse_voltage_gain, okd_A_current_gain, okd_A_forward_current_gain, okd_A_reverse_current_gain, okd_A_transadmittance, okd_A_transimpedance, ok_A_Z, ok_A_Y, pinEntry] using od))

theorem A_Z1oc_agree (m : M2 K) (Z0 : K) (o : okd_A_Z1oc m Z0) (oa : ok_A_A m Z0)
    (od : okd_A_Z1oc (A_to_A m Z0) Z0) : A_Z1oc m Z0 = A_Z1oc (A_to_A m Z0) Z0 :=
  attr_agree A_Z1oc_sound A_Z1oc_sound m _ _ Z0 o od (fun p => A_to_A_sound m Z0 p oa) (fun _ => Iff.rfl) (by pin_of_okd)

theorem A_Z1sc_agree (m : M2 K) (Z0 : K) (o : okd_A_Z1sc m Z0) (oa : ok_A_A m Z0)
    (od : okd_A_Z1sc (A_to_A m Z0) Z0) : A_Z1sc m Z0 = A_Z1sc (A_to_A m Z0) Z0 :=
  attr_agree A_Z1sc_sound A_Z1sc_sound m _ _ Z0 o od (fun p => A_to_A_sound m Z0 p oa) (fun _ => Iff.rfl) (by pin_of_okd)

theorem A_Z2oc_agree (m : M2 K) (Z0 : K) (o : okd_A_Z2oc m Z0) (oa : ok_A_A m Z0)
    (od : okd_A_Z2oc (A_to_A m Z0) Z0) : A_Z2oc m Z0 = A_Z2oc (A_to_A m Z0) Z0 :=
  attr_agree A_Z2oc_sound A_Z2oc_sound m _ _ Z0 o od (fun p => A_to_A_sound m Z0 p oa) (fun _ => Iff.rfl) (by pin_of_okd)

theorem A_Z2sc_agree (m : M2 K) (Z0 : K) (o : okd_A_Z2sc m Z0) (oa : ok_A_A m Z0)
    (od : okd_A_Z2sc (A_to_A m Z0) Z0) : A_Z2sc m Z0 = A_Z2sc (A_to_A m Z0) Z0 :=
  attr_agree A_Z2sc_sound A_Z2sc_sound m _ _ Z0 o od (fun p => A_to_A_sound m Z0 p oa) (fun _ => Iff.rfl) (by pin_of_okd)

theorem A_Vgain12_agree (m : M2 K) (Z0 : K) (o : okd_A_Vgain12 m Z0) (oa : ok_A_A m Z0)
    (od : okd_A_Vgain12 (A_to_A m Z0) Z0) : A_Vgain12 m Z0 = A_Vgain12 (A_to_A m Z0) Z0 :=
  attr_agree A_Vgain12_sound A_Vgain12_sound m _ _ Z0 o od (fun p => A_to_A_sound m Z0 p oa) (fun _ => Iff.rfl) (by pin_of_okd)

theorem A_Vgain21_agree (m : M2 K) (Z0 : K) (o : okd_A_Vgain21 m Z0) (oa : ok_A_A m Z0)
    (od : okd_A_Vgain21 (A_to_A m Z0) Z0) : A_Vgain21 m Z0 = A_Vgain21 (A_to_A m Z0) Z0 :=
  attr_agree A_Vgain21_sound A_Vgain21_sound m _ _ Z0 o od (fun p => A_to_A_sound m Z0 p oa) (fun _ => Iff.rfl) (by pin_of_okd)

theorem A_Igain12_agree (m : M2 K) (Z0 : K) (o : okd_A_Igain12 m Z0) (oa : ok_A_A m Z0)
    (od : okd_A_Igain12 (A_to_A m Z0) Z0) : A_Igain12 m Z0 = A_Igain12 (A_to_A m Z0) Z0 :=
  attr_agree A_Igain12_sound A_Igain12_sound m _ _ Z0 o od (fun p => A_to_A_sound m Z0 p oa) (fun _ => Iff.rfl) (by pin_of_okd)

theorem A_Igain21_agree (m : M2 K) (Z0 : K) (o : okd_A_Igain21 m Z0) (oa : ok_A_A m Z0)
    (od : okd_A_Igain21 (A_to_A m Z0) Z0) : A_Igain21 m Z0 = A_Igain21 (A_to_A m Z0) Z0 :=
  attr_agree A_Igain21_sound A_Igain21_sound m _ _ Z0 o od (fun p => A_to_A_sound m Z0 p oa) (fun _ => Iff.rfl) (by pin_of_okd)

theorem A_forward_transadmittance_agree (m : M2 K) (Z0 : K) (o : okd_A_forward_transadmittance m Z0) (oa : ok_A_A m Z0)
    (od : okd_A_forward_transadmittance (A_to_A m Z0) Z0) : A_forward_transadmittance m Z0 = A_forward_transadmittance (A_to_A m Z0) Z0 :=
  attr_agree A_forward_transadmittance_sound A_forward_transadmittance_sound m _ _ Z0 o od (fun p => A_to_A_sound m Z0 p oa) (fun _ => Iff.rfl) (by pin_of_okd)

theorem A_reverse_transadmittance_agree (m : M2 K) (Z0 : K) (o : okd_A_reverse_transadmittance m Z0) (oa : ok_A_A m Z0)
    (od : okd_A_reverse_transadmittance (A_to_A m Z0) Z0) : A_reverse_transadmittance m Z0 = A_reverse_transadmittance (A_to_A m Z0) Z0 :=
  attr_agree A_reverse_transadmittance_sound A_reverse_transadmittance_sound m _ _ Z0 o od (fun p => A_to_A_sound m Z0 p oa) (fun _ => Iff.rfl) (by pin_of_okd)

theorem A_forward_transimpedance_agree (m : M2 K) (Z0 : K) (o : okd_A_forward_transimpedance m Z0) (oa : ok_A_A m Z0)
    (od : okd_A_forward_transimpedance (A_to_A m Z0) Z0) : A_forward_transimpedance m Z0 = A_forward_transimpedance (A_to_A m Z0) Z0 :=
  attr_agree A_forward_transimpedance_sound A_forward_transimpedance_sound m _ _ Z0 o od (fun p => A_to_A_sound m Z0 p oa) (fun _ => Iff.rfl) (by pin_of_okd)

theorem A_reverse_transimpedance_agree (m : M2 K) (Z0 : K) (o : okd_A_reverse_transimpedance m Z0) (oa : ok_A_A m Z0)
    (od : okd_A_reverse_transimpedance (A_to_A m Z0) Z0) : A_reverse_transimpedance m Z0 = A_reverse_transimpedance (A_to_A m Z0) Z0 :=
  attr_agree A_reverse_transimpedance_sound A_reverse_transimpedance_sound m _ _ Z0 o od (fun p => A_to_A_sound m Z0 p oa) (fun _ => Iff.rfl) (by pin_of_okd)

theorem A_voltage_gain_agree (m : M2 K) (Z0 : K) (o : okd_A_voltage_gain m Z0) (oa : ok_A_A m Z0)
    (od : okd_A_voltage_gain (A_to_A m Z0) Z0) : A_voltage_gain m Z0 = A_voltage_gain (A_to_A m Z0) Z0 :=
  attr_agree A_voltage_gain_sound A_voltage_gain_sound m _ _ Z0 o od (fun p => A_to_A_sound m Z0 p oa) (fun _ => Iff.rfl) (by pin_of_okd)

theorem A_forward_voltage_gain_agree (m : M2 K) (Z0 : K) (o : okd_A_forward_voltage_gain m Z0) (oa : ok_A_A m Z0)
    (od : okd_A_forward_voltage_gain (A_to_A m Z0) Z0) : A_forward_voltage_gain m Z0 = A_forward_voltage_gain (A_to_A m Z0) Z0 :=
  attr_agree A_forward_voltage_gain_sound A_forward_voltage_gain_sound m _ _ Z0 o od (fun p => A_to_A_sound m Z0 p oa) (fun _ => Iff.rfl) (by pin_of_okd)

theorem A_reverse_voltage_gain_agree (m : M2 K) (Z0 : K) (o : okd_A_reverse_voltage_gain m Z0) (oa : ok_A_A m Z0)
    (od : okd_A_reverse_voltage_gain (A_to_A m Z0) Z0) : A_reverse_voltage_gain m Z0 = A_reverse_voltage_gain (A_to_A m Z0) Z0 :=
  attr_agree A_reverse_voltage_gain_sound A_reverse_voltage_gain_sound m _ _ Z0 o od (fun p => A_to_A_sound m Z0 p oa) (fun _ => Iff.rfl) (by pin_of_okd)

theorem A_current_gain_agree (m : M2 K) (Z0 : K) (o : okd_A_current_gain m Z0) (oa : ok_A_A m Z0)
    (od : okd_A_current_gain (A_to_A m Z0) Z0) : A_current_gain m Z0 = A_current_gain (A_to_A m Z0) Z0 :=
  attr_agree A_current_gain_sound A_current_gain_sound m _ _ Z0 o od (fun p => A_to_A_sound m Z0 p oa) (fun _ => Iff.rfl) (by pin_of_okd)

theorem A_forward_current_gain_agree (m : M2 K) (Z0 : K) (o : okd_A_forward_current_gain m Z0) (oa : ok_A_A m Z0)
    (od : okd_A_forward_current_gain (A_to_A m Z0) Z0) : A_forward_current_gain m Z0 = A_forward_current_gain (A_to_A m Z0) Z0 :=
  attr_agree A_forward_current_gain_sound A_forward_current_gain_sound m _ _ Z0 o od (fun p => A_to_A_sound m Z0 p oa) (fun _ => Iff.rfl) (by pin_of_okd)

theorem A_reverse_current_gain_agree (m : M2 K) (Z0 : K) (o : okd_A_reverse_current_gain m Z0) (oa : ok_A_A m Z0)
    (od : okd_A_reverse_current_gain (A_to_A m Z0) Z0) : A_reverse_current_gain m Z0 = A_reverse_current_gain (A_to_A m Z0) Z0 :=
  attr_agree A_reverse_current_gain_sound A_reverse_current_gain_sound m _ _ Z0 o od (fun p => A_to_A_sound m Z0 p oa) (fun _ => Iff.rfl) (by pin_of_okd)

theorem A_transadmittance_agree (m : M2 K) (Z0 : K) (o : okd_A_transadmittance m Z0) (oa : ok_A_A m Z0)
    (od : okd_A_transadmittance (A_to_A m Z0) Z0) : A_transadmittance m Z0 = A_transadmittance (A_to_A m Z0) Z0 :=
  attr_agree A_transadmittance_sound A_transadmittance_sound m _ _ Z0 o od (fun p => A_to_A_sound m Z0 p oa) (fun _ => Iff.rfl) (by pin_of_okd)

theorem A_transimpedance_agree (m : M2 K) (Z0 : K) (o : okd_A_transimpedance m Z0) (oa : ok_A_A m Z0)
    (od : okd_A_transimpedance (A_to_A m Z0) Z0) : A_transimpedance m Z0 = A_transimpedance (A_to_A m Z0) Z0 :=
  attr_agree A_transimpedance_sound A_transimpedance_sound m _ _ Z0 o od (fun p => A_to_A_sound m Z0 p oa) (fun _ => Iff.rfl) (by pin_of_okd)

theorem B_Z1oc_agree (m : M2 K) (Z0 : K) (o : okd_B_Z1oc m Z0) (oa : ok_B_A m Z0)
    (od : okd_A_Z1oc (B_to_A m Z0) Z0) : B_Z1oc m Z0 = A_Z1oc (B_to_A m Z0) Z0 :=
  attr_agree B_Z1oc_sound A_Z1oc_sound m _ _ Z0 o od (fun p => B_to_A_sound m Z0 p oa) (fun _ => Iff.rfl) (by pin_of_okd)

theorem B_Z1sc_agree (m : M2 K) (Z0 : K) (o : okd_B_Z1sc m Z0) (oa : ok_B_A m Z0)
    (od : okd_A_Z1sc (B_to_A m Z0) Z0) : B_Z1sc m Z0 = A_Z1sc (B_to_A m Z0) Z0 :=
  attr_agree B_Z1sc_sound A_Z1sc_sound m _ _ Z0 o od (fun p => B_to_A_sound m Z0 p oa) (fun _ => Iff.rfl) (by pin_of_okd)

theorem B_Z2oc_agree (m : M2 K) (Z0 : K) (o : okd_B_Z2oc m Z0) (oa : ok_B_A m Z0)
    (od : okd_A_Z2oc (B_to_A m Z0) Z0) : B_Z2oc m Z0 = A_Z2oc (B_to_A m Z0) Z0 :=
  attr_agree B_Z2oc_sound A_Z2oc_sound m _ _ Z0 o od (fun p => B_to_A_sound m Z0 p oa) (fun _ => Iff.rfl) (by pin_of_okd)

theorem B_Z2sc_agree (m : M2 K) (Z0 : K) (o : okd_B_Z2sc m Z0) (oa : ok_B_A m Z0)
    (od : okd_A_Z2sc (B_to_A m Z0) Z0) : B_Z2sc m Z0 = A_Z2sc (B_to_A m Z0) Z0 :=
  attr_agree B_Z2sc_sound A_Z2sc_sound m _ _ Z0 o od (fun p => B_to_A_sound m Z0 p oa) (fun _ => Iff.rfl) (by pin_of_okd)

theorem B_Vgain12_agree (m : M2 K) (Z0 : K) (o : okd_B_Vgain12 m Z0) (oa : ok_B_A m Z0)
    (od : okd_A_Vgain12 (B_to_A m Z0) Z0) : B_Vgain12 m Z0 = A_Vgain12 (B_to_A m Z0) Z0 :=
  attr_agree B_Vgain12_sound A_Vgain12_sound m _ _ Z0 o od (fun p => B_to_A_sound m Z0 p oa) (fun _ => Iff.rfl) (by pin_of_okd)

theorem B_Vgain21_agree (m : M2 K) (Z0 : K) (o : okd_B_Vgain21 m Z0) (oa : ok_B_A m Z0)
    (od : okd_A_Vgain21 (B_to_A m Z0) Z0) : B_Vgain21 m Z0 = A_Vgain21 (B_to_A m Z0) Z0 :=
  attr_agree B_Vgain21_sound A_Vgain21_sound m _ _ Z0 o od (fun p => B_to_A_sound m Z0 p oa) (fun _ => Iff.rfl) (by pin_of_okd)

theorem B_Igain12_agree (m : M2 K) (Z0 : K) (o : okd_B_Igain12 m Z0) (oa : ok_B_A m Z0)
    (od : okd_A_Igain12 (B_to_A m Z0) Z0) : B_Igain12 m Z0 = A_Igain12 (B_to_A m Z0) Z0 :=
  attr_agree B_Igain12_sound A_Igain12_sound m _ _ Z0 o od (fun p => B_to_A_sound m Z0 p oa) (fun _ => Iff.rfl) (by pin_of_okd)

theorem B_Igain21_agree (m : M2 K) (Z0 : K) (o : okd_B_Igain21 m Z0) (oa : ok_B_A m Z0)
    (od : okd_A_Igain21 (B_to_A m Z0) Z0) : B_Igain21 m Z0 = A_Igain21 (B_to_A m Z0) Z0 :=
  attr_agree B_Igain21_sound A_Igain21_sound m _ _ Z0 o od (fun p => B_to_A_sound m Z0 p oa) (fun _ => Iff.rfl) (by pin_of_okd)

theorem B_forward_transadmittance_agree (m : M2 K) (Z0 : K) (o : okd_B_forward_transadmittance m Z0) (oa : ok_B_A m Z0)
    (od : okd_A_forward_transadmittance (B_to_A m Z0) Z0) : B_forward_transadmittance m Z0 = A_forward_transadmittance (B_to_A m Z0) Z0 :=
  attr_agree B_forward_transadmittance_sound A_forward_transadmittance_sound m _ _ Z0 o od (fun p => B_to_A_sound m Z0 p oa) (fun _ => Iff.rfl) (by pin_of_okd)

theorem B_reverse_transadmittance_agree (m : M2 K) (Z0 : K) (o : okd_B_reverse_transadmittance m Z0) (oa : ok_B_A m Z0)
    (od : okd_A_reverse_transadmittance (B_to_A m Z0) Z0) : B_reverse_transadmittance m Z0 = A_reverse_transadmittance (B_to_A m Z0) Z0 :=
  attr_agree B_reverse_transadmittance_sound A_reverse_transadmittance_sound m _ _ Z0 o od (fun p => B_to_A_sound m Z0 p oa) (fun _ => Iff.rfl) (by pin_of_okd)

theorem B_forward_transimpedance_agree (m : M2 K) (Z0 : K) (o : okd_B_forward_transimpedance m Z0) (oa : ok_B_A m Z0)
    (od : okd_A_forward_transimpedance (B_to_A m Z0) Z0) : B_forward_transimpedance m Z0 = A_forward_transimpedance (B_to_A m Z0) Z0 :=
  attr_agree B_forward_transimpedance_sound A_forward_transimpedance_sound m _ _ Z0 o od (fun p => B_to_A_sound m Z0 p oa) (fun _ => Iff.rfl) (by pin_of_okd)

theorem B_reverse_transimpedance_agree (m : M2 K) (Z0 : K) (o : okd_B_reverse_transimpedance m Z0) (oa : ok_B_A m Z0)
    (od : okd_A_reverse_transimpedance (B_to_A m Z0) Z0) : B_reverse_transimpedance m Z0 = A_reverse_transimpedance (B_to_A m Z0) Z0 :=
  attr_agree B_reverse_transimpedance_sound A_reverse_transimpedance_sound m _ _ Z0 o od (fun p => B_to_A_sound m Z0 p oa) (fun _ => Iff.rfl) (by pin_of_okd)

theorem B_voltage_gain_agree (m : M2 K) (Z0 : K) (o : okd_B_voltage_gain m Z0) (oa : ok_B_A m Z0)
    (od : okd_A_voltage_gain (B_to_A m Z0) Z0) : B_voltage_gain m Z0 = A_voltage_gain (B_to_A m Z0) Z0 :=
  attr_agree B_voltage_gain_sound A_voltage_gain_sound m _ _ Z0 o od (fun p => B_to_A_sound m Z0 p oa) (fun _ => Iff.rfl) (by pin_of_okd)

theorem B_forward_voltage_gain_agree (m : M2 K) (Z0 : K) (o : okd_B_forward_voltage_gain m Z0) (oa : ok_B_A m Z0)
    (od : okd_A_forward_voltage_gain (B_to_A m Z0) Z0) : B_forward_voltage_gain m Z0 = A_forward_voltage_gain (B_to_A m Z0) Z0 :=
  attr_agree B_forward_voltage_gain_sound A_forward_voltage_gain_sound m _ _ Z0 o od (fun p => B_to_A_sound m Z0 p oa) (fun _ => Iff.rfl) (by pin_of_okd)

theorem B_reverse_voltage_gain_agree (m : M2 K) (Z0 : K) (o : okd_B_reverse_voltage_gain m Z0) (oa : ok_B_A m Z0)
    (od : okd_A_reverse_voltage_gain (B_to_A m Z0) Z0) : B_reverse_voltage_gain m Z0 = A_reverse_voltage_gain (B_to_A m Z0) Z0 :=
  attr_agree B_reverse_voltage_gain_sound A_reverse_voltage_gain_sound m _ _ Z0 o od (fun p => B_to_A_sound m Z0 p oa) (fun _ => Iff.rfl) (by pin_of_okd)

theorem B_current_gain_agree (m : M2 K) (Z0 : K) (o : okd_B_current_gain m Z0) (oa : ok_B_A m Z0)
    (od : okd_A_current_gain (B_to_A m Z0) Z0) : B_current_gain m Z0 = A_current_gain (B_to_A m Z0) Z0 :=
  attr_agree B_current_gain_sound A_current_gain_sound m _ _ Z0 o od (fun p => B_to_A_sound m Z0 p oa) (fun _ => Iff.rfl) (by pin_of_okd)

theorem B_forward_current_gain_agree (m : M2 K) (Z0 : K) (o : okd_B_forward_current_gain m Z0) (oa : ok_B_A m Z0)
    (od : okd_A_forward_current_gain (B_to_A m Z0) Z0) : B_forward_current_gain m Z0 = A_forward_current_gain (B_to_A m Z0) Z0 :=
  attr_agree B_forward_current_gain_sound A_forward_current_gain_sound m _ _ Z0 o od (fun p => B_to_A_sound m Z0 p oa) (fun _ => Iff.rfl) (by pin_of_okd)

theorem B_reverse_current_gain_agree (m : M2 K) (Z0 : K) (o : okd_B_reverse_current_gain m Z0) (oa : ok_B_A m Z0)
    (od : okd_A_reverse_current_gain (B_to_A m Z0) Z0) : B_reverse_current_gain m Z0 = A_reverse_current_gain (B_to_A m Z0) Z0 :=
  attr_agree B_reverse_current_gain_sound A_reverse_current_gain_sound m _ _ Z0 o od (fun p => B_to_A_sound m Z0 p oa) (fun _ => Iff.rfl) (by pin_of_okd)

theorem B_transadmittance_agree (m : M2 K) (Z0 : K) (o : okd_B_transadmittance m Z0) (oa : ok_B_A m Z0)
    (od : okd_A_transadmittance (B_to_A m Z0) Z0) : B_transadmittance m Z0 = A_transadmittance (B_to_A m Z0) Z0 :=
  attr_agree B_transadmittance_sound A_transadmittance_sound m _ _ Z0 o od (fun p => B_to_A_sound m Z0 p oa) (fun _ => Iff.rfl) (by pin_of_okd)

theorem B_transimpedance_agree (m : M2 K) (Z0 : K) (o : okd_B_transimpedance m Z0) (oa : ok_B_A m Z0)
    (od : okd_A_transimpedance (B_to_A m Z0) Z0) : B_transimpedance m Z0 = A_transimpedance (B_to_A m Z0) Z0 :=
  attr_agree B_transimpedance_sound A_transimpedance_sound m _ _ Z0 o od (fun p => B_to_A_sound m Z0 p oa) (fun _ => Iff.rfl) (by pin_of_okd)

theorem G_Z1oc_agree (m : M2 K) (Z0 : K) (o : okd_G_Z1oc m Z0) (oa : ok_G_A m Z0)
    (od : okd_A_Z1oc (G_to_A m Z0) Z0) : G_Z1oc m Z0 = A_Z1oc (G_to_A m Z0) Z0 :=
  attr_agree G_Z1oc_sound A_Z1oc_sound m _ _ Z0 o od (fun p => G_to_A_sound m Z0 p oa) (fun _ => Iff.rfl) (by pin_of_okd)

theorem G_Z1sc_agree (m : M2 K) (Z0 : K) (o : okd_G_Z1sc m Z0) (oa : ok_G_A m Z0)
    (od : okd_A_Z1sc (G_to_A m Z0) Z0) : G_Z1sc m Z0 = A_Z1sc (G_to_A m Z0) Z0 :=
  attr_agree G_Z1sc_sound A_Z1sc_sound m _ _ Z0 o od (fun p => G_to_A_sound m Z0 p oa) (fun _ => Iff.rfl) (by pin_of_okd)

theorem G_Z2oc_agree (m : M2 K) (Z0 : K) (o : okd_G_Z2oc m Z0) (oa : ok_G_A m Z0)
    (od : okd_A_Z2oc (G_to_A m Z0) Z0) : G_Z2oc m Z0 = A_Z2oc (G_to_A m Z0) Z0 :=
  attr_agree G_Z2oc_sound A_Z2oc_sound m _ _ Z0 o od (fun p => G_to_A_sound m Z0 p oa) (fun _ => Iff.rfl) (by pin_of_okd)

theorem G_Z2sc_agree (m : M2 K) (Z0 : K) (o : okd_G_Z2sc m Z0) (oa : ok_G_A m Z0)
    (od : okd_A_Z2sc (G_to_A m Z0) Z0) : G_Z2sc m Z0 = A_Z2sc (G_to_A m Z0) Z0 :=
  attr_agree G_Z2sc_sound A_Z2sc_sound m _ _ Z0 o od (fun p => G_to_A_sound m Z0 p oa) (fun _ => Iff.rfl) (by pin_of_okd)

theorem G_Vgain12_agree (m : M2 K) (Z0 : K) (o : okd_G_Vgain12 m Z0) (oa : ok_G_A m Z0)
    (od : okd_A_Vgain12 (G_to_A m Z0) Z0) : G_Vgain12 m Z0 = A_Vgain12 (G_to_A m Z0) Z0 :=
  attr_agree G_Vgain12_sound A_Vgain12_sound m _ _ Z0 o od (fun p => G_to_A_sound m Z0 p oa) (fun _ => Iff.rfl) (by pin_of_okd)

theorem G_Vgain21_agree (m : M2 K) (Z0 : K) (o : okd_G_Vgain21 m Z0) (oa : ok_G_A m Z0)
    (od : okd_A_Vgain21 (G_to_A m Z0) Z0) : G_Vgain21 m Z0 = A_Vgain21 (G_to_A m Z0) Z0 :=
  attr_agree G_Vgain21_sound A_Vgain21_sound m _ _ Z0 o od (fun p => G_to_A_sound m Z0 p oa) (fun _ => Iff.rfl) (by pin_of_okd)

theorem G_Igain12_agree (m : M2 K) (Z0 : K) (o : okd_G_Igain12 m Z0) (oa : ok_G_A m Z0)
    (od : okd_A_Igain12 (G_to_A m Z0) Z0) : G_Igain12 m Z0 = A_Igain12 (G_to_A m Z0) Z0 :=
  attr_agree G_Igain12_sound A_Igain12_sound m _ _ Z0 o od (fun p => G_to_A_sound m Z0 p oa) (fun _ => Iff.rfl) (by pin_of_okd)

theorem G_Igain21_agree (m : M2 K) (Z0 : K) (o : okd_G_Igain21 m Z0) (oa : ok_G_A m Z0)
    (od : okd_A_Igain21 (G_to_A m Z0) Z0) : G_Igain21 m Z0 = A_Igain21 (G_to_A m Z0) Z0 :=
  attr_agree G_Igain21_sound A_Igain21_sound m _ _ Z0 o od (fun p => G_to_A_sound m Z0 p oa) (fun _ => Iff.rfl) (by pin_of_okd)

theorem G_forward_transadmittance_agree (m : M2 K) (Z0 : K) (o : okd_G_forward_transadmittance m Z0) (oa : ok_G_A m Z0)
    (od : okd_A_forward_transadmittance (G_to_A m Z0) Z0) : G_forward_transadmittance m Z0 = A_forward_transadmittance (G_to_A m Z0) Z0 :=
  attr_agree G_forward_transadmittance_sound A_forward_transadmittance_sound m _ _ Z0 o od (fun p => G_to_A_sound m Z0 p oa) (fun _ => Iff.rfl) (by pin_of_okd)

theorem G_reverse_transadmittance_agree (m : M2 K) (Z0 : K) (o : okd_G_reverse_transadmittance m Z0) (oa : ok_G_A m Z0)
    (od : okd_A_reverse_transadmittance (G_to_A m Z0) Z0) : G_reverse_transadmittance m Z0 = A_reverse_transadmittance (G_to_A m Z0) Z0 :=
  attr_agree G_reverse_transadmittance_sound A_reverse_transadmittance_sound m _ _ Z0 o od (fun p => G_to_A_sound m Z0 p oa) (fun _ => Iff.rfl) (by pin_of_okd)

theorem G_forward_transimpedance_agree (m : M2 K) (Z0 : K) (o : okd_G_forward_transimpedance m Z0) (oa : ok_G_A m Z0)
    (od : okd_A_forward_transimpedance (G_to_A m Z0) Z0) : G_forward_transimpedance m Z0 = A_forward_transimpedance (G_to_A m Z0) Z0 :=
  attr_agree G_forward_transimpedance_sound A_forward_transimpedance_sound m _ _ Z0 o od (fun p => G_to_A_sound m Z0 p oa) (fun _ => Iff.rfl) (by pin_of_okd)

theorem G_reverse_transimpedance_agree (m : M2 K) (Z0 : K) (o : okd_G_reverse_transimpedance m Z0) (oa : ok_G_A m Z0)
    (od : okd_A_reverse_transimpedance (G_to_A m Z0) Z0) : G_reverse_transimpedance m Z0 = A_reverse_transimpedance (G_to_A m Z0) Z0 :=
  attr_agree G_reverse_transimpedance_sound A_reverse_transimpedance_sound m _ _ Z0 o od (fun p => G_to_A_sound m Z0 p oa) (fun _ => Iff.rfl) (by pin_of_okd)

theorem G_voltage_gain_agree (m : M2 K) (Z0 : K) (o : okd_G_voltage_gain m Z0) (oa : ok_G_A m Z0)
    (od : okd_A_voltage_gain (G_to_A m Z0) Z0) : G_voltage_gain m Z0 = A_voltage_gain (G_to_A m Z0) Z0 :=
  attr_agree G_voltage_gain_sound A_voltage_gain_sound m _ _ Z0 o od (fun p => G_to_A_sound m Z0 p oa) (fun _ => Iff.rfl) (by pin_of_okd)

theorem G_forward_voltage_gain_agree (m : M2 K) (Z0 : K) (o : okd_G_forward_voltage_gain m Z0) (oa : ok_G_A m Z0)
    (od : okd_A_forward_voltage_gain (G_to_A m Z0) Z0) : G_forward_voltage_gain m Z0 = A_forward_voltage_gain (G_to_A m Z0) Z0 :=
  attr_agree G_forward_voltage_gain_sound A_forward_voltage_gain_sound m _ _ Z0 o od (fun p => G_to_A_sound m Z0 p oa) (fun _ => Iff.rfl) (by pin_of_okd)

theorem G_reverse_voltage_gain_agree (m : M2 K) (Z0 : K) (o : okd_G_reverse_voltage_gain m Z0) (oa : ok_G_A m Z0)
    (od : okd_A_reverse_voltage_gain (G_to_A m Z0) Z0) : G_reverse_voltage_gain m Z0 = A_reverse_voltage_gain (G_to_A m Z0) Z0 :=
  attr_agree G_reverse_voltage_gain_sound A_reverse_voltage_gain_sound m _ _ Z0 o od (fun p => G_to_A_sound m Z0 p oa) (fun _ => Iff.rfl) (by pin_of_okd)

theorem G_current_gain_agree (m : M2 K) (Z0 : K) (o : okd_G_current_gain m Z0) (oa : ok_G_A m Z0)
    (od : okd_A_current_gain (G_to_A m Z0) Z0) : G_current_gain m Z0 = A_current_gain (G_to_A m Z0) Z0 :=
  attr_agree G_current_gain_sound A_current_gain_sound m _ _ Z0 o od (fun p => G_to_A_sound m Z0 p oa) (fun _ => Iff.rfl) (by pin_of_okd)

theorem G_forward_current_gain_agree (m : M2 K) (Z0 : K) (o : okd_G_forward_current_gain m Z0) (oa : ok_G_A m Z0)
    (od : okd_A_forward_current_gain (G_to_A m Z0) Z0) : G_forward_current_gain m Z0 = A_forward_current_gain (G_to_A m Z0) Z0 :=
  attr_agree G_forward_current_gain_sound A_forward_current_gain_sound m _ _ Z0 o od (fun p => G_to_A_sound m Z0 p oa) (fun _ => Iff.rfl) (by pin_of_okd)

theorem G_reverse_current_gain_agree (m : M2 K) (Z0 : K) (o : okd_G_reverse_current_gain m Z0) (oa : ok_G_A m Z0)
    (od : okd_A_reverse_current_gain (G_to_A m Z0) Z0) : G_reverse_current_gain m Z0 = A_reverse_current_gain (G_to_A m Z0) Z0 :=
  attr_agree G_reverse_current_gain_sound A_reverse_current_gain_sound m _ _ Z0 o od (fun p => G_to_A_sound m Z0 p oa) (fun _ => Iff.rfl) (by pin_of_okd)

theorem G_transadmittance_agree (m : M2 K) (Z0 : K) (o : okd_G_transadmittance m Z0) (oa : ok_G_A m Z0)
    (od : okd_A_transadmittance (G_to_A m Z0) Z0) : G_transadmittance m Z0 = A_transadmittance (G_to_A m Z0) Z0 :=
  attr_agree G_transadmittance_sound A_transadmittance_sound m _ _ Z0 o od (fun p => G_to_A_sound m Z0 p oa) (fun _ => Iff.rfl) (by pin_of_okd)

theorem G_transimpedance_agree (m : M2 K) (Z0 : K) (o : okd_G_transimpedance m Z0) (oa : ok_G_A m Z0)
    (od : okd_A_transimpedance (G_to_A m Z0) Z0) : G_transimpedance m Z0 = A_transimpedance (G_to_A m Z0) Z0 :=
  attr_agree G_transimpedance_sound A_transimpedance_sound m _ _ Z0 o od (fun p => G_to_A_sound m Z0 p oa) (fun _ => Iff.rfl) (by pin_of_okd)

theorem H_Z1oc_agree (m : M2 K) (Z0 : K) (o : okd_H_Z1oc m Z0) (oa : ok_H_A m Z0)
    (od : okd_A_Z1oc (H_to_A m Z0) Z0) : H_Z1oc m Z0 = A_Z1oc (H_to_A m Z0) Z0 :=
  attr_agree H_Z1oc_sound A_Z1oc_sound m _ _ Z0 o od (fun p => H_to_A_sound m Z0 p oa) (fun _ => Iff.rfl) (by pin_of_okd)

theorem H_Z1sc_agree (m : M2 K) (Z0 : K) (o : okd_H_Z1sc m Z0) (oa : ok_H_A m Z0)
    (od : okd_A_Z1sc (H_to_A m Z0) Z0) : H_Z1sc m Z0 = A_Z1sc (H_to_A m Z0) Z0 :=
  attr_agree H_Z1sc_sound A_Z1sc_sound m _ _ Z0 o od (fun p => H_to_A_sound m Z0 p oa) (fun _ => Iff.rfl) (by pin_of_okd)

theorem H_Z2oc_agree (m : M2 K) (Z0 : K) (o : okd_H_Z2oc m Z0) (oa : ok_H_A m Z0)
    (od : okd_A_Z2oc (H_to_A m Z0) Z0) : H_Z2oc m Z0 = A_Z2oc (H_to_A m Z0) Z0 :=
  attr_agree H_Z2oc_sound A_Z2oc_sound m _ _ Z0 o od (fun p => H_to_A_sound m Z0 p oa) (fun _ => Iff.rfl) (by pin_of_okd)

theorem H_Z2sc_agree (m : M2 K) (Z0 : K) (o : okd_H_Z2sc m Z0) (oa : ok_H_A m Z0)
    (od : okd_A_Z2sc (H_to_A m Z0) Z0) : H_Z2sc m Z0 = A_Z2sc (H_to_A m Z0) Z0 :=
  attr_agree H_Z2sc_sound A_Z2sc_sound m _ _ Z0 o od (fun p => H_to_A_sound m Z0 p oa) (fun _ => Iff.rfl) (by pin_of_okd)

theorem H_Vgain12_agree (m : M2 K) (Z0 : K) (o : okd_H_Vgain12 m Z0) (oa : ok_H_A m Z0)
    (od : okd_A_Vgain12 (H_to_A m Z0) Z0) : H_Vgain12 m Z0 = A_Vgain12 (H_to_A m Z0) Z0 :=
  attr_agree H_Vgain12_sound A_Vgain12_sound m _ _ Z0 o od (fun p => H_to_A_sound m Z0 p oa) (fun _ => Iff.rfl) (by pin_of_okd)

theorem H_Vgain21_agree (m : M2 K) (Z0 : K) (o : okd_H_Vgain21 m Z0) (oa : ok_H_A m Z0)
    (od : okd_A_Vgain21 (H_to_A m Z0) Z0) : H_Vgain21 m Z0 = A_Vgain21 (H_to_A m Z0) Z0 :=
  attr_agree H_Vgain21_sound A_Vgain21_sound m _ _ Z0 o od (fun p => H_to_A_sound m Z0 p oa) (fun _ => Iff.rfl) (by pin_of_okd)

theorem H_Igain12_agree (m : M2 K) (Z0 : K) (o : okd_H_Igain12 m Z0) (oa : ok_H_A m Z0)
    (od : okd_A_Igain12 (H_to_A m Z0) Z0) : H_Igain12 m Z0 = A_Igain12 (H_to_A m Z0) Z0 :=
  attr_agree H_Igain12_sound A_Igain12_sound m _ _ Z0 o od (fun p => H_to_A_sound m Z0 p oa) (fun _ => Iff.rfl) (by pin_of_okd)

theorem H_Igain21_agree (m : M2 K) (Z0 : K) (o : okd_H_Igain21 m Z0) (oa : ok_H_A m Z0)
    (od : okd_A_Igain21 (H_to_A m Z0) Z0) : H_Igain21 m Z0 = A_Igain21 (H_to_A m Z0) Z0 :=
  attr_agree H_Igain21_sound A_Igain21_sound m _ _ Z0 o od (fun p => H_to_A_sound m Z0 p oa) (fun _ => Iff.rfl) (by pin_of_okd)

theorem H_forward_transadmittance_agree (m : M2 K) (Z0 : K) (o : okd_H_forward_transadmittance m Z0) (oa : ok_H_A m Z0)
    (od : okd_A_forward_transadmittance (H_to_A m Z0) Z0) : H_forward_transadmittance m Z0 = A_forward_transadmittance (H_to_A m Z0) Z0 :=
  attr_agree H_forward_transadmittance_sound A_forward_transadmittance_sound m _ _ Z0 o od (fun p => H_to_A_sound m Z0 p oa) (fun _ => Iff.rfl) (by pin_of_okd)

theorem H_reverse_transadmittance_agree (m : M2 K) (Z0 : K) (o : okd_H_reverse_transadmittance m Z0) (oa : ok_H_A m Z0)
    (od : okd_A_reverse_transadmittance (H_to_A m Z0) Z0) : H_reverse_transadmittance m Z0 = A_reverse_transadmittance (H_to_A m Z0) Z0 :=
  attr_agree H_reverse_transadmittance_sound A_reverse_transadmittance_sound m _ _ Z0 o od (fun p => H_to_A_sound m Z0 p oa) (fun _ => Iff.rfl) (by pin_of_okd)

theorem H_forward_transimpedance_agree (m : M2 K) (Z0 : K) (o : okd_H_forward_transimpedance m Z0) (oa : ok_H_A m Z0)
    (od : okd_A_forward_transimpedance (H_to_A m Z0) Z0) : H_forward_transimpedance m Z0 = A_forward_transimpedance (H_to_A m Z0) Z0 :=
  attr_agree H_forward_transimpedance_sound A_forward_transimpedance_sound m _ _ Z0 o od (fun p => H_to_A_sound m Z0 p oa) (fun _ => Iff.rfl) (by pin_of_okd)

theorem H_reverse_transimpedance_agree (m : M2 K) (Z0 : K) (o : okd_H_reverse_transimpedance m Z0) (oa : ok_H_A m Z0)
    (od : okd_A_reverse_transimpedance (H_to_A m Z0) Z0) : H_reverse_transimpedance m Z0 = A_reverse_transimpedance (H_to_A m Z0) Z0 :=
  attr_agree H_reverse_transimpedance_sound A_reverse_transimpedance_sound m _ _ Z0 o od (fun p => H_to_A_sound m Z0 p oa) (fun _ => Iff.rfl) (by pin_of_okd)

theorem H_voltage_gain_agree (m : M2 K) (Z0 : K) (o : okd_H_voltage_gain m Z0) (oa : ok_H_A m Z0)
    (od : okd_A_voltage_gain (H_to_A m Z0) Z0) : H_voltage_gain m Z0 = A_voltage_gain (H_to_A m Z0) Z0 :=
  attr_agree H_voltage_gain_sound A_voltage_gain_sound m _ _ Z0 o od (fun p => H_to_A_sound m Z0 p oa) (fun _ => Iff.rfl) (by pin_of_okd)

theorem H_forward_voltage_gain_agree (m : M2 K) (Z0 : K) (o : okd_H_forward_voltage_gain m Z0) (oa : ok_H_A m Z0)
    (od : okd_A_forward_voltage_gain (H_to_A m Z0) Z0) : H_forward_voltage_gain m Z0 = A_forward_voltage_gain (H_to_A m Z0) Z0 :=
  attr_agree H_forward_voltage_gain_sound A_forward_voltage_gain_sound m _ _ Z0 o od (fun p => H_to_A_sound m Z0 p oa) (fun _ => Iff.rfl) (by pin_of_okd)

theorem H_reverse_voltage_gain_agree (m : M2 K) (Z0 : K) (o : okd_H_reverse_voltage_gain m Z0) (oa : ok_H_A m Z0)
    (od : okd_A_reverse_voltage_gain (H_to_A m Z0) Z0) : H_reverse_voltage_gain m Z0 = A_reverse_voltage_gain (H_to_A m Z0) Z0 :=
  attr_agree H_reverse_voltage_gain_sound A_reverse_voltage_gain_sound m _ _ Z0 o od (fun p => H_to_A_sound m Z0 p oa) (fun _ => Iff.rfl) (by pin_of_okd)

theorem H_current_gain_agree (m : M2 K) (Z0 : K) (o : okd_H_current_gain m Z0) (oa : ok_H_A m Z0)
    (od : okd_A_current_gain (H_to_A m Z0) Z0) : H_current_gain m Z0 = A_current_gain (H_to_A m Z0) Z0 :=
  attr_agree H_current_gain_sound A_current_gain_sound m _ _ Z0 o od (fun p => H_to_A_sound m Z0 p oa) (fun _ => Iff.rfl) (by pin_of_okd)

theorem H_forward_current_gain_agree (m : M2 K) (Z0 : K) (o : okd_H_forward_current_gain m Z0) (oa : ok_H_A m Z0)
    (od : okd_A_forward_current_gain (H_to_A m Z0) Z0) : H_forward_current_gain m Z0 = A_forward_current_gain (H_to_A m Z0) Z0 :=
  attr_agree H_forward_current_gain_sound A_forward_current_gain_sound m _ _ Z0 o od (fun p => H_to_A_sound m Z0 p oa) (fun _ => Iff.rfl) (by pin_of_okd)

theorem H_reverse_current_gain_agree (m : M2 K) (Z0 : K) (o : okd_H_reverse_current_gain m Z0) (oa : ok_H_A m Z0)
    (od : okd_A_reverse_current_gain (H_to_A m Z0) Z0) : H_reverse_current_gain m Z0 = A_reverse_current_gain (H_to_A m Z0) Z0 :=
  attr_agree H_reverse_current_gain_sound A_reverse_current_gain_sound m _ _ Z0 o od (fun p => H_to_A_sound m Z0 p oa) (fun _ => Iff.rfl) (by pin_of_okd)

theorem H_transadmittance_agree (m : M2 K) (Z0 : K) (o : okd_H_transadmittance m Z0) (oa : ok_H_A m Z0)
    (od : okd_A_transadmittance (H_to_A m Z0) Z0) : H_transadmittance m Z0 = A_transadmittance (H_to_A m Z0) Z0 :=
  attr_agree H_transadmittance_sound A_transadmittance_sound m _ _ Z0 o od (fun p => H_to_A_sound m Z0 p oa) (fun _ => Iff.rfl) (by pin_of_okd)

theorem H_transimpedance_agree (m : M2 K) (Z0 : K) (o : okd_H_transimpedance m Z0) (oa : ok_H_A m Z0)
    (od : okd_A_transimpedance (H_to_A m Z0) Z0) : H_transimpedance m Z0 = A_transimpedance (H_to_A m Z0) Z0 :=
  attr_agree H_transimpedance_sound A_transimpedance_sound m _ _ Z0 o od (fun p => H_to_A_sound m Z0 p oa) (fun _ => Iff.rfl) (by pin_of_okd)

theorem S_Z1oc_agree (m : M2 K) (Z0 : K) (o : okd_S_Z1oc m Z0) (oa : ok_S_A m Z0)
    (od : okd_A_Z1oc (S_to_A m Z0) Z0) : S_Z1oc m Z0 = A_Z1oc (S_to_A m Z0) Z0 :=
  attr_agree S_Z1oc_sound A_Z1oc_sound m _ _ Z0 o od (fun p => S_to_A_sound m Z0 p oa) (fun _ => Iff.rfl) (by pin_of_okd)

theorem S_Z1sc_agree (m : M2 K) (Z0 : K) (o : okd_S_Z1sc m Z0) (oa : ok_S_A m Z0)
    (od : okd_A_Z1sc (S_to_A m Z0) Z0) : S_Z1sc m Z0 = A_Z1sc (S_to_A m Z0) Z0 :=
  attr_agree S_Z1sc_sound A_Z1sc_sound m _ _ Z0 o od (fun p => S_to_A_sound m Z0 p oa) (fun _ => Iff.rfl) (by pin_of_okd)

theorem S_Z2oc_agree (m : M2 K) (Z0 : K) (o : okd_S_Z2oc m Z0) (oa : ok_S_A m Z0)
    (od : okd_A_Z2oc (S_to_A m Z0) Z0) : S_Z2oc m Z0 = A_Z2oc (S_to_A m Z0) Z0 :=
  attr_agree S_Z2oc_sound A_Z2oc_sound m _ _ Z0 o od (fun p => S_to_A_sound m Z0 p oa) (fun _ => Iff.rfl) (by pin_of_okd)

theorem S_Z2sc_agree (m : M2 K) (Z0 : K) (o : okd_S_Z2sc m Z0) (oa : ok_S_A m Z0)
    (od : okd_A_Z2sc (S_to_A m Z0) Z0) : S_Z2sc m Z0 = A_Z2sc (S_to_A m Z0) Z0 :=
  attr_agree S_Z2sc_sound A_Z2sc_sound m _ _ Z0 o od (fun p => S_to_A_sound m Z0 p oa) (fun _ => Iff.rfl) (by pin_of_okd)

theorem S_Vgain12_agree (m : M2 K) (Z0 : K) (o : okd_S_Vgain12 m Z0) (oa : ok_S_A m Z0)
    (od : okd_A_Vgain12 (S_to_A m Z0) Z0) : S_Vgain12 m Z0 = A_Vgain12 (S_to_A m Z0) Z0 :=
  attr_agree S_Vgain12_sound A_Vgain12_sound m _ _ Z0 o od (fun p => S_to_A_sound m Z0 p oa) (fun _ => Iff.rfl) (by pin_of_okd)

theorem S_Vgain21_agree (m : M2 K) (Z0 : K) (o : okd_S_Vgain21 m Z0) (oa : ok_S_A m Z0)
    (od : okd_A_Vgain21 (S_to_A m Z0) Z0) : S_Vgain21 m Z0 = A_Vgain21 (S_to_A m Z0) Z0 :=
  attr_agree S_Vgain21_sound A_Vgain21_sound m _ _ Z0 o od (fun p => S_to_A_sound m Z0 p oa) (fun _ => Iff.rfl) (by pin_of_okd)

theorem S_Igain12_agree (m : M2 K) (Z0 : K) (o : okd_S_Igain12 m Z0) (oa : ok_S_A m Z0)
    (od : okd_A_Igain12 (S_to_A m Z0) Z0) : S_Igain12 m Z0 = A_Igain12 (S_to_A m Z0) Z0 :=
  attr_agree S_Igain12_sound A_Igain12_sound m _ _ Z0 o od (fun p => S_to_A_sound m Z0 p oa) (fun _ => Iff.rfl) (by pin_of_okd)

theorem S_Igain21_agree (m : M2 K) (Z0 : K) (o : okd_S_Igain21 m Z0) (oa : ok_S_A m Z0)
    (od : okd_A_Igain21 (S_to_A m Z0) Z0) : S_Igain21 m Z0 = A_Igain21 (S_to_A m Z0) Z0 :=
  attr_agree S_Igain21_sound A_Igain21_sound m _ _ Z0 o od (fun p => S_to_A_sound m Z0 p oa) (fun _ => Iff.rfl) (by pin_of_okd)

theorem S_forward_transadmittance_agree (m : M2 K) (Z0 : K) (o : okd_S_forward_transadmittance m Z0) (oa : ok_S_A m Z0)
    (od : okd_A_forward_transadmittance (S_to_A m Z0) Z0) : S_forward_transadmittance m Z0 = A_forward_transadmittance (S_to_A m Z0) Z0 :=
  attr_agree S_forward_transadmittance_sound A_forward_transadmittance_sound m _ _ Z0 o od (fun p => S_to_A_sound m Z0 p oa) (fun _ => Iff.rfl) (by pin_of_okd)

theorem S_reverse_transadmittance_agree (m : M2 K) (Z0 : K) (o : okd_S_reverse_transadmittance m Z0) (oa : ok_S_A m Z0)
    (od : okd_A_reverse_transadmittance (S_to_A m Z0) Z0) : S_reverse_transadmittance m Z0 = A_reverse_transadmittance (S_to_A m Z0) Z0 :=
  attr_agree S_reverse_transadmittance_sound A_reverse_transadmittance_sound m _ _ Z0 o od (fun p => S_to_A_sound m Z0 p oa) (fun _ => Iff.rfl) (by pin_of_okd)

theorem S_forward_transimpedance_agree (m : M2 K) (Z0 : K) (o : okd_S_forward_transimpedance m Z0) (oa : ok_S_A m Z0)
    (od : okd_A_forward_transimpedance (S_to_A m Z0) Z0) : S_forward_transimpedance m Z0 = A_forward_transimpedance (S_to_A m Z0) Z0 :=
  attr_agree S_forward_transimpedance_sound A_forward_transimpedance_sound m _ _ Z0 o od (fun p => S_to_A_sound m Z0 p oa) (fun _ => Iff.rfl) (by pin_of_okd)

theorem S_reverse_transimpedance_agree (m : M2 K) (Z0 : K) (o : okd_S_reverse_transimpedance m Z0) (oa : ok_S_A m Z0)
    (od : okd_A_reverse_transimpedance (S_to_A m Z0) Z0) : S_reverse_transimpedance m Z0 = A_reverse_transimpedance (S_to_A m Z0) Z0 :=
  attr_agree S_reverse_transimpedance_sound A_reverse_transimpedance_sound m _ _ Z0 o od (fun p => S_to_A_sound m Z0 p oa) (fun _ => Iff.rfl) (by pin_of_okd)

theorem S_voltage_gain_agree (m : M2 K) (Z0 : K) (o : okd_S_voltage_gain m Z0) (oa : ok_S_A m Z0)
    (od : okd_A_voltage_gain (S_to_A m Z0) Z0) : S_voltage_gain m Z0 = A_voltage_gain (S_to_A m Z0) Z0 :=
  attr_agree S_voltage_gain_sound A_voltage_gain_sound m _ _ Z0 o od (fun p => S_to_A_sound m Z0 p oa) (fun _ => Iff.rfl) (by pin_of_okd)

theorem S_forward_voltage_gain_agree (m : M2 K) (Z0 : K) (o : okd_S_forward_voltage_gain m Z0) (oa : ok_S_A m Z0)
    (od : okd_A_forward_voltage_gain (S_to_A m Z0) Z0) : S_forward_voltage_gain m Z0 = A_forward_voltage_gain (S_to_A m Z0) Z0 :=
  attr_agree S_forward_voltage_gain_sound A_forward_voltage_gain_sound m _ _ Z0 o od (fun p => S_to_A_sound m Z0 p oa) (fun _ => Iff.rfl) (by pin_of_okd)

theorem S_reverse_voltage_gain_agree (m : M2 K) (Z0 : K) (o : okd_S_reverse_voltage_gain m Z0) (oa : ok_S_A m Z0)
    (od : okd_A_reverse_voltage_gain (S_to_A m Z0) Z0) : S_reverse_voltage_gain m Z0 = A_reverse_voltage_gain (S_to_A m Z0) Z0 :=
  attr_agree S_reverse_voltage_gain_sound A_reverse_voltage_gain_sound m _ _ Z0 o od (fun p => S_to_A_sound m Z0 p oa) (fun _ => Iff.rfl) (by pin_of_okd)

theorem S_current_gain_agree (m : M2 K) (Z0 : K) (o : okd_S_current_gain m Z0) (oa : ok_S_A m Z0)
    (od : okd_A_current_gain (S_to_A m Z0) Z0) : S_current_gain m Z0 = A_current_gain (S_to_A m Z0) Z0 :=
  attr_agree S_current_gain_sound A_current_gain_sound m _ _ Z0 o od (fun p => S_to_A_sound m Z0 p oa) (fun _ => Iff.rfl) (by pin_of_okd)

theorem S_forward_current_gain_agree (m : M2 K) (Z0 : K) (o : okd_S_forward_current_gain m Z0) (oa : ok_S_A m Z0)
    (od : okd_A_forward_current_gain (S_to_A m Z0) Z0) : S_forward_current_gain m Z0 = A_forward_current_gain (S_to_A m Z0) Z0 :=
  attr_agree S_forward_current_gain_sound A_forward_current_gain_sound m _ _ Z0 o od (fun p => S_to_A_sound m Z0 p oa) (fun _ => Iff.rfl) (by pin_of_okd)

theorem S_reverse_current_gain_agree (m : M2 K) (Z0 : K) (o : okd_S_reverse_current_gain m Z0) (oa : ok_S_A m Z0)
    (od : okd_A_reverse_current_gain (S_to_A m Z0) Z0) : S_reverse_current_gain m Z0 = A_reverse_current_gain (S_to_A m Z0) Z0 :=
  attr_agree S_reverse_current_gain_sound A_reverse_current_gain_sound m _ _ Z0 o od (fun p => S_to_A_sound m Z0 p oa) (fun _ => Iff.rfl) (by pin_of_okd)

theorem S_transadmittance_agree (m : M2 K) (Z0 : K) (o : okd_S_transadmittance m Z0) (oa : ok_S_A m Z0)
    (od : okd_A_transadmittance (S_to_A m Z0) Z0) : S_transadmittance m Z0 = A_transadmittance (S_to_A m Z0) Z0 :=
  attr_agree S_transadmittance_sound A_transadmittance_sound m _ _ Z0 o od (fun p => S_to_A_sound m Z0 p oa) (fun _ => Iff.rfl) (by pin_of_okd)

theorem S_transimpedance_agree (m : M2 K) (Z0 : K) (o : okd_S_transimpedance m Z0) (oa : ok_S_A m Z0)
    (od : okd_A_transimpedance (S_to_A m Z0) Z0) : S_transimpedance m Z0 = A_transimpedance (S_to_A m Z0) Z0 :=
  attr_agree S_transimpedance_sound A_transimpedance_sound m _ _ Z0 o od (fun p => S_to_A_sound m Z0 p oa) (fun _ => Iff.rfl) (by pin_of_okd)

theorem T_Z1oc_agree (m : M2 K) (Z0 : K) (o : okd_T_Z1oc m Z0) (oa : ok_T_A m Z0)
    (od : okd_A_Z1oc (T_to_A m Z0) Z0) : T_Z1oc m Z0 = A_Z1oc (T_to_A m Z0) Z0 :=
  attr_agree T_Z1oc_sound A_Z1oc_sound m _ _ Z0 o od (fun p => T_to_A_sound m Z0 p oa) (fun _ => Iff.rfl) (by pin_of_okd)

theorem T_Z1sc_agree (m : M2 K) (Z0 : K) (o : okd_T_Z1sc m Z0) (oa : ok_T_A m Z0)
    (od : okd_A_Z1sc (T_to_A m Z0) Z0) : T_Z1sc m Z0 = A_Z1sc (T_to_A m Z0) Z0 :=
  attr_agree T_Z1sc_sound A_Z1sc_sound m _ _ Z0 o od (fun p => T_to_A_sound m Z0 p oa) (fun _ => Iff.rfl) (by pin_of_okd)

theorem T_Z2oc_agree (m : M2 K) (Z0 : K) (o : okd_T_Z2oc m Z0) (oa : ok_T_A m Z0)
    (od : okd_A_Z2oc (T_to_A m Z0) Z0) : T_Z2oc m Z0 = A_Z2oc (T_to_A m Z0) Z0 :=
  attr_agree T_Z2oc_sound A_Z2oc_sound m _ _ Z0 o od (fun p => T_to_A_sound m Z0 p oa) (fun _ => Iff.rfl) (by pin_of_okd)

theorem T_Z2sc_agree (m : M2 K) (Z0 : K) (o : okd_T_Z2sc m Z0) (oa : ok_T_A m Z0)
    (od : okd_A_Z2sc (T_to_A m Z0) Z0) : T_Z2sc m Z0 = A_Z2sc (T_to_A m Z0) Z0 :=
  attr_agree T_Z2sc_sound A_Z2sc_sound m _ _ Z0 o od (fun p => T_to_A_sound m Z0 p oa) (fun _ => Iff.rfl) (by pin_of_okd)

theorem T_Vgain12_agree (m : M2 K) (Z0 : K) (o : okd_T_Vgain12 m Z0) (oa : ok_T_A m Z0)
    (od : okd_A_Vgain12 (T_to_A m Z0) Z0) : T_Vgain12 m Z0 = A_Vgain12 (T_to_A m Z0) Z0 :=
  attr_agree T_Vgain12_sound A_Vgain12_sound m _ _ Z0 o od (fun p => T_to_A_sound m Z0 p oa) (fun _ => Iff.rfl) (by pin_of_okd)

theorem T_Vgain21_agree (m : M2 K) (Z0 : K) (o : okd_T_Vgain21 m Z0) (oa : ok_T_A m Z0)
    (od : okd_A_Vgain21 (T_to_A m Z0) Z0) : T_Vgain21 m Z0 = A_Vgain21 (T_to_A m Z0) Z0 :=
  attr_agree T_Vgain21_sound A_Vgain21_sound m _ _ Z0 o od (fun p => T_to_A_sound m Z0 p oa) (fun _ => Iff.rfl) (by pin_of_okd)

theorem T_Igain12_agree (m : M2 K) (Z0 : K) (o : okd_T_Igain12 m Z0) (oa : ok_T_A m Z0)
    (od : okd_A_Igain12 (T_to_A m Z0) Z0) : T_Igain12 m Z0 = A_Igain12 (T_to_A m Z0) Z0 :=
  attr_agree T_Igain12_sound A_Igain12_sound m _ _ Z0 o od (fun p => T_to_A_sound m Z0 p oa) (fun _ => Iff.rfl) (by pin_of_okd)

theorem T_Igain21_agree (m : M2 K) (Z0 : K) (o : okd_T_Igain21 m Z0) (oa : ok_T_A m Z0)
    (od : okd_A_Igain21 (T_to_A m Z0) Z0) : T_Igain21 m Z0 = A_Igain21 (T_to_A m Z0) Z0 :=
  attr_agree T_Igain21_sound A_Igain21_sound m _ _ Z0 o od (fun p => T_to_A_sound m Z0 p oa) (fun _ => Iff.rfl) (by pin_of_okd)

theorem T_forward_transadmittance_agree (m : M2 K) (Z0 : K) (o : okd_T_forward_transadmittance m Z0) (oa : ok_T_A m Z0)
    (od : okd_A_forward_transadmittance (T_to_A m Z0) Z0) : T_forward_transadmittance m Z0 = A_forward_transadmittance (T_to_A m Z0) Z0 :=
  attr_agree T_forward_transadmittance_sound A_forward_transadmittance_sound m _ _ Z0 o od (fun p => T_to_A_sound m Z0 p oa) (fun _ => Iff.rfl) (by pin_of_okd)

theorem T_reverse_transadmittance_agree (m : M2 K) (Z0 : K) (o : okd_T_reverse_transadmittance m Z0) (oa : ok_T_A m Z0)
    (od : okd_A_reverse_transadmittance (T_to_A m Z0) Z0) : T_reverse_transadmittance m Z0 = A_reverse_transadmittance (T_to_A m Z0) Z0 :=
  attr_agree T_reverse_transadmittance_sound A_reverse_transadmittance_sound m _ _ Z0 o od (fun p => T_to_A_sound m Z0 p oa) (fun _ => Iff.rfl) (by pin_of_okd)

theorem T_forward_transimpedance_agree (m : M2 K) (Z0 : K) (o : okd_T_forward_transimpedance m Z0) (oa : ok_T_A m Z0)
    (od : okd_A_forward_transimpedance (T_to_A m Z0) Z0) : T_forward_transimpedance m Z0 = A_forward_transimpedance (T_to_A m Z0) Z0 :=
  attr_agree T_forward_transimpedance_sound A_forward_transimpedance_sound m _ _ Z0 o od (fun p => T_to_A_sound m Z0 p oa) (fun _ => Iff.rfl) (by pin_of_okd)

theorem T_reverse_transimpedance_agree (m : M2 K) (Z0 : K) (o : okd_T_reverse_transimpedance m Z0) (oa : ok_T_A m Z0)
    (od : okd_A_reverse_transimpedance (T_to_A m Z0) Z0) : T_reverse_transimpedance m Z0 = A_reverse_transimpedance (T_to_A m Z0) Z0 :=
  attr_agree T_reverse_transimpedance_sound A_reverse_transimpedance_sound m _ _ Z0 o od (fun p => T_to_A_sound m Z0 p oa) (fun _ => Iff.rfl) (by pin_of_okd)

theorem T_voltage_gain_agree (m : M2 K) (Z0 : K) (o : okd_T_voltage_gain m Z0) (oa : ok_T_A m Z0)
    (od : okd_A_voltage_gain (T_to_A m Z0) Z0) : T_voltage_gain m Z0 = A_voltage_gain (T_to_A m Z0) Z0 :=
  attr_agree T_voltage_gain_sound A_voltage_gain_sound m _ _ Z0 o od (fun p => T_to_A_sound m Z0 p oa) (fun _ => Iff.rfl) (by pin_of_okd)

theorem T_forward_voltage_gain_agree (m : M2 K) (Z0 : K) (o : okd_T_forward_voltage_gain m Z0) (oa : ok_T_A m Z0)
    (od : okd_A_forward_voltage_gain (T_to_A m Z0) Z0) : T_forward_voltage_gain m Z0 = A_forward_voltage_gain (T_to_A m Z0) Z0 :=
  attr_agree T_forward_voltage_gain_sound A_forward_voltage_gain_sound m _ _ Z0 o od (fun p => T_to_A_sound m Z0 p oa) (fun _ => Iff.rfl) (by pin_of_okd)

theorem T_reverse_voltage_gain_agree (m : M2 K) (Z0 : K) (o : okd_T_reverse_voltage_gain m Z0) (oa : ok_T_A m Z0)
    (od : okd_A_reverse_voltage_gain (T_to_A m Z0) Z0) : T_reverse_voltage_gain m Z0 = A_reverse_voltage_gain (T_to_A m Z0) Z0 :=
  attr_agree T_reverse_voltage_gain_sound A_reverse_voltage_gain_sound m _ _ Z0 o od (fun p => T_to_A_sound m Z0 p oa) (fun _ => Iff.rfl) (by pin_of_okd)

theorem T_current_gain_agree (m : M2 K) (Z0 : K) (o : okd_T_current_gain m Z0) (oa : ok_T_A m Z0)
    (od : okd_A_current_gain (T_to_A m Z0) Z0) : T_current_gain m Z0 = A_current_gain (T_to_A m Z0) Z0 :=
  attr_agree T_current_gain_sound A_current_gain_sound m _ _ Z0 o od (fun p => T_to_A_sound m Z0 p oa) (fun _ => Iff.rfl) (by pin_of_okd)

theorem T_forward_current_gain_agree (m : M2 K) (Z0 : K) (o : okd_T_forward_current_gain m Z0) (oa : ok_T_A m Z0)
    (od : okd_A_forward_current_gain (T_to_A m Z0) Z0) : T_forward_current_gain m Z0 = A_forward_current_gain (T_to_A m Z0) Z0 :=
  attr_agree T_forward_current_gain_sound A_forward_current_gain_sound m _ _ Z0 o od (fun p => T_to_A_sound m Z0 p oa) (fun _ => Iff.rfl) (by pin_of_okd)

theorem T_reverse_current_gain_agree (m : M2 K) (Z0 : K) (o : okd_T_reverse_current_gain m Z0) (oa : ok_T_A m Z0)
    (od : okd_A_reverse_current_gain (T_to_A m Z0) Z0) : T_reverse_current_gain m Z0 = A_reverse_current_gain (T_to_A m Z0) Z0 :=
  attr_agree T_reverse_current_gain_sound A_reverse_current_gain_sound m _ _ Z0 o od (fun p => T_to_A_sound m Z0 p oa) (fun _ => Iff.rfl) (by pin_of_okd)

theorem T_transadmittance_agree (m : M2 K) (Z0 : K) (o : okd_T_transadmittance m Z0) (oa : ok_T_A m Z0)
    (od : okd_A_transadmittance (T_to_A m Z0) Z0) : T_transadmittance m Z0 = A_transadmittance (T_to_A m Z0) Z0 :=
  attr_agree T_transadmittance_sound A_transadmittance_sound m _ _ Z0 o od (fun p => T_to_A_sound m Z0 p oa) (fun _ => Iff.rfl) (by pin_of_okd)

theorem T_transimpedance_agree (m : M2 K) (Z0 : K) (o : okd_T_transimpedance m Z0) (oa : ok_T_A m Z0)
    (od : okd_A_transimpedance (T_to_A m Z0) Z0) : T_transimpedance m Z0 = A_transimpedance (T_to_A m Z0) Z0 :=
  attr_agree T_transimpedance_sound A_transimpedance_sound m _ _ Z0 o od (fun p => T_to_A_sound m Z0 p oa) (fun _ => Iff.rfl) (by pin_of_okd)

theorem Y_Z1oc_agree (m : M2 K) (Z0 : K) (o : okd_Y_Z1oc m Z0) (oa : ok_Y_A m Z0)
    (od : okd_A_Z1oc (Y_to_A m Z0) Z0) : Y_Z1oc m Z0 = A_Z1oc (Y_to_A m Z0) Z0 :=
  attr_agree Y_Z1oc_sound A_Z1oc_sound m _ _ Z0 o od (fun p => Y_to_A_sound m Z0 p oa) (fun _ => Iff.rfl) (by pin_of_okd)

theorem Y_Z1sc_agree (m : M2 K) (Z0 : K) (o : okd_Y_Z1sc m Z0) (oa : ok_Y_A m Z0)
    (od : okd_A_Z1sc (Y_to_A m Z0) Z0) : Y_Z1sc m Z0 = A_Z1sc (Y_to_A m Z0) Z0 :=
  attr_agree Y_Z1sc_sound A_Z1sc_sound m _ _ Z0 o od (fun p => Y_to_A_sound m Z0 p oa) (fun _ => Iff.rfl) (by pin_of_okd)

theorem Y_Z2oc_agree (m : M2 K) (Z0 : K) (o : okd_Y_Z2oc m Z0) (oa : ok_Y_A m Z0)
    (od : okd_A_Z2oc (Y_to_A m Z0) Z0) : Y_Z2oc m Z0 = A_Z2oc (Y_to_A m Z0) Z0 :=
  attr_agree Y_Z2oc_sound A_Z2oc_sound m _ _ Z0 o od (fun p => Y_to_A_sound m Z0 p oa) (fun _ => Iff.rfl) (by pin_of_okd)

theorem Y_Z2sc_agree (m : M2 K) (Z0 : K) (o : okd_Y_Z2sc m Z0) (oa : ok_Y_A m Z0)
    (od : okd_A_Z2sc (Y_to_A m Z0) Z0) : Y_Z2sc m Z0 = A_Z2sc (Y_to_A m Z0) Z0 :=
  attr_agree Y_Z2sc_sound A_Z2sc_sound m _ _ Z0 o od (fun p => Y_to_A_sound m Z0 p oa) (fun _ => Iff.rfl) (by pin_of_okd)

theorem Y_Vgain12_agree (m : M2 K) (Z0 : K) (o : okd_Y_Vgain12 m Z0) (oa : ok_Y_A m Z0)
    (od : okd_A_Vgain12 (Y_to_A m Z0) Z0) : Y_Vgain12 m Z0 = A_Vgain12 (Y_to_A m Z0) Z0 :=
  attr_agree Y_Vgain12_sound A_Vgain12_sound m _ _ Z0 o od (fun p => Y_to_A_sound m Z0 p oa) (fun _ => Iff.rfl) (by pin_of_okd)

theorem Y_Vgain21_agree (m : M2 K) (Z0 : K) (o : okd_Y_Vgain21 m Z0) (oa : ok_Y_A m Z0)
    (od : okd_A_Vgain21 (Y_to_A m Z0) Z0) : Y_Vgain21 m Z0 = A_Vgain21 (Y_to_A m Z0) Z0 :=
  attr_agree Y_Vgain21_sound A_Vgain21_sound m _ _ Z0 o od (fun p => Y_to_A_sound m Z0 p oa) (fun _ => Iff.rfl) (by pin_of_okd)

theorem Y_Igain12_agree (m : M2 K) (Z0 : K) (o : okd_Y_Igain12 m Z0) (oa : ok_Y_A m Z0)
    (od : okd_A_Igain12 (Y_to_A m Z0) Z0) : Y_Igain12 m Z0 = A_Igain12 (Y_to_A m Z0) Z0 :=
  attr_agree Y_Igain12_sound A_Igain12_sound m _ _ Z0 o od (fun p => Y_to_A_sound m Z0 p oa) (fun _ => Iff.rfl) (by pin_of_okd)

theorem Y_Igain21_agree (m : M2 K) (Z0 : K) (o : okd_Y_Igain21 m Z0) (oa : ok_Y_A m Z0)
    (od : okd_A_Igain21 (Y_to_A m Z0) Z0) : Y_Igain21 m Z0 = A_Igain21 (Y_to_A m Z0) Z0 :=
  attr_agree Y_Igain21_sound A_Igain21_sound m _ _ Z0 o od (fun p => Y_to_A_sound m Z0 p oa) (fun _ => Iff.rfl) (by pin_of_okd)

theorem Y_forward_transadmittance_agree (m : M2 K) (Z0 : K) (o : okd_Y_forward_transadmittance m Z0) (oa : ok_Y_A m Z0)
    (od : okd_A_forward_transadmittance (Y_to_A m Z0) Z0) : Y_forward_transadmittance m Z0 = A_forward_transadmittance (Y_to_A m Z0) Z0 :=
  attr_agree Y_forward_transadmittance_sound A_forward_transadmittance_sound m _ _ Z0 o od (fun p => Y_to_A_sound m Z0 p oa) (fun _ => Iff.rfl) (by pin_of_okd)

theorem Y_reverse_transadmittance_agree (m : M2 K) (Z0 : K) (o : okd_Y_reverse_transadmittance m Z0) (oa : ok_Y_A m Z0)
    (od : okd_A_reverse_transadmittance (Y_to_A m Z0) Z0) : Y_reverse_transadmittance m Z0 = A_reverse_transadmittance (Y_to_A m Z0) Z0 :=
  attr_agree Y_reverse_transadmittance_sound A_reverse_transadmittance_sound m _ _ Z0 o od (fun p => Y_to_A_sound m Z0 p oa) (fun _ => Iff.rfl) (by pin_of_okd)

theorem Y_forward_transimpedance_agree (m : M2 K) (Z0 : K) (o : okd_Y_forward_transimpedance m Z0) (oa : ok_Y_A m Z0)
    (od : okd_A_forward_transimpedance (Y_to_A m Z0) Z0) : Y_forward_transimpedance m Z0 = A_forward_transimpedance (Y_to_A m Z0) Z0 :=
  attr_agree Y_forward_transimpedance_sound A_forward_transimpedance_sound m _ _ Z0 o od (fun p => Y_to_A_sound m Z0 p oa) (fun _ => Iff.rfl) (by pin_of_okd)

theorem Y_reverse_transimpedance_agree (m : M2 K) (Z0 : K) (o : okd_Y_reverse_transimpedance m Z0) (oa : ok_Y_A m Z0)
    (od : okd_A_reverse_transimpedance (Y_to_A m Z0) Z0) : Y_reverse_transimpedance m Z0 = A_reverse_transimpedance (Y_to_A m Z0) Z0 :=
  attr_agree Y_reverse_transimpedance_sound A_reverse_transimpedance_sound m _ _ Z0 o od (fun p => Y_to_A_sound m Z0 p oa) (fun _ => Iff.rfl) (by pin_of_okd)

theorem Y_voltage_gain_agree (m : M2 K) (Z0 : K) (o : okd_Y_voltage_gain m Z0) (oa : ok_Y_A m Z0)
    (od : okd_A_voltage_gain (Y_to_A m Z0) Z0) : Y_voltage_gain m Z0 = A_voltage_gain (Y_to_A m Z0) Z0 :=
  attr_agree Y_voltage_gain_sound A_voltage_gain_sound m _ _ Z0 o od (fun p => Y_to_A_sound m Z0 p oa) (fun _ => Iff.rfl) (by pin_of_okd)

theorem Y_forward_voltage_gain_agree (m : M2 K) (Z0 : K) (o : okd_Y_forward_voltage_gain m Z0) (oa : ok_Y_A m Z0)
    (od : okd_A_forward_voltage_gain (Y_to_A m Z0) Z0) : Y_forward_voltage_gain m Z0 = A_forward_voltage_gain (Y_to_A m Z0) Z0 :=
  attr_agree Y_forward_voltage_gain_sound A_forward_voltage_gain_sound m _ _ Z0 o od (fun p => Y_to_A_sound m Z0 p oa) (fun _ => Iff.rfl) (by pin_of_okd)

theorem Y_reverse_voltage_gain_agree (m : M2 K) (Z0 : K) (o : okd_Y_reverse_voltage_gain m Z0) (oa : ok_Y_A m Z0)
    (od : okd_A_reverse_voltage_gain (Y_to_A m Z0) Z0) : Y_reverse_voltage_gain m Z0 = A_reverse_voltage_gain (Y_to_A m Z0) Z0 :=
  attr_agree Y_reverse_voltage_gain_sound A_reverse_voltage_gain_sound m _ _ Z0 o od (fun p => Y_to_A_sound m Z0 p oa) (fun _ => Iff.rfl) (by pin_of_okd)

theorem Y_current_gain_agree (m : M2 K) (Z0 : K) (o : okd_Y_current_gain m Z0) (oa : ok_Y_A m Z0)
    (od : okd_A_current_gain (Y_to_A m Z0) Z0) : Y_current_gain m Z0 = A_current_gain (Y_to_A m Z0) Z0 :=
  attr_agree Y_current_gain_sound A_current_gain_sound m _ _ Z0 o od (fun p => Y_to_A_sound m Z0 p oa) (fun _ => Iff.rfl) (by pin_of_okd)

theorem Y_forward_current_gain_agree (m : M2 K) (Z0 : K) (o : okd_Y_forward_current_gain m Z0) (oa : ok_Y_A m Z0)
    (od : okd_A_forward_current_gain (Y_to_A m Z0) Z0) : Y_forward_current_gain m Z0 = A_forward_current_gain (Y_to_A m Z0) Z0 :=
  attr_agree Y_forward_current_gain_sound A_forward_current_gain_sound m _ _ Z0 o od (fun p => Y_to_A_sound m Z0 p oa) (fun _ => Iff.rfl) (by pin_of_okd)

theorem Y_reverse_current_gain_agree (m : M2 K) (Z0 : K) (o : okd_Y_reverse_current_gain m Z0) (oa : ok_Y_A m Z0)
    (od : okd_A_reverse_current_gain (Y_to_A m Z0) Z0) : Y_reverse_current_gain m Z0 = A_reverse_current_gain (Y_to_A m Z0) Z0 :=
  attr_agree Y_reverse_current_gain_sound A_reverse_current_gain_sound m _ _ Z0 o od (fun p => Y_to_A_sound m Z0 p oa) (fun _ => Iff.rfl) (by pin_of_okd)

theorem Y_transadmittance_agree (m : M2 K) (Z0 : K) (o : okd_Y_transadmittance m Z0) (oa : ok_Y_A m Z0)
    (od : okd_A_transadmittance (Y_to_A m Z0) Z0) : Y_transadmittance m Z0 = A_transadmittance (Y_to_A m Z0) Z0 :=
  attr_agree Y_transadmittance_sound A_transadmittance_sound m _ _ Z0 o od (fun p => Y_to_A_sound m Z0 p oa) (fun _ => Iff.rfl) (by pin_of_okd)

theorem Y_transimpedance_agree (m : M2 K) (Z0 : K) (o : okd_Y_transimpedance m Z0) (oa : ok_Y_A m Z0)
    (od : okd_A_transimpedance (Y_to_A m Z0) Z0) : Y_transimpedance m Z0 = A_transimpedance (Y_to_A m Z0) Z0 :=
  attr_agree Y_transimpedance_sound A_transimpedance_sound m _ _ Z0 o od (fun p => Y_to_A_sound m Z0 p oa) (fun _ => Iff.rfl) (by pin_of_okd)

theorem Z_Z1oc_agree (m : M2 K) (Z0 : K) (o : okd_Z_Z1oc m Z0) (oa : ok_Z_A m Z0)
    (od : okd_A_Z1oc (Z_to_A m Z0) Z0) : Z_Z1oc m Z0 = A_Z1oc (Z_to_A m Z0) Z0 :=
  attr_agree Z_Z1oc_sound A_Z1oc_sound m _ _ Z0 o od (fun p => Z_to_A_sound m Z0 p oa) (fun _ => Iff.rfl) (by pin_of_okd)

theorem Z_Z1sc_agree (m : M2 K) (Z0 : K) (o : okd_Z_Z1sc m Z0) (oa : ok_Z_A m Z0)
    (od : okd_A_Z1sc (Z_to_A m Z0) Z0) : Z_Z1sc m Z0 = A_Z1sc (Z_to_A m Z0) Z0 :=
  attr_agree Z_Z1sc_sound A_Z1sc_sound m _ _ Z0 o od (fun p => Z_to_A_sound m Z0 p oa) (fun _ => Iff.rfl) (by pin_of_okd)

theorem Z_Z2oc_agree (m : M2 K) (Z0 : K) (o : okd_Z_Z2oc m Z0) (oa : ok_Z_A m Z0)
    (od : okd_A_Z2oc (Z_to_A m Z0) Z0) : Z_Z2oc m Z0 = A_Z2oc (Z_to_A m Z0) Z0 :=
  attr_agree Z_Z2oc_sound A_Z2oc_sound m _ _ Z0 o od (fun p => Z_to_A_sound m Z0 p oa) (fun _ => Iff.rfl) (by pin_of_okd)

theorem Z_Z2sc_agree (m : M2 K) (Z0 : K) (o : okd_Z_Z2sc m Z0) (oa : ok_Z_A m Z0)
    (od : okd_A_Z2sc (Z_to_A m Z0) Z0) : Z_Z2sc m Z0 = A_Z2sc (Z_to_A m Z0) Z0 :=
  attr_agree Z_Z2sc_sound A_Z2sc_sound m _ _ Z0 o od (fun p => Z_to_A_sound m Z0 p oa) (fun _ => Iff.rfl) (by pin_of_okd)

theorem Z_Vgain12_agree (m : M2 K) (Z0 : K) (o : okd_Z_Vgain12 m Z0) (oa : ok_Z_A m Z0)
    (od : okd_A_Vgain12 (Z_to_A m Z0) Z0) : Z_Vgain12 m Z0 = A_Vgain12 (Z_to_A m Z0) Z0 :=
  attr_agree Z_Vgain12_sound A_Vgain12_sound m _ _ Z0 o od (fun p => Z_to_A_sound m Z0 p oa) (fun _ => Iff.rfl) (by pin_of_okd)

theorem Z_Vgain21_agree (m : M2 K) (Z0 : K) (o : okd_Z_Vgain21 m Z0) (oa : ok_Z_A m Z0)
    (od : okd_A_Vgain21 (Z_to_A m Z0) Z0) : Z_Vgain21 m Z0 = A_Vgain21 (Z_to_A m Z0) Z0 :=
  attr_agree Z_Vgain21_sound A_Vgain21_sound m _ _ Z0 o od (fun p => Z_to_A_sound m Z0 p oa) (fun _ => Iff.rfl) (by pin_of_okd)

theorem Z_Igain12_agree (m : M2 K) (Z0 : K) (o : okd_Z_Igain12 m Z0) (oa : ok_Z_A m Z0)
    (od : okd_A_Igain12 (Z_to_A m Z0) Z0) : Z_Igain12 m Z0 = A_Igain12 (Z_to_A m Z0) Z0 :=
  attr_agree Z_Igain12_sound A_Igain12_sound m _ _ Z0 o od (fun p => Z_to_A_sound m Z0 p oa) (fun _ => Iff.rfl) (by pin_of_okd)

theorem Z_Igain21_agree (m : M2 K) (Z0 : K) (o : okd_Z_Igain21 m Z0) (oa : ok_Z_A m Z0)
    (od : okd_A_Igain21 (Z_to_A m Z0) Z0) : Z_Igain21 m Z0 = A_Igain21 (Z_to_A m Z0) Z0 :=
  attr_agree Z_Igain21_sound A_Igain21_sound m _ _ Z0 o od (fun p => Z_to_A_sound m Z0 p oa) (fun _ => Iff.rfl) (by pin_of_okd)

theorem Z_forward_transadmittance_agree (m : M2 K) (Z0 : K) (o : okd_Z_forward_transadmittance m Z0) (oa : ok_Z_A m Z0)
    (od : okd_A_forward_transadmittance (Z_to_A m Z0) Z0) : Z_forward_transadmittance m Z0 = A_forward_transadmittance (Z_to_A m Z0) Z0 :=
  attr_agree Z_forward_transadmittance_sound A_forward_transadmittance_sound m _ _ Z0 o od (fun p => Z_to_A_sound m Z0 p oa) (fun _ => Iff.rfl) (by pin_of_okd)

theorem Z_reverse_transadmittance_agree (m : M2 K) (Z0 : K) (o : okd_Z_reverse_transadmittance m Z0) (oa : ok_Z_A m Z0)
    (od : okd_A_reverse_transadmittance (Z_to_A m Z0) Z0) : Z_reverse_transadmittance m Z0 = A_reverse_transadmittance (Z_to_A m Z0) Z0 :=
  attr_agree Z_reverse_transadmittance_sound A_reverse_transadmittance_sound m _ _ Z0 o od (fun p => Z_to_A_sound m Z0 p oa) (fun _ => Iff.rfl) (by pin_of_okd)

theorem Z_forward_transimpedance_agree (m : M2 K) (Z0 : K) (o : okd_Z_forward_transimpedance m Z0) (oa : ok_Z_A m Z0)
    (od : okd_A_forward_transimpedance (Z_to_A m Z0) Z0) : Z_forward_transimpedance m Z0 = A_forward_transimpedance (Z_to_A m Z0) Z0 :=
  attr_agree Z_forward_transimpedance_sound A_forward_transimpedance_sound m _ _ Z0 o od (fun p => Z_to_A_sound m Z0 p oa) (fun _ => Iff.rfl) (by pin_of_okd)

theorem Z_reverse_transimpedance_agree (m : M2 K) (Z0 : K) (o : okd_Z_reverse_transimpedance m Z0) (oa : ok_Z_A m Z0)
    (od : okd_A_reverse_transimpedance (Z_to_A m Z0) Z0) : Z_reverse_transimpedance m Z0 = A_reverse_transimpedance (Z_to_A m Z0) Z0 :=
  attr_agree Z_reverse_transimpedance_sound A_reverse_transimpedance_sound m _ _ Z0 o od (fun p => Z_to_A_sound m Z0 p oa) (fun _ => Iff.rfl) (by pin_of_okd)

theorem Z_voltage_gain_agree (m : M2 K) (Z0 : K) (o : okd_Z_voltage_gain m Z0) (oa : ok_Z_A m Z0)
    (od : okd_A_voltage_gain (Z_to_A m Z0) Z0) : Z_voltage_gain m Z0 = A_voltage_gain (Z_to_A m Z0) Z0 :=
  attr_agree Z_voltage_gain_sound A_voltage_gain_sound m _ _ Z0 o od (fun p => Z_to_A_sound m Z0 p oa) (fun _ => Iff.rfl) (by pin_of_okd)

theorem Z_forward_voltage_gain_agree (m : M2 K) (Z0 : K) (o : okd_Z_forward_voltage_gain m Z0) (oa : ok_Z_A m Z0)
    (od : okd_A_forward_voltage_gain (Z_to_A m Z0) Z0) : Z_forward_voltage_gain m Z0 = A_forward_voltage_gain (Z_to_A m Z0) Z0 :=
  attr_agree Z_forward_voltage_gain_sound A_forward_voltage_gain_sound m _ _ Z0 o od (fun p => Z_to_A_sound m Z0 p oa) (fun _ => Iff.rfl) (by pin_of_okd)

theorem Z_reverse_voltage_gain_agree (m : M2 K) (Z0 : K) (o : okd_Z_reverse_voltage_gain m Z0) (oa : ok_Z_A m Z0)
    (od : okd_A_reverse_voltage_gain (Z_to_A m Z0) Z0) : Z_reverse_voltage_gain m Z0 = A_reverse_voltage_gain (Z_to_A m Z0) Z0 :=
  attr_agree Z_reverse_voltage_gain_sound A_reverse_voltage_gain_sound m _ _ Z0 o od (fun p => Z_to_A_sound m Z0 p oa) (fun _ => Iff.rfl) (by pin_of_okd)

theorem Z_current_gain_agree (m : M2 K) (Z0 : K) (o : okd_Z_current_gain m Z0) (oa : ok_Z_A m Z0)
    (od : okd_A_current_gain (Z_to_A m Z0) Z0) : Z_current_gain m Z0 = A_current_gain (Z_to_A m Z0) Z0 :=
  attr_agree Z_current_gain_sound A_current_gain_sound m _ _ Z0 o od (fun p => Z_to_A_sound m Z0 p oa) (fun _ => Iff.rfl) (by pin_of_okd)

theorem Z_forward_current_gain_agree (m : M2 K) (Z0 : K) (o : okd_Z_forward_current_gain m Z0) (oa : ok_Z_A m Z0)
    (od : okd_A_forward_current_gain (Z_to_A m Z0) Z0) : Z_forward_current_gain m Z0 = A_forward_current_gain (Z_to_A m Z0) Z0 :=
  attr_agree Z_forward_current_gain_sound A_forward_current_gain_sound m _ _ Z0 o od (fun p => Z_to_A_sound m Z0 p oa) (fun _ => Iff.rfl) (by pin_of_okd)

theorem Z_reverse_current_gain_agree (m : M2 K) (Z0 : K) (o : okd_Z_reverse_current_gain m Z0) (oa : ok_Z_A m Z0)
    (od : okd_A_reverse_current_gain (Z_to_A m Z0) Z0) : Z_reverse_current_gain m Z0 = A_reverse_current_gain (Z_to_A m Z0) Z0 :=
  attr_agree Z_reverse_current_gain_sound A_reverse_current_gain_sound m _ _ Z0 o od (fun p => Z_to_A_sound m Z0 p oa) (fun _ => Iff.rfl) (by pin_of_okd)

theorem Z_transadmittance_agree (m : M2 K) (Z0 : K) (o : okd_Z_transadmittance m Z0) (oa : ok_Z_A m Z0)
    (od : okd_A_transadmittance (Z_to_A m Z0) Z0) : Z_transadmittance m Z0 = A_transadmittance (Z_to_A m Z0) Z0 :=
  attr_agree Z_transadmittance_sound A_transadmittance_sound m _ _ Z0 o od (fun p => Z_to_A_sound m Z0 p oa) (fun _ => Iff.rfl) (by pin_of_okd)

theorem Z_transimpedance_agree (m : M2 K) (Z0 : K) (o : okd_Z_transimpedance m Z0) (oa : ok_Z_A m Z0)
    (od : okd_A_transimpedance (Z_to_A m Z0) Z0) : Z_transimpedance m Z0 = A_transimpedance (Z_to_A m Z0) Z0 :=
  attr_agree Z_transimpedance_sound A_transimpedance_sound m _ _ Z0 o od (fun p => Z_to_A_sound m Z0 p oa) (fun _ => Iff.rfl) (by pin_of_okd)

/-- e.g. the forward voltage gain computed from Z and from Y parameters of the same two-port -/
example (z y a : M2 K) (Z0 : K) (oz : okd_Z_Vgain12 z Z0) (oy : okd_Y_Vgain12 y Z0)
    (hz : ∀ p, rel .Z z Z0 p ↔ rel .A a Z0 p) (hy : ∀ p, rel .Y y Z0 p ↔ rel .A a Z0 p) (ha : a.a11 ≠ 0) :
    Z_Vgain12 z Z0 = Y_Vgain12 y Z0 :=
  attr_agree Z_Vgain12_sound Y_Vgain12_sound z y a Z0 oz oy hz hy ha

/-- e.g. the open-circuit input impedance from S parameters and from the H matrix obtained by conversion -/
example (m : M2 K) (Z0 : K) (o : okd_S_Z1oc m Z0) (o' : okd_H_Z1oc (S_to_H m Z0) Z0) (of : ok_S_H m Z0)
    (og : ok_S_A m Z0) (hpin : (S_to_A m Z0).a21 ≠ 0) : S_Z1oc m Z0 = H_Z1oc (S_to_H m Z0) Z0 :=
  attr_agree_conv S_Z1oc_sound H_Z1oc_sound S_to_H_sound S_to_A_sound m Z0 o o' of og hpin

/-! ## 4. Cascading multiplies chain matrices in signal order -/

/-- the port seen across a cascade: port 2 of the first stage drives port 1 of the second -/
def Cascade (p q r : Port K) : Prop :=
  q.V1 = p.V2 ∧ q.I1 = -p.I2 ∧ r.V1 = p.V1 ∧ r.I1 = p.I1 ∧ r.V2 = q.V2 ∧ r.I2 = q.I2

theorem A_chain_sound (a b : M2 K) (Z0 : K) (p q r : Port K) (hc : Cascade p q r)
    (ha : rel .A a Z0 p) (hb : rel .A b Z0 q) : rel .A (A_chain a b) Z0 r := by
  obtain ⟨V1, I1, V2, I2⟩ := p
  obtain ⟨V1', I1', V2', I2'⟩ := q
  obtain ⟨V1'', I1'', V2'', I2''⟩ := r
  simp only [Cascade] at hc
  obtain ⟨c1, c2, c3, c4, c5, c6⟩ := hc
  simp only [rel, lin, A_chain, M2.mul] at *
  obtain ⟨h1, h2⟩ := ha
  obtain ⟨h3, h4⟩ := hb
  constructor <;> grind

/-- conversely every port behaviour of the product comes from an intermediate port -/
theorem A_chain_complete (a b : M2 K) (Z0 : K) (r : Port K) (h : rel .A (A_chain a b) Z0 r) :
    ∃ p q, Cascade p q r ∧ rel .A a Z0 p ∧ rel .A b Z0 q := by
  obtain ⟨V1, I1, V2, I2⟩ := r
  simp only [rel, lin, A_chain, M2.mul] at h
  obtain ⟨h1, h2⟩ := h
  refine ⟨⟨V1, I1, b.a11 * V2 + b.a12 * (-I2), -(b.a21 * V2 + b.a22 * (-I2))⟩,
          ⟨b.a11 * V2 + b.a12 * (-I2), b.a21 * V2 + b.a22 * (-I2), V2, I2⟩, ?_, ?_, ?_⟩
  · simp [Cascade]
  · simp only [rel, lin]; constructor <;> grind
  · simp only [rel, lin]; constructor <;> trivial

/-- `BMatrix.chain` multiplies in the reverse order, which is again signal order for B -/
theorem B_chain_sound (a b : M2 K) (Z0 : K) (p q r : Port K) (hc : Cascade p q r)
    (ha : rel .B a Z0 p) (hb : rel .B b Z0 q) : rel .B (B_chain a b) Z0 r := by
  obtain ⟨V1, I1, V2, I2⟩ := p
  obtain ⟨V1', I1', V2', I2'⟩ := q
  obtain ⟨V1'', I1'', V2'', I2''⟩ := r
  simp only [Cascade] at hc
  obtain ⟨c1, c2, c3, c4, c5, c6⟩ := hc
  simp only [rel, lin, B_chain, M2.mul] at *
  obtain ⟨h1, h2⟩ := ha
  obtain ⟨h3, h4⟩ := hb
  constructor <;> grind

/-- the `cascade` spelling of both chain-matrix classes is the same signal-order product -/
theorem A_cascade_sound (a b : M2 K) (Z0 : K) (p q r : Port K) (hc : Cascade p q r)
    (ha : rel .A a Z0 p) (hb : rel .A b Z0 q) : rel .A (A_cascade a b) Z0 r := by
  obtain ⟨V1, I1, V2, I2⟩ := p
  obtain ⟨V1', I1', V2', I2'⟩ := q
  obtain ⟨V1'', I1'', V2'', I2''⟩ := r
  simp only [Cascade] at hc
  obtain ⟨c1, c2, c3, c4, c5, c6⟩ := hc
  simp only [rel, lin, A_cascade, A_chain, M2.mul] at *
  obtain ⟨h1, h2⟩ := ha
  obtain ⟨h3, h4⟩ := hb
  constructor <;> grind

theorem B_cascade_sound (a b : M2 K) (Z0 : K) (p q r : Port K) (hc : Cascade p q r)
    (ha : rel .B a Z0 p) (hb : rel .B b Z0 q) : rel .B (B_cascade a b) Z0 r := by
  obtain ⟨V1, I1, V2, I2⟩ := p
  obtain ⟨V1', I1', V2', I2'⟩ := q
  obtain ⟨V1'', I1'', V2'', I2''⟩ := r
  simp only [Cascade] at hc
  obtain ⟨c1, c2, c3, c4, c5, c6⟩ := hc
  simp only [rel, lin, B_cascade, B_chain, M2.mul] at *
  obtain ⟨h1, h2⟩ := ha
  obtain ⟨h3, h4⟩ := hb
  constructor <;> grind

/-- (table check over the regenerated table) `AMatrix.chain(TP)` / `BMatrix.chain(TP)` bring their
    argument to their own representation before multiplying (its raw entries are NOT used whatever its class) -/
theorem chainArgConv_match : Gen.chainArgConv = [("A", "Aparams"), ("B", "Bparams")] := by decide

/-- cascading an A matrix with a matrix given in ANY representation X (converted by a sound `f`) -/
theorem A_chain_conv_sound {X : Rep} {f : M2 K → K → M2 K} {ok : M2 K → K → Prop} (hf : SoundConv X .A f ok)
    (a b : M2 K) (Z0 : K) (p q r : Port K) (hc : Cascade p q r) (o : ok b Z0)
    (ha : rel .A a Z0 p) (hb : rel X b Z0 q) : rel .A (A_chain a (f b Z0)) Z0 r :=
  A_chain_sound a _ Z0 p q r hc ha ((hf b Z0 q o).mp hb)

theorem B_chain_conv_sound {X : Rep} {f : M2 K → K → M2 K} {ok : M2 K → K → Prop} (hf : SoundConv X .B f ok)
    (a b : M2 K) (Z0 : K) (p q r : Port K) (hc : Cascade p q r) (o : ok b Z0)
    (ha : rel .B a Z0 p) (hb : rel X b Z0 q) : rel .B (B_chain a (f b Z0)) Z0 r :=
  B_chain_sound a _ Z0 p q r hc ha ((hf b Z0 q o).mp hb)

/-- chains of three associate, so "signal order" is well defined -/
theorem A_chain_assoc (a b c : M2 K) : A_chain (A_chain a b) c = A_chain a (A_chain b c) := by
  simp only [A_chain, M2.mul, M2.mk.injEq]; refine ⟨?_, ?_, ?_, ?_⟩ <;> ring

theorem B_chain_assoc (a b c : M2 K) : B_chain (B_chain a b) c = B_chain a (B_chain b c) := by
  simp only [B_chain, M2.mul, M2.mk.injEq]; refine ⟨?_, ?_, ?_, ?_⟩ <;> ring

theorem A_chain3_sound (a b c : M2 K) (Z0 : K) (p q r s t : Port K)
    (h1 : Cascade p q s) (h2 : Cascade s r t)
    (ha : rel .A a Z0 p) (hb : rel .A b Z0 q) (hc : rel .A c Z0 r) :
    rel .A (A_chain (A_chain a b) c) Z0 t :=
  A_chain_sound _ _ Z0 s r t h2 (A_chain_sound a b Z0 p q s h1 ha hb) hc

/-- (definition check, `rfl`: not a claim about behaviour) `BMatrix.chain` of the inverses is the
    product of the inverses in the reverse order, as generated -/
theorem chain_A_B_consistent (a b : M2 K) :
    B_chain (M2.inv a) (M2.inv b) = M2.mul (M2.inv b) (M2.inv a) := rfl

/-! ## 5. Non-vacuity: the side conditions are met by concrete non-trivial two-ports -/

def sample : M2 ℚ := ⟨2, 3, 5, 11⟩

example : ok_A_A sample 7 := trivial

example : ok_A_B sample 7 := by
  simp only [ok_A_B, sample]; norm_num [ok_A_A, A_to_A, ok_A_B, A_to_B, ok_A_G, A_to_G, ok_A_H, A_to_H, ok_A_S, A_to_S, ok_A_T, A_to_T, ok_A_Y, A_to_Y, ok_A_Z, A_to_Z, ok_B_A, B_to_A, ok_B_B, B_to_B, ok_B_G, B_to_G, ok_B_H, B_to_H, ok_B_S, B_to_S, ok_B_T, B_to_T, ok_B_Y, B_to_Y, ok_B_Z, B_to_Z, ok_G_A, G_to_A, ok_G_B, G_to_B, ok_G_G, G_to_G, ok_G_H, G_to_H, ok_G_S, G_to_S, ok_G_T, G_to_T, ok_G_Y, G_to_Y, ok_G_Z, G_to_Z, ok_H_A, H_to_A, ok_H_B, H_to_B, ok_H_G, H_to_G, ok_H_H, H_to_H, ok_H_S, H_to_S, ok_H_T, H_to_T, ok_H_Y, H_to_Y, ok_H_Z, H_to_Z, ok_S_A, S_to_A, ok_S_B, S_to_B, ok_S_G, S_to_G, ok_S_H, S_to_H, ok_S_S, S_to_S, ok_S_T, S_to_T, ok_S_Y, S_to_Y, ok_S_Z, S_to_Z, ok_T_A, T_to_A, ok_T_B, T_to_B, ok_T_G, T_to_G, ok_T_H, T_to_H, ok_T_S, T_to_S, ok_T_T, T_to_T, ok_T_Y, T_to_Y, ok_T_Z, T_to_Z, ok_Y_A, Y_to_A, ok_Y_B, Y_to_B, ok_Y_G, Y_to_G, ok_Y_H, Y_to_H, ok_Y_S, Y_to_S, ok_Y_T, Y_to_T, ok_Y_Y, Y_to_Y, ok_Y_Z, Y_to_Z, ok_Z_A, Z_to_A, ok_Z_B, Z_to_B, ok_Z_G, Z_to_G, ok_Z_H, Z_to_H, ok_Z_S, Z_to_S, ok_Z_T, Z_to_T, ok_Z_Y, Z_to_Y, ok_Z_Z, Z_to_Z, M2.inv, M2.det, M2.sdiv]

example : ok_A_G sample 7 := by
  simp only [ok_A_G, sample]; norm_num [ok_A_A, A_to_A, ok_A_B, A_to_B, ok_A_G, A_to_G, ok_A_H, A_to_H, ok_A_S, A_to_S, ok_A_T, A_to_T, ok_A_Y, A_to_Y, ok_A_Z, A_to_Z, ok_B_A, B_to_A, ok_B_B, B_to_B, ok_B_G, B_to_G, ok_B_H, B_to_H, ok_B_S, B_to_S, ok_B_T, B_to_T, ok_B_Y, B_to_Y, ok_B_Z, B_to_Z, ok_G_A, G_to_A, ok_G_B, G_to_B, ok_G_G, G_to_G, ok_G_H, G_to_H, ok_G_S, G_to_S, ok_G_T, G_to_T, ok_G_Y, G_to_Y, ok_G_Z, G_to_Z, ok_H_A, H_to_A, ok_H_B, H_to_B, ok_H_G, H_to_G, ok_H_H, H_to_H, ok_H_S, H_to_S, ok_H_T, H_to_T, ok_H_Y, H_to_Y, ok_H_Z, H_to_Z, ok_S_A, S_to_A, ok_S_B, S_to_B, ok_S_G, S_to_G, ok_S_H, S_to_H, ok_S_S, S_to_S, ok_S_T, S_to_T, ok_S_Y, S_to_Y, ok_S_Z, S_to_Z, ok_T_A, T_to_A, ok_T_B, T_to_B, ok_T_G, T_to_G, ok_T_H, T_to_H, ok_T_S, T_to_S, ok_T_T, T_to_T, ok_T_Y, T_to_Y, ok_T_Z, T_to_Z, ok_Y_A, Y_to_A, ok_Y_B, Y_to_B, ok_Y_G, Y_to_G, ok_Y_H, Y_to_H, ok_Y_S, Y_to_S, ok_Y_T, Y_to_T, ok_Y_Y, Y_to_Y, ok_Y_Z, Y_to_Z, ok_Z_A, Z_to_A, ok_Z_B, Z_to_B, ok_Z_G, Z_to_G, ok_Z_H, Z_to_H, ok_Z_S, Z_to_S, ok_Z_T, Z_to_T, ok_Z_Y, Z_to_Y, ok_Z_Z, Z_to_Z, M2.inv, M2.det, M2.sdiv]

example : ok_A_H sample 7 := by
  simp only [ok_A_H, sample]; norm_num [ok_A_A, A_to_A, ok_A_B, A_to_B, ok_A_G, A_to_G, ok_A_H, A_to_H, ok_A_S, A_to_S, ok_A_T, A_to_T, ok_A_Y, A_to_Y, ok_A_Z, A_to_Z, ok_B_A, B_to_A, ok_B_B, B_to_B, ok_B_G, B_to_G, ok_B_H, B_to_H, ok_B_S, B_to_S, ok_B_T, B_to_T, ok_B_Y, B_to_Y, ok_B_Z, B_to_Z, ok_G_A, G_to_A, ok_G_B, G_to_B, ok_G_G, G_to_G, ok_G_H, G_to_H, ok_G_S, G_to_S, ok_G_T, G_to_T, ok_G_Y, G_to_Y, ok_G_Z, G_to_Z, ok_H_A, H_to_A, ok_H_B, H_to_B, ok_H_G, H_to_G, ok_H_H, H_to_H, ok_H_S, H_to_S, ok_H_T, H_to_T, ok_H_Y, H_to_Y, ok_H_Z, H_to_Z, ok_S_A, S_to_A, ok_S_B, S_to_B, ok_S_G, S_to_G, ok_S_H, S_to_H, ok_S_S, S_to_S, ok_S_T, S_to_T, ok_S_Y, S_to_Y, ok_S_Z, S_to_Z, ok_T_A, T_to_A, ok_T_B, T_to_B, ok_T_G, T_to_G, ok_T_H, T_to_H, ok_T_S, T_to_S, ok_T_T, T_to_T, ok_T_Y, T_to_Y, ok_T_Z, T_to_Z, ok_Y_A, Y_to_A, ok_Y_B, Y_to_B, ok_Y_G, Y_to_G, ok_Y_H, Y_to_H, ok_Y_S, Y_to_S, ok_Y_T, Y_to_T, ok_Y_Y, Y_to_Y, ok_Y_Z, Y_to_Z, ok_Z_A, Z_to_A, ok_Z_B, Z_to_B, ok_Z_G, Z_to_G, ok_Z_H, Z_to_H, ok_Z_S, Z_to_S, ok_Z_T, Z_to_T, ok_Z_Y, Z_to_Y, ok_Z_Z, Z_to_Z, M2.inv, M2.det, M2.sdiv]

example : ok_A_S sample 7 := by
  simp only [ok_A_S, sample]; norm_num [ok_A_A, A_to_A, ok_A_B, A_to_B, ok_A_G, A_to_G, ok_A_H, A_to_H, ok_A_S, A_to_S, ok_A_T, A_to_T, ok_A_Y, A_to_Y, ok_A_Z, A_to_Z, ok_B_A, B_to_A, ok_B_B, B_to_B, ok_B_G, B_to_G, ok_B_H, B_to_H, ok_B_S, B_to_S, ok_B_T, B_to_T, ok_B_Y, B_to_Y, ok_B_Z, B_to_Z, ok_G_A, G_to_A, ok_G_B, G_to_B, ok_G_G, G_to_G, ok_G_H, G_to_H, ok_G_S, G_to_S, ok_G_T, G_to_T, ok_G_Y, G_to_Y, ok_G_Z, G_to_Z, ok_H_A, H_to_A, ok_H_B, H_to_B, ok_H_G, H_to_G, ok_H_H, H_to_H, ok_H_S, H_to_S, ok_H_T, H_to_T, ok_H_Y, H_to_Y, ok_H_Z, H_to_Z, ok_S_A, S_to_A, ok_S_B, S_to_B, ok_S_G, S_to_G, ok_S_H, S_to_H, ok_S_S, S_to_S, ok_S_T, S_to_T, ok_S_Y, S_to_Y, ok_S_Z, S_to_Z, ok_T_A, T_to_A, ok_T_B, T_to_B, ok_T_G, T_to_G, ok_T_H, T_to_H, ok_T_S, T_to_S, ok_T_T, T_to_T, ok_T_Y, T_to_Y, ok_T_Z, T_to_Z, ok_Y_A, Y_to_A, ok_Y_B, Y_to_B, ok_Y_G, Y_to_G, ok_Y_H, Y_to_H, ok_Y_S, Y_to_S, ok_Y_T, Y_to_T, ok_Y_Y, Y_to_Y, ok_Y_Z, Y_to_Z, ok_Z_A, Z_to_A, ok_Z_B, Z_to_B, ok_Z_G, Z_to_G, ok_Z_H, Z_to_H, ok_Z_S, Z_to_S, ok_Z_T, Z_to_T, ok_Z_Y, Z_to_Y, ok_Z_Z, Z_to_Z, M2.inv, M2.det, M2.sdiv]

example : ok_A_T sample 7 := by
  simp only [ok_A_T, sample]; norm_num [ok_A_A, A_to_A, ok_A_B, A_to_B, ok_A_G, A_to_G, ok_A_H, A_to_H, ok_A_S, A_to_S, ok_A_T, A_to_T, ok_A_Y, A_to_Y, ok_A_Z, A_to_Z, ok_B_A, B_to_A, ok_B_B, B_to_B, ok_B_G, B_to_G, ok_B_H, B_to_H, ok_B_S, B_to_S, ok_B_T, B_to_T, ok_B_Y, B_to_Y, ok_B_Z, B_to_Z, ok_G_A, G_to_A, ok_G_B, G_to_B, ok_G_G, G_to_G, ok_G_H, G_to_H, ok_G_S, G_to_S, ok_G_T, G_to_T, ok_G_Y, G_to_Y, ok_G_Z, G_to_Z, ok_H_A, H_to_A, ok_H_B, H_to_B, ok_H_G, H_to_G, ok_H_H, H_to_H, ok_H_S, H_to_S, ok_H_T, H_to_T, ok_H_Y, H_to_Y, ok_H_Z, H_to_Z, ok_S_A, S_to_A, ok_S_B, S_to_B, ok_S_G, S_to_G, ok_S_H, S_to_H, ok_S_S, S_to_S, ok_S_T, S_to_T, ok_S_Y, S_to_Y, ok_S_Z, S_to_Z, ok_T_A, T_to_A, ok_T_B, T_to_B, ok_T_G, T_to_G, ok_T_H, T_to_H, ok_T_S, T_to_S, ok_T_T, T_to_T, ok_T_Y, T_to_Y, ok_T_Z, T_to_Z, ok_Y_A, Y_to_A, ok_Y_B, Y_to_B, ok_Y_G, Y_to_G, ok_Y_H, Y_to_H, ok_Y_S, Y_to_S, ok_Y_T, Y_to_T, ok_Y_Y, Y_to_Y, ok_Y_Z, Y_to_Z, ok_Z_A, Z_to_A, ok_Z_B, Z_to_B, ok_Z_G, Z_to_G, ok_Z_H, Z_to_H, ok_Z_S, Z_to_S, ok_Z_T, Z_to_T, ok_Z_Y, Z_to_Y, ok_Z_Z, Z_to_Z, M2.inv, M2.det, M2.sdiv]

example : ok_A_Y sample 7 := by
  simp only [ok_A_Y, sample]; norm_num [ok_A_A, A_to_A, ok_A_B, A_to_B, ok_A_G, A_to_G, ok_A_H, A_to_H, ok_A_S, A_to_S, ok_A_T, A_to_T, ok_A_Y, A_to_Y, ok_A_Z, A_to_Z, ok_B_A, B_to_A, ok_B_B, B_to_B, ok_B_G, B_to_G, ok_B_H, B_to_H, ok_B_S, B_to_S, ok_B_T, B_to_T, ok_B_Y, B_to_Y, ok_B_Z, B_to_Z, ok_G_A, G_to_A, ok_G_B, G_to_B, ok_G_G, G_to_G, ok_G_H, G_to_H, ok_G_S, G_to_S, ok_G_T, G_to_T, ok_G_Y, G_to_Y, ok_G_Z, G_to_Z, ok_H_A, H_to_A, ok_H_B, H_to_B, ok_H_G, H_to_G, ok_H_H, H_to_H, ok_H_S, H_to_S, ok_H_T, H_to_T, ok_H_Y, H_to_Y, ok_H_Z, H_to_Z, ok_S_A, S_to_A, ok_S_B, S_to_B, ok_S_G, S_to_G, ok_S_H, S_to_H, ok_S_S, S_to_S, ok_S_T, S_to_T, ok_S_Y, S_to_Y, ok_S_Z, S_to_Z, ok_T_A, T_to_A, ok_T_B, T_to_B, ok_T_G, T_to_G, ok_T_H, T_to_H, ok_T_S, T_to_S, ok_T_T, T_to_T, ok_T_Y, T_to_Y, ok_T_Z, T_to_Z, ok_Y_A, Y_to_A, ok_Y_B, Y_to_B, ok_Y_G, Y_to_G, ok_Y_H, Y_to_H, ok_Y_S, Y_to_S, ok_Y_T, Y_to_T, ok_Y_Y, Y_to_Y, ok_Y_Z, Y_to_Z, ok_Z_A, Z_to_A, ok_Z_B, Z_to_B, ok_Z_G, Z_to_G, ok_Z_H, Z_to_H, ok_Z_S, Z_to_S, ok_Z_T, Z_to_T, ok_Z_Y, Z_to_Y, ok_Z_Z, Z_to_Z, M2.inv, M2.det, M2.sdiv]

example : ok_A_Z sample 7 := by
  simp only [ok_A_Z, sample]; norm_num [ok_A_A, A_to_A, ok_A_B, A_to_B, ok_A_G, A_to_G, ok_A_H, A_to_H, ok_A_S, A_to_S, ok_A_T, A_to_T, ok_A_Y, A_to_Y, ok_A_Z, A_to_Z, ok_B_A, B_to_A, ok_B_B, B_to_B, ok_B_G, B_to_G, ok_B_H, B_to_H, ok_B_S, B_to_S, ok_B_T, B_to_T, ok_B_Y, B_to_Y, ok_B_Z, B_to_Z, ok_G_A, G_to_A, ok_G_B, G_to_B, ok_G_G, G_to_G, ok_G_H, G_to_H, ok_G_S, G_to_S, ok_G_T, G_to_T, ok_G_Y, G_to_Y, ok_G_Z, G_to_Z, ok_H_A, H_to_A, ok_H_B, H_to_B, ok_H_G, H_to_G, ok_H_H, H_to_H, ok_H_S, H_to_S, ok_H_T, H_to_T, ok_H_Y, H_to_Y, ok_H_Z, H_to_Z, ok_S_A, S_to_A, ok_S_B, S_to_B, ok_S_G, S_to_G, ok_S_H, S_to_H, ok_S_S, S_to_S, ok_S_T, S_to_T, ok_S_Y, S_to_Y, ok_S_Z, S_to_Z, ok_T_A, T_to_A, ok_T_B, T_to_B, ok_T_G, T_to_G, ok_T_H, T_to_H, ok_T_S, T_to_S, ok_T_T, T_to_T, ok_T_Y, T_to_Y, ok_T_Z, T_to_Z, ok_Y_A, Y_to_A, ok_Y_B, Y_to_B, ok_Y_G, Y_to_G, ok_Y_H, Y_to_H, ok_Y_S, Y_to_S, ok_Y_T, Y_to_T, ok_Y_Y, Y_to_Y, ok_Y_Z, Y_to_Z, ok_Z_A, Z_to_A, ok_Z_B, Z_to_B, ok_Z_G, Z_to_G, ok_Z_H, Z_to_H, ok_Z_S, Z_to_S, ok_Z_T, Z_to_T, ok_Z_Y, Z_to_Y, ok_Z_Z, Z_to_Z, M2.inv, M2.det, M2.sdiv]

example : ok_B_A sample 7 := by
  simp only [ok_B_A, sample]; norm_num [ok_A_A, A_to_A, ok_A_B, A_to_B, ok_A_G, A_to_G, ok_A_H, A_to_H, ok_A_S, A_to_S, ok_A_T, A_to_T, ok_A_Y, A_to_Y, ok_A_Z, A_to_Z, ok_B_A, B_to_A, ok_B_B, B_to_B, ok_B_G, B_to_G, ok_B_H, B_to_H, ok_B_S, B_to_S, ok_B_T, B_to_T, ok_B_Y, B_to_Y, ok_B_Z, B_to_Z, ok_G_A, G_to_A, ok_G_B, G_to_B, ok_G_G, G_to_G, ok_G_H, G_to_H, ok_G_S, G_to_S, ok_G_T, G_to_T, ok_G_Y, G_to_Y, ok_G_Z, G_to_Z, ok_H_A, H_to_A, ok_H_B, H_to_B, ok_H_G, H_to_G, ok_H_H, H_to_H, ok_H_S, H_to_S, ok_H_T, H_to_T, ok_H_Y, H_to_Y, ok_H_Z, H_to_Z, ok_S_A, S_to_A, ok_S_B, S_to_B, ok_S_G, S_to_G, ok_S_H, S_to_H, ok_S_S, S_to_S, ok_S_T, S_to_T, ok_S_Y, S_to_Y, ok_S_Z, S_to_Z, ok_T_A, T_to_A, ok_T_B, T_to_B, ok_T_G, T_to_G, ok_T_H, T_to_H, ok_T_S, T_to_S, ok_T_T, T_to_T, ok_T_Y, T_to_Y, ok_T_Z, T_to_Z, ok_Y_A, Y_to_A, ok_Y_B, Y_to_B, ok_Y_G, Y_to_G, ok_Y_H, Y_to_H, ok_Y_S, Y_to_S, ok_Y_T, Y_to_T, ok_Y_Y, Y_to_Y, ok_Y_Z, Y_to_Z, ok_Z_A, Z_to_A, ok_Z_B, Z_to_B, ok_Z_G, Z_to_G, ok_Z_H, Z_to_H, ok_Z_S, Z_to_S, ok_Z_T, Z_to_T, ok_Z_Y, Z_to_Y, ok_Z_Z, Z_to_Z, M2.inv, M2.det, M2.sdiv]

example : ok_B_B sample 7 := trivial

example : ok_B_G sample 7 := by
  simp only [ok_B_G, sample]; norm_num [ok_A_A, A_to_A, ok_A_B, A_to_B, ok_A_G, A_to_G, ok_A_H, A_to_H, ok_A_S, A_to_S, ok_A_T, A_to_T, ok_A_Y, A_to_Y, ok_A_Z, A_to_Z, ok_B_A, B_to_A, ok_B_B, B_to_B, ok_B_G, B_to_G, ok_B_H, B_to_H, ok_B_S, B_to_S, ok_B_T, B_to_T, ok_B_Y, B_to_Y, ok_B_Z, B_to_Z, ok_G_A, G_to_A, ok_G_B, G_to_B, ok_G_G, G_to_G, ok_G_H, G_to_H, ok_G_S, G_to_S, ok_G_T, G_to_T, ok_G_Y, G_to_Y, ok_G_Z, G_to_Z, ok_H_A, H_to_A, ok_H_B, H_to_B, ok_H_G, H_to_G, ok_H_H, H_to_H, ok_H_S, H_to_S, ok_H_T, H_to_T, ok_H_Y, H_to_Y, ok_H_Z, H_to_Z, ok_S_A, S_to_A, ok_S_B, S_to_B, ok_S_G, S_to_G, ok_S_H, S_to_H, ok_S_S, S_to_S, ok_S_T, S_to_T, ok_S_Y, S_to_Y, ok_S_Z, S_to_Z, ok_T_A, T_to_A, ok_T_B, T_to_B, ok_T_G, T_to_G, ok_T_H, T_to_H, ok_T_S, T_to_S, ok_T_T, T_to_T, ok_T_Y, T_to_Y, ok_T_Z, T_to_Z, ok_Y_A, Y_to_A, ok_Y_B, Y_to_B, ok_Y_G, Y_to_G, ok_Y_H, Y_to_H, ok_Y_S, Y_to_S, ok_Y_T, Y_to_T, ok_Y_Y, Y_to_Y, ok_Y_Z, Y_to_Z, ok_Z_A, Z_to_A, ok_Z_B, Z_to_B, ok_Z_G, Z_to_G, ok_Z_H, Z_to_H, ok_Z_S, Z_to_S, ok_Z_T, Z_to_T, ok_Z_Y, Z_to_Y, ok_Z_Z, Z_to_Z, M2.inv, M2.det, M2.sdiv]

example : ok_B_H sample 7 := by
  simp only [ok_B_H, sample]; norm_num [ok_A_A, A_to_A, ok_A_B, A_to_B, ok_A_G, A_to_G, ok_A_H, A_to_H, ok_A_S, A_to_S, ok_A_T, A_to_T, ok_A_Y, A_to_Y, ok_A_Z, A_to_Z, ok_B_A, B_to_A, ok_B_B, B_to_B, ok_B_G, B_to_G, ok_B_H, B_to_H, ok_B_S, B_to_S, ok_B_T, B_to_T, ok_B_Y, B_to_Y, ok_B_Z, B_to_Z, ok_G_A, G_to_A, ok_G_B, G_to_B, ok_G_G, G_to_G, ok_G_H, G_to_H, ok_G_S, G_to_S, ok_G_T, G_to_T, ok_G_Y, G_to_Y, ok_G_Z, G_to_Z, ok_H_A, H_to_A, ok_H_B, H_to_B, ok_H_G, H_to_G, ok_H_H, H_to_H, ok_H_S, H_to_S, ok_H_T, H_to_T, ok_H_Y, H_to_Y, ok_H_Z, H_to_Z, ok_S_A, S_to_A, ok_S_B, S_to_B, ok_S_G, S_to_G, ok_S_H, S_to_H, ok_S_S, S_to_S, ok_S_T, S_to_T, ok_S_Y, S_to_Y, ok_S_Z, S_to_Z, ok_T_A, T_to_A, ok_T_B, T_to_B, ok_T_G, T_to_G, ok_T_H, T_to_H, ok_T_S, T_to_S, ok_T_T, T_to_T, ok_T_Y, T_to_Y, ok_T_Z, T_to_Z, ok_Y_A, Y_to_A, ok_Y_B, Y_to_B, ok_Y_G, Y_to_G, ok_Y_H, Y_to_H, ok_Y_S, Y_to_S, ok_Y_T, Y_to_T, ok_Y_Y, Y_to_Y, ok_Y_Z, Y_to_Z, ok_Z_A, Z_to_A, ok_Z_B, Z_to_B, ok_Z_G, Z_to_G, ok_Z_H, Z_to_H, ok_Z_S, Z_to_S, ok_Z_T, Z_to_T, ok_Z_Y, Z_to_Y, ok_Z_Z, Z_to_Z, M2.inv, M2.det, M2.sdiv]

example : ok_B_S sample 7 := by
  simp only [ok_B_S, sample]; norm_num [ok_A_A, A_to_A, ok_A_B, A_to_B, ok_A_G, A_to_G, ok_A_H, A_to_H, ok_A_S, A_to_S, ok_A_T, A_to_T, ok_A_Y, A_to_Y, ok_A_Z, A_to_Z, ok_B_A, B_to_A, ok_B_B, B_to_B, ok_B_G, B_to_G, ok_B_H, B_to_H, ok_B_S, B_to_S, ok_B_T, B_to_T, ok_B_Y, B_to_Y, ok_B_Z, B_to_Z, ok_G_A, G_to_A, ok_G_B, G_to_B, ok_G_G, G_to_G, ok_G_H, G_to_H, ok_G_S, G_to_S, ok_G_T, G_to_T, ok_G_Y, G_to_Y, ok_G_Z, G_to_Z, ok_H_A, H_to_A, ok_H_B, H_to_B, ok_H_G, H_to_G, ok_H_H, H_to_H, ok_H_S, H_to_S, ok_H_T, H_to_T, ok_H_Y, H_to_Y, ok_H_Z, H_to_Z, ok_S_A, S_to_A, ok_S_B, S_to_B, ok_S_G, S_to_G, ok_S_H, S_to_H, ok_S_S, S_to_S, ok_S_T, S_to_T, ok_S_Y, S_to_Y, ok_S_Z, S_to_Z, ok_T_A, T_to_A, ok_T_B, T_to_B, ok_T_G, T_to_G, ok_T_H, T_to_H, ok_T_S, T_to_S, ok_T_T, T_to_T, ok_T_Y, T_to_Y, ok_T_Z, T_to_Z, ok_Y_A, Y_to_A, ok_Y_B, Y_to_B, ok_Y_G, Y_to_G, ok_Y_H, Y_to_H, ok_Y_S, Y_to_S, ok_Y_T, Y_to_T, ok_Y_Y, Y_to_Y, ok_Y_Z, Y_to_Z, ok_Z_A, Z_to_A, ok_Z_B, Z_to_B, ok_Z_G, Z_to_G, ok_Z_H, Z_to_H, ok_Z_S, Z_to_S, ok_Z_T, Z_to_T, ok_Z_Y, Z_to_Y, ok_Z_Z, Z_to_Z, M2.inv, M2.det, M2.sdiv]

example : ok_B_T sample 7 := by
  simp only [ok_B_T, sample]; norm_num [ok_A_A, A_to_A, ok_A_B, A_to_B, ok_A_G, A_to_G, ok_A_H, A_to_H, ok_A_S, A_to_S, ok_A_T, A_to_T, ok_A_Y, A_to_Y, ok_A_Z, A_to_Z, ok_B_A, B_to_A, ok_B_B, B_to_B, ok_B_G, B_to_G, ok_B_H, B_to_H, ok_B_S, B_to_S, ok_B_T, B_to_T, ok_B_Y, B_to_Y, ok_B_Z, B_to_Z, ok_G_A, G_to_A, ok_G_B, G_to_B, ok_G_G, G_to_G, ok_G_H, G_to_H, ok_G_S, G_to_S, ok_G_T, G_to_T, ok_G_Y, G_to_Y, ok_G_Z, G_to_Z, ok_H_A, H_to_A, ok_H_B, H_to_B, ok_H_G, H_to_G, ok_H_H, H_to_H, ok_H_S, H_to_S, ok_H_T, H_to_T, ok_H_Y, H_to_Y, ok_H_Z, H_to_Z, ok_S_A, S_to_A, ok_S_B, S_to_B, ok_S_G, S_to_G, ok_S_H, S_to_H, ok_S_S, S_to_S, ok_S_T, S_to_T, ok_S_Y, S_to_Y, ok_S_Z, S_to_Z, ok_T_A, T_to_A, ok_T_B, T_to_B, ok_T_G, T_to_G, ok_T_H, T_to_H, ok_T_S, T_to_S, ok_T_T, T_to_T, ok_T_Y, T_to_Y, ok_T_Z, T_to_Z, ok_Y_A, Y_to_A, ok_Y_B, Y_to_B, ok_Y_G, Y_to_G, ok_Y_H, Y_to_H, ok_Y_S, Y_to_S, ok_Y_T, Y_to_T, ok_Y_Y, Y_to_Y, ok_Y_Z, Y_to_Z, ok_Z_A, Z_to_A, ok_Z_B, Z_to_B, ok_Z_G, Z_to_G, ok_Z_H, Z_to_H, ok_Z_S, Z_to_S, ok_Z_T, Z_to_T, ok_Z_Y, Z_to_Y, ok_Z_Z, Z_to_Z, M2.inv, M2.det, M2.sdiv]

example : ok_B_Y sample 7 := by
  simp only [ok_B_Y, sample]; norm_num [ok_A_A, A_to_A, ok_A_B, A_to_B, ok_A_G, A_to_G, ok_A_H, A_to_H, ok_A_S, A_to_S, ok_A_T, A_to_T, ok_A_Y, A_to_Y, ok_A_Z, A_to_Z, ok_B_A, B_to_A, ok_B_B, B_to_B, ok_B_G, B_to_G, ok_B_H, B_to_H, ok_B_S, B_to_S, ok_B_T, B_to_T, ok_B_Y, B_to_Y, ok_B_Z, B_to_Z, ok_G_A, G_to_A, ok_G_B, G_to_B, ok_G_G, G_to_G, ok_G_H, G_to_H, ok_G_S, G_to_S, ok_G_T, G_to_T, ok_G_Y, G_to_Y, ok_G_Z, G_to_Z, ok_H_A, H_to_A, ok_H_B, H_to_B, ok_H_G, H_to_G, ok_H_H, H_to_H, ok_H_S, H_to_S, ok_H_T, H_to_T, ok_H_Y, H_to_Y, ok_H_Z, H_to_Z, ok_S_A, S_to_A, ok_S_B, S_to_B, ok_S_G, S_to_G, ok_S_H, S_to_H, ok_S_S, S_to_S, ok_S_T, S_to_T, ok_S_Y, S_to_Y, ok_S_Z, S_to_Z, ok_T_A, T_to_A, ok_T_B, T_to_B, ok_T_G, T_to_G, ok_T_H, T_to_H, ok_T_S, T_to_S, ok_T_T, T_to_T, ok_T_Y, T_to_Y, ok_T_Z, T_to_Z, ok_Y_A, Y_to_A, ok_Y_B, Y_to_B, ok_Y_G, Y_to_G, ok_Y_H, Y_to_H, ok_Y_S, Y_to_S, ok_Y_T, Y_to_T, ok_Y_Y, Y_to_Y, ok_Y_Z, Y_to_Z, ok_Z_A, Z_to_A, ok_Z_B, Z_to_B, ok_Z_G, Z_to_G, ok_Z_H, Z_to_H, ok_Z_S, Z_to_S, ok_Z_T, Z_to_T, ok_Z_Y, Z_to_Y, ok_Z_Z, Z_to_Z, M2.inv, M2.det, M2.sdiv]

example : ok_B_Z sample 7 := by
  simp only [ok_B_Z, sample]; norm_num [ok_A_A, A_to_A, ok_A_B, A_to_B, ok_A_G, A_to_G, ok_A_H, A_to_H, ok_A_S, A_to_S, ok_A_T, A_to_T, ok_A_Y, A_to_Y, ok_A_Z, A_to_Z, ok_B_A, B_to_A, ok_B_B, B_to_B, ok_B_G, B_to_G, ok_B_H, B_to_H, ok_B_S, B_to_S, ok_B_T, B_to_T, ok_B_Y, B_to_Y, ok_B_Z, B_to_Z, ok_G_A, G_to_A, ok_G_B, G_to_B, ok_G_G, G_to_G, ok_G_H, G_to_H, ok_G_S, G_to_S, ok_G_T, G_to_T, ok_G_Y, G_to_Y, ok_G_Z, G_to_Z, ok_H_A, H_to_A, ok_H_B, H_to_B, ok_H_G, H_to_G, ok_H_H, H_to_H, ok_H_S, H_to_S, ok_H_T, H_to_T, ok_H_Y, H_to_Y, ok_H_Z, H_to_Z, ok_S_A, S_to_A, ok_S_B, S_to_B, ok_S_G, S_to_G, ok_S_H, S_to_H, ok_S_S, S_to_S, ok_S_T, S_to_T, ok_S_Y, S_to_Y, ok_S_Z, S_to_Z, ok_T_A, T_to_A, ok_T_B, T_to_B, ok_T_G, T_to_G, ok_T_H, T_to_H, ok_T_S, T_to_S, ok_T_T, T_to_T, ok_T_Y, T_to_Y, ok_T_Z, T_to_Z, ok_Y_A, Y_to_A, ok_Y_B, Y_to_B, ok_Y_G, Y_to_G, ok_Y_H, Y_to_H, ok_Y_S, Y_to_S, ok_Y_T, Y_to_T, ok_Y_Y, Y_to_Y, ok_Y_Z, Y_to_Z, ok_Z_A, Z_to_A, ok_Z_B, Z_to_B, ok_Z_G, Z_to_G, ok_Z_H, Z_to_H, ok_Z_S, Z_to_S, ok_Z_T, Z_to_T, ok_Z_Y, Z_to_Y, ok_Z_Z, Z_to_Z, M2.inv, M2.det, M2.sdiv]

example : ok_G_A sample 7 := by
  simp only [ok_G_A, sample]; norm_num [ok_A_A, A_to_A, ok_A_B, A_to_B, ok_A_G, A_to_G, ok_A_H, A_to_H, ok_A_S, A_to_S, ok_A_T, A_to_T, ok_A_Y, A_to_Y, ok_A_Z, A_to_Z, ok_B_A, B_to_A, ok_B_B, B_to_B, ok_B_G, B_to_G, ok_B_H, B_to_H, ok_B_S, B_to_S, ok_B_T, B_to_T, ok_B_Y, B_to_Y, ok_B_Z, B_to_Z, ok_G_A, G_to_A, ok_G_B, G_to_B, ok_G_G, G_to_G, ok_G_H, G_to_H, ok_G_S, G_to_S, ok_G_T, G_to_T, ok_G_Y, G_to_Y, ok_G_Z, G_to_Z, ok_H_A, H_to_A, ok_H_B, H_to_B, ok_H_G, H_to_G, ok_H_H, H_to_H, ok_H_S, H_to_S, ok_H_T, H_to_T, ok_H_Y, H_to_Y, ok_H_Z, H_to_Z, ok_S_A, S_to_A, ok_S_B, S_to_B, ok_S_G, S_to_G, ok_S_H, S_to_H, ok_S_S, S_to_S, ok_S_T, S_to_T, ok_S_Y, S_to_Y, ok_S_Z, S_to_Z, ok_T_A, T_to_A, ok_T_B, T_to_B, ok_T_G, T_to_G, ok_T_H, T_to_H, ok_T_S, T_to_S, ok_T_T, T_to_T, ok_T_Y, T_to_Y, ok_T_Z, T_to_Z, ok_Y_A, Y_to_A, ok_Y_B, Y_to_B, ok_Y_G, Y_to_G, ok_Y_H, Y_to_H, ok_Y_S, Y_to_S, ok_Y_T, Y_to_T, ok_Y_Y, Y_to_Y, ok_Y_Z, Y_to_Z, ok_Z_A, Z_to_A, ok_Z_B, Z_to_B, ok_Z_G, Z_to_G, ok_Z_H, Z_to_H, ok_Z_S, Z_to_S, ok_Z_T, Z_to_T, ok_Z_Y, Z_to_Y, ok_Z_Z, Z_to_Z, M2.inv, M2.det, M2.sdiv]

example : ok_G_B sample 7 := by
  simp only [ok_G_B, sample]; norm_num [ok_A_A, A_to_A, ok_A_B, A_to_B, ok_A_G, A_to_G, ok_A_H, A_to_H, ok_A_S, A_to_S, ok_A_T, A_to_T, ok_A_Y, A_to_Y, ok_A_Z, A_to_Z, ok_B_A, B_to_A, ok_B_B, B_to_B, ok_B_G, B_to_G, ok_B_H, B_to_H, ok_B_S, B_to_S, ok_B_T, B_to_T, ok_B_Y, B_to_Y, ok_B_Z, B_to_Z, ok_G_A, G_to_A, ok_G_B, G_to_B, ok_G_G, G_to_G, ok_G_H, G_to_H, ok_G_S, G_to_S, ok_G_T, G_to_T, ok_G_Y, G_to_Y, ok_G_Z, G_to_Z, ok_H_A, H_to_A, ok_H_B, H_to_B, ok_H_G, H_to_G, ok_H_H, H_to_H, ok_H_S, H_to_S, ok_H_T, H_to_T, ok_H_Y, H_to_Y, ok_H_Z, H_to_Z, ok_S_A, S_to_A, ok_S_B, S_to_B, ok_S_G, S_to_G, ok_S_H, S_to_H, ok_S_S, S_to_S, ok_S_T, S_to_T, ok_S_Y, S_to_Y, ok_S_Z, S_to_Z, ok_T_A, T_to_A, ok_T_B, T_to_B, ok_T_G, T_to_G, ok_T_H, T_to_H, ok_T_S, T_to_S, ok_T_T, T_to_T, ok_T_Y, T_to_Y, ok_T_Z, T_to_Z, ok_Y_A, Y_to_A, ok_Y_B, Y_to_B, ok_Y_G, Y_to_G, ok_Y_H, Y_to_H, ok_Y_S, Y_to_S, ok_Y_T, Y_to_T, ok_Y_Y, Y_to_Y, ok_Y_Z, Y_to_Z, ok_Z_A, Z_to_A, ok_Z_B, Z_to_B, ok_Z_G, Z_to_G, ok_Z_H, Z_to_H, ok_Z_S, Z_to_S, ok_Z_T, Z_to_T, ok_Z_Y, Z_to_Y, ok_Z_Z, Z_to_Z, M2.inv, M2.det, M2.sdiv]

example : ok_G_G sample 7 := trivial

example : ok_G_H sample 7 := by
  simp only [ok_G_H, sample]; norm_num [ok_A_A, A_to_A, ok_A_B, A_to_B, ok_A_G, A_to_G, ok_A_H, A_to_H, ok_A_S, A_to_S, ok_A_T, A_to_T, ok_A_Y, A_to_Y, ok_A_Z, A_to_Z, ok_B_A, B_to_A, ok_B_B, B_to_B, ok_B_G, B_to_G, ok_B_H, B_to_H, ok_B_S, B_to_S, ok_B_T, B_to_T, ok_B_Y, B_to_Y, ok_B_Z, B_to_Z, ok_G_A, G_to_A, ok_G_B, G_to_B, ok_G_G, G_to_G, ok_G_H, G_to_H, ok_G_S, G_to_S, ok_G_T, G_to_T, ok_G_Y, G_to_Y, ok_G_Z, G_to_Z, ok_H_A, H_to_A, ok_H_B, H_to_B, ok_H_G, H_to_G, ok_H_H, H_to_H, ok_H_S, H_to_S, ok_H_T, H_to_T, ok_H_Y, H_to_Y, ok_H_Z, H_to_Z, ok_S_A, S_to_A, ok_S_B, S_to_B, ok_S_G, S_to_G, ok_S_H, S_to_H, ok_S_S, S_to_S, ok_S_T, S_to_T, ok_S_Y, S_to_Y, ok_S_Z, S_to_Z, ok_T_A, T_to_A, ok_T_B, T_to_B, ok_T_G, T_to_G, ok_T_H, T_to_H, ok_T_S, T_to_S, ok_T_T, T_to_T, ok_T_Y, T_to_Y, ok_T_Z, T_to_Z, ok_Y_A, Y_to_A, ok_Y_B, Y_to_B, ok_Y_G, Y_to_G, ok_Y_H, Y_to_H, ok_Y_S, Y_to_S, ok_Y_T, Y_to_T, ok_Y_Y, Y_to_Y, ok_Y_Z, Y_to_Z, ok_Z_A, Z_to_A, ok_Z_B, Z_to_B, ok_Z_G, Z_to_G, ok_Z_H, Z_to_H, ok_Z_S, Z_to_S, ok_Z_T, Z_to_T, ok_Z_Y, Z_to_Y, ok_Z_Z, Z_to_Z, M2.inv, M2.det, M2.sdiv]

example : ok_G_S sample 7 := by
  simp only [ok_G_S, sample]; norm_num [ok_A_A, A_to_A, ok_A_B, A_to_B, ok_A_G, A_to_G, ok_A_H, A_to_H, ok_A_S, A_to_S, ok_A_T, A_to_T, ok_A_Y, A_to_Y, ok_A_Z, A_to_Z, ok_B_A, B_to_A, ok_B_B, B_to_B, ok_B_G, B_to_G, ok_B_H, B_to_H, ok_B_S, B_to_S, ok_B_T, B_to_T, ok_B_Y, B_to_Y, ok_B_Z, B_to_Z, ok_G_A, G_to_A, ok_G_B, G_to_B, ok_G_G, G_to_G, ok_G_H, G_to_H, ok_G_S, G_to_S, ok_G_T, G_to_T, ok_G_Y, G_to_Y, ok_G_Z, G_to_Z, ok_H_A, H_to_A, ok_H_B, H_to_B, ok_H_G, H_to_G, ok_H_H, H_to_H, ok_H_S, H_to_S, ok_H_T, H_to_T, ok_H_Y, H_to_Y, ok_H_Z, H_to_Z, ok_S_A, S_to_A, ok_S_B, S_to_B, ok_S_G, S_to_G, ok_S_H, S_to_H, ok_S_S, S_to_S, ok_S_T, S_to_T, ok_S_Y, S_to_Y, ok_S_Z, S_to_Z, ok_T_A, T_to_A, ok_T_B, T_to_B, ok_T_G, T_to_G, ok_T_H, T_to_H, ok_T_S, T_to_S, ok_T_T, T_to_T, ok_T_Y, T_to_Y, ok_T_Z, T_to_Z, ok_Y_A, Y_to_A, ok_Y_B, Y_to_B, ok_Y_G, Y_to_G, ok_Y_H, Y_to_H, ok_Y_S, Y_to_S, ok_Y_T, Y_to_T, ok_Y_Y, Y_to_Y, ok_Y_Z, Y_to_Z, ok_Z_A, Z_to_A, ok_Z_B, Z_to_B, ok_Z_G, Z_to_G, ok_Z_H, Z_to_H, ok_Z_S, Z_to_S, ok_Z_T, Z_to_T, ok_Z_Y, Z_to_Y, ok_Z_Z, Z_to_Z, M2.inv, M2.det, M2.sdiv]

example : ok_G_T sample 7 := by
  simp only [ok_G_T, sample]; norm_num [ok_A_A, A_to_A, ok_A_B, A_to_B, ok_A_G, A_to_G, ok_A_H, A_to_H, ok_A_S, A_to_S, ok_A_T, A_to_T, ok_A_Y, A_to_Y, ok_A_Z, A_to_Z, ok_B_A, B_to_A, ok_B_B, B_to_B, ok_B_G, B_to_G, ok_B_H, B_to_H, ok_B_S, B_to_S, ok_B_T, B_to_T, ok_B_Y, B_to_Y, ok_B_Z, B_to_Z, ok_G_A, G_to_A, ok_G_B, G_to_B, ok_G_G, G_to_G, ok_G_H, G_to_H, ok_G_S, G_to_S, ok_G_T, G_to_T, ok_G_Y, G_to_Y, ok_G_Z, G_to_Z, ok_H_A, H_to_A, ok_H_B, H_to_B, ok_H_G, H_to_G, ok_H_H, H_to_H, ok_H_S, H_to_S, ok_H_T, H_to_T, ok_H_Y, H_to_Y, ok_H_Z, H_to_Z, ok_S_A, S_to_A, ok_S_B, S_to_B, ok_S_G, S_to_G, ok_S_H, S_to_H, ok_S_S, S_to_S, ok_S_T, S_to_T, ok_S_Y, S_to_Y, ok_S_Z, S_to_Z, ok_T_A, T_to_A, ok_T_B, T_to_B, ok_T_G, T_to_G, ok_T_H, T_to_H, ok_T_S, T_to_S, ok_T_T, T_to_T, ok_T_Y, T_to_Y, ok_T_Z, T_to_Z, ok_Y_A, Y_to_A, ok_Y_B, Y_to_B, ok_Y_G, Y_to_G, ok_Y_H, Y_to_H, ok_Y_S, Y_to_S, ok_Y_T, Y_to_T, ok_Y_Y, Y_to_Y, ok_Y_Z, Y_to_Z, ok_Z_A, Z_to_A, ok_Z_B, Z_to_B, ok_Z_G, Z_to_G, ok_Z_H, Z_to_H, ok_Z_S, Z_to_S, ok_Z_T, Z_to_T, ok_Z_Y, Z_to_Y, ok_Z_Z, Z_to_Z, M2.inv, M2.det, M2.sdiv]

example : ok_G_Y sample 7 := by
  simp only [ok_G_Y, sample]; norm_num [ok_A_A, A_to_A, ok_A_B, A_to_B, ok_A_G, A_to_G, ok_A_H, A_to_H, ok_A_S, A_to_S, ok_A_T, A_to_T, ok_A_Y, A_to_Y, ok_A_Z, A_to_Z, ok_B_A, B_to_A, ok_B_B, B_to_B, ok_B_G, B_to_G, ok_B_H, B_to_H, ok_B_S, B_to_S, ok_B_T, B_to_T, ok_B_Y, B_to_Y, ok_B_Z, B_to_Z, ok_G_A, G_to_A, ok_G_B, G_to_B, ok_G_G, G_to_G, ok_G_H, G_to_H, ok_G_S, G_to_S, ok_G_T, G_to_T, ok_G_Y, G_to_Y, ok_G_Z, G_to_Z, ok_H_A, H_to_A, ok_H_B, H_to_B, ok_H_G, H_to_G, ok_H_H, H_to_H, ok_H_S, H_to_S, ok_H_T, H_to_T, ok_H_Y, H_to_Y, ok_H_Z, H_to_Z, ok_S_A, S_to_A, ok_S_B, S_to_B, ok_S_G, S_to_G, ok_S_H, S_to_H, ok_S_S, S_to_S, ok_S_T, S_to_T, ok_S_Y, S_to_Y, ok_S_Z, S_to_Z, ok_T_A, T_to_A, ok_T_B, T_to_B, ok_T_G, T_to_G, ok_T_H, T_to_H, ok_T_S, T_to_S, ok_T_T, T_to_T, ok_T_Y, T_to_Y, ok_T_Z, T_to_Z, ok_Y_A, Y_to_A, ok_Y_B, Y_to_B, ok_Y_G, Y_to_G, ok_Y_H, Y_to_H, ok_Y_S, Y_to_S, ok_Y_T, Y_to_T, ok_Y_Y, Y_to_Y, ok_Y_Z, Y_to_Z, ok_Z_A, Z_to_A, ok_Z_B, Z_to_B, ok_Z_G, Z_to_G, ok_Z_H, Z_to_H, ok_Z_S, Z_to_S, ok_Z_T, Z_to_T, ok_Z_Y, Z_to_Y, ok_Z_Z, Z_to_Z, M2.inv, M2.det, M2.sdiv]

example : ok_G_Z sample 7 := by
  simp only [ok_G_Z, sample]; norm_num [ok_A_A, A_to_A, ok_A_B, A_to_B, ok_A_G, A_to_G, ok_A_H, A_to_H, ok_A_S, A_to_S, ok_A_T, A_to_T, ok_A_Y, A_to_Y, ok_A_Z, A_to_Z, ok_B_A, B_to_A, ok_B_B, B_to_B, ok_B_G, B_to_G, ok_B_H, B_to_H, ok_B_S, B_to_S, ok_B_T, B_to_T, ok_B_Y, B_to_Y, ok_B_Z, B_to_Z, ok_G_A, G_to_A, ok_G_B, G_to_B, ok_G_G, G_to_G, ok_G_H, G_to_H, ok_G_S, G_to_S, ok_G_T, G_to_T, ok_G_Y, G_to_Y, ok_G_Z, G_to_Z, ok_H_A, H_to_A, ok_H_B, H_to_B, ok_H_G, H_to_G, ok_H_H, H_to_H, ok_H_S, H_to_S, ok_H_T, H_to_T, ok_H_Y, H_to_Y, ok_H_Z, H_to_Z, ok_S_A, S_to_A, ok_S_B, S_to_B, ok_S_G, S_to_G, ok_S_H, S_to_H, ok_S_S, S_to_S, ok_S_T, S_to_T, ok_S_Y, S_to_Y, ok_S_Z, S_to_Z, ok_T_A, T_to_A, ok_T_B, T_to_B, ok_T_G, T_to_G, ok_T_H, T_to_H, ok_T_S, T_to_S, ok_T_T, T_to_T, ok_T_Y, T_to_Y, ok_T_Z, T_to_Z, ok_Y_A, Y_to_A, ok_Y_B, Y_to_B, ok_Y_G, Y_to_G, ok_Y_H, Y_to_H, ok_Y_S, Y_to_S, ok_Y_T, Y_to_T, ok_Y_Y, Y_to_Y, ok_Y_Z, Y_to_Z, ok_Z_A, Z_to_A, ok_Z_B, Z_to_B, ok_Z_G, Z_to_G, ok_Z_H, Z_to_H, ok_Z_S, Z_to_S, ok_Z_T, Z_to_T, ok_Z_Y, Z_to_Y, ok_Z_Z, Z_to_Z, M2.inv, M2.det, M2.sdiv]

example : ok_H_A sample 7 := by
  simp only [ok_H_A, sample]; norm_num [ok_A_A, A_to_A, ok_A_B, A_to_B, ok_A_G, A_to_G, ok_A_H, A_to_H, ok_A_S, A_to_S, ok_A_T, A_to_T, ok_A_Y, A_to_Y, ok_A_Z, A_to_Z, ok_B_A, B_to_A, ok_B_B, B_to_B, ok_B_G, B_to_G, ok_B_H, B_to_H, ok_B_S, B_to_S, ok_B_T, B_to_T, ok_B_Y, B_to_Y, ok_B_Z, B_to_Z, ok_G_A, G_to_A, ok_G_B, G_to_B, ok_G_G, G_to_G, ok_G_H, G_to_H, ok_G_S, G_to_S, ok_G_T, G_to_T, ok_G_Y, G_to_Y, ok_G_Z, G_to_Z, ok_H_A, H_to_A, ok_H_B, H_to_B, ok_H_G, H_to_G, ok_H_H, H_to_H, ok_H_S, H_to_S, ok_H_T, H_to_T, ok_H_Y, H_to_Y, ok_H_Z, H_to_Z, ok_S_A, S_to_A, ok_S_B, S_to_B, ok_S_G, S_to_G, ok_S_H, S_to_H, ok_S_S, S_to_S, ok_S_T, S_to_T, ok_S_Y, S_to_Y, ok_S_Z, S_to_Z, ok_T_A, T_to_A, ok_T_B, T_to_B, ok_T_G, T_to_G, ok_T_H, T_to_H, ok_T_S, T_to_S, ok_T_T, T_to_T, ok_T_Y, T_to_Y, ok_T_Z, T_to_Z, ok_Y_A, Y_to_A, ok_Y_B, Y_to_B, ok_Y_G, Y_to_G, ok_Y_H, Y_to_H, ok_Y_S, Y_to_S, ok_Y_T, Y_to_T, ok_Y_Y, Y_to_Y, ok_Y_Z, Y_to_Z, ok_Z_A, Z_to_A, ok_Z_B, Z_to_B, ok_Z_G, Z_to_G, ok_Z_H, Z_to_H, ok_Z_S, Z_to_S, ok_Z_T, Z_to_T, ok_Z_Y, Z_to_Y, ok_Z_Z, Z_to_Z, M2.inv, M2.det, M2.sdiv]

example : ok_H_B sample 7 := by
  simp only [ok_H_B, sample]; norm_num [ok_A_A, A_to_A, ok_A_B, A_to_B, ok_A_G, A_to_G, ok_A_H, A_to_H, ok_A_S, A_to_S, ok_A_T, A_to_T, ok_A_Y, A_to_Y, ok_A_Z, A_to_Z, ok_B_A, B_to_A, ok_B_B, B_to_B, ok_B_G, B_to_G, ok_B_H, B_to_H, ok_B_S, B_to_S, ok_B_T, B_to_T, ok_B_Y, B_to_Y, ok_B_Z, B_to_Z, ok_G_A, G_to_A, ok_G_B, G_to_B, ok_G_G, G_to_G, ok_G_H, G_to_H, ok_G_S, G_to_S, ok_G_T, G_to_T, ok_G_Y, G_to_Y, ok_G_Z, G_to_Z, ok_H_A, H_to_A, ok_H_B, H_to_B, ok_H_G, H_to_G, ok_H_H, H_to_H, ok_H_S, H_to_S, ok_H_T, H_to_T, ok_H_Y, H_to_Y, ok_H_Z, H_to_Z, ok_S_A, S_to_A, ok_S_B, S_to_B, ok_S_G, S_to_G, ok_S_H, S_to_H, ok_S_S, S_to_S, ok_S_T, S_to_T, ok_S_Y, S_to_Y, ok_S_Z, S_to_Z, ok_T_A, T_to_A, ok_T_B, T_to_B, ok_T_G, T_to_G, ok_T_H, T_to_H, ok_T_S, T_to_S, ok_T_T, T_to_T, ok_T_Y, T_to_Y, ok_T_Z, T_to_Z, ok_Y_A, Y_to_A, ok_Y_B, Y_to_B, ok_Y_G, Y_to_G, ok_Y_H, Y_to_H, ok_Y_S, Y_to_S, ok_Y_T, Y_to_T, ok_Y_Y, Y_to_Y, ok_Y_Z, Y_to_Z, ok_Z_A, Z_to_A, ok_Z_B, Z_to_B, ok_Z_G, Z_to_G, ok_Z_H, Z_to_H, ok_Z_S, Z_to_S, ok_Z_T, Z_to_T, ok_Z_Y, Z_to_Y, ok_Z_Z, Z_to_Z, M2.inv, M2.det, M2.sdiv]

example : ok_H_G sample 7 := by
  simp only [ok_H_G, sample]; norm_num [ok_A_A, A_to_A, ok_A_B, A_to_B, ok_A_G, A_to_G, ok_A_H, A_to_H, ok_A_S, A_to_S, ok_A_T, A_to_T, ok_A_Y, A_to_Y, ok_A_Z, A_to_Z, ok_B_A, B_to_A, ok_B_B, B_to_B, ok_B_G, B_to_G, ok_B_H, B_to_H, ok_B_S, B_to_S, ok_B_T, B_to_T, ok_B_Y, B_to_Y, ok_B_Z, B_to_Z, ok_G_A, G_to_A, ok_G_B, G_to_B, ok_G_G, G_to_G, ok_G_H, G_to_H, ok_G_S, G_to_S, ok_G_T, G_to_T, ok_G_Y, G_to_Y, ok_G_Z, G_to_Z, ok_H_A, H_to_A, ok_H_B, H_to_B, ok_H_G, H_to_G, ok_H_H, H_to_H, ok_H_S, H_to_S, ok_H_T, H_to_T, ok_H_Y, H_to_Y, ok_H_Z, H_to_Z, ok_S_A, S_to_A, ok_S_B, S_to_B, ok_S_G, S_to_G, ok_S_H, S_to_H, ok_S_S, S_to_S, ok_S_T, S_to_T, ok_S_Y, S_to_Y, ok_S_Z, S_to_Z, ok_T_A, T_to_A, ok_T_B, T_to_B, ok_T_G, T_to_G, ok_T_H, T_to_H, ok_T_S, T_to_S, ok_T_T, T_to_T, ok_T_Y, T_to_Y, ok_T_Z, T_to_Z, ok_Y_A, Y_to_A, ok_Y_B, Y_to_B, ok_Y_G, Y_to_G, ok_Y_H, Y_to_H, ok_Y_S, Y_to_S, ok_Y_T, Y_to_T, ok_Y_Y, Y_to_Y, ok_Y_Z, Y_to_Z, ok_Z_A, Z_to_A, ok_Z_B, Z_to_B, ok_Z_G, Z_to_G, ok_Z_H, Z_to_H, ok_Z_S, Z_to_S, ok_Z_T, Z_to_T, ok_Z_Y, Z_to_Y, ok_Z_Z, Z_to_Z, M2.inv, M2.det, M2.sdiv]

example : ok_H_H sample 7 := trivial

example : ok_H_S sample 7 := by
  simp only [ok_H_S, sample]; norm_num [ok_A_A, A_to_A, ok_A_B, A_to_B, ok_A_G, A_to_G, ok_A_H, A_to_H, ok_A_S, A_to_S, ok_A_T, A_to_T, ok_A_Y, A_to_Y, ok_A_Z, A_to_Z, ok_B_A, B_to_A, ok_B_B, B_to_B, ok_B_G, B_to_G, ok_B_H, B_to_H, ok_B_S, B_to_S, ok_B_T, B_to_T, ok_B_Y, B_to_Y, ok_B_Z, B_to_Z, ok_G_A, G_to_A, ok_G_B, G_to_B, ok_G_G, G_to_G, ok_G_H, G_to_H, ok_G_S, G_to_S, ok_G_T, G_to_T, ok_G_Y, G_to_Y, ok_G_Z, G_to_Z, ok_H_A, H_to_A, ok_H_B, H_to_B, ok_H_G, H_to_G, ok_H_H, H_to_H, ok_H_S, H_to_S, ok_H_T, H_to_T, ok_H_Y, H_to_Y, ok_H_Z, H_to_Z, ok_S_A, S_to_A, ok_S_B, S_to_B, ok_S_G, S_to_G, ok_S_H, S_to_H, ok_S_S, S_to_S, ok_S_T, S_to_T, ok_S_Y, S_to_Y, ok_S_Z, S_to_Z, ok_T_A, T_to_A, ok_T_B, T_to_B, ok_T_G, T_to_G, ok_T_H, T_to_H, ok_T_S, T_to_S, ok_T_T, T_to_T, ok_T_Y, T_to_Y, ok_T_Z, T_to_Z, ok_Y_A, Y_to_A, ok_Y_B, Y_to_B, ok_Y_G, Y_to_G, ok_Y_H, Y_to_H, ok_Y_S, Y_to_S, ok_Y_T, Y_to_T, ok_Y_Y, Y_to_Y, ok_Y_Z, Y_to_Z, ok_Z_A, Z_to_A, ok_Z_B, Z_to_B, ok_Z_G, Z_to_G, ok_Z_H, Z_to_H, ok_Z_S, Z_to_S, ok_Z_T, Z_to_T, ok_Z_Y, Z_to_Y, ok_Z_Z, Z_to_Z, M2.inv, M2.det, M2.sdiv]

example : ok_H_T sample 7 := by
  simp only [ok_H_T, sample]; norm_num [ok_A_A, A_to_A, ok_A_B, A_to_B, ok_A_G, A_to_G, ok_A_H, A_to_H, ok_A_S, A_to_S, ok_A_T, A_to_T, ok_A_Y, A_to_Y, ok_A_Z, A_to_Z, ok_B_A, B_to_A, ok_B_B, B_to_B, ok_B_G, B_to_G, ok_B_H, B_to_H, ok_B_S, B_to_S, ok_B_T, B_to_T, ok_B_Y, B_to_Y, ok_B_Z, B_to_Z, ok_G_A, G_to_A, ok_G_B, G_to_B, ok_G_G, G_to_G, ok_G_H, G_to_H, ok_G_S, G_to_S, ok_G_T, G_to_T, ok_G_Y, G_to_Y, ok_G_Z, G_to_Z, ok_H_A, H_to_A, ok_H_B, H_to_B, ok_H_G, H_to_G, ok_H_H, H_to_H, ok_H_S, H_to_S, ok_H_T, H_to_T, ok_H_Y, H_to_Y, ok_H_Z, H_to_Z, ok_S_A, S_to_A, ok_S_B, S_to_B, ok_S_G, S_to_G, ok_S_H, S_to_H, ok_S_S, S_to_S, ok_S_T, S_to_T, ok_S_Y, S_to_Y, ok_S_Z, S_to_Z, ok_T_A, T_to_A, ok_T_B, T_to_B, ok_T_G, T_to_G, ok_T_H, T_to_H, ok_T_S, T_to_S, ok_T_T, T_to_T, ok_T_Y, T_to_Y, ok_T_Z, T_to_Z, ok_Y_A, Y_to_A, ok_Y_B, Y_to_B, ok_Y_G, Y_to_G, ok_Y_H, Y_to_H, ok_Y_S, Y_to_S, ok_Y_T, Y_to_T, ok_Y_Y, Y_to_Y, ok_Y_Z, Y_to_Z, ok_Z_A, Z_to_A, ok_Z_B, Z_to_B, ok_Z_G, Z_to_G, ok_Z_H, Z_to_H, ok_Z_S, Z_to_S, ok_Z_T, Z_to_T, ok_Z_Y, Z_to_Y, ok_Z_Z, Z_to_Z, M2.inv, M2.det, M2.sdiv]

example : ok_H_Y sample 7 := by
  simp only [ok_H_Y, sample]; norm_num [ok_A_A, A_to_A, ok_A_B, A_to_B, ok_A_G, A_to_G, ok_A_H, A_to_H, ok_A_S, A_to_S, ok_A_T, A_to_T, ok_A_Y, A_to_Y, ok_A_Z, A_to_Z, ok_B_A, B_to_A, ok_B_B, B_to_B, ok_B_G, B_to_G, ok_B_H, B_to_H, ok_B_S, B_to_S, ok_B_T, B_to_T, ok_B_Y, B_to_Y, ok_B_Z, B_to_Z, ok_G_A, G_to_A, ok_G_B, G_to_B, ok_G_G, G_to_G, ok_G_H, G_to_H, ok_G_S, G_to_S, ok_G_T, G_to_T, ok_G_Y, G_to_Y, ok_G_Z, G_to_Z, ok_H_A, H_to_A, ok_H_B, H_to_B, ok_H_G, H_to_G, ok_H_H, H_to_H, ok_H_S, H_to_S, ok_H_T, H_to_T, ok_H_Y, H_to_Y, ok_H_Z, H_to_Z, ok_S_A, S_to_A, ok_S_B, S_to_B, ok_S_G, S_to_G, ok_S_H, S_to_H, ok_S_S, S_to_S, ok_S_T, S_to_T, ok_S_Y, S_to_Y, ok_S_Z, S_to_Z, ok_T_A, T_to_A, ok_T_B, T_to_B, ok_T_G, T_to_G, ok_T_H, T_to_H, ok_T_S, T_to_S, ok_T_T, T_to_T, ok_T_Y, T_to_Y, ok_T_Z, T_to_Z, ok_Y_A, Y_to_A, ok_Y_B, Y_to_B, ok_Y_G, Y_to_G, ok_Y_H, Y_to_H, ok_Y_S, Y_to_S, ok_Y_T, Y_to_T, ok_Y_Y, Y_to_Y, ok_Y_Z, Y_to_Z, ok_Z_A, Z_to_A, ok_Z_B, Z_to_B, ok_Z_G, Z_to_G, ok_Z_H, Z_to_H, ok_Z_S, Z_to_S, ok_Z_T, Z_to_T, ok_Z_Y, Z_to_Y, ok_Z_Z, Z_to_Z, M2.inv, M2.det, M2.sdiv]

example : ok_H_Z sample 7 := by
  simp only [ok_H_Z, sample]; norm_num [ok_A_A, A_to_A, ok_A_B, A_to_B, ok_A_G, A_to_G, ok_A_H, A_to_H, ok_A_S, A_to_S, ok_A_T, A_to_T, ok_A_Y, A_to_Y, ok_A_Z, A_to_Z, ok_B_A, B_to_A, ok_B_B, B_to_B, ok_B_G, B_to_G, ok_B_H, B_to_H, ok_B_S, B_to_S, ok_B_T, B_to_T, ok_B_Y, B_to_Y, ok_B_Z, B_to_Z, ok_G_A, G_to_A, ok_G_B, G_to_B, ok_G_G, G_to_G, ok_G_H, G_to_H, ok_G_S, G_to_S, ok_G_T, G_to_T, ok_G_Y, G_to_Y, ok_G_Z, G_to_Z, ok_H_A, H_to_A, ok_H_B, H_to_B, ok_H_G, H_to_G, ok_H_H, H_to_H, ok_H_S, H_to_S, ok_H_T, H_to_T, ok_H_Y, H_to_Y, ok_H_Z, H_to_Z, ok_S_A, S_to_A, ok_S_B, S_to_B, ok_S_G, S_to_G, ok_S_H, S_to_H, ok_S_S, S_to_S, ok_S_T, S_to_T, ok_S_Y, S_to_Y, ok_S_Z, S_to_Z, ok_T_A, T_to_A, ok_T_B, T_to_B, ok_T_G, T_to_G, ok_T_H, T_to_H, ok_T_S, T_to_S, ok_T_T, T_to_T, ok_T_Y, T_to_Y, ok_T_Z, T_to_Z, ok_Y_A, Y_to_A, ok_Y_B, Y_to_B, ok_Y_G, Y_to_G, ok_Y_H, Y_to_H, ok_Y_S, Y_to_S, ok_Y_T, Y_to_T, ok_Y_Y, Y_to_Y, ok_Y_Z, Y_to_Z, ok_Z_A, Z_to_A, ok_Z_B, Z_to_B, ok_Z_G, Z_to_G, ok_Z_H, Z_to_H, ok_Z_S, Z_to_S, ok_Z_T, Z_to_T, ok_Z_Y, Z_to_Y, ok_Z_Z, Z_to_Z, M2.inv, M2.det, M2.sdiv]

example : ok_S_A sample 7 := by
  simp only [ok_S_A, sample]; norm_num [ok_A_A, A_to_A, ok_A_B, A_to_B, ok_A_G, A_to_G, ok_A_H, A_to_H, ok_A_S, A_to_S, ok_A_T, A_to_T, ok_A_Y, A_to_Y, ok_A_Z, A_to_Z, ok_B_A, B_to_A, ok_B_B, B_to_B, ok_B_G, B_to_G, ok_B_H, B_to_H, ok_B_S, B_to_S, ok_B_T, B_to_T, ok_B_Y, B_to_Y, ok_B_Z, B_to_Z, ok_G_A, G_to_A, ok_G_B, G_to_B, ok_G_G, G_to_G, ok_G_H, G_to_H, ok_G_S, G_to_S, ok_G_T, G_to_T, ok_G_Y, G_to_Y, ok_G_Z, G_to_Z, ok_H_A, H_to_A, ok_H_B, H_to_B, ok_H_G, H_to_G, ok_H_H, H_to_H, ok_H_S, H_to_S, ok_H_T, H_to_T, ok_H_Y, H_to_Y, ok_H_Z, H_to_Z, ok_S_A, S_to_A, ok_S_B, S_to_B, ok_S_G, S_to_G, ok_S_H, S_to_H, ok_S_S, S_to_S, ok_S_T, S_to_T, ok_S_Y, S_to_Y, ok_S_Z, S_to_Z, ok_T_A, T_to_A, ok_T_B, T_to_B, ok_T_G, T_to_G, ok_T_H, T_to_H, ok_T_S, T_to_S, ok_T_T, T_to_T, ok_T_Y, T_to_Y, ok_T_Z, T_to_Z, ok_Y_A, Y_to_A, ok_Y_B, Y_to_B, ok_Y_G, Y_to_G, ok_Y_H, Y_to_H, ok_Y_S, Y_to_S, ok_Y_T, Y_to_T, ok_Y_Y, Y_to_Y, ok_Y_Z, Y_to_Z, ok_Z_A, Z_to_A, ok_Z_B, Z_to_B, ok_Z_G, Z_to_G, ok_Z_H, Z_to_H, ok_Z_S, Z_to_S, ok_Z_T, Z_to_T, ok_Z_Y, Z_to_Y, ok_Z_Z, Z_to_Z, M2.inv, M2.det, M2.sdiv]

example : ok_S_B sample 7 := by
  simp only [ok_S_B, sample]; norm_num [ok_A_A, A_to_A, ok_A_B, A_to_B, ok_A_G, A_to_G, ok_A_H, A_to_H, ok_A_S, A_to_S, ok_A_T, A_to_T, ok_A_Y, A_to_Y, ok_A_Z, A_to_Z, ok_B_A, B_to_A, ok_B_B, B_to_B, ok_B_G, B_to_G, ok_B_H, B_to_H, ok_B_S, B_to_S, ok_B_T, B_to_T, ok_B_Y, B_to_Y, ok_B_Z, B_to_Z, ok_G_A, G_to_A, ok_G_B, G_to_B, ok_G_G, G_to_G, ok_G_H, G_to_H, ok_G_S, G_to_S, ok_G_T, G_to_T, ok_G_Y, G_to_Y, ok_G_Z, G_to_Z, ok_H_A, H_to_A, ok_H_B, H_to_B, ok_H_G, H_to_G, ok_H_H, H_to_H, ok_H_S, H_to_S, ok_H_T, H_to_T, ok_H_Y, H_to_Y, ok_H_Z, H_to_Z, ok_S_A, S_to_A, ok_S_B, S_to_B, ok_S_G, S_to_G, ok_S_H, S_to_H, ok_S_S, S_to_S, ok_S_T, S_to_T, ok_S_Y, S_to_Y, ok_S_Z, S_to_Z, ok_T_A, T_to_A, ok_T_B, T_to_B, ok_T_G, T_to_G, ok_T_H, T_to_H, ok_T_S, T_to_S, ok_T_T, T_to_T, ok_T_Y, T_to_Y, ok_T_Z, T_to_Z, ok_Y_A, Y_to_A, ok_Y_B, Y_to_B, ok_Y_G, Y_to_G, ok_Y_H, Y_to_H, ok_Y_S, Y_to_S, ok_Y_T, Y_to_T, ok_Y_Y, Y_to_Y, ok_Y_Z, Y_to_Z, ok_Z_A, Z_to_A, ok_Z_B, Z_to_B, ok_Z_G, Z_to_G, ok_Z_H, Z_to_H, ok_Z_S, Z_to_S, ok_Z_T, Z_to_T, ok_Z_Y, Z_to_Y, ok_Z_Z, Z_to_Z, M2.inv, M2.det, M2.sdiv]

example : ok_S_G sample 7 := by
  simp only [ok_S_G, sample]; norm_num [ok_A_A, A_to_A, ok_A_B, A_to_B, ok_A_G, A_to_G, ok_A_H, A_to_H, ok_A_S, A_to_S, ok_A_T, A_to_T, ok_A_Y, A_to_Y, ok_A_Z, A_to_Z, ok_B_A, B_to_A, ok_B_B, B_to_B, ok_B_G, B_to_G, ok_B_H, B_to_H, ok_B_S, B_to_S, ok_B_T, B_to_T, ok_B_Y, B_to_Y, ok_B_Z, B_to_Z, ok_G_A, G_to_A, ok_G_B, G_to_B, ok_G_G, G_to_G, ok_G_H, G_to_H, ok_G_S, G_to_S, ok_G_T, G_to_T, ok_G_Y, G_to_Y, ok_G_Z, G_to_Z, ok_H_A, H_to_A, ok_H_B, H_to_B, ok_H_G, H_to_G, ok_H_H, H_to_H, ok_H_S, H_to_S, ok_H_T, H_to_T, ok_H_Y, H_to_Y, ok_H_Z, H_to_Z, ok_S_A, S_to_A, ok_S_B, S_to_B, ok_S_G, S_to_G, ok_S_H, S_to_H, ok_S_S, S_to_S, ok_S_T, S_to_T, ok_S_Y, S_to_Y, ok_S_Z, S_to_Z, ok_T_A, T_to_A, ok_T_B, T_to_B, ok_T_G, T_to_G, ok_T_H, T_to_H, ok_T_S, T_to_S, ok_T_T, T_to_T, ok_T_Y, T_to_Y, ok_T_Z, T_to_Z, ok_Y_A, Y_to_A, ok_Y_B, Y_to_B, ok_Y_G, Y_to_G, ok_Y_H, Y_to_H, ok_Y_S, Y_to_S, ok_Y_T, Y_to_T, ok_Y_Y, Y_to_Y, ok_Y_Z, Y_to_Z, ok_Z_A, Z_to_A, ok_Z_B, Z_to_B, ok_Z_G, Z_to_G, ok_Z_H, Z_to_H, ok_Z_S, Z_to_S, ok_Z_T, Z_to_T, ok_Z_Y, Z_to_Y, ok_Z_Z, Z_to_Z, M2.inv, M2.det, M2.sdiv]

example : ok_S_H sample 7 := by
  simp only [ok_S_H, sample]; norm_num [ok_A_A, A_to_A, ok_A_B, A_to_B, ok_A_G, A_to_G, ok_A_H, A_to_H, ok_A_S, A_to_S, ok_A_T, A_to_T, ok_A_Y, A_to_Y, ok_A_Z, A_to_Z, ok_B_A, B_to_A, ok_B_B, B_to_B, ok_B_G, B_to_G, ok_B_H, B_to_H, ok_B_S, B_to_S, ok_B_T, B_to_T, ok_B_Y, B_to_Y, ok_B_Z, B_to_Z, ok_G_A, G_to_A, ok_G_B, G_to_B, ok_G_G, G_to_G, ok_G_H, G_to_H, ok_G_S, G_to_S, ok_G_T, G_to_T, ok_G_Y, G_to_Y, ok_G_Z, G_to_Z, ok_H_A, H_to_A, ok_H_B, H_to_B, ok_H_G, H_to_G, ok_H_H, H_to_H, ok_H_S, H_to_S, ok_H_T, H_to_T, ok_H_Y, H_to_Y, ok_H_Z, H_to_Z, ok_S_A, S_to_A, ok_S_B, S_to_B, ok_S_G, S_to_G, ok_S_H, S_to_H, ok_S_S, S_to_S, ok_S_T, S_to_T, ok_S_Y, S_to_Y, ok_S_Z, S_to_Z, ok_T_A, T_to_A, ok_T_B, T_to_B, ok_T_G, T_to_G, ok_T_H, T_to_H, ok_T_S, T_to_S, ok_T_T, T_to_T, ok_T_Y, T_to_Y, ok_T_Z, T_to_Z, ok_Y_A, Y_to_A, ok_Y_B, Y_to_B, ok_Y_G, Y_to_G, ok_Y_H, Y_to_H, ok_Y_S, Y_to_S, ok_Y_T, Y_to_T, ok_Y_Y, Y_to_Y, ok_Y_Z, Y_to_Z, ok_Z_A, Z_to_A, ok_Z_B, Z_to_B, ok_Z_G, Z_to_G, ok_Z_H, Z_to_H, ok_Z_S, Z_to_S, ok_Z_T, Z_to_T, ok_Z_Y, Z_to_Y, ok_Z_Z, Z_to_Z, M2.inv, M2.det, M2.sdiv]

example : ok_S_S sample 7 := trivial

example : ok_S_T sample 7 := by
  simp only [ok_S_T, sample]; norm_num [ok_A_A, A_to_A, ok_A_B, A_to_B, ok_A_G, A_to_G, ok_A_H, A_to_H, ok_A_S, A_to_S, ok_A_T, A_to_T, ok_A_Y, A_to_Y, ok_A_Z, A_to_Z, ok_B_A, B_to_A, ok_B_B, B_to_B, ok_B_G, B_to_G, ok_B_H, B_to_H, ok_B_S, B_to_S, ok_B_T, B_to_T, ok_B_Y, B_to_Y, ok_B_Z, B_to_Z, ok_G_A, G_to_A, ok_G_B, G_to_B, ok_G_G, G_to_G, ok_G_H, G_to_H, ok_G_S, G_to_S, ok_G_T, G_to_T, ok_G_Y, G_to_Y, ok_G_Z, G_to_Z, ok_H_A, H_to_A, ok_H_B, H_to_B, ok_H_G, H_to_G, ok_H_H, H_to_H, ok_H_S, H_to_S, ok_H_T, H_to_T, ok_H_Y, H_to_Y, ok_H_Z, H_to_Z, ok_S_A, S_to_A, ok_S_B, S_to_B, ok_S_G, S_to_G, ok_S_H, S_to_H, ok_S_S, S_to_S, ok_S_T, S_to_T, ok_S_Y, S_to_Y, ok_S_Z, S_to_Z, ok_T_A, T_to_A, ok_T_B, T_to_B, ok_T_G, T_to_G, ok_T_H, T_to_H, ok_T_S, T_to_S, ok_T_T, T_to_T, ok_T_Y, T_to_Y, ok_T_Z, T_to_Z, ok_Y_A, Y_to_A, ok_Y_B, Y_to_B, ok_Y_G, Y_to_G, ok_Y_H, Y_to_H, ok_Y_S, Y_to_S, ok_Y_T, Y_to_T, ok_Y_Y, Y_to_Y, ok_Y_Z, Y_to_Z, ok_Z_A, Z_to_A, ok_Z_B, Z_to_B, ok_Z_G, Z_to_G, ok_Z_H, Z_to_H, ok_Z_S, Z_to_S, ok_Z_T, Z_to_T, ok_Z_Y, Z_to_Y, ok_Z_Z, Z_to_Z, M2.inv, M2.det, M2.sdiv]

example : ok_S_Y sample 7 := by
  simp only [ok_S_Y, sample]; norm_num [ok_A_A, A_to_A, ok_A_B, A_to_B, ok_A_G, A_to_G, ok_A_H, A_to_H, ok_A_S, A_to_S, ok_A_T, A_to_T, ok_A_Y, A_to_Y, ok_A_Z, A_to_Z, ok_B_A, B_to_A, ok_B_B, B_to_B, ok_B_G, B_to_G, ok_B_H, B_to_H, ok_B_S, B_to_S, ok_B_T, B_to_T, ok_B_Y, B_to_Y, ok_B_Z, B_to_Z, ok_G_A, G_to_A, ok_G_B, G_to_B, ok_G_G, G_to_G, ok_G_H, G_to_H, ok_G_S, G_to_S, ok_G_T, G_to_T, ok_G_Y, G_to_Y, ok_G_Z, G_to_Z, ok_H_A, H_to_A, ok_H_B, H_to_B, ok_H_G, H_to_G, ok_H_H, H_to_H, ok_H_S, H_to_S, ok_H_T, H_to_T, ok_H_Y, H_to_Y, ok_H_Z, H_to_Z, ok_S_A, S_to_A, ok_S_B, S_to_B, ok_S_G, S_to_G, ok_S_H, S_to_H, ok_S_S, S_to_S, ok_S_T, S_to_T, ok_S_Y, S_to_Y, ok_S_Z, S_to_Z, ok_T_A, T_to_A, ok_T_B, T_to_B, ok_T_G, T_to_G, ok_T_H, T_to_H, ok_T_S, T_to_S, ok_T_T, T_to_T, ok_T_Y, T_to_Y, ok_T_Z, T_to_Z, ok_Y_A, Y_to_A, ok_Y_B, Y_to_B, ok_Y_G, Y_to_G, ok_Y_H, Y_to_H, ok_Y_S, Y_to_S, ok_Y_T, Y_to_T, ok_Y_Y, Y_to_Y, ok_Y_Z, Y_to_Z, ok_Z_A, Z_to_A, ok_Z_B, Z_to_B, ok_Z_G, Z_to_G, ok_Z_H, Z_to_H, ok_Z_S, Z_to_S, ok_Z_T, Z_to_T, ok_Z_Y, Z_to_Y, ok_Z_Z, Z_to_Z, M2.inv, M2.det, M2.sdiv]

example : ok_S_Z sample 7 := by
  simp only [ok_S_Z, sample]; norm_num [ok_A_A, A_to_A, ok_A_B, A_to_B, ok_A_G, A_to_G, ok_A_H, A_to_H, ok_A_S, A_to_S, ok_A_T, A_to_T, ok_A_Y, A_to_Y, ok_A_Z, A_to_Z, ok_B_A, B_to_A, ok_B_B, B_to_B, ok_B_G, B_to_G, ok_B_H, B_to_H, ok_B_S, B_to_S, ok_B_T, B_to_T, ok_B_Y, B_to_Y, ok_B_Z, B_to_Z, ok_G_A, G_to_A, ok_G_B, G_to_B, ok_G_G, G_to_G, ok_G_H, G_to_H, ok_G_S, G_to_S, ok_G_T, G_to_T, ok_G_Y, G_to_Y, ok_G_Z, G_to_Z, ok_H_A, H_to_A, ok_H_B, H_to_B, ok_H_G, H_to_G, ok_H_H, H_to_H, ok_H_S, H_to_S, ok_H_T, H_to_T, ok_H_Y, H_to_Y, ok_H_Z, H_to_Z, ok_S_A, S_to_A, ok_S_B, S_to_B, ok_S_G, S_to_G, ok_S_H, S_to_H, ok_S_S, S_to_S, ok_S_T, S_to_T, ok_S_Y, S_to_Y, ok_S_Z, S_to_Z, ok_T_A, T_to_A, ok_T_B, T_to_B, ok_T_G, T_to_G, ok_T_H, T_to_H, ok_T_S, T_to_S, ok_T_T, T_to_T, ok_T_Y, T_to_Y, ok_T_Z, T_to_Z, ok_Y_A, Y_to_A, ok_Y_B, Y_to_B, ok_Y_G, Y_to_G, ok_Y_H, Y_to_H, ok_Y_S, Y_to_S, ok_Y_T, Y_to_T, ok_Y_Y, Y_to_Y, ok_Y_Z, Y_to_Z, ok_Z_A, Z_to_A, ok_Z_B, Z_to_B, ok_Z_G, Z_to_G, ok_Z_H, Z_to_H, ok_Z_S, Z_to_S, ok_Z_T, Z_to_T, ok_Z_Y, Z_to_Y, ok_Z_Z, Z_to_Z, M2.inv, M2.det, M2.sdiv]

example : ok_T_A sample 7 := by
  simp only [ok_T_A, sample]; norm_num [ok_A_A, A_to_A, ok_A_B, A_to_B, ok_A_G, A_to_G, ok_A_H, A_to_H, ok_A_S, A_to_S, ok_A_T, A_to_T, ok_A_Y, A_to_Y, ok_A_Z, A_to_Z, ok_B_A, B_to_A, ok_B_B, B_to_B, ok_B_G, B_to_G, ok_B_H, B_to_H, ok_B_S, B_to_S, ok_B_T, B_to_T, ok_B_Y, B_to_Y, ok_B_Z, B_to_Z, ok_G_A, G_to_A, ok_G_B, G_to_B, ok_G_G, G_to_G, ok_G_H, G_to_H, ok_G_S, G_to_S, ok_G_T, G_to_T, ok_G_Y, G_to_Y, ok_G_Z, G_to_Z, ok_H_A, H_to_A, ok_H_B, H_to_B, ok_H_G, H_to_G, ok_H_H, H_to_H, ok_H_S, H_to_S, ok_H_T, H_to_T, ok_H_Y, H_to_Y, ok_H_Z, H_to_Z, ok_S_A, S_to_A, ok_S_B, S_to_B, ok_S_G, S_to_G, ok_S_H, S_to_H, ok_S_S, S_to_S, ok_S_T, S_to_T, ok_S_Y, S_to_Y, ok_S_Z, S_to_Z, ok_T_A, T_to_A, ok_T_B, T_to_B, ok_T_G, T_to_G, ok_T_H, T_to_H, ok_T_S, T_to_S, ok_T_T, T_to_T, ok_T_Y, T_to_Y, ok_T_Z, T_to_Z, ok_Y_A, Y_to_A, ok_Y_B, Y_to_B, ok_Y_G, Y_to_G, ok_Y_H, Y_to_H, ok_Y_S, Y_to_S, ok_Y_T, Y_to_T, ok_Y_Y, Y_to_Y, ok_Y_Z, Y_to_Z, ok_Z_A, Z_to_A, ok_Z_B, Z_to_B, ok_Z_G, Z_to_G, ok_Z_H, Z_to_H, ok_Z_S, Z_to_S, ok_Z_T, Z_to_T, ok_Z_Y, Z_to_Y, ok_Z_Z, Z_to_Z, M2.inv, M2.det, M2.sdiv]

example : ok_T_B sample 7 := by
  simp only [ok_T_B, sample]; norm_num [ok_A_A, A_to_A, ok_A_B, A_to_B, ok_A_G, A_to_G, ok_A_H, A_to_H, ok_A_S, A_to_S, ok_A_T, A_to_T, ok_A_Y, A_to_Y, ok_A_Z, A_to_Z, ok_B_A, B_to_A, ok_B_B, B_to_B, ok_B_G, B_to_G, ok_B_H, B_to_H, ok_B_S, B_to_S, ok_B_T, B_to_T, ok_B_Y, B_to_Y, ok_B_Z, B_to_Z, ok_G_A, G_to_A, ok_G_B, G_to_B, ok_G_G, G_to_G, ok_G_H, G_to_H, ok_G_S, G_to_S, ok_G_T, G_to_T, ok_G_Y, G_to_Y, ok_G_Z, G_to_Z, ok_H_A, H_to_A, ok_H_B, H_to_B, ok_H_G, H_to_G, ok_H_H, H_to_H, ok_H_S, H_to_S, ok_H_T, H_to_T, ok_H_Y, H_to_Y, ok_H_Z, H_to_Z, ok_S_A, S_to_A, ok_S_B, S_to_B, ok_S_G, S_to_G, ok_S_H, S_to_H, ok_S_S, S_to_S, ok_S_T, S_to_T, ok_S_Y, S_to_Y, ok_S_Z, S_to_Z, ok_T_A, T_to_A, ok_T_B, T_to_B, ok_T_G, T_to_G, ok_T_H, T_to_H, ok_T_S, T_to_S, ok_T_T, T_to_T, ok_T_Y, T_to_Y, ok_T_Z, T_to_Z, ok_Y_A, Y_to_A, ok_Y_B, Y_to_B, ok_Y_G, Y_to_G, ok_Y_H, Y_to_H, ok_Y_S, Y_to_S, ok_Y_T, Y_to_T, ok_Y_Y, Y_to_Y, ok_Y_Z, Y_to_Z, ok_Z_A, Z_to_A, ok_Z_B, Z_to_B, ok_Z_G, Z_to_G, ok_Z_H, Z_to_H, ok_Z_S, Z_to_S, ok_Z_T, Z_to_T, ok_Z_Y, Z_to_Y, ok_Z_Z, Z_to_Z, M2.inv, M2.det, M2.sdiv]

example : ok_T_G sample 7 := by
  simp only [ok_T_G, sample]; norm_num [ok_A_A, A_to_A, ok_A_B, A_to_B, ok_A_G, A_to_G, ok_A_H, A_to_H, ok_A_S, A_to_S, ok_A_T, A_to_T, ok_A_Y, A_to_Y, ok_A_Z, A_to_Z, ok_B_A, B_to_A, ok_B_B, B_to_B, ok_B_G, B_to_G, ok_B_H, B_to_H, ok_B_S, B_to_S, ok_B_T, B_to_T, ok_B_Y, B_to_Y, ok_B_Z, B_to_Z, ok_G_A, G_to_A, ok_G_B, G_to_B, ok_G_G, G_to_G, ok_G_H, G_to_H, ok_G_S, G_to_S, ok_G_T, G_to_T, ok_G_Y, G_to_Y, ok_G_Z, G_to_Z, ok_H_A, H_to_A, ok_H_B, H_to_B, ok_H_G, H_to_G, ok_H_H, H_to_H, ok_H_S, H_to_S, ok_H_T, H_to_T, ok_H_Y, H_to_Y, ok_H_Z, H_to_Z, ok_S_A, S_to_A, ok_S_B, S_to_B, ok_S_G, S_to_G, ok_S_H, S_to_H, ok_S_S, S_to_S, ok_S_T, S_to_T, ok_S_Y, S_to_Y, ok_S_Z, S_to_Z, ok_T_A, T_to_A, ok_T_B, T_to_B, ok_T_G, T_to_G, ok_T_H, T_to_H, ok_T_S, T_to_S, ok_T_T, T_to_T, ok_T_Y, T_to_Y, ok_T_Z, T_to_Z, ok_Y_A, Y_to_A, ok_Y_B, Y_to_B, ok_Y_G, Y_to_G, ok_Y_H, Y_to_H, ok_Y_S, Y_to_S, ok_Y_T, Y_to_T, ok_Y_Y, Y_to_Y, ok_Y_Z, Y_to_Z, ok_Z_A, Z_to_A, ok_Z_B, Z_to_B, ok_Z_G, Z_to_G, ok_Z_H, Z_to_H, ok_Z_S, Z_to_S, ok_Z_T, Z_to_T, ok_Z_Y, Z_to_Y, ok_Z_Z, Z_to_Z, M2.inv, M2.det, M2.sdiv]

example : ok_T_H sample 7 := by
  simp only [ok_T_H, sample]; norm_num [ok_A_A, A_to_A, ok_A_B, A_to_B, ok_A_G, A_to_G, ok_A_H, A_to_H, ok_A_S, A_to_S, ok_A_T, A_to_T, ok_A_Y, A_to_Y, ok_A_Z, A_to_Z, ok_B_A, B_to_A, ok_B_B, B_to_B, ok_B_G, B_to_G, ok_B_H, B_to_H, ok_B_S, B_to_S, ok_B_T, B_to_T, ok_B_Y, B_to_Y, ok_B_Z, B_to_Z, ok_G_A, G_to_A, ok_G_B, G_to_B, ok_G_G, G_to_G, ok_G_H, G_to_H, ok_G_S, G_to_S, ok_G_T, G_to_T, ok_G_Y, G_to_Y, ok_G_Z, G_to_Z, ok_H_A, H_to_A, ok_H_B, H_to_B, ok_H_G, H_to_G, ok_H_H, H_to_H, ok_H_S, H_to_S, ok_H_T, H_to_T, ok_H_Y, H_to_Y, ok_H_Z, H_to_Z, ok_S_A, S_to_A, ok_S_B, S_to_B, ok_S_G, S_to_G, ok_S_H, S_to_H, ok_S_S, S_to_S, ok_S_T, S_to_T, ok_S_Y, S_to_Y, ok_S_Z, S_to_Z, ok_T_A, T_to_A, ok_T_B, T_to_B, ok_T_G, T_to_G, ok_T_H, T_to_H, ok_T_S, T_to_S, ok_T_T, T_to_T, ok_T_Y, T_to_Y, ok_T_Z, T_to_Z, ok_Y_A, Y_to_A, ok_Y_B, Y_to_B, ok_Y_G, Y_to_G, ok_Y_H, Y_to_H, ok_Y_S, Y_to_S, ok_Y_T, Y_to_T, ok_Y_Y, Y_to_Y, ok_Y_Z, Y_to_Z, ok_Z_A, Z_to_A, ok_Z_B, Z_to_B, ok_Z_G, Z_to_G, ok_Z_H, Z_to_H, ok_Z_S, Z_to_S, ok_Z_T, Z_to_T, ok_Z_Y, Z_to_Y, ok_Z_Z, Z_to_Z, M2.inv, M2.det, M2.sdiv]

example : ok_T_S sample 7 := by
  simp only [ok_T_S, sample]; norm_num [ok_A_A, A_to_A, ok_A_B, A_to_B, ok_A_G, A_to_G, ok_A_H, A_to_H, ok_A_S, A_to_S, ok_A_T, A_to_T, ok_A_Y, A_to_Y, ok_A_Z, A_to_Z, ok_B_A, B_to_A, ok_B_B, B_to_B, ok_B_G, B_to_G, ok_B_H, B_to_H, ok_B_S, B_to_S, ok_B_T, B_to_T, ok_B_Y, B_to_Y, ok_B_Z, B_to_Z, ok_G_A, G_to_A, ok_G_B, G_to_B, ok_G_G, G_to_G, ok_G_H, G_to_H, ok_G_S, G_to_S, ok_G_T, G_to_T, ok_G_Y, G_to_Y, ok_G_Z, G_to_Z, ok_H_A, H_to_A, ok_H_B, H_to_B, ok_H_G, H_to_G, ok_H_H, H_to_H, ok_H_S, H_to_S, ok_H_T, H_to_T, ok_H_Y, H_to_Y, ok_H_Z, H_to_Z, ok_S_A, S_to_A, ok_S_B, S_to_B, ok_S_G, S_to_G, ok_S_H, S_to_H, ok_S_S, S_to_S, ok_S_T, S_to_T, ok_S_Y, S_to_Y, ok_S_Z, S_to_Z, ok_T_A, T_to_A, ok_T_B, T_to_B, ok_T_G, T_to_G, ok_T_H, T_to_H, ok_T_S, T_to_S, ok_T_T, T_to_T, ok_T_Y, T_to_Y, ok_T_Z, T_to_Z, ok_Y_A, Y_to_A, ok_Y_B, Y_to_B, ok_Y_G, Y_to_G, ok_Y_H, Y_to_H, ok_Y_S, Y_to_S, ok_Y_T, Y_to_T, ok_Y_Y, Y_to_Y, ok_Y_Z, Y_to_Z, ok_Z_A, Z_to_A, ok_Z_B, Z_to_B, ok_Z_G, Z_to_G, ok_Z_H, Z_to_H, ok_Z_S, Z_to_S, ok_Z_T, Z_to_T, ok_Z_Y, Z_to_Y, ok_Z_Z, Z_to_Z, M2.inv, M2.det, M2.sdiv]

example : ok_T_T sample 7 := trivial

example : ok_T_Y sample 7 := by
  simp only [ok_T_Y, sample]; norm_num [ok_A_A, A_to_A, ok_A_B, A_to_B, ok_A_G, A_to_G, ok_A_H, A_to_H, ok_A_S, A_to_S, ok_A_T, A_to_T, ok_A_Y, A_to_Y, ok_A_Z, A_to_Z, ok_B_A, B_to_A, ok_B_B, B_to_B, ok_B_G, B_to_G, ok_B_H, B_to_H, ok_B_S, B_to_S, ok_B_T, B_to_T, ok_B_Y, B_to_Y, ok_B_Z, B_to_Z, ok_G_A, G_to_A, ok_G_B, G_to_B, ok_G_G, G_to_G, ok_G_H, G_to_H, ok_G_S, G_to_S, ok_G_T, G_to_T, ok_G_Y, G_to_Y, ok_G_Z, G_to_Z, ok_H_A, H_to_A, ok_H_B, H_to_B, ok_H_G, H_to_G, ok_H_H, H_to_H, ok_H_S, H_to_S, ok_H_T, H_to_T, ok_H_Y, H_to_Y, ok_H_Z, H_to_Z, ok_S_A, S_to_A, ok_S_B, S_to_B, ok_S_G, S_to_G, ok_S_H, S_to_H, ok_S_S, S_to_S, ok_S_T, S_to_T, ok_S_Y, S_to_Y, ok_S_Z, S_to_Z, ok_T_A, T_to_A, ok_T_B, T_to_B, ok_T_G, T_to_G, ok_T_H, T_to_H, ok_T_S, T_to_S, ok_T_T, T_to_T, ok_T_Y, T_to_Y, ok_T_Z, T_to_Z, ok_Y_A, Y_to_A, ok_Y_B, Y_to_B, ok_Y_G, Y_to_G, ok_Y_H, Y_to_H, ok_Y_S, Y_to_S, ok_Y_T, Y_to_T, ok_Y_Y, Y_to_Y, ok_Y_Z, Y_to_Z, ok_Z_A, Z_to_A, ok_Z_B, Z_to_B, ok_Z_G, Z_to_G, ok_Z_H, Z_to_H, ok_Z_S, Z_to_S, ok_Z_T, Z_to_T, ok_Z_Y, Z_to_Y, ok_Z_Z, Z_to_Z, M2.inv, M2.det, M2.sdiv]

example : ok_T_Z sample 7 := by
  simp only [ok_T_Z, sample]; norm_num [ok_A_A, A_to_A, ok_A_B, A_to_B, ok_A_G, A_to_G, ok_A_H, A_to_H, ok_A_S, A_to_S, ok_A_T, A_to_T, ok_A_Y, A_to_Y, ok_A_Z, A_to_Z, ok_B_A, B_to_A, ok_B_B, B_to_B, ok_B_G, B_to_G, ok_B_H, B_to_H, ok_B_S, B_to_S, ok_B_T, B_to_T, ok_B_Y, B_to_Y, ok_B_Z, B_to_Z, ok_G_A, G_to_A, ok_G_B, G_to_B, ok_G_G, G_to_G, ok_G_H, G_to_H, ok_G_S, G_to_S, ok_G_T, G_to_T, ok_G_Y, G_to_Y, ok_G_Z, G_to_Z, ok_H_A, H_to_A, ok_H_B, H_to_B, ok_H_G, H_to_G, ok_H_H, H_to_H, ok_H_S, H_to_S, ok_H_T, H_to_T, ok_H_Y, H_to_Y, ok_H_Z, H_to_Z, ok_S_A, S_to_A, ok_S_B, S_to_B, ok_S_G, S_to_G, ok_S_H, S_to_H, ok_S_S, S_to_S, ok_S_T, S_to_T, ok_S_Y, S_to_Y, ok_S_Z, S_to_Z, ok_T_A, T_to_A, ok_T_B, T_to_B, ok_T_G, T_to_G, ok_T_H, T_to_H, ok_T_S, T_to_S, ok_T_T, T_to_T, ok_T_Y, T_to_Y, ok_T_Z, T_to_Z, ok_Y_A, Y_to_A, ok_Y_B, Y_to_B, ok_Y_G, Y_to_G, ok_Y_H, Y_to_H, ok_Y_S, Y_to_S, ok_Y_T, Y_to_T, ok_Y_Y, Y_to_Y, ok_Y_Z, Y_to_Z, ok_Z_A, Z_to_A, ok_Z_B, Z_to_B, ok_Z_G, Z_to_G, ok_Z_H, Z_to_H, ok_Z_S, Z_to_S, ok_Z_T, Z_to_T, ok_Z_Y, Z_to_Y, ok_Z_Z, Z_to_Z, M2.inv, M2.det, M2.sdiv]

example : ok_Y_A sample 7 := by
  simp only [ok_Y_A, sample]; norm_num [ok_A_A, A_to_A, ok_A_B, A_to_B, ok_A_G, A_to_G, ok_A_H, A_to_H, ok_A_S, A_to_S, ok_A_T, A_to_T, ok_A_Y, A_to_Y, ok_A_Z, A_to_Z, ok_B_A, B_to_A, ok_B_B, B_to_B, ok_B_G, B_to_G, ok_B_H, B_to_H, ok_B_S, B_to_S, ok_B_T, B_to_T, ok_B_Y, B_to_Y, ok_B_Z, B_to_Z, ok_G_A, G_to_A, ok_G_B, G_to_B, ok_G_G, G_to_G, ok_G_H, G_to_H, ok_G_S, G_to_S, ok_G_T, G_to_T, ok_G_Y, G_to_Y, ok_G_Z, G_to_Z, ok_H_A, H_to_A, ok_H_B, H_to_B, ok_H_G, H_to_G, ok_H_H, H_to_H, ok_H_S, H_to_S, ok_H_T, H_to_T, ok_H_Y, H_to_Y, ok_H_Z, H_to_Z, ok_S_A, S_to_A, ok_S_B, S_to_B, ok_S_G, S_to_G, ok_S_H, S_to_H, ok_S_S, S_to_S, ok_S_T, S_to_T, ok_S_Y, S_to_Y, ok_S_Z, S_to_Z, ok_T_A, T_to_A, ok_T_B, T_to_B, ok_T_G, T_to_G, ok_T_H, T_to_H, ok_T_S, T_to_S, ok_T_T, T_to_T, ok_T_Y, T_to_Y, ok_T_Z, T_to_Z, ok_Y_A, Y_to_A, ok_Y_B, Y_to_B, ok_Y_G, Y_to_G, ok_Y_H, Y_to_H, ok_Y_S, Y_to_S, ok_Y_T, Y_to_T, ok_Y_Y, Y_to_Y, ok_Y_Z, Y_to_Z, ok_Z_A, Z_to_A, ok_Z_B, Z_to_B, ok_Z_G, Z_to_G, ok_Z_H, Z_to_H, ok_Z_S, Z_to_S, ok_Z_T, Z_to_T, ok_Z_Y, Z_to_Y, ok_Z_Z, Z_to_Z, M2.inv, M2.det, M2.sdiv]

example : ok_Y_B sample 7 := by
  simp only [ok_Y_B, sample]; norm_num [ok_A_A, A_to_A, ok_A_B, A_to_B, ok_A_G, A_to_G, ok_A_H, A_to_H, ok_A_S, A_to_S, ok_A_T, A_to_T, ok_A_Y, A_to_Y, ok_A_Z, A_to_Z, ok_B_A, B_to_A, ok_B_B, B_to_B, ok_B_G, B_to_G, ok_B_H, B_to_H, ok_B_S, B_to_S, ok_B_T, B_to_T, ok_B_Y, B_to_Y, ok_B_Z, B_to_Z, ok_G_A, G_to_A, ok_G_B, G_to_B, ok_G_G, G_to_G, ok_G_H, G_to_H, ok_G_S, G_to_S, ok_G_T, G_to_T, ok_G_Y, G_to_Y, ok_G_Z, G_to_Z, ok_H_A, H_to_A, ok_H_B, H_to_B, ok_H_G, H_to_G, ok_H_H, H_to_H, ok_H_S, H_to_S, ok_H_T, H_to_T, ok_H_Y, H_to_Y, ok_H_Z, H_to_Z, ok_S_A, S_to_A, ok_S_B, S_to_B, ok_S_G, S_to_G, ok_S_H, S_to_H, ok_S_S, S_to_S, ok_S_T, S_to_T, ok_S_Y, S_to_Y, ok_S_Z, S_to_Z, ok_T_A, T_to_A, ok_T_B, T_to_B, ok_T_G, T_to_G, ok_T_H, T_to_H, ok_T_S, T_to_S, ok_T_T, T_to_T, ok_T_Y, T_to_Y, ok_T_Z, T_to_Z, ok_Y_A, Y_to_A, ok_Y_B, Y_to_B, ok_Y_G, Y_to_G, ok_Y_H, Y_to_H, ok_Y_S, Y_to_S, ok_Y_T, Y_to_T, ok_Y_Y, Y_to_Y, ok_Y_Z, Y_to_Z, ok_Z_A, Z_to_A, ok_Z_B, Z_to_B, ok_Z_G, Z_to_G, ok_Z_H, Z_to_H, ok_Z_S, Z_to_S, ok_Z_T, Z_to_T, ok_Z_Y, Z_to_Y, ok_Z_Z, Z_to_Z, M2.inv, M2.det, M2.sdiv]

example : ok_Y_G sample 7 := by
  simp only [ok_Y_G, sample]; norm_num [ok_A_A, A_to_A, ok_A_B, A_to_B, ok_A_G, A_to_G, ok_A_H, A_to_H, ok_A_S, A_to_S, ok_A_T, A_to_T, ok_A_Y, A_to_Y, ok_A_Z, A_to_Z, ok_B_A, B_to_A, ok_B_B, B_to_B, ok_B_G, B_to_G, ok_B_H, B_to_H, ok_B_S, B_to_S, ok_B_T, B_to_T, ok_B_Y, B_to_Y, ok_B_Z, B_to_Z, ok_G_A, G_to_A, ok_G_B, G_to_B, ok_G_G, G_to_G, ok_G_H, G_to_H, ok_G_S, G_to_S, ok_G_T, G_to_T, ok_G_Y, G_to_Y, ok_G_Z, G_to_Z, ok_H_A, H_to_A, ok_H_B, H_to_B, ok_H_G, H_to_G, ok_H_H, H_to_H, ok_H_S, H_to_S, ok_H_T, H_to_T, ok_H_Y, H_to_Y, ok_H_Z, H_to_Z, ok_S_A, S_to_A, ok_S_B, S_to_B, ok_S_G, S_to_G, ok_S_H, S_to_H, ok_S_S, S_to_S, ok_S_T, S_to_T, ok_S_Y, S_to_Y, ok_S_Z, S_to_Z, ok_T_A, T_to_A, ok_T_B, T_to_B, ok_T_G, T_to_G, ok_T_H, T_to_H, ok_T_S, T_to_S, ok_T_T, T_to_T, ok_T_Y, T_to_Y, ok_T_Z, T_to_Z, ok_Y_A, Y_to_A, ok_Y_B, Y_to_B, ok_Y_G, Y_to_G, ok_Y_H, Y_to_H, ok_Y_S, Y_to_S, ok_Y_T, Y_to_T, ok_Y_Y, Y_to_Y, ok_Y_Z, Y_to_Z, ok_Z_A, Z_to_A, ok_Z_B, Z_to_B, ok_Z_G, Z_to_G, ok_Z_H, Z_to_H, ok_Z_S, Z_to_S, ok_Z_T, Z_to_T, ok_Z_Y, Z_to_Y, ok_Z_Z, Z_to_Z, M2.inv, M2.det, M2.sdiv]

example : ok_Y_H sample 7 := by
  simp only [ok_Y_H, sample]; norm_num [ok_A_A, A_to_A, ok_A_B, A_to_B, ok_A_G, A_to_G, ok_A_H, A_to_H, ok_A_S, A_to_S, ok_A_T, A_to_T, ok_A_Y, A_to_Y, ok_A_Z, A_to_Z, ok_B_A, B_to_A, ok_B_B, B_to_B, ok_B_G, B_to_G, ok_B_H, B_to_H, ok_B_S, B_to_S, ok_B_T, B_to_T, ok_B_Y, B_to_Y, ok_B_Z, B_to_Z, ok_G_A, G_to_A, ok_G_B, G_to_B, ok_G_G, G_to_G, ok_G_H, G_to_H, ok_G_S, G_to_S, ok_G_T, G_to_T, ok_G_Y, G_to_Y, ok_G_Z, G_to_Z, ok_H_A, H_to_A, ok_H_B, H_to_B, ok_H_G, H_to_G, ok_H_H, H_to_H, ok_H_S, H_to_S, ok_H_T, H_to_T, ok_H_Y, H_to_Y, ok_H_Z, H_to_Z, ok_S_A, S_to_A, ok_S_B, S_to_B, ok_S_G, S_to_G, ok_S_H, S_to_H, ok_S_S, S_to_S, ok_S_T, S_to_T, ok_S_Y, S_to_Y, ok_S_Z, S_to_Z, ok_T_A, T_to_A, ok_T_B, T_to_B, ok_T_G, T_to_G, ok_T_H, T_to_H, ok_T_S, T_to_S, ok_T_T, T_to_T, ok_T_Y, T_to_Y, ok_T_Z, T_to_Z, ok_Y_A, Y_to_A, ok_Y_B, Y_to_B, ok_Y_G, Y_to_G, ok_Y_H, Y_to_H, ok_Y_S, Y_to_S, ok_Y_T, Y_to_T, ok_Y_Y, Y_to_Y, ok_Y_Z, Y_to_Z, ok_Z_A, Z_to_A, ok_Z_B, Z_to_B, ok_Z_G, Z_to_G, ok_Z_H, Z_to_H, ok_Z_S, Z_to_S, ok_Z_T, Z_to_T, ok_Z_Y, Z_to_Y, ok_Z_Z, Z_to_Z, M2.inv, M2.det, M2.sdiv]

example : ok_Y_S sample 7 := by
  simp only [ok_Y_S, sample]; norm_num [ok_A_A, A_to_A, ok_A_B, A_to_B, ok_A_G, A_to_G, ok_A_H, A_to_H, ok_A_S, A_to_S, ok_A_T, A_to_T, ok_A_Y, A_to_Y, ok_A_Z, A_to_Z, ok_B_A, B_to_A, ok_B_B, B_to_B, ok_B_G, B_to_G, ok_B_H, B_to_H, ok_B_S, B_to_S, ok_B_T, B_to_T, ok_B_Y, B_to_Y, ok_B_Z, B_to_Z, ok_G_A, G_to_A, ok_G_B, G_to_B, ok_G_G, G_to_G, ok_G_H, G_to_H, ok_G_S, G_to_S, ok_G_T, G_to_T, ok_G_Y, G_to_Y, ok_G_Z, G_to_Z, ok_H_A, H_to_A, ok_H_B, H_to_B, ok_H_G, H_to_G, ok_H_H, H_to_H, ok_H_S, H_to_S, ok_H_T, H_to_T, ok_H_Y, H_to_Y, ok_H_Z, H_to_Z, ok_S_A, S_to_A, ok_S_B, S_to_B, ok_S_G, S_to_G, ok_S_H, S_to_H, ok_S_S, S_to_S, ok_S_T, S_to_T, ok_S_Y, S_to_Y, ok_S_Z, S_to_Z, ok_T_A, T_to_A, ok_T_B, T_to_B, ok_T_G, T_to_G, ok_T_H, T_to_H, ok_T_S, T_to_S, ok_T_T, T_to_T, ok_T_Y, T_to_Y, ok_T_Z, T_to_Z, ok_Y_A, Y_to_A, ok_Y_B, Y_to_B, ok_Y_G, Y_to_G, ok_Y_H, Y_to_H, ok_Y_S, Y_to_S, ok_Y_T, Y_to_T, ok_Y_Y, Y_to_Y, ok_Y_Z, Y_to_Z, ok_Z_A, Z_to_A, ok_Z_B, Z_to_B, ok_Z_G, Z_to_G, ok_Z_H, Z_to_H, ok_Z_S, Z_to_S, ok_Z_T, Z_to_T, ok_Z_Y, Z_to_Y, ok_Z_Z, Z_to_Z, M2.inv, M2.det, M2.sdiv]

example : ok_Y_T sample 7 := by
  simp only [ok_Y_T, sample]; norm_num [ok_A_A, A_to_A, ok_A_B, A_to_B, ok_A_G, A_to_G, ok_A_H, A_to_H, ok_A_S, A_to_S, ok_A_T, A_to_T, ok_A_Y, A_to_Y, ok_A_Z, A_to_Z, ok_B_A, B_to_A, ok_B_B, B_to_B, ok_B_G, B_to_G, ok_B_H, B_to_H, ok_B_S, B_to_S, ok_B_T, B_to_T, ok_B_Y, B_to_Y, ok_B_Z, B_to_Z, ok_G_A, G_to_A, ok_G_B, G_to_B, ok_G_G, G_to_G, ok_G_H, G_to_H, ok_G_S, G_to_S, ok_G_T, G_to_T, ok_G_Y, G_to_Y, ok_G_Z, G_to_Z, ok_H_A, H_to_A, ok_H_B, H_to_B, ok_H_G, H_to_G, ok_H_H, H_to_H, ok_H_S, H_to_S, ok_H_T, H_to_T, ok_H_Y, H_to_Y, ok_H_Z, H_to_Z, ok_S_A, S_to_A, ok_S_B, S_to_B, ok_S_G, S_to_G, ok_S_H, S_to_H, ok_S_S, S_to_S, ok_S_T, S_to_T, ok_S_Y, S_to_Y, ok_S_Z, S_to_Z, ok_T_A, T_to_A, ok_T_B, T_to_B, ok_T_G, T_to_G, ok_T_H, T_to_H, ok_T_S, T_to_S, ok_T_T, T_to_T, ok_T_Y, T_to_Y, ok_T_Z, T_to_Z, ok_Y_A, Y_to_A, ok_Y_B, Y_to_B, ok_Y_G, Y_to_G, ok_Y_H, Y_to_H, ok_Y_S, Y_to_S, ok_Y_T, Y_to_T, ok_Y_Y, Y_to_Y, ok_Y_Z, Y_to_Z, ok_Z_A, Z_to_A, ok_Z_B, Z_to_B, ok_Z_G, Z_to_G, ok_Z_H, Z_to_H, ok_Z_S, Z_to_S, ok_Z_T, Z_to_T, ok_Z_Y, Z_to_Y, ok_Z_Z, Z_to_Z, M2.inv, M2.det, M2.sdiv]

example : ok_Y_Y sample 7 := trivial

example : ok_Y_Z sample 7 := by
  simp only [ok_Y_Z, sample]; norm_num [ok_A_A, A_to_A, ok_A_B, A_to_B, ok_A_G, A_to_G, ok_A_H, A_to_H, ok_A_S, A_to_S, ok_A_T, A_to_T, ok_A_Y, A_to_Y, ok_A_Z, A_to_Z, ok_B_A, B_to_A, ok_B_B, B_to_B, ok_B_G, B_to_G, ok_B_H, B_to_H, ok_B_S, B_to_S, ok_B_T, B_to_T, ok_B_Y, B_to_Y, ok_B_Z, B_to_Z, ok_G_A, G_to_A, ok_G_B, G_to_B, ok_G_G, G_to_G, ok_G_H, G_to_H, ok_G_S, G_to_S, ok_G_T, G_to_T, ok_G_Y, G_to_Y, ok_G_Z, G_to_Z, ok_H_A, H_to_A, ok_H_B, H_to_B, ok_H_G, H_to_G, ok_H_H, H_to_H, ok_H_S, H_to_S, ok_H_T, H_to_T, ok_H_Y, H_to_Y, ok_H_Z, H_to_Z, ok_S_A, S_to_A, ok_S_B, S_to_B, ok_S_G, S_to_G, ok_S_H, S_to_H, ok_S_S, S_to_S, ok_S_T, S_to_T, ok_S_Y, S_to_Y, ok_S_Z, S_to_Z, ok_T_A, T_to_A, ok_T_B, T_to_B, ok_T_G, T_to_G, ok_T_H, T_to_H, ok_T_S, T_to_S, ok_T_T, T_to_T, ok_T_Y, T_to_Y, ok_T_Z, T_to_Z, ok_Y_A, Y_to_A, ok_Y_B, Y_to_B, ok_Y_G, Y_to_G, ok_Y_H, Y_to_H, ok_Y_S, Y_to_S, ok_Y_T, Y_to_T, ok_Y_Y, Y_to_Y, ok_Y_Z, Y_to_Z, ok_Z_A, Z_to_A, ok_Z_B, Z_to_B, ok_Z_G, Z_to_G, ok_Z_H, Z_to_H, ok_Z_S, Z_to_S, ok_Z_T, Z_to_T, ok_Z_Y, Z_to_Y, ok_Z_Z, Z_to_Z, M2.inv, M2.det, M2.sdiv]

example : ok_Z_A sample 7 := by
  simp only [ok_Z_A, sample]; norm_num [ok_A_A, A_to_A, ok_A_B, A_to_B, ok_A_G, A_to_G, ok_A_H, A_to_H, ok_A_S, A_to_S, ok_A_T, A_to_T, ok_A_Y, A_to_Y, ok_A_Z, A_to_Z, ok_B_A, B_to_A, ok_B_B, B_to_B, ok_B_G, B_to_G, ok_B_H, B_to_H, ok_B_S, B_to_S, ok_B_T, B_to_T, ok_B_Y, B_to_Y, ok_B_Z, B_to_Z, ok_G_A, G_to_A, ok_G_B, G_to_B, ok_G_G, G_to_G, ok_G_H, G_to_H, ok_G_S, G_to_S, ok_G_T, G_to_T, ok_G_Y, G_to_Y, ok_G_Z, G_to_Z, ok_H_A, H_to_A, ok_H_B, H_to_B, ok_H_G, H_to_G, ok_H_H, H_to_H, ok_H_S, H_to_S, ok_H_T, H_to_T, ok_H_Y, H_to_Y, ok_H_Z, H_to_Z, ok_S_A, S_to_A, ok_S_B, S_to_B, ok_S_G, S_to_G, ok_S_H, S_to_H, ok_S_S, S_to_S, ok_S_T, S_to_T, ok_S_Y, S_to_Y, ok_S_Z, S_to_Z, ok_T_A, T_to_A, ok_T_B, T_to_B, ok_T_G, T_to_G, ok_T_H, T_to_H, ok_T_S, T_to_S, ok_T_T, T_to_T, ok_T_Y, T_to_Y, ok_T_Z, T_to_Z, ok_Y_A, Y_to_A, ok_Y_B, Y_to_B, ok_Y_G, Y_to_G, ok_Y_H, Y_to_H, ok_Y_S, Y_to_S, ok_Y_T, Y_to_T, ok_Y_Y, Y_to_Y, ok_Y_Z, Y_to_Z, ok_Z_A, Z_to_A, ok_Z_B, Z_to_B, ok_Z_G, Z_to_G, ok_Z_H, Z_to_H, ok_Z_S, Z_to_S, ok_Z_T, Z_to_T, ok_Z_Y, Z_to_Y, ok_Z_Z, Z_to_Z, M2.inv, M2.det, M2.sdiv]

example : ok_Z_B sample 7 := by
  simp only [ok_Z_B, sample]; norm_num [ok_A_A, A_to_A, ok_A_B, A_to_B, ok_A_G, A_to_G, ok_A_H, A_to_H, ok_A_S, A_to_S, ok_A_T, A_to_T, ok_A_Y, A_to_Y, ok_A_Z, A_to_Z, ok_B_A, B_to_A, ok_B_B, B_to_B, ok_B_G, B_to_G, ok_B_H, B_to_H, ok_B_S, B_to_S, ok_B_T, B_to_T, ok_B_Y, B_to_Y, ok_B_Z, B_to_Z, ok_G_A, G_to_A, ok_G_B, G_to_B, ok_G_G, G_to_G, ok_G_H, G_to_H, ok_G_S, G_to_S, ok_G_T, G_to_T, ok_G_Y, G_to_Y, ok_G_Z, G_to_Z, ok_H_A, H_to_A, ok_H_B, H_to_B, ok_H_G, H_to_G, ok_H_H, H_to_H, ok_H_S, H_to_S, ok_H_T, H_to_T, ok_H_Y, H_to_Y, ok_H_Z, H_to_Z, ok_S_A, S_to_A, ok_S_B, S_to_B, ok_S_G, S_to_G, ok_S_H, S_to_H, ok_S_S, S_to_S, ok_S_T, S_to_T, ok_S_Y, S_to_Y, ok_S_Z, S_to_Z, ok_T_A, T_to_A, ok_T_B, T_to_B, ok_T_G, T_to_G, ok_T_H, T_to_H, ok_T_S, T_to_S, ok_T_T, T_to_T, ok_T_Y, T_to_Y, ok_T_Z, T_to_Z, ok_Y_A, Y_to_A, ok_Y_B, Y_to_B, ok_Y_G, Y_to_G, ok_Y_H, Y_to_H, ok_Y_S, Y_to_S, ok_Y_T, Y_to_T, ok_Y_Y, Y_to_Y, ok_Y_Z, Y_to_Z, ok_Z_A, Z_to_A, ok_Z_B, Z_to_B, ok_Z_G, Z_to_G, ok_Z_H, Z_to_H, ok_Z_S, Z_to_S, ok_Z_T, Z_to_T, ok_Z_Y, Z_to_Y, ok_Z_Z, Z_to_Z, M2.inv, M2.det, M2.sdiv]

example : ok_Z_G sample 7 := by
  simp only [ok_Z_G, sample]; norm_num [ok_A_A, A_to_A, ok_A_B, A_to_B, ok_A_G, A_to_G, ok_A_H, A_to_H, ok_A_S, A_to_S, ok_A_T, A_to_T, ok_A_Y, A_to_Y, ok_A_Z, A_to_Z, ok_B_A, B_to_A, ok_B_B, B_to_B, ok_B_G, B_to_G, ok_B_H, B_to_H, ok_B_S, B_to_S, ok_B_T, B_to_T, ok_B_Y, B_to_Y, ok_B_Z, B_to_Z, ok_G_A, G_to_A, ok_G_B, G_to_B, ok_G_G, G_to_G, ok_G_H, G_to_H, ok_G_S, G_to_S, ok_G_T, G_to_T, ok_G_Y, G_to_Y, ok_G_Z, G_to_Z, ok_H_A, H_to_A, ok_H_B, H_to_B, ok_H_G, H_to_G, ok_H_H, H_to_H, ok_H_S, H_to_S, ok_H_T, H_to_T, ok_H_Y, H_to_Y, ok_H_Z, H_to_Z, ok_S_A, S_to_A, ok_S_B, S_to_B, ok_S_G, S_to_G, ok_S_H, S_to_H, ok_S_S, S_to_S, ok_S_T, S_to_T, ok_S_Y, S_to_Y, ok_S_Z, S_to_Z, ok_T_A, T_to_A, ok_T_B, T_to_B, ok_T_G, T_to_G, ok_T_H, T_to_H, ok_T_S, T_to_S, ok_T_T, T_to_T, ok_T_Y, T_to_Y, ok_T_Z, T_to_Z, ok_Y_A, Y_to_A, ok_Y_B, Y_to_B, ok_Y_G, Y_to_G, ok_Y_H, Y_to_H, ok_Y_S, Y_to_S, ok_Y_T, Y_to_T, ok_Y_Y, Y_to_Y, ok_Y_Z, Y_to_Z, ok_Z_A, Z_to_A, ok_Z_B, Z_to_B, ok_Z_G, Z_to_G, ok_Z_H, Z_to_H, ok_Z_S, Z_to_S, ok_Z_T, Z_to_T, ok_Z_Y, Z_to_Y, ok_Z_Z, Z_to_Z, M2.inv, M2.det, M2.sdiv]

example : ok_Z_H sample 7 := by
  simp only [ok_Z_H, sample]; norm_num [ok_A_A, A_to_A, ok_A_B, A_to_B, ok_A_G, A_to_G, ok_A_H, A_to_H, ok_A_S, A_to_S, ok_A_T, A_to_T, ok_A_Y, A_to_Y, ok_A_Z, A_to_Z, ok_B_A, B_to_A, ok_B_B, B_to_B, ok_B_G, B_to_G, ok_B_H, B_to_H, ok_B_S, B_to_S, ok_B_T, B_to_T, ok_B_Y, B_to_Y, ok_B_Z, B_to_Z, ok_G_A, G_to_A, ok_G_B, G_to_B, ok_G_G, G_to_G, ok_G_H, G_to_H, ok_G_S, G_to_S, ok_G_T, G_to_T, ok_G_Y, G_to_Y, ok_G_Z, G_to_Z, ok_H_A, H_to_A, ok_H_B, H_to_B, ok_H_G, H_to_G, ok_H_H, H_to_H, ok_H_S, H_to_S, ok_H_T, H_to_T, ok_H_Y, H_to_Y, ok_H_Z, H_to_Z, ok_S_A, S_to_A, ok_S_B, S_to_B, ok_S_G, S_to_G, ok_S_H, S_to_H, ok_S_S, S_to_S, ok_S_T, S_to_T, ok_S_Y, S_to_Y, ok_S_Z, S_to_Z, ok_T_A, T_to_A, ok_T_B, T_to_B, ok_T_G, T_to_G, ok_T_H, T_to_H, ok_T_S, T_to_S, ok_T_T, T_to_T, ok_T_Y, T_to_Y, ok_T_Z, T_to_Z, ok_Y_A, Y_to_A, ok_Y_B, Y_to_B, ok_Y_G, Y_to_G, ok_Y_H, Y_to_H, ok_Y_S, Y_to_S, ok_Y_T, Y_to_T, ok_Y_Y, Y_to_Y, ok_Y_Z, Y_to_Z, ok_Z_A, Z_to_A, ok_Z_B, Z_to_B, ok_Z_G, Z_to_G, ok_Z_H, Z_to_H, ok_Z_S, Z_to_S, ok_Z_T, Z_to_T, ok_Z_Y, Z_to_Y, ok_Z_Z, Z_to_Z, M2.inv, M2.det, M2.sdiv]

example : ok_Z_S sample 7 := by
  simp only [ok_Z_S, sample]; norm_num [ok_A_A, A_to_A, ok_A_B, A_to_B, ok_A_G, A_to_G, ok_A_H, A_to_H, ok_A_S, A_to_S, ok_A_T, A_to_T, ok_A_Y, A_to_Y, ok_A_Z, A_to_Z, ok_B_A, B_to_A, ok_B_B, B_to_B, ok_B_G, B_to_G, ok_B_H, B_to_H, ok_B_S, B_to_S, ok_B_T, B_to_T, ok_B_Y, B_to_Y, ok_B_Z, B_to_Z, ok_G_A, G_to_A, ok_G_B, G_to_B, ok_G_G, G_to_G, ok_G_H, G_to_H, ok_G_S, G_to_S, ok_G_T, G_to_T, ok_G_Y, G_to_Y, ok_G_Z, G_to_Z, ok_H_A, H_to_A, ok_H_B, H_to_B, ok_H_G, H_to_G, ok_H_H, H_to_H, ok_H_S, H_to_S, ok_H_T, H_to_T, ok_H_Y, H_to_Y, ok_H_Z, H_to_Z, ok_S_A, S_to_A, ok_S_B, S_to_B, ok_S_G, S_to_G, ok_S_H, S_to_H, ok_S_S, S_to_S, ok_S_T, S_to_T, ok_S_Y, S_to_Y, ok_S_Z, S_to_Z, ok_T_A, T_to_A, ok_T_B, T_to_B, ok_T_G, T_to_G, ok_T_H, T_to_H, ok_T_S, T_to_S, ok_T_T, T_to_T, ok_T_Y, T_to_Y, ok_T_Z, T_to_Z, ok_Y_A, Y_to_A, ok_Y_B, Y_to_B, ok_Y_G, Y_to_G, ok_Y_H, Y_to_H, ok_Y_S, Y_to_S, ok_Y_T, Y_to_T, ok_Y_Y, Y_to_Y, ok_Y_Z, Y_to_Z, ok_Z_A, Z_to_A, ok_Z_B, Z_to_B, ok_Z_G, Z_to_G, ok_Z_H, Z_to_H, ok_Z_S, Z_to_S, ok_Z_T, Z_to_T, ok_Z_Y, Z_to_Y, ok_Z_Z, Z_to_Z, M2.inv, M2.det, M2.sdiv]

example : ok_Z_T sample 7 := by
  simp only [ok_Z_T, sample]; norm_num [ok_A_A, A_to_A, ok_A_B, A_to_B, ok_A_G, A_to_G, ok_A_H, A_to_H, ok_A_S, A_to_S, ok_A_T, A_to_T, ok_A_Y, A_to_Y, ok_A_Z, A_to_Z, ok_B_A, B_to_A, ok_B_B, B_to_B, ok_B_G, B_to_G, ok_B_H, B_to_H, ok_B_S, B_to_S, ok_B_T, B_to_T, ok_B_Y, B_to_Y, ok_B_Z, B_to_Z, ok_G_A, G_to_A, ok_G_B, G_to_B, ok_G_G, G_to_G, ok_G_H, G_to_H, ok_G_S, G_to_S, ok_G_T, G_to_T, ok_G_Y, G_to_Y, ok_G_Z, G_to_Z, ok_H_A, H_to_A, ok_H_B, H_to_B, ok_H_G, H_to_G, ok_H_H, H_to_H, ok_H_S, H_to_S, ok_H_T, H_to_T, ok_H_Y, H_to_Y, ok_H_Z, H_to_Z, ok_S_A, S_to_A, ok_S_B, S_to_B, ok_S_G, S_to_G, ok_S_H, S_to_H, ok_S_S, S_to_S, ok_S_T, S_to_T, ok_S_Y, S_to_Y, ok_S_Z, S_to_Z, ok_T_A, T_to_A, ok_T_B, T_to_B, ok_T_G, T_to_G, ok_T_H, T_to_H, ok_T_S, T_to_S, ok_T_T, T_to_T, ok_T_Y, T_to_Y, ok_T_Z, T_to_Z, ok_Y_A, Y_to_A, ok_Y_B, Y_to_B, ok_Y_G, Y_to_G, ok_Y_H, Y_to_H, ok_Y_S, Y_to_S, ok_Y_T, Y_to_T, ok_Y_Y, Y_to_Y, ok_Y_Z, Y_to_Z, ok_Z_A, Z_to_A, ok_Z_B, Z_to_B, ok_Z_G, Z_to_G, ok_Z_H, Z_to_H, ok_Z_S, Z_to_S, ok_Z_T, Z_to_T, ok_Z_Y, Z_to_Y, ok_Z_Z, Z_to_Z, M2.inv, M2.det, M2.sdiv]

example : ok_Z_Y sample 7 := by
  simp only [ok_Z_Y, sample]; norm_num [ok_A_A, A_to_A, ok_A_B, A_to_B, ok_A_G, A_to_G, ok_A_H, A_to_H, ok_A_S, A_to_S, ok_A_T, A_to_T, ok_A_Y, A_to_Y, ok_A_Z, A_to_Z, ok_B_A, B_to_A, ok_B_B, B_to_B, ok_B_G, B_to_G, ok_B_H, B_to_H, ok_B_S, B_to_S, ok_B_T, B_to_T, ok_B_Y, B_to_Y, ok_B_Z, B_to_Z, ok_G_A, G_to_A, ok_G_B, G_to_B, ok_G_G, G_to_G, ok_G_H, G_to_H, ok_G_S, G_to_S, ok_G_T, G_to_T, ok_G_Y, G_to_Y, ok_G_Z, G_to_Z, ok_H_A, H_to_A, ok_H_B, H_to_B, ok_H_G, H_to_G, ok_H_H, H_to_H, ok_H_S, H_to_S, ok_H_T, H_to_T, ok_H_Y, H_to_Y, ok_H_Z, H_to_Z, ok_S_A, S_to_A, ok_S_B, S_to_B, ok_S_G, S_to_G, ok_S_H, S_to_H, ok_S_S, S_to_S, ok_S_T, S_to_T, ok_S_Y, S_to_Y, ok_S_Z, S_to_Z, ok_T_A, T_to_A, ok_T_B, T_to_B, ok_T_G, T_to_G, ok_T_H, T_to_H, ok_T_S, T_to_S, ok_T_T, T_to_T, ok_T_Y, T_to_Y, ok_T_Z, T_to_Z, ok_Y_A, Y_to_A, ok_Y_B, Y_to_B, ok_Y_G, Y_to_G, ok_Y_H, Y_to_H, ok_Y_S, Y_to_S, ok_Y_T, Y_to_T, ok_Y_Y, Y_to_Y, ok_Y_Z, Y_to_Z, ok_Z_A, Z_to_A, ok_Z_B, Z_to_B, ok_Z_G, Z_to_G, ok_Z_H, Z_to_H, ok_Z_S, Z_to_S, ok_Z_T, Z_to_T, ok_Z_Y, Z_to_Y, ok_Z_Z, Z_to_Z, M2.inv, M2.det, M2.sdiv]

example : ok_Z_Z sample 7 := trivial

end Lcapy.C08
