/-
  AUDIT (auditor B) -- machine-checked non-vacuity witnesses for Props/C14.lean, C14SS.lean, C14Conv.lean, C14Anchor.lean.
  The netlist is `V1 1 0 {3 cos 2t + 4 sin 2t}; R1 1 2 2; C1 2 0 1/4` of Props/C14SS.lean: its sinusoidal steady state is
  proved to satisfy the time-domain laws, hence (steady_state_iff_phasor, mna_iff_laws) its phasors SOLVE the assembled MNA
  system at s = j·2 in ℚ(j) — the `Solves` hypothesis of `phasor_is_transfer` and `same_freq_sum`.
-/
import Lcapy.Props.C14
import Lcapy.Props.C14SS
import Lcapy.Props.C14Conv
import Lcapy.Props.C14Anchor
import Lcapy.Props.C14Imm
namespace Lcapy.NonVacuity.C14
open Lcapy.MNA Lcapy.TDS Lcapy.Cx Lcapy.C14 Lcapy.AC Ix
set_option linter.unusedSimpArgs false
set_option linter.unnecessarySeqFocus false

theorem lawsTD_RC : LawsTD (sinusOps (2 : ℚ)) exRC exRCsol := by
  constructor
  · intro k hk
    match k with
    | 0 => exact absurd rfl hk
    | 1 => simp [exRC, exRCsol, outflowS, twoTermS, sumS, vdS, voltS, sinusOps]; norm_num
    | 2 => simp [exRC, exRCsol, outflowS, twoTermS, sumS, vdS, voltS, sinusOps]; norm_num
    | (k + 3) => simp [exRC, outflowS, twoTermS, sumS, sinusOps]
  · intro c hc p hp
    simp only [exRC, List.mem_cons, List.mem_nil_iff, or_false] at hc
    rcases hc with rfl | rfl | rfl <;>
      simp [lawsS] at hp <;> (try subst hp) <;> simp [vdS, voltS, exRCsol, sinusOps]

/-- the phasor-domain netlist: V1 has the phasor 3 − 4j -/
def phRC : List (Cpt (Cx ℚ)) := exRC.map phasorCpt
theorem wf_phRC : C01.WF phRC := by simp [C01.WF, phRC, exRC, phasorCpt, owned, embed]

/-- `steady_state_iff_phasor`, `phasor_solution_is_steady_state`, `mna_phasor_is_steady_state` applied -/
theorem laws_phRC : Laws .lap (jw (2 : ℚ)) phRC (fun i => toPh (exRCsol i)) :=
  (steady_state_iff_phasor 2 exRC exRCsol).mp lawsTD_RC
theorem solves_phRC : Solves .lap (jw (2 : ℚ)) phRC (fun i => toPh (exRCsol i)) :=
  (mna_phasor_is_steady_state 2 exRC (fun i => toPh (exRCsol i)) wf_phRC).mpr (by simpa using lawsTD_RC)
example : (fun i => toPh (exRCsol i)) (node 2) = (⟨-1/2, -7/2⟩ : Cx ℚ) := by simp [exRCsol, toPh]; norm_num

/-- `phasor_is_transfer` applied in ℚ(j) with j = jw 1 (j² = −1), ω = 2, P = 2 + j -/
theorem nv_phasor_is_transfer :
    Solves .lap (jw 1 * ofReal (2 : ℚ)) (phRC.map (Cpt.mapSrc (fun v => (⟨2, 1⟩ : Cx ℚ) * v)))
      (fun i => (⟨2, 1⟩ : Cx ℚ) * toPh (exRCsol i)) :=
  phasor_is_transfer (jw 1) (ofReal 2) ⟨2, 1⟩ phRC _ (by rw [← jw_eq]; exact solves_phRC)

/-- `same_freq_sum`: the original source and the source scaled by P = 2 + j (same shape, different phasor) -/
theorem sameShape_phRC : List.Forall₂ SameShape phRC (phRC.map (Cpt.mapSrc (fun v => (⟨2, 1⟩ : Cx ℚ) * v))) := by
  simp only [phRC, exRC, List.map_cons, List.map_nil, phasorCpt, embed]
  exact List.Forall₂.cons rfl (List.Forall₂.cons rfl (List.Forall₂.cons rfl List.Forall₂.nil))
example := same_freq_sum (jw 1) (ofReal (2 : ℚ)) phRC _ _ _ sameShape_phRC (by rw [← jw_eq]; exact solves_phRC)
  nv_phasor_is_transfer

/-! ### C14SS, remaining hypotheses -/
example := other_frequency_source_killed (3 : ℚ) 1 0 0 0 (fun w => if w = 2 then ⟨3, 4⟩ else ⟨0, 0⟩) (by simp)
/-- `dc_iff_const` / `ac_at_zero_is_dc` have no hypotheses; a DC netlist that satisfies the laws: V1 1 0 6; R1 1 0 2 -/
example : Laws .dc (0 : ℚ) [.V 1 0 0 6, .R 1 0 2] (fun i => if i = node 1 then 6 else if i = br 0 then -3 else 0) := by
  constructor
  · intro k hk
    match k with
    | 0 => exact absurd rfl hk
    | 1 => simp [outflow, lsum, vd, volt, twoTerm]; norm_num
    | (k + 2) => simp [outflow, lsum, twoTerm]
  · intro c hc p hp
    simp only [List.mem_cons, List.mem_nil_iff, or_false] at hc
    rcases hc with rfl | rfl <;> simp [laws] at hp <;> (try subst hp) <;> simp [vd, volt]

/-! ### C14Conv -/
example := term_phasor_sound "sin" (5 : ℚ) (3 / 5) (4 / 5) _ (by simp [termSinus]; rfl)
example := term_phasor_sound "cos" (5 : ℚ) (3 / 5) (4 / 5) _ (by simp [termSinus]; rfl)
example := mag_polar (5 : ℚ) (3 / 5) (4 / 5) (by norm_num)
/-- `rms_sound` needs square roots: in ℝ with P = 3 + 4j, |P| = 5 -/
example := rms_sound (⟨3, 4⟩ : Cx ℝ) 5 (Real.sqrt 2) (Real.mul_self_sqrt (by norm_num)) (by norm_num [magSq]) two_ne_zero

/-! ### C14Anchor -/
example := formal_eq_is_pointwise 2 (by norm_num) ⟨0, 0⟩ (by intro t; simp [Sinus.fn, Sinus.at])

end Lcapy.NonVacuity.C14
