/-
  PROPERTY C14, clause "component impedances used in AC analysis are the s-domain impedances at s = jω":
  for EVERY one-port tree (series / parallel combinations of any depth and width of R, G, L, C, Y, Z, sources, CPE,
  crystal and ferrite-bead models) the phasor-domain impedance and admittance computed the textbook way
  (Model/ACImmittance.lean) equal the Laplace-domain impedance and admittance of C07's model (Model/OnePort.lean,
  mirror of lcapy/oneport.py) evaluated at the point s = jω of `Cx K`.  Structural induction over the tree.
-/
import Lcapy.Model.ACImmittance
import Lcapy.Proofs.Cx
namespace Lcapy.C14
open Lcapy.OnePort Lcapy.Cx
variable {K : Type} [Field K]
set_option linter.unusedSimpArgs false

/-- **impedance_at_jw_leaf**: jωL, 1/(jωC) = −j/(ωC), … are the s-domain leaf impedances at s = jω -/
theorem leaf_imp_at_jw (w : K) (l : Leaf K) : l.acImp w = l.toCx.imp (jw w) := by
  cases l with
  | R r => rfl
  | G g => simp [Leaf.acImp, Leaf.toCx, Leaf.imp, ofReal, inv_rx]
  | L l i0 => simp [Leaf.acImp, Leaf.toCx, Leaf.imp, jw_mul_ofReal]
  | C c v0 => simp only [Leaf.acImp, Leaf.toCx, Leaf.imp, jw_mul_ofReal, inv_jx]
  | Y y => simp [Leaf.acImp, Leaf.toCx, Leaf.imp, ofReal, inv_rx]
  | Z z => rfl
  | V k e => rfl
  | I k j => rfl
  | CPE k a => rfl
  | Xtal c0 r1 l1 c1 =>
    simp only [Leaf.acImp, Leaf.toCx, Leaf.imp, serRLC, jw_mul_ofReal, inv_inv_jx]
    rw [inv_jx, serRLC_at_jw]
  | FB rs rp cp lp =>
    simp only [Leaf.acImp, Leaf.toCx, Leaf.imp, parRLC, jw_mul_ofReal]
    rw [inv_inv_jx, inv_jx]
    congr 2
    ext <;> simp [ofReal, normSq, x_div_sq]
    ring

theorem leaf_adm_at_jw (w : K) (l : Leaf K) : l.acAdm w = l.toCx.adm (jw w) := by
  cases l <;> simp only [Leaf.acAdm, Leaf.adm, Leaf.toCx, ← leaf_imp_at_jw] <;> first | rfl | skip
  all_goals simp only [Leaf.toCx, leaf_imp_at_jw]

mutual
/-- **net_imp_at_jw**: the phasor-domain impedance of every one-port tree is its Laplace-domain impedance at s = jω -/
theorem net_imp_at_jw (w : K) : (n : Net K) → n.acImp w = n.toCx.imp (jw w)
  | .leaf l => by simp only [Net.acImp, Net.toCx, Net.imp, leaf_imp_at_jw]
  | .ser as => by simp only [Net.acImp, Net.toCx, Net.imp, sumZ_at_jw]
  | .par as => by simp only [Net.acImp, Net.toCx, Net.imp, sumY_at_jw]
/-- **net_adm_at_jw**: and likewise the admittance -/
theorem net_adm_at_jw (w : K) : (n : Net K) → n.acAdm w = n.toCx.adm (jw w)
  | .leaf l => by simp only [Net.acAdm, Net.toCx, Net.adm, leaf_adm_at_jw]
  | .ser as => by simp only [Net.acAdm, Net.toCx, Net.adm, sumZ_at_jw]
  | .par as => by simp only [Net.acAdm, Net.toCx, Net.adm, sumY_at_jw]
theorem sumZ_at_jw (w : K) : (as : List (Net K)) → acSumZ w as = sumZ (jw w) (listToCx as)
  | [] => rfl
  | a :: t => by simp only [acSumZ, listToCx, sumZ, net_imp_at_jw w a, sumZ_at_jw w t]
theorem sumY_at_jw (w : K) : (as : List (Net K)) → acSumY w as = sumY (jw w) (listToCx as)
  | [] => rfl
  | a :: t => by simp only [acSumY, listToCx, sumY, net_adm_at_jw w a, sumY_at_jw w t]
end

/-- the familiar special cases, spelled out -/
theorem rlc_at_jw (w r l c : K) :
    (Net.ser [.leaf (.R r), .leaf (.L l none), .leaf (.C c none)]).acImp w = ⟨r, w * l - 1 / (w * c)⟩ := by
  simp only [Net.acImp, acSumZ, Leaf.acImp]
  ext <;> simp
  ring

/-- non-vacuity: R = 2 in series with C = 3, in parallel with L = 5, at ω = 3 (cf. the Lcapy session in the harness) -/
example : (Net.par [.ser [.leaf (.R (2 : ℚ)), .leaf (.C 3 none)], .leaf (.L 5 none)]).acImp 3 = ⟨3645 / 1828, 285 / 1828⟩ := by
  simp only [Net.acImp, acSumY, acSumZ, Net.acAdm, Leaf.acImp, Leaf.acAdm]
  ext <;> simp only [div_re, div_im, add_re, add_im, zero_re, zero_im, one_re, one_im, normSq] <;> norm_num

end Lcapy.C14
