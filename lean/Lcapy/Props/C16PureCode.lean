/-
  C16 -- read-only members at the generated tables.  Builds iff no public member of the netlist classes other than the
  declared mutators (`add`, `remove`, `netfile_add`) and the members that may add a ground wire (`groundAdders`, see
  below) writes instance state other than memo slots -- `self.x = ...`, `del self.x`, `self.x[...] = ...`,
  `self.x.append(...)` ... reached through `self.<member>` chains (tx_caches `memberWrites`, one row per public member).
  This is the code-side fact behind `query_pure` / `derive_pure` of Props/C16Pure.lean, which by themselves only say that
  the MODEL's query step does not touch elements and node tables.
  While it does not build, the oracle must exhibit the member that changes the circuit (key `instance-attribute-changed`).

  PARTIAL: members reaching `_add_ground` (get_Vd, get_I, thevenin, Voc, oneport, ...) are excluded: on a circuit WITHOUT a
  node 0 they add `W <node> 0` to the netlist (with a warning); the harness asks them on grounded circuits only.
-/
import Lcapy.Props.C16Tables
namespace Lcapy.C16
open Lcapy.Cache Lcapy.Gen.Caches

theorem read_only_members_write_only_memo_state_partial :
    ∀ p ∈ memberWrites, p.2 = [] ∨ p.1 ∈ groundAdders ∨ p.1 ∈ publicMutators := by decide +kernel

/-- CURRENT CODE: a query leaves elements and node tables alone in the model AND no public read-only member writes
    other instance state in the code, AND no helper mutates a cached object it was handed -/
theorem query_pure_current (w : World) (i : Nat) (q : String) (hq : q ∈ publicMembers) (hm : q ∉ publicMutators) (hg : q ∉ groundAdders) :
    (step config w (.query i q)).1.abs = w.abs ∧ memberWrites.lookup q = some [] ∧ config.damagedBy q = [] := by
  refine ⟨query_pure config w i q, ?_, by simp [Config.damagedBy, no_query_damages_cache]⟩
  have h1 := (every_public_member_has_rows q hq).2
  cases hl : memberWrites.lookup q with
  | none => simp [hl] at h1
  | some ws =>
    have hmem : (q, ws) ∈ memberWrites := lookup_mem _ _ _ hl
    rcases read_only_members_write_only_memo_state_partial (q, ws) hmem with h | h | h
    · simp at h; rw [h]
    · exact absurd h hg
    · exact absurd h hm

end Lcapy.C16
