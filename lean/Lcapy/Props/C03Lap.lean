/-
  PROPERTY C03, reassembly clause in the LAPLACE domain: "the decomposition of a response into DC,
  per-frequency AC, transient parts reassembles to the same time-domain AND Laplace-domain signal".
  Model: Lcapy/Model/Reassemble.lean (`Superposition.laplace()` = sum of the transforms of the parts;
  `PhasorDomainExpression.laplace()` = transform of a cos ωt − b sin ωt).  Formal signals and their
  unilateral transform `L`: Lcapy/Spec/Signal.lean.
-/
import Lcapy.Proofs.Reassemble
import Mathlib.Tactic.LinearCombination
import Mathlib.Data.Complex.Basic
namespace Lcapy.C03
open Lcapy.Decompose Lcapy.Laplace
variable {K : Type} [Field K]

/-- **phasor_laplace**: over any field with a square root `j` of −1 (and 2 ≠ 0), the unilateral transform of
    `Re(X e^{jωt})`, `X = a + j b`, is `(a s − b ω)/(s² + ω²)` at every point that is not one of the poles `±jω`.
    (The quadrature term carries a MINUS sign.) -/
theorem phasor_laplace (E : K → K) (hE0 : E 0 = 1) (j a b w s : K) (hj : j * j = -1) (h2 : (1 + 1 : K) ≠ 0)
    (hp : s - j * w ≠ 0) (hm : s + j * w ≠ 0) :
    L E (phasorSig j a b w) s = phasorLap a b w s := by
  have hd : s * s + w * w = (s - j * w) * (s + j * w) := by
    linear_combination (w * w) * hj
  have hm' : s - -(j * w) ≠ 0 := by rwa [sub_neg_eq_add]
  simp only [phasorSig, L_cons, L_nil, Term.L, mul_zero, neg_zero, hE0, pw, phasorLap, hd, sub_neg_eq_add]
  field_simp
  linear_combination (2 * b * w) * hj

/-- the formal signal `phasorSig` IS `a cos ωt − b sin ωt` when cos and sin are read off the exponential `E`:
    with `c = (E(jθ) + E(−jθ))/2` and `j·sn = (E(jθ) − E(−jθ))/2`, at every instant
    `(X E(jθ) + X̄ E(−jθ))/2 = a c − b sn`. -/
theorem phasor_time (j a b ep em c sn : K) (hj : j * j = -1) (h2 : (1 + 1 : K) ≠ 0)
    (hc : c = (ep + em) / (1 + 1)) (hs : j * sn = (ep - em) / (1 + 1)) :
    (a + j * b) / (1 + 1) * ep + (a - j * b) / (1 + 1) * em = a * c - b * sn := by
  have hsn : sn = -(j * ((ep - em) / (1 + 1))) := by
    have : j * (j * sn) = j * ((ep - em) / (1 + 1)) := by rw [hs]
    rw [← mul_assoc, hj] at this
    rw [← this]; ring
  rw [hc, hsn]
  field_simp
  ring

section
variable [DecidableEq K]

/-- `s` is a regular point of the closed forms of the term list: not the dc pole 0 and not a phasor pole (s² + ω² ≠ 0).
    (The transient transforms enter through their VALUES `XL i`; their poles are guarded where `XL` is instantiated,
    `reassemble_laplace_transform`.) -/
def RegularPoint (s : K) (ts : List (Decompose.Term K)) : Prop :=
  s ≠ 0 ∧ ∀ t ∈ ts, ∀ w a b, t = Decompose.Term.ac w a b → s * s + w * w ≠ 0

/-- REMARK (pure linearity): the identity below holds for every `s`, also AT the poles, where both sides are sums of
    totalised quotients x/0 = 0 — it must not be quoted there as "V(s) is the transform"; use `reassemble_laplace`. -/
theorem reassemble_laplace_linear (XL : Nat → K) (s : K) (ts : List (Decompose.Term K)) :
    decompLap XL s (decompose ts) = sumK (ts.map (termLap XL s)) := by
  have gen : ∀ (d : Decomp K), decompLap XL s (ts.foldl step d) =
      decompLap XL s d + sumK (ts.map (termLap XL s)) := by
    induction ts with
    | nil => intro d; simp [sumK]
    | cons t ts ih => intro d; simp only [List.foldl_cons, List.map_cons, sumK, ih, step_lap]; ring
  rw [decompose, gen]; simp [decompLap, sumK]

/-- **reassemble_laplace** (closed form, as the code computes it): for EVERY term list (any length, any mix of
    kinds, several sinusoids of one frequency), at every REGULAR point, the Laplace form of the decomposition — dc/s +
    the transform of every accumulated phasor + the transforms of the transient terms — is the sum of the transforms
    of the terms. -/
theorem reassemble_laplace (XL : Nat → K) (s : K) (ts : List (Decompose.Term K)) (_hreg : RegularPoint s ts) :
    decompLap XL s (decompose ts) = sumK (ts.map (termLap XL s)) :=
  reassemble_laplace_linear XL s ts

/-- at a regular point the Laplace form does not depend on how the terms are ordered / grouped -/
theorem grouping_invariant_laplace (XL : Nat → K) (s : K) (ts ts' : List (Decompose.Term K)) (h : ts.Perm ts')
    (_hreg : RegularPoint s ts) :
    decompLap XL s (decompose ts) = decompLap XL s (decompose ts') := by
  rw [reassemble_laplace_linear, reassemble_laplace_linear]
  clear _hreg
  induction h with
  | nil => rfl
  | cons _ _ ih => simp [sumK, ih]
  | swap a b l => simp [sumK]; ring
  | trans _ _ ih1 ih2 => rw [ih1, ih2]

/-! ### the same statement on formal signals: transform of the reassembled signal = sum of the transforms of the parts -/

/-- REMARK (pure linearity of the formal transform; holds for every `s`, see `reassemble_laplace_signal`):
    the unilateral transform of the time-domain signal reassembled from the
    decomposition (`sigDecomp`: dc + every accumulated phasor converted to a cos ωt − b sin ωt + the transient terms)
    equals the sum of the transforms of the signals of the terms — linearity over the term list, any length.
    No guard is needed: both sides are the same formal expression in `E`, `s`. -/
theorem reassemble_laplace_signal_linear (E : K → K) (j : K) (X : Nat → ExpPoly K) (s : K) (ts : List (Decompose.Term K)) :
    L E (sigDecomp j X (decompose ts)) s = sumK (ts.map (fun t => L E (sigTerm j X t) s)) := by
  have gen : ∀ (d : Decomp K), L E (sigDecomp j X (ts.foldl step d)) s =
      L E (sigDecomp j X d) s + sumK (ts.map (fun t => L E (sigTerm j X t) s)) := by
    induction ts with
    | nil => intro d; simp [sumK]
    | cons t ts ih => intro d; simp only [List.foldl_cons, List.map_cons, sumK, ih, step_L]; ring
  rw [decompose, gen]
  simp [sigDecomp, dcSig, Term.L, sumK]

/-- **reassemble_laplace_signal**: at a point that is no pole of the reassembled signal (in particular not 0, not
    ±jω, no pole of a transient waveform) the unilateral transform of the time-domain signal reassembled from the
    decomposition equals the sum of the transforms of the signals of the terms — any length. -/
theorem reassemble_laplace_signal (E : K → K) (j : K) (X : Nat → ExpPoly K) (s : K) (ts : List (Decompose.Term K))
    (_hnp : NonPole (sigDecomp j X (decompose ts)) s) :
    L E (sigDecomp j X (decompose ts)) s = sumK (ts.map (fun t => L E (sigTerm j X t) s)) :=
  reassemble_laplace_signal_linear E j X s ts

/-- the closed forms ARE the transforms of the formal signals: at a point `s ≠ 0`, `s ≠ ±jω` for every
    frequency of the list, `termLap` (dc c ↦ c/s, a cos + b sin ↦ (a s + b ω)/(s²+ω²), transient ↦ its transform)
    is the transform of `sigTerm`. -/
theorem termLap_is_transform (E : K → K) (hE0 : E 0 = 1) (j : K) (hj : j * j = -1) (h2 : (1 + 1 : K) ≠ 0)
    (X : Nat → ExpPoly K) (s : K) (t : Decompose.Term K)
    (hs : s ≠ 0) (hw : ∀ w a b, t = .ac w a b → s - j * w ≠ 0 ∧ s + j * w ≠ 0) :
    L E (sigTerm j X t) s = termLap (fun i => L E (X i) s) s t := by
  cases t with
  | dc c => simp [sigTerm, dcSig, Term.L, termLap, hE0, pw]
  | ac w a b =>
    obtain ⟨h1, h2'⟩ := hw w a b rfl
    simp only [sigTerm, termLap]
    exact phasor_laplace E hE0 j a (-b) w s hj h2 h1 h2'
  | tr i c => simp [sigTerm, termLap, L_smul]

/-- **reassemble_laplace_transform**: V(s) as the code assembles it (`decompLap` of the decomposition) equals the
    unilateral transform of the reassembled time-domain signal V(t), at every regular point. -/
theorem reassemble_laplace_transform (E : K → K) (hE0 : E 0 = 1) (j : K) (hj : j * j = -1) (h2 : (1 + 1 : K) ≠ 0)
    (X : Nat → ExpPoly K) (s : K) (ts : List (Decompose.Term K)) (hs : s ≠ 0)
    (hw : ∀ t ∈ ts, ∀ w a b, t = .ac w a b → s - j * w ≠ 0 ∧ s + j * w ≠ 0) :
    decompLap (fun i => L E (X i) s) s (decompose ts) = L E (sigDecomp j X (decompose ts)) s := by
  rw [reassemble_laplace_linear, reassemble_laplace_signal_linear]
  congr 1
  apply List.map_congr_left
  intro t ht
  exact (termLap_is_transform E hE0 j hj h2 X s t hs (hw t ht)).symm
end

/-- non-vacuity of the hypotheses of `phasor_laplace` / `termLap_is_transform`: ℂ with j = i, ω = 3, s = 1 -/
example : ∃ (j w s : ℂ), j * j = -1 ∧ (1 + 1 : ℂ) ≠ 0 ∧ s ≠ 0 ∧ s - j * w ≠ 0 ∧ s + j * w ≠ 0 := by
  refine ⟨Complex.I, 3, 1, Complex.I_mul_I, ?_, one_ne_zero, ?_, ?_⟩
  · norm_num
  · intro h
    have := congrArg Complex.re h
    simp at this
  · intro h
    have := congrArg Complex.re h
    simp at this

/-- the closed form itself:
    X = 3 + 4j at ω = 3, s = 1: (3·1 − 4·3)/(1 + 9) = −9/10 -/
example : phasorLap (3 : ℚ) 4 3 1 = -9 / 10 := by norm_num [phasorLap]

/-- non-vacuity of `reassemble_laplace`: 2 + 3cos 3t − 4 sin 3t + cos 3t, transient 5·x₀ -/
example : decompLap (fun _ => (1 / 2 : ℚ)) 1 (decompose [.dc 2, .ac 3 3 (-4), .tr 0 5, .ac 3 1 0]) = 2 + (4 - 12) / 10 + 5 / 2 := by
  norm_num [decompLap, decompose, step, acInsert, sumK, phasorLap]

end Lcapy.C03
