/-
  C17 -- the `limit` fallbacks of `Expr.evaluate`'s inner `func` (lcapy/expr.py) at a zero of a denominator:

      try:    result = func1(arg)
      except ZeroDivisionError:  result = complex(expr.limit(var, arg))        -- scalar call (Python float)
      if np.isnan(result):       result = complex(expr.limit(var, arg))        -- array element, 0/0
      if np.isinf(result):       result = complex(sym.simplify(expr).limit(var, arg))   -- array element, c/0

  Model: Model/EvalLimit.lean (`evalRatfun`), for a rational function p(t)/q(t) over `Rat`.
  All theorems hold for ALL coefficient lists and ALL rational points (no sampling):
    * which branch applies (`fallback_path`),
    * the number a fallback returns is the continuous extension: the value at x of a fraction that coincides with
      p/q at every other point (`fallback_value_is_continuous_extension`),
    * regular points never leave the direct path (`regular_point_direct`),
    * scalar and array evaluation return the same outcome also at the fallback points (`scalar_array_agree_at_fallback`),
    * the special-function table needs no fallback at its removable (sinc-like) points.
-/
import Lcapy.Proofs.EvalLimitBase
import Lcapy.Props.C17

namespace Lcapy.C17
open Lcapy.DT (peval)
open Lcapy.EvalLimit
open Lcapy.Evaluate
open Lcapy.Spec.SpecialFn (Fn spec disc inDomain)

/-! ### synthetic division by (t - a) -/

/-- `divLin` is division with remainder by `(t - a)`, as an identity of functions of t -/
theorem divLin_spec (p : List Rat) (a t : Rat) :
    peval p t = (t - a) * peval (divLin p a).1 t + (divLin p a).2 :=
  divLin_eval p a t

/-- remainder theorem: the remainder is p(a) -/
theorem divLin_rem (p : List Rat) (a : Rat) : (divLin p a).2 = peval p a :=
  divLin_rem_eq p a

/-! ### cancelling the common power of (t - a) does not change the function -/

/-- cross-multiplied form (it holds at t = a too, see `cancelAt_cross`; the hypothesis is kept for the reading
"the same function away from a") -/
theorem cancelAt_value (n : Nat) (p q : List Rat) (a t : Rat) (_ht : t ≠ a) :
    peval p t * peval (cancelAt n p q a).2 t = peval (cancelAt n p q a).1 t * peval q t :=
  cancelAt_cross n p q a t

/-- the cancelled denominator is a factor of q: it cannot vanish where q does not -/
theorem cancelAt_den_nonzero (n : Nat) (p q : List Rat) (a t : Rat) (hq : peval q t ≠ 0) :
    peval (cancelAt n p q a).2 t ≠ 0 :=
  cancelAt_den_ne n p q a t hq

/-- p and q lose the SAME power of (t - a) -/
theorem cancelAt_common_power (n : Nat) (p q : List Rat) (a t : Rat) :
    ∃ k : Nat, peval p t = (t - a) ^ k * peval (cancelAt n p q a).1 t ∧
      peval q t = (t - a) ^ k * peval (cancelAt n p q a).2 t :=
  cancelAt_factor n p q a t

/-- quotient form: p/q and the cancelled fraction p'/q' are the same function wherever p/q is defined -/
theorem cancelAt_value_div (n : Nat) (p q : List Rat) (a t : Rat) (ht : t ≠ a) (hq : peval q t ≠ 0) :
    peval p t / peval q t = peval (cancelAt n p q a).1 t / peval (cancelAt n p q a).2 t := by
  have hq' := cancelAt_den_ne n p q a t hq
  rw [div_eq_div_iff hq hq']
  exact cancelAt_value n p q a t ht

/-! ### which fallback applies -/

/-- **fallback_path**: the direct path exactly at the regular points; at a zero of the denominator a scalar call always
takes the `ZeroDivisionError` limit, an array element takes the `isnan` limit exactly for 0/0 and the `isinf`
(simplify, then limit) branch exactly for c/0 -/
theorem fallback_path (pyFloat : Bool) (p q : List Rat) (x : Rat) :
    ((evalRatfun pyFloat p q x).1 = .direct ↔ peval q x ≠ 0) ∧
    (pyFloat = true → peval q x = 0 → (evalRatfun pyFloat p q x).1 = .zeroDivLimit) ∧
    (pyFloat = false → peval q x = 0 →
      ((evalRatfun pyFloat p q x).1 = .nanLimit ↔ peval p x = 0) ∧
      ((evalRatfun pyFloat p q x).1 = .infSimplifyLimit ↔ peval p x ≠ 0)) := by
  refine ⟨?_, ?_, ?_⟩
  · by_cases hq : peval q x = 0
    · cases pyFloat
      · by_cases hp : peval p x = 0
        · rw [evalRatfun_array_nan p q x hq hp]; simp [hq]
        · rw [evalRatfun_array_inf p q x hq hp]; simp [hq]
      · rw [evalRatfun_scalar_zero p q x hq]; simp [hq]
    · rw [evalRatfun_regular pyFloat p q x hq]; simp [hq]
  · rintro rfl hq
    rw [evalRatfun_scalar_zero p q x hq]
  · rintro rfl hq
    by_cases hp : peval p x = 0
    · rw [evalRatfun_array_nan p q x hq hp]; simp [hp]
    · rw [evalRatfun_array_inf p q x hq hp]; simp [hp]

/-- the four paths are exhaustive and each one is reachable only as described: the path is a function of
(`pyFloat`, q(x) = 0, p(x) = 0) -/
theorem fallback_path_cases (pyFloat : Bool) (p q : List Rat) (x : Rat) :
    (evalRatfun pyFloat p q x).1 =
      if peval q x ≠ 0 then .direct else if pyFloat then .zeroDivLimit
      else if peval p x = 0 then .nanLimit else .infSimplifyLimit := by
  unfold evalRatfun
  split_ifs <;> rfl

/-! ### what a fallback returns -/

/-- **fallback_value_is_continuous_extension**: a number returned at a zero of the denominator is the value AT x of a
fraction p'/q' (q'(x) ≠ 0) that coincides with p/q at every other point where p/q is defined -- the continuous
extension, i.e. exact substitution into the cancelled (simplified) symbolic expression. -/
theorem fallback_value_is_continuous_extension (pyFloat : Bool) (p q : List Rat) (x v : Rat)
    (hq : peval q x = 0) (h : (evalRatfun pyFloat p q x).2 = .val v) :
    ∃ p' q' : List Rat, peval q' x ≠ 0 ∧ v = peval p' x / peval q' x ∧
      ∀ t, t ≠ x → peval q t ≠ 0 → peval p t / peval q t = peval p' t / peval q' t := by
  have hl : limitAt p q x = some v := by
    cases pyFloat
    · by_cases hp : peval p x = 0
      · rw [evalRatfun_array_nan p q x hq hp] at h
        exact (outOfLimit_eq_val _ v).mp h
      · rw [evalRatfun_array_inf p q x hq hp] at h
        cases h
    · rw [evalRatfun_scalar_zero p q x hq] at h
      exact (outOfLimit_eq_val _ v).mp h
  obtain ⟨h1, h2⟩ := (limitAt_eq_some p q x v).mp hl
  exact ⟨(cancelAt q.length p q x).1, (cancelAt q.length p q x).2, h1, h2,
    fun t ht hqt => cancelAt_value_div q.length p q x t ht hqt⟩

/-- a returned number at a zero of the denominator means the singularity was removable: the numerator vanishes too
(on both routes) -/
theorem fallback_value_needs_common_zero (pyFloat : Bool) (p q : List Rat) (x v : Rat)
    (hq : peval q x = 0) (h : (evalRatfun pyFloat p q x).2 = .val v) : peval p x = 0 := by
  by_contra hp
  cases pyFloat
  · rw [evalRatfun_array_inf p q x hq hp] at h
    cases h
  · rw [evalRatfun_scalar_zero p q x hq, limitAt_pole p q x hp hq] at h
    cases h

/-- **regular_point_direct**: where the denominator does not vanish no fallback is entered and the result is p(x)/q(x) -/
theorem regular_point_direct (pyFloat : Bool) (p q : List Rat) (x : Rat) (hq : peval q x ≠ 0) :
    evalRatfun pyFloat p q x = (.direct, .val (peval p x / peval q x)) :=
  evalRatfun_regular pyFloat p q x hq

/-- at a regular point SymPy's limit would have given the same number: the fallbacks extend the direct path -/
theorem regular_point_limit (p q : List Rat) (x : Rat) (hq : peval q x ≠ 0) :
    outOfLimit (limitAt p q x) = .val (peval p x / peval q x) := by
  rw [limitAt_regular p q x hq]
  rfl

/-! ### scalar call versus array element -/

/-- the outcomes (not the paths) of the scalar and of the array route coincide at EVERY point -/
theorem scalar_array_same_outcome (p q : List Rat) (x : Rat) :
    (evalRatfun true p q x).2 = (evalRatfun false p q x).2 := by
  by_cases hq : peval q x = 0
  · by_cases hp : peval p x = 0
    · rw [evalRatfun_scalar_zero p q x hq, evalRatfun_array_nan p q x hq hp]
    · rw [evalRatfun_scalar_zero p q x hq, evalRatfun_array_inf p q x hq hp, limitAt_pole p q x hp hq]
      rfl
  · rw [evalRatfun_regular true p q x hq, evalRatfun_regular false p q x hq]

/-- **scalar_array_agree_at_fallback**: array evaluation agrees element-wise with scalar evaluation also at the fallback
points, although through different branches -/
theorem scalar_array_agree_at_fallback (p q : List Rat) (x v : Rat) :
    (evalRatfun true p q x).2 = .val v ↔ (evalRatfun false p q x).2 = .val v := by
  rw [scalar_array_same_outcome]

/-- ... while the paths differ at every zero of the denominator -/
theorem scalar_array_paths_differ (p q : List Rat) (x : Rat) (hq : peval q x = 0) :
    (evalRatfun true p q x).1 ≠ (evalRatfun false p q x).1 := by
  rw [evalRatfun_scalar_zero p q x hq]
  by_cases hp : peval p x = 0
  · rw [evalRatfun_array_nan p q x hq hp]; simp
  · rw [evalRatfun_array_inf p q x hq hp]; simp

/-! ### the special-function table at its removable (sinc-like 0/0) points: no fallback needed -/

/-- the numeric definitions branch explicitly at 0, and so does exact substitution: both give the limit 1 -/
theorem table_removable_points :
    numericDef .sincn 0 = some 1 ∧ symbolicDef .sincn 0 = some 1 ∧
    numericDef .sincu 0 = some 1 ∧ symbolicDef .sincu 0 = some 1 ∧
    numericDef .sinc 0 = some 1 ∧ symbolicDef .sinc 0 = some 1 := by
  decide +kernel

/-- psinc(M, ·) at EVERY integer n (all of them are 0/0 points of sin(M pi t)/(M sin(pi t))): both paths return the
documented limit, which is a number -/
theorem table_removable_psinc (m n : Int) (hm : 0 < m) :
    numericDef (.psinc (m : Rat)) (n : Rat) = spec (.psinc (m : Rat)) (n : Rat) ∧
    symbolicDef (.psinc (m : Rat)) (n : Rat) = spec (.psinc (m : Rat)) (n : Rat) ∧
    (spec (.psinc (m : Rat)) (n : Rat)).isSome := by
  have hdom : inDomain (.psinc (m : Rat)) = true := by
    simp only [inDomain, Bool.and_eq_true, decide_eq_true_eq, specIsInt_iff]
    exact ⟨Rat.den_intCast m, by exact_mod_cast hm⟩
  obtain ⟨h1, h2⟩ := agree_psinc (m : Rat) (n : Rat) hdom
  refine ⟨h1, h2, ?_⟩
  rw [spec_psinc_int m n hm]
  rfl

/-! ### non-vacuity -/

-- (t² - 1)/(t - 1) at 1: removable, value 2, through different branches
example : evalRatfun true [-1, 0, 1] [-1, 1] 1 = (.zeroDivLimit, .val 2) := by decide +kernel
example : evalRatfun false [-1, 0, 1] [-1, 1] 1 = (.nanLimit, .val 2) := by decide +kernel
-- (t² + 1)/(t - 1) at 1: a pole; the array route goes through simplify + limit, both return inf
example : evalRatfun false [1, 0, 1] [-1, 1] 1 = (.infSimplifyLimit, .other) := by decide +kernel
example : evalRatfun true [1, 0, 1] [-1, 1] 1 = (.zeroDivLimit, .other) := by decide +kernel
-- (t - 1)²/(t - 1)³ at 1: 0/0, but a pole is left after cancelling
example : evalRatfun true [1, -2, 1] [-1, 3, -3, 1] 1 = (.zeroDivLimit, .other) := by decide +kernel
example : evalRatfun false [1, -2, 1] [-1, 3, -3, 1] 1 = (.nanLimit, .other) := by decide +kernel
-- double root: (t - 1)² (t + 2)/(t - 1)² = (2 - 3 t + t³)/(1 - 2 t + t²) at 1 gives 3
example : evalRatfun true [2, -3, 0, 1] [1, -2, 1] 1 = (.zeroDivLimit, .val 3) := by decide +kernel
example : evalRatfun false [2, -3, 0, 1] [1, -2, 1] 1 = (.nanLimit, .val 3) := by decide +kernel
example : cancelAt 3 [2, -3, 0, 1] [1, -2, 1] 1 = ([2, 1, 0, 0], [1, 0, 0]) := by decide +kernel
-- a regular point of the same fraction, and a non-dyadic... rational point
example : evalRatfun true [-1, 0, 1] [-1, 1] 3 = (.direct, .val 4) := by decide +kernel
example : evalRatfun false [-1, 0, 1] [-1, 1] (1/2) = (.direct, .val (3/2)) := by decide +kernel
-- the hypotheses of `fallback_value_is_continuous_extension` are satisfiable, and its conclusion is not trivial
example : peval [-1, 1] (1 : Rat) = 0 ∧ (evalRatfun true [-1, 0, 1] [-1, 1] 1).2 = .val 2 := by decide +kernel
-- synthetic division: t² - 1 = (t - 1)(t + 1) + 0, t² + 1 = (t - 1)(t + 1) + 2
example : divLin [-1, 0, 1] 1 = ([1, 1, 0], 0) ∧ divLin [1, 0, 1] 1 = ([1, 1, 0], 2) := by decide +kernel
-- degenerate denominators: the zero polynomial and the empty list never produce a number
example : evalRatfun true [0, 0] [0, 0] 1 = (.zeroDivLimit, .other) ∧ evalRatfun false [] [] 0 = (.nanLimit, .other) := by
  decide +kernel
-- constant-zero denominator of length 1 (`q.length > 1` guard): nothing cancelled, no number
example : evalRatfun true [0, 1] [0] 0 = (.zeroDivLimit, .other) := by decide +kernel

end Lcapy.C17
