/-
  AUDIT (reviewer, not the owner): machine-checked NON-VACUITY witnesses for Props/C17.lean, C17Sim.lean,
  C17Resp.lean, C17Limit.lean: every theorem with hypotheses is instantiated on a concrete, non-trivial input so
  that all its hypotheses hold together.
-/
import Lcapy.Props.C17
import Lcapy.Props.C17Sim
import Lcapy.Props.C17Resp
import Lcapy.Props.C17Limit
import Mathlib.Tactic
set_option linter.defProp false
set_option linter.unusedVariables false
namespace Lcapy.NonVacuity.C17
open Lcapy.EvalBase Lcapy.Evaluate Lcapy.Gen.SpecialFn Lcapy.C17
open Lcapy.Spec.SpecialFn (Fn spec disc inDomain)

/-! ## Props/C17.lean -/

def nv_agree_heaviside := agree_heaviside (-3/7) (by decide +kernel)
def nv_agree_dirac := agree_dirac (2/3) (by decide +kernel)
def nv_agree_sign := agree_sign (-5) (by decide +kernel)
def nv_agree_rect := agree_rect (1/4) (by decide +kernel)
/-- on the sloping flank of trap(t, 1/2): |t| = 3/8 lies between (1 - alpha)/2 = 1/4 and (1 + alpha)/2 = 3/4 -/
def nv_agree_trap := agree_trap (1/2) (-3/8) (by decide +kernel) (by decide +kernel)
/-- alpha = 0 (rect) away from ±1/2 -/
def nv_agree_trap_zero := agree_trap 0 (1/3) (by decide +kernel) (by decide +kernel)
def nv_agree_psinc_int := agree_psinc 4 5 (by decide +kernel)
def nv_agree_psinc_zero_of_quotient := agree_psinc 4 (1/4) (by decide +kernel)
theorem nv_agree_psinc_values : spec (.psinc 4) 5 = some (-1) ∧ spec (.psinc 4) (1/4) = some 0 ∧
    spec (.trap (1/2)) (-3/8) = some (3/4) := by decide +kernel

def nv_spec_psinc_int := spec_psinc_int 3 7 (by decide)

theorem sin_half_pi_ne : Real.sin (Real.pi * (1/2)) ≠ 0 := by
  have : Real.pi * (1/2) = Real.pi / 2 := by ring
  rw [this, Real.sin_pi_div_two]; norm_num

def nv_psinc_integer_value_anchor := psinc_integer_value_anchor 3 5 (by decide) (1/2) sin_half_pi_ne

def nv_special_fn_agree_rect := special_fn_agree .rect (1/4) (by decide +kernel) (by decide +kernel)
def nv_special_fn_agree_trap := special_fn_agree (.trap (1/2)) (3/8) (by decide +kernel) (by decide +kernel)
def nv_special_fn_agree_psinc := special_fn_agree (.psinc 3) 5 (by decide +kernel) (by decide +kernel)

def nv_heaviside_call_forms := heaviside_call_forms (-2) (by norm_num)
def nv_heaviside_zero_documented := heaviside_zero_documented rfl 0

/-- t·H(t - 1)/(t + 2): a causal-looking product -/
def eC : E := .div (.mul .var (.app .heaviside (.sub .var (.const 1)))) (.add .var (.const 2))

def nv_causal_mask := causal_mask eC (-1) (by norm_num)
def nv_causal_mask_only := causal_mask_only true eC 3 (Or.inr (by norm_num)) (Or.inl (by decide +kernel))
def nv_causal_flag := causal_flag true true

/-- 3 H(t) + H(2t - 1) t at t = -2: every factor evaluates to a number, CausalChecker accepts -/
def nv_causal_mask_sound :=
  causal_mask_sound [[.plain (.const 3), .fn .heaviside 1 0], [.fn .heaviside 2 (-1), .plain .var]] (-2) (by norm_num)
    (by
      intro t ht f hf
      simp only [List.mem_cons, List.mem_nil_iff, or_false] at ht
      rcases ht with rfl | rfl <;> simp only [List.mem_cons, List.mem_nil_iff, or_false] at hf <;>
        rcases hf with rfl | rfl
      · exact ⟨3, by decide +kernel⟩
      · exact ⟨0, by decide +kernel⟩
      · exact ⟨0, by decide +kernel⟩
      · exact ⟨-2, by decide +kernel⟩)
    (by decide +kernel)

def nv_guard_not_extrapolated := guard_not_extrapolated eC (-1/2) 0 (by norm_num)

def nv_nan_spreads := nan_spreads (fun a b => a + b) .nan (.val 3) (by intro v h; cases h) 3

def nv_guard_transparent := guard_transparent eC 3 (by norm_num) (by decide +kernel)

def nv_array_is_map_scalar := array_is_map_scalar true eC [-1, 0, 3] [0, 0, 3/5]
theorem nv_array_is_map_scalar_lhs : evaluateArg true eC (.list [-1, 0, 3]) = .array [0, 0, 3/5] := by decide +kernel

def nv_array_all_or_nothing :=
  array_all_or_nothing false (guarded eC) [0, -1, 2] (-1) (by simp)
    (fun v => (guard_not_extrapolated eC (-1) v (by norm_num)).1)

/-- tri(t/2) H(t - 1) + Piecewise((rampstep(t), t ≥ 0)) at t = 3 -/
def eN : E :=
  .add (.mul (.app .tri (.div .var (.const 2))) (.app .heaviside (.sub .var (.const 1)))) (guarded (.app .rampstep .var))

def nv_expr_agree := expr_agree eN (3/2) (by decide +kernel)
theorem nv_expr_agree_value : specEval eN (3/2) = .val (5/4) := by decide +kernel
def nv_evaluate_is_symbolic := evaluate_is_symbolic true eN (3/2) (by decide +kernel) (Or.inr (by norm_num)) (Or.inr (by decide +kernel))

/-! ## Props/C17Sim.lean : the series RC circuit of that file -/
section Sim
open Lcapy.MNA Ix Lcapy.Sim Lcapy.Gen.Sim

theorem nv_sim_step_companion : ∃ x : Ix → ℚ,
    x (br 1) = geq .trapezoid rcReact[0] (1 / 10) 0 0 * vd x 2 3 ∧ vd x 3 0 = veq .trapezoid rcReact[0] (1 / 10) 0 0 := by
  obtain ⟨x, hx⟩ := rc_step
  exact ⟨x, sim_step_companion _ _ _ _ _ _ _ hx 0 (by decide) (by decide)⟩

/-- capacitor 1/10 F, dt = 1/10, previous state (v0, i0) = (2, 1/2), companion current from u = 3 -/
def nv_companion_law :=
  companion_law .trapezoid (⟨false, 2, 0, 3, 1, 1 / 10⟩ : React ℚ) (1 / 10) 2 (1 / 2) 3 _ _ rfl rfl (by norm_num) (by norm_num)
    (by norm_num)

def nv_companion_law_be_ind :=
  companion_law .backwardEuler (⟨true, 2, 0, 3, 1, 4⟩ : React ℚ) (1 / 5) 2 (1 / 2) 3 _ _ rfl rfl (by norm_num) (by norm_num)
    (by norm_num)

theorem nv_sim_run_law : ∃ xs', RunOK .backwardEuler (fun _ => rcOthers) rcReact 0
    (rcReact.map (fun _ => ((0 : ℚ), (0 : ℚ)))) [1 / 10, 3 / 10] xs' := by
  obtain ⟨xs, hxs⟩ : ∃ xs, sim rcSolver .backwardEuler (fun _ => rcOthers) rcReact [0, 1 / 10, 3 / 10] = some xs :=
    Option.isSome_iff_exists.mp (by decide +kernel)
  obtain ⟨xs', _, h⟩ := sim_law _ _ _ _ _ _ _ (by norm_num) rc_grid hxs
  exact ⟨xs', h⟩

def nv_trap_exact_quadratic := trap_exact_quadratic (K := ℚ) true 4 1 (-2) 3 (1/10) (3/10) (by norm_num)
def nv_trap_defect_cubic := trap_defect_cubic (K := ℚ) (1/10) (1/10) (3/10) (by norm_num)
def nv_trap_defect_cubic_ind := trap_defect_cubic_ind (K := ℚ) 4 (1/10) (3/10) (by norm_num)

end Sim

/-! ## Props/C17Resp.lean -/
section Resp
open Lcapy.DT Lcapy.Resp Lcapy.Gen.Sim Lcapy.SimBase

/-- H = 1/s, trapezoidal (alpha = 1/2), dt = 1, ramp input: output sample 2 as a convolution sum -/
def nv_bilinear_is_convolution :=
  bilinear_is_convolution (1 / 2 : ℚ) 1 [1] [0, 1] [0, 1, 2, 3] 2 (by decide) (by decide +kernel)

def nv_bilinear_delay := bilinear_delay (1 / 2 : ℚ) 1 [1] [0, 1] [1, 2, 3, 4] 1 (by decide)

def nv_bilinear_coeffs_value :=
  bilinear_coeffs_value (1 / 2 : ℚ) (1 / 10) [1, 2] [3, 1, 1] (1 / 3) (by norm_num) (by norm_num)

def nv_impulse_invariance_is_conv_sum :=
  impulse_invariance_is_conv_sum (fun t : ℚ => 3 - t) [1, 2, 3, 5] [7, 8, 9, 10] (1/2) 3 rfl (by decide)

def nv_impulse_invariance_shift :=
  impulse_invariance_shift (fun t : ℚ => 3 - t) [1, 2, 3] [5, 6, 7] [3, 4, 5, 6, 7] 1 2 rfl rfl (by simp)

end Resp

/-! ## Props/C17Limit.lean -/
section Limit
open Lcapy.DT (peval)
open Lcapy.EvalLimit

/-- (2 - 3t + t³)/(1 - 2t + t²) = (t - 1)²(t + 2)/(t - 1)² -/
def pL : List Rat := [2, -3, 0, 1]
def qL : List Rat := [1, -2, 1]

def nv_cancelAt_value := cancelAt_value 3 pL qL 1 5 (by norm_num)
def nv_cancelAt_den_nonzero := cancelAt_den_nonzero 3 pL qL 1 5 (by decide +kernel)
def nv_cancelAt_value_div := cancelAt_value_div 3 pL qL 1 5 (by norm_num) (by decide +kernel)

def nv_fallback_value_is_continuous_extension :=
  fallback_value_is_continuous_extension false pL qL 1 3 (by decide +kernel) (by decide +kernel)

def nv_fallback_value_needs_common_zero :=
  fallback_value_needs_common_zero true pL qL 1 3 (by decide +kernel) (by decide +kernel)

def nv_regular_point_direct := regular_point_direct false pL qL (1/2) (by decide +kernel)
def nv_regular_point_limit := regular_point_limit pL qL (1/2) (by decide +kernel)
def nv_scalar_array_paths_differ := scalar_array_paths_differ pL qL 1 (by decide +kernel)
def nv_table_removable_psinc := table_removable_psinc 4 (-3) (by decide)

end Limit

end Lcapy.NonVacuity.C17
