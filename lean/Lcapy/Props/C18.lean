/-
  PROPERTY C18 -- quantities, units and domains combine in a dimensionally consistent way.

  Only property theorems, the predicates they are stated with and non-vacuity examples live
  here.  `mulTable`, `divTable`, `classTable`, `domainTable`, `quantityTable`, `exprmapTable`,
  `transformTable`, `knownDims` (= `tables`) are REGENERATED from /repo/lcapy on every run
  (Lcapy/Generated/Quantities.lean), so every `decide` below is re-checked against what the code
  says now.  The quantifier of the table theorems is the complete extracted table.
  The operator theorems (sections 2-4) are about the executable model `Lcapy.QModel` of
  `Expr.__mul__/__truediv__/__compat_add__/__pow__/change`; they hold for ALL operands (any
  units monomial, any domain, any value flags) and, where stated for `T : Tables`, for all tables.

  SI dimensions (`dimU`, `dimQ`) come from Lcapy/Spec/Dim.lean and do not depend on the code.
-/
import Lcapy.Generated.Quantities
import Lcapy.Proofs.QuantitiesBase
namespace Lcapy.C18
open Lcapy.Dim Lcapy.QModel Lcapy.Gen.Q Lcapy.QBase

/-! ## 1. The tables (complete, regenerated) -/

/-- every row `(a, b) ↦ c` of `Expr._mul_mapping`: dim c = dim a + dim b -/
theorem mul_dim : ∀ r ∈ mulTable, dimQ r.2.2 = addVA (dimQ r.1) (dimQ r.2.1) := by decide

/-- every row `(a, b) ↦ c` of `Expr._div_mapping`: dim c = dim a - dim b -/
theorem div_dim : ∀ r ∈ divTable, dimQ r.2.2 = subVA (dimQ r.1) (dimQ r.2.1) := by decide

/-- `__mul__` tries `(y, x)` and then `(x, y)`: the answer does not depend on the order of the
    operands, for every ordered pair of quantities (no two rows contradict each other) -/
theorem mul_symmetric_lookup (a b : Quantity) : mulLookup tables a b = mulLookup tables b a := by
  have h : ∀ a ∈ Quantity.all, ∀ b ∈ Quantity.all, mulLookup tables a b = mulLookup tables b a := by
    decide
  exact h a (quantity_mem_all a) b (quantity_mem_all b)

/-- neither table has a repeated key (so "first match" = Python's dict semantics) -/
theorem tables_functional :
    (mulTable.map (fun r => (r.1, r.2.1))).Nodup ∧ (divTable.map (fun r => (r.1, r.2.1))).Nodup := by
  decide +kernel

/-- the only results labelled `constant` come from dimensionless operand pairs, so reporting
    them as `undefined` loses no dimension -/
theorem constant_results_dimensionless :
    (∀ r ∈ mulTable, r.2.2 = .constant → addVA (dimQ r.1) (dimQ r.2.1) = (0, 0)) ∧
    (∀ r ∈ divTable, r.2.2 = .constant → subVA (dimQ r.1) (dimQ r.2.1) = (0, 0)) := by decide

/-- `exprclasses[domain][quantity]` is a class whose own `domain`/`quantity` are the keys, and
    exactly the classes with a quantity have `_default_units` -/
theorem class_table_consistent :
    ∀ r ∈ classTable, r.clsDom = r.dom ∧ r.clsQ = r.q ∧ (r.units.isSome ↔ r.q ≠ .undefined) := by
  decide +kernel

/-- the class table has a class for every domain (but `superposition`) and every quantity -/
theorem class_table_complete :
    ∀ d ∈ Domain.all, d ≠ .superposition → ∀ q ∈ Quantity.all, q ≠ .constant →
      (classTable.find? (fun r => r.dom == d && r.q == q)).isSome := by decide +kernel

/-- `class_units_signals` + `class_units_immittance`: the `_default_units` of every one of the
    190 quantity classes is the spec's `expectedDim` (V, A exponents of the quantity; time exponent `timeExp`) -/
theorem class_units_expected :
    ∀ r ∈ classTable, ∀ u, r.units = some u →
      dimU u = expectedDim r.dom r.q := by
  have h : classTable.all (fun r => match r.units with
      | none => true
      | some u => decide (dimU u = expectedDim r.dom r.q)) = true := by
    decide +kernel
  intro r hr u hu
  have := List.all_eq_true.mp h r hr
  simpa [hu] using this

/-- in particular every class default is labelled consistently -/
theorem class_units_label :
    ∀ r ∈ classTable, ∀ u, r.units = some u → (dimU u).va = dimQ r.q := by decide +kernel

theorem class_units_signals :
    ∀ d ∈ Domain.all, d ≠ .superposition →
      dimU (defaultUnits tables d .voltage) =
        ⟨1, 0, if d = .laplace ∨ d = .fourier ∨ d = .angularFourier then 1 else 0⟩ ∧
      dimU (defaultUnits tables d .current) =
        ⟨0, 1, if d = .laplace ∨ d = .fourier ∨ d = .angularFourier then 1 else 0⟩ := by decide

theorem class_units_immittance :
    ∀ d ∈ Domain.all, d ≠ .superposition →
      dimU (defaultUnits tables d .impedance) = ⟨1, -1, if d = .time then -1 else 0⟩ ∧
      dimU (defaultUnits tables d .admittance) = ⟨-1, 1, if d = .time then -1 else 0⟩ ∧
      dimU (defaultUnits tables d .transfer) = ⟨0, 0, if d = .time then -1 else 0⟩ := by decide

/-- Recorded observation (DESIGN.md C18), not a violation by itself: in the spectral-density
    domains the class default of `power` (W) is not the dimension of voltage x current; the
    operators compute units dynamically, the oracle judges actual results. -/
theorem power_default_is_not_the_product_in_spectral_domains :
    dimU (defaultUnits tables .laplace .power) ≠
      dimU (defaultUnits tables .laplace .voltage) + dimU (defaultUnits tables .laplace .current) := by
  decide

/-- the hand model of lcapy/exprmap.py agrees with the real function on every (quantity, domain) -/
theorem exprmap_model_eq_table :
    ∀ r ∈ exprmapTable, exprmapM tables r.1 r.2.1 = r.2.2 := by decide +kernel

/-- the constant-domain flags of the model are those of domains.py -/
theorem const_domains :
    ∀ d ∈ Domain.all, isConst tables d =
      (d = .constant || d = .constantTime || d = .constantFrequencyResponse) := by decide

def namedDomains : List Domain := [.time, .laplace, .fourier, .angularFourier]

/-- `transform_units`: every `units_scale` used by a transform between the time, Laplace,
    Fourier and angular Fourier domains has exactly the dimension of the variable integrated
    over (the source domain's `domain_units`), and the default units of a voltage/current in the
    target domain are those of the source times that scale ("V becomes V/Hz") -/
theorem transform_units :
    ∀ r ∈ transformTable, r.src ∈ namedDomains → r.dst ∈ namedDomains → ∀ s, r.scale = some s →
      dimU s = dimU (domainUnits tables r.src) ∧
      dimU (defaultUnits tables r.src .voltage) + dimU s = dimU (defaultUnits tables r.dst .voltage) ∧
      dimU (defaultUnits tables r.src .current) + dimU s = dimU (defaultUnits tables r.dst .current) := by
  decide

/-- `transform_scale_exact` (every row of every domain class: texpr, sexpr, fexpr, omegaexpr,
    jfexpr, jomegaexpr, normfexpr, normomegaexpr): a transform out of the time domain scales the
    units by exactly `s`, a transform into the (discrete) time domain by exactly `Hz` -- in
    particular never by `rad/s`: the inverse transforms integrate over `df = d omega / (2 pi)` -/
theorem transform_scale_exact :
    ∀ r ∈ transformTable, ∀ s, r.scale = some s →
      (r.src = .time → s = ⟨0, 0, 0, 0, 0, 0, 1, 0⟩) ∧
      (r.dst = .time ∨ r.dst = .discreteTime → s = ⟨0, 0, 0, 0, 0, 1, 0, 0⟩) ∧
      s.radian = 0 := by decide

/-- every frequency-like domain of the property has a scaled way back to the time domain -/
theorem transform_inverse_rows_present :
    ∀ d ∈ [Domain.laplace, .fourier, .angularFourier, .frequencyResponse, .angularFrequencyResponse],
      transformTable.any (fun r => r.src == d && r.dst == .time && r.scale.isSome) = true := by
  decide

/-- ... "and back": forward and inverse scales cancel -/
theorem transform_roundtrip :
    ∀ r1 ∈ transformTable, ∀ r2 ∈ transformTable, r1.src = r2.dst → r1.dst = r2.src →
      ∀ s1, r1.scale = some s1 → ∀ s2, r2.scale = some s2 → dimU (s1 + s2) = Dim3.zero := by decide

/-- the remaining scaled rows (frequency-response sources, IDTFT) also scale by the source
    variable.  PARTIAL: the two normalised-frequency domains are excluded -- their `domain_units`
    are 1 resp. rad while `inverse_fourier`/`IDTFT` scale by Hz (listed in the evidence as
    diagnostics; the property's sentence names the Laplace and Fourier domains only).
    Full statement: `∀ r ∈ transformTable, ∀ s, r.scale = some s → dimU s = dimU (domainUnits tables r.src)`. -/
theorem transform_units_other_partial :
    ∀ r ∈ transformTable, r.src ≠ .normFourier → r.src ≠ .normAngularFourier →
      ∀ s, r.scale = some s → dimU s = dimU (domainUnits tables r.src) := by decide

/-- the integral transforms of the property exist in the table, in both directions -/
theorem transform_rows_present :
    (transformTable.any (fun r => r.src == .time && r.dst == .laplace && r.scale.isSome)) ∧
    (transformTable.any (fun r => r.src == .laplace && r.dst == .time && r.scale.isSome)) ∧
    (transformTable.any (fun r => r.src == .time && r.dst == .fourier && r.scale.isSome)) ∧
    (transformTable.any (fun r => r.src == .fourier && r.dst == .time && r.scale.isSome)) ∧
    (transformTable.any (fun r => r.src == .angularFourier && r.dst == .time && r.scale.isSome)) := by
  decide

/-! ### structural facts about the operator code (read by the translator on every run) -/

/-- `__truediv__` restores the divisor's units after the immittance-to-constant coercion, as
    `__mul__` does (finding C18-F19 when false) -/
theorem flag_div_restores_units : tables.flags.divRestoresUnits = true := by decide

/-- `__pow__` with a general exponent returns the generic class with `units ** n`
    (finding C18-F18 when false) -/
theorem flag_pow_sets_units : tables.flags.powSetsUnits = true := by decide

/-- the immittance mixins' `__rtruediv__` set the units of the reciprocal from the operands
    (finding C18-F19b when false) -/
theorem flag_recip_sets_units : tables.flags.recipSetsUnits = true := by decide

/-- the immittance mixins' `__rtruediv__` build the reciprocal in the operand's own domain
    (`self._class_by_quantity(...)`; finding C19-F24 when false: `1/Y(j omega)` became an angular
    Fourier impedance) -/
theorem flag_recip_keeps_domain : tables.flags.recipKeepsDomain = true := by decide

/-- the omega-domain special cases of `__compat_add__` come after a test on the quantities
    (finding C18-F20, first half, when false) -/
theorem flag_omega_needs_quantity : tables.flags.omegaNeedsQuantity = true := by decide

/-- `simplify_units` gives equivalent units without a named SI equivalent (Hz*ohm, ohm/s) one
    canonical form (finding C18-F24 when false) -/
theorem flag_canon_folds_hertz : tables.flags.canonFoldsHertz = true := by decide

/-! ## 2. `*` and `/`: units multiply, dimensions add, refusals -/

variable (T : Tables)

theorem coerce_keeps_units (x : Opd) : (coerceImmittance T x true).units = x.units := by
  unfold coerceImmittance; split <;> simp

theorem coerce_keeps_quantity (x : Opd) (k : Bool) : (coerceImmittance T x k).q = x.q := by
  unfold coerceImmittance; split <;> rfl

/-- `table_refusals`: a pair of quantities absent from the table in both orders is refused with
    "units of the result are unsupported", whatever the domains and units (given the domains are
    compatible, which is tested first) -/
theorem mul_refuses_absent (a x : Opd)
    (h1 : ∀ r, (constify a.q, constify x.q, r) ∉ T.mul)
    (h2 : ∀ r, (constify x.q, constify a.q, r) ∉ T.mul)
    (hg : genericPair a x = false) (hc : mulCompat T a (coerceImmittance T x true) = true) :
    mulM T a x = .err .quantities := by
  have l1 : lookup2 T.mul (constify a.q) (constify x.q) = none := by
    cases h : lookup2 T.mul (constify a.q) (constify x.q) with
    | none => rfl
    | some r => exact absurd (lookup2_mem h) (h1 r)
  have l2 : lookup2 T.mul (constify x.q) (constify a.q) = none := by
    cases h : lookup2 T.mul (constify x.q) (constify a.q) with
    | none => rfl
    | some r => exact absurd (lookup2_mem h) (h2 r)
  simp [mulM, hg, hc, mulLookup, coerce_keeps_quantity, l1, l2]

/-- conversely a product is only formed from a table row (in one of the two orders) -/
theorem mul_only_from_table (a x : Opd) (d : Domain) (q : Quantity) (u : U)
    (h : mulM T a x = .ok d q u) (hg : genericPair a x = false) :
    ∃ r, ((constify a.q, constify x.q, r) ∈ T.mul ∨ (constify x.q, constify a.q, r) ∈ T.mul) ∧
      q = unconstify r := by
  simp only [mulM, hg, Bool.false_eq_true, if_false] at h
  split at h
  · simp at h
  · split at h
    · simp at h
    · rename_i q' hq
      simp only [Outcome.ok.injEq] at h
      simp only [mulLookup, coerce_keeps_quantity] at hq
      split at hq
      · rename_i r hr
        simp only [Option.some.injEq] at hq
        exact ⟨r, Or.inl (lookup2_mem hr), by rw [← h.2.1, ← hq]⟩
      · split at hq
        · rename_i r hr
          simp only [Option.some.injEq] at hq
          exact ⟨r, Or.inr (lookup2_mem hr), by rw [← h.2.1, ← hq]⟩
        · simp at hq

/-- `op_units` for `*`: the units of a product are exactly the product of the operands' units
    (sum of exponent vectors) -- except in the six generic `f*t`, `s*t`, `omega*t` cases, where the
    result is a bare time-domain expression without quantity and units -/
theorem op_units_mul (a x : Opd) (d : Domain) (q : Quantity) (u : U)
    (h : mulM T a x = .ok d q u) :
    (genericPair a x = true ∧ d = .time ∧ q = .undefined ∧ u = U.one) ∨
    (genericPair a x = false ∧ u = a.units + x.units) := by
  cases hg : genericPair a x with
  | true => simp [mulM, hg] at h; exact Or.inl ⟨rfl, h.1.symm, h.2.1.symm, h.2.2.symm⟩
  | false =>
    refine Or.inr ⟨rfl, ?_⟩
    simp only [mulM, hg, Bool.false_eq_true, if_false] at h
    split at h
    · simp at h
    · split at h
      · simp at h
      · simp only [Outcome.ok.injEq, coerce_keeps_units] at h
        exact h.2.2.symm

/-- hence the SI dimension of the result is the sum of the operands' dimensions -/
theorem mul_dimension (a x : Opd) (d : Domain) (q : Quantity) (u : U)
    (h : mulM T a x = .ok d q u) (hg : genericPair a x = false) :
    dimU u = dimU a.units + dimU x.units := by
  rcases op_units_mul T a x d q u h with ⟨h1, _⟩ | ⟨_, h2⟩
  · rw [hg] at h1; cases h1
  · rw [h2, dimU_add]

/-- the quantity of a product has the dimension of the product of the operand quantities, for
    any table whose rows are dimensionally right (in particular for the generated one, `mul_dim`) -/
theorem mul_quantity_dimension
    (hT : ∀ r ∈ T.mul, dimQ r.2.2 = addVA (dimQ r.1) (dimQ r.2.1))
    (a x : Opd) (d : Domain) (q : Quantity) (u : U)
    (h : mulM T a x = .ok d q u) (hg : genericPair a x = false) :
    dimQ q = addVA (dimQ a.q) (dimQ x.q) := by
  obtain ⟨r, hr, rfl⟩ := mul_only_from_table T a x d q u h hg
  rcases hr with hr | hr
  · have := hT _ hr
    simpa using this
  · have := hT _ hr
    simp only [dimQ_constify] at this
    simp only [dimQ_unconstify, this, addVA]
    ext <;> simp <;> omega

/-- HEADLINE for `*`: if both operands are labelled consistently (the (V, A) exponents of their
    units are those of their quantity) then so is every product the operator returns: its
    quantity and units are those implied by the operands -/
theorem mul_consistent (a x : Opd) (d : Domain) (q : Quantity) (u : U)
    (h : mulM tables a x = .ok d q u) (hg : genericPair a x = false)
    (ha : (dimU a.units).va = dimQ a.q) (hx : (dimU x.units).va = dimQ x.q) :
    (dimU u).va = dimQ q ∧ dimU u = dimU a.units + dimU x.units := by
  have h1 := mul_dimension tables a x d q u h hg
  have h2 := mul_quantity_dimension tables mul_dim a x d q u h hg
  exact ⟨by rw [h1, va_add, ha, hx, h2], h1⟩

theorem witness_mul_voltage_admittance : mulM tables ⟨.laplace, .voltage, ⟨1, 0, 0, 0, 0, -1, 0, 0⟩, false, false, false⟩
    ⟨.laplace, .admittance, ⟨0, 0, 0, 1, 0, 0, 0, 0⟩, false, false, false⟩ =
    .ok .laplace .current ⟨1, 0, 0, 1, 0, -1, 0, 0⟩ := by decide

theorem witness_mul_refused : mulM tables ⟨.time, .voltage, ⟨1, 0, 0, 0, 0, 0, 0, 0⟩, false, false, false⟩
    ⟨.time, .impedance, ⟨0, 0, 1, 0, 0, 0, -1, 0⟩, false, false, false⟩ = .err .quantities := by decide

/-- `/`: which branch is taken -/
theorem div_reflected (a x : Opd) (h : reflectedDiv a x = true) :
    divM T a x = recipImmittance T a.units x := by simp [divM, h]

theorem div_only_from_table (a x : Opd) (d : Domain) (q : Quantity) (u : U)
    (h : divCore T a x = .ok d q u) :
    ∃ r, (constify a.q, constify x.q, r) ∈ T.div ∧ q = unconstify r := by
  simp only [divCore] at h
  split at h
  · simp at h
  · split at h
    · simp at h
    · rename_i q' hq
      simp only [Outcome.ok.injEq] at h
      simp only [divLookup, coerce_keeps_quantity] at hq
      split at hq
      · rename_i r hr
        simp only [Option.some.injEq] at hq
        exact ⟨r, lookup2_mem hr, by rw [← h.2.1, ← hq]⟩
      · simp at hq

theorem div_refuses_absent (a x : Opd)
    (h1 : ∀ r, (constify a.q, constify x.q, r) ∉ T.div)
    (hc : divCompat T a (coerceImmittance T x T.flags.divRestoresUnits) = true) :
    divCore T a x = .err .quantities := by
  have l1 : lookup2 T.div (constify a.q) (constify x.q) = none := by
    cases h : lookup2 T.div (constify a.q) (constify x.q) with
    | none => rfl
    | some r => exact absurd (lookup2_mem h) (h1 r)
  simp [divCore, hc, divLookup, coerce_keeps_quantity, l1]

/-- `op_units` for `/` (code with `x.units = xunits` in `__truediv__`): the units of a quotient
    are exactly the quotient of the operands' units -/
theorem op_units_div (hf : T.flags.divRestoresUnits = true) (a x : Opd) (d : Domain) (q : Quantity)
    (u : U) (h : divCore T a x = .ok d q u) : u = a.units - x.units := by
  simp only [divCore, hf] at h
  split at h
  · simp at h
  · split at h
    · simp at h
    · simp only [Outcome.ok.injEq, coerce_keeps_units] at h
      exact h.2.2.symm

theorem div_quantity_dimension
    (hT : ∀ r ∈ T.div, dimQ r.2.2 = subVA (dimQ r.1) (dimQ r.2.1))
    (a x : Opd) (d : Domain) (q : Quantity) (u : U) (h : divCore T a x = .ok d q u) :
    dimQ q = subVA (dimQ a.q) (dimQ x.q) := by
  obtain ⟨r, hr, rfl⟩ := div_only_from_table T a x d q u h
  have := hT _ hr
  simpa using this

/-- HEADLINE for `/` (non-reflected path): every quotient the operator returns has the units
    and the quantity implied by its operands, in every domain (the former exclusion of the
    time domain, finding C18-F19, is gone with `flag_div_restores_units`) -/
theorem div_consistent (a x : Opd) (d : Domain) (q : Quantity) (u : U)
    (h : divCore tables a x = .ok d q u)
    (ha : (dimU a.units).va = dimQ a.q) (hx : (dimU x.units).va = dimQ x.q) :
    (dimU u).va = dimQ q ∧ dimU u = dimU a.units - dimU x.units := by
  have h1 : dimU u = dimU a.units - dimU x.units := by
    rw [op_units_div tables flag_div_restores_units a x d q u h, dimU_sub]
  have h2 := div_quantity_dimension tables div_dim a x d q u h
  exact ⟨by rw [h1, va_sub, ha, hx, h2], h1⟩

/-- the reflected path (`1/Z`, `3/Y` with a constant numerator of the generic class, and
    `Z ** -1`): the reciprocal immittance carries the numerator's units over the operand's, so
    it is labelled consistently whenever the operand is and the numerator is dimensionless in
    (V, A) -- in every domain, the time domain included (finding C18-F19b is gone with
    `flag_recip_sets_units`) -/
theorem recip_consistent (nu : U) (x : Opd) (hq : x.q = .impedance ∨ x.q = .admittance)
    (hnu : (dimU nu).va = (0, 0)) (hx : (dimU x.units).va = dimQ x.q) :
    ∃ d q u, recipImmittance tables nu x = .ok d q u ∧ dimU u = dimU nu - dimU x.units ∧
      (dimU u).va = dimQ q := by
  unfold recipImmittance
  simp only [flag_recip_sets_units, if_true]
  refine ⟨_, _, _, rfl, dimU_sub _ _, ?_⟩
  rw [dimU_sub, va_sub, hnu, hx]
  rcases hq with hq | hq <;> simp [hq, subVA, dimQ]

/-- ... and it lives in the operand's OWN domain, for every operand: `1/Y(j omega)` is an impedance of
    the angular frequency-response domain, `1/Z` of a phasor ratio a phasor-ratio admittance (code
    with `self._class_by_quantity(...)`, `flag_recip_keeps_domain`) -/
theorem recip_keeps_domain (nu : U) (x : Opd) (hq : x.q = .impedance ∨ x.q = .admittance) :
    ∃ q u, recipImmittance tables nu x = .ok (classByQuantity tables x.dom q x.dom) q u ∧
      (q = .impedance ∨ q = .admittance) ∧ q ≠ x.q := by
  unfold recipImmittance
  simp only [flag_recip_keeps_domain, if_true]
  rcases hq with hq | hq
  · exact ⟨.admittance, nu - x.units, by simp [hq, flag_recip_sets_units], Or.inr rfl, by simp [hq]⟩
  · exact ⟨.impedance, nu - x.units, by simp [hq, flag_recip_sets_units], Or.inl rfl, by simp [hq]⟩

/-- in every non-constant domain that class is the immittance class of the same domain -/
theorem immittance_class_same_domain :
    ∀ d ∈ Domain.all, isConst tables d = false → d ≠ .superposition → d ≠ .undefined →
      classByQuantity tables d .impedance d = d ∧ classByQuantity tables d .admittance d = d := by decide

/-- the generic path agrees: `x / a` with a constant-domain numerator (`Expr.__rtruediv__` is
    `expr(x) / self`) gives a result in the class of the DIVISOR's domain, for every quantity -/
theorem generic_division_keeps_divisor_domain (a x : Opd) (d : Domain) (q : Quantity) (u : U)
    (hc : isConst T a.dom = true) (hx : coerceImmittance T x T.flags.divRestoresUnits = x)
    (h : divCore T a x = .ok d q u) : d = classByQuantity T x.dom q x.dom := by
  simp only [divCore, hx] at h
  split at h
  · simp at h
  · split at h
    · simp at h
    · simp only [Outcome.ok.injEq] at h
      rw [← h.1, ← h.2.1]

theorem witness_recip_phasor_ratio :
    divM tables ⟨.constant, .undefined, U.one, false, true, true⟩
      ⟨.phasorRatio, .impedance, ⟨0, 0, 1, 0, 0, 0, 0, 0⟩, false, false, false⟩ =
      .ok .phasorRatio .admittance ⟨0, 0, -1, 0, 0, 0, 0, 0⟩ ∧
    divM tables ⟨.constant, .undefined, U.one, false, true, true⟩
      ⟨.angularFrequencyResponse, .admittance, ⟨0, 0, 0, 1, 0, 0, 0, 0⟩, false, false, false⟩ =
      .ok .angularFrequencyResponse .impedance ⟨0, 0, 0, -1, 0, 0, 0, 0⟩ := by decide

theorem witness_div_voltage_current : divM tables ⟨.laplace, .voltage, ⟨1, 0, 0, 0, 0, -1, 0, 0⟩, false, false, false⟩
    ⟨.laplace, .current, ⟨0, 1, 0, 0, 0, -1, 0, 0⟩, false, false, false⟩ =
    .ok .laplace .impedance ⟨1, -1, 0, 0, 0, 0, 0, 0⟩ := by decide

/-! ## 3. `+`, `-`, `==` -/

/-- the two pairs of omega-domains that `__compat_add__` special-cases ("For phasor comparisons...") -/
def omegaPair (d e : Domain) : Bool :=
  (d = .phasorRatio && e = .angularFourier) || (d = .angularFourier && e = .phasorRatio) ||
  (d = .angularFrequencyResponse && e = .angularFourier) ||
  (d = .angularFourier && e = .angularFrequencyResponse)

/-- `add_refuses`, first half: operands with different defined quantities are refused under
    every setting of loose_units / check_units / canonical_units, whatever their domains, units
    and values (FULL: with the quantity test in front of the omega-domain cases,
    `flag_omega_needs_quantity`, there is no exception left) -/
theorem add_refuses_quantities (hf : T.flags.omegaNeedsQuantity = true) (c : Cfg) (a x : Opd)
    (ha : a.q.isDefined = true) (hx : x.q.isDefined = true) (hne : a.q ≠ x.q) :
    ∃ e, compatAdd T c a x = .error e := by
  unfold compatAdd
  cases unitsClash T c a x
  · simp only [Bool.false_eq_true, if_false]
    unfold compatClass compatRules
    apply firstMatch_spec (fun r => ∃ e, r = Except.error e) _ _ _ ⟨_, rfl⟩
    intro r hr hg
    have hau : a.q ≠ .undefined := by intro e; rw [e] at ha; simp [Quantity.isDefined] at ha
    have hxu : x.q ≠ .undefined := by intro e; rw [e] at hx; simp [Quantity.isDefined] at hx
    have hog : omegaGuard T c a x = false := by
      simp [omegaGuard, hf, quantitiesCompatible, hne, hau, hxu]
    simp only [compatRulesHead, compatRulesTail, List.cons_append, List.nil_append, List.mem_cons,
      List.mem_nil_iff, or_false] at hr
    rcases hr with rfl | rfl | rfl | rfl | rfl | rfl | rfl | rfl | rfl | rfl | rfl | rfl | rfl <;>
      first
        | exact ⟨_, rfl⟩
        | (rw [hog] at hg; simp at hg; done)
        | (exfalso; simp [hne, hau, hxu] at hg; done)
  · exact ⟨.units, by simp⟩

/-- the instance for the code as it is now -/
theorem add_refuses_quantities_now (c : Cfg) (a x : Opd)
    (ha : a.q.isDefined = true) (hx : x.q.isDefined = true) (hne : a.q ≠ x.q) :
    ∃ e, compatAdd tables c a x = .error e :=
  add_refuses_quantities tables flag_omega_needs_quantity c a x ha hx hne

/-- `add_refuses`, second half: operands in different non-constant domains are refused under
    every setting.
    PARTIAL: the two omega-domain pairs are excluded -- there the code deliberately accepts
    operands of compatible quantities ("For phasor comparisons", pinned by seven tests of the
    suite); real results are reported by the oracle (family `omega-domain-pairs-accepted`,
    finding C18-F20).
    Full statement: the same without `omegaPair a.dom x.dom = false`. -/
theorem add_refuses_domains_partial (c : Cfg) (a x : Opd)
    (hca : isConst T a.dom = false) (hcx : isConst T x.dom = false) (hd : a.dom ≠ x.dom)
    (ho : omegaPair a.dom x.dom = false) :
    ∃ e, compatAdd T c a x = .error e := by
  unfold omegaPair at ho
  rw [Bool.or_eq_false_iff, Bool.or_eq_false_iff, Bool.or_eq_false_iff] at ho
  obtain ⟨⟨⟨o1, o2⟩, o3⟩, o4⟩ := ho
  unfold compatAdd
  cases unitsClash T c a x
  · simp only [Bool.false_eq_true, if_false]
    unfold compatClass compatRules
    rw [firstMatch_append]
    apply firstMatch_spec_enabled (fun r => ∃ e, r = Except.error e)
    · intro r hr hg
      simp only [compatRulesHead, List.mem_cons, List.mem_nil_iff, or_false] at hr
      rcases hr with rfl | rfl | rfl | rfl | rfl | rfl | rfl | rfl | rfl | rfl | rfl <;>
        first
          | exact ⟨_, rfl⟩
          | (simp only [o1, Bool.and_false] at hg; cases hg)
          | (simp only [o2, Bool.and_false] at hg; cases hg)
          | (simp only [o3, Bool.and_false] at hg; cases hg)
          | (simp only [o4, Bool.and_false] at hg; cases hg)
          | (exfalso; simp [hca, hcx, hd] at hg; done)
    · exact ⟨(a.dom != x.dom, .error .domains), by simp [compatRulesHead], by simpa using hd⟩
  · exact ⟨.units, by simp⟩

/-- both halves in the words of the spec predicate `mustRefuse` -/
theorem add_refuses_partial (hf : T.flags.omegaNeedsQuantity = true) (c : Cfg) (a x : Opd)
    (h : mustRefuse a.q x.q (isConst T a.dom) (isConst T x.dom) (a.dom == x.dom) = true)
    (ho : omegaPair a.dom x.dom = false ∨
      (a.q.isDefined = true ∧ x.q.isDefined = true ∧ a.q ≠ x.q)) :
    ∃ e, compatAdd T c a x = .error e := by
  rcases ho with ho | ⟨ha, hx, hne⟩
  · unfold mustRefuse at h
    rw [Bool.or_eq_true] at h
    rcases h with h | h
    · rw [Bool.and_eq_true, Bool.and_eq_true] at h
      exact add_refuses_quantities T hf c a x h.1.1 h.1.2 (by simpa using h.2)
    · rw [Bool.and_eq_true, Bool.and_eq_true] at h
      exact add_refuses_domains_partial T c a x (by simpa using h.1.1) (by simpa using h.1.2)
        (by simpa using h.2) ho
  · exact add_refuses_quantities T hf c a x ha hx hne

/-- ... and such expressions never compare equal: `==` returns False without comparing values -/
theorem eq_false_when_refused_partial (hf : T.flags.omegaNeedsQuantity = true) (c : Cfg) (a x : Opd)
    (h : mustRefuse a.q x.q (isConst T a.dom) (isConst T x.dom) (a.dom == x.dom) = true)
    (ho : omegaPair a.dom x.dom = false ∨
      (a.q.isDefined = true ∧ x.q.isDefined = true ∧ a.q ≠ x.q)) : eqM T c a x = none := by
  obtain ⟨e, he⟩ := add_refuses_partial T hf c a x h ho
  simp [eqM, he]

/-- different defined quantities never compare equal (FULL) -/
theorem eq_false_when_quantities_differ (c : Cfg) (a x : Opd)
    (ha : a.q.isDefined = true) (hx : x.q.isDefined = true) (hne : a.q ≠ x.q) :
    eqM tables c a x = none := by
  obtain ⟨e, he⟩ := add_refuses_quantities_now c a x ha hx hne
  simp [eqM, he]

/-- the setting `canonical_units`: every read of `state.canonical_units` in lcapy/*.py sits inside a
    `_pexpr` property (what is PRINTED), none in an operator -- which is why the model above has no
    branch on `Cfg.canonical` (that the operators behave alike under both settings is checked by the
    correspondence, which runs them under all 8 settings; the former theorem
    `canonical_units_irrelevant` was `rfl` on the model and said nothing about the code) -/
theorem flag_canonical_units_only_printing : tables.flags.canonicalOnlyPrinting = true := by decide

/-- an accepted sum is an object of the class of one of its operands and carries that class's
    default units -/
theorem add_result (c : Cfg) (a x : Opd) (d : Domain) (q : Quantity) (u : U)
    (h : addM T c a x = .ok d q u) :
    ((d, q) = (a.dom, a.q) ∨ (d, q) = (x.dom, x.q)) ∧ u = defaultUnits T d q := by
  have hcls : ∀ r, compatClass T c a x = .ok r → r = (a.dom, a.q) ∨ r = (x.dom, x.q) := by
    have := firstMatch_spec (fun r => ∀ p, r = Except.ok p → p = (a.dom, a.q) ∨ p = (x.dom, x.q))
      (compatRules T c a x) (.error .quantities) ?_ ?_
    · exact this
    all_goals skip
    · intro r hr _ p hp
      simp only [compatRules, compatRulesHead, compatRulesTail, List.cons_append, List.nil_append,
        List.mem_cons, List.mem_nil_iff, or_false] at hr
      rcases hr with rfl | rfl | rfl | rfl | rfl | rfl | rfl | rfl | rfl | rfl | rfl | rfl | rfl <;>
        first
          | (cases hp; exact Or.inl rfl)
          | (cases hp; exact Or.inr rfl)
          | cases hp
    · intro p hp; cases hp
  simp only [addM, compatAdd] at h
  split at h
  · simp at h
  · rename_i d' q' hc
    simp only [Outcome.ok.injEq] at h
    obtain ⟨rfl, rfl, rfl⟩ := h
    refine ⟨?_, rfl⟩
    split at hc
    · cases hc
    · exact hcls _ hc

/-- conversely (the refusals above are not vacuous successes of a model that refuses everything):
    operands of the same quantity in the same domain that pass the units test are accepted -/
theorem add_accepts_same (c : Cfg) (a x : Opd) (hq : a.q = x.q) (hd : a.dom = x.dom)
    (hu : unitsClash T c a x = false) : compatAdd T c a x = .ok (a.dom, a.q) := by
  unfold compatAdd
  rw [hu]
  simp only [Bool.false_eq_true, if_false]
  unfold compatClass compatRules
  apply firstMatch_spec_enabled (fun r => r = Except.ok (a.dom, a.q))
  · intro r hr hg
    simp only [compatRulesHead, compatRulesTail, List.cons_append, List.nil_append, List.mem_cons,
      List.mem_nil_iff, or_false] at hr
    rcases hr with rfl | rfl | rfl | rfl | rfl | rfl | rfl | rfl | rfl | rfl | rfl | rfl | rfl <;>
      first
        | rfl
        | (exfalso; simp [hd] at hg; done)
        | (simp only [hq, hd]; done)
  · exact ⟨(decide (a.q = x.q) && decide (a.dom = x.dom), .ok (a.dom, a.q)),
      by simp [compatRulesHead], by simp [hq, hd]⟩

/-- trading hertz for inverse seconds never changes the canonical units (code with the Hz fold):
    `Hz*ohm` and `ohm/s`, `V**2/Hz**2` and `V**2*s**2` pass the units test against each other -/
theorem canon_fold (hf : T.flags.canonFoldsHertz = true) (u : U) :
    canon T (foldHz u) = canon T u := by
  have hd : dimU (foldHz u) = dimU u := by
    apply dim3_ext <;> simp only [dimU, foldHz] <;> omega
  have hr : radMode (foldHz u) = radMode u := rfl
  have hff : foldHz (foldHz u) = foldHz u := by simp [foldHz]
  unfold canon
  rw [hd, hr, hf]
  simp only [if_true, hff]

theorem canon_fold_now (u : U) : canon tables (foldHz u) = canon tables u :=
  canon_fold tables flag_canon_folds_hertz u

/-- with check_units on, operands whose canonical units differ are refused unless one of them is
    zero or (loose_units) reports `is_undefined` -/
theorem add_checks_units (l k : Bool) (a x : Opd)
    (hu : canon T a.units ≠ canon T x.units) (hz : a.zero = false ∧ x.zero = false)
    (hl : l = false ∨ (isUndefinedFlag T a.q = false ∧ isUndefinedFlag T x.q = false)) :
    compatAdd T ⟨l, true, k⟩ a x = .error .units := by
  have : unitsClash T ⟨l, true, k⟩ a x = true := by
    unfold unitsClash
    rcases hl with hl | ⟨h1, h2⟩ <;> simp [hz.1, hz.2, *]
  simp [compatAdd, this]

theorem witness_add_refused_units : addM tables ⟨true, true, false⟩ ⟨.time, .voltage, ⟨1, 0, 0, 0, 0, 0, 0, 0⟩, false, false, false⟩
    ⟨.time, .current, ⟨0, 1, 0, 0, 0, 0, 0, 0⟩, false, false, false⟩ = .err .units := by decide

theorem witness_add_refused_quantities : addM tables ⟨true, false, false⟩ ⟨.time, .voltage, ⟨1, 0, 0, 0, 0, 0, 0, 0⟩, false, false, false⟩
    ⟨.time, .current, ⟨0, 1, 0, 0, 0, 0, 0, 0⟩, false, false, false⟩ = .err .quantities := by decide

theorem witness_add_accepted : addM tables ⟨true, true, false⟩ ⟨.laplace, .voltage, ⟨1, 0, 0, 0, 0, -1, 0, 0⟩, false, false, false⟩
    ⟨.laplace, .voltage, ⟨1, 0, 0, 0, 0, 0, 1, 0⟩, false, false, false⟩ =
    .ok .laplace .voltage (defaultUnits tables .laplace .voltage) := by decide

theorem witness_must_refuse : mustRefuse .voltage .current false false true = true := by decide

/-! ## 4. `**` and transforms -/

/-- `a ** 2` is `a * a`, `a ** -1` of a non-immittance is `1 / a` -/
theorem pow_two (a : Opd) : powM T a 2 = mulM T a a := by simp [powM]

theorem pow_two_consistent (a : Opd) (d : Domain) (q : Quantity) (u : U)
    (h : powM tables a 2 = .ok d q u) (hg : genericPair a a = false)
    (ha : (dimU a.units).va = dimQ a.q) :
    (dimU u).va = dimQ q ∧ dimU u = dimU a.units + dimU a.units := by
  rw [pow_two] at h
  exact mul_consistent a a d q u h hg ha ha

/-- a general integer exponent (code with `ret.units = self.units ** x.sympy`): the result is a
    generic expression (no quantity is claimed) whose units are the operand's units to the n-th
    power, so its SI dimension is n times the operand's (finding C18-F18 is gone with
    `flag_pow_sets_units`) -/
theorem pow_general (hf : T.flags.powSetsUnits = true) (a : Opd) (n : Int) (h2 : n ≠ 2)
    (h1 : n ≠ -1) :
    ∃ d, powM T a n = .ok d .undefined (U.smul n a.units) ∧
      dimU (U.smul n a.units) = ⟨n * (dimU a.units).v, n * (dimU a.units).a, n * (dimU a.units).t⟩ := by
  unfold powM
  simp only [h2, h1, hf, if_false, if_true]
  split
  · exact ⟨_, rfl, dimU_smul n a.units⟩
  · exact ⟨_, rfl, dimU_smul n a.units⟩

theorem pow_general_now (a : Opd) (n : Int) (h2 : n ≠ 2) (h1 : n ≠ -1) :
    ∃ d, powM tables a n = .ok d .undefined (U.smul n a.units) :=
  (pow_general tables flag_pow_sets_units a n h2 h1).imp (fun _ h => h.1)

/-- `Z ** -1` is the reflected reciprocal -/
theorem pow_minus_one_immittance (a : Opd) (hq : a.q = .impedance ∨ a.q = .admittance) :
    powM T a (-1) = recipImmittance T U.one a := by
  unfold powM
  rcases hq with hq | hq <;> simp [hq]

/-- a transform whose `self.change(...)` is returned directly carries the operand's units times
    the row's `units_scale`; every other route rebuilds the object with the class defaults -/
theorem transform_model_units (a : Opd) (m : String) (d : Domain) (q : Quantity) (u : U)
    (h : transformM T a m = some (.ok d q u)) :
    q = a.q ∧
    ∃ r ∈ T.transforms, r.src = a.dom ∧ r.method = m ∧
      ((∃ s, r.scale = some s ∧ r.direct = true ∧ u = a.units + s) ∨ u = defaultUnits T d a.q) := by
  unfold transformM at h
  split at h
  · simp at h
  · rename_i r hr
    have hmem := List.mem_of_find?_eq_some hr
    have hp := List.find?_some hr
    simp only [Bool.and_eq_true, beq_iff_eq] at hp
    split at h
    · rename_i s hs hd
      simp only [Option.some.injEq, Outcome.ok.injEq] at h
      exact ⟨h.2.1.symm, r, hmem, hp.1, hp.2, Or.inl ⟨s, hs, hd, h.2.2.symm⟩⟩
    · simp only [Option.some.injEq, Outcome.ok.injEq] at h
      refine ⟨h.2.1.symm, r, hmem, hp.1, hp.2, Or.inr ?_⟩
      rw [← h.2.2, ← h.1]

theorem witness_transform_LT : transformM tables ⟨.time, .voltage, ⟨1, 0, 0, 0, 0, 0, 0, 0⟩, false, false, false⟩ "LT" =
    some (.ok .laplace .voltage ⟨1, 0, 0, 0, 0, 0, 1, 0⟩) := by decide

end Lcapy.C18
