/-
  AUDIT (independent reviewer, share A) -- machine-checked NON-VACUITY witnesses for the theorems of
  Props/C07.lean, C07Simplify.lean, C07Netlist.lean, C07TwoPort.lean: for every theorem with hypotheses a concrete
  realistic input on which all hypotheses are PROVED (and the theorem applied).  Findings: /verif/audit/AUDIT-A.md.
  Nothing here is imported by the framework.
-/
import Lcapy.Props.C07
import Lcapy.Props.C07Simplify
import Lcapy.Props.C07Netlist
import Lcapy.Props.C07TwoPort
set_option linter.unusedSimpArgs false
set_option linter.unusedVariables false
namespace Lcapy.NonVacuity.C07
open Lcapy Lcapy.OnePort Lcapy.C07 Lcapy.MNA Lcapy.Spec Lcapy.Gen Lcapy.TwoPort Ix

/-! ## Props/C07.lean -/

/-- `(R 2 + L 3 (i0 = 1)) | (C 4 (v0 = 5) + Vstep 7) | Istep 2` at s = 2 -/
def exNet : Net ℚ := .par [.ser [.leaf (.R 2), .leaf (.L 3 (some 1))],
                           .ser [.leaf (.C 4 (some 5)), .leaf (.V .step (7/2))], .leaf (.I .step 1)]

theorem exNet_ok : exNet.tOK 2 = true ∧ exNet.nOK 2 = true ∧ exNet.icOK 2 = true := by decide +kernel

theorem nv_ser_thevenin : IsThevenin 2 exNet (exNet.imp 2) (exNet.voc 2) :=
  ser_thevenin 2 exNet exNet_ok.1 exNet_ok.2.2
theorem nv_par_norton : IsNorton 2 exNet (exNet.adm 2) (exNet.isc 2) :=
  par_norton 2 exNet exNet_ok.2.1 exNet_ok.2.2
/-- witness `nv_thevenin_norton` -/
example := thevenin_norton 2 exNet

/-- the values are not degenerate: Z ≠ 0, Voc ≠ 0, Y ≠ 0, Isc ≠ 0 -/
theorem nv_values_nondegenerate : exNet.imp 2 ≠ 0 ∧ exNet.voc 2 ≠ 0 ∧ exNet.adm 2 ≠ 0 ∧ exNet.isc 2 ≠ 0 := by decide +kernel

def exArgs : List (Net ℚ) := [.leaf (.R 2), .leaf (.L 3 (some 1)), .leaf (.V .step (7/2))]
/-- witness `nv_ser_list` -/
example := ser_list (2 : ℚ) exArgs (by decide +kernel) (by decide +kernel)
def exArgsP : List (Net ℚ) := [.leaf (.R 2), .leaf (.C 4 (some 5)), .leaf (.I .step 1)]
/-- witness `nv_par_list` -/
example := par_list (2 : ℚ) exArgsP (by decide +kernel) (by decide +kernel)

/-- witness `nv_leaf_noSrc` -/
example := leaf_noSrc (2 : ℚ) (.C 4 (some 0)) (by decide +kernel)
/-- witness `nv_net_noSrc` -/
example := net_noSrc (2 : ℚ) (.ser [.leaf (.R 2), .leaf (.C 4 none)]) (by decide +kernel)
/-- witness `nv_list_noSrc` -/
example := list_noSrc (2 : ℚ) [.leaf (.R 2), .leaf (.L 4 (some 0))] (by decide +kernel)

/-- `combine_sound` applied: R 2 | R 3 -/
theorem nv_combine_sound (v i : ℚ) :
    (mk .par [.leaf (.R (2 : ℚ)), .leaf (.R 3)]).rel 1 v i ↔ (Net.leaf (.R (2 * 3 / (2 + 3) : ℚ))).rel 1 v i :=
  combine_sound 1 .par (.R 2) (.R 3) _ (by simp [combine, combineSame, Leaf.cls]) (by simp [combGuard]; norm_num) v i

/-- `combine_sound` on a rule with initial conditions: C 3 (v0 = 5) + C 6 at s = 2   [witness `nv_combine_sound_C`] -/
example (v i : ℚ) :=
  combine_sound (2 : ℚ) .ser (.C 3 (some 5)) (.C 6 none) (.C (3 * 6 / (3 + 6)) (some (5 + 0)))
    (by simp [combine, combineSame, Leaf.cls, icSum, ic]) (by simp [combGuard]; norm_num) v i

/-! ## Props/C07Simplify.lean -/

def exSimp : Net ℚ := .ser [.par [.leaf (.R 2), .ser [.leaf (.C 3 (some 5)), .leaf (.C 6 none)], .leaf (.R 3)],
                            .leaf (.L 1 none), .leaf (.L 2 none)]

theorem exSimp_ok : exSimp.simpGuard 2 = true ∧
    (match exSimp.simplify with | .ok _ => true | .error _ => false) = true := by decide +kernel

/-- `simplify_sound` / `simplify_preserves_thevenin_norton` applied: the simplified network exists and has the same relation -/
theorem nv_simplify_sound : ∃ m, exSimp.simplify = .ok m ∧ REq (exSimp.rel 2) (m.rel 2) ∧
    ∀ Z Voc Y Isc, (IsThevenin 2 exSimp Z Voc ↔ IsThevenin 2 m Z Voc) ∧ (IsNorton 2 exSimp Y Isc ↔ IsNorton 2 m Y Isc) := by
  cases h : exSimp.simplify with
  | error e => have := exSimp_ok.2; rw [h] at this; simp at this
  | ok m => exact ⟨m, rfl, simplify_sound 2 exSimp m h exSimp_ok.1,
      fun Z Voc Y Isc => simplify_preserves_thevenin_norton 2 exSimp m h exSimp_ok.1 Z Voc Y Isc⟩

def exFl : List (Net ℚ) := [.ser [.leaf (.C 3 (some 5)), .leaf (.C 6 none)], .leaf (.R 3)]
theorem exFl_ok : flattenGuard (2 : ℚ) exFl = true ∧
    (match flatten .par exFl with | .ok _ => true | .error _ => false) = true := by decide +kernel
theorem nv_flatten_sound : ∃ flat new, flatten .par exFl = .ok (flat, new) ∧
    REq (relArgs 2 .par exFl) (relArgs 2 .par flat) := by
  cases h : flatten .par exFl with
  | error e => have := exFl_ok.2; rw [h] at this; simp at this
  | ok r => obtain ⟨flat, new⟩ := r; exact ⟨flat, new, rfl, flatten_sound 2 .par exFl flat new h exFl_ok.1⟩

/-! ## Props/C07Netlist.lean -/

/-- `(R 2 + L 3 (i0 = 1)) | C 4 (v0 = 5)` -/
def exDraw : Net ℚ := .par [.ser [.leaf (.R 2), .leaf (.L 3 (some 1))], .leaf (.C 4 (some 5))]
theorem exDraw_ok : exDraw.drawable = true := by decide +kernel

/-- witness `nv_make_good` -/
example := make_good (2 : ℚ) exDraw exDraw_ok 1 0 2 (by decide) (by decide) (by decide) (by decide)
/-- witness `nv_serMake_good` -/
example := serMake_good (2 : ℚ) [.leaf (.R 2), .leaf (.L 3 (some 1))] (by simp) (by decide +kernel) 1 0 2
  (by decide) (by decide) (by decide) (by decide)
/-- witness `nv_parMake_good` -/
example := parMake_good (2 : ℚ) [.leaf (.R 2), .leaf (.C 4 (some 5))] (by decide +kernel) 1 0 2
  (by decide) (by decide) (by decide) (by decide)
/-- witness `nv_net_to_netlist_sound` -/
example (v i : ℚ) := net_to_netlist_sound 2 exDraw exDraw_ok v i

/-- the series one-port `R 2 + L 3 (i0 = 1)`: netlist `R 1 2 2; L 2 0 3 1` (branch 3), driven by `V 1 0 10` (branch 4), s = 2 -/
def exSer : Net ℚ := .ser [.leaf (.R 2), .leaf (.L 3 (some 1))]
theorem exSer_make : exSer.make 2 1 0 2 = ([.R 1 2 2, .Ind 2 0 3 3 (some 1) []], 4) := by
  simp [exSer, Net.make, serMake, Leaf.make]

def exSerX : Ix → ℚ := fun i => match i with
  | node 1 => 10 | node 2 => 27/4 | br 3 => 13/8 | br 4 => -13/8 | _ => 0

theorem exSer_laws : Laws .ivp 2 ((exSer.make 2 1 0 2).1 ++ [.V 1 0 (exSer.make 2 1 0 2).2 10]) exSerX := by
  rw [exSer_make]
  constructor
  · intro k hk
    match k with
    | 0 => exact absurd rfl hk
    | 1 => norm_num [exSerX, outflow, twoTerm, lsum, vd, volt]
    | 2 => norm_num [exSerX, outflow, twoTerm, lsum, vd, volt]
    | (k + 3) => simp [outflow, twoTerm, lsum]
  · intro c hc p hp
    simp only [List.cons_append, List.nil_append, List.mem_cons, List.mem_nil_iff, or_false] at hc
    rcases hc with rfl | rfl | rfl <;>
      simp only [laws, List.mem_cons, List.mem_nil_iff, or_false, List.not_mem_nil] at hp <;>
      (try subst hp) <;> norm_num [exSerX, vd, volt, mutualDrop, mutualIC, lsum]

/-- `net_to_netlist_laws` applied: the pair (10 V, 13/8 A into +) is on the tree's relation -/
theorem nv_net_to_netlist_laws : exSer.rel 2 10 (-exSerX (br (exSer.make 2 1 0 2).2)) :=
  net_to_netlist_laws 2 exSer (by decide +kernel) 10 exSerX exSer_laws

/-- `netlist_agrees_with_algebra` applied: 10 = Voc + Z·i with the algebra's Z = 2 + 2·3 = 8, Voc = −3 -/
theorem nv_netlist_agrees_with_algebra : (10 : ℚ) = exSer.voc 2 + exSer.imp 2 * (-exSerX (br (exSer.make 2 1 0 2).2)) :=
  netlist_agrees_with_algebra 2 exSer (by decide +kernel) (by decide +kernel) 10 exSerX exSer_laws

/-! ## Props/C07TwoPort.lean -/

/-- the hypothesis `hR` of `series_elem` / `Series_sources` discharged by a REAL one-port tree through `ser_thevenin`:
    `R 2 + L 3 (i0 = 1)` at s = 2 (Z = 8, Voc = −3), read by `Series(OP)` as `OneP` -/
def exSerT : Net ℚ := .ser [.leaf (.R 2), .leaf (.L 3 (some 1))]
def exOP : OneP ℚ := ⟨exSerT.imp 2, exSerT.adm 2, exSerT.voc 2, exSerT.isc 2⟩

theorem nv_Series_sources (p : Port ℚ) :
    SeriesElem (exSerT.rel 2) p ↔ relBs (TP_Series exOP).B (TP_Series exOP).V2b (TP_Series exOP).I2b p :=
  Series_sources (exSerT.rel 2) exOP (ser_thevenin 2 exSerT (by decide +kernel) (icOK_always 2 exSerT)) p

theorem nv_series_elem (p : Port ℚ) :
    SeriesElem (exSerT.rel 2) p ↔ relBs (B_Zseries (exSerT.imp 2)) (exSerT.voc 2) 0 p :=
  series_elem (exSerT.rel 2) _ _ (ser_thevenin 2 exSerT (by decide +kernel) (icOK_always 2 exSerT)) p

/-- `Series_matrix` wants the source-free relation: `R 2 + L 3` without initial current -/
def exSerT0 : Net ℚ := .ser [.leaf (.R 2), .leaf (.L 3 none)]
theorem nv_Series_matrix (p : Port ℚ) :
    SeriesElem (exSerT0.rel 2) p ↔ rel .B (TP_Series ⟨exSerT0.imp 2, exSerT0.adm 2, 0, 0⟩).B 1 p :=
  Series_matrix (exSerT0.rel 2) ⟨exSerT0.imp 2, exSerT0.adm 2, 0, 0⟩
    (by
      have h := ser_thevenin 2 exSerT0 (by decide +kernel) (icOK_always 2 exSerT0)
      have hv : exSerT0.voc 2 = 0 := by decide +kernel
      intro v i; rw [h v i, hv, zero_add]) 1 p

/-- witness `nv_Shunt_sound`: `Shunt_sound` with the Norton data of `C 4 (v0 = 5) | R 2` at s = 2 -/
def exShT : Net ℚ := .par [.leaf (.C 4 (some 5)), .leaf (.R 2)]
example (p : Port ℚ) :=
  Shunt_sound (exShT.rel 2) ⟨exShT.imp 2, exShT.adm 2, exShT.voc 2, exShT.isc 2⟩
    (par_norton 2 exShT (by decide +kernel) (icOK_always 2 exShT)) p

/-- witness `nv_Gyrator_sound` -/
example (p : Port ℚ) := Gyrator_sound (5 : ℚ) 1 (by norm_num) p

/-- `chain_sources`: Series(Z = 2, Voc = 1) then Shunt(Y = 1/3): ports p, q and the overall port r -/
def tpA : TPB ℚ := TP_Series ⟨2, 1/2, 1, 1/2⟩
def tpB : TPB ℚ := TP_Shunt ⟨3, 1/3, 0, 0⟩
def pp : Port ℚ := ⟨5, 1, 4, -1⟩
def pq : Port ℚ := ⟨4, 1, 4, 1/3⟩
def pr : Port ℚ := ⟨5, 1, 4, 1/3⟩

theorem nv_chain_sources : relBs (TP_Chain tpA tpB).B (TP_Chain tpA tpB).V2b (TP_Chain tpA tpB).I2b pr :=
  chain_sources tpA tpB pp pq pr (by simp [CascadeP, pp, pq, pr])
    (by norm_num [relBs, tpA, TP_Series, B_Zseries, pp]) (by norm_num [relBs, tpB, TP_Shunt, B_Yshunt, pq])

/-- witness `nv_chain_sources_complete` -/
example := chain_sources_complete tpA tpB pr nv_chain_sources

/-- witness `nv_chain_matrix` (sources dead: Series(Z = 2) then Shunt(Y = 1/3)) -/
example : rel .B (TP_Chain (TP_Series ⟨2, 1/2, 0, 0⟩) (TP_Shunt ⟨3, 1/3, 0, 0⟩)).B (1 : ℚ) ⟨5, 1, 3, 0⟩ :=
  chain_matrix _ _ 1 ⟨5, 1, 3, -1⟩ ⟨3, 1, 3, 0⟩ ⟨5, 1, 3, 0⟩ (by simp [CascadeP])
    (by norm_num [rel, lin, TP_Series, B_Zseries]) (by norm_num [rel, lin, TP_Shunt, B_Yshunt])

/-- section formulas with their side conditions, on `Z1 = 2, Z2 = 3, Z3 = 5` -/
example (p : Port ℚ) := A_Lsection_sound (2 : ℚ) 3 1 (by norm_num) p
example (p : Port ℚ) := A_Tsection_sound (2 : ℚ) 3 5 1 (by norm_num) p
example (p : Port ℚ) := A_Pisection_sound (2 : ℚ) 3 5 1 (by norm_num) (by norm_num) p
example (p : Port ℚ) := B_Lsection_sound (2 : ℚ) 3 1 (by norm_num) p
example (p : Port ℚ) := B_Tsection_sound (2 : ℚ) 3 5 1 (by norm_num) p
example (p : Port ℚ) := B_Pisection_sound (2 : ℚ) 3 5 1 (by norm_num) (by norm_num) p
example (p : Port ℚ) := B_chain_mirrored_Lsection_sound (2 : ℚ) 3 1 (by norm_num) p
example (p : Port ℚ) := B_chain_Lsection_sound (2 : ℚ) 3 1 (by norm_num) p
example (p : Port ℚ) := B_chain_Tsection_sound (2 : ℚ) 3 5 1 (by norm_num) p
example := TSection_vs_A (K := ℚ) ⟨2, 1/2, 0, 0⟩ ⟨3, 1/3, 0, 0⟩ ⟨5, 1/5, 0, 0⟩ (by norm_num)
/-- the L network `Z1 = 2, Z2 = 3` really has a behaviour: I1 = 2, I2 = -1 -/
example : LNet (2 : ℚ) 3 ⟨7, 2, 3, -1⟩ := by norm_num [LNet]
example : PiNet (2 : ℚ) 3 5 ⟨4, 3, 1, -4/5⟩ := ⟨1, by norm_num, by norm_num, by norm_num⟩

/-- `stage_sound`, `ladder_sound`, `Ladder_sound`: the physical ladder Series(Z = 2), Shunt(Y = 1/3) has the behaviour
    V1 = 5, I1 = 1, V2 = 3, I2 = 0 (open output), and it satisfies the accumulated B matrix -/
example : rel .B (ladderStage 0 (⟨3, 1/3, 0, 0⟩ : OneP ℚ)).B 1 ⟨3, 1, 3, 0⟩ :=
  stage_sound 0 _ 1 _ (by norm_num [ShuntElem, admRel])

theorem exLadderPhys : LadderPhys 0 [(⟨3, 1/3, 0, 0⟩ : OneP ℚ)] (SeriesElem (impRel 2)) ⟨5, 1, 3, 0⟩ := by
  simp only [LadderPhys]
  exact ⟨⟨5, 1, 3, -1⟩, ⟨3, 1, 3, 0⟩, by simp [CascadeP], by norm_num [SeriesElem, impRel], by norm_num [ShuntElem, admRel]⟩

theorem nv_Ladder_sound : rel .B (TP_Ladder (⟨2, 1/2, 0, 0⟩ : OneP ℚ) [⟨3, 1/3, 0, 0⟩]).B 1 ⟨5, 1, 3, 0⟩ :=
  Ladder_sound 1 ⟨2, 1/2, 0, 0⟩ [⟨3, 1/3, 0, 0⟩] _ exLadderPhys

theorem nv_ladder_sound : rel .B (TP_Ladder_go (TP_Series (⟨2, 1/2, 0, 0⟩ : OneP ℚ)) 0 [⟨3, 1/3, 0, 0⟩]).B 1 ⟨5, 1, 3, 0⟩ :=
  ladder_sound 1 [⟨3, 1/3, 0, 0⟩] 0 (TP_Series ⟨2, 1/2, 0, 0⟩) (SeriesElem (impRel 2))
    (fun p hp => (Series_matrix (impRel 2) ⟨2, 1/2, 0, 0⟩ (fun v i => Iff.rfl) 1 p).mp hp) _ exLadderPhys

/-- `par2_Y`: two series resistors 2 Ω and 3 Ω as two-ports in parallel, 6 V across: 3 A + 2 A -/
theorem nv_par2_Y : rel .Y (TP_Par2_Y (B_Zseries 2) (B_Zseries 3) (1 : ℚ)) 1 ⟨6, 5, 0, -5⟩ :=
  par2_Y (B_Zseries 2) (B_Zseries 3) 1 ⟨6, 3, 0, -3⟩ ⟨6, 2, 0, -2⟩ ⟨6, 5, 0, -5⟩
    (by norm_num [B_Zseries]) (by norm_num [B_Zseries]) (by norm_num [ParConn])
    (by norm_num [rel, lin, B_Zseries]) (by norm_num [rel, lin, B_Zseries])

/-- `ser2_Z`: two shunt elements (Y = 1/2, Y = 1/3) connected series–series, I1 = I2 = 1 -/
theorem nv_ser2_Z : rel .Z (TP_Ser2_Z (B_Yshunt (1/2)) (B_Yshunt (1/3)) (1 : ℚ)) 1 ⟨10, 1, 10, 1⟩ :=
  ser2_Z (B_Yshunt (1/2)) (B_Yshunt (1/3)) 1 ⟨4, 1, 4, 1⟩ ⟨6, 1, 6, 1⟩ ⟨10, 1, 10, 1⟩
    (by norm_num [B_Yshunt]) (by norm_num [B_Yshunt]) (by norm_num [SerConn])
    (by norm_num [rel, lin, B_Yshunt]) (by norm_num [rel, lin, B_Yshunt])

/-- `hybrid2_H`: series elements 2 Ω and 3 Ω, inputs in series, outputs in parallel -/
theorem nv_hybrid2_H : rel .H (TP_Hybrid2_H (B_Zseries 2) (B_Zseries 3) (1 : ℚ)) 1 ⟨11, 1, 3, -2⟩ :=
  hybrid2_H (B_Zseries 2) (B_Zseries 3) 1 ⟨5, 1, 3, -1⟩ ⟨6, 1, 3, -1⟩ ⟨11, 1, 3, -2⟩
    (by norm_num [B_Zseries]) (by norm_num [B_Zseries]) (by norm_num [HybConn])
    (by norm_num [rel, lin, B_Zseries]) (by norm_num [rel, lin, B_Zseries])

/-- `invhybrid2_G`: inputs in parallel, outputs in series -/
theorem nv_invhybrid2_G : rel .G (TP_InverseHybrid2_G (B_Zseries 2) (B_Zseries 3) (1 : ℚ)) 1 ⟨5, 2, 5, -1⟩ :=
  invhybrid2_G (B_Zseries 2) (B_Zseries 3) 1 ⟨5, 1, 3, -1⟩ ⟨5, 1, 2, -1⟩ ⟨5, 2, 5, -1⟩
    (by norm_num [B_Zseries]) (by norm_num [B_Zseries]) (by norm_num [InvHybConn])
    (by norm_num [rel, lin, B_Zseries]) (by norm_num [rel, lin, B_Zseries])

/-! ## Class (e) demonstration -/

/-- FINDING C07-e1: a conductance `G 0` is `drawable` and its generated line is `R 1 0 (1/0)`: in a field that is `R = 0`,
    which `outflow` reads as vd/0 = 0, i.e. an open circuit -- the right answer for G = 0, reached through two
    totalised divisions.  (Lcapy writes `R? n1 n2 {1/G}` = zoo.)  `make_good` covers this leaf for that reason only. -/
example : (Net.leaf (.G (0 : ℚ))).drawable = false := by decide +kernel   -- (repaired: `Leaf.simple` now requires g ≠ 0)
example : (Net.leaf (.G (0 : ℚ))).make 2 1 0 2 = ([.R 1 0 (1 / 0)], 2) := rfl

end Lcapy.NonVacuity.C07
