/-
  AUDIT (independent reviewer, share A) -- machine-checked NON-VACUITY witnesses for the theorems of
  Props/C01.lean, C01Stamps.lean, C01Glue.lean, C01Amp.lean, C01TwoPort.lean: for every theorem with hypotheses,
  a concrete realistic input on which all hypotheses are PROVED (and, where it says something, the theorem applied).
  Findings are in /verif/audit/AUDIT-A.md.  Nothing here is imported by the framework.
-/
import Lcapy.Props.C01
import Lcapy.Props.C01Stamps
import Lcapy.Props.C01Glue
import Lcapy.Props.C01Amp
import Lcapy.Props.C01TwoPort
import Lcapy.Proofs.Cx
set_option linter.unusedSimpArgs false
set_option linter.unusedVariables false
namespace Lcapy.NonVacuity.C01
open Lcapy Lcapy.MNA Lcapy.C01 Lcapy.Netlist Lcapy.Spec Lcapy.Gen Ix
open Lcapy.Gen.Stamps (SrcKind)

/-! ## Props/C01.lean -/

/-- the reported solution of `V1 1 0 3; R1 1 2 3; L1 2 0 2 1` (ivp, s = 2) -/
def exX : Ix → ℚ := fun i => match i with
  | node 1 => 3 | node 2 => 6/7 | br 0 => -5/7 | br 1 => 5/7 | _ => 0

theorem exCkt_wf : WF exCkt := by simp [WF, exCkt, owned]

theorem exCkt_laws : Laws .ivp 2 exCkt exX := by
  constructor
  · intro k hk
    match k with
    | 0 => exact absurd rfl hk
    | 1 => norm_num [exCkt, exX, outflow, twoTerm, lsum, vd, volt]
    | 2 => norm_num [exCkt, exX, outflow, twoTerm, lsum, vd, volt]
    | (k + 3) => simp [exCkt, outflow, twoTerm, lsum]
  · intro c hc p hp
    simp only [exCkt, List.mem_cons, List.mem_nil_iff, or_false] at hc
    rcases hc with rfl | rfl | rfl <;>
      simp only [laws, List.mem_cons, List.mem_nil_iff, or_false] at hp <;>
      (try subst hp) <;> norm_num [exX, vd, volt, mutualDrop, mutualIC, lsum]

/-- `mna_iff_laws` applied: the reported solution solves the assembled system -/
theorem nv_mna_iff_laws : Solves .ivp 2 exCkt exX :=
  (mna_iff_laws .ivp 2 exCkt exX exCkt_wf).mpr exCkt_laws

/-- `Nonsingular` holds for a REACTIVE initial-value circuit at s = 2 (not only the resistive dc one of `ex_nonsingular`) -/
theorem nv_nonsingular_ivp : Nonsingular .ivp (2 : ℚ) exCkt := by
  intro z hz i hi
  have h1 := hz (node 1) (by simp)
  have h2 := hz (node 2) (by simp)
  have h3 := hz (br 0) (by simp)
  have h4 := hz (br 1) (by simp)
  simp [exCkt, stampAll, stamp, Stamp.append, branchPattern, admPattern, lhsSum, ground, indZ] at h1 h2 h3 h4
  obtain ⟨hi0, hi⟩ := hi
  simp [exCkt, C01.unknowns, stampAll, stamp, Stamp.append, branchPattern, admPattern] at hi
  have e1 : z (node 1) = 0 := h3
  have e4 : z (br 1) = 0 := by rw [e1] at h2; linarith
  have e2 : z (node 2) = 0 := by rw [e4] at h4; linarith
  have e3 : z (br 0) = 0 := by rw [e1, e2] at h1; linarith
  casesm* _ ∨ _ <;> subst_vars <;> first | assumption | exact absurd rfl hi0

/-- `mna_unique` / `laws_unique` / `solver_independent` / `*_on` applied: ANY assignment obeying the laws of this circuit
    reports V(2) = 6/7 and I(L1) = 5/7 -/
theorem nv_laws_unique (y : Ix → ℚ) (hy : Laws .ivp 2 exCkt y) : y (node 2) = 6/7 ∧ y (br 1) = 5/7 := by
  have hU : ∀ i, i ≠ node 0 → i ∈ C01.unknowns (stampAll .ivp (2:ℚ) exCkt) → Unknown .ivp 2 exCkt i := fun i a b => ⟨a, b⟩
  have h := laws_unique .ivp 2 exCkt y exX exCkt_wf nv_nonsingular_ivp hy exCkt_laws
  exact ⟨h (node 2) (hU _ (by simp) (by simp [exCkt, C01.unknowns, stampAll, stamp, Stamp.append, branchPattern, admPattern])),
         h (br 1) (hU _ (by simp) (by simp [exCkt, C01.unknowns, stampAll, stamp, Stamp.append, branchPattern, admPattern]))⟩

theorem nv_mna_unique (y : Ix → ℚ) (hy : Solves .ivp 2 exCkt y) : ∀ i, Unknown .ivp 2 exCkt i → y i = exX i :=
  mna_unique .ivp 2 exCkt y exX nv_nonsingular_ivp hy nv_mna_iff_laws

theorem nv_mna_unique_on (y : Ix → ℚ) (hy : Solves .ivp 2 exCkt y) : ∀ i, Unknown .ivp 2 exCkt i → y i = exX i :=
  mna_unique_on _ .ivp 2 exCkt y exX nv_nonsingular_ivp hy nv_mna_iff_laws

theorem nv_laws_unique_on (y : Ix → ℚ) (hy : Laws .ivp 2 exCkt y) : ∀ i, Unknown .ivp 2 exCkt i → y i = exX i :=
  laws_unique_on _ .ivp 2 exCkt y exX exCkt_wf nv_nonsingular_ivp hy exCkt_laws

theorem nv_solver_independent (solver : List (Cpt ℚ) → Ix → ℚ) (h : Solves .ivp 2 exCkt (solver exCkt)) :
    ∀ i, Unknown .ivp 2 exCkt i → solver exCkt i = exX i :=
  solver_independent .ivp 2 exCkt solver (fun _ => exX) h nv_mna_iff_laws nv_nonsingular_ivp

theorem nv_mem_unknowns_stampAll : br 1 ∈ C01.unknowns (stampAll .ivp (2:ℚ) exCkt) :=
  mem_unknowns_stampAll .ivp 2 exCkt (.Ind 2 0 1 2 (some 1) []) (by simp [exCkt]) (br 1)
    (by simp [C01.unknowns, stamp, branchPattern])

/-- `mna_iff_laws_ac` in a carrier that HAS a square root of −1: ℚ(j), at ω = 3, for `V1 1 0 ac 5; R1 1 2 2; C1 2 0 4` -/
theorem nv_mna_iff_laws_ac (x : Ix → Cx ℚ) :
    Solves .lap (Cx.jw 1 * Cx.ofReal 3) [.V 1 0 0 (Cx.ofReal 5), .R 1 2 (Cx.ofReal 2), .Cap 2 0 (Cx.ofReal 4) none] x ↔
    Laws .lap (Cx.jw 1 * Cx.ofReal 3) [.V 1 0 0 (Cx.ofReal 5), .R 1 2 (Cx.ofReal 2), .Cap 2 0 (Cx.ofReal 4) none] x :=
  mna_iff_laws_ac (Cx.jw 1) (Cx.ofReal 3) _ x (by simp [WF, owned])

/-- `dup_row_same_solutions`: `R1 3 4 2; H1 1 2 R1 5; H2 … R1 …` — the control row of R1 stamped a second time (c = 1) -/
theorem nv_dup_row (x : Ix → ℚ) :
    (∀ r, r ≠ node 0 → residual ((stamp .dc 0 (.HY 1 2 0 3 4 1 (1/2 : ℚ) 0 5)).append (ctrlRow 3 4 1 (1/2 : ℚ) 0)) x r = 0) ↔
    (∀ r, r ≠ node 0 → residual (stamp .dc 0 (.HY 1 2 0 3 4 1 (1/2 : ℚ) 0 5)) x r = 0) := by
  refine dup_row_same_solutions _ _ 1 1 (by norm_num) x ?_
  intro r
  by_cases hr : r = br 1
  · subst hr; simp [ctrlRow, stamp, branchPattern, residual, lhsSum, rhsSum, lhsSum_append]
  · simp only [hr, if_false]
    cases r with
    | node k => simp [ctrlRow, residual, lhsSum, rhsSum]
    | br m =>
      have : m ≠ 1 := fun h => hr (by rw [h])
      simp [ctrlRow, residual, lhsSum, rhsSum, Ne.symm this]

/-- `opamp_expand_law`: `E1 1 0 opamp 2 0 10 0 2` with V(2) = 1 and 1 A drawn from the output: internal node 5 at 10 V,
    output V(1) = 10 + 2·J with J = −1 flowing into the output terminal -/
def opX : Ix → ℚ := fun i => match i with | node 1 => 8 | node 2 => 1 | node 5 => 10 | br 0 => -1 | _ => 0

theorem nv_opamp_expand_law :
    vd opX 1 0 = 10 * vd opX 2 0 + 0 * ((volt opX 2 + volt opX 0) / 2) + 2 * opX (br 0) := by
  refine opamp_expand_law .dc 0 opX 5 1 0 2 0 0 10 0 2 (by norm_num) (by decide) (by decide) ?_ ?_
  · norm_num [lsum, outflow, twoTerm, vd, volt, opX]
  · intro p hp
    simp only [laws, List.mem_singleton] at hp
    subst hp; norm_num [vd, volt, opX]

/-! ## Props/C01Stamps.lean : the hypothesis `parsed_<Class> = true` of every per-class theorem holds for the CURRENT
    generated file (if the translator ever fails to read a class these examples break, which is the right alarm) -/

theorem nv_all_parsed :
    Gen.Stamps.parsed_AM = true ∧ Gen.Stamps.parsed_RC = true ∧ Gen.Stamps.parsed_VCVS = true ∧
    Gen.Stamps.parsed_CCCS = true ∧ Gen.Stamps.parsed_VCCS = true ∧ Gen.Stamps.parsed_GY = true ∧
    Gen.Stamps.parsed_CCVS = true ∧ Gen.Stamps.parsed_I = true ∧ Gen.Stamps.parsed_K = true ∧
    Gen.Stamps.parsed_L = true ∧ Gen.Stamps.parsed_SPpp = true ∧ Gen.Stamps.parsed_SPpm = true ∧
    Gen.Stamps.parsed_SPppp = true ∧ Gen.Stamps.parsed_SPpmm = true ∧ Gen.Stamps.parsed_SPppm = true ∧
    Gen.Stamps.parsed_TF = true ∧ Gen.Stamps.parsed_TPA = true ∧ Gen.Stamps.parsed_TPY = true ∧
    Gen.Stamps.parsed_TR = true ∧ Gen.Stamps.parsed_V = true := by decide

/-- hence no `pick` in `srcStamp` falls back to the hand model: `unparsed = []` -/
theorem nv_unparsed_nil : Gen.Stamps.unparsed = [] := rfl

example (s : ℚ) := stamp_AM (K := ℚ) (by decide) .dc s 1 2 0
example (s : ℚ) := stamp_RC_R (K := ℚ) (by decide) .s s 1 2 3 0 0
example (s : ℚ) := stamp_RC_Y (K := ℚ) (by decide) .ac s 1 2 3 0 0
example (s : ℚ) := stamp_RC_C (K := ℚ) (by decide) .ivp s 1 2 3 (some 4)
example (s : ℚ) := stamp_VCVS (K := ℚ) (by decide) .dc s 1 2 3 4 0 10 1
example (s : ℚ) := stamp_VCVS_noAc (K := ℚ) (by decide) .dc s 1 2 3 4 0 10 0
example (s : ℚ) := stamp_CCCS (K := ℚ) (by decide) .dc s 1 2 0 3
example (s : ℚ) := stamp_VCCS (K := ℚ) (by decide) .dc s 1 2 3 4 5
example (s : ℚ) := stamp_GY (K := ℚ) (by decide) .dc s 1 2 3 4 0 1 5
example (s : ℚ) := stamp_CCVS_branch (K := ℚ) (by decide) .dc s true false false false rfl 1 2 0 1 0 0 5 0 0 0
example (s : ℚ) := stamp_CCVS_RC (K := ℚ) (by decide) .ivp s true true 1 2 0 1 3 4 5 (s * 2) (2 * 7)
example (s : ℚ) := stamp_I (K := ℚ) (by decide) .dc s 1 2 3
example (s : ℚ) := stamp_K (K := ℚ) (by decide) .ivp (by decide) s true false 0 1 (1/2) 6 1 0
example (s : ℚ) := stamp_L (K := ℚ) (by decide) .ivp s 1 2 0 3 (some 1)
example (s : ℚ) := stamp_SPpp (K := ℚ) (by decide) .dc s 1 2 3 0
example (s : ℚ) := stamp_SPpm (K := ℚ) (by decide) .dc s 1 2 3 0
example (s : ℚ) := stamp_SPppp (K := ℚ) (by decide) .dc s 1 2 3 4 0
example (s : ℚ) := stamp_SPpmm (K := ℚ) (by decide) .dc s 1 2 3 4 0
example (s : ℚ) := stamp_SPppm (K := ℚ) (by decide) .dc s 1 2 3 4 0
example (s : ℚ) := stamp_TF (K := ℚ) (by decide) .dc s 1 2 3 4 0 2
example (s : ℚ) := stamp_TPA (K := ℚ) (by decide) .dc s 1 2 3 4 0 2 3 1 2
example (s : ℚ) := stamp_TPY (K := ℚ) (by decide) .dc s 1 2 3 4 2 3 1 2
example (s : ℚ) := stamp_TR (K := ℚ) (by decide) .dc s 1 2 0 2
example (s : ℚ) := stamp_V (K := ℚ) (by decide) .dc s 1 0 0 5

/-- `mna_iff_laws_source` applied to `V1 1 0 3; R1 1 2 3; L1 2 0 2 1` in source form (ivp, s = 2) -/
theorem nv_mna_iff_laws_source (x : Ix → ℚ) :
    SolvesSrc .ivp 2 exSrc x ↔ Laws .ivp 2 (exSrc.map (toCpt .ivp)) x :=
  (mna_iff_laws_source (K := ℚ)).2.2 .ivp 2 exSrc x (by simp [WF, exSrc, toCpt, owned])

example (x : Ix → ℚ) := src_solves_iff .ivp 2 exSrc x

/-! ## Props/C01Glue.lean -/

def exPL : List PLine := [⟨"H1", true, false, some "L1"⟩, ⟨"L1", true, false, none⟩, ⟨"GY1", true, true, none⟩]

theorem nv_alloc_complete : "GY1" ++ "X" ∈ alloc exPL :=
  (alloc_complete exPL ⟨"GY1", true, true, none⟩ (by simp [exPL])).2.1 rfl

theorem nv_alloc_nodup : (alloc exPL).Nodup := by
  apply C01.alloc_nodup exPL
  · decide
  · intro c hc hx d hd
    simp only [exPL, List.mem_cons, List.mem_nil_iff, or_false] at hc hd
    rcases hc with rfl | rfl | rfl <;> simp at hx
    rcases hd with rfl | rfl | rfl <;> decide
  · intro c hc cn hcn
    simp only [exPL, List.mem_cons, List.mem_nil_iff, or_false] at hc
    rcases hc with rfl | rfl | rfl <;> simp at hcn
    subst hcn
    exact ⟨⟨"L1", true, false, none⟩, by simp [exPL], rfl⟩

/-- the parsed lines, allocated branches and elaborated components of `V1 1 0 3; R1 1 2 3; L1 2 0 2 1; H1 3 0 L1 5` -/
def exRaw : List RawCpt :=
  [⟨"V1", "V", ["1", "0"], ["3"]⟩, ⟨"R1", "R", ["1", "2"], ["3"]⟩, ⟨"L1", "L", ["2", "0"], ["2", "1"]⟩,
   ⟨"H1", "H", ["3", "0"], ["L1", "5"]⟩]
def exCpts : List (String × Cpt GQ) :=
  [("V1", .V 1 0 0 (GQ.ofRat 3)), ("R1", .R 1 2 (GQ.ofRat 3)), ("L1", .Ind 2 0 1 (GQ.ofRat 2) (some (GQ.ofRat 1)) []),
   ("H1", .H 3 0 2 1 (GQ.ofRat 5))]

theorem nv_branchList : branchList exRaw = ["V1", "L1", "H1"] := by decide +kernel

theorem nv_allocOk : allocOk exRaw (branchList exRaw) exCpts = true := by decide +kernel

theorem nv_alloc_wf : WF (exCpts.map (·.2)) := alloc_wf exRaw (branchList exRaw) exCpts nv_allocOk

/-- `wf_of_owned_eq` / the reading step of `mna_iff_laws_frontend_wf`: the same netlist read in ℚ -/
theorem nv_wf_of_owned_eq : WF ([.V 1 0 0 3, .R 1 2 3, .Ind 2 0 1 2 (some 1) [], .H 3 0 2 1 5] : List (Cpt ℚ)) :=
  wf_of_owned_eq (exCpts.map (·.2)) _ (by simp [exCpts, owned]) nv_alloc_wf

/-- `reported_currents`: a charged capacitor in an initial-value problem (guard: s ≠ 0, C ≠ 0) -/
theorem nv_reported_currents (k : Nat) :
    outflow (K := ℚ) .ivp 2 (fun i => match i with | node 1 => 5 | _ => 0) k (.Cap 1 0 3 (some 4)) = twoTerm 1 0 k 18 :=
  reported_currents .ivp 2 _ (.Cap 1 0 3 (some 4)) 1 0 18 rfl (by intro _; constructor <;> norm_num)
    (by norm_num [reportedCurrent, solveZV0, volt]) k

/-! ## Props/C01Amp.lean : the theorems APPLIED to the adjacent witnesses -/

def fdX : Ix → ℚ := fun i => match i with | node 1 => 1 | node 2 => 0 | node 3 => 7 | node 4 => 3 | node 5 => 5 | _ => 0

theorem nv_fdopamp_expand_law :
    vd fdX 3 4 = 4 * vd fdX 1 2 + 2 * (0 * ((volt fdX 1 + volt fdX 2) / 2)) ∧ volt fdX 3 + volt fdX 4 = 2 * volt fdX 5 := by
  refine fdopamp_expand_law .dc 0 fdX 3 4 1 2 5 0 1 4 0 (by norm_num) ?_
  intro c hc p hp
  simp only [fdopampExpand, List.mem_cons, List.mem_nil_iff, or_false] at hc
  rcases hc with rfl | rfl <;> simp only [laws, List.mem_singleton] at hp <;> subst hp <;> norm_num [vd, volt, fdX]

theorem nv_inamp_expand_law :
    let D := volt exInampX 5 - volt exInampX 6
    let G : ℚ := 1 + 2 * 1 / 2
    vd exInampX 7 0 = D + 3 * ((volt exInampX 5 + volt exInampX 6) / 2) ∧ D * (1 + G / 2) = G * vd exInampX 1 2 := by
  refine inamp_expand_law .dc 0 exInampX 7 0 1 2 3 4 5 6 0 1 2 2 3 1 2 (by norm_num) (by norm_num) (by norm_num)
    (by decide) (by decide) (by decide) (by decide) (by decide) (by decide) (by decide) (by decide) (by decide) (by decide) (by decide)
    ?_ ?_ ?_
  · norm_num [inampExpand, lsum, outflow, twoTerm, vd, volt, exInampX]
  · norm_num [inampExpand, lsum, outflow, twoTerm, vd, volt, exInampX]
  · intro c hc p hp
    simp only [inampExpand, List.mem_cons, List.mem_nil_iff, or_false] at hc
    rcases hc with rfl | rfl | rfl | rfl | rfl <;> simp [laws] at hp <;> subst hp <;> norm_num [vd, volt, exInampX]

/-! ## Props/C01TwoPort.lean -/

/-- `TP1 2 0 1 0 H 2 3 1 2` : h21 = 1 ≠ 0, the H→A conversion the code performs is defined -/
example (x : Ix → ℚ) :=
  tp_bgh_law (K := ℚ) .dc 0 0 x 2 0 1 0 1 .H ⟨2, 3, 1, 2⟩ (Or.inr (Or.inr rfl)) (by simp [convOk, C08.ok_H_A])

example (x : Ix → ℚ) :=
  tp_bgh_law (K := ℚ) .dc 0 0 x 2 0 1 0 1 .B ⟨2, 3, 1, 2⟩ (Or.inl rfl) (by simp [convOk, C08.ok_B_A, M2.det]; norm_num)

example (x : Ix → ℚ) :=
  tp_bgh_law (K := ℚ) .dc 0 0 x 2 0 1 0 1 .G ⟨2, 3, 1, 2⟩ (Or.inr (Or.inl rfl)) (by simp [convOk, C08.ok_G_A])

example (x : Ix → ℚ) :=
  tpz_law (K := ℚ) .dc 0 0 x 2 0 1 0 ⟨2, 3, 1, 2⟩ (by simp [C08.ok_Z_Y, M2.det]; norm_num)

/-! ## Class (e) demonstrations (true for the wrong reason through `x / 0 = 0`) -/

/-- FINDING C01-e1: `R1 1 0 0` (a ZERO-ohm resistor) across `V1 1 0 6`: in a field `1 / 0 = 0`, so both `stamp` and `Laws`
    read the short circuit as an OPEN circuit, and the assignment "6 V, no current" obeys the `Laws` (and by
    `mna_iff_laws` solves the model system).  The real code computes `1/R = zoo`; the driver's carrier `GQ` gives `undef`. -/
theorem e_R_zero_is_open :
    Laws (K := ℚ) .dc 0 [.V 1 0 0 6, .R 1 0 0] (fun i => match i with | node 1 => 6 | _ => 0) := by
  constructor
  · intro k hk
    match k with
    | 0 => exact absurd rfl hk
    | 1 => norm_num [outflow, twoTerm, lsum, vd, volt]
    | (k + 2) => simp [outflow, twoTerm, lsum]
  · intro c hc p hp
    simp only [List.mem_cons, List.mem_nil_iff, or_false] at hc
    rcases hc with rfl | rfl <;> simp [laws] at hp <;> subst hp <;> norm_num [vd, volt]

/-- FINDING C01-c1: `all_accumulate` / `guards_ok` are `true = true`: the Boolean is a literal printed by the Python translator -/
example : Gen.Stamps.allAccumulate = true := rfl
example : Gen.Stamps.guardsOk = true := rfl

end Lcapy.NonVacuity.C01
