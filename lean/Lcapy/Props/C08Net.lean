/-
  PROPERTY C08, TwoPort NETWORK level (round 3).  Only property theorems (with the side conditions
  they are stated under and non-vacuity examples); helper lemmas are in Lcapy/Proofs/TwoPortNet.lean.

  Every definition named `TPN_…`, `equationVectors`, `modelVectors`, `modelSources` is GENERATED from
  /repo/lcapy/twoport.py on every run (Lcapy/Generated/TwoPortNet.lean, harness/translate/tx_tpnet.py).

  0. the vectors of every `equation()` / of the model class attributes are the spec's, and the spec
     relation IS their evaluation;
  1. (G1) S and T relations with the documented normalised waves a = (V + Z0 I)/(2 r), r² = Z0;
  2. (G2) every source-vector conversion preserves the affine port relation; X-model conversions;
  3. cascades of stages held in ANY native representation, any length, any bracketing, with
     sources: relational composition = `Chain` result; chain matrix = product in signal order;
  4. Par2 / Ser2 / Hybrid2 / InverseHybrid2 with sources;
  5. (G3) the existence pivots: representation P of an X matrix exists iff `pivot X P m ≠ 0`.
-/
import Lcapy.Proofs.TwoPortNet
namespace Lcapy.C08
open Lcapy Lcapy.Spec Lcapy.Gen Lcapy.TwoPort
variable {K : Type} [Field K]
set_option linter.unusedSimpArgs false
set_option linter.unusedVariables false

/-! ## 0. The code's equations are the spec's -/

/-- `XMatrix.equation()` of all eight classes, with the sign of every entry -/
theorem equationVectors_match : Gen.equationVectors = Spec.relVectorsRaw := by decide

/-- (definition check, `Iff.rfl` per case: two spellings of the SPEC, no claim about the code) the spec
    relation is the evaluation of those vectors: `lhs = M * rhs` -/
theorem rel_eq_relVec (X : Rep) (m : M2 K) (Z0 : K) (p : Port K) : rel X m Z0 p ↔ relVec X m Z0 p := by
  cases X <;> exact Iff.rfl

/-- … so what `X.equation()` states, read on a port, is exactly `rel X` -/
theorem equation_is_rel (X : Rep) :
    (Gen.equationVectors.lookup X.name =
      some ([(relVectors X).1.1.raw, (relVectors X).1.2.raw], [(relVectors X).2.1.raw, (relVectors X).2.2.raw])) ∧
    ∀ (m : M2 K) (Z0 : K) (p : Port K), rel X m Z0 p ↔
      lin m ((relVectors X).1.1.eval Z0 p) ((relVectors X).1.2.eval Z0 p)
            ((relVectors X).2.1.eval Z0 p) ((relVectors X).2.2.eval Z0 p) := by
  refine ⟨?_, fun m Z0 p => rel_eq_relVec X m Z0 p⟩
  rw [equationVectors_match]; cases X <;> decide

/-- class attributes `model / output / input / offset` of TwoPortAModel … TwoPortZModel (what
    `TwoPort.equation()` prints): `output = params * input + offset` with the spec's vectors -/
theorem modelVectors_match : Gen.modelVectors = Spec.modelVectorsRaw := by decide

/-- the constructors store the source vector in the documented order -/
theorem modelSources_match :
    Gen.modelSources = MRep.all.map (fun r => (r.name, [r.offsetNames.1, r.offsetNames.2])) := by decide

/-- the affine relation of a model is its homogeneous relation plus the offset -/
theorem arel_zero_sources (N : MRep) (m : M2 K) (Z0 : K) (p : Port K) :
    arel N m 0 0 p ↔ rel N.toRep m Z0 p := arel_zero N m Z0 p

/-- `TwoPort.Aparams … TwoPort.Zparams` (dispatch on the class of the native matrix, overrides in the
    model classes): the matrix returned describes the homogeneous port relation of the two-port -/
theorem TPN_params_sound (P : Rep) (t : Stage K) (Z0 : K) (h : okc8 t.rep P t.m Z0) (p : Port K) :
    rel t.rep.toRep t.m Z0 p ↔ rel P (tpnParams P t Z0) Z0 p := by
  rw [tpnParams_eq]; exact conv8_sound t.rep P t.m Z0 p h

/-! ## 1. (G1) scattering representations with the documented normalised wave variables -/

/-- dividing all four waves by 2 r (r a square root of Z0) does not change the S / T relation -/
theorem relN_iff_rel (X : Rep) (m : M2 K) (Z0 r : K) (hr : r * r = Z0) (hz : Z0 ≠ 0) (h2 : (2 : K) ≠ 0)
    (p : Port K) : relN X m Z0 r p ↔ rel X m Z0 p := by
  have hr0 : r ≠ 0 := by rintro rfl; exact hz (by rw [← hr]; ring)
  cases X <;> simp only [relN, rel, relVectors, SVar.evalN, PVar.evalN, lin] <;> try exact Iff.rfl
  all_goals
    generalize wa1 Z0 p = a1; generalize wa2 Z0 p = a2
    generalize wb1 Z0 p = b1; generalize wb2 Z0 p = b2
    constructor <;> rintro ⟨e1, e2⟩ <;> constructor <;> (field_simp at e1 e2 ⊢; first | exact e1 | exact e2)


/-- hence every conversion to or from S / T proved in Props/C08.lean holds verbatim for the
    normalised waves, for any reference impedance with a square root in the field -/
theorem SoundConv.normalised {X P : Rep} {f : M2 K → K → M2 K} {ok : M2 K → K → Prop}
    (h : SoundConv X P f ok) (m : M2 K) (Z0 r : K) (hr : r * r = Z0) (hz : Z0 ≠ 0) (h2 : (2 : K) ≠ 0)
    (o : ok m Z0) (p : Port K) : relN X m Z0 r p ↔ relN P (f m Z0) Z0 r p := by
  rw [relN_iff_rel X m Z0 r hr hz h2, relN_iff_rel P _ Z0 r hr hz h2]; exact h m Z0 p o

/-! ## 2. (G2) two-port models with sources -/

/-- the source vector of every model class, converted to B form (`V2b`, `I2b`), describes the same
    affine port relation -/
theorem sources_to_B_sound (N : MRep) (m : M2 K) (s1 s2 Z0 : K) (h : okc N .B m Z0) (p : Port K) :
    arel N m s1 s2 p ↔
      arel .B (conv N .B m Z0) (TPN_V2b ⟨N, m, s1, s2⟩ Z0) (TPN_I2b ⟨N, m, s1, s2⟩ Z0) p := by
  refine affine_transfer N .B Z0 (fun p => conv_sound N .B m Z0 p h) (basePort N s1 s2)
    (arel_basePort N m s1 s2) ?_ p
  cases N <;>
    simp only [okc, ok_A_B, ok_B_B, ok_G_B, ok_H_B, ok_Y_B, ok_Z_B] at h <;>
    simp only [arel, lin2, basePort, conv, TPN_V2b, TPN_I2b,
      TPN_A_V2b, TPN_A_I2b, TPN_A_V1a, TPN_A_I1a, TPN_B_V2b, TPN_B_I2b, TPN_G_V2b, TPN_G_I2b, TPN_G_I1g, TPN_G_V2g,
      TPN_H_V2b, TPN_H_I2b, TPN_H_V1h, TPN_H_I2h, TPN_Y_V2b, TPN_Y_I2b, TPN_Y_I1y, TPN_Y_I2y,
      TPN_Z_V2b, TPN_Z_I2b, TPN_Z_V1z, TPN_Z_V2z,
      A_to_B, B_to_B, G_to_B, H_to_B, Y_to_B, Z_to_B, A_to_A, M2.inv, M2.det] <;>
    constructor <;> (field_simp; ring)


/-- the inherited (TwoPort) formulas that produce the A, G, H, Y, Z source vectors from (V2b, I2b) -/
theorem sources_from_B_sound (P : MRep) (b : M2 K) (v i Z0 : K) (h : okc .B P b Z0) (p : Port K) :
    arel .B b v i p ↔ (modelOf P ⟨.B, b, v, i⟩ Z0).rel p := by
  rw [modelOf_rel]
  refine affine_transfer .B P Z0 (fun p => conv_sound .B P b Z0 p h) (basePort .B v i)
    (arel_basePort .B b v i) ?_ p
  cases P <;>
    simp only [okc, ok_B_A, ok_B_B, ok_B_G, ok_B_H, ok_B_Y, ok_B_Z] at h <;>
    simp only [Stage.rel, modelOf, TPN_Amodel, TPN_Bmodel, TPN_Gmodel, TPN_Hmodel, TPN_Ymodel, TPN_Zmodel,
      TPN_Aparams, TPN_Bparams, TPN_Gparams, TPN_Hparams, TPN_Yparams, TPN_Zparams,
      TPN_V1a, TPN_I1a, TPN_V2b, TPN_I2b, TPN_I1g, TPN_V2g, TPN_V1h, TPN_I2h, TPN_I1y, TPN_I2y, TPN_V1z, TPN_V2z,
      TPN_B_V1a, TPN_B_I1a, TPN_B_V2b, TPN_B_I2b, TPN_B_I1g, TPN_B_V2g, TPN_B_V1h, TPN_B_I2h, TPN_B_I1y, TPN_B_I2y,
      TPN_B_V1z, TPN_B_V2z,
      arel, lin2, basePort, conv, B_to_A, B_to_B, B_to_G, B_to_H, B_to_Y, B_to_Z, M2.inv, M2.det] <;>
    constructor <;> (field_simp; ring)

theorem stage_viaB (N P : MRep) (hne : N ≠ P) (m : M2 K) (s1 s2 Z0 : K) (h1 : okc N .B m Z0) (h2 : okc N P m Z0)
    (h3 : okc .B P (conv N .B m Z0) Z0) :
    modelOf P ⟨.B, conv N .B m Z0, TPN_V2b ⟨N, m, s1, s2⟩ Z0, TPN_I2b ⟨N, m, s1, s2⟩ Z0⟩ Z0
      = modelOf P ⟨N, m, s1, s2⟩ Z0 := by
  have e := conv_via N .B P m Z0 h1 h3 h2
  cases N <;> cases P <;> (try exact absurd rfl hne) <;>
    simp only [conv, B_to_B, A_to_A, G_to_G, H_to_H, Y_to_Y, Z_to_Z] at e <;>
    simp only [modelOf, TPN_Amodel, TPN_Bmodel, TPN_Gmodel, TPN_Hmodel, TPN_Ymodel, TPN_Zmodel,
      TPN_Aparams, TPN_Bparams, TPN_Gparams, TPN_Hparams, TPN_Yparams, TPN_Zparams,
      TPN_V1a, TPN_I1a, TPN_V2b, TPN_I2b, TPN_I1g, TPN_V2g, TPN_V1h, TPN_I2h, TPN_I1y, TPN_I2y, TPN_V1z, TPN_V2z,
      conv, B_to_B, Stage.mk.injEq, true_and] <;>
    simp only [TPN_A_V1a, TPN_A_I1a, TPN_A_V2b, TPN_A_I2b, TPN_A_I1g, TPN_A_V2g, TPN_A_V1h, TPN_A_I2h, TPN_A_I1y, TPN_A_I2y, TPN_A_V1z, TPN_A_V2z, TPN_B_V1a, TPN_B_I1a, TPN_B_V2b, TPN_B_I2b, TPN_B_I1g, TPN_B_V2g, TPN_B_V1h, TPN_B_I2h, TPN_B_I1y, TPN_B_I2y, TPN_B_V1z, TPN_B_V2z, TPN_G_V1a, TPN_G_I1a, TPN_G_V2b, TPN_G_I2b, TPN_G_I1g, TPN_G_V2g, TPN_G_V1h, TPN_G_I2h, TPN_G_I1y, TPN_G_I2y, TPN_G_V1z, TPN_G_V2z, TPN_H_V1a, TPN_H_I1a, TPN_H_V2b, TPN_H_I2b, TPN_H_I1g, TPN_H_V2g, TPN_H_V1h, TPN_H_I2h, TPN_H_I1y, TPN_H_I2y, TPN_H_V1z, TPN_H_V2z, TPN_Y_V1a, TPN_Y_I1a, TPN_Y_V2b, TPN_Y_I2b, TPN_Y_I1g, TPN_Y_V2g, TPN_Y_V1h, TPN_Y_I2h, TPN_Y_I1y, TPN_Y_I2y, TPN_Y_V1z, TPN_Y_V2z, TPN_Z_V1a, TPN_Z_I1a, TPN_Z_V2b, TPN_Z_I2b, TPN_Z_I1g, TPN_Z_V2g, TPN_Z_V1h, TPN_Z_I2h, TPN_Z_I1y, TPN_Z_I2y, TPN_Z_V1z, TPN_Z_V2z, B_to_B] <;>
    (try simp only [e]) <;>
    first
      | trivial | exact ⟨rfl, rfl⟩ | exact ⟨e.symm, rfl, rfl⟩
      | (simp only [okc, ok_Z_B, ok_Z_Y, ok_B_Y, conv, Z_to_B, M2.det] at h1 h2 h3 ⊢
         obtain ⟨d, hd⟩ : ∃ d, d = m.a11 * m.a22 - m.a12 * m.a21 := ⟨_, rfl⟩
         simp only [← hd] at h2 h3 ⊢
         refine ⟨trivial, ?_, ?_⟩ <;> (field_simp; (try rw [hd]); ring))


/-- side condition of an X-model conversion: the matrices must exist, and (because the code routes
    every source vector through the B form) so must the B form -/
def okModel (N P : MRep) (m : M2 K) (Z0 : K) : Prop :=
  N = P ∨ (okc N .B m Z0 ∧ okc N P m Z0 ∧ okc .B P (conv N .B m Z0) Z0)

/-- `t.Amodel … t.Zmodel` of a two-port held in any native representation: matrix and source
    vector together describe the same affine port relation (all 36 pairs) -/
theorem model_sound (P : MRep) (t : Stage K) (Z0 : K) (h : okModel t.rep P t.m Z0) (p : Port K) :
    t.rel p ↔ (modelOf P t Z0).rel p := by
  obtain ⟨N, m, s1, s2⟩ := t
  by_cases hne : N = P
  · subst hne; rw [model_same]
  · rcases h with h | ⟨h1, h2, h3⟩
    · exact absurd h hne
    · rw [Stage.rel, sources_to_B_sound N m s1 s2 Z0 h1 p, sources_from_B_sound P _ _ _ Z0 h3 p, stage_viaB N P hne m s1 s2 Z0 h1 h2 h3]


/-! ## 3. Cascades -/

/-- two stages in any native representations -/
theorem chain2 (a b : Stage K) (Z0 : K) (ha : okModel a.rep .B a.m Z0) (hb : okModel b.rep .B b.m Z0)
    (V1 I1 V2 I2 : K) :
    (∃ Vm Im, a.rel ⟨V1, I1, Vm, Im⟩ ∧ b.rel ⟨Vm, -Im, V2, I2⟩) ↔ (TPN_chain a b Z0).rel ⟨V1, I1, V2, I2⟩ := by
  have ea := fun p => model_sound .B a Z0 ha p
  have eb := fun p => model_sound .B b Z0 hb p
  simp only [ea, eb]
  simp only [modelOf, TPN_Bmodel, Stage.rel, TPN_chain, TPN_Chain]
  exact B_chain_affine _ _ _ _ _ _ _ _ _ _

/-- any bracketing of a cascade -/
inductive CTree (K : Type) where
  | leaf : Stage K → CTree K
  | node : CTree K → CTree K → CTree K

def CTree.leaves : CTree K → List (Stage K)
  | .leaf t => [t]
  | .node l r => l.leaves ++ r.leaves

/-- what `l.chain(r)` computes, recursively -/
def CTree.eval (Z0 : K) : CTree K → Stage K
  | .leaf t => t
  | .node l r => TPN_chain (l.eval Z0) (r.eval Z0) Z0

/-- (helper, `Or.inl rfl`) the result of a chain is B-native, so its side condition is trivial -/
theorem okModel_chain (a b : Stage K) (Z0 : K) : okModel (TPN_chain a b Z0).rep .B (TPN_chain a b Z0).m Z0 :=
  Or.inl rfl

theorem cascade_tree (tr : CTree K) (Z0 : K) (hok : ∀ t ∈ tr.leaves, okModel t.rep .B t.m Z0)
    (V1 I1 V2 I2 : K) :
    cascRel tr.leaves V1 I1 V2 I2 ↔ (tr.eval Z0).rel ⟨V1, I1, V2, I2⟩ := by
  induction tr generalizing V1 I1 V2 I2 with
  | leaf t => exact cascRel_single t V1 I1 V2 I2
  | node l r ihl ihr =>
    have hl : ∀ t ∈ l.leaves, okModel t.rep .B t.m Z0 := fun t ht => hok t (List.mem_append_left _ ht)
    have hr : ∀ t ∈ r.leaves, okModel t.rep .B t.m Z0 := fun t ht => hok t (List.mem_append_right _ ht)
    have okl : okModel (l.eval Z0).rep .B (l.eval Z0).m Z0 := by
      cases l with
      | leaf t => exact hl t (by simp [CTree.leaves])
      | node a b => exact okModel_chain _ _ Z0
    have okr : okModel (r.eval Z0).rep .B (r.eval Z0).m Z0 := by
      cases r with
      | leaf t => exact hr t (by simp [CTree.leaves])
      | node a b => exact okModel_chain _ _ Z0
    simp only [CTree.leaves, CTree.eval]
    rw [cascRel_append, ← chain2 _ _ Z0 okl okr]
    constructor
    · rintro ⟨Vm, Im, h1, h2⟩; exact ⟨Vm, Im, (ihl hl _ _ _ _).mp h1, (ihr hr _ _ _ _).mp h2⟩
    · rintro ⟨Vm, Im, h1, h2⟩; exact ⟨Vm, Im, (ihl hl _ _ _ _).mpr h1, (ihr hr _ _ _ _).mpr h2⟩

/-- product of the inverse chain matrices, last stage leftmost -/
def prodB (Z0 : K) : List (Stage K) → M2 K
  | [] => ⟨1, 0, 0, 1⟩
  | t :: ts => M2.mul (prodB Z0 ts) (TPN_Bparams t Z0)


theorem prodB_append (Z0 : K) (l1 l2 : List (Stage K)) :
    prodB Z0 (l1 ++ l2) = M2.mul (prodB Z0 l2) (prodB Z0 l1) := by
  induction l1 with
  | nil => simp [prodB, M2_mul_one]
  | cons t rest ih => simp only [List.cons_append, prodB, ih, M2_mul_assoc]

theorem chain_matrix_is_product (tr : CTree K) (Z0 : K) :
    TPN_Bparams (tr.eval Z0) Z0 = prodB Z0 tr.leaves := by
  induction tr with
  | leaf t => simp [CTree.eval, CTree.leaves, prodB, M2_one_mul]
  | node l r ihl ihr =>
    simp only [CTree.eval, CTree.leaves, prodB_append, ← ihl, ← ihr]
    simp only [TPN_chain, TPN_Chain, TPN_Bparams]


/-- (table check, four `rfl`s on the GENERATED aliases: fails to build if the source changes an alias)
    `append`, `cascade`, `*` are `chain`; `prepend` is `chain` with the operands exchanged -/
theorem chain_spellings (a b : Stage K) (Z0 : K) :
    TPN_append a b Z0 = TPN_chain a b Z0 ∧ TPN_cascade a b Z0 = TPN_chain a b Z0 ∧
    TPN_mul a b Z0 = TPN_chain a b Z0 ∧ TPN_prepend a b Z0 = TPN_chain b a Z0 :=
  ⟨rfl, rfl, rfl, rfl⟩

/-- the witness form used by the oracle implies the relational cascade -/
theorem cascWit_sound (ts : List (Stage K)) (ws : List (K × K)) (V1 I1 V2 I2 : K)
    (h : cascWit ts ws V1 I1 V2 I2) : cascRel ts V1 I1 V2 I2 := by
  induction ts generalizing ws V1 I1 with
  | nil => cases ws with
    | nil => exact h
    | cons w ws => exact h.elim
  | cons t rest ih => cases ws with
    | nil => exact h.elim
    | cons w ws =>
      obtain ⟨Vm, Im⟩ := w
      exact ⟨Vm, Im, h.1, ih ws Vm (-Im) h.2⟩

/-! ## 4. Parallel, series, hybrid and inverse-hybrid connections, with sources -/

/-- parallel connection -/
theorem par2_sound (a b : Stage K) (Z0 : K) (ha : okModel a.rep .Y a.m Z0) (hb : okModel b.rep .Y b.m Z0)
    (c : Conn K) (hc : c.par) (hp : a.rel c.p) (hq : b.rel c.q) : (TPN_Par2 a b Z0).rel c.r := by
  have ea := (model_sound .Y a Z0 ha c.p).mp hp
  have eb := (model_sound .Y b Z0 hb c.q).mp hq
  obtain ⟨⟨pV1, pI1, pV2, pI2⟩, ⟨qV1, qI1, qV2, qI2⟩, ⟨rV1, rI1, rV2, rI2⟩⟩ := c
  simp only [Conn.par] at hc
  obtain ⟨c1, c2, c3, c4, c5, c6⟩ := hc
  simp only [modelOf, TPN_Ymodel, Stage.rel, TPN_Par2, arel, lin2, M2.add] at ea eb ⊢
  obtain ⟨e1, e2⟩ := ea
  obtain ⟨e3, e4⟩ := eb
  subst c1 c3
  constructor
  · rw [c5, e1, e3, c2, c4]; ring
  · rw [c6, e2, e4, c2, c4]; ring

/-- series connection -/
theorem ser2_sound (a b : Stage K) (Z0 : K) (ha : okModel a.rep .Z a.m Z0) (hb : okModel b.rep .Z b.m Z0)
    (c : Conn K) (hc : c.ser) (hp : a.rel c.p) (hq : b.rel c.q) : (TPN_Ser2 a b Z0).rel c.r := by
  have ea := (model_sound .Z a Z0 ha c.p).mp hp
  have eb := (model_sound .Z b Z0 hb c.q).mp hq
  obtain ⟨⟨pV1, pI1, pV2, pI2⟩, ⟨qV1, qI1, qV2, qI2⟩, ⟨rV1, rI1, rV2, rI2⟩⟩ := c
  simp only [Conn.ser] at hc
  obtain ⟨c1, c2, c3, c4, c5, c6⟩ := hc
  simp only [modelOf, TPN_Zmodel, Stage.rel, TPN_Ser2, arel, lin2, M2.add] at ea eb ⊢
  obtain ⟨e1, e2⟩ := ea
  obtain ⟨e3, e4⟩ := eb
  subst c1 c3
  constructor
  · rw [c5, e1, e3, c2, c4]; ring
  · rw [c6, e2, e4, c2, c4]; ring

/-- hybrid connection (series input, parallel output) -/
theorem hybrid2_sound (a b : Stage K) (Z0 : K) (ha : okModel a.rep .H a.m Z0) (hb : okModel b.rep .H b.m Z0)
    (c : Conn K) (hc : c.hyb) (hp : a.rel c.p) (hq : b.rel c.q) : (TPN_Hybrid2 a b Z0).rel c.r := by
  have ea := (model_sound .H a Z0 ha c.p).mp hp
  have eb := (model_sound .H b Z0 hb c.q).mp hq
  obtain ⟨⟨pV1, pI1, pV2, pI2⟩, ⟨qV1, qI1, qV2, qI2⟩, ⟨rV1, rI1, rV2, rI2⟩⟩ := c
  simp only [Conn.hyb] at hc
  obtain ⟨c1, c2, c3, c4, c5, c6⟩ := hc
  simp only [modelOf, TPN_Hmodel, Stage.rel, TPN_Hybrid2, arel, lin2, M2.add] at ea eb ⊢
  obtain ⟨e1, e2⟩ := ea
  obtain ⟨e3, e4⟩ := eb
  subst c1 c3
  constructor
  · rw [c5, e1, e3, c2, c4]; ring
  · rw [c6, e2, e4, c2, c4]; ring

/-- inverse hybrid connection (parallel input, series output) -/
theorem inverse_hybrid2_sound (a b : Stage K) (Z0 : K) (ha : okModel a.rep .G a.m Z0) (hb : okModel b.rep .G b.m Z0)
    (c : Conn K) (hc : c.invhyb) (hp : a.rel c.p) (hq : b.rel c.q) : (TPN_InverseHybrid2 a b Z0).rel c.r := by
  have ea := (model_sound .G a Z0 ha c.p).mp hp
  have eb := (model_sound .G b Z0 hb c.q).mp hq
  obtain ⟨⟨pV1, pI1, pV2, pI2⟩, ⟨qV1, qI1, qV2, qI2⟩, ⟨rV1, rI1, rV2, rI2⟩⟩ := c
  simp only [Conn.invhyb] at hc
  obtain ⟨c1, c2, c3, c4, c5, c6⟩ := hc
  simp only [modelOf, TPN_Gmodel, Stage.rel, TPN_InverseHybrid2, arel, lin2, M2.add] at ea eb ⊢
  obtain ⟨e1, e2⟩ := ea
  obtain ⟨e3, e4⟩ := eb
  subst c1 c3
  constructor
  · rw [c5, e1, e3, c2, c4]; ring
  · rw [c6, e2, e4, c2, c4]; ring

/-- (table check, four `rfl`s on the GENERATED aliases) the method spellings of the four connections -/
theorem connection_spellings (a b : Stage K) (Z0 : K) :
    TPN_parallel a b Z0 = TPN_Par2 a b Z0 ∧ TPN_series a b Z0 = TPN_Ser2 a b Z0 ∧
    TPN_hybrid a b Z0 = TPN_Hybrid2 a b Z0 ∧ TPN_inverse_hybrid a b Z0 = TPN_InverseHybrid2 a b Z0 :=
  ⟨rfl, rfl, rfl, rfl⟩

/-- `TwoPortZModel.I1y / I2y` are computed directly from Z (not through B): only det Z ≠ 0 is needed -/
theorem Zmodel_Ymodel_direct (m : M2 K) (s1 s2 Z0 : K) (h : ok_Z_Y m Z0) (p : Port K) :
    arel .Z m s1 s2 p ↔ (TPN_Ymodel ⟨.Z, m, s1, s2⟩ Z0).rel p := by
  rw [show TPN_Ymodel ⟨.Z, m, s1, s2⟩ Z0 = modelOf .Y ⟨.Z, m, s1, s2⟩ Z0 from rfl, modelOf_rel]
  refine affine_transfer .Z .Y Z0 (fun p => conv_sound .Z .Y m Z0 p h) (basePort .Z s1 s2)
    (arel_basePort .Z m s1 s2) ?_ p
  simp only [ok_Z_Y] at h
  obtain ⟨d, hd⟩ : ∃ d, d = m.det := ⟨_, rfl⟩
  rw [← hd] at h
  simp only [modelOf, TPN_Ymodel, TPN_I1y, TPN_I2y, TPN_Z_I1y, TPN_Z_I2y, TPN_Z_V1z, TPN_Z_V2z, arel, lin2, basePort,
    conv, Z_to_Y, ← hd]
  constructor <;> (field_simp; ring)


/-! ## 5. (G3) existence pivots -/
set_option linter.unnecessarySimpa false

/-- (G3, necessity) if the pivot vanishes no `P` matrix describes the two-port -/
theorem pivot_necessary (X P : MRep) (m : M2 K) (Z0 : K) (h0 : pivot X P m = 0) :
    ¬ ∃ z : M2 K, ∀ p, rel X.toRep m Z0 p ↔ rel P.toRep z Z0 p := by
  rintro ⟨z, h⟩
  by_cases hd : (X, P) ∈ [(MRep.A, MRep.B), (.B, .A), (.G, .H), (.H, .G), (.Y, .Z), (.Z, .Y)]
  · have hdet : m.det = 0 := by
      simp only [List.mem_cons, Prod.mk.injEq, List.mem_nil_iff, or_false] at hd
      rcases hd with ⟨rfl, rfl⟩ | ⟨rfl, rfl⟩ | ⟨rfl, rfl⟩ | ⟨rfl, rfl⟩ | ⟨rfl, rfl⟩ | ⟨rfl, rfl⟩ <;> exact h0
    obtain ⟨x, y, hxy, k1, k2⟩ := ker_of_det_zero m hdet
    have := (h (killPort x y X P m)).mp (killPort_rel x y X P m Z0)
    simp only [List.mem_cons, Prod.mk.injEq, List.mem_nil_iff, or_false] at hd
    rcases hd with ⟨rfl, rfl⟩ | ⟨rfl, rfl⟩ | ⟨rfl, rfl⟩ | ⟨rfl, rfl⟩ | ⟨rfl, rfl⟩ | ⟨rfl, rfl⟩ <;>
      simp only [killPort, rel, lin, MRep.toRep, k1, k2, neg_zero, mul_zero, add_zero, neg_neg] at this <;>
      rcases hxy with hx | hy <;> simp_all
  · have := (h (killPort 0 0 X P m)).mp (killPort_rel 0 0 X P m Z0)
    cases X <;> cases P <;> simp only [pivot] at h0 <;>
      first
        | exact absurd h0 one_ne_zero
        | exact absurd (by decide) hd
        | (simp [killPort, rel, lin, MRep.toRep, h0] at this)

/-- (G3, sufficiency) if the pivot is non-zero the `P` matrix exists -/
theorem pivot_sufficient (X P : MRep) (m : M2 K) (Z0 : K) (h : pivot X P m ≠ 0) :
    ∃ z : M2 K, ∀ p, rel X.toRep m Z0 p ↔ rel P.toRep z Z0 p := by
  cases hd : directConv X P m with
  | some z => exact ⟨z, directConv_sound X P m z Z0 hd h⟩
  | none =>
    refine ⟨conv X P m Z0, fun p => conv_sound X P m Z0 p ?_⟩
    cases X <;> cases P <;> simp only [directConv, reduceCtorEq] at hd <;>
      simpa only [okc, pivot, ok_A_A, ok_A_B, ok_A_H, ok_A_Y, ok_A_Z, ok_B_A, ok_B_B, ok_B_G, ok_B_H, ok_B_Y, ok_B_Z,
        ok_G_A, ok_G_B, ok_G_G, ok_G_H, ok_H_A, ok_H_B, ok_H_G, ok_H_H, ok_H_Y, ok_H_Z,
        ok_Y_A, ok_Y_B, ok_Y_H, ok_Y_Y, ok_Y_Z, ok_Z_A, ok_Z_B, ok_Z_H, ok_Z_Y, ok_Z_Z, ne_eq, not_false_eq_true] using h

/-- (G3) representation `P` of the two-port with `X` matrix `m` exists exactly when the pivot is non-zero -/
theorem pivot_exact (X P : MRep) (m : M2 K) (Z0 : K) :
    (∃ z : M2 K, ∀ p, rel X.toRep m Z0 p ↔ rel P.toRep z Z0 p) ↔ pivot X P m ≠ 0 :=
  ⟨fun h h0 => pivot_necessary X P m Z0 h0 h, pivot_sufficient X P m Z0⟩

/-- the side condition of every Lcapy route implies the pivot (Lcapy never returns a finite matrix
    that does not exist); for the five delegated pairs it is strictly stronger -/
theorem okc_implies_pivot (X P : MRep) (m : M2 K) (Z0 : K) (h : okc X P m Z0) : pivot X P m ≠ 0 :=
  (pivot_exact X P m Z0).mp ⟨conv X P m Z0, fun p => conv_sound X P m Z0 p h⟩

/-- e.g. an ideal transformer (A = diag(n, 1/n)) has neither Z nor Y; a series impedance alone
    (A = [[1, Z], [0, 1]]) has Y but no Z -/
example : pivot .A .Z (⟨2, 0, 0, 1/2⟩ : M2 ℚ) = 0 ∧ pivot .A .Y (⟨2, 0, 0, 1/2⟩ : M2 ℚ) = 0 := by
  norm_num [pivot]
example : pivot .A .Z (⟨1, 5, 0, 1⟩ : M2 ℚ) = 0 ∧ pivot .A .Y (⟨1, 5, 0, 1⟩ : M2 ℚ) ≠ 0 := by
  norm_num [pivot]
/-- G of A = [[2, 3], [5, 0]] exists (a11 ≠ 0) although Lcapy's route through H does not (a22 = 0) -/
example : pivot .A .G (⟨2, 3, 5, 0⟩ : M2 ℚ) ≠ 0 ∧ ¬ okc .A .G (⟨2, 3, 5, 0⟩ : M2 ℚ) 1 := by
  norm_num [pivot, okc, ok_A_G, ok_A_H]

/-! ## 7. Constructors of the model classes keep the entries they are given -/

/-- (table check over the complete regenerated table) every scalar argument of the six
    `TwoPort?Model.__init__` is defaulted only when it is missing (`None`), never because it is falsy -/
theorem ctorRules_keep_given :
    Gen.ctorRules = MRep.all.map (fun r => (r.name, [ArgRule.ifNone, .ifNone, .ifNone, .ifNone], [ArgRule.ifNone, .ifNone])) := by
  decide

/-- a rule that substitutes the default for falsy arguments loses a zero entry … -/
theorem ifFalsy_loses_zero [DecidableEq K] : ArgRule.ifFalsy.apply (some (0 : K)) = none := by
  simp [ArgRule.apply]

/-- … the rule the code uses keeps every given value, zero included: the native matrix of
    `TwoPort?Model(x11, x12, x21, x22, s1, s2)` has exactly the entries and sources given -/
theorem ctor_keeps_entries [DecidableEq K] (N : MRep) :
    ∃ e, Gen.ctorRules.lookup N.name = some e ∧ e.1.length = 4 ∧ e.2.length = 2 ∧
      ∀ r ∈ e.1 ++ e.2, ∀ v : K, r.apply (some v) = some v := by
  rw [ctorRules_keep_given]
  cases N <;> refine ⟨_, rfl, rfl, rfl, ?_⟩ <;> intro r hr v <;>
    simp only [List.cons_append, List.nil_append, List.mem_cons, List.mem_nil_iff, or_false, or_self] at hr <;>
    subst hr <;> rfl

/-! ## 6. Non-vacuity -/
def zSample : Stage ℚ := ⟨.Z, ⟨5, 2, 7, 3⟩, 3, -4⟩
def ySample : Stage ℚ := ⟨.Y, ⟨1, 2, 3, 5⟩, 2, 1⟩
def hSample : Stage ℚ := ⟨.H, ⟨2, 1/3, -4/5, 3/7⟩, 2, -3⟩
def gSample : Stage ℚ := ⟨.G, ⟨2, 1/3, -4/5, 3/7⟩, 2, -3⟩
def aSample : Stage ℚ := ⟨.A, ⟨2, 3, 5, 11⟩, 1, -2⟩

macro "okm" : tactic => `(tactic|
  (refine Or.inr ⟨?_, ?_, ?_⟩ <;>
   norm_num [okc, conv, zSample, ySample, hSample, gSample, aSample,
     ok_A_A, A_to_A, ok_A_B, A_to_B, ok_A_G, A_to_G, ok_A_H, A_to_H, ok_A_Y, A_to_Y, ok_A_Z, A_to_Z,
     ok_B_A, B_to_A, ok_B_B, B_to_B, ok_B_G, B_to_G, ok_B_H, B_to_H, ok_B_Y, B_to_Y, ok_B_Z, B_to_Z,
     ok_G_A, G_to_A, ok_G_B, G_to_B, ok_G_G, G_to_G, ok_G_H, G_to_H, ok_G_Y, G_to_Y, ok_G_Z, G_to_Z,
     ok_H_A, H_to_A, ok_H_B, H_to_B, ok_H_G, H_to_G, ok_H_H, H_to_H, ok_H_Y, H_to_Y, ok_H_Z, H_to_Z,
     ok_Y_A, Y_to_A, ok_Y_B, Y_to_B, ok_Y_G, Y_to_G, ok_Y_H, Y_to_H, ok_Y_Y, Y_to_Y, ok_Y_Z, Y_to_Z,
     ok_Z_A, Z_to_A, ok_Z_B, Z_to_B, ok_Z_G, Z_to_G, ok_Z_H, Z_to_H, ok_Z_Y, Z_to_Y, ok_Z_Z, Z_to_Z,
     M2.inv, M2.det, M2.sdiv]))

example : okModel zSample.rep .B zSample.m 1 := by okm
example : okModel ySample.rep .B ySample.m 1 := by okm
example : okModel hSample.rep .B hSample.m 1 := by okm
example : okModel gSample.rep .B gSample.m 1 := by okm
example : okModel aSample.rep .B aSample.m 1 := by okm
example : okModel zSample.rep .H zSample.m 1 := by okm
example : okModel zSample.rep .G zSample.m 1 := by okm
example : okModel hSample.rep .Y hSample.m 1 := by okm
example : okModel gSample.rep .Z gSample.m 1 := by okm
example : okModel aSample.rep .G aSample.m 1 := by okm
example : okModel ySample.rep .A ySample.m 1 := by okm
/-- a concrete mixed cascade satisfies the hypotheses of `cascade_tree` -/
example : ∀ t ∈ (CTree.node (.node (.leaf zSample) (.leaf ySample)) (.leaf hSample)).leaves,
    okModel t.rep .B t.m (1 : ℚ) := by
  intro t ht
  simp only [CTree.leaves, List.cons_append, List.nil_append, List.mem_cons, List.mem_nil_iff, or_false] at ht
  rcases ht with rfl | rfl | rfl <;> okm
/-- wave normalisation: r = 3 is a square root of Z0 = 9 -/
example : (3 : ℚ) * 3 = 9 ∧ (9 : ℚ) ≠ 0 ∧ (2 : ℚ) ≠ 0 := by norm_num
/-- a concrete port of the Z sample -/
example : zSample.rel ⟨3 + 5 * 1 + 2 * 2, 1, -4 + 7 * 1 + 3 * 2, 2⟩ := by
  norm_num [Stage.rel, zSample, arel, lin2]

end Lcapy.C08
