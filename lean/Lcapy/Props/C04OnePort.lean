/-
  PROPERTY C04, the ONE-PORT-NETWORK half: "for … any one-port network, the reported Thevenin and Norton models are
  equivalent to each other … and, when the original is replaced by either model, the voltage and current delivered to an
  arbitrary external load are unchanged".

  Over the relational spec of C07 (Spec/OnePort.lean: a one-port denotes the set of (v, i) pairs it admits; series = same
  current, voltages add; parallel = same voltage, currents add) and the model of `oneport.py`'s algebra
  (Model/OnePort.lean: `Net.imp`, `Net.voc`, `Net.adm`, `Net.isc`), `OnePort.thevenin()` returns `V(Voc) + Z(Z)` and
  `OnePort.norton()` returns `I(Isc) | Y(Y)` (oneport.py: `Ser(sV(Voc), Z(Z))`, `Par(sI(Isc), Y(Y))`; for a network
  without independent sources the model keeps Z(s) / Y(s), fix 54b32de).  For EVERY tree inside the precondition of C07
  (`tOK` / `nOK`: no ideal voltage source is shunted, no ideal current source is in series, no sum vanishes at the point):

    `oneport_thevenin_equiv`, `oneport_norton_equiv` : the model network admits EXACTLY the (v, i) pairs of the tree
    `oneport_models_equiv`                          : hence the two models admit the same pairs (each other's equivalent)
    `oneport_any_load`                              : hence, with any load relation L across the terminals, the set of
                                                      operating points (v, i) is the same for the tree and for either model
-/
import Lcapy.Props.C07
namespace Lcapy.C04
open Lcapy.OnePort
variable {K : Type} [Field K] [DecidableEq K]

/-- what `OnePort.thevenin()` returns: an s-domain voltage source in series with an impedance -/
def thevNet (Voc Z : K) : Net K := .ser [.leaf (.V .sdom Voc), .leaf (.Z Z)]
/-- what `OnePort.norton()` returns: an s-domain current source in parallel with an admittance -/
def nortNet (Isc Y : K) : Net K := .par [.leaf (.I .sdom Isc), .leaf (.Y Y)]

omit [DecidableEq K] in
theorem thevNet_rel (s Voc Z v i : K) : (thevNet Voc Z).rel s v i ↔ v = Voc + Z * i := by
  simp only [thevNet, Net.rel, relSer, SerRel, Leaf.rel]
  constructor
  · rintro ⟨v1, v2, rfl, ⟨v3, v4, rfl, rfl, rfl⟩, rfl⟩; ring
  · rintro rfl; exact ⟨Voc, Z * i, rfl, ⟨Z * i, 0, rfl, rfl, by ring⟩, rfl⟩

omit [DecidableEq K] in
theorem nortNet_rel (s Isc Y v i : K) : (nortNet Isc Y).rel s v i ↔ i = Y * v - Isc := by
  simp only [nortNet, Net.rel, relPar, ParRel, Leaf.rel]
  constructor
  · rintro ⟨i1, i2, rfl, ⟨i3, i4, rfl, rfl, rfl⟩, rfl⟩; ring
  · rintro rfl; exact ⟨-Isc, Y * v, rfl, ⟨Y * v, 0, rfl, rfl, by ring⟩, by ring⟩

/-- **oneport_thevenin_equiv**: the Thevenin model built from the tree's own `Voc` and `Z` admits exactly the pairs
    (v, i) the tree admits — for every tree, any depth and width, sources and initial conditions anywhere. -/
theorem oneport_thevenin_equiv (s : K) (n : Net K) (h : n.tOK s = true) (v i : K) :
    n.rel s v i ↔ (thevNet (n.voc s) (n.imp s)).rel s v i := by
  rw [thevNet_rel]
  exact C07.ser_thevenin s n h (C07.icOK_always s n) v i

/-- **oneport_norton_equiv** -/
theorem oneport_norton_equiv (s : K) (n : Net K) (h : n.nOK s = true) (v i : K) :
    n.rel s v i ↔ (nortNet (n.isc s) (n.adm s)).rel s v i := by
  rw [nortNet_rel]
  exact C07.par_norton s n h (C07.icOK_always s n) v i

/-- **oneport_models_equiv**: the reported Thevenin and Norton models are equivalent to each other -/
theorem oneport_models_equiv (s : K) (n : Net K) (ht : n.tOK s = true) (hn : n.nOK s = true) (v i : K) :
    (thevNet (n.voc s) (n.imp s)).rel s v i ↔ (nortNet (n.isc s) (n.adm s)).rel s v i := by
  rw [← oneport_thevenin_equiv s n ht, ← oneport_norton_equiv s n hn]

/-- **oneport_any_load**: with an ARBITRARY load relation L across the terminals (v the terminal voltage, i the
    current into the + terminal of the network), the operating points are the same for the tree and for its models. -/
theorem oneport_any_load (s : K) (n : Net K) (ht : n.tOK s = true) (hn : n.nOK s = true) (L : K → K → Prop) (v i : K) :
    ((n.rel s v i ∧ L v i) ↔ ((thevNet (n.voc s) (n.imp s)).rel s v i ∧ L v i)) ∧
    ((n.rel s v i ∧ L v i) ↔ ((nortNet (n.isc s) (n.adm s)).rel s v i ∧ L v i)) := by
  rw [← oneport_thevenin_equiv s n ht, ← oneport_norton_equiv s n hn]
  exact ⟨Iff.rfl, Iff.rfl⟩

/-- non-vacuity: (R 2 + L 3 (i0 = 1)) | (C 4 (v0 = 5) + Vstep 7) | Istep 2 at s = 2 (the tree of Props/C07.lean) is inside
    both preconditions -/
example : let n : Net ℚ := .par [.ser [.leaf (.R 2), .leaf (.L 3 (some 1))],
                                 .ser [.leaf (.C 4 (some 5)), .leaf (.V .step (7/2))], .leaf (.I .step 1)]
    n.tOK 2 = true ∧ n.nOK 2 = true := by decide +kernel

end Lcapy.C04
