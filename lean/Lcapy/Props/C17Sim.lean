/-
  C17, last clause ("responses computed numerically ... converge to the symbolic response as the step shrinks"),
  part 1: the time-stepping simulator `cct.sim(tv)` (lcapy/simulator.py).

  Model: `Lcapy/Model/SimStep.lean` (`simStep`, `simRun`, `sim`) over the C01 MNA model at kind `.time`, with the
  companion formulas `geq/veq`, the step size `stepDt` and the stamp pattern GENERATED from the source text
  (`Lcapy/Generated/SimCompanion.lean`).  All theorems are for every netlist of the modelled vocabulary (any number of
  capacitors and inductors, any resistive rest), every grid (uniform or not), every (untrusted) linear solver.

    step_dt_local            the step size used at step n is t_n - t_{n-1}
    stamp_is_companion       what `SimulatedComponent.stamp` adds to A and Z is the stamp of `Y n1 d geq`, `V d n2 m veq`
    sim_step_solves          an accepted step satisfies KCL at every node and every component's relation in the companion netlist
    sim_step_companion       ... in particular  i_n = geq (v(n1) - v(d))  and  v(d) - v(n2) = veq  for every reactive component
    sim_step_law             ... hence the discretised element law for the step size the step was given
    sim_step_kirchhoff       ... and KCL of the ORIGINAL circuit with every reactive component carrying its current i_n
    sim_run_law              every step of a whole run obeys the law with ITS OWN step size dt_n = t_n - t_{n-1}
    trap_exact_quadratic / be_exact_linear / trap_defect_cubic / be_defect_quadratic
                             consistency of the discretised laws as polynomial identities in (t0, t1): exact for signals of
                             degree ≤ 2 (trapezoidal) / ≤ 1 (backward Euler), local defect -C h³/2 resp. -C h² on the next
                             monomial: order 2 resp. 1 for ANY choice of the grid.
  Not a theorem (harness): floating point (numpy.linalg.inv), and the limit statement itself; the convergence oracle
  compares `cct.sim` with the symbolic response on fine / coarse / non-uniform grids.
-/
import Lcapy.Proofs.SimStepBase
import Mathlib.Tactic.Ring
import Mathlib.Tactic.FieldSimp
import Mathlib.Tactic.LinearCombination
import Mathlib.Tactic.NormNum
import Mathlib.Algebra.Field.Basic
namespace Lcapy.C17
open Lcapy.MNA Ix Lcapy.Sim Lcapy.Gen.Sim
variable {K : Type} [Field K] [DecidableEq K]

/-! ### the source text: step size and stamp -/

omit [DecidableEq K] in
/-- **step_dt_local**: the step size `Simulator._step` uses at step n is `t_n - t_{n-1}` (not `tv[1] - tv[0]`). -/
theorem step_dt_local (tcur tprev t1 t0 : K) : stepDt tcur tprev t1 t0 = tcur - tprev := rfl

omit [DecidableEq K] in
/-- **stamp_is_companion**: the entries `SimulatedComponent.stamp` adds to A / Z are the MNA stamp of the admittance
    `Y n1 d geq` (matrix part) and of the source value of `V d n2 m veq` (right-hand side). -/
theorem stamp_is_companion (n1 d n2 m : Nat) (g v : K) :
    (stampA n1 d g).map (fun e => (node e.1, node e.2.1, e.2.2)) = (stamp .time (0 : K) (.Y n1 d g)).lhs ∧
    (stampZ m v).map (fun e => (br e.1, e.2)) = (stamp .time (0 : K) (.V d n2 m v)).rhs :=
  ⟨rfl, rfl⟩

/-! ### one accepted step -/

/-- **sim_step_solves**: an accepted step satisfies KCL at every non-ground node and the defining relation of every
    component of the companion netlist, whatever the solver. -/
theorem sim_step_solves (solver : List (Cpt K) → Ix → K) (meth : Method) (others : List (Cpt K))
    (rs : List (React K)) (dt : K) (st : List (K × K)) (x : Ix → K)
    (h : simStep solver meth others rs dt st = some x) :
    Laws .time 0 (others ++ companions meth rs dt st) x :=
  simStep_laws h

/-- **sim_step_companion**: in an accepted step the current of every reactive component is `geq` times the voltage
    across its companion conductance, and its companion source holds `veq`. -/
theorem sim_step_companion (solver : List (Cpt K) → Ix → K) (meth : Method) (others : List (Cpt K))
    (rs : List (React K)) (dt : K) (st : List (K × K)) (x : Ix → K)
    (h : simStep solver meth others rs dt st = some x) (j : Nat) (hj : j < rs.length) (hs : j < st.length) :
    x (br (rs[j]).m) = geq meth rs[j] dt st[j].1 st[j].2 * vd x rs[j].n1 rs[j].d ∧
    vd x rs[j].d rs[j].n2 = veq meth rs[j] dt st[j].1 st[j].2 := by
  obtain ⟨_, hd, _, _⟩ := simStep_some h
  exact companion_of_laws (dummiesOK_get meth _ dt rs st hd j hj hs) (simStep_laws h)

omit [DecidableEq K] in
/-- the algebra behind `sim_step_law`: the companion relations with the GENERATED `geq/veq` imply the discretised law -/
theorem companion_law (meth : Method) (r : React K) (dt v0 i0 u i w : K)
    (hi : i = geq meth r dt v0 i0 * u) (hw : w = veq meth r dt v0 i0)
    (hdt : dt ≠ 0) (hval : r.val ≠ 0) (h2 : (2 : K) ≠ 0) :
    lawDefect meth r.isInd r.val dt v0 i0 (u + w) i = 0 := by
  obtain ⟨isInd, n1, n2, d, m, val⟩ := r
  simp only at hval
  subst hi hw
  cases meth <;> cases isInd <;>
    simp only [lawDefect, geq, veq, geq_CapacitorTrapezoid, veq_CapacitorTrapezoid, geq_InductorTrapezoid,
      veq_InductorTrapezoid, geq_CapacitorBackwardEuler, veq_CapacitorBackwardEuler, geq_InductorBackwardEuler,
      veq_InductorBackwardEuler] <;>
    field_simp <;> ring

/-- **sim_step_law**: an accepted step obeys the discretised element law (trapezoidal / backward Euler) of every
    reactive component, for the step size the step was given and the previous state it was given. -/
theorem sim_step_law (solver : List (Cpt K) → Ix → K) (meth : Method) (others : List (Cpt K))
    (rs : List (React K)) (dt : K) (st : List (K × K)) (x : Ix → K)
    (h : simStep solver meth others rs dt st = some x) (j : Nat) (hj : j < rs.length) (hs : j < st.length)
    (hdt : dt ≠ 0) (hval : rs[j].val ≠ 0) (h2 : (2 : K) ≠ 0) :
    lawDefect meth rs[j].isInd rs[j].val dt st[j].1 st[j].2 (vd x rs[j].n1 rs[j].n2) (x (br rs[j].m)) = 0 := by
  obtain ⟨hi, hv⟩ := sim_step_companion solver meth others rs dt st x h j hj hs
  have hV : vd x rs[j].n1 rs[j].n2 = vd x rs[j].n1 rs[j].d + vd x rs[j].d rs[j].n2 := by
    simp only [vd]; ring
  rw [hV]
  exact companion_law meth rs[j] dt st[j].1 st[j].2 _ _ _ hi hv hdt hval h2

/-- **sim_step_kirchhoff**: KCL of the ORIGINAL circuit at every node that is neither ground nor a dummy node, each
    reactive component carrying its solved current. -/
theorem sim_step_kirchhoff (solver : List (Cpt K) → Ix → K) (meth : Method) (others : List (Cpt K))
    (rs : List (React K)) (dt : K) (st : List (K × K)) (x : Ix → K)
    (h : simStep solver meth others rs dt st = some x) (k : Nat) (hk : k ≠ 0) (hkd : ∀ r ∈ rs, r.d ≠ k) :
    lsum (others.map (outflow .time 0 x k)) + lsum (rs.map (fun r => twoTerm r.n1 r.n2 k (x (br r.m)))) = 0 := by
  obtain ⟨_, hd, _, _⟩ := simStep_some h
  have hlen := dummiesOK_length meth _ dt rs st hd
  have kcl := (simStep_laws h).1 k hk
  rw [List.map_append, lsum_append] at kcl
  rw [← lsum_companions meth dt x k rs st hlen hkd
    (fun j hj hs => (sim_step_companion solver meth others rs dt st x h j hj hs).1)]
  exact kcl

/-! ### the whole run -/

/-- one step obeys the discretised law of every reactive component with a non-zero value, for step size `h` -/
def StepOK (meth : Method) (rs : List (React K)) (h : K) (st : List (K × K)) (x : Ix → K) : Prop :=
  ∀ j (hj : j < rs.length) (hs : j < st.length), rs[j].val ≠ 0 →
    lawDefect meth rs[j].isInd rs[j].val h st[j].1 st[j].2 (vd x rs[j].n1 rs[j].n2) (x (br rs[j].m)) = 0

/-- every step of a run obeys the law for ITS OWN step size `t_n - t_{n-1}` and the state read off the previous step,
    and solves the companion netlist with the sources at `t_n` -/
def RunOK (meth : Method) (others : K → List (Cpt K)) (rs : List (React K)) :
    K → List (K × K) → List K → List (Ix → K) → Prop
  | _, _, [], [] => True
  | tp, st, t :: ts, x :: xs =>
      StepOK meth rs (t - tp) st x ∧ Laws .time 0 (others t ++ companions meth rs (t - tp) st) x ∧
      RunOK meth others rs t (readState x rs) ts xs
  | _, _, _, _ => False

/-- no two consecutive grid points coincide (every step size is non-zero); the grid need not be uniform or increasing -/
def GridOK : K → List K → Prop
  | _, [] => True
  | tp, t :: ts => t ≠ tp ∧ GridOK t ts

/-- **sim_run_law**: every step of an accepted run obeys the discretised laws with its own step size. -/
theorem sim_run_law (solver : List (Cpt K) → Ix → K) (meth : Method) (others : K → List (Cpt K))
    (rs : List (React K)) (t1 t0 tp : K) (st : List (K × K)) (grid : List K) (xs : List (Ix → K))
    (h2 : (2 : K) ≠ 0) (hinc : GridOK tp grid)
    (h : simRun solver meth others rs t1 t0 tp st grid = some xs) : RunOK meth others rs tp st grid xs := by
  induction grid generalizing tp st xs with
  | nil =>
    simp only [simRun, Option.some.injEq] at h
    subst h
    trivial
  | cons t ts ih =>
    simp only [simRun] at h
    split at h
    · cases h
    · rename_i x hstep
      split at h
      · cases h
      · rename_i xs' hrun
        simp only [Option.some.injEq] at h
        subst h
        rw [step_dt_local] at hstep
        refine ⟨?_, sim_step_solves _ _ _ _ _ _ _ hstep, ih t (readState x rs) xs' hinc.2 hrun⟩
        intro j hj hs hval
        exact sim_step_law _ _ _ _ _ _ _ hstep j hj hs (sub_ne_zero.mpr hinc.1) hval h2

/-- **sim_law**: `Simulator.__call__(tv)`: step 0 is all zero, every later step obeys the discretised laws with its own
    step size. -/
theorem sim_law (solver : List (Cpt K) → Ix → K) (meth : Method) (others : K → List (Cpt K))
    (rs : List (React K)) (t0 : K) (ts : List K) (xs : List (Ix → K))
    (h2 : (2 : K) ≠ 0) (hinc : GridOK t0 ts)
    (h : sim solver meth others rs (t0 :: ts) = some xs) :
    ∃ xs', xs = (fun _ => 0) :: xs' ∧ RunOK meth others rs t0 (rs.map (fun _ => ((0 : K), (0 : K)))) ts xs' := by
  simp only [sim] at h
  split at h
  · cases h
  · rename_i xs' hrun
    simp only [Option.some.injEq] at h
    exact ⟨xs', h.symm, sim_run_law _ _ _ _ _ _ _ _ _ _ h2 hinc hrun⟩

/-! ### consistency of the discretised laws: polynomial identities in (t0, t1), no grid assumption -/

omit [DecidableEq K] in
theorem trap_exact_quadratic_cap (val a b c t0 t1 : K) (h2 : (2 : K) ≠ 0) :
    lawDefect .trapezoid false val (t1 - t0) (a + b * t0 + c * t0 ^ 2) (val * (b + 2 * c * t0))
      (a + b * t1 + c * t1 ^ 2) (val * (b + 2 * c * t1)) = 0 := by
  simp only [lawDefect]; field_simp; ring

omit [DecidableEq K] in
theorem trap_exact_quadratic_ind (val a b c t0 t1 : K) (h2 : (2 : K) ≠ 0) :
    lawDefect .trapezoid true val (t1 - t0) (val * (b + 2 * c * t0)) (a + b * t0 + c * t0 ^ 2)
      (val * (b + 2 * c * t1)) (a + b * t1 + c * t1 ^ 2) = 0 := by
  simp only [lawDefect]; field_simp; ring

/-- the signal pair (v, i) at time `t` of an element whose state variable (v of a capacitor, i of an inductor) is
    `p t` with derivative `dp t`: the other variable is `val * dp t` -/
def sigV (isInd : Bool) (val : K) (p dp : K → K) (t : K) : K := if isInd then val * dp t else p t
def sigI (isInd : Bool) (val : K) (p dp : K → K) (t : K) : K := if isInd then p t else val * dp t

omit [DecidableEq K] in
/-- **trap_exact_quadratic**: the trapezoidal law is exact on every signal of degree ≤ 2, for all t0 t1. -/
theorem trap_exact_quadratic (isInd : Bool) (val a b c t0 t1 : K) (h2 : (2 : K) ≠ 0) :
    lawDefect .trapezoid isInd val (t1 - t0)
      (sigV isInd val (fun t => a + b * t + c * t ^ 2) (fun t => b + 2 * c * t) t0)
      (sigI isInd val (fun t => a + b * t + c * t ^ 2) (fun t => b + 2 * c * t) t0)
      (sigV isInd val (fun t => a + b * t + c * t ^ 2) (fun t => b + 2 * c * t) t1)
      (sigI isInd val (fun t => a + b * t + c * t ^ 2) (fun t => b + 2 * c * t) t1) = 0 := by
  cases isInd
  · simpa [sigV, sigI] using trap_exact_quadratic_cap val a b c t0 t1 h2
  · simpa [sigV, sigI] using trap_exact_quadratic_ind val a b c t0 t1 h2

omit [DecidableEq K] in
/-- **be_exact_linear**: the backward-Euler law is exact on every signal of degree ≤ 1, for all t0 t1. -/
theorem be_exact_linear (isInd : Bool) (val a b t0 t1 : K) :
    lawDefect .backwardEuler isInd val (t1 - t0)
      (sigV isInd val (fun t => a + b * t) (fun _ => b) t0) (sigI isInd val (fun t => a + b * t) (fun _ => b) t0)
      (sigV isInd val (fun t => a + b * t) (fun _ => b) t1) (sigI isInd val (fun t => a + b * t) (fun _ => b) t1) = 0 := by
  cases isInd <;> simp only [lawDefect, sigV, sigI, if_true, Bool.false_eq_true, if_false] <;> ring

omit [DecidableEq K] in
/-- **trap_defect_cubic**: local defect of the trapezoidal law on t³: -C h³ / 2 (order 2), for all t0 t1. -/
theorem trap_defect_cubic (val t0 t1 : K) (h2 : (2 : K) ≠ 0) :
    lawDefect .trapezoid false val (t1 - t0) (t0 ^ 3) (val * (3 * t0 ^ 2)) (t1 ^ 3) (val * (3 * t1 ^ 2)) =
      -(val * (t1 - t0) ^ 3 / 2) := by
  simp only [lawDefect]; field_simp; ring

omit [DecidableEq K] in
theorem trap_defect_cubic_ind (val t0 t1 : K) (h2 : (2 : K) ≠ 0) :
    lawDefect .trapezoid true val (t1 - t0) (val * (3 * t0 ^ 2)) (t0 ^ 3) (val * (3 * t1 ^ 2)) (t1 ^ 3) =
      -(val * (t1 - t0) ^ 3 / 2) := by
  simp only [lawDefect]; field_simp; ring

omit [DecidableEq K] in
/-- **be_defect_quadratic**: local defect of the backward-Euler law on t²: -C h² (order 1), for all t0 t1. -/
theorem be_defect_quadratic (val t0 t1 : K) :
    lawDefect .backwardEuler false val (t1 - t0) (t0 ^ 2) (val * (2 * t0)) (t1 ^ 2) (val * (2 * t1)) =
      -(val * (t1 - t0) ^ 2) := by
  simp only [lawDefect]; ring

omit [DecidableEq K] in
theorem be_defect_quadratic_ind (val t0 t1 : K) :
    lawDefect .backwardEuler true val (t1 - t0) (val * (2 * t0)) (t0 ^ 2) (val * (2 * t1)) (t1 ^ 2) =
      -(val * (t1 - t0) ^ 2) := by
  simp only [lawDefect]; ring

/-! ### non-vacuity: the series RC circuit `V1 1 0 10; R1 1 2 5; C1 2 0 0.1` (dummy node 3, branch 1) over ℚ -/

def rcOthers : List (Cpt ℚ) := [.V 1 0 0 10, .R 1 2 5]
def rcReact : List (React ℚ) := [⟨false, 2, 0, 3, 1, 1 / 10⟩]

/-- the first trapezoidal step with dt = 1/10 from rest, computed by hand: geq = 2, veq = 0 -/
def rcSolver1 : List (Cpt ℚ) → Ix → ℚ := fun _ ix =>
  match ix with
  | .node 1 => 10 | .node 2 => 10 / 11 | .node 3 => 0 | .br 0 => -20 / 11 | .br 1 => 20 / 11 | _ => 0

/-- what any correct linear solver returns for `V 1 0 0 v; R 1 2 r; Y 2 3 g; V 3 0 1 e` -/
def rcSolver : List (Cpt ℚ) → Ix → ℚ
  | [.V _ _ _ v, .R _ _ r, .Y _ _ g, .V _ _ _ e] => fun ix =>
    match ix with
    | .node 1 => v
    | .node 2 => (v / r + g * e) / (g + 1 / r)
    | .node 3 => e
    | .br 0 => -(g * ((v / r + g * e) / (g + 1 / r) - e))
    | .br 1 => g * ((v / r + g * e) / (g + 1 / r) - e)
    | _ => 0
  | _ => fun _ => 0

/-- an accepted step -/
example : (simStep rcSolver1 .trapezoid rcOthers rcReact (1 / 10) [(0, 0)]).isSome = true := by decide +kernel

theorem rc_step : ∃ x, simStep rcSolver .trapezoid rcOthers rcReact (1 / 10) [(0, 0)] = some x :=
  Option.isSome_iff_exists.mp (by decide +kernel)

/-- the hypotheses of `sim_step_solves / _companion / _law / _kirchhoff` hold together on this step -/
example : ∃ x : Ix → ℚ, Laws .time 0 (rcOthers ++ companions .trapezoid rcReact (1 / 10) [(0, 0)]) x ∧
    lawDefect .trapezoid false (1 / 10) (1 / 10) 0 0 (vd x 2 0) (x (br 1)) = 0 ∧
    lsum (rcOthers.map (outflow .time 0 x 2)) + lsum (rcReact.map (fun r => twoTerm r.n1 r.n2 2 (x (br r.m)))) = 0 := by
  obtain ⟨x, hx⟩ := rc_step
  refine ⟨x, sim_step_solves _ _ _ _ _ _ _ hx, ?_, ?_⟩
  · exact sim_step_law _ _ _ _ _ _ _ hx 0 (by decide) (by decide) (by norm_num) (by norm_num [rcReact]) (by norm_num)
  · exact sim_step_kirchhoff _ _ _ _ _ _ _ hx 2 (by decide) (by simp [rcReact])

/-- a refused step: the solver's numbers do not solve the system -/
example : simStep (fun _ ix => match ix with | .node 1 => 10 | .node 2 => 1 | _ => 0) .trapezoid rcOthers rcReact
    (1 / 10) [(0, 0)] = none := by
  decide +kernel

/-- a refused netlist: the dummy node 3 is also used by another component -/
example : (simStep rcSolver .trapezoid (rcOthers ++ [.R 3 0 1]) rcReact (1 / 10) [(0, 0)]).isSome = false := by
  decide +kernel

/-- a refused netlist: state list shorter than the list of reactive components -/
example : (simStep rcSolver .trapezoid rcOthers rcReact (1 / 10) []).isSome = false := by decide +kernel

/-- a two-step run on a NON-uniform grid (steps 1/10 and 2/10) is accepted, with both integrators -/
theorem rc_run : ∃ xs, sim rcSolver .trapezoid (fun _ => rcOthers) rcReact [0, 1 / 10, 3 / 10] = some xs :=
  Option.isSome_iff_exists.mp (by decide +kernel)

example : (sim rcSolver .backwardEuler (fun _ => rcOthers) rcReact [0, 1 / 10, 3 / 10]).isSome = true := by
  decide +kernel

theorem rc_grid : GridOK (0 : ℚ) [1 / 10, 3 / 10] := ⟨by norm_num, by norm_num, trivial⟩

/-- the hypotheses of `sim_law` (hence of `sim_run_law`) hold together on this run -/
example : ∃ xs', RunOK .trapezoid (fun _ => rcOthers) rcReact 0 (rcReact.map (fun _ => ((0 : ℚ), (0 : ℚ))))
    [1 / 10, 3 / 10] xs' := by
  obtain ⟨xs, hxs⟩ := rc_run
  obtain ⟨xs', _, h⟩ := sim_law _ _ _ _ _ _ _ (by norm_num) rc_grid hxs
  exact ⟨xs', h⟩

end Lcapy.C17
