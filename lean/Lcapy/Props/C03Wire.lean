/-
  PROPERTY C03 (kill, wire part) -- a killed voltage source is a wire, and a wire is a node merge.

  Lcapy's `kill` replaces a voltage source by a wire `W`; the netlist front-end then merges the two
  nodes of a wire into one equipotential node.  In the spec (Lcapy/Spec/Laws.lean) a wire between
  a and b with branch index m is the 0 V source `Cpt.V a b m 0`.  This file proves that, for ANY
  netlist `cs`, any analysis kind and the SAME assignment `x` on both sides,

      Laws (V a b m 0 :: cs) x   ↔   V(a) = V(b)  ∧  J_m = (what KCL at b asks for)
                                       ∧ Laws (cs with node b renamed to a) x

  (`kill_V_equiv`, mirrored orientation `kill_V_equiv_rev`): the KCL row of the merged node a is the
  sum of the rows of a and b, nothing touches b any more.  `wire_merge_sound` / `wire_merge_complete`
  give the explicit maps between the solutions of the two netlists, `wire_current_unique` says the
  wire current is determined, and `parallel_wires_current_free` / `self_loop_current_free` show that
  in a LOOP of wires it is not (any circulating current can be added).
  Only property theorems, the definitions they are stated with and non-vacuity examples live here;
  helper lemmas are in Lcapy/Proofs/WireMerge.lean.
-/
import Lcapy.Proofs.WireMerge
import Mathlib.Tactic.NormNum
namespace Lcapy.C03
open Lcapy.MNA Ix
variable {K : Type} [Field K]
set_option linter.unnecessarySeqFocus false

/-- node b is renamed to a -/
def merge (a b : Nat) : Nat → Nat := fun k => if k = b then a else k

/-- branch indices whose current a component's outflow / laws read: the owned branch(es), the
    control branch `mc` of F, H, HY and the partner branches of the couplings of an inductor -/
def brRefs : Cpt K → List Nat
  | .Ind _ _ m _ _ coup => m :: coup.map (fun p => p.1)
  | .V _ _ m _ => [m]
  | .E _ _ _ _ m _ _ => [m]
  | .F _ _ mc _ => [mc]
  | .H _ _ m mc _ => [m, mc]
  | .TF _ _ _ _ m _ => [m]
  | .GY _ _ _ _ m1 m2 _ => [m1, m2]
  | .AM _ _ m => [m]
  | .TR _ _ m _ => [m]
  | .TPA _ _ _ _ m _ _ _ _ => [m]
  | .SP _ _ _ _ m _ _ _ => [m]
  | .HY _ _ m _ _ mc _ _ _ => [m, mc]
  | .R _ _ _ => []
  | .Cap _ _ _ _ => []
  | .I _ _ _ => []
  | .G _ _ _ _ _ => []
  | .Y _ _ _ => []
  | .Open _ _ => []
  | .TPY _ _ _ _ _ _ _ _ => []

/-- explicit map of unknowns from the merged netlist back to the netlist with the wire:
    `y` with node b := V(a), and then branch m := Σ_cs (current leaving node b), the wire current
    that KCL at b asks for -/
def unmerge (kind : Kind) (s : K) (cs : List (Cpt K)) (a b m : Nat) (y : Ix → K) : Ix → K :=
  fun i => if i = br m then lsum (cs.map (outflow kind s (fun j => if j = node b then volt y a else y j) b))
    else if i = node b then volt y a else y i

/-- **(1) kill_V_equiv**: the 0 V source (= wire) from a to b is equivalent to: equal potentials, the
    netlist with b renamed to a, and the wire current is what KCL at b says it is.  Same assignment
    on both sides, any netlist `cs`; a may be ground. -/
theorem kill_V_equiv (kind : Kind) (s : K) (cs : List (Cpt K)) (x : Ix → K) (a b m : Nat)
    (hb : b ≠ 0) (hab : a ≠ b) :
    Laws kind s (Cpt.V a b m 0 :: cs) x ↔
      (volt x a = volt x b ∧ x (br m) = lsum (cs.map (outflow kind s x b)) ∧
       Laws kind s (cs.map (Cpt.mapNodes (merge a b))) x) :=
  WireMerge.kill_V_equiv_aux kind s m cs x hb hab

/-- **(2) kill_V_equiv_rev**: the mirrored orientation (the wire's SECOND node survives; needed when the
    second node is ground: `V n 0 m 0` merges n into ground) -/
theorem kill_V_equiv_rev (kind : Kind) (s : K) (cs : List (Cpt K)) (x : Ix → K) (a b m : Nat)
    (hb : b ≠ 0) (hab : a ≠ b) :
    Laws kind s (Cpt.V b a m 0 :: cs) x ↔
      (volt x a = volt x b ∧ x (br m) = -lsum (cs.map (outflow kind s x b)) ∧
       Laws kind s (cs.map (Cpt.mapNodes (merge a b))) x) :=
  WireMerge.kill_V_equiv_aux' kind s m cs x hb hab

/-- **(3a) wire_merge_sound**: every solution of the merged netlist gives, by the explicit map
    `unmerge`, a solution of the netlist with the wire (the wire's branch index must be its own) -/
theorem wire_merge_sound (kind : Kind) (s : K) (cs : List (Cpt K)) (a b m : Nat)
    (hb : b ≠ 0) (hab : a ≠ b) (hm : ∀ c ∈ cs, m ∉ brRefs c) (y : Ix → K) :
    Laws kind s (cs.map (Cpt.mapNodes (merge a b))) y →
      Laws kind s (Cpt.V a b m 0 :: cs) (unmerge kind s cs a b m y) := by
  have e : ∀ c : Cpt K, brRefs c = WireMerge.branchRefs c := fun c => by cases c <;> rfl
  exact WireMerge.wire_merge_sound_aux kind s m cs hb hab (fun c hc => by rw [← e]; exact hm c hc) y

/-- `unmerge` only changes the potential of the removed node b and the wire current -/
theorem unmerge_agrees (kind : Kind) (s : K) (cs : List (Cpt K)) (a b m : Nat) (y : Ix → K) :
    (∀ k, k ≠ b → unmerge kind s cs a b m y (node k) = y (node k)) ∧
    (∀ k, k ≠ m → unmerge kind s cs a b m y (br k) = y (br k)) ∧
    unmerge kind s cs a b m y (node b) = volt y a :=
  ⟨fun k hk => WireMerge.unmergeAsg_node kind s cs a b m y k hk,
   fun k hk => WireMerge.unmergeAsg_br kind s cs a b m y k hk, by simp [unmerge]⟩

/-- **(3b) wire_merge_complete**: every solution of the netlist with the wire solves the merged
    netlist as it stands -/
theorem wire_merge_complete (kind : Kind) (s : K) (cs : List (Cpt K)) (x : Ix → K) (a b m : Nat)
    (hb : b ≠ 0) (hab : a ≠ b) :
    Laws kind s (Cpt.V a b m 0 :: cs) x → Laws kind s (cs.map (Cpt.mapNodes (merge a b))) x :=
  fun h => ((kill_V_equiv kind s cs x a b m hb hab).mp h).2.2

/-- **(3c) wire_current_unique**: the wire current is determined when the wire is not in a loop of
    wires: two solutions that agree everywhere except possibly at `br m` agree there too -/
theorem wire_current_unique (kind : Kind) (s : K) (cs : List (Cpt K)) (a b m : Nat)
    (hb : b ≠ 0) (hab : a ≠ b) (hm : ∀ c ∈ cs, m ∉ brRefs c) (x x' : Ix → K)
    (hx : Laws kind s (Cpt.V a b m 0 :: cs) x) (hx' : Laws kind s (Cpt.V a b m 0 :: cs) x')
    (hagree : ∀ i, i ≠ br m → x i = x' i) : x (br m) = x' (br m) := by
  have e : ∀ c : Cpt K, brRefs c = WireMerge.branchRefs c := fun c => by cases c <;> rfl
  exact WireMerge.wire_current_unique_aux kind s m cs hb hab (fun c hc => by rw [← e]; exact hm c hc)
    x x' hx hx' hagree

/-- **(4a) parallel_wires_current_free**: loops of wires — the currents are NOT unique.  Two parallel
    wires between a and b (a, b arbitrary, including a = b): any circulating current d can be added. -/
theorem parallel_wires_current_free (kind : Kind) (s : K) (cs : List (Cpt K)) (x : Ix → K) (a b m m' : Nat)
    (hmm : m ≠ m') (hm : ∀ c ∈ cs, m ∉ brRefs c) (hm' : ∀ c ∈ cs, m' ∉ brRefs c) (d : K)
    (h : Laws kind s (Cpt.V a b m 0 :: Cpt.V a b m' 0 :: cs) x) :
    Laws kind s (Cpt.V a b m 0 :: Cpt.V a b m' 0 :: cs)
      (fun i => if i = br m then x i + d else if i = br m' then x i - d else x i) := by
  have e : ∀ c : Cpt K, brRefs c = WireMerge.branchRefs c := fun c => by cases c <;> rfl
  exact WireMerge.parallel_wires_aux kind s m m' cs x hmm (fun c hc => by rw [← e]; exact hm c hc)
    (fun c hc => by rw [← e]; exact hm' c hc) d h

/-- **(4b) self_loop_current_free**: a wire from a node to itself carries an arbitrary current -/
theorem self_loop_current_free (kind : Kind) (s : K) (cs : List (Cpt K)) (x : Ix → K) (a m : Nat)
    (hm : ∀ c ∈ cs, m ∉ brRefs c) (J : K) (h : Laws kind s (Cpt.V a a m 0 :: cs) x) :
    Laws kind s (Cpt.V a a m 0 :: cs) (fun i => if i = br m then J else x i) := by
  have e : ∀ c : Cpt K, brRefs c = WireMerge.branchRefs c := fun c => by cases c <;> rfl
  exact WireMerge.self_loop_aux kind s m cs x (fun c hc => by rw [← e]; exact hm c hc) J h

/-! ### non-vacuity: `V1 1 0 6; R1 1 2 2; W 2 3; R2 3 0 3` -/

/-- the netlist with the wire `V 2 3 1 0` (a = 2, b = 3, m = 1) has a solution:
    V(1) = 6, V(2) = V(3) = 18/5, source current −6/5, wire current 6/5 -/
example : Laws Kind.dc (0 : ℚ) (Cpt.V 2 3 1 0 :: [Cpt.V 1 0 0 6, Cpt.R 1 2 2, Cpt.R 3 0 3])
    (fun i => match i with
      | node 1 => 6 | node 2 => 18 / 5 | node 3 => 18 / 5 | br 0 => -6 / 5 | br 1 => 6 / 5 | _ => 0) := by
  constructor
  · intro k hk
    match k with
    | 0 => exact absurd rfl hk
    | 1 => norm_num [outflow, twoTerm, lsum, vd, volt]
    | 2 => norm_num [outflow, twoTerm, lsum, vd, volt]
    | 3 => norm_num [outflow, twoTerm, lsum, vd, volt]
    | (k + 4) => simp [outflow, twoTerm, lsum]
  · intro c hc p hp
    simp only [List.mem_cons, List.mem_nil_iff, or_false] at hc
    rcases hc with rfl | rfl | rfl | rfl <;> simp [laws, vd, volt] at hp <;> subst hp <;> norm_num

/-- the side conditions of the theorems hold for it -/
example : (3 : Nat) ≠ 0 ∧ (2 : Nat) ≠ 3 ∧
    ∀ c ∈ [Cpt.V 1 0 0 (6 : ℚ), Cpt.R 1 2 2, Cpt.R 3 0 3], 1 ∉ brRefs c := by
  refine ⟨by decide, by decide, ?_⟩
  intro c hc
  simp only [List.mem_cons, List.mem_nil_iff, or_false] at hc
  rcases hc with rfl | rfl | rfl <;> simp [brRefs]

/-- merging node 3 into node 2 gives literally `V1 1 0 6; R1 1 2 2; R2 2 0 3` -/
example : ([Cpt.V 1 0 0 (6 : ℚ), Cpt.R 1 2 2, Cpt.R 3 0 3]).map (Cpt.mapNodes (merge 2 3)) =
    [Cpt.V 1 0 0 6, Cpt.R 1 2 2, Cpt.R 2 0 3] := by
  simp [Cpt.mapNodes, merge]

/-- and the merged netlist is solved by the same assignment (as `wire_merge_complete` says) -/
example : Laws Kind.dc (0 : ℚ) [Cpt.V 1 0 0 6, Cpt.R 1 2 2, Cpt.R 2 0 3]
    (fun i => match i with
      | node 1 => 6 | node 2 => 18 / 5 | node 3 => 18 / 5 | br 0 => -6 / 5 | br 1 => 6 / 5 | _ => 0) := by
  constructor
  · intro k hk
    match k with
    | 0 => exact absurd rfl hk
    | 1 => norm_num [outflow, twoTerm, lsum, vd, volt]
    | 2 => norm_num [outflow, twoTerm, lsum, vd, volt]
    | (k + 3) => simp [outflow, twoTerm, lsum]
  · intro c hc p hp
    simp only [List.mem_cons, List.mem_nil_iff, or_false] at hc
    rcases hc with rfl | rfl | rfl <;> simp [laws, vd, volt] at hp <;> subst hp <;> norm_num

/-- a loop of two parallel wires (branches 1 and 4 between the nodes 2 and 3) is solvable, so the
    hypothesis of `parallel_wires_current_free` is satisfiable: here the wire current 6/5 is split
    as 1 + 1/5, and by the theorem as (1 + d) + (1/5 − d) for every d -/
example : Laws Kind.dc (0 : ℚ) (Cpt.V 2 3 1 0 :: Cpt.V 2 3 4 0 :: [Cpt.V 1 0 0 6, Cpt.R 1 2 2, Cpt.R 3 0 3])
    (fun i => match i with
      | node 1 => 6 | node 2 => 18 / 5 | node 3 => 18 / 5 | br 0 => -6 / 5 | br 1 => 1 | br 4 => 1 / 5
      | _ => 0) := by
  constructor
  · intro k hk
    match k with
    | 0 => exact absurd rfl hk
    | 1 => norm_num [outflow, twoTerm, lsum, vd, volt]
    | 2 => norm_num [outflow, twoTerm, lsum, vd, volt]
    | 3 => norm_num [outflow, twoTerm, lsum, vd, volt]
    | (k + 4) => simp [outflow, twoTerm, lsum]
  · intro c hc p hp
    simp only [List.mem_cons, List.mem_nil_iff, or_false] at hc
    rcases hc with rfl | rfl | rfl | rfl | rfl <;> simp [laws, vd, volt] at hp <;> subst hp <;> norm_num

end Lcapy.C03
