/-
  PROPERTY C07, two-port part: the section formulas and the way the `TwoPort` subclasses build
  their B matrix / source vector describe the physical networks (Spec/Sections.lean), for all
  element values.  Every `A_*`, `B_*`, `Z_*`, `TP_*` definition is GENERATED from twoport.py
  (Generated/TwoPort.lean by tx_twoport, Generated/Sections.lean by tx_sections).
-/
import Lcapy.Spec.Sections
import Lcapy.Generated.Sections
import Lcapy.Props.C08
namespace Lcapy.C07
open Lcapy Lcapy.Spec Lcapy.Gen Lcapy.TwoPort
variable {K : Type} [Field K]

/-! ## 1. Elements -/

/-- a series one-port with Thévenin form v = Voc + Z i (its + terminal at the output side) is the B model with
    matrix `B_Zseries Z` and source vector (Voc, 0): V2 = V1 − Z I1 + Voc -/
theorem series_elem (R : K → K → Prop) (Z Voc : K) (hR : ∀ v i, R v i ↔ v = Voc + Z * i) (p : Port K) :
    SeriesElem R p ↔ relBs (B_Zseries Z) Voc 0 p := by
  obtain ⟨V1, I1, V2, I2⟩ := p
  simp only [SeriesElem, relBs, B_Zseries, hR]
  constructor <;> (rintro ⟨h1, h2⟩; constructor <;> grind)

/-- **Series_matrix**: the parameter matrix built by `Series(OP)` is that of the physical element
    (sources dead: Voc = 0) -/
theorem Series_matrix (R : K → K → Prop) (op : OneP K) (hR : ∀ v i, R v i ↔ v = op.Z * i)
    (Z0 : K) (p : Port K) : SeriesElem R p ↔ rel .B (TP_Series op).B Z0 p := by
  obtain ⟨V1, I1, V2, I2⟩ := p
  simp only [SeriesElem, rel, lin, TP_Series, B_Zseries, hR]
  constructor <;> (rintro ⟨h1, h2⟩; constructor <;> grind)

/-- **Series_sources**: matrix AND source vector built by `Series(OP)` are those of the physical element as its
    netlist draws it.  (Before the repair of finding C07-d the generated netlist had the one-port the other way
    round and only a sign-flipped `…_partial` version held.) -/
theorem Series_sources (R : K → K → Prop) (op : OneP K)
    (hR : ∀ v i, R v i ↔ v = op.Voc + op.Z * i) (p : Port K) :
    SeriesElem R p ↔ relBs (TP_Series op).B (TP_Series op).V2b (TP_Series op).I2b p := by
  simpa [TP_Series] using series_elem R op.Z op.Voc hR p

/-- **SeriesAlt_sources**: matrix and source vector built by `SeriesAlt(OP)` (generated `TP_SeriesAlt`) are those of the
    one-port drawn in the bottom rail -/
theorem SeriesAlt_sources (R : K → K → Prop) (op : OneP K)
    (hR : ∀ v i, R v i ↔ v = op.Voc + op.Z * i) (p : Port K) :
    SeriesAltElem R p ↔ relBs (TP_SeriesAlt op).B (TP_SeriesAlt op).V2b (TP_SeriesAlt op).I2b p := by
  obtain ⟨V1, I1, V2, I2⟩ := p
  simp only [SeriesAltElem, relBs, TP_SeriesAlt, B_Zseries, hR]
  constructor <;> (rintro ⟨h1, h2⟩; constructor <;> grind)

/-- **Shunt_sound**: matrix and source vector built by `Shunt(OP)` are those of the physical
    element with Norton form i = Y v − Isc -/
theorem Shunt_sound (R : K → K → Prop) (op : OneP K) (hR : ∀ v i, R v i ↔ i = op.Y * v - op.Isc)
    (p : Port K) : ShuntElem R p ↔ relBs (TP_Shunt op).B (TP_Shunt op).V2b (TP_Shunt op).I2b p := by
  obtain ⟨V1, I1, V2, I2⟩ := p
  simp only [ShuntElem, relBs, TP_Shunt, B_Yshunt, hR]
  constructor <;> (rintro ⟨h1, h2⟩; constructor <;> grind)

/-- **Gyrator_sound**: `IdealGyrator(R)` (non-reciprocal: Z12 = −Z21) is the two-port with
    V2 = R·I1 and V1 = −R·I2 -/
theorem Gyrator_sound (R Z0 : K) (hR : R ≠ 0) (p : Port K) :
    (p.V2 = R * p.I1 ∧ p.V1 = -(R * p.I2)) ↔ rel .B (TP_IdealGyrator R).B Z0 p := by
  obtain ⟨V1, I1, V2, I2⟩ := p
  simp only [rel, lin, TP_IdealGyrator, B_gyrator]
  constructor <;> (rintro ⟨e1, e2⟩; constructor <;> grind)

/-! ## 2. Chain: matrices multiply and source vectors accumulate -/

/-- **chain_sources**: the (B, V2b, I2b) that `Chain.__init__` accumulates is the composition of
    the two stage relations -/
theorem chain_sources (a b : TPB K) (p q r : Port K) (hc : CascadeP p q r)
    (ha : relBs a.B a.V2b a.I2b p) (hb : relBs b.B b.V2b b.I2b q) :
    relBs (TP_Chain a b).B (TP_Chain a b).V2b (TP_Chain a b).I2b r := by
  obtain ⟨V1, I1, V2, I2⟩ := p
  obtain ⟨V1', I1', V2', I2'⟩ := q
  obtain ⟨V1'', I1'', V2'', I2''⟩ := r
  simp only [CascadeP] at hc
  obtain ⟨c1, c2, c3, c4, c5, c6⟩ := hc
  simp only [relBs, TP_Chain, mulVec, M2.mul] at *
  obtain ⟨h1, h2⟩ := ha
  obtain ⟨h3, h4⟩ := hb
  constructor <;> grind

/-- conversely every behaviour of the chain comes from an intermediate port -/
theorem chain_sources_complete (a b : TPB K) (r : Port K)
    (h : relBs (TP_Chain a b).B (TP_Chain a b).V2b (TP_Chain a b).I2b r) :
    ∃ p q, CascadeP p q r ∧ relBs a.B a.V2b a.I2b p ∧ relBs b.B b.V2b b.I2b q := by
  obtain ⟨V1, I1, V2, I2⟩ := r
  simp only [relBs, TP_Chain, mulVec, M2.mul] at h
  obtain ⟨h1, h2⟩ := h
  refine ⟨⟨V1, I1, a.B.a11 * V1 + a.B.a12 * I1 + a.V2b, -(a.B.a21 * V1 + a.B.a22 * I1 + a.I2b)⟩,
          ⟨a.B.a11 * V1 + a.B.a12 * I1 + a.V2b, a.B.a21 * V1 + a.B.a22 * I1 + a.I2b, V2, I2⟩, ?_, ?_, ?_⟩
  · simp [CascadeP]
  · simp [relBs]
  · simp only [relBs]; constructor <;> grind

/- (`TwoPort.chain` puts `self` first: `Gen.chainOrder` is a literal printed by tx_sections and checked by the translator,
   not a theorem; the order is what `TP_LSection`, `TP_TSection`, `TP_Ladder_go` … are generated with.) -/

/-! ## 3. Section formulas -/

/-- **A_Lsection_sound** (classmethod `AMatrix.Lsection`, a chain of Zseries and Zshunt) -/
theorem A_Lsection_sound (Z1 Z2 Z0 : K) (h2 : Z2 ≠ 0) (p : Port K) :
    LNet Z1 Z2 p ↔ rel .A (A_Lsection Z1 Z2) Z0 p := by
  obtain ⟨V1, I1, V2, I2⟩ := p
  simp only [LNet, rel, lin, A_Lsection, A_chain, A_Zseries, A_Zshunt, M2.mul]
  constructor <;> (rintro ⟨h1, h2⟩; constructor <;> grind)

theorem A_Tsection_sound (Z1 Z2 Z3 Z0 : K) (h2 : Z2 ≠ 0) (p : Port K) :
    TNet Z1 Z2 Z3 p ↔ rel .A (A_Tsection Z1 Z2 Z3) Z0 p := by
  obtain ⟨V1, I1, V2, I2⟩ := p
  simp only [TNet, rel, lin, A_Tsection, A_Lsection, A_chain, A_Zseries, A_Zshunt, M2.mul]
  constructor
  · rintro ⟨vm, h1, h3, h4⟩; constructor <;> grind
  · rintro ⟨h1, h3⟩; exact ⟨V2 - Z3 * I2, by grind, by grind, by grind⟩

theorem A_Pisection_sound (Z1 Z2 Z3 Z0 : K) (h1 : Z1 ≠ 0) (h3 : Z3 ≠ 0) (p : Port K) :
    PiNet Z1 Z2 Z3 p ↔ rel .A (A_Pisection Z1 Z2 Z3) Z0 p := by
  obtain ⟨V1, I1, V2, I2⟩ := p
  simp only [PiNet, rel, lin, A_Pisection, A_Lsection, A_chain, A_Zseries, A_Zshunt, M2.mul]
  constructor
  · rintro ⟨is, e1, e2, e3⟩; constructor <;> grind
  · rintro ⟨e1, e2⟩; exact ⟨V2 / Z3 - I2, by grind, by grind, by grind⟩

/-- **Z_Tsection_sound** (`ZMatrix.Tsection`), no side condition -/
theorem Z_Tsection_sound (Z1 Z2 Z3 Z0 : K) (p : Port K) :
    TNet Z1 Z2 Z3 p ↔ rel .Z (Z_Tsection Z1 Z2 Z3) Z0 p := by
  obtain ⟨V1, I1, V2, I2⟩ := p
  simp only [TNet, rel, lin, Z_Tsection]
  constructor
  · rintro ⟨vm, h1, h3, h4⟩; constructor <;> grind
  · rintro ⟨h1, h3⟩; exact ⟨Z2 * (I1 + I2), by grind, by grind, rfl⟩

/-- **B_Lsection_chain / B_Tsection_chain**: the closed forms of `BMatrix.Lsection/Tsection` equal
    the chains of the generated series / shunt B matrices (their commented-out bodies).
    (False before the repair of finding C07-e, when B11 and B22 were exchanged.) -/
theorem B_Lsection_chain (Z1 Z2 : K) :
    B_Lsection Z1 Z2 = B_chain (B_Zseries Z1) (B_Zshunt Z2) := by
  simp only [B_Lsection, B_chain, B_Zshunt, B_Zseries, M2.mul, M2.mk.injEq]
  refine ⟨?_, ?_, ?_, ?_⟩ <;> ring

theorem B_Tsection_chain (Z1 Z2 Z3 : K) :
    B_Tsection Z1 Z2 Z3 = B_chain (B_chain (B_Zseries Z1) (B_Zshunt Z2)) (B_Zseries Z3) := by
  simp only [B_Tsection, B_Lsection, B_chain, B_Zshunt, B_Zseries, M2.mul, M2.mk.injEq]
  refine ⟨?_, ?_, ?_, ?_⟩ <;> ring

/-- **B_Lsection_sound / B_Tsection_sound / B_Pisection_sound**: they describe the physical networks -/
theorem B_Lsection_sound (Z1 Z2 Z0 : K) (h2 : Z2 ≠ 0) (p : Port K) :
    LNet Z1 Z2 p ↔ rel .B (B_Lsection Z1 Z2) Z0 p := by
  obtain ⟨V1, I1, V2, I2⟩ := p
  simp only [LNet, rel, lin, B_Lsection]
  constructor <;> (rintro ⟨e1, e2⟩; constructor <;> grind)

theorem B_Tsection_sound (Z1 Z2 Z3 Z0 : K) (h2 : Z2 ≠ 0) (p : Port K) :
    TNet Z1 Z2 Z3 p ↔ rel .B (B_Tsection Z1 Z2 Z3) Z0 p := by
  obtain ⟨V1, I1, V2, I2⟩ := p
  simp only [TNet, rel, lin, B_Tsection, B_Lsection, B_chain, B_Zseries, M2.mul]
  constructor
  · rintro ⟨vm, e1, e3, e4⟩; constructor <;> grind
  · rintro ⟨e1, e3⟩; exact ⟨V1 - Z1 * I1, by grind, by grind, by grind⟩

theorem B_Pisection_sound (Z1 Z2 Z3 Z0 : K) (h1 : Z1 ≠ 0) (h3 : Z3 ≠ 0) (p : Port K) :
    PiNet Z1 Z2 Z3 p ↔ rel .B (B_Pisection Z1 Z2 Z3) Z0 p := by
  obtain ⟨V1, I1, V2, I2⟩ := p
  simp only [PiNet, rel, lin, B_Pisection, B_Lsection, B_chain, B_Zshunt, M2.mul]
  constructor
  · rintro ⟨is, e1, e2, e3⟩; constructor <;> grind
  · rintro ⟨e1, e2⟩; exact ⟨I1 - V1 / Z1, by grind, by grind, by grind⟩

/-- the mirrored chain (what the closed form used to be) describes the L network seen from port 2 -/
theorem B_chain_mirrored_Lsection_sound (Z1 Z2 Z0 : K) (h2 : Z2 ≠ 0) (p : Port K) :
    LNet Z1 Z2 (mirror p) ↔ rel .B (B_chain (B_Zshunt Z2) (B_Zseries Z1)) Z0 p := by
  obtain ⟨V1, I1, V2, I2⟩ := p
  simp only [LNet, mirror, rel, lin, B_chain, B_Zseries, B_Zshunt, M2.mul]
  constructor <;> (rintro ⟨e1, e2⟩; constructor <;> grind)

/-- the chains that are right: what `B_Lsection`/`B_Tsection` are documented to be (their
    commented-out bodies) describe the L and T networks -/
theorem B_chain_Lsection_sound (Z1 Z2 Z0 : K) (h2 : Z2 ≠ 0) (p : Port K) :
    LNet Z1 Z2 p ↔ rel .B (B_chain (B_Zseries Z1) (B_Zshunt Z2)) Z0 p := by
  obtain ⟨V1, I1, V2, I2⟩ := p
  simp only [LNet, rel, lin, B_chain, B_Zseries, B_Zshunt, M2.mul]
  constructor <;> (rintro ⟨e1, e2⟩; constructor <;> grind)

theorem B_chain_Tsection_sound (Z1 Z2 Z3 Z0 : K) (h2 : Z2 ≠ 0) (p : Port K) :
    TNet Z1 Z2 Z3 p ↔ rel .B (B_chain (B_chain (B_Zseries Z1) (B_Zshunt Z2)) (B_Zseries Z3)) Z0 p := by
  obtain ⟨V1, I1, V2, I2⟩ := p
  simp only [TNet, rel, lin, B_chain, B_Zseries, B_Zshunt, M2.mul]
  constructor
  · rintro ⟨vm, e1, e3, e4⟩; constructor <;> grind
  · rintro ⟨e1, e3⟩; exact ⟨V1 - Z1 * I1, by grind, by grind, by grind⟩

/-- what the class `PiSection` builds (chain of `Shunt`, `Series`, `Shunt`): -/
theorem PiSection_sound (op1 op2 op3 : OneP K) (Z0 : K) (p : Port K) :
    PiNetY op1.Y op2.Z op3.Y p ↔ rel .B (TP_PiSection op1 op2 op3).B Z0 p := by
  obtain ⟨V1, I1, V2, I2⟩ := p
  simp only [PiNetY, rel, lin, TP_PiSection, TP_Chain, TP_Series, TP_Shunt, B_Zseries, B_Yshunt, M2.mul, mulVec]
  constructor
  · rintro ⟨is, e1, e2, e3⟩; constructor <;> grind
  · rintro ⟨e1, e2⟩; exact ⟨I1 - op1.Y * V1, by grind, by grind, by grind⟩

/-- **LSection_sound / TSection_sound**: the matrices the classes `LSection`, `TSection` build
    (chains of `Series` and `Shunt`) describe the physical networks -- no side condition -/
theorem LSection_sound (op1 op2 : OneP K) (Z0 : K) (p : Port K) :
    LNetY op1.Z op2.Y p ↔ rel .B (TP_LSection op1 op2).B Z0 p := by
  obtain ⟨V1, I1, V2, I2⟩ := p
  simp only [LNetY, rel, lin, TP_LSection, TP_Chain, TP_Series, TP_Shunt, B_Zseries, B_Yshunt, M2.mul, mulVec]
  constructor <;> (rintro ⟨e1, e2⟩; constructor <;> grind)

theorem TSection_sound (op1 op2 op3 : OneP K) (Z0 : K) (p : Port K) :
    TNetY op1.Z op2.Y op3.Z p ↔ rel .B (TP_TSection op1 op2 op3).B Z0 p := by
  obtain ⟨V1, I1, V2, I2⟩ := p
  simp only [TNetY, rel, lin, TP_TSection, TP_Chain, TP_Series, TP_Shunt, B_Zseries, B_Yshunt, M2.mul, mulVec]
  constructor
  · rintro ⟨vm, e1, e3, e4⟩; constructor <;> grind
  · rintro ⟨e1, e3⟩; exact ⟨V1 - op1.Z * I1, by grind, by grind, by grind⟩

/-- the class route and the A classmethods agree: `TSection.Bparams` is the inverse chain of
    `AMatrix.Tsection` -/
theorem TSection_vs_A (op1 op2 op3 : OneP K) (h : op2.Y ≠ 0) :
    M2.mul (TP_TSection op1 op2 op3).B (A_Tsection op1.Z (1 / op2.Y) op3.Z) = ⟨1, 0, 0, 1⟩ := by
  simp only [TP_TSection, TP_Chain, TP_Series, TP_Shunt, B_Zseries, B_Yshunt, A_Tsection, A_Lsection, A_chain,
    A_Zseries, A_Zshunt, M2.mul, M2.mk.injEq]
  refine ⟨?_, ?_, ?_, ?_⟩ <;> (field_simp; ring)

/-! ## 4. Ladder = alternating chain of Series and Shunt stages (any length) -/

/-- the stage `Ladder.__init__` appends at position m of `args` -/
def ladderStage (m : Nat) (a : OneP K) : TPB K := if m % 2 = 1 then TP_Series a else TP_Shunt a

/-- left fold of `Chain` over a list of stages -/
def chainAll (tp : TPB K) : List (TPB K) → TPB K
  | [] => tp
  | x :: t => chainAll (TP_Chain tp x) t

def stagesFrom (m : Nat) : List (OneP K) → List (TPB K)
  | [] => []
  | a :: t => ladderStage m a :: stagesFrom (m + 1) t

theorem ladder_go_chain (tp : TPB K) (m : Nat) (args : List (OneP K)) :
    TP_Ladder_go tp m args = chainAll tp (stagesFrom m args) := by
  induction args generalizing tp m with
  | nil => rfl
  | cons a t ih =>
    simp only [TP_Ladder_go, stagesFrom, chainAll, ladderStage]
    rw [ih]
    split <;> rfl

/-- **ladder_chain**: `Ladder(OP1, *args)` is `Series(OP1)` chained with Shunt, Series, Shunt, … -/
theorem ladder_chain (op1 : OneP K) (args : List (OneP K)) :
    TP_Ladder op1 args = chainAll (TP_Series op1) (stagesFrom 0 args) :=
  ladder_go_chain _ 0 args

/-- physical ladder, read off the drawing: after the part already built (port relation `P`), each
    further element is cascaded as a series (odd m) or shunt (even m) element -/
def LadderPhys (m : Nat) : List (OneP K) → (Port K → Prop) → Port K → Prop
  | [], P, r => P r
  | a :: t, P, r =>
      LadderPhys (m + 1) t (fun r' => ∃ p q, CascadeP p q r' ∧ P p ∧
        (if m % 2 = 1 then SeriesElem (impRel a.Z) q else ShuntElem (admRel a.Y) q)) r

theorem stage_sound (m : Nat) (a : OneP K) (Z0 : K) (q : Port K)
    (h : if m % 2 = 1 then SeriesElem (impRel a.Z) q else ShuntElem (admRel a.Y) q) :
    rel .B (ladderStage m a).B Z0 q := by
  obtain ⟨V1, I1, V2, I2⟩ := q
  unfold ladderStage
  split at h <;> rename_i hm
  · simp only [hm, if_true, SeriesElem, impRel] at h ⊢
    simp only [rel, lin, TP_Series, B_Zseries]; obtain ⟨e1, e2⟩ := h; constructor <;> grind
  · simp only [hm, if_false, ShuntElem, admRel] at h ⊢
    simp only [rel, lin, TP_Shunt, B_Yshunt]; obtain ⟨e1, e2⟩ := h; constructor <;> grind

theorem chain_matrix (a b : TPB K) (Z0 : K) (p q r : Port K) (hc : CascadeP p q r)
    (ha : rel .B a.B Z0 p) (hb : rel .B b.B Z0 q) : rel .B (TP_Chain a b).B Z0 r := by
  obtain ⟨V1, I1, V2, I2⟩ := p
  obtain ⟨V1', I1', V2', I2'⟩ := q
  obtain ⟨V1'', I1'', V2'', I2''⟩ := r
  simp only [CascadeP] at hc
  obtain ⟨c1, c2, c3, c4, c5, c6⟩ := hc
  simp only [rel, lin, TP_Chain, M2.mul] at *
  obtain ⟨h1, h2⟩ := ha
  obtain ⟨h3, h4⟩ := hb
  constructor <;> grind

/-- **ladder_sound**: for a ladder of ANY length, every port behaviour of the physical ladder
    satisfies the B matrix that `Ladder` accumulates (induction over the argument list) -/
theorem ladder_sound (Z0 : K) (args : List (OneP K)) : ∀ (m : Nat) (tp : TPB K) (P : Port K → Prop),
    (∀ p, P p → rel .B tp.B Z0 p) → ∀ r, LadderPhys m args P r → rel .B (TP_Ladder_go tp m args).B Z0 r := by
  induction args with
  | nil => intro m tp P hP r h; exact hP r h
  | cons a t ih =>
    intro m tp P hP r h
    simp only [LadderPhys] at h
    have key : ∀ r', (∃ p q, CascadeP p q r' ∧ P p ∧
        (if m % 2 = 1 then SeriesElem (impRel a.Z) q else ShuntElem (admRel a.Y) q)) →
        rel .B (TP_Chain tp (ladderStage m a)).B Z0 r' := by
      rintro r' ⟨p, q, hc, hp, hq⟩
      exact chain_matrix tp (ladderStage m a) Z0 p q r' hc (hP p hp) (stage_sound m a Z0 q hq)
    have := ih (m + 1) (TP_Chain tp (ladderStage m a)) _ key r h
    simp only [TP_Ladder_go]
    unfold ladderStage at this
    split <;> rename_i hm <;> simpa [hm] using this

theorem Ladder_sound (Z0 : K) (op1 : OneP K) (args : List (OneP K)) (r : Port K)
    (h : LadderPhys 0 args (SeriesElem (impRel op1.Z)) r) : rel .B (TP_Ladder op1 args).B Z0 r := by
  apply ladder_sound Z0 args 0 (TP_Series op1) _ _ r h
  intro p hp
  exact (Series_matrix (impRel op1.Z) op1 (fun v i => Iff.rfl) Z0 p).mp hp

/-! ### ladders with their sources, both directions, `Ladder` and `LadderAlt` -/

/-- a physical ladder whose stage `m` is the relation `ph m a` cascaded after what has been built -/
def LadderPhysG (ph : Nat → OneP K → Port K → Prop) (m : Nat) : List (OneP K) → (Port K → Prop) → Port K → Prop
  | [], P, r => P r
  | a :: t, P, r => LadderPhysG ph (m + 1) t (fun r' => ∃ p q, CascadeP p q r' ∧ P p ∧ ph m a q) r

def stagesG (st : Nat → OneP K → TPB K) (m : Nat) : List (OneP K) → List (TPB K)
  | [] => []
  | a :: t => st m a :: stagesG st (m + 1) t

/-- **chainAll_sources**: for ANY stage rule whose stages are exactly described by their (B, V2b, I2b), the
    physical cascade of any length is EXACTLY (both directions, sources included) the accumulated model --
    a fold of `chain_sources` / `chain_sources_complete` -/
theorem chainAll_sources (ph : Nat → OneP K → Port K → Prop) (st : Nat → OneP K → TPB K)
    (hst : ∀ m a q, ph m a q ↔ relBs (st m a).B (st m a).V2b (st m a).I2b q) (args : List (OneP K)) :
    ∀ (m : Nat) (tp : TPB K) (P : Port K → Prop), (∀ p, P p ↔ relBs tp.B tp.V2b tp.I2b p) →
      ∀ r, LadderPhysG ph m args P r ↔
        relBs (chainAll tp (stagesG st m args)).B (chainAll tp (stagesG st m args)).V2b (chainAll tp (stagesG st m args)).I2b r := by
  induction args with
  | nil => intro m tp P hP r; exact hP r
  | cons a t ih =>
    intro m tp P hP r
    simp only [LadderPhysG, stagesG, chainAll]
    apply ih (m + 1) (TP_Chain tp (st m a))
    intro r'
    constructor
    · rintro ⟨p, q, hc, hp, hq⟩
      exact chain_sources tp (st m a) p q r' hc ((hP p).mp hp) ((hst m a q).mp hq)
    · intro h
      obtain ⟨p, q, hc, hp, hq⟩ := chain_sources_complete tp (st m a) r' h
      exact ⟨p, q, hc, (hP p).mpr hp, (hst m a q).mpr hq⟩

/-- stage `m` of `Ladder` with its sources: a series one-port (Thévenin data) for odd m, a shunt one-port (Norton data) else -/
def ladderPh (m : Nat) (a : OneP K) (q : Port K) : Prop :=
  if m % 2 = 1 then SeriesElem (fun v i => v = a.Voc + a.Z * i) q else ShuntElem (fun v i => i = a.Y * v - a.Isc) q
/-- stage `m` of `LadderAlt`: shunt for odd m, series else -/
def ladderAltPh (m : Nat) (a : OneP K) (q : Port K) : Prop :=
  if m % 2 = 1 then ShuntElem (fun v i => i = a.Y * v - a.Isc) q else SeriesElem (fun v i => v = a.Voc + a.Z * i) q
def ladderAltStage (m : Nat) (a : OneP K) : TPB K := if m % 2 = 1 then TP_Shunt a else TP_Series a

theorem ladderStage_sources (m : Nat) (a : OneP K) (q : Port K) :
    ladderPh m a q ↔ relBs (ladderStage m a).B (ladderStage m a).V2b (ladderStage m a).I2b q := by
  unfold ladderPh ladderStage
  split
  · exact Series_sources _ a (fun _ _ => Iff.rfl) q
  · exact Shunt_sound _ a (fun _ _ => Iff.rfl) q

theorem ladderAltStage_sources (m : Nat) (a : OneP K) (q : Port K) :
    ladderAltPh m a q ↔ relBs (ladderAltStage m a).B (ladderAltStage m a).V2b (ladderAltStage m a).I2b q := by
  unfold ladderAltPh ladderAltStage
  split
  · exact Shunt_sound _ a (fun _ _ => Iff.rfl) q
  · exact Series_sources _ a (fun _ _ => Iff.rfl) q

theorem stagesG_ladder (m : Nat) (args : List (OneP K)) : stagesG ladderStage m args = stagesFrom m args := by
  induction args generalizing m with
  | nil => rfl
  | cons a t ih => simp [stagesG, stagesFrom, ih]

/-- **ladderAlt_chain**: `LadderAlt(OP1, *args)` is `Shunt(OP1)` chained with Series, Shunt, Series, … -/
theorem ladderAlt_go_chain (tp : TPB K) (m : Nat) (args : List (OneP K)) :
    TP_LadderAlt_go tp m args = chainAll tp (stagesG ladderAltStage m args) := by
  induction args generalizing tp m with
  | nil => rfl
  | cons a t ih =>
    simp only [TP_LadderAlt_go, stagesG, chainAll, ladderAltStage]
    rw [ih]
    split <;> rfl

theorem ladderAlt_chain (op1 : OneP K) (args : List (OneP K)) :
    TP_LadderAlt op1 args = chainAll (TP_Shunt op1) (stagesG ladderAltStage 0 args) :=
  ladderAlt_go_chain _ 0 args

/-- **Ladder_sources**: for a ladder of ANY length whose arms carry sources, the physical ladder admits EXACTLY the
    port behaviours of the (B, V2b, I2b) that `Ladder` accumulates (both directions) -/
theorem Ladder_sources (op1 : OneP K) (args : List (OneP K)) (r : Port K) :
    LadderPhysG ladderPh 0 args (SeriesElem (fun v i => v = op1.Voc + op1.Z * i)) r ↔
      relBs (TP_Ladder op1 args).B (TP_Ladder op1 args).V2b (TP_Ladder op1 args).I2b r := by
  rw [ladder_chain, ← stagesG_ladder]
  exact chainAll_sources ladderPh ladderStage ladderStage_sources args 0 (TP_Series op1) _
    (fun p => Series_sources _ op1 (fun _ _ => Iff.rfl) p) r

/-- **LadderAlt_sources**: the same for `LadderAlt` (first arm in shunt) -/
theorem LadderAlt_sources (op1 : OneP K) (args : List (OneP K)) (r : Port K) :
    LadderPhysG ladderAltPh 0 args (ShuntElem (fun v i => i = op1.Y * v - op1.Isc)) r ↔
      relBs (TP_LadderAlt op1 args).B (TP_LadderAlt op1 args).V2b (TP_LadderAlt op1 args).I2b r := by
  rw [ladderAlt_chain]
  exact chainAll_sources ladderAltPh ladderAltStage ladderAltStage_sources args 0 (TP_Shunt op1) _
    (fun p => Shunt_sound _ op1 (fun _ _ => Iff.rfl) p) r

/-- non-vacuity: Series(Z = 2, Voc = 1) then Shunt(Y = 1/3, Isc = 0): V1 = 6, I1 = 1 gives V2 = 6 − 2 + 1 = 5 … and the
    open-ended port (I2 = −I1 + V2/3) -/
example : LadderPhysG ladderPh 0 [(⟨3, 1/3, 0, 0⟩ : OneP ℚ)] (SeriesElem (fun v i => v = 1 + 2 * i)) ⟨6, 1, 5, 2/3⟩ := by
  refine ⟨⟨6, 1, 5, -1⟩, ⟨5, 1, 5, 2/3⟩, by simp [CascadeP], by simp [SeriesElem]; norm_num, ?_⟩
  simp [ladderPh, ShuntElem]; norm_num

/-! ## 5. Connections of two two-ports add the corresponding matrices -/

/-- **par2_Y**: `Par2` adds Y matrices; right whenever both constituents keep their own port
    relation in the connection (the port condition) -/
theorem par2_Y (b1 b2 : M2 K) (Z0 : K) (p q r : Port K) (h1 : b1.a12 ≠ 0) (h2 : b2.a12 ≠ 0)
    (hc : ParConn p q r) (hp : rel .B b1 Z0 p) (hq : rel .B b2 Z0 q) :
    rel .Y (TP_Par2_Y b1 b2 Z0) Z0 r := by
  have y1 := (C08.B_to_Y_sound b1 Z0 p h1).mp hp
  have y2 := (C08.B_to_Y_sound b2 Z0 q h2).mp hq
  obtain ⟨V1, I1, V2, I2⟩ := p
  obtain ⟨V1', I1', V2', I2'⟩ := q
  obtain ⟨V1'', I1'', V2'', I2''⟩ := r
  simp only [ParConn] at hc
  obtain ⟨c1, c2, c3, c4, c5, c6⟩ := hc
  simp only [rel, lin, TP_Par2_Y, M2.add] at *
  obtain ⟨e1, e2⟩ := y1
  obtain ⟨e3, e4⟩ := y2
  constructor <;> grind

theorem ser2_Z (b1 b2 : M2 K) (Z0 : K) (p q r : Port K) (h1 : b1.a21 ≠ 0) (h2 : b2.a21 ≠ 0)
    (hc : SerConn p q r) (hp : rel .B b1 Z0 p) (hq : rel .B b2 Z0 q) :
    rel .Z (TP_Ser2_Z b1 b2 Z0) Z0 r := by
  have y1 := (C08.B_to_Z_sound b1 Z0 p h1).mp hp
  have y2 := (C08.B_to_Z_sound b2 Z0 q h2).mp hq
  obtain ⟨V1, I1, V2, I2⟩ := p
  obtain ⟨V1', I1', V2', I2'⟩ := q
  obtain ⟨V1'', I1'', V2'', I2''⟩ := r
  simp only [SerConn] at hc
  obtain ⟨c1, c2, c3, c4, c5, c6⟩ := hc
  simp only [rel, lin, TP_Ser2_Z, M2.add] at *
  obtain ⟨e1, e2⟩ := y1
  obtain ⟨e3, e4⟩ := y2
  constructor <;> grind

theorem hybrid2_H (b1 b2 : M2 K) (Z0 : K) (p q r : Port K) (h1 : b1.a11 ≠ 0) (h2 : b2.a11 ≠ 0)
    (hc : HybConn p q r) (hp : rel .B b1 Z0 p) (hq : rel .B b2 Z0 q) :
    rel .H (TP_Hybrid2_H b1 b2 Z0) Z0 r := by
  have y1 := (C08.B_to_H_sound b1 Z0 p h1).mp hp
  have y2 := (C08.B_to_H_sound b2 Z0 q h2).mp hq
  obtain ⟨V1, I1, V2, I2⟩ := p
  obtain ⟨V1', I1', V2', I2'⟩ := q
  obtain ⟨V1'', I1'', V2'', I2''⟩ := r
  simp only [HybConn] at hc
  obtain ⟨c1, c2, c3, c4, c5, c6⟩ := hc
  simp only [rel, lin, TP_Hybrid2_H, M2.add] at *
  obtain ⟨e1, e2⟩ := y1
  obtain ⟨e3, e4⟩ := y2
  constructor <;> grind

theorem invhybrid2_G (b1 b2 : M2 K) (Z0 : K) (p q r : Port K) (h1 : b1.a22 ≠ 0) (h2 : b2.a22 ≠ 0)
    (hc : InvHybConn p q r) (hp : rel .B b1 Z0 p) (hq : rel .B b2 Z0 q) :
    rel .G (TP_InverseHybrid2_G b1 b2 Z0) Z0 r := by
  have y1 := (C08.B_to_G_sound b1 Z0 p h1).mp hp
  have y2 := (C08.B_to_G_sound b2 Z0 q h2).mp hq
  obtain ⟨V1, I1, V2, I2⟩ := p
  obtain ⟨V1', I1', V2', I2'⟩ := q
  obtain ⟨V1'', I1'', V2'', I2''⟩ := r
  simp only [InvHybConn] at hc
  obtain ⟨c1, c2, c3, c4, c5, c6⟩ := hc
  simp only [rel, lin, TP_InverseHybrid2_G, M2.add] at *
  obtain ⟨e1, e2⟩ := y1
  obtain ⟨e3, e4⟩ := y2
  constructor <;> grind

/-- **par2_Y_complete** (converse of `par2_Y`): every behaviour of the summed Y matrix splits into behaviours of the
    two constituents connected in parallel -/
theorem par2_Y_complete (b1 b2 : M2 K) (Z0 : K) (r : Port K) (h1 : b1.a12 ≠ 0) (h2 : b2.a12 ≠ 0)
    (hr : rel .Y (TP_Par2_Y b1 b2 Z0) Z0 r) :
    ∃ p q, ParConn p q r ∧ rel .B b1 Z0 p ∧ rel .B b2 Z0 q := by
  obtain ⟨V1, I1, V2, I2⟩ := r
  let y1 := B_to_Y b1 Z0
  let y2 := B_to_Y b2 Z0
  refine ⟨⟨V1, y1.a11 * V1 + y1.a12 * V2, V2, y1.a21 * V1 + y1.a22 * V2⟩,
          ⟨V1, y2.a11 * V1 + y2.a12 * V2, V2, y2.a21 * V1 + y2.a22 * V2⟩, ?_, ?_, ?_⟩
  · simp only [rel, lin, TP_Par2_Y, M2.add] at hr
    obtain ⟨e1, e2⟩ := hr
    simp only [ParConn, y1, y2, true_and]
    constructor <;> grind
  · exact (C08.B_to_Y_sound b1 Z0 _ h1).mpr ⟨rfl, rfl⟩
  · exact (C08.B_to_Y_sound b2 Z0 _ h2).mpr ⟨rfl, rfl⟩

theorem ser2_Z_complete (b1 b2 : M2 K) (Z0 : K) (r : Port K) (h1 : b1.a21 ≠ 0) (h2 : b2.a21 ≠ 0)
    (hr : rel .Z (TP_Ser2_Z b1 b2 Z0) Z0 r) :
    ∃ p q, SerConn p q r ∧ rel .B b1 Z0 p ∧ rel .B b2 Z0 q := by
  obtain ⟨V1, I1, V2, I2⟩ := r
  let z1 := B_to_Z b1 Z0
  let z2 := B_to_Z b2 Z0
  refine ⟨⟨z1.a11 * I1 + z1.a12 * I2, I1, z1.a21 * I1 + z1.a22 * I2, I2⟩,
          ⟨z2.a11 * I1 + z2.a12 * I2, I1, z2.a21 * I1 + z2.a22 * I2, I2⟩, ?_, ?_, ?_⟩
  · simp only [rel, lin, TP_Ser2_Z, M2.add] at hr
    obtain ⟨e1, e2⟩ := hr
    simp only [SerConn, z1, z2, true_and]
    constructor <;> grind
  · exact (C08.B_to_Z_sound b1 Z0 _ h1).mpr ⟨rfl, rfl⟩
  · exact (C08.B_to_Z_sound b2 Z0 _ h2).mpr ⟨rfl, rfl⟩

theorem hybrid2_H_complete (b1 b2 : M2 K) (Z0 : K) (r : Port K) (h1 : b1.a11 ≠ 0) (h2 : b2.a11 ≠ 0)
    (hr : rel .H (TP_Hybrid2_H b1 b2 Z0) Z0 r) :
    ∃ p q, HybConn p q r ∧ rel .B b1 Z0 p ∧ rel .B b2 Z0 q := by
  obtain ⟨V1, I1, V2, I2⟩ := r
  let g1 := B_to_H b1 Z0
  let g2 := B_to_H b2 Z0
  refine ⟨⟨g1.a11 * I1 + g1.a12 * V2, I1, V2, g1.a21 * I1 + g1.a22 * V2⟩,
          ⟨g2.a11 * I1 + g2.a12 * V2, I1, V2, g2.a21 * I1 + g2.a22 * V2⟩, ?_, ?_, ?_⟩
  · simp only [rel, lin, TP_Hybrid2_H, M2.add] at hr
    obtain ⟨e1, e2⟩ := hr
    simp only [HybConn, g1, g2, true_and]
    constructor <;> grind
  · exact (C08.B_to_H_sound b1 Z0 _ h1).mpr ⟨rfl, rfl⟩
  · exact (C08.B_to_H_sound b2 Z0 _ h2).mpr ⟨rfl, rfl⟩

theorem invhybrid2_G_complete (b1 b2 : M2 K) (Z0 : K) (r : Port K) (h1 : b1.a22 ≠ 0) (h2 : b2.a22 ≠ 0)
    (hr : rel .G (TP_InverseHybrid2_G b1 b2 Z0) Z0 r) :
    ∃ p q, InvHybConn p q r ∧ rel .B b1 Z0 p ∧ rel .B b2 Z0 q := by
  obtain ⟨V1, I1, V2, I2⟩ := r
  let g1 := B_to_G b1 Z0
  let g2 := B_to_G b2 Z0
  refine ⟨⟨V1, g1.a11 * V1 + g1.a12 * I2, g1.a21 * V1 + g1.a22 * I2, I2⟩,
          ⟨V1, g2.a11 * V1 + g2.a12 * I2, g2.a21 * V1 + g2.a22 * I2, I2⟩, ?_, ?_, ?_⟩
  · simp only [rel, lin, TP_InverseHybrid2_G, M2.add] at hr
    obtain ⟨e1, e2⟩ := hr
    simp only [InvHybConn, g1, g2, true_and]
    constructor <;> grind
  · exact (C08.B_to_G_sound b1 Z0 _ h1).mpr ⟨rfl, rfl⟩
  · exact (C08.B_to_G_sound b2 Z0 _ h2).mpr ⟨rfl, rfl⟩

/-! ## 6. Non-vacuity -/

/-- a concrete T network: Z1 = 2, Z2 = 3, Z3 = 5 with I1 = 1, I2 = 1: vm = 6, V1 = 8, V2 = 11 -/
example : TNet (2 : ℚ) 3 5 ⟨8, 1, 11, 1⟩ := ⟨6, by norm_num, by norm_num, by norm_num⟩
example : rel .Z (Z_Tsection (2 : ℚ) 3 5) 1 ⟨8, 1, 11, 1⟩ := (Z_Tsection_sound 2 3 5 1 _).mp ⟨6, by norm_num, by norm_num, by norm_num⟩
example : ParConn (⟨1, 2, 3, 4⟩ : Port ℚ) ⟨1, 5, 3, 6⟩ ⟨1, 7, 3, 10⟩ := by simp [ParConn]; norm_num

end Lcapy.C07
