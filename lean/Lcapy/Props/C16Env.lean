/-
  C16 -- the ENVIRONMENT clause: process-wide settings (state.py, config.py; the table of settings and the modules
  reading them is GENERATED: `Gen.Caches.settings`) and memoised analyses (Model/EnvMemo.lean).

  STATUS: MODEL REMARKS.  `Model/EnvMemo.lean` is a small abstract machine (one netlist, settings, one memo slot, an
  ARBITRARY analysis `f elts env`); it is not executed by the driver and has no correspondence stream of its own --
  nothing of lcapy is claimed through these theorems.  They explain the mechanism: lcapy never invalidates a memo when
  a setting changes, so a trace can remain exactly when a memoised analysis is sensitive to a setting that is toggled
  around a query (`toggle_query_back_trace`, `toggle_trace_witness`); `toggle_back_*` hold because assigning a setting
  cannot touch a memo; `insensitive_history_independent` carries the real obligation as its HYPOTHESIS
  (`Insensitive f keys`) and that hypothesis is not discharged for any analysis of lcapy.
  What is claimed of lcapy for this clause: the table theorems `netlist_layer_reads_only_solver_method` /
  `netlist_layer_reads_no_state_setting` (Props/C16Tables.lean) and the toggle oracle on the real code (a setting is
  toggled, a query asked under it, the setting toggled back: every later observation is compared with a fresh rebuild).

  * `answer_is_function_of_elements_and_settings`  every answer is `f elts env₀` for the elements at the time of the
        query and the settings `env₀` at the time the memo was filled -- nothing else of the history enters;
  * `insensitive_history_independent`  if the analysis does not read the settings the history assigns, every query
        answers as a freshly built circuit in the current process;
  * `toggle_back_no_trace`    assigning a setting and assigning the old value back, with no query in between, leaves
        NO trace whatever the analysis reads: the state is literally the same;
  * `toggle_query_back_trace` ... with a query in between on an empty memo, the memo keeps the answer computed under
        the toggled setting: a trace remains exactly when the analysis is sensitive to that setting (witness below).
-/
import Lcapy.Model.EnvMemo
set_option linter.unusedVariables false
namespace Lcapy.C16
open Lcapy.EnvMemo

variable {E R : Type}

theorem set_back (e : Env) (k v : String) : (e.set k v).set k (e k) = e := by
  funext x
  simp only [Env.set]
  by_cases h : x = k
  · simp [h]
  · simp [h]

/-- TOGGLE AND BACK, nothing asked in between: the process state is the same as before -/
theorem toggle_back_no_trace (f : E → Env → R) (s : St E R) (k v : String) :
    run f s [.set k v, .set k (s.env k)] = s := by
  simp only [run, step]
  have : ((s.env.set k v).set k (s.env k)) = s.env := set_back s.env k v
  cases s
  simp_all

/-- hence every later answer is what it would have been without the toggle -/
theorem toggle_back_transparent (f : E → Env → R) (s : St E R) (k v : String) (post : List (Op E)) :
    answers f s (.set k v :: .set k (s.env k) :: post) = answers f s post := by
  have h := toggle_back_no_trace f s k v
  simp only [run] at h
  simp only [answers, step]
  rw [show ({ s with env := ((s.env.set k v).set k (s.env k)) } : St E R) = s from by
    have : ((s.env.set k v).set k (s.env k)) = s.env := set_back s.env k v
    cases s; simp_all]

/-- invariant: a filled memo holds `f elts env₀` for SOME settings `env₀` that agree with the current ones outside
    the keys assigned so far -/
def MemoFrom (f : E → Env → R) (ks : List String) (s : St E R) : Prop :=
  ∀ r, s.memo = some r → ∃ env0 : Env, r = f s.elts env0 ∧ ∀ x, x ∉ ks → env0 x = s.env x

theorem memoFrom_step (f : E → Env → R) (ks : List String) (s : St E R) (op : Op E)
    (hk : ∀ k v, op = .set k v → k ∈ ks) (h : MemoFrom f ks s) : MemoFrom f ks (step f s op).1 := by
  cases op with
  | set k v =>
    intro r hr
    obtain ⟨e0, h1, h2⟩ := h r hr
    refine ⟨e0, h1, ?_⟩
    intro x hx
    have : x ≠ k := fun e => hx (e ▸ hk k v rfl)
    simp [step, Env.set, this, h2 x hx]
  | mutate e => intro r hr; simp [step] at hr
  | query =>
    simp only [step]
    cases hm : s.memo with
    | some r0 => simpa [hm] using h
    | none =>
      intro r hr
      simp at hr
      exact ⟨s.env, hr.symm, fun _ _ => rfl⟩

/-- EVERY ANSWER IS A FUNCTION OF (ELEMENTS, SETTINGS): the answer of a query after any history is `f` of the current
    elements and of settings that differ from the current ones at most in the keys the history assigned -/
theorem answer_is_function_of_elements_and_settings (f : E → Env → R) (ops : List (Op E)) (s : St E R)
    (h0 : s.memo = none) :
    ∃ env0 : Env, (step f (run f s ops) .query).2 = some (f (run f s ops).elts env0) ∧
      ∀ x, x ∉ keysSet ops → env0 x = (run f s ops).env x := by
  have hinv : ∀ (ops : List (Op E)) (s : St E R) (ks : List String), (∀ k ∈ keysSet ops, k ∈ ks) → MemoFrom f ks s →
      MemoFrom f ks (run f s ops) := by
    intro ops
    induction ops with
    | nil => intro s ks _ h; exact h
    | cons op ops ih =>
      intro s ks hks h
      simp only [run]
      apply ih
      · intro k hk
        apply hks
        cases op <;> simp [keysSet, hk]
      · apply memoFrom_step f ks s op _ h
        intro k v e; subst e; exact hks k (by simp [keysSet])
  have hm := hinv ops s (keysSet ops) (fun _ h => h) (by intro r hr; rw [h0] at hr; cases hr)
  simp only [step]
  cases hmem : (run f s ops).memo with
  | some r =>
    obtain ⟨e0, h1, h2⟩ := hm r hmem
    exact ⟨e0, by simp [h1], h2⟩
  | none => exact ⟨(run f s ops).env, rfl, fun _ _ => rfl⟩

/-- HISTORY INDEPENDENCE under settings the analysis does not read: whatever was toggled, asked and edited before,
    a query answers as on a circuit freshly built (empty memo) from the same elements in the same process -/
theorem insensitive_history_independent (f : E → Env → R) (ops : List (Op E)) (s : St E R) (h0 : s.memo = none)
    (hins : Insensitive f (keysSet ops)) :
    (step f (run f s ops) .query).2 = (step f (fresh (run f s ops)) .query).2 := by
  obtain ⟨e0, h1, h2⟩ := answer_is_function_of_elements_and_settings f ops s h0
  rw [h1]
  simp only [step, fresh]
  rw [hins _ e0 (run f s ops).env h2]

example : Insensitive (fun (e : Nat) (env : Env) => e + (env "loose_units").length) ["current_sign_convention"] := by
  intro e a b h
  simp [h "loose_units" (by simp)]

/-- TOGGLE, ASK, TOGGLE BACK on an empty memo: the memo keeps what was computed under the toggled setting -/
theorem toggle_query_back_trace (f : E → Env → R) (s : St E R) (h0 : s.memo = none) (k v : String) :
    (step f (run f s [.set k v, .query, .set k (s.env k)]) .query).2 = some (f s.elts (s.env.set k v)) ∧
    (run f s [.set k v, .query, .set k (s.env k)]).env = s.env := by
  simp only [run, step, h0]
  exact ⟨by first | rfl | trivial, set_back s.env k v⟩

/-- so a trace remains iff the analysis is sensitive to the setting at these elements: witness with an analysis
    that reads `current_sign_convention` -/
theorem toggle_trace_witness :
    let f : Nat → Env → Int := fun e env => if env "current_sign_convention" = "active" then -(e : Int) else e
    let s : St Nat Int := ⟨5, fun _ => "passive", none⟩
    (step f (run f s [.set "current_sign_convention" "active", .query, .set "current_sign_convention" "passive"]) .query).2 = some (-5) ∧
    (step f (fresh s) .query).2 = some 5 := by decide

end Lcapy.C16
