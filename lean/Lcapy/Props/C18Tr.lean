/-
  PROPERTY C18, part 4 (round 3, goal G3) -- units of every forward / inverse transform pair, including the
  discrete-time family (z-transform, DFT: sums over samples, no scaling) and the constant domains, with the
  round-trip theorem over the WHOLE regenerated class table; the constant sub-domain chosen for a quantity.

  `transformTable` now also holds the rows of nexpr.py, zexpr.py, kexpr.py and cexpr.py.
-/
import Lcapy.Generated.Quantities
import Lcapy.Proofs.QuantitiesBase
import Lcapy.Props.C18
namespace Lcapy.C18
open Lcapy.Dim Lcapy.QModel Lcapy.Gen.Q Lcapy.QBase

/-! ## 1. which quantities are responses -/

/-- SPEC: the response quantities are those whose time-domain form is an impulse response (per
    second): impedance, admittance, transfer function and the squared immittances -/
def isResponseQ (q : Quantity) : Bool := decide (timeExp .time q < 0)

/-- the `is_ratio` flag of every quantity mixin is the spec's notion of a response quantity (it
    decides the constant sub-domain, and with it what a transform of a constant does: `Z(s)` of a
    constant impedance is the constant, `V(s)` of a constant voltage is `V/s`) -/
theorem ratio_flags_match_spec :
    ∀ r ∈ quantityTable, r.isRatio = isResponseQ r.q := by decide

/-- `exprmap`: a constant of a response quantity lives in the constant frequency-response domain, a
    constant signal (or power) in the constant time domain -- for every defined quantity -/
theorem exprmap_constant_subdomain_spec :
    ∀ q ∈ Quantity.all, q.isDefined = true →
      exprmapM tables q .constant =
        (if isResponseQ q then .constantFrequencyResponse else .constantTime) := by decide

/-- hence the class a product / quotient of constants is given: (Z * Z), (Z / Y), ... stay in the
    constant frequency-response domain -/
theorem constant_immittance_products_stay_responses :
    ∀ r ∈ mulTable ++ divTable, isResponseQ r.1 = true → isResponseQ r.2.1 = true →
      r.2.2 ≠ .constant → exprmapM tables r.2.2 .constant = .constantFrequencyResponse := by decide

/-! ## 2. the discrete-time family and the constant domains -/

/-- z-transform, inverse z-transform, DFT and IDFT are sums over samples: no `units_scale` -/
theorem discrete_transforms_unscaled :
    ∀ r ∈ transformTable,
      ((r.src = .discreteTime ∧ (r.dst = .Z ∨ r.dst = .discreteFourier)) ∨
       (r.dst = .discreteTime ∧ (r.src = .Z ∨ r.src = .discreteFourier))) → r.scale = none := by
  decide

theorem discrete_transform_rows_present :
    (transformTable.any (fun r => r.src == .discreteTime && r.dst == .Z)) ∧
    (transformTable.any (fun r => r.src == .Z && r.dst == .discreteTime)) ∧
    (transformTable.any (fun r => r.src == .discreteTime && r.dst == .discreteFourier)) ∧
    (transformTable.any (fun r => r.src == .discreteFourier && r.dst == .discreteTime)) := by decide

/-- ... and the class defaults agree: every quantity has the same units in the discrete-time, z
    and DFT domains (per-sample scaling) -/
theorem discrete_class_units_per_sample :
    ∀ q ∈ Quantity.all, q ≠ .constant →
      defaultUnits tables .Z q = defaultUnits tables .discreteTime q ∧
      defaultUnits tables .discreteFourier q = defaultUnits tables .discreteTime q := by decide

/-- a change out of a constant domain is a re-labelling: never scaled -/
theorem constant_domain_changes_unscaled :
    ∀ r ∈ transformTable, isConst tables r.src = true → r.scale = none := by decide

/-- every scaled row scales by exactly `s` or exactly `Hz` (all files, incl. the new ones) -/
theorem transform_scales_are_s_or_Hz :
    ∀ r ∈ transformTable, ∀ s, r.scale = some s →
      s = ⟨0, 0, 0, 0, 0, 0, 1, 0⟩ ∨ s = ⟨0, 0, 0, 0, 0, 1, 0, 0⟩ := by decide

def domainOfMethodName : String → Option Domain
  | "time" => some .time | "laplace" => some .laplace | "fourier" => some .fourier
  | "angular_fourier" => some .angularFourier | "norm_fourier" => some .normFourier
  | "norm_angular_fourier" => some .normAngularFourier
  | "frequency_response" => some .frequencyResponse
  | "angular_frequency_response" => some .angularFrequencyResponse
  | _ => none

/-- a method named after a domain changes to that domain (false for
    `ConstantExpr.frequency_response` before the fix of finding C18-F31) -/
theorem method_named_after_domain :
    ∀ r ∈ transformTable, ∀ d, domainOfMethodName r.method = some d → r.dst = d := by decide

/-! ## 3. round trip over the whole class table -/

def opdOf (d : Domain) (q : Quantity) (u : U) : Opd := ⟨d, q, u, false, false, false⟩

/-- model of `x.<m1>().<m2>()` -/
def roundTrip (d : Domain) (q : Quantity) (u : U) (m1 m2 : String) : Option Outcome :=
  match transformM tables (opdOf d q u) m1 with
  | some (.ok d' q' u') => transformM tables (opdOf d' q' u') m2
  | _ => none

def roundTripOk (d : Domain) (q : Quantity) (u : U) (m1 m2 : String) : Bool :=
  match roundTrip d q u m1 m2 with
  | some (.ok d'' q'' u'') => d'' == d && q'' == q && sameUnits u'' u
  | _ => false

/-- the (forward, inverse) pairs of the table: `r2` leads back from `r1`'s target to `r1`'s source,
    both being the rows `transformM` selects for their method names -/
def inversePairs : List (TransformRow × TransformRow) :=
  (transformTable.flatMap (fun r1 => transformTable.map (fun r2 => (r1, r2)))).filter
    (fun p => p.1.src == p.2.dst && p.1.dst == p.2.src && !isConst tables p.1.src && !isConst tables p.1.dst)

/-- ROUND TRIP, every class of the regenerated class table: an expression of ANY of the 190 quantity
    classes carrying its class units, pushed through a transform of the table and the inverse
    transform of the table, comes back in its own class (domain, quantity) with units of the same
    SI dimension and the same power of the radian: Laplace, Fourier (time <-> f), z-transform, DFT.
    (Pairs present: `inversePairs_nonempty`; rows through which a transform is not a `change` --
    DTFT -- are judged by the oracle.) -/
theorem transform_roundtrip_class_table :
    ∀ p ∈ inversePairs, ∀ c ∈ classTable, c.dom = p.1.src → ∀ u, c.units = some u →
      roundTripOk c.dom c.q u p.1.method p.2.method = true := by
  have h : inversePairs.all (fun p => classTable.all (fun c =>
      !(c.dom == p.1.src) || match c.units with
        | none => true
        | some u => roundTripOk c.dom c.q u p.1.method p.2.method)) = true := by decide +kernel
  intro p hp c hc hd u hu
  have := List.all_eq_true.mp (List.all_eq_true.mp h p hp) c hc
  simpa [hd, hu] using this

theorem inversePairs_nonempty :
    (inversePairs.map (fun p => (p.1.src, p.1.method, p.2.method))) =
      [(.time, "LT", "ILT"), (.time, "FT", "inverse_fourier"), (.laplace, "ILT", "LT"),
       (.fourier, "inverse_fourier", "FT"), (.discreteTime, "ztransform", "inverse_ztransform"),
       (.discreteTime, "DFT", "IDFT"), (.Z, "inverse_ztransform", "ztransform"),
       (.discreteFourier, "IDFT", "DFT")] := by decide

/-- the rows `transformM` selects for the four integral transforms of the property -/
theorem integral_rows :
    tables.transforms.find? (fun r => r.src == Domain.time && r.method == "LT") =
      some ⟨.time, "LT", .laplace, some ⟨0, 0, 0, 0, 0, 0, 1, 0⟩, true⟩ ∧
    tables.transforms.find? (fun r => r.src == Domain.laplace && r.method == "ILT") =
      some ⟨.laplace, "ILT", .time, some ⟨0, 0, 0, 0, 0, 1, 0, 0⟩, true⟩ ∧
    tables.transforms.find? (fun r => r.src == Domain.time && r.method == "FT") =
      some ⟨.time, "FT", .fourier, some ⟨0, 0, 0, 0, 0, 0, 1, 0⟩, true⟩ ∧
    tables.transforms.find? (fun r => r.src == Domain.fourier && r.method == "inverse_fourier") =
      some ⟨.fourier, "inverse_fourier", .time, some ⟨0, 0, 0, 0, 0, 1, 0, 0⟩, true⟩ := by decide

/-- the class chosen by these four transforms is the class of the same quantity in the target
    domain, for every quantity -/
theorem integral_targets (q : Quantity) :
    classByQuantity tables .time q .laplace = .laplace ∧ classByQuantity tables .laplace q .time = .time ∧
    classByQuantity tables .time q .fourier = .fourier ∧ classByQuantity tables .fourier q .time = .time := by
  cases q <;> decide

theorem sameUnits_s_Hz (w : U) :
    sameUnits (w + ⟨0, 0, 0, 0, 0, 0, 1, 0⟩ + ⟨0, 0, 0, 0, 0, 1, 0, 0⟩) w = true ∧
    sameUnits (w + ⟨0, 0, 0, 0, 0, 1, 0, 0⟩ + ⟨0, 0, 0, 0, 0, 0, 1, 0⟩) w = true := by
  constructor <;>
  · simp only [sameUnits, Bool.and_eq_true, decide_eq_true_eq]
    refine ⟨?_, by simp⟩
    apply dim3_ext <;> simp [dimU] <;> omega

/-- ... and for an expression of ANY quantity carrying ANY units (not only the class default): the
    Laplace and Fourier pairs restore domain, quantity and the SI dimension of the units exactly
    ("a voltage in V becomes V/Hz in the Laplace or Fourier domain and back") -/
theorem transform_roundtrip_any_units (q : Quantity) (u : U) :
    roundTripOk .time q u "LT" "ILT" = true ∧ roundTripOk .laplace q u "ILT" "LT" = true ∧
    roundTripOk .time q u "FT" "inverse_fourier" = true ∧
    roundTripOk .fourier q u "inverse_fourier" "FT" = true := by
  obtain ⟨r1, r2, r3, r4⟩ := integral_rows
  obtain ⟨t1, t2, t3, t4⟩ := integral_targets q
  obtain ⟨k1, k2⟩ := sameUnits_s_Hz u
  refine ⟨?_, ?_, ?_, ?_⟩ <;>
    simp [roundTripOk, roundTrip, transformM, opdOf, r1, r2, r3, r4, t1, t2, t3, t4, k1, k2]

end Lcapy.C18
