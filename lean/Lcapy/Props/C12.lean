import Lcapy.Spec.Fourier
import Lcapy.Spec.FourierExec
import Lcapy.Model.Fourier
import Lcapy.Generated.FourierTable
namespace Lcapy.C12
open Lcapy.Fourier

/-- placeholder while the end-to-end loop is brought up -/
theorem table_nonempty : Gen.table ≠ [] := by decide

end Lcapy.C12
