/-
  C12 -- Fourier-family transforms agree with their definitions and with each other.

  Objects (Spec/Fourier.lean): the class `E` of finite sums  c·e^{j2πph}·e^{j2πθx}·K(ax+b)  (K: constants, deltas and their
  derivatives, powers, 1/x, 1/x², signum, step, |x|, ramp, rect, tri, sinc, sinc², Gaussian, one-sided polynomial-weighted
  decaying exponentials, their spectra (α+j2πx)^{-n}), closed under the formal bilateral transform `ft`; π is an
  indeterminate (`pi : Rat` universally quantified).  The code is represented by `Gen.table` / `Gen.conversions`
  (regenerated from lcapy's source on every run) and by `Model.modelTerm` (the dispatch of `FourierTransformer.term`).
-/
import Lcapy.Spec.Fourier
import Lcapy.Spec.FourierExec
import Lcapy.Model.Fourier
import Lcapy.Generated.FourierTable
import Lcapy.Proofs.Fourier
import Lcapy.Proofs.FourierAnchors
import Lcapy.Proofs.LaplaceIntegral
namespace Lcapy.C12
open Lcapy.Fourier

/-! ## the table of the code -/

/-- every recognised branch of `FourierTransformer.term` returns, in the forward direction, the spec's formal pair -/
theorem ft_table_forward : ∀ e ∈ Gen.table, entryForwardOk e = true := by decide

/-- `inverseEntry e = reflect (forwardEntry e)` for every generated table branch of `FourierTransformer.term`
    (F12 -- the `other == Heaviside(t)` branch wrote `f` where `sf` is meant -- is fixed in the source) -/
theorem ft_table_inverse : ∀ e ∈ Gen.table, entryInverseOk e = true := by decide

/-- why: a branch is reflection-consistent exactly when every sub-expression that is not an even atom is written with `sf` -/
theorem ft_table_inverse_iff_sf :
    ∀ e ∈ Gen.table, (entryInverseOk e = true ↔
      e.terms.all (fun g => g.useSf || g.k.parity == some true || (g.reN == 0 && g.imN == 0)) = true) := by decide

/-- the structural check means what it says on the class `E`: equal sign-canonical terms -/
theorem ft_table_inverse_sound (pi : Rat) (g : GTerm) (h : g.canon true = g.canonReflected false) :
    canonT (g.toTerm pi true) = canonT (reflectT (g.toTerm pi false)) :=
  canon_inverse_sound pi g h

/-- the two parametrised branches (`exp(c1 t + c0)·u(t)` and `1/(c1 t + c0)`) use `sf` throughout -/
theorem ft_param_entries_use_sf : Gen.expuUsesSf = some true ∧ Gen.cpoleUsesSf = some true := by decide

example : entryInverseOk ⟨.step, "x", [⟨0, -1, 2, -1, .inv1, false, 1, 1, 0⟩]⟩ = false := by decide

/-! ## transform laws on the class (all signals, structural induction on the sum) -/

theorem ft_linear_add (pi : Rat) (x y : E) : ft pi (x ++ y) = ft pi x ++ ft pi y := ft_append pi x y
theorem ft_linear_smul (pi : Rat) (q : CQ) (x : E) : ft pi (smulE q x) = smulE q (ft pi x) := ft_smulE pi q x

/-- x(t − τ)  ⟷  e^{−j2πfτ} X(f) -/
theorem ft_shift (pi tau : Rat) (x : E) (h : WF x) : ft pi (shiftE tau x) = modE (-tau) (ft pi x) := ft_shiftE pi tau x h
/-- e^{j2πνt} x(t)  ⟷  X(f − ν) -/
theorem ft_modulate (pi nu : Rat) (x : E) (h : WF x) : ft pi (modE nu x) = shiftE nu (ft pi x) := ft_modE pi nu x h
/-- x(σt)  ⟷  X(f/σ)/|σ| -/
theorem ft_scale (pi s : Rat) (hs : s ≠ 0) (x : E) (h : WF x) :
    ft pi (scaleE s x) = smulE (CQ.ofRat (1 / rabs s)) (scaleE (1 / s) (ft pi x)) := ft_scaleE pi s hs x h

/-- the two laws compose: x(at + b)  ⟷  e^{j2π(b/a)f} X(f/a)/|a|  -- the delay of a scaled and shifted signal is b/a, not b -/
theorem ft_scale_shift (pi a b : Rat) (ha : a ≠ 0) (x : E) (h : WF x) :
    ft pi (scaleE a (shiftE (-b) x)) = smulE (CQ.ofRat (1 / rabs a)) (scaleE (1 / a) (modE b (ft pi x))) := by
  have hw : WF (shiftE (-b) x) := by
    intro t ht
    simp only [shiftE, List.mem_map] at ht
    obtain ⟨u, hu, rfl⟩ := ht
    exact h u hu
  rw [ft_scaleE pi a ha _ hw, ft_shiftE pi (-b) x h, neg_neg]

/-- ... and the phase it produces on a term: modulation b/a -/
example : (ft 3 (scaleE 2 (shiftE 1 [⟨1, 0, 0, .rect, 1, 0⟩]))).map (·.th) = [-1 / 2] := by
  simp [ft, ftTerm, ftKind, scaleE, shiftE, scaleT, shiftT]

example : WF [⟨1, 0, 2, .rect, 2, -1⟩, ⟨⟨0, 1⟩, 0, 0, .expu 1 ⟨3, 0⟩, -1, 0⟩] := by
  intro t ht; simp at ht; rcases ht with rfl | rfl <;> decide

/-- the same laws for the inverse transform (reflection commutes with the operations up to the expected signs) -/
theorem ift_shift (pi tau : Rat) (x : E) (h : WF x) : ift pi (shiftE tau x) = modE tau (ift pi x) := by
  simp only [ift, ft_shiftE pi tau x h, reflectE, modE, List.map_map]
  apply List.map_congr_left; intro t _; simp [Function.comp, reflectT, modT]; ring

/-! ## the model of `term` refines the formal transform -/

/-- the similarity and shift statements of `term`, as read from the source by the translator, are the theorems:
    `self.term(expr2, t, f/scale)/abs(scale)` and `exp(I*2*pi*sf/scale*shift)` (the delay of x(at+b) is b/a) -/
theorem similarity_code_is_theorem :
    Gen.similarity = some (-1, 1) ∧ Gen.shiftPhase = some (true, -1, 1) ∧ Gen.theoremCodeAsModelled = true := by decide

/-- forward direction: for an atom handled by a table branch, what the code computes (table value, then
    `similarity_shift` with `f/scale`, `/|scale|` and the phase factor, then the modulation substitution) is the
    spec transform of  c·e^{j2πθt}·K(at+b), provided the branch returns the spec's pair -/
theorem model_forward_refines (pi : Rat) (t : Term) (e : GEntry) (ha : t.a ≠ 0)
    (hk : ∀ al, t.k ≠ .cpole 1 al) (hk' : ∀ al, t.k ≠ .expu 0 al) (h1 : t.k ≠ .one) (h2 : t.k ≠ .ramp) (h3 : t.k ≠ .inv1)
    (h4 : t.k ≠ .inv2) (h5 : ∀ al, t.k ≠ .trap al) (hl : Model.lookup t.k 0 = some e)
    (hpair : entryE pi false e.terms = (ftKind pi t.k).map fun p => ⟨p.q, 0, 0, p.k, p.s, 0⟩) :
    Model.modelTerm pi false 0 t = some (ftTerm pi t) :=
  model_forward_refines_aux pi t e ha similarity_code_is_theorem.1 similarity_code_is_theorem.2.1 hk hk' h1 h2 h3 h4 h5 hl hpair

/-- every generated row is, term by term, the row of its atom in the spec's table (exact order; decided on the regenerated table) -/
theorem ft_table_rows_exact : ∀ e ∈ Gen.table, entryForwardExact e = true := by decide

/-- `model_forward_refines` with the table hypothesis DISCHARGED: for an atom handled by a generated table branch, the model of the
    code computes the spec transform `ftTerm` (defined from `ftKind`) of `c·e^{j2πθt}·K(at+b)` -/
theorem model_forward_refines_table (pi : Rat) (t : Term) (e : GEntry) (ha : t.a ≠ 0)
    (hk : ∀ al, t.k ≠ .cpole 1 al) (hk' : ∀ al, t.k ≠ .expu 0 al) (h1 : t.k ≠ .one) (h2 : t.k ≠ .ramp) (h3 : t.k ≠ .inv1)
    (h4 : t.k ≠ .inv2) (h5 : ∀ al, t.k ≠ .trap al) (hl : Model.lookup t.k 0 = some e) :
    Model.modelTerm pi false 0 t = some (ftTerm pi t) := by
  obtain ⟨hmem, hkind⟩ := lookup_mem t.k 0 e hl
  have hrow := table_row_is_ftKind pi e (ft_table_rows_exact e hmem)
  rw [hkind] at hrow
  exact model_forward_refines pi t e ha hk hk' h1 h2 h3 h4 h5 hl hrow

-- non-vacuity of model_forward_refines_table: a scaled, shifted, modulated rect with complex coefficient, every premise proved
example : Model.modelTerm (22 / 7) false 0 ⟨⟨2, 1⟩, 1 / 4, 3, .rect, 2, -1⟩ = some (ftTerm (22 / 7) ⟨⟨2, 1⟩, 1 / 4, 3, .rect, 2, -1⟩) := by
  cases h : Model.lookup Kind.rect 0 with
  | none => exact absurd h (by decide)
  | some e =>
    exact model_forward_refines_table (22 / 7) ⟨⟨2, 1⟩, 1 / 4, 3, .rect, 2, -1⟩ e (by decide) (by intro al; simp) (by intro al; simp)
      (by simp) (by simp) (by simp) (by simp) (by intro al; simp) h

/-- … and for the trapezoid: with the exponent `p` that the source writes (`α^p·sincn(f)·sincn(αf)`, GENERATED), the code computes
    `α^p` times the spec transform of every scaled / shifted / modulated trapezoid; `p = 0` is the pair (Props/C12Trap.lean) -/
theorem model_trap_refines (pi : Rat) (t : Term) (al : Rat) (p : Int) (ha : t.a ≠ 0) (hk : t.k = .trap al) (h : Gen.trapAlphaPow = some p) :
    Model.modelTerm pi false 0 t = some ((ftTerm pi t).map (smulT (CQ.ofRat (zpow al p)))) := by
  obtain ⟨c, ph, th, k, a, b⟩ := t
  simp only at ha hk
  subst hk
  have har := rabs_ne_zero ha
  simp only [Model.modelTerm, Model.otherTerm, h, Option.bind_some,
    simShift_forward a b _ similarity_code_is_theorem.1 similarity_code_is_theorem.2.1, Option.map_some, Option.some.injEq,
    shiftE, smulE, modE, scaleE, List.map_map, ftTerm, ftKind, List.map_cons, List.map_nil, List.cons.injEq, and_true]
  apply Term.ext' <;> simp only [Function.comp, shiftT, smulT, modT, scaleT]
  · ext <;> simp [CQ.smul, CQ.mul_re, CQ.mul_im, CQ.ofRat, CQ.one_re, CQ.one_im] <;> ring
  all_goals (simp; try (field_simp); try ring)

/-! ## frequency variables -/

/-- the f ↔ ω rows of the conversion table: ω = 2πf -/
theorem f_omega_table :
    ∀ c ∈ Gen.conversions, (c.src = .f ∨ c.src = .omega) → (c.dst = some .f ∨ c.dst = some .omega ∨ c.dst = none) →
      convOk c = true := by decide

/-- X_ω(ω) = X_f(ω/2π): the substitution factor of a correct f→ω row is 1/(2π), of a correct ω→f row 2π -/
theorem f_omega (pi dt : Rat) (c : GConv) (h : convOk c = true) (hr : c.returnsSelf = false) :
    (c.src = .f → c.dst = some .omega → Model.convFactor pi dt c = 1 / 2 * (1 / pi)) ∧
    (c.src = .omega → c.dst = some .f → Model.convFactor pi dt c = 2 * pi) ∧
    (c.src = .omega → c.dst = none → Model.convFactor pi dt c = 2 * pi) :=
  f_omega_aux pi dt c h hr

/-- ... with the matching scaling of Dirac deltas: under v ↦ κ·v, δ^{(n)} at x* with weight w becomes δ^{(n)} at x*/κ with
    weight w/(|κ| κⁿ); for κ = 1/(2π), n = 0: δ(ω/2π − f₀) = 2π·δ(ω − 2πf₀) -/
theorem delta_scaling (kappa : Rat) (hk : kappa ≠ 0) (n : Nat) (t : Term) (ha : t.a ≠ 0) :
    deltaLoc (scaleT kappa t) = deltaLoc t / kappa ∧
    deltaWeight n (scaleT kappa t) = CQ.smul (1 / (rabs kappa * kappa ^ n)) (deltaWeight n t) :=
  delta_scaling_aux kappa hk n t ha

/-- and the regular part is evaluated at the substituted point -/
theorem scale_argument (kappa x : Rat) (t : Term) : (scaleT kappa t).a * x + (scaleT kappa t).b = t.a * (kappa * x) + t.b := by
  simp [scaleT]; ring

/-- every conversion row substitutes v_src = (k_src/k_dst)·v_dst, k_f = 1, k_ω = 2π, k_F = Δt, k_Ω = 2πΔt
    (the rows of normfexpr.py / normomegaexpr.py, findings F12d/F12e, are fixed in the source) -/
theorem norm_variants : ∀ c ∈ Gen.conversions, convOk c = true := by decide

/-- the rows from the time domain's result (`fexpr.py`) to all four variables are right, so x(f), x(ω), x(F), x(Ω) are consistent -/
theorem norm_variants_from_f : ∀ c ∈ Gen.conversions, c.src = .f → convOk c = true := by decide

/-- the conversion methods of the four classes (GENERATED rows) ARE the spec's re-expression `X_E(v) = X_D((k_D/k_E)·v)`,
    for every ordered pair of variables (16 pairs; π, Δt ≠ 0) -/
theorem model_conv_refines (pi dt : Rat) (hpi : pi ≠ 0) (hdt : dt ≠ 0) (d e : Dom) (g : E) :
    Model.modelConv pi dt d e g = some (convDom pi dt d e g) := modelConv_refines pi dt hpi hdt d e g

/-- conversions compose: D → E → F is D → F -/
theorem conv_compose (pi dt : Rat) (hpi : pi ≠ 0) (hdt : dt ≠ 0) (d e f : Dom) (g : E) :
    convDom pi dt e f (convDom pi dt d e g) = convDom pi dt d f g := convDom_comp pi dt hpi hdt d e f g

/-- f → ω → F → Ω → f through the code's conversion methods is the identity on the class -/
theorem conv_cycle_identity (pi dt : Rat) (hpi : pi ≠ 0) (hdt : dt ≠ 0) (g : E) :
    (Model.modelConv pi dt .f .omega g >>= Model.modelConv pi dt .omega .F >>= Model.modelConv pi dt .F .Omega
      >>= Model.modelConv pi dt .Omega .f) = some g := modelConv_cycle pi dt hpi hdt g

/-- … and so is ANY chain of conversions d → e₁ → … → eₙ → d that returns to its starting variable -/
theorem conv_chain_identity (pi dt : Rat) (hpi : pi ≠ 0) (hdt : dt ≠ 0) (d : Dom) (path : List Dom) (g : E) :
    (path ++ [d]).foldl (fun (st : Dom × E) e => (e, convDom pi dt st.1 e st.2)) (d, g) = (d, g) :=
  convDom_chain pi dt hpi hdt d path g

/-- x(v_E) is x(v_D) re-expressed, and the inverse transform does not depend on the variable the spectrum is written in -/
theorem ft_dom_conv (pi dt : Rat) (hpi : pi ≠ 0) (hdt : dt ≠ 0) (d e : Dom) (x g : E) :
    convDom pi dt d e (ftDom pi dt d x) = ftDom pi dt e x ∧ iftDom pi dt e (convDom pi dt d e g) = iftDom pi dt d g := by
  have hd := Dom.k_ne_zero pi dt hpi hdt d
  have he := Dom.k_ne_zero pi dt hpi hdt e
  constructor
  · simp only [convDom, ftDom, scaleE_scaleE]; congr 1; field_simp
  · simp only [convDom, iftDom, scaleE_scaleE]; congr 2; field_simp

example : (22 / 7 : Rat) ≠ 0 ∧ (3 / 2 : Rat) ≠ 0 := by norm_num

/-! ## Laplace transform on the jω axis -/

/-- FORMAL identity (term algebra; no analysis, no stability hypothesis): for a causal ExpPoly  Σ c·t^k e^{−αt}u(t)  the rational part of
    the spec spectrum at f is C09's formal unilateral Laplace transform `Lcapy.Laplace.L` (Spec/Signal.lean) of the same signal at
    s = j·2πf.  (`laplaceAt`, the formula the driver uses for the Laplace route, IS that `L`: `laplaceAt_is_L`.)  The code's guard of
    the shortcut (`sexpr.fourier`: causal and stable, else through the time domain) is not modelled; it is exercised by the
    `laplace-route` stream of the harness incl. poles ON the imaginary axis. -/
theorem fourier_is_laplace_on_jw_formal (pi f : Rat) (x : List EPTerm) :
    ratValue pi f (ft pi (x.map EPTerm.toTerm)) =
      Lcapy.Laplace.L (fun _ => (1 : CQ)) (x.map EPTerm.toLaplace) ⟨0, 2 * pi * f⟩ := by
  rw [← laplaceAt_is_L]; exact fourier_laplace_aux pi f x

/-- ANALYTIC statement, where stability is USED: for `Re α > 0` (pole in the open left half plane: absolutely integrable) and every
    order k the Fourier integral of `t^k e^{−αt}u(t)` exists and is the Laplace integral on the jω axis, `k!/(α + j2πf)^{k+1}`
    — the pair `expu k α ⟷ k!·cpole (k+1) α` of the table -/
theorem fourier_is_laplace_on_jw (k : ℕ) (al : ℂ) (f : ℝ) (hstable : 0 < al.re) :
    ∫ t : ℝ in Set.Ioi (0 : ℝ), (t : ℂ) ^ k * Complex.exp (-al * t) * Complex.exp (-((2 * Real.pi * f : ℝ) * Complex.I * t))
      = (k.factorial : ℂ) / ((2 * Real.pi * f : ℝ) * Complex.I + al) ^ (k + 1) := by
  have h := Lcapy.Laplace.anchor_complex k (-al) ((2 * Real.pi * f : ℝ) * Complex.I) (by simpa using hstable)
  rw [sub_neg_eq_add] at h
  exact h

example : 0 < ((3 : ℂ) + 4 * Complex.I).re := by simp

/-! ## inverse ∘ forward -/

/-- ph, θ, argument bookkeeping of a double transform: F{F{c e^{j2πph} e^{j2πθx} K(ax+b)}} has every term of the form
    c·q_p·q_r · e^{j2πph} e^{−j2πθx} K_r(σ(ax − b)),  σ = s_r/s_p,  (p, r) ranging over the pair table and the pair table of K_p -/
theorem ft_ft_term (pi : Rat) (t : Term) (ha : t.a ≠ 0) (hs : ∀ p ∈ ftKind pi t.k, p.s = 1 ∨ p.s = -1) :
    ft pi (ftTerm pi t) =
      (ftKind pi t.k).flatMap fun p => (ftKind pi p.k).map fun r =>
        ⟨CQ.smul (1 / rabs (p.s / t.a)) (CQ.smul (1 / rabs t.a) (t.c * p.q) * r.q), t.ph, -t.th, r.k, r.s / p.s * t.a,
          -(r.s / p.s * t.b)⟩ :=
  ft_ft_term_aux pi t ha hs

/-- the pair table is involutive up to reflection, F{F{K}}(y) = K(−y):
    even atoms with a closed structural image (rect, tri, sinc, sinc², Gaussian) return to themselves ... -/
theorem pair_table_involutive_even (pi : Rat) (k : Kind) (hk : k = .rect ∨ k = .tri ∨ k = .sinc ∨ k = .sinc2 ∨ k = .gauss) :
    ftftPairs pi k = [(1, k, 1)] ∧ k.parity = some true := pair_involutive_even pi k hk

/-- ... and t^n e^{−αt}u(t) ⟷ n!/(α+j2πf)^{n+1} return to their reflection with coefficient n!·(1/n!) = 1 -/
theorem pair_table_involutive_exp (pi : Rat) (n : Nat) (al : CQ) :
    ftftPairs pi (.expu n al) = [(1, .expu n al, -1)] ∧ ftftPairs pi (.cpole (n + 1) al) = [(1, .cpole (n + 1) al, -1)] :=
  pair_involutive_exp pi n al

/-- `inverse_forward_id` on the part of the class with a closed structural image: for
    x = c·e^{j2πph}·e^{j2πθt}·K(at+b), K one of the atoms above, ift (ft x) is x itself up to the sign-canonical form
    (for the generalised-function atoms see `ft_generalised_partial`; F12 breaks this for the code's table, not for the spec) -/
theorem inverse_forward_id_partial (pi : Rat) (t : Term) (ha : t.a ≠ 0)
    (hk : t.k = .rect ∨ t.k = .tri ∨ t.k = .sinc ∨ t.k = .sinc2 ∨ t.k = .gauss) :
    (ift pi (ftTerm pi t)).map canonT = [canonT t] :=
  inverse_forward_even pi t ha hk

/-- … on the trapezoid and its spectrum -/
theorem inverse_forward_id_trap (pi : Rat) (t : Term) (ha : t.a ≠ 0) (hk : (∃ al, t.k = .trap al) ∨ (∃ al, t.k = .sincp al)) :
    (ift pi (ftTerm pi t)).map canonT = [canonT t] := inverse_forward_trap pi t ha hk

/-- … and on the generalised-function atoms `xⁿ, δ⁽ⁿ⁾, sign, 1/x, |x|, 1/x²` (any order n, any c, phase, modulation θ, scale a ≠ 0,
    shift b).  What the formal pairing means here: `ftKind` is a table of *asserted* pairs between atoms (no integral exists for
    them); the theorem says the table is closed under Fourier inversion as an identity of the term algebra over ℚ(j)[π, π⁻¹]
    (π an indeterminate ≠ 0): transforming twice and reflecting returns the SAME term (same coefficient, phase, modulation,
    argument), i.e. F⁻¹{F{x}} = x holds on the class by computation with the table rows and the shift/scale/modulation laws.
    It is a consistency (duality) statement about the pairs the code uses, not a statement about an integral. -/
theorem inverse_forward_id_generalised (pi : Rat) (hpi : pi ≠ 0) (t : Term) (ha : t.a ≠ 0)
    (hk : (∃ n, t.k = .pw n) ∨ (∃ n, t.k = .delta n) ∨ t.k = .sgn ∨ t.k = .inv1 ∨ t.k = .absx ∨ t.k = .inv2) :
    (ift pi (ftTerm pi t)).map canonT = [canonT t] := inverse_forward_generalised pi hpi t ha hk

example : (⟨⟨2, 1⟩, 1 / 4, 3, .delta 2, -2, 1⟩ : Term).a ≠ 0 := by decide

/-- the trapezoid pair is involutive -/
theorem pair_table_involutive_trap (pi al : Rat) :
    ftftPairs pi (.trap al) = [(1, .trap al, 1)] ∧ ftftPairs pi (.sincp al) = [(1, .sincp al, 1)] := pair_involutive_trap pi al

/-! ## anchors: where an integral exists the formal pair is the integral -/

/-- the rows of `ftKind` (the table that defines `ft`) to which the analytic anchors below refer.  NOTE: the class `E` has no
    denotation map into functions ℝ → ℂ; "equals the defining integral" is carried, for these rows only, by the free-standing Mathlib
    integrals `anchor_*` (and `fourier_is_laplace_on_jw` for every order k); all other rows are formal generalised-function pairs -/
theorem anchored_rows (pi : Rat) (k : Nat) (al : CQ) :
    ftKind pi .rect = [⟨1, .sinc, 1⟩] ∧ ftKind pi .tri = [⟨1, .sinc2, 1⟩] ∧ ftKind pi .gauss = [⟨1, .gauss, 1⟩] ∧
    ftKind pi (.expu k al) = [⟨CQ.ofRat (fact k), .cpole (k + 1) al, 1⟩] := ⟨rfl, rfl, rfl, rfl⟩

/-- ∫₀^∞ e^{−αt} e^{−j2πft} dt = 1/(α + j2πf)  for Re α > 0  (pair `expu 0 α ⟷ cpole 1 α`) -/
theorem anchor_one_sided_exponential (al : ℂ) (f : ℝ) (h : 0 < al.re) :
    ∫ t in Set.Ioi (0 : ℝ), Complex.exp (-al * t) * Complex.exp (-(2 * Real.pi * f * t) * Complex.I)
      = 1 / (al + 2 * Real.pi * f * Complex.I) :=
  Anchors.one_sided_exponential al f h

/-- 𝓕{e^{−πt²}}(f) = e^{−πf²}  (pair `gauss ⟷ gauss`) -/
theorem anchor_gaussian :
    FourierTransform.fourier (fun t : ℝ => Complex.exp (-Real.pi * (t : ℂ) ^ 2)) = fun f : ℝ => Complex.exp (-Real.pi * (f : ℂ) ^ 2) :=
  Anchors.gaussian

/-- rect ⟷ sinc:  ∫_{−1/2}^{1/2} e^{−j2πft} dt = sin(πf)/(πf)   (pair `rect ⟷ sinc`) -/
theorem anchor_rect_sinc (f : ℝ) (hf : f ≠ 0) :
    ∫ t in (-(1/2) : ℝ)..(1/2), Complex.exp (-((2 * Real.pi * f : ℝ) : ℂ) * Complex.I * t)
      = ((Real.sin (Real.pi * f) / (Real.pi * f) : ℝ) : ℂ) := Anchors.rect_sinc f hf

/-- tri ⟷ sinc²:  ∫_{−1}^{1} (1 − |t|) e^{−j2πft} dt = (sin(πf)/(πf))²   (pair `tri ⟷ sinc2`) -/
theorem anchor_tri_sinc2 (f : ℝ) (hf : f ≠ 0) :
    ∫ t in (-1 : ℝ)..1, ((1 - |t| : ℝ) : ℂ) * Complex.exp (-((2 * Real.pi * f : ℝ) : ℂ) * Complex.I * t)
      = (((Real.sin (Real.pi * f) / (Real.pi * f)) ^ 2 : ℝ) : ℂ) := Anchors.tri_sinc2 f hf

/-- two-sided exponential: ∫ e^{−α|t|} e^{−j2πft} dt = 1/(α + j2πf) + 1/(α − j2πf) = 2α/(α² + (2πf)²), α > 0 — the sum of the pair
    `expu 0 α ⟷ cpole 1 α` and of its reflection, which is how the class represents e^{−α|t|} -/
theorem anchor_two_sided_exponential (al f : ℝ) (h : 0 < al) :
    ∫ t : ℝ, Complex.exp (-(al : ℂ) * ((|t| : ℝ) : ℂ)) * Complex.exp (-((2 * Real.pi * f : ℝ) : ℂ) * Complex.I * t)
      = 1 / ((al : ℂ) + ((2 * Real.pi * f : ℝ) : ℂ) * Complex.I) + 1 / ((al : ℂ) - ((2 * Real.pi * f : ℝ) : ℂ) * Complex.I) :=
  Anchors.two_sided_exponential al f h

theorem anchor_two_sided_exponential_closed (al f : ℝ) (h : 0 < al) :
    ∫ t : ℝ, Complex.exp (-(al : ℂ) * ((|t| : ℝ) : ℂ)) * Complex.exp (-((2 * Real.pi * f : ℝ) : ℂ) * Complex.I * t)
      = ((2 * al / (al ^ 2 + (2 * Real.pi * f) ^ 2) : ℝ) : ℂ) := Anchors.two_sided_exponential_closed al f h

/-- `ft_generalised_partial`: the pairs for constants, steps, signum, powers, 1/x, |x| and deltas are *formal*
    generalised-function pairs (no integral exists); what is proved about them is their mutual consistency:
    each is reflection-consistent in the code's table (`ft_table_inverse`), equal to the spec's pair
    (`ft_table_forward`), and the spec's pairs are related by duality in the evaluable cases below
    (F{F{sgn}} = sgn(−·), F{F{|·|}} = |·|, F{F{1/x}} = 1/(−x), F{F{1/x²}} = 1/x²). -/
theorem ft_generalised_partial (pi : Rat) (hpi : pi ≠ 0) :
    (⟨0, -1 / pi⟩ : CQ) * ⟨0, -pi⟩ = CQ.ofRat (-1) ∧                       -- sgn → 1/x → sgn : coefficient −1 (odd atom: sgn(−y))
    CQ.ofRat (-1 / (2 * pi * pi)) * CQ.ofRat (-2 * pi * pi) = 1 ∧            -- |x| → 1/x² → |x| : coefficient +1 (even atoms)
    (⟨0, -pi⟩ : CQ) * ⟨0, -1 / pi⟩ = CQ.ofRat (-1) ∧
    CQ.ofRat (-2 * pi * pi) * CQ.ofRat (-1 / (2 * pi * pi)) = 1 :=
  generalised_aux pi hpi

end Lcapy.C12
