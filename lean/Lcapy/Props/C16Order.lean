/-
  C16 -- hash-seed independence of `simplify` at the generated configuration.  Builds iff the
  simplify mixin never turns a set into a list without sorting it (fails while F7 is open).
-/
import Lcapy.Props.C16Tables
namespace Lcapy.C16
open Lcapy.Gen.Caches

/-- no `list(<set>)` in the simplify mixin: iteration order never depends on PYTHONHASHSEED -/
theorem no_hash_order_iteration : hashOrderSites = [] := by decide

end Lcapy.C16
