/-
  C16 -- checks of the GENERATED configuration (Lcapy/Generated/Caches.lean, rewritten from
  lcapy's source text on every run) that hold of the current code, and the instance of
  `fresh_refinement_partial` at that configuration.
-/
import Lcapy.Props.C16
import Lcapy.Props.C16Pure
import Lcapy.Generated.Caches
namespace Lcapy.C16
open Lcapy.Cache Lcapy.Gen.Caches

/-- public `add` calls `_invalidate()` -/
theorem add_invalidates : config.addInvalidates = true := by decide

/-- ... unconditionally, hence also after a multi-line `add` (for which `_add` returns None) -/
theorem add_multi_invalidates : config.addMultiInvalidates = true := by decide

/-- public `remove` calls `_invalidate()` -/
theorem remove_invalidates : config.removeInvalidates = true := by decide

/-- `Netlist.remove` detaches the component from EVERY node it has (`for node in cpt.nodes`), whatever its arity -/
theorem remove_detaches_all_nodes : config.removeSel = .all := by decide

/-- ... and so does the override branch of `_cpt_add` with the component it replaces -/
theorem override_detaches_all_nodes : config.overrideSel = .all := by decide

/-- AST scan of the whole package: no helper class that keeps a reference to a cached / memoised object of the
    netlist it was given (`cct.cg`, `cct.node_map`, `cct.components`, ...), and no netlist member, calls a mutating
    method on such an object or assigns into it -/
theorem shared_cached_objects_not_mutated : sharedMutations = [] := by decide

/-- hence no public read-only member damages a memo slot -/
theorem no_query_damages_cache : config.damages = [] := by decide

/-- the scan is not vacuous: cached objects ARE handed out by reference (`CircuitGraph` keeps `cct.node_map`) -/
example : sharedHandouts ≠ [] := by decide

/-- the grammar table read from grammar.py has components with more than two nodes (E, G, TF, TP, opamp forms) -/
example : ∃ r ∈ rules, r.1 = "E" ∧ (r.2.filter (· == "n")).length = 4 := by decide

/-- every context is given the one process-wide symbol registry (`State.new_context`), which is what the symbol
    machine of Props/C16Sym.lean assumes (`use_ignores_context`) -/
theorem contexts_share_symbols : contextsShareSymbols = true := by decide

/-- a key that occurs in a table is found by `lookup` -/
theorem lookup_isSome_of_mem_keys {α : Type} (l : List (String × α)) (k : String) (h : k ∈ l.map (·.1)) :
    (l.lookup k).isSome = true := by
  induction l with
  | nil => simp at h
  | cons x xs ih =>
    obtain ⟨a, b⟩ := x
    by_cases hk : k = a
    · subst hk; simp [List.lookup]
    · have : (k == a) = false := by simpa using hk
      simp only [List.map_cons, List.mem_cons] at h
      rcases h with h | h
      · exact absurd h hk
      · simp [List.lookup, this, ih h]

/-- the generated sub-tables are aligned with the lists of names they are made for (row k belongs to name k) -/
theorem public_rows_aligned : publicReads.map (·.1) = publicMembers ∧ memberWrites.map (·.1) = publicMembers := by
  decide +kernel

theorem harness_rows_aligned : harnessReads.map (·.1) = harnessQueries := by decide +kernel

/-- EVERY public member of the netlist classes has a row in the generated tables: its memo closure (`reads`) and the
    non-memo instance state it writes (`memberWrites`).  A member without a row would be treated as reading and writing
    nothing; with this theorem a missing row is a broken obligation. -/
theorem every_public_member_has_rows :
    ∀ m ∈ publicMembers, (config.reads.lookup m).isSome = true ∧ (memberWrites.lookup m).isSome = true := by
  intro m hm
  refine ⟨?_, ?_⟩
  · apply lookup_isSome_of_mem_keys
    show m ∈ (harnessReads ++ queryReads ++ publicReads).map (·.1)
    simp only [List.map_append, List.mem_append]
    exact Or.inr (public_rows_aligned.1 ▸ hm)
  · exact lookup_isSome_of_mem_keys _ _ (public_rows_aligned.2 ▸ hm)

/-- ... and every query the harness asks has a row: it is never silently treated as reading nothing -/
theorem harness_queries_have_rows : ∀ q ∈ harnessQueries, (config.reads.lookup q).isSome = true := by
  intro q hq
  apply lookup_isSome_of_mem_keys
  show q ∈ (harnessReads ++ queryReads ++ publicReads).map (·.1)
  simp only [List.map_append, List.mem_append]
  exact Or.inl (Or.inl (harness_rows_aligned ▸ hq))

/-- the modules of the netlist / memo layer: what computes and stores the memoised analyses -/
def netlistLayer : List String := ["netlist.py", "netlistmixin.py", "netlistopsmixin.py", "netlistsimplifymixin.py", "netfile.py",
  "mna.py", "subnetlist.py", "circuitgraph.py", "analysis.py", "components.py", "nodalanalysis.py", "loopanalysis.py",
  "statespacemaker.py", "laddernetworkmaker.py", "simulator.py", "nodes.py", "node.py", "mnacpts.py"]

/-- Over the WHOLE generated settings table: the only process-wide setting that a module of the netlist / memo layer
    reads is `config.solver_method` (netlist.py copies it into every instance at construction, `matrix.py` uses it as the
    default method).  The solver method cannot change the value of a result (C01 `solver_independent`), only the form of
    an expression; it is toggled in the oracle together with the `state.*` flags, where results are compared by value.
    Every `state.<setting>` is consulted by the expression layer only (expr.py, texpr.py, sexpr.py, current.py, ...), i.e.
    at the time an expression is built, transformed or printed.  Whether a memoised analysis is sensitive to a setting
    is decided on the real code by the toggle oracle (Props/C16Env.lean only describes the mechanism). -/
theorem netlist_layer_reads_only_solver_method :
    ∀ s ∈ settings, ∀ m ∈ s.2.2, m ∈ netlistLayer → s.1 = "config.solver_method" := by decide

/-- the `state.*` part of it, as a list of reader modules -/
theorem netlist_layer_reads_no_state_setting : ∀ m ∈ stateSettingReaders, m ∉ netlistLayer := by decide

/-- the table is not empty: the settings ARE read somewhere -/
example : "expr.py" ∈ stateSettingReaders ∧ settings.length ≥ 10 := by decide

/-- no function of the package has a mutable default argument (`def f(..., p={})`): no dictionary / list is shared by
    all calls of the process (side condition of Props/C16Alias.lean `renumber_history_independent`) -/
theorem no_mutable_default_arguments : mutableDefaults = [] := by decide

/-- no function of the package mutates an object owned by one of its arguments through an un-copied alias
    (`x = arg.attr; x.set(...)`): side condition of Props/C16Alias.lean `derivations_keep_source` -/
theorem arguments_not_mutated_through_alias : argAliasMutations = [] := by decide

/-- `_invalidate` only names members that are memoised (anything else would raise) -/
theorem cleared_are_memoised : ∀ s ∈ config.cleared, (config.kindOf s).isSome = true := by decide

/-- every memo dependency and every slot a query of the harness reads is a memoised member -/
theorem reads_are_memoised :
    (∀ p ∈ config.deps, ∀ d ∈ p.2, (config.kindOf d).isSome = true) ∧
    (∀ p ∈ harnessReads, ∀ d ∈ p.2, (config.kindOf d).isSome = true) := by decide +kernel

/-- every keyword argument a transformer class looks at also enters its cache key, with a default
    of the same truth value (otherwise a call that omits the argument and a call that passes the
    other value share a memo entry: the hypothesis of `memo_transparent` fails) -/
theorem transform_keys_complete :
    ∀ t ∈ transformers, ∀ p ∈ t.2.2, p ∈ t.2.1 := by decide

/-- slots for which history independence is claimed of the current code: everything that is
    neither uncleared nor computed (transitively) from an uncleared slot -/
def Gpartial (s : String) : Bool := Gexcl config knownUncleared s

/-- for those slots the generated configuration meets the side conditions -/
theorem partial_slots_ok : cfgOKb config Gpartial = true := by decide

/-- non-vacuity: the claimed set contains the solver caches and the cached properties -/
example : Gpartial "_subcircuits_make" = true ∧ Gpartial "Vdict" = true ∧ Gpartial "node_list" = true ∧
    Gpartial "node_map" = true ∧ Gpartial "branch_list" = true := by decide

/-- CURRENT CODE, PARTIAL: for every history of admissible operations (public, no exception, an
    `add` over an existing name only if `_cpt_add` detaches the old component), every query that
    reads only slots of `Gpartial` answers as on a freshly built circuit.
    Excluded, and covered by the oracle: queries reading `_components`, `_sim` or what is computed
    from them (`analyse`, `modified_nodal_analysis`), and overriding adds. -/
theorem fresh_refinement_partial_current (ops : List Op) (hr : RunOK config World.empty ops)
    (i : Nat) (inst : Inst) (hi : (run config World.empty ops).insts[i]? = some inst)
    (q : String) (hq : ∀ d ∈ config.readsOf q, Gpartial d = true) :
    answer config (run config World.empty ops) i q = answer config (build inst.elts) 0 q :=
  fresh_refinement_partial config Gpartial partial_slots_ok add_invalidates remove_invalidates ops hr i inst hi q hq

/-- which of the harness's queries are covered by the partial theorem -/
example : (∀ d ∈ config.readsOf "get_Vd", Gpartial d = true) ∧ (∀ d ∈ config.readsOf "get_I", Gpartial d = true) ∧
    (∀ d ∈ config.readsOf "node_list", Gpartial d = true) ∧ (∀ d ∈ config.readsOf "kinds", Gpartial d = true) := by decide

end Lcapy.C16
