/-
  C10, round 3 — more of `inverse_laplace.py` inside the model.

  * `iltQsrc`     the polynomial-part loop as written in the source (which coefficient list, which order expression:
                  flags read by tx_ilt on every run);
  * `dampedSin`   `do_damped_sin` (option `damped_sin=True`, second-order sections): ALL of its arithmetic
                  (`K`, `zeta`, `sigma1`, `omega1`, `kCd`, `kSd`, `kCdd`, `kSdd`, the three returned expressions) is
                  GENERATED from the source text by tx_ilt (Generated/ILTFlags.lean `Gen.dsRet*`), so a changed
                  coefficient breaks `damped_sin_value*` below;
  * `assumeMerge` the mutually exclusive assumptions `causal / ac / dc / unknown` (assumptions.py), through which the
                  keyword arguments of `inverse_laplace(**assumptions)` reach the transformer's `causal` switch.
-/
import Lcapy.Proofs.LaplaceDS
import Lcapy.Props.C10
import Mathlib.Data.Complex.Basic
import Mathlib.Tactic.IntervalCases
namespace Lcapy.C10
open Lcapy.Laplace

section
variable {K : Type} [Field K] (E : K → K)

/-- Polynomial part, as the source computes it: with `C = Qpoly.all_coeffs()` every coefficient `q_k` of the quotient
    becomes `q_k δ^{(k)}(t − T)`, whichever of the two recognised order expressions is used — for quotients of ANY
    degree with ANY pattern of zero coefficients.  `Gen.qCoeffsDense` is read from the source: with `coeffs()`
    (non-zero coefficients only) the `rfl` fails and this obligation breaks. -/
theorem improper_deltas_src [DecidableEq K] (T s : K) (q : Poly K) :
    Gen.qLoopTranslated = true ∧ L E (iltQsrc T q) s = E (-(s * T)) * Poly.eval q s :=
  ⟨rfl, L_iltQsrc E rfl T s q⟩

/-- `do_damped_sin`, biproper case `(b2 s² + b1 s + b0)/(a2 s² + a1 s + a0)`: the returned impulse plus damped
    sinusoid has exactly this transform, at every non-pole `s`, over any field with `j² = −1`, for any values
    `sq1`, `sq2` of the two square roots with `(sq1·sq2)² = a0/a2 − (a1/(2 a2))²` (see `damped_sin_sqrt`). -/
theorem damped_sin_value3 [DecidableEq K] {J : K} (hJ : J * J = -1) (h20 : (1 + 1 : K) ≠ 0)
    (b2 b1 b0 a2 a1 a0 sq1 sq2 T s : K) (c u : ExpPoly K)
    (h : dampedSin J [b2, b1, b0] [a2, a1, a0] sq1 sq2 T = some (c, u))
    (hb : b2 ≠ 0) (ha : a2 ≠ 0) (hsq1 : sq1 ≠ 0) (hsq2 : sq2 ≠ 0)
    (hsq : (sq1 * sq2) ^ 2 = a0 / a2 - (a1 / a2 / 2) ^ 2)
    (hden : a2 * s ^ 2 + a1 * s + a0 ≠ 0) :
    L E (c ++ u) s = E (-(s * T)) * ((b2 * s ^ 2 + b1 * s + b0) / (a2 * s ^ 2 + a1 * s + a0)) :=
  damped_sin_value3' E hJ h20 b2 b1 b0 a2 a1 a0 sq1 sq2 T s c u h hb ha hsq1 hsq2 hsq hden

/-- first-order numerator -/
theorem damped_sin_value2 [DecidableEq K] {J : K} (hJ : J * J = -1) (h20 : (1 + 1 : K) ≠ 0)
    (b1 b0 a2 a1 a0 sq1 sq2 T s : K) (c u : ExpPoly K)
    (h : dampedSin J [b1, b0] [a2, a1, a0] sq1 sq2 T = some (c, u))
    (hb : b1 ≠ 0) (ha : a2 ≠ 0) (hsq1 : sq1 ≠ 0) (hsq2 : sq2 ≠ 0)
    (hsq : (sq1 * sq2) ^ 2 = a0 / a2 - (a1 / a2 / 2) ^ 2)
    (hden : a2 * s ^ 2 + a1 * s + a0 ≠ 0) :
    L E (c ++ u) s = E (-(s * T)) * ((b1 * s + b0) / (a2 * s ^ 2 + a1 * s + a0)) :=
  damped_sin_value2' E hJ h20 b1 b0 a2 a1 a0 sq1 sq2 T s c u h hb ha hsq1 hsq2 hsq hden

/-- constant numerator -/
theorem damped_sin_value1 [DecidableEq K] {J : K} (hJ : J * J = -1) (h20 : (1 + 1 : K) ≠ 0)
    (b0 a2 a1 a0 sq1 sq2 T s : K) (c u : ExpPoly K)
    (h : dampedSin J [b0] [a2, a1, a0] sq1 sq2 T = some (c, u))
    (ha : a2 ≠ 0) (hsq1 : sq1 ≠ 0) (hsq2 : sq2 ≠ 0)
    (hsq : (sq1 * sq2) ^ 2 = a0 / a2 - (a1 / a2 / 2) ^ 2)
    (hden : a2 * s ^ 2 + a1 * s + a0 ≠ 0) :
    L E (c ++ u) s = E (-(s * T)) * (b0 / (a2 * s ^ 2 + a1 * s + a0)) :=
  damped_sin_value1' E hJ h20 b0 a2 a1 a0 sq1 sq2 T s c u h ha hsq1 hsq2 hsq hden

/-- the hypothesis on `sq1, sq2` is what genuine square roots of the arguments the SOURCE passes to `sym.sqrt`
    (`Gen.dsSqrtArg1/2`, generated) satisfy: `sq1² = d2`, `sq2² = 1 − ζ²` with `ζ = d1/(2 sq1)`. -/
theorem damped_sin_sqrt (b2 b1 b0 a2 a1 a0 sq1 sq2 : K) (ha : a2 ≠ 0) (hsq1 : sq1 ≠ 0) (h20 : (1 + 1 : K) ≠ 0)
    (h1 : sq1 * sq1 = Gen.dsSqrtArg1 (dsInput b2 b1 b0 a2 a1 a0 sq1 sq2))
    (h2 : sq2 * sq2 = Gen.dsSqrtArg2 (dsInput b2 b1 b0 a2 a1 a0 sq1 sq2)) :
    (sq1 * sq2) ^ 2 = a0 / a2 - (a1 / a2 / 2) ^ 2 := by
  have h2' : (2 : K) ≠ 0 := by rw [show (2 : K) = 1 + 1 by norm_num]; exact h20
  simp [Gen.dsSqrtArg1, Gen.dsSqrtArg2, dsInput, Gen.dsDenNormalised, ofN, pw] at h1 h2
  rw [show (sq1 * sq2) ^ 2 = (sq1 * sq1) * (sq2 * sq2) by ring, h2]
  field_simp
  rw [show sq1 ^ 2 = sq1 * sq1 by ring, h1]
  field_simp
  ring

end

section executed
variable {K : Type} [Field K] (E : K → K)

/-- THE EXECUTED SYNTHESIS (what Driver/C10.lean `ilt.model` runs and what is compared with Lcapy on every case):
    polynomial part by the source-text loop `iltQsrc`, residue loop with conjugate pairing `ratfunLoop`.  Its forward transform
    is the partial-fraction expression it was synthesised from — all data, any delay, every point that is not a listed pole.
    (`ilt_laplace` of Props/C10.lean is the same statement for the plain synthesis `ilt pf` without pairing.) -/
theorem ilt_executed_laplace [DecidableEq K] {J : K} (hJ : J * J = -1) (h20 : (1 + 1 : K) ≠ 0) (conj : K → K)
    (Q : Poly K) (R : List (K × K × Nat)) (T s : K) (ho : ∀ x ∈ R, 0 < x.2.2) (hn : ∀ x ∈ R, s - x.2.1 ≠ 0) :
    L E (iltQsrc T Q ++ ratfunLoop J conj T (R.length + 1) R) s = evalPF E ⟨Q, R, T⟩ s := by
  rw [L_append, L_iltQsrc E rfl T s Q,
    ratfun_loop_sound' E rfl hJ h20 conj T s (R.length + 1) R (Nat.le_succ _) ho hn, evalPF]
  ring

/-- … and with data accepted by the verified checker (the `(Q, R, P, O)` Lcapy really returned) the executed synthesis
    inverts the input rational function times its delay factor, wherever the denominator does not vanish -/
theorem ilt_executed_inverts [DecidableEq K] {J : K} (hJ : J * J = -1) (h20 : (1 + 1 : K) ≠ 0) (conj : K → K)
    (B A Q : Poly K) (R : List (K × K × Nat)) (cofs : List (Poly K)) (T s : K)
    (h : pfCheck B A Q R cofs = true) (ho : ∀ x ∈ R, 0 < x.2.2) (hA : Poly.eval A s ≠ 0) :
    L E (iltQsrc T Q ++ ratfunLoop J conj T (R.length + 1) R) s = E (-(s * T)) * (Poly.eval B s / Poly.eval A s) := by
  have hs := C10.pf_check_sound B A Q R cofs h s hA
  rw [ilt_executed_laplace E hJ h20 conj Q R T s ho (fun x hx => hs.2 x hx (ho x hx)), evalPF, hs.1]

end executed

section causal_output
variable {K : Type} [Field K] [LinearOrder K] [IsStrictOrderedRing K] (E : K → K)

/-- The `causal=True` output of the executed model IS a causal signal: with a non-negative delay `T` the whole result of
    `term` + `make` (polynomial part, residue loop with pairing, everything moved to the part known for all `t`, no
    `t ≥ 0` condition) satisfies `Causal`; consequently it is zero before `t = 0` (`causal_zero_before`). -/
theorem ilt_causal_output (J : K) (conj : K → K) (Q : Poly K) (R : List (K × K × Nat)) (T : K) (hT : 0 ≤ T) (hasDelay : Bool) :
    let res := makeModel true [termModel true hasDelay (iltQsrc T Q) (ratfunLoop J conj T (R.length + 1) R)]
    Causal (res.cpart ++ res.upart) ∧ res.guarded = false ∧
      ∀ t, t < 0 → evalAt E (res.cpart ++ res.upart) t = 0 := by
  intro res
  have hall : AllDelay T (res.cpart ++ res.upart) := by
    have : res.cpart ++ res.upart = iltQsrc T Q ++ ratfunLoop J conj T (R.length + 1) R := by
      cases hasDelay <;> simp [res, makeModel, termModel]
    rw [this]
    exact (allDelay_iltQsrc T Q).append (allDelay_ratfunLoop J conj T _ R)
  have hc : Causal (res.cpart ++ res.upart) := fun t ht => by rw [hall t ht]; exact hT
  exact ⟨hc, make_causal' _, fun t ht => C10.causal_zero_before E _ hc t ht⟩

/-- the same for the `damped_sin=True` route -/
theorem damped_sin_causal_output (J : K) (nc dc : List K) (sq1 sq2 T : K) (hT : 0 ≤ T) (hasDelay : Bool) (c u : ExpPoly K)
    (h : dampedSin J nc dc sq1 sq2 T = some (c, u)) :
    let res := makeModel true [termModel true hasDelay c u]
    Causal (res.cpart ++ res.upart) ∧ res.guarded = false ∧ ∀ t, t < 0 → evalAt E (res.cpart ++ res.upart) t = 0 := by
  intro res
  have hall : AllDelay T (res.cpart ++ res.upart) := by
    have : res.cpart ++ res.upart = c ++ u := by cases hasDelay <;> simp [res, makeModel, termModel]
    rw [this]; exact allDelay_dampedSin J nc dc sq1 sq2 T c u h
  have hc : Causal (res.cpart ++ res.upart) := fun t ht => by rw [hall t ht]; exact hT
  exact ⟨hc, make_causal' _, fun t ht => C10.causal_zero_before E _ hc t ht⟩

-- non-vacuity: 0 ≤ 2 over ℚ; (2s+1) + 3/(s+1)², delayed by 2
example : (0 : ℚ) ≤ 2 ∧ (iltQsrc (2 : ℚ) [1, 2] ++ ratfunLoop 0 id 2 2 [(3, -1, 2)]).length = 3 := by
  refine ⟨by norm_num, ?_⟩
  simp [iltQsrc, iltQgo, ratfunLoop, Gen.qCoeffsDense]

end causal_output

section g3
variable {K : Type} [Field K] (E : K → K)

/-- sums of differently delayed terms: `doit` inverts term by term, `term` shifts each by its own delay — for any
    number of terms, any delays, any partial-fraction data per term -/
theorem delay_sum (pfs : List (PF K)) (s : K) (ho : ∀ pf ∈ pfs, ∀ x ∈ pf.R, 0 < x.2.2) :
    L E (iltSum pfs) s = (pfs.map (fun pf => evalPF E pf s)).sum := L_iltSum E pfs s ho

/-- MODEL REMARK (bookkeeping of `term` + `make`, not a transform fact): a delayed term is multiplied by its step and put
    into the part known for all `t`; when every term of the sum is delayed nothing is left in the unilateral part and no
    `t ≥ 0` condition is attached, whatever `causal` says.  What ties the model to the code: `makeModel`'s two guard
    conditions are read from the source of `make` on every run (`Gen.makeGuardOnlyIfNotCausal`, `Gen.makeGuardOnlyIfUnilateral`;
    this proof needs the second: `rfl`), and the harness compares the model's `guarded` flag with the presence of
    `Piecewise((…, t >= 0))` in the real result for every case and option set. -/
theorem delayed_terms_unguarded [DecidableEq K] (causal : Bool) (parts : List (ExpPoly K × ExpPoly K)) :
    (makeModel causal (parts.map (fun cu => termModel causal true cu.1 cu.2))).guarded = false := by
  have : (parts.map (fun cu => termModel causal true cu.1 cu.2)).flatMap (fun x => x.2) = [] := by
    induction parts with
    | nil => rfl
    | cons x parts ih => simpa [termModel] using ih
  simp [makeModel, this, show Gen.makeGuardOnlyIfUnilateral = true from rfl]

/-- the convolution route (`F(s)·V(s)`, `V` an undefined transform): for EVERY concrete causal signal `g` put in place
    of `v`, the integral `∫₀ᵗ f(t−τ) g(τ) dτ` (upper limit `t`, the `causal=True` form) with `f` the inverse transform of
    the rational factor has the transform `F(s)·G(s)`.  (`convUpper false = Upper.inf`: see finding C10-F23.) -/
theorem convolution_entry [DecidableEq K] (hE : IsExp E) (pf : PF K) (g : ExpPoly K) (s : K)
    (ho : ∀ x ∈ pf.R, 0 < x.2.2) (hf : NonPole (ilt pf) s) (hg : NonPole g s) :
    convUpper true = Upper.t ∧ L E (convEntry (ilt pf) g) s = evalPF E pf s * L E g s := by
  refine ⟨rfl, ?_⟩
  rw [convEntry, L_conv E hE s _ _ hf hg, ilt_laplace' E pf s ho]

/-- `s^n·V(s)` (`zero_initial_conditions=False`): `v^{(n)}(t) + Σ_{m<n} v^{(m)}(0) δ^{(n−1−m)}(t)` has the transform
    `s^n G(s)`, for every regular undelayed `g` put in place of `v`, every `n` -/
theorem deriv_entry [DecidableEq K] (hE : IsExp E) (g : ExpPoly K) (s : K) (hn : NonPole g s) (hr : Regular0 g) (n : Nat) :
    L E (derivEntry false n g) s = s ^ n * L E g s := L_derivEntry E hE g s hn hr n

/-- with `zero_initial_conditions=True` the impulses are dropped: right when `v(0) = … = v^{(n−1)}(0) = 0` -/
theorem deriv_entry_zic [DecidableEq K] (hE : IsExp E) (g : ExpPoly K) (s : K) (hn : NonPole g s) (hr : Regular0 g) (n : Nat)
    (h0 : ∀ m < n, val0plus (derivCN m g) = 0) :
    L E (derivEntry true n g) s = s ^ n * L E g s := L_derivEntry_zic E hE g s hn hr n h0

-- non-vacuity: g = t e^{-2t} is regular, undelayed, and g(0) = 0
example : Regular0 [Term.ep (1 : ℚ) 1 (-2) 0] ∧ ∀ m < 1, val0plus (derivCN m [Term.ep (1 : ℚ) 1 (-2) 0]) = 0 := by
  refine ⟨⟨?_, ?_⟩, ?_⟩
  · intro t ht; simp at ht; subst ht; trivial
  · intro t ht; simp at ht; subst ht; rfl
  · intro m hm; interval_cases m; simp [derivCN, val0plus]
example : NonPole [Term.ep (1 : ℚ) 1 (-2) 0] 3 := by
  intro t ht; simp at ht; subst ht; norm_num

end g3

/-- after any sequence of `Assumptions.set` calls (any keyword arguments in any order) at most one of
    `dc / ac / causal / unknown` is present -/
theorem assumptions_exclusive (kw : List (String × Bool)) : AtMostOneExclusive (assumeMerge [] kw) :=
  assumeMerge_inv kw [] (by simp [AtMostOneExclusive])

/-- "the last one overrides": after `…, a=True` exactly `a` of the four is present; so `causal` reaches the
    transformer iff no later `ac=True` / `dc=True` follows it -/
theorem assumption_last_overrides (kw : List (String × Bool)) (a b : String)
    (ha : a ∈ exclusiveAssumptions) (hb : b ∈ exclusiveAssumptions) :
    b ∈ assumeMerge [] (kw ++ [(a, true)]) ↔ b = a := by
  rw [assumeMerge_append]; exact assumeSet_true_mem _ a b ha hb

-- non-vacuity
example : effectiveCausal [("causal", true), ("ac", false)] = true ∧ effectiveCausal [("causal", true), ("dc", true)] = false := by
  decide
open Classical in
/-- the hypotheses of `damped_sin_value3` are jointly satisfiable: `(s² + 3s + 1)/(s² + 2s + 5)` over ℂ, `ω1 = 2` -/
example : Complex.I * Complex.I = -1 ∧ (1 + 1 : ℂ) ≠ 0 ∧
    (dampedSin Complex.I [1, 3, 1] [1, 2, 5] 1 2 (0 : ℂ)).isSome = true ∧ ((1 : ℂ) * 2) ^ 2 = 5 / 1 - (2 / 1 / 2) ^ 2 := by
  refine ⟨Complex.I_mul_I, by norm_num, ?_, by norm_num⟩
  simp only [dampedSin, dsInput, Gen.dsNumNormalised, Gen.dsDenNormalised]
  norm_num

end Lcapy.C10
