/-
  PROPERTY C14 — analytic anchor for the formal sinusoid class of Spec/LawsTD.lean over ℝ:
  the pair (a, b) stands for the function t ↦ a·cos ωt + b·sin ωt, the formal `D` is its derivative, formal
  equality is equality of functions (for ω ≠ 0), and A·cos(ωt + φ), A·sin(ωt + φ) are the pairs `polar_phasor`
  (Props/C14SS.lean) uses.
-/
import Lcapy.Spec.LawsTD
import Mathlib.Analysis.SpecialFunctions.Trigonometric.Deriv
import Mathlib.Analysis.SpecialFunctions.Trigonometric.Basic
import Mathlib.Analysis.SpecialFunctions.Sqrt
import Lcapy.Model.ACConv
namespace Lcapy.C14
open Lcapy.TDS

/-- the function a formal sinusoid denotes -/
noncomputable def Sinus.fn (w : ℝ) (u : Sinus ℝ) (t : ℝ) : ℝ := u.at (Real.cos (w * t)) (Real.sin (w * t))

/-- **deriv_is_classical**: the formal derivative `D (a, b) = (ω b, −ω a)` is the derivative of
    t ↦ a cos ωt + b sin ωt at every instant. -/
theorem deriv_is_classical (w : ℝ) (u : Sinus ℝ) (t : ℝ) :
    HasDerivAt (Sinus.fn w u) (Sinus.fn w ((sinusOps w).D u) t) t := by
  have h1 : HasDerivAt (fun t : ℝ => w * t) w t := by simpa using (hasDerivAt_id t).const_mul w
  have h := (h1.cos.const_mul u.a).add (h1.sin.const_mul u.b)
  have e : Sinus.fn w ((sinusOps w).D u) t = u.a * (-Real.sin (w * t) * w) + u.b * (Real.cos (w * t) * w) := by
    simp [Sinus.fn, Sinus.at, sinusOps]; ring
  rw [e]
  exact h

/-- **formal_eq_is_pointwise**: for ω ≠ 0 a formal sinusoid vanishes at every instant only if a = b = 0, so
    equality of signals in `LawsTD (sinusOps ω)` is equality of functions of time. -/
theorem formal_eq_is_pointwise (w : ℝ) (hw : w ≠ 0) (u : Sinus ℝ) (h : ∀ t, Sinus.fn w u t = 0) : u = ⟨0, 0⟩ := by
  have h0 := h 0
  have h1 := h (Real.pi / 2 / w)
  have e : w * (Real.pi / 2 / w) = Real.pi / 2 := by field_simp
  simp only [Sinus.fn, Sinus.at, mul_zero, Real.cos_zero, Real.sin_zero, mul_one, add_zero] at h0
  simp only [Sinus.fn, Sinus.at, e, Real.cos_pi_div_two, Real.sin_pi_div_two, mul_zero, mul_one, zero_add] at h1
  cases u; simp_all

/-- **polar_is_rect**: A·cos(ωt + φ) and A·sin(ωt + φ) as formal sinusoids -/
theorem polar_is_rect (w A φ t : ℝ) :
    A * Real.cos (w * t + φ) = Sinus.fn w ⟨A * Real.cos φ, -(A * Real.sin φ)⟩ t ∧
    A * Real.sin (w * t + φ) = Sinus.fn w ⟨A * Real.sin φ, A * Real.cos φ⟩ t := by
  simp only [Sinus.fn, Sinus.at, Real.cos_add, Real.sin_add]
  constructor <;> ring

/-- the hypotheses of `rms_sound` (Props/C14Conv.lean) are satisfiable over ℝ: √2 exists, and |P| = √(re² + im²) -/
theorem rms_hypotheses_real (p : Cx ℝ) : ∃ r a : ℝ, r * r = 2 ∧ a * a = Lcapy.AC.magSq p :=
  ⟨Real.sqrt 2, Real.sqrt (Lcapy.AC.magSq p), Real.mul_self_sqrt (by norm_num),
   Real.mul_self_sqrt (add_nonneg (mul_self_nonneg _) (mul_self_nonneg _))⟩

end Lcapy.C14
