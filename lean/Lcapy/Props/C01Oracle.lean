/-
  PROPERTY C01, soundness of the ORACLE (audit finding X1, C01 part).

  The predicate that judges Lcapy's reported voltages and currents is the executable `MNA.checkLaws`
  (Spec/LawsExec.lean), run by the native driver over the checked Gaussian rationals `GQ` (division by zero is an
  error value, never 0).  `Laws`, `outflow`, `laws` are polymorphic in the carrier's operations, so they can be READ at
  the carrier `GQ` itself.  `checkLaws_ok`: the check answers `ok` exactly when the spec predicate holds at `GQ` on the
  nodes of the netlist -- every KCL sum and every law expression is DEFINED and equal to 0.  (`GQ` is not a field;
  that a defined `GQ` value equals the value of the same expression in the field ℚ(j) is the carrier-level transfer
  lemma, which is about `GQ`'s operations only and is shared by all properties.)
  Only property theorems (and the definitions they are stated with) live here.
-/
import Lcapy.Props.C01
import Lcapy.Spec.LawsExec
import Lcapy.Model.Netlist
namespace Lcapy.C01
open Lcapy Lcapy.MNA Ix

/-- `Laws` on the nodes 1 … n−1 (the nodes of the netlist; no component touches any other node) -/
def LawsUpTo {K : Type} [Add K] [Mul K] [Neg K] [Sub K] [Div K] [OfNat K 0] [OfNat K 1] [OfNat K 2]
    (n : Nat) (kind : Kind) (s : K) (cs : List (Cpt K)) (x : Ix → K) : Prop :=
  (∀ k, k < n → k ≠ 0 → lsum (cs.map (outflow kind s x k)) = 0) ∧
  (∀ c ∈ cs, ∀ p ∈ laws kind s x c, p.2 = 0)

theorem GQ.isZero_iff (a : GQ) : a.isZero = true ↔ a = 0 := by
  obtain ⟨v⟩ := a
  simp only [GQ.isZero, beq_iff_eq]
  constructor
  · intro h; subst h; show _ = (⟨some (((0 : Nat) : Rat), 0)⟩ : GQ); simp
  · intro h
    have : (⟨v⟩ : GQ) = ⟨some (((0 : Nat) : Rat), 0)⟩ := h
    simpa using congrArg GQ.v this

/-- **checkLaws_ok**: the executable oracle answers `ok` iff the spec predicate `Laws`, read at the driver's carrier,
    holds on the nodes of the netlist: all residuals are defined and zero. -/
theorem checkLaws_ok (kind : Kind) (s : GQ) (cs : List (Cpt GQ)) (x : Ix → GQ) (n : Nat) :
    checkLaws kind s cs x n = .ok ↔ LawsUpTo n kind s cs x := by
  unfold checkLaws LawsUpTo
  simp only
  cases hk : (List.range n).findSome? (fun k =>
      if k = 0 then none else
        if (lsum (cs.map (outflow kind s x k))).isZero then none
        else some (LawsVerdict.kcl k (lsum (cs.map (outflow kind s x k))))) with
  | some v =>
    obtain ⟨k, hkm, hkv⟩ := List.exists_of_findSome?_eq_some hk
    by_cases hk0 : k = 0
    · simp [hk0] at hkv
    · simp only [hk0, if_false] at hkv
      by_cases hz : (lsum (cs.map (outflow kind s x k))).isZero = true
      · simp [hz] at hkv
      · simp only [hz] at hkv
        have hv : v = LawsVerdict.kcl k (lsum (cs.map (outflow kind s x k))) := by
          simpa using hkv.symm
        subst hv
        constructor
        · intro h; cases h
        · rintro ⟨h1, _⟩
          exact absurd ((GQ.isZero_iff _).mpr (h1 k (List.mem_range.mp hkm) hk0)) hz
  | none =>
    simp only
    rw [List.findSome?_eq_none_iff] at hk
    have hkcl : ∀ k, k < n → k ≠ 0 → lsum (cs.map (outflow kind s x k)) = 0 := by
      intro k hkn hk0
      have := hk k (List.mem_range.mpr hkn)
      simp only [hk0, if_false] at this
      by_cases hz : (lsum (cs.map (outflow kind s x k))).isZero = true
      · exact (GQ.isZero_iff _).mp hz
      · simp [hz] at this
    cases hl : (cs.zipIdx).findSome? (fun (ci : Cpt GQ × Nat) =>
        (laws kind s x ci.1).findSome? (fun p => if p.2.isZero then none else some (LawsVerdict.law ci.2 p.1 p.2))) with
    | some v =>
      obtain ⟨ci, hcim, hci⟩ := List.exists_of_findSome?_eq_some hl
      obtain ⟨p, hpm, hp⟩ := List.exists_of_findSome?_eq_some hci
      by_cases hz : p.2.isZero = true
      · simp [hz] at hp
      · simp only [hz] at hp
        have hv : v = LawsVerdict.law ci.2 p.1 p.2 := by simpa using hp.symm
        subst hv
        have hc : ci.1 ∈ cs := List.mem_of_getElem? (List.mem_zipIdx_iff_getElem?.mp hcim)
        constructor
        · intro h; cases h
        · rintro ⟨_, h2⟩
          exact absurd ((GQ.isZero_iff _).mpr (h2 ci.1 hc p hpm)) hz
    | none =>
      simp only [true_iff]
      refine ⟨hkcl, ?_⟩
      rw [List.findSome?_eq_none_iff] at hl
      intro c hc p hp
      obtain ⟨i, hi⟩ := List.getElem?_of_mem hc
      have h1 := hl (c, i) (List.mem_zipIdx_iff_getElem?.mpr hi)
      rw [List.findSome?_eq_none_iff] at h1
      have h2 := h1 p hp
      by_cases hz : p.2.isZero = true
      · exact (GQ.isZero_iff _).mp hz
      · simp [hz] at h2

/-- **frontend_valok**: every netlist the front-end accepts satisfies the value guard `ValOK` of the spec (read at the
    driver's carrier): no resistance is zero -- so the oracle never judges a netlist outside the guard of `mna_iff_ohm`. -/
theorem frontend_valok (an : Netlist.Analysis) (lines : List String) (e : Netlist.Elab)
    (h : Netlist.elaborate an lines = .ok e) : ValOK (e.cpts.map (·.2)) := by
  unfold Netlist.elaborate at h
  split at h
  · cases h
  · split_ifs at h with hok
    cases h
    have hv := (Bool.and_eq_true _ _ ▸ hok).2
    simp only [Netlist.valOkB, List.all_eq_true] at hv
    intro c hc
    obtain ⟨p, hp, rfl⟩ := List.mem_map.mp hc
    have := hv p hp
    cases hc2 : p.2 <;> simp only [Cpt.valOK] <;> try trivial
    rename_i n1 n2 r
    rw [hc2] at this
    intro hr
    rw [hr] at this
    simp [(GQ.isZero_iff 0).mpr rfl] at this

def isOk : LawsVerdict → Bool
  | .ok => true
  | _ => false

/-- non-vacuity: the divider `V1 1 0 6; R1 1 2 2; R2 2 0 4` with its solution passes the executable check … -/
example : isOk (checkLaws .dc 0 ([.V 1 0 0 6, .R 1 2 2, .R 2 0 4] : List (Cpt GQ))
    (fun i => match i with | node 1 => 6 | node 2 => 4 | br 0 => -1 | _ => 0) 3) = true := by
  decide +kernel

/-- … and a zero-ohm resistor makes the residual UNDEFINED, which the check reports (it is not read as an open circuit) -/
example : isOk (checkLaws .dc 0 ([.V 1 0 0 6, .R 1 0 0] : List (Cpt GQ))
    (fun i => match i with | node 1 => 6 | _ => 0) 2) = false := by
  decide +kernel

end Lcapy.C01
