/-
  AUDIT (reviewer): non-vacuity witnesses for Props/C16Alias.lean.  Kept in a file of its own: when the audit
  started Props/C16Alias.lean and Props/C16.lean BOTH declared `Lcapy.C16.derive_keeps_source` and could not be
  imported into one module (finding, see audit/AUDIT-C.md; the owner renamed the C16Alias one to
  `derivation_keeps_source` during the audit).
-/
import Lcapy.Props.C16Alias
set_option linter.defProp false
namespace Lcapy.NonVacuity.C16Alias
open Lcapy.C16

/-! ## Props/C16Alias.lean -/
section Alias
open Lcapy.Alias

/-- a DC voltage and an unrelated AC current on the heap -/
def heap0 : Heap := ⟨[⟨false, true, false⟩, ⟨false, false, true⟩]⟩

def nv_derive_keeps_all := derive_keeps_all heap0 ⟨0⟩ true 1 (by decide)
def nv_derivation_keeps_source := derivation_keeps_source heap0 ⟨0⟩ true (by decide)
def nv_derivations_keep_source := derivations_keep_source [true, false, true] heap0 ⟨0⟩ (by decide)

end Alias

end Lcapy.NonVacuity.C16Alias
