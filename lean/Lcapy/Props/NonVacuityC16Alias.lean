/-
  AUDIT (reviewer): non-vacuity witnesses for Props/C16Alias.lean.  Kept in a file of its own because
  Props/C16Alias.lean and Props/C16.lean BOTH declare `Lcapy.C16.derive_keeps_source` and therefore can not
  be imported into one module (finding, see audit/AUDIT-C.md).
-/
import Lcapy.Props.C16Alias
set_option linter.defProp false
namespace Lcapy.NonVacuity.C16Alias
open Lcapy.C16

/-! ## Props/C16Alias.lean -/
section Alias
open Lcapy.Alias

/-- a DC voltage and an unrelated AC current on the heap -/
def heap0 : Heap := ⟨[⟨false, true, false⟩, ⟨false, false, true⟩]⟩

def nv_derive_keeps_all := derive_keeps_all heap0 ⟨0⟩ true 1 (by decide)
def nv_derive_keeps_source := derive_keeps_source heap0 ⟨0⟩ true (by decide)
def nv_derivations_keep_source := derivations_keep_source [true, false, true] heap0 ⟨0⟩ (by decide)

end Alias

end Lcapy.NonVacuity.C16Alias
