/-
  C16 -- the shared SYMBOL REGISTRY and the CONTEXT STACK (Model/SymReg.lean): what a name means to `expr()` / to a
  netlist value after any history of declarations, uses, deletions and `Circuit.add` calls of any number of circuits.

  Documented behaviour of lcapy: there is ONE symbol per name in the process; `symbol(n, **a)` replaces it; `expr()` "will
  not modify previously defined symbols with the same name" -- the first use fixes the assumptions.  So a parsing result
  legitimately depends on earlier declarations OF THE SAME NAME; the theorems say that this is the only dependence:

  * `frame`               operations that do not mention `n` (other circuits, other expressions, context switches)
                          never change what `n` means;
  * `use_result`          the answer of `expr('n', **a)` after ANY history is given by a syntactic fold over the
                          operations on `n` (`effective`), hence `fresh_like_iff`: a DECIDABLE predicate characterises
                          exactly the histories after which the answer is the fresh-process answer;
  * `unmentioned_is_fresh`, `agreeing_is_fresh`   sufficient conditions in plain words;
  * `delete_restores_fresh` / witness `delete_keeps_kind_breaks_first_wins`   `symbol_delete` (needs
                          `deleteCleansKinds`, a GENERATED flag);
  * `add_balanced`, `run_balanced` / witness `failed_add_leaks_context`       the context stack;
  * `use_ignores_context` the registry is shared by all contexts.
-/
import Lcapy.Proofs.SymReg
set_option linter.unusedVariables false
namespace Lcapy.C16
open Lcapy.SymReg

/-- what `n` means after a history = the one-name fold over the history -/
theorem view_after (cfg : Cfg) (s : St) (h : List Op) (n : String) :
    view (run cfg s h) n = effective cfg (view s n) n h := view_run cfg h s n

/-- FRAME: everything that does not mention `n` can be erased from the history -/
theorem frame (cfg : Cfg) (s : St) (h : List Op) (n : String) :
    view (run cfg s h) n = view (run cfg s (restrict h n)) n := by
  rw [view_run, view_run, effective_restrict]

/-- the answer of `expr('n', **a)` after any history -/
theorem use_result (cfg : Cfg) (s : St) (h : List Op) (n : String) (a : Assum) :
    (use (run cfg s h) n a).2 = useAnswer (effective cfg (view s n) n h) a := by
  rw [use_answer, view_run]

/-- EXACT CHARACTERISATION (decidable): the answer is the one a fresh process gives iff `freshLike` -/
theorem fresh_like_iff (cfg : Cfg) (h : List Op) (n : String) (a : Assum) :
    (use (run cfg St.init h) n a).2 = a ↔ freshLike cfg h n a = true := by
  rw [use_result]
  simp [freshLike, view, St.init, List.lookup]

/-- a name no earlier operation mentions is parsed as in a fresh process, whatever else the process has handled -/
theorem unmentioned_is_fresh (cfg : Cfg) (h : List Op) (n : String) (a : Assum)
    (hn : ∀ op ∈ h, op.mentions n = false) : (use (run cfg St.init h) n a).2 = a := by
  rw [use_result]
  have : ∀ (v : Option Assum × Option String) (h : List Op), (∀ op ∈ h, op.mentions n = false) → effective cfg v n h = v := by
    intro v h
    induction h generalizing v with
    | nil => intro _; rfl
    | cons op ops ih =>
      intro hm
      simp only [effective]
      rw [effStep_not_mentions cfg v n op (hm op (List.mem_cons_self ..))]
      exact ih v (fun o ho => hm o (List.mem_cons_of_mem _ ho))
  rw [this _ h hn]
  simp [useAnswer, view, St.init, List.lookup]

/-- operations on `n` that all carry the assumption `a` (netlist values carry the default `positive`) -/
def Op.agrees (n : String) (a : Assum) : Op → Prop
  | .declare m b => m = n → b = a
  | .use m b => m = n → b = a
  | .add _ ns _ => ns.contains n = true → a = "positive"
  | _ => True

/-- if every earlier declaration / use of `n` agrees with `a`, the answer is `a` -- also across deletions -/
theorem agreeing_is_fresh (cfg : Cfg) (h : List Op) (n : String) (a : Assum)
    (hag : ∀ op ∈ h, Op.agrees n a op) : (use (run cfg St.init h) n a).2 = a := by
  rw [use_result]
  have : ∀ (v : Option Assum × Option String) (h : List Op), (v.1 = none ∨ v.1 = some a) → (∀ op ∈ h, Op.agrees n a op) →
      ((effective cfg v n h).1 = none ∨ (effective cfg v n h).1 = some a) := by
    intro v h
    induction h generalizing v with
    | nil => intro hv _; exact hv
    | cons op ops ih =>
      intro hv hm
      simp only [effective]
      apply ih _ _ (fun o ho => hm o (List.mem_cons_of_mem _ ho))
      have hop := hm op (List.mem_cons_self ..)
      obtain ⟨v1, v2⟩ := v
      cases op with
      | declare m b =>
        simp only [effStep]
        by_cases hmn : m = n
        · simp only [hmn, if_true]; split
          · exact hv
          · right; simp only [Op.agrees] at hop; rw [hop hmn]
        · simp only [hmn, if_false]; exact hv
      | use m b =>
        simp only [effStep]
        by_cases hmn : m = n
        · simp only [hmn, if_true]
          cases v1 with
          | some c => exact hv
          | none =>
            simp only []
            split
            · exact hv
            · right; simp only [Op.agrees] at hop; rw [hop hmn]
        · simp only [hmn, if_false]; exact hv
      | delete m =>
        simp only [effStep]
        by_cases hmn : m = n
        · simp only [hmn, if_true]; left; first | rfl | trivial
        · simp only [hmn, if_false]; exact hv
      | add c ns ok =>
        simp only [effStep]
        cases hc : ns.contains n with
        | false => simp only [Bool.false_eq_true, if_false]; exact hv
        | true =>
          simp only [if_true]
          cases v1 with
          | some c => exact hv
          | none =>
            simp only []
            split
            · exact hv
            · right; simp only [Op.agrees] at hop; rw [hop hc]
      | enter c => exact hv
      | leave => exact hv
  have h0 := this (view St.init n) h (by left; simp [view, St.init, List.lookup]) hag
  rcases h0 with h0 | h0 <;> simp [useAnswer, h0]

example : (∀ op ∈ [Op.declare "Rx" "real", .add 1 ["Rx", "C"] true, .delete "Rx", .use "Rx" "real", .use "k" "positive"],
    Op.agrees "k" "positive" op) := by
  intro op hop
  simp only [List.mem_cons, List.mem_nil_iff, or_false] at hop
  rcases hop with h | h | h | h | h <;> subst h <;> simp [Op.agrees]

/-- the dependence that IS legitimate: a declaration of the same name with other assumptions decides the answer -/
theorem declaration_wins (cfg : Cfg) :
    (use (run cfg St.init [.declare "a" "real", .add 1 ["a"] true]) "a" "positive").2 = "real" ∧
    freshLike cfg [.declare "a" "real", .add 1 ["a"] true] "a" "positive" = false := by
  cases cfg with | mk d r => cases d <;> cases r <;> decide

/-- a REGISTERED name keeps its meaning across any history that neither re-declares nor deletes it: this is when a
    circuit built earlier and a circuit rebuilt from its netlist text now contain the same symbols -/
theorem stable_tail (cfg : Cfg) (s : St) (h : List Op) (n : String) (a : Assum)
    (hreg : (view s n).1 = some a) (hst : stableOver h [n] = true) : (view (run cfg s h) n).1 = some a := by
  rw [view_run]
  have : ∀ (v : Option Assum × Option String) (h : List Op), v.1 = some a → stableOver h [n] = true →
      (effective cfg v n h).1 = some a := by
    intro v h
    induction h generalizing v with
    | nil => intro hv _; exact hv
    | cons op ops ih =>
      intro hv hs
      simp only [stableOver, List.all_cons, Bool.and_eq_true, List.all_nil, Bool.and_true] at hs
      simp only [effective]
      apply ih
      · obtain ⟨v1, v2⟩ := v
        simp only at hv
        subst hv
        cases op with
        | declare m b =>
          have : ¬ m = n := by simpa [Op.rebinds] using hs.1
          simp [effStep, this]
        | use m b => simp only [effStep]; split <;> rfl
        | delete m =>
          have : ¬ m = n := by simpa [Op.rebinds] using hs.1
          simp [effStep, this]
        | add c ns ok => simp only [effStep]; split <;> rfl
        | enter c => rfl
        | leave => rfl
      · simpa [stableOver] using hs.2
  exact this _ h hreg hst

example : stableOver [Op.use "a" "real", .add 2 ["a", "b"] true, .declare "b" "complex", .delete "c"] ["a"] = true := by decide

/-! ## symbol_delete -/

/-- when deletion also forgets the kind, a deleted name is as new as in a fresh process -/
theorem delete_restores_fresh (cfg : Cfg) (hc : cfg.deleteCleansKinds = true) (s : St) (n : String) :
    view (step cfg s (.delete n)).1 n = (none, none) := by
  simp [step, delete, view, hc, lookup_drop_self]

/-- hence after `symbol_delete(n)` every history on `n` behaves as from a fresh process -/
theorem delete_resets_history (cfg : Cfg) (hc : cfg.deleteCleansKinds = true) (h h' : List Op) (n : String) (a : Assum) :
    (use (run cfg St.init (h ++ .delete n :: h')) n a).2 = (use (run cfg St.init h') n a).2 := by
  rw [use_result, use_result]
  have happ : ∀ (l1 l2 : List Op) (v : Option Assum × Option String),
      effective cfg v n (l1 ++ l2) = effective cfg (effective cfg v n l1) n l2 := by
    intro l1
    induction l1 with
    | nil => intro l2 v; rfl
    | cons op ops ih => intro l2 v; simp only [List.cons_append, effective]; exact ih _ _
  rw [happ]
  simp only [effective, effStep, if_true, hc]
  simp [view, St.init, List.lookup]

/-- the current code does NOT forget the kind (`symbol_kinds` keeps the name; `register(kind='expr')` tests
    `name in symbol_kinds`): after declare + delete, two uses with different assumptions hand out two different
    symbols of the same name, whereas in a fresh process the first use wins -/
theorem delete_keeps_kind_breaks_first_wins :
    let cfg : Cfg := ⟨false, true⟩
    answers cfg St.init [.declare "d" "real", .delete "d", .use "d" "positive", .use "d" "real"] = ["positive", "real"] ∧
    answers cfg St.init [.use "d" "positive", .use "d" "real"] = ["positive", "positive"] := by decide

/-! ## contexts -/

/-- a `Circuit.add` that completes -- or that raises, when the context is restored in a `finally` -- leaves the context
    stack as it was -/
theorem add_balanced (cfg : Cfg) (s : St) (c : Nat) (ns : List String) (ok : Bool)
    (h : ok = true ∨ cfg.restoreOnError = true) :
    (step cfg s (.add c ns ok)).1.cur = s.cur ∧ (step cfg s (.add c ns ok)).1.stack = s.stack := by
  have hb : (ok || cfg.restoreOnError) = true := by rcases h with h | h <;> simp [h]
  simp only [step, hb, if_true]
  obtain ⟨h1, h2⟩ := useAll_ctx (enter s c) ns
  unfold leave
  rw [h2]
  simp [enter]

/-- operations of the public API other than explicit context switches -/
def Op.noSwitch : Op → Prop
  | .enter _ => False
  | .leave => False
  | _ => True

theorem run_balanced (cfg : Cfg) (hr : cfg.restoreOnError = true) (h : List Op) (s : St) (hp : ∀ op ∈ h, Op.noSwitch op) :
    (run cfg s h).cur = s.cur ∧ (run cfg s h).stack = s.stack := by
  induction h generalizing s with
  | nil => exact ⟨rfl, rfl⟩
  | cons op ops ih =>
    simp only [run]
    obtain ⟨h1, h2⟩ := ih (step cfg s op).1 (fun o ho => hp o (List.mem_cons_of_mem _ ho))
    have hs : (step cfg s op).1.cur = s.cur ∧ (step cfg s op).1.stack = s.stack := by
      have hop := hp op (List.mem_cons_self ..)
      cases op with
      | declare m a => simp only [step, declare]; split <;> exact ⟨rfl, rfl⟩
      | use m a =>
        simp only [step, use]
        cases s.reg.lookup m with
        | some b => exact ⟨rfl, rfl⟩
        | none => simp only []; split <;> exact ⟨rfl, rfl⟩
      | delete m => exact ⟨rfl, rfl⟩
      | add c ns ok => exact add_balanced cfg s c ns ok (Or.inr hr)
      | enter c => exact absurd hop (by simp [Op.noSwitch])
      | leave => exact absurd hop (by simp [Op.noSwitch])
    exact ⟨h1.trans hs.1, h2.trans hs.2⟩

/-- without the `finally`, a failing `add` leaves the process in the circuit's context -/
theorem failed_add_leaks_context :
    let cfg : Cfg := ⟨true, false⟩
    (run cfg St.init [.add 7 ["Rx"] false]).cur = 7 ∧ (run cfg St.init [.add 7 ["Rx"] false]).stack = [0] := by decide

/-- the registry is shared by all contexts: the answer of a use does not depend on the current context -/
theorem use_ignores_context (s : St) (c : Nat) (k : List Nat) (n : String) (a : Assum) :
    (use { s with cur := c, stack := k } n a).2 = (use s n a).2 := by
  unfold use
  cases s.reg.lookup n with
  | some b => rfl
  | none => simp only []; split <;> rfl

end Lcapy.C16
