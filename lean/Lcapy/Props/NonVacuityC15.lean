/-
  AUDIT (reviewer, not the owner): machine-checked NON-VACUITY witnesses for Props/C15.lean, C15Mesh.lean,
  C15SS.lean.  Every `nv_*` instantiates the audited theorem on a concrete circuit / transfer function, so that
  ALL its hypotheses are proved to hold together (the examples next to the theorems discharge them one by one,
  and `Laws` of the mesh example was missing).
-/
import Lcapy.Props.C15
import Lcapy.Props.C15Mesh
import Lcapy.Props.C15SS
import Mathlib.Tactic
set_option linter.defProp false
set_option linter.unusedVariables false
namespace Lcapy.NonVacuity.C15
open Lcapy.MNA Lcapy.Formulations Lcapy.StateSpace Lcapy.SSMaker Lcapy.TDS Lcapy.C15 Ix

/-! ## nodal: `I1 1 0 dc 2; R1 1 2 3; R2 2 0 5` at its solution V1 = 16, V2 = 10, both nodes -/

theorem f13_defined : NodalDefined .dc 0 f13 := by
  intro c hc; simp [f13] at hc; rcases hc with rfl | rfl | rfl <;> simp [OkCpt]

def nv_nodal_eqs_hold_1 := nodal_eqs_hold .dc 0 f13 f13x f13_defined f13_laws 1 (by decide)
def nv_nodal_eqs_hold_2 := nodal_eqs_hold .dc 0 f13 f13x f13_defined f13_laws 2 (by decide)

/-- a Laplace-domain circuit with a voltage source, a capacitor and an inductor at s = 2:
    `V1 1 0 {10}; R1 1 2 1; C1 2 0 1/2; L1 2 0 1` -- Y_C = 1, Y_L = 1/2, V2 = 4, I_V1 = -6, I_L1 = 2 -/
def rlc : List (Cpt ℚ) := [.V 1 0 0 10, .R 1 2 1, .Cap 2 0 (1/2) none, .Ind 2 0 1 1 none []]
def rlcx : Ix → ℚ := fun i => match i with | node 1 => 10 | node 2 => 4 | br 0 => -6 | br 1 => 2 | _ => 0

theorem rlc_defined : NodalDefined .lap 2 rlc := by
  intro c hc; simp [rlc] at hc; rcases hc with rfl | rfl | rfl | rfl <;> simp [OkCpt, Formulations.indZ]

theorem rlc_laws : Laws .lap 2 rlc rlcx := by
  constructor
  · intro k hk
    match k with
    | 0 => exact absurd rfl hk
    | 1 => norm_num [rlc, rlcx, outflow, twoTerm, lsum, vd, volt, capCurrent]
    | 2 => norm_num [rlc, rlcx, outflow, twoTerm, lsum, vd, volt, capCurrent]
    | (k + 3) => simp [rlc, outflow, twoTerm, lsum]
  · intro c hc p hp
    simp [rlc] at hc
    rcases hc with rfl | rfl | rfl | rfl <;> simp [laws] at hp <;> subst hp <;>
      norm_num [rlcx, vd, volt, mutualDrop, lsum]

def nv_nodal_eqs_hold_lap_V := nodal_eqs_hold .lap 2 rlc rlcx rlc_defined rlc_laws 1 (by decide)
def nv_nodal_eqs_hold_lap_KCL := nodal_eqs_hold .lap 2 rlc rlcx rlc_defined rlc_laws 2 (by decide)

def nv_kvl_telescopes := kvl_telescopes rlcx [GNode.real 0, .real 1, .real 2, .real 1]

/-! ## mesh: `V1 1 0 6; R1 1 2 3; R2 2 0 5`, loop 0-1-2, mesh current 3/4 -/

theorem ex_defined : MeshDefined .dc (0 : ℚ) exCkt := by
  intro c hc; simp [exCkt] at hc; rcases hc with rfl | rfl | rfl <;> simp [MeshOk]

/-- the hypothesis that no adjacent example discharges: `exSol` obeys the circuit laws -/
theorem ex_laws : Laws .dc 0 exCkt exSol := by
  constructor
  · intro k hk
    match k with
    | 0 => exact absurd rfl hk
    | 1 => norm_num [exCkt, exSol, outflow, twoTerm, lsum, vd, volt]
    | 2 => norm_num [exCkt, exSol, outflow, twoTerm, lsum, vd, volt]
    | (k + 3) => simp [exCkt, outflow, twoTerm, lsum]
  · intro c hc p hp
    simp [exCkt] at hc
    rcases hc with rfl | rfl | rfl <;> simp [laws] at hp
    subst hp
    norm_num [exSol, vd, volt]

theorem exNames1 : accNames [exLoop] 1 2 = [(0, true)] := by decide
theorem exNames2 : accNames [exLoop] 2 0 = [(0, true)] := by decide

theorem ex_consistent (pe : Bool) : MeshConsistent pe .dc 0 exCkt [exLoop] exSol (fun _ => 3/4) exLoop := by
  intro ab hab idx c hc hv
  rcases exIdx ab hab idx c hc hv with ⟨rfl, rfl⟩ | ⟨rfl, rfl⟩
  · cases pe
    · simp only [meshCurrent, nodes2, exNames1, Bool.false_eq_true, if_false]
      norm_num [accCoeffs, lsum, through, exSol, vd, volt]
    · simp only [meshCurrent, nodes2, if_true, exAcc1]
      norm_num [accCoeffs, lsum, through, exSol, vd, volt]
  · cases pe
    · simp only [meshCurrent, nodes2, exNames2, Bool.false_eq_true, if_false]
      norm_num [accCoeffs, lsum, through, exSol, vd, volt]
    · simp only [meshCurrent, nodes2, if_true, exAcc2]
      norm_num [accCoeffs, lsum, through, exSol, vd, volt]

/-- the mesh equation exists (the conclusion of `mesh_eqs_hold` is not about `none`) -/
theorem ex_meshEq_isSome (pe : Bool) : (meshEq pe .dc (0 : ℚ) (buildGraph exCkt) [exLoop] exLoop).isSome = true := by
  cases pe <;> decide +kernel

def nv_mesh_eqs_hold (f : MeshForm ℚ) (hf : meshEq true .dc 0 (buildGraph exCkt) [exLoop] exLoop = some f) :=
  mesh_eqs_hold .dc 0 exCkt exSol [exLoop] (fun _ => 3/4) ex_defined ex_laws exLoop exLoop_cycle (ex_consistent true) f hf

theorem ex_nopar : ∀ e ∈ buildGraph exCkt, ∃ n, e.b = GNode.real n := by
  intro e he
  simp [buildGraph, enum, exCkt, addCpt, nodes2, hasEdge, Edge.joins, List.range, List.range.loop] at he
  rcases he with rfl | rfl | rfl <;> exact ⟨_, rfl⟩

def nv_mesh_eqs_hold_partial (f : MeshForm ℚ) (hf : meshEq false .dc 0 (buildGraph exCkt) [exLoop] exLoop = some f) :=
  mesh_eqs_hold_partial .dc 0 exCkt exSol [exLoop] (fun _ => 3/4) ex_defined ex_laws exLoop exLoop_cycle ex_nopar
    (ex_consistent false) f hf

/-! ### Props/C15Mesh.lean (the parallel-component circuit of that file) -/

theorem par_defined : MeshDefined .dc (0 : ℚ) parCkt := by
  intro c hc; simp [parCkt] at hc; rcases hc with rfl | rfl | rfl | rfl <;> simp [MeshOk]

def nv_mesh_complete :=
  mesh_complete .dc 0 parCkt parLoops parIm parCert par_defined (by simp [parCkt, owned]) parLoops_cycles parCert_ok parMeshEq

def nv_mesh_complete_consistent :=
  mesh_complete_consistent .dc 0 parCkt parLoops parIm parCert par_defined (by simp [parCkt, owned]) parLoops_cycles
    parCert_ok parMeshEq (parLoops.headD [])

def nv_mesh_iff_laws :=
  mesh_iff_laws .dc 0 parCkt parLoops parIm parCert par_defined (by simp [parCkt, owned]) parLoops_cycles parCert_ok

/-! ## state space -/

/-- the CCF of 1/(s² + 3s + 2) written out: A = [[0, 1], [-2, -3]], B = [0, 1], C = [1, 0], D = 0 -/
def sys2 : SS ℚ :=
  ⟨2, fun i j => if i = 0 then (if j = 1 then 1 else 0) else (if j = 0 then -2 else -3),
   fun i => if i = 1 then 1 else 0, fun j => if j = 0 then 1 else 0, 0⟩

theorem sys2_not_natural : ¬ IsNaturalFreq sys2 1 := by
  rintro ⟨X, ⟨i, hi, hne⟩, h⟩
  have h0 := h 0 (by decide)
  have h1 := h 1 (by decide)
  simp [sys2, sumTo] at h0 h1 hi
  have e0 : X 0 = 0 := by linarith
  have e1 : X 1 = 0 := by linarith
  interval_cases i <;> simp_all

theorem sys2_sol : StateEq sys2 1 (fun i => if i = 0 then 1/6 else if i = 1 then 1/6 else 7) := by
  intro i hi
  simp only [sys2] at hi
  interval_cases i <;> norm_num [stateRow, sys2, sumTo]

theorem sys2_solB : StateEq sys2 1 (fun i => if i < 2 then 1/6 else -3) := by
  intro i hi
  simp only [sys2] at hi
  interval_cases i <;> norm_num [stateRow, sys2, sumTo]

/-- two solutions that differ outside the order of the system: same output -/
def nv_ss_transfer := ss_output_unique sys2 1 sys2_not_natural _ _ sys2_sol sys2_solB
/-- … and the transfer value exists and is unique (owner's `ss_transfer` after audit finding F7) -/
def nv_ss_transfer_value := ss_transfer sys2 1 sys2_not_natural

theorem tf_proper : ProperTF ([3, 2, 5] : List ℚ) [2, 4, 7, 1] := by
  refine ⟨by simp, by norm_num [coef], by simp⟩

def nv_ccf_realises := ccf_realises ([3, 2, 5] : List ℚ) [2, 4, 7, 1] tf_proper
def nv_ocf_realises := ocf_realises ([3, 2, 5] : List ℚ) [2, 4, 7, 1] tf_proper
def nv_ccf_natural_freqs := ccf_natural_freqs ([3, 2, 5] : List ℚ) [2, 4, 7, 1] tf_proper (-1)

/-- the antecedent `polyEval a s ≠ 0` of `Realises` holds at s = 1 (a(1) = 14), and a has a rational root to make the
    `IsNaturalFreq` side of `ccf_natural_freqs` true: a = 2s³ + 4s² + 4s + 2 at s = -1 -/
theorem tf_regular_point : polyEval ([2, 4, 7, 1] : List ℚ) 1 ≠ 0 ∧ polyEval ([2, 4, 4, 2] : List ℚ) (-1) = 0 := by
  constructor <;> norm_num [polyEval]

/-- 1/(s² + 3s + 2) = 1/(s + 1) − 1/(s + 2) at s = 1 -/
def nv_dcf_transfer :=
  dcf_transfer_partial ([1] : List ℚ) [1, 3, 2] [-1, -2] [1, -1] 1 rfl rfl
    (by intro i hi; simp at hi; interval_cases i <;> norm_num [coef])
    (fun i => if i = 0 then 1/2 else 1/3)
    (by intro i hi; simp [dcfOf] at hi; interval_cases i <;> norm_num [stateRow, dcfOf, sumTo, coef])

/-! ### Props/C15SS.lean on `V1 1 0 {u}; R1 1 2 3; C1 2 0 4` -/

theorem rc_wf (b : Nat) (hb : b = 1) : C01.WF (subst b (fun _ => (0 : ℚ)) rcCkt) := by
  subst hb; simp [C01.WF, subst, substFrom, substC, rcCkt, owned]

theorem rc_value : ∀ c ∈ rcCkt, ValueOk c := by
  intro c hc; simp [rcCkt] at hc; rcases hc with rfl | rfl | rfl <;> simp [ValueOk]

theorem rc_timeok : ∀ c ∈ rcCkt, TimeOk 1 c := by
  intro c hc; simp [rcCkt] at hc; rcases hc with rfl | rfl | rfl <;> simp [TimeOk, brRefs]

theorem nv_ss_from_circuit : ∃ M, ssModel rcSolver rcCkt = some M ∧ ∀ w dv yv yi : Nat → ℚ,
    StateSpaceHolds M rcCkt [1, 2] w dv yv yi ↔ CircuitHolds M.base rcCkt [1, 2] w dv yv yi := by
  obtain ⟨M, hM, hb⟩ := rc_model
  exact ⟨M, hM, ss_from_circuit rcSolver rcCkt [1, 2] M hM (rc_wf _ hb) rc_value (hb ▸ rc_nonsingular)⟩

def nv_ss_time_domain :=
  ss_time_domain (T := Unit) 1 (fun _ => fun _ => (0 : ℚ)) rcCkt rc_timeok rcConst (fun _ _ => 5)

theorem rc_const_laws : LawsTD (fnOps (fun _ => fun _ => (0 : ℚ))) (withWaveFrom (fun _ _ => 5) 0 rcCkt) rcConst := by
  constructor
  · intro k hk
    funext t
    match k with
    | 0 => exact absurd rfl hk
    | 1 => norm_num [rcCkt, withWaveFrom, sumS, outflowS, twoTermS, vdS, voltS, fnOps, rcConst]
    | 2 => norm_num [rcCkt, withWaveFrom, sumS, outflowS, twoTermS, vdS, voltS, fnOps, rcConst]
    | (k + 3) => simp [rcCkt, withWaveFrom, sumS, outflowS, twoTermS, fnOps]
  · intro c hc q hq
    simp [rcCkt, withWaveFrom] at hc
    rcases hc with rfl | rfl | rfl <;> simp [lawsS] at hq
    subst hq
    funext t
    norm_num [vdS, voltS, fnOps, rcConst]

theorem nv_ss_along_solutions : ∃ M, ssModel rcSolver rcCkt = some M ∧
    (∀ pc ∈ enumFrom 0 rcCkt, role pc.2 = .ind ∨ role pc.2 = .cap →
        stateDeriv (fun _ => fun _ => (0 : ℚ)) rcConst () pc.2 =
          ssValue (dotx M.base pc.1 pc.2) M rcCkt (wAt rcCkt rcConst (fun _ _ => 5) ())) ∧
    (∀ k ∈ [1, 2], volt (fun i => rcConst i ()) k = ssValue (outV k) M rcCkt (wAt rcCkt rcConst (fun _ _ => 5) ())) := by
  obtain ⟨M, hM, hb⟩ := rc_model
  exact ⟨M, hM, ss_along_solutions rcSolver rcCkt [1, 2] M hM (rc_wf _ hb) rc_value (hb ▸ rc_nonsingular)
    (hb ▸ rc_timeok) _ rcConst (fun _ _ => 5) rc_const_laws ()⟩

end Lcapy.NonVacuity.C15
