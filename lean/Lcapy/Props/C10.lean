/-
  C10 — the inverse Laplace transform inverts the forward transform and respects causality.

  `ilt` (Model/ILT.lean) mirrors the synthesis in `InverseLaplaceTransformer.ratfun` (+ `delay_factor`),
  `conjPair` its conjugate-pair formulas, `termModel/makeModel` the causal / `t ≥ 0` bookkeeping of `term` and
  `UnilateralInverseTransformer.make`; `pfCheck` is the verified checker applied, on every run, to the
  `(Q, R, P, O)` data that `Ratfun.as_QRPO` really returns.  `L` is the formal forward transform of C09
  (Spec/Signal.lean), anchored to the integral there.
-/
import Lcapy.Proofs.Laplace
import Lcapy.Proofs.LaplaceILT
import Mathlib.Algebra.Order.Field.Basic
import Mathlib.Tactic.Linarith
namespace Lcapy.C10
open Lcapy.Laplace

section
variable {K : Type} [Field K] (E : K → K)

/-- Round trip: the forward transform of the synthesised time function is the partial-fraction expression
    it was synthesised from — for all partial-fraction data (any number of poles, any orders, polynomial part
    of any degree, any delay), at every non-pole point.  (`0 < o`: `as_QRPO` numbers orders from 1.)
    This is the PLAIN synthesis `ilt pf`; the synthesis the driver executes (source-text polynomial loop + conjugate pairing)
    has the same statement as `ilt_executed_laplace` / `ilt_executed_inverts` in Props/C10b.lean. -/
theorem ilt_laplace (pf : PF K) (s : K) (ho : ∀ x ∈ pf.R, 0 < x.2.2) :
    L E (ilt pf) s = evalPF E pf s := ilt_laplace' E pf s ho

/-- Soundness of the partial-fraction checker: if it accepts `(Q, R, P, O)` (with any candidate cofactors) then
    `B(s)/A(s) = Q(s) + Σ r_i/(s−p_i)^{o_i}` wherever `A(s) ≠ 0`, and no such `s` is one of the listed poles. -/
theorem pf_check_sound [DecidableEq K] (B A Q : Poly K) (R : List (K × K × Nat)) (cofs : List (Poly K))
    (h : pfCheck B A Q R cofs = true) (s : K) (hA : Poly.eval A s ≠ 0) :
    Poly.eval B s / Poly.eval A s = Poly.eval Q s + sumPF R s ∧
    (∀ x ∈ R, 0 < x.2.2 → s - x.2.1 ≠ 0) := by
  refine ⟨pf_check_sound' B A Q R cofs h s hA, ?_⟩
  simp only [pfCheck, Bool.and_eq_true] at h
  exact pf_check_nonpole A s hA R cofs h.1

/-- consequently: checked data + synthesis = the input rational function times the delay factor -/
theorem ilt_inverts [DecidableEq K] (B A : Poly K) (pf : PF K) (cofs : List (Poly K))
    (h : pfCheck B A pf.Q pf.R cofs = true) (ho : ∀ x ∈ pf.R, 0 < x.2.2) (s : K) (hA : Poly.eval A s ≠ 0) :
    L E (ilt pf) s = E (-(s * pf.T)) * (Poly.eval B s / Poly.eval A s) := by
  rw [ilt_laplace E pf s ho, evalPF, (pf_check_sound B A pf.Q pf.R cofs h s hA).1]

/-- improper rational functions: the polynomial part becomes Dirac deltas and their derivatives -/
theorem improper_deltas (T s : K) (q : Poly K) :
    L E (iltQ T 0 q) s = E (-(s * T)) * Poly.eval q s := by
  rw [L_iltQ]; ring

/-- a delay factor `e^{−sT}` shifts the response -/
theorem delay_shift (hE : IsExp E) (Q : Poly K) (R : List (K × K × Nat)) (T s : K) (ho : ∀ x ∈ R, 0 < x.2.2) :
    L E (ilt ⟨Q, R, T⟩) s = E (-(s * T)) * L E (ilt ⟨Q, R, 0⟩) s := by
  rw [ilt_laplace E _ s ho, ilt_laplace E _ s ho]
  simp [evalPF, hE.zero]

/-- the conjugate-pair branch (`Ac cos ωt + As sin ωt) e^{−αt}` with the code's `Ac, As, α, ω`) replaces exactly the
    two partial fractions `r/(s−p) + rc/(s−pc)`; over any field with `j² = −1`, `2 ≠ 0`. -/
theorem conj_pair_combine [DecidableEq K] {J : K} (hJ : J * J = -1) (h20 : (1 + 1 : K) ≠ 0)
    (r rc p pc T s : K) (hp : p ≠ pc) (h1 : s - p ≠ 0) (h2 : s - pc ≠ 0) :
    L E (conjPair J r rc p pc T) s = E (-(s * T)) * (r / (s - p) + rc / (s - pc)) :=
  conj_pair_combine' E hJ h20 r rc p pc T s hp h1 h2

/-- The whole residue loop of `ratfun` (conjugate partners searched among the later entries, combined by
    `conjPair`, everything else synthesised directly) has the transform `e^{−sT} Σ r/(s−p)^o`, for all residue lists.
    Depends on the GENERATED flag `Gen.conjPartnerMustBeSimple` (tx_ilt reads the partner filter from the source text):
    with the unfiltered search of finding F21 the `rfl` below fails and this obligation breaks. -/
theorem ratfun_loop_sound [DecidableEq K] {J : K} (hJ : J * J = -1) (h20 : (1 + 1 : K) ≠ 0) (conj : K → K) (T s : K)
    (R : List (K × K × Nat)) (ho : ∀ x ∈ R, 0 < x.2.2) (hn : ∀ x ∈ R, s - x.2.1 ≠ 0) :
    L E (ratfunLoop J conj T (R.length + 1) R) s = E (-(s * T)) * sumPF R s :=
  ratfun_loop_sound' E rfl hJ h20 conj T s (R.length + 1) R (Nat.le_succ _) ho hn

/-- residues by substitution, two distinct simple poles (`_find_residues_sub`): `r_i = B(p_i)/Π_{j≠i}(p_i − p_j)`.
    PARTIAL: stated for two poles and a numerator of degree ≤ 1; the general (n poles, repeated poles with the
    derivative formula) statement is replaced by running `pfCheck` on the data of every generated case. -/
theorem residue_sub_simple_partial (b0 b1 p q s : K) (hpq : p ≠ q) (h1 : s - p ≠ 0) (h2 : s - q ≠ 0) :
    (b0 + b1 * s) / ((s - p) * (s - q))
      = ((b0 + b1 * p) / (p - q)) / (s - p) + ((b0 + b1 * q) / (q - p)) / (s - q) := by
  have : p - q ≠ 0 := sub_ne_zero.mpr hpq
  have : q - p ≠ 0 := sub_ne_zero.mpr (Ne.symm hpq)
  field_simp; ring

/-- MODEL REMARK (bookkeeping, not a transform fact).  `make`: not causal and a non-empty unilateral part ⇒ the result
    carries the `t ≥ 0` condition.  `makeModel` is three lines; what makes this more than its own definition is the tie:
    its two guard conditions are READ FROM THE SOURCE of `UnilateralInverseTransformer.make` on every run (tx_ilt:
    `Gen.makeGuardOnlyIfNotCausal`, `Gen.makeGuardOnlyIfUnilateral`), and the harness compares the model's `guarded` flag with
    the presence of `Piecewise((…, t >= 0))` in Lcapy's result for every generated case and option set; the spec oracle
    (guard / causal flags of the REAL result) does not use the model. -/
theorem make_guard [DecidableEq K] (parts : List (ExpPoly K × ExpPoly K))
    (h : ∃ x ∈ parts, x.2 ≠ []) : (makeModel false parts).guarded = true := make_guard' parts h

/-- MODEL REMARK.  With `causal=True` nothing is left in the unilateral part and no condition is attached (needs the generated
    flag `Gen.makeGuardOnlyIfNotCausal = true`: the `if not kwargs.get('causal', False)` of the source).  That the causal output
    really is a causal signal, hence zero before `t = 0`, is `ilt_causal_output` (Props/C10b.lean). -/
theorem make_causal [DecidableEq K] (hasDelay : Bool) (c u : ExpPoly K) (parts : List (ExpPoly K × ExpPoly K)) :
    (termModel true hasDelay c u).2 = [] ∧ (makeModel true parts).guarded = false :=
  ⟨termModel_causal hasDelay c u, make_causal' parts⟩

/-- initial value: `s·F(s) = f(0⁺) + L{f'}(s)` for an undelayed signal without impulses (`f'` the classical
    derivative, again without impulses), so `f(0⁺) = lim_{s→∞} s F(s)`. -/
theorem initial_value_identity [DecidableEq K] (hE : IsExp E) (f : ExpPoly K) (s : K) (hn : NonPole f s)
    (hd : NoDelta f) (h0 : ∀ t ∈ f, t.delayOf = 0) :
    s * L E f s = val0plus f + L E ((deriv f).filter (fun t => match t with | .ep _ _ _ _ => true | .dl _ _ _ => false)) s := by
  rw [← L_deriv E s f hn]
  induction f with
  | nil => simp [deriv, val0plus]
  | cons t f ih =>
    have ih' := ih (NonPole.cons hn).2 (fun x hx => hd x (by simp [hx])) (fun x hx => h0 x (by simp [hx]))
    simp only [deriv, List.flatMap_cons, L_append, List.filter_append] at ih' ⊢
    rw [ih']
    cases t with
    | dl c n d => exact absurd (hd (.dl c n d) (by simp)) (by simp)
    | ep c k p d =>
      have hd0 : d = 0 := h0 (.ep c k p d) (by simp)
      subst hd0
      cases k with
      | zero => simp [Term.deriv, val0plus, List.filter, Term.L, pw, hE.zero]; ring
      | succ k => simp [Term.deriv, val0plus, List.filter]; ring

/-- final value: `s·F(s) = (sum of the step coefficients) + s·L{rest}(s)`; when every pole at the origin is
    simple, `0` is not a pole of `rest`, so `lim_{s→0} s F(s)` is the sum of the step coefficients `valInf f`. -/
theorem final_value_identity [DecidableEq K] (hE : IsExp E) (f : ExpPoly K) (s : K) (hs : s ≠ 0)
    (h0 : ∀ t ∈ f, t.delayOf = 0) :
    s * L E f s = valInf f + s * L E (f.filter (fun t => match t with
        | .ep _ 0 p _ => decide (p ≠ 0) | _ => true)) s := by
  induction f with
  | nil => simp [valInf]
  | cons t f ih =>
    have ih' := ih (fun x hx => h0 x (by simp [hx]))
    cases t with
    | dl c n d => simp [valInf, List.filter, mul_add, ih']; ring
    | ep c k p d =>
      have hd0 : d = 0 := h0 (.ep c k p d) (by simp)
      subst hd0
      cases k with
      | succ k => simp [valInf, List.filter, mul_add, ih']; ring
      | zero =>
        by_cases hp : p = 0
        · subst hp
          simp [valInf, List.filter, mul_add, ih', Term.L, pw, hE.zero]
          field_simp; ring
        · simp [valInf, List.filter, hp, mul_add, ih']; ring

end

/-! ### the result cache is keyed on every option that influences the result
   (tables GENERATED by tx_ilt from the source text of `InverseLaplaceTransformer.key`, of the other methods of the class
   and of `UnilateralInverseTransformer`; complete finite tables, decided outright) -/

/-- every option the inverse transformer reads from `kwargs` is a component of the cache key -/
theorem ilt_key_complete : Gen.keyTranslated = true ∧ ∀ o ∈ Gen.readOptions, o ∈ Gen.keyOptions := by decide

/-- … and `key` uses the same default as every place that reads the option (otherwise "option omitted" and
    "option given with its default" would be cached apart or, worse, together with the other value) -/
theorem ilt_key_defaults_agree : ∀ od ∈ Gen.readOptionDefaults, od ∈ Gen.keyOptionDefaults := by decide

section ordered
variable {K : Type} [Field K] [LinearOrder K] [IsStrictOrderedRing K] (E : K → K)

/-- a causal result (all delays ≥ 0, every regular term multiplied by its step) is zero before `t = 0`; that the model's
    `causal=True` output satisfies `Causal` is proved as `ilt_causal_output` / `damped_sin_causal_output` (Props/C10b.lean) -/
theorem causal_zero_before (f : ExpPoly K) (hc : Causal f) (t : K) (ht : t < 0) : evalAt E f t = 0 := by
  induction f with
  | nil => rfl
  | cons x f ih =>
    have ih' := ih (fun y hy => hc y (by simp [hy]))
    simp only [evalAt, ih', add_zero]
    cases x with
    | dl c n d => rfl
    | ep c k p d =>
      have hd : (0 : K) ≤ d := hc (.ep c k p d) (by simp)
      have : ¬ d ≤ t := by intro h; linarith
      simp [Term.at, this]

-- non-vacuity
example : Causal [Term.ep (1 : ℚ) 0 (-1) 2, Term.dl 1 1 0] := by
  intro t ht; simp at ht; rcases ht with rfl | rfl <;> simp [Term.delayOf]
example : pfCheck (K := ℚ) [1] [2, 3, 1] [] [(1, -1, 1), (-1, -2, 1)] [[2, 1], [1, 1]] = true := by
  norm_num [pfCheck, checkCofs, sumCof, Poly.eqv, Poly.mul, Poly.add, Poly.smul, Poly.linPow]
end ordered

end Lcapy.C10
