/-
  PROPERTY C11 (continued) -- the remaining re-formatting methods keep the value.

  Same objects as Props/C11.lean (`R : RF K`, `R.value env`, expression trees).  The methods covered here are
  the ones Lcapy implements in lcapy/expr.py / lcapy/utils.py on top of `Ratfun`:
  `coeffs`, `normcoeffs`, `Ratfun.coeffs`, `ba`, `degree`, `Ndegree`, `Ddegree`, `is_strictly_proper`,
  `as_N_D(monic_denominator=True)`, `divide_top_and_bottom`, `multiply_top_and_bottom` (any factor expression),
  `rationalize_denominator`, `recippartfrac`, `simplify_factors`, `simplify_terms`, `expandcanonical` (enumeration
  order), the multiplicity dictionaries of `poles()` / `zeros()` and their `aslist=True` form.

  Every name, operator and index the source uses (which coefficient normalises, which polynomial a degree is taken
  of, what each side is divided by, which substitution is applied …) is read from the source text on every run
  into Lcapy/Generated/RatfunFmtSrc.lean (harness/translate/tx_ratfun.py, `scan_fmt`); the theorems below are
  stated FOR THOSE CONSTANTS, so they fail to build when the source changes meaning.  The parameter-generic
  lemmas are in Lcapy/Proofs/PolyRatfunFmt.lean.  All statements hold over every field, for polynomials of every
  degree (list induction; no size bound).
-/
import Lcapy.Proofs.PolyRatfunFmt
import Lcapy.Generated.RatfunSrc
import Lcapy.Generated.RatfunFmtSrc
import Mathlib.Tactic.NormNum
namespace Lcapy.C11b
open Lcapy Lcapy.Poly Lcapy.Ratfun Lcapy.RatfunFmt Lcapy.Gen.RatfunSrc Lcapy.Gen.RatfunFmtSrc
variable {K : Type} [Field K] [DecidableEq K]
set_option linter.unusedSimpArgs false
set_option linter.unusedVariables false
set_option linter.unusedSectionVars false

/-- `exp` at the sample point behaves like an exponential (as in Props/C11.lean) -/
def IsExp (env : Env K) : Prop := env.E 0 = 1 ∧ ∀ a b, env.E (a + b) = env.E a * env.E b

def envQ : Env ℚ := ⟨2, fun _ => 1, 5⟩
example : IsExp envQ := ⟨rfl, fun _ _ => by simp [envQ]⟩
/-- `(3x² + 5x + 1)/(2x² + 6x + 4) · exp(−3x) · U(x)` -/
def exQ : RF ℚ := ⟨[1, 5, 3], [4, 6, 2], 3, 1⟩

/-! ## 1. Coefficient lists -/

/-- **coeffs_value**: `all_coeffs()` (highest power first, `[0]` for the zero polynomial) re-assembles to the
    polynomial at every point. -/
theorem coeffs_value (p : List K) (x : K) : evalHigh (allCoeffs p) x = Poly.eval p x :=
  evalHigh_allCoeffs p x

/-- the list has `degree + 1` entries -/
theorem coeffs_length (p : List K) (hp : lc p ≠ 0) : (allCoeffs p).length = degree p + 1 :=
  length_allCoeffs hp
example : lc ([4, 6, 2] : List ℚ) ≠ 0 := by decide +kernel

/-- **normcoeffs_value**: dividing by the coefficient the SOURCE selects (`c[normIdx]`) gives a list whose
    polynomial, multiplied by the leading coefficient, is the original polynomial … -/
theorem normcoeffs_value (p : List K) (hp : lc p ≠ 0) (x : K) :
    lc p * evalHigh (normCoeffs normIdx p) x = Poly.eval p x :=
  normCoeffs_value hp x

/-- … and whose highest coefficient is 1 ("normalized so the highest power is 1"). -/
theorem normcoeffs_monic (p : List K) (hp : lc p ≠ 0) : (normCoeffs normIdx p).head? = some 1 :=
  normCoeffs_head hp

/-- error branch: the zero polynomial has `all_coeffs() = [0]`; the normalisation divides by zero
    (an error value in the driver; SymPy returns `nan`). -/
theorem normcoeffs_zero (p : List K) (hp : lc p = 0) : allCoeffs p = [0] := by
  simp [allCoeffs, (lc_eq_zero_iff p).1 hp]
example : lc ([0, 0] : List ℚ) = 0 := by decide +kernel

/-! ## 2. Multiplying / dividing top and bottom -/

/-- **divide_top_and_bottom_value**: with the sides and operators as the source has them
    (`N = (self.N / factor).expand()`, `D = (self.D / factor).expand()`, `return N / D`), for ANY factor expression
    that does not vanish at the point. -/
theorem divide_top_and_bottom_value (R : RF K) (f : RExpr K) (env : Env K) (hE : IsExp env)
    (hf : f.eval env ≠ 0) :
    ∃ e, topBottom dtbNumer dtbDenom dtbReturn R f = some e ∧ e.eval env = R.value env :=
  topBottom_div_value R f env hE.1 hf
example : (RExpr.var : RExpr ℚ).eval envQ ≠ 0 := by norm_num [RExpr.eval, envQ]

/-- **multiply_top_and_bottom_src_value**: the same for `multiply_top_and_bottom` (sides read from the source) -/
theorem multiply_top_and_bottom_src_value (R : RF K) (f : RExpr K) (env : Env K) (hE : IsExp env)
    (hf : f.eval env ≠ 0) :
    ∃ e, topBottom mtbNumer mtbDenom mtbReturn R f = some e ∧ e.eval env = R.value env :=
  topBottom_mul_value R f env hE.1 hf

/-! ## 3. `Ratfun.coeffs`, `Expr.ba` -/

/-- **ratfun_coeffs_value**: `Ratfun.coeffs()` returns (numerator list, denominator list) in that order,
    each re-assembling to its polynomial. -/
theorem ratfun_coeffs_value (R : RF K) :
    ∃ b a, RatfunFmt.rfCoeffs Gen.RatfunFmtSrc.rfCoeffs R = some (b, a) ∧
      ∀ x, evalHigh b x = Poly.eval R.B x ∧ evalHigh a x = Poly.eval R.A x :=
  rfCoeffs_value R

/-- **ba_value**: the normalised lists `b, a` (both divided by `a[baIdx]`, the leading denominator coefficient)
    describe the same rational function and `a` starts with 1. -/
theorem ba_value (R : RF K) (hA : lc R.A ≠ 0) :
    ∃ b a, ba baA baB baIdx R = some (b, a) ∧
      (∀ x, evalHigh b x / evalHigh a x = Poly.eval R.B x / Poly.eval R.A x) ∧ a.head? = some 1 :=
  RatfunFmt.ba_value R hA
example : lc exQ.A ≠ 0 := by decide +kernel

/-! ## 4. Degrees (`−∞` for the zero polynomial, as SymPy) -/

/- The four statements below are TABLE CHECKS: `rfl` on the constants generated from the source text (which polynomial
   `Ndegree` / `Ddegree` read, the function and arguments of `degree`, the comparison of `is_strictly_proper`).  They are
   regression guards that pin the regenerated table to the specification, not consequences of anything; what a degree MEANS is
   proved in `degree_is_highest_power`, `degree_neg_inf`, `degree_is_root_count`, `strictly_proper_no_quotient`. -/

/-- table check (rfl on the generated constant), not a consequence: `Ndegree` reads the numerator `B` … -/
theorem Ndegree_table (R : RF K) : propNamed ndegreeArg ddegreeArg R "Ndegree" = some (sdegree R.B) := rfl
/-- table check (rfl on the generated constant), not a consequence: … `Ddegree` reads the denominator `A` … -/
theorem Ddegree_table (R : RF K) : propNamed ndegreeArg ddegreeArg R "Ddegree" = some (sdegree R.A) := rfl
/-- table check (rfl on the generated constants), not a consequence: … `degree` is `max` of the two … -/
theorem degree_table (R : RF K) :
    rfDegree degreeFn degreeArgs R = some (Deg.max (sdegree R.B) (sdegree R.A)) := rfl
/-- table check (rfl on the generated constants), not a consequence: … and `is_strictly_proper` compares `deg B < deg A`. -/
theorem strictly_proper_table (R : RF K) :
    isStrictlyProper ndegreeArg ddegreeArg sproper R = some (Deg.lt (sdegree R.B) (sdegree R.A)) := rfl

/-- **strictly_proper_no_quotient**: for a strictly proper function the long division of `as_QMA` (hence
    `standard()`, `partfrac()`) has the zero polynomial as quotient and the numerator as remainder. -/
theorem strictly_proper_no_quotient (R : RF K) (hA : lc R.A ≠ 0)
    (h : isStrictlyProper ndegreeArg ddegreeArg sproper R = some true) (x : K) :
    Poly.eval (asQMA R).1 x = 0 ∧ Poly.eval (asQMA R).2.1 x = Poly.eval R.B x :=
  strictlyProper_quotient R hA (by rw [strictly_proper_table R] at h; exact Option.some.inj h) x
example : isStrictlyProper ndegreeArg ddegreeArg sproper (⟨[1, 5], [4, 6, 2], 0, 0⟩ : RF ℚ) = some true := by
  decide +kernel

/-- **degree_is_highest_power**: a finite degree `n` is the index of the last non-zero coefficient … -/
theorem degree_is_highest_power (p : List K) (n : Nat) (h : sdegree p = .fin n) :
    p.getD n 0 ≠ 0 ∧ ∀ m, n < m → p.getD m 0 = 0 := sdegree_fin h
example : sdegree ([4, 6, 2, 0] : List ℚ) = .fin 2 := by decide +kernel

/-- … and `−∞` means the polynomial vanishes identically (every coefficient, hence every value). -/
theorem degree_neg_inf (p : List K) (h : sdegree p = .negInf) :
    (∀ m, p.getD m 0 = 0) ∧ ∀ x, Poly.eval p x = 0 :=
  ⟨sdegree_negInf h, sdegree_negInf_eval h⟩
example : sdegree ([0, 0] : List ℚ) = .negInf := by decide +kernel

/-- the multiplicities of a checked root table add up to the degree reported by `Ndegree` / `Ddegree` -/
theorem degree_is_root_count (A : List K) (roots : List (K × Nat)) (h : rootsCheck A roots = true)
    (hA : lc A ≠ 0) : sdegree A = .fin (roots.map (fun rn => rn.2)).sum := by
  rw [sdegree_eq_degree hA, rootsCheck_degree h hA]
example : rootsCheck ([4, 6, 2] : List ℚ) [(-1, 1), (-2, 1)] = true := by decide +kernel

/-! ## 5. `as_N_D(monic_denominator=True)`, `expandcanonical` -/

/-- **as_N_D_monic_value**: `D = Dpoly.monic()`, `N = N / Dpoly.LC()` (names read from lcapy/utils.py);
    `N` carries the delay and undefined factors. -/
theorem as_N_D_monic_value (R : RF K) (env : Env K) (hE : IsExp env) (hA : Poly.eval R.A env.x ≠ 0) :
    ∃ n d, asNDMonic ndMonicDiv ndMonicD R = some (n, d) ∧ n.eval env / d.eval env = R.value env :=
  asNDMonic_value R env hE.1 hA
example : Poly.eval exQ.A envQ.x ≠ 0 := by norm_num [exQ, envQ, Poly.eval]

/-- **expandcanonical_src_value**: with the enumeration order (`reversed(all_coeffs())` = low power first) and the
    divisor of every term as the source has them; stated at non-pole points (`hA`), since every term is divided by `A`. -/
theorem expandcanonical_src_value (R : RF K) (env : Env K) (hE : IsExp env) (hA : Poly.eval R.A env.x ≠ 0) :
    ∃ e, expandcanonicalSrc (sgn expandcanonicalSign) ecReversed ecDen R = some e ∧ e.eval env = R.value env :=
  expandcanonicalSrc_value R env (Or.inl (by simp [sgn, expandcanonicalSign])) hE.1
example : Poly.eval exQ.A envQ.x ≠ 0 := by norm_num [exQ, envQ, Poly.eval]

/-- **expand_response_value** (`expand_response()`, `as_sum()`): the numerator expanded into terms, each over the
    polynomial denominator; stated at non-pole points (`hA`) — at a pole both sides would agree only through `x/0 = 0`. -/
theorem expand_response_value (R : RF K) (env : Env K) (hE : IsExp env) (hA : Poly.eval R.A env.x ≠ 0) :
    (expandResponse R).eval env = R.value env :=
  expandResponse_value R env hE.1
example : Poly.eval exQ.A envQ.x ≠ 0 := by norm_num [exQ, envQ, Poly.eval]

/-! ## 5b. `canonical` with the unit-factor branches of the code -/

/-- **canonical_fc_branches_value**: `canonical(factor_const=True)` as the code builds it — `1/D` omitted when `D == 1`, the
    gain prefix `K` (gain · delay factor) folded in only `if K != 1`, the undefined factor attached where the SOURCE attaches it
    (`canonFCUndefAt`, read by the translator: "top" = unconditionally).  Covers the branch gain = 1, no delay, undefined factor
    present, where an attachment under the `K != 1` test would drop the factor. -/
theorem canonical_fc_branches_value (R : RF K) (env : Env K) (hE : IsExp env) (hA : Poly.eval R.A env.x ≠ 0) :
    (canonicalBr (sgn canonicalFCSign) true canonFCSkip canonFCUndefAt R).eval env = R.value env :=
  canonicalBr_fc_value R env (Or.inl (by simp [sgn, canonicalFCSign])) hE.1 hA
/-- `(x² + 3x + 2)/(x² + 7x + 12) · U(x)`: unit gain, no delay, an undefined factor — the `K == 1` branch -/
def exU : RF ℚ := ⟨[2, 3, 1], [12, 7, 1], 0, 1⟩
example : Poly.eval exU.A envQ.x ≠ 0 := by norm_num [exU, envQ, Poly.eval]
example : (decide (exU.delay = 0) && eqConst (lc exU.B / lc exU.A) 1) = true := by decide +kernel

/-- **canonical_branches_value**: `canonical(factor_const=False)` with `if D == 1` / `if N == 1` and the undefined factor
    attached where the source attaches it. -/
theorem canonical_branches_value (R : RF K) (env : Env K) (hE : IsExp env) (hA : Poly.eval R.A env.x ≠ 0) :
    (canonicalBr (sgn canonicalSign) false canonSkip canonUndefAt R).eval env = R.value env :=
  canonicalBr_value R env (Or.inl (by simp [sgn, canonicalSign])) hE.1 hA
/-- `1/(x + 3) · U(x)`: the `N == 1` branch -/
example : polyIsConst (smul (1 / lc ([3, 1] : List ℚ)) ([1] : List ℚ)) 1 = true := by decide +kernel
example : Poly.eval ([3, 1] : List ℚ) envQ.x ≠ 0 := by norm_num [envQ, Poly.eval]

/-! ## 6. `simplify_factors`, `simplify_terms`: the loops around SymPy's simplifier

  `simp` stands for `sympy.simplify`; what is assumed of it is only that it keeps the value AT THE POINT
  (judged per case by the oracle).  The theorems say that the loops use every factor / term exactly once. -/

theorem simplify_factors_value (simp : RExpr K → RExpr K) (env : Env K)
    (hs : ∀ e, (simp e).eval env = e.eval env) (fs : List (RExpr K)) (hne : fs ≠ []) :
    ∃ e, simplifyFactors sfInit sfFrom sfOp simp fs = some e ∧
      e.eval env = (fs.map (fun e => e.eval env)).prod :=
  simplifyFactors_value simp env hs fs hne

theorem simplify_terms_value (simp : RExpr K → RExpr K) (env : Env K)
    (hs : ∀ e, (simp e).eval env = e.eval env) (ts : List (RExpr K)) :
    ∃ e, simplifyTerms stInit stOp simp ts = some e ∧ e.eval env = (ts.map (fun e => e.eval env)).sum :=
  simplifyTerms_value simp env hs ts
example : ∀ e : RExpr ℚ, (id e).eval envQ = e.eval envQ := fun _ => rfl
example : rfFactors exQ ≠ [] := by simp [rfFactors]

/-- the factors / terms the driver runs the loops on have the value of the expression (at non-pole points, `hA`) -/
theorem factors_of_expression (R : RF K) (env : Env K) (hE : IsExp env) (hA : Poly.eval R.A env.x ≠ 0) :
    ((rfFactors R).map (fun e => e.eval env)).prod = R.value env ∧
    ((rfTerms R R.B 0).map (fun e => e.eval env)).sum = R.value env := by
  refine ⟨rfFactors_value R env hE.1, ?_⟩
  rw [rfTerms_value R R.B 0 env hE.1, RF.value]; simp

/-! ## 7. `recippartfrac`: partial fractions in the reciprocal variable -/

/-- **recippartfrac_value**: substitute `var = 1/q` (`recipRF`: reversed coefficient lists), expand with data that
    pass `pfCheck` FOR THE SUBSTITUTED FUNCTION, substitute `q = 1/var` back: the value is unchanged wherever
    `var ≠ 0` and the denominator does not vanish.  (With a delay factor `Ratfun(...)` raises: the model answers `none`.) -/
theorem recippartfrac_value (R : RF K) (Q : List K) (poles : List (K × Nat)) (terms : List (K × K × Nat))
    (env : Env K) (hE : IsExp env) (hd : R.delay = 0) (hx : env.x ≠ 0) (hA : Poly.eval R.A env.x ≠ 0)
    (hc : pfCheck (recipRF R).B (recipRF R).A Q poles terms = true) :
    ∃ e env', recippartfrac (sgn partfracSign) recipIn recipOut R Q terms env = some (e, env') ∧
      e.eval env' = R.value env :=
  recippartfrac_value_gen R Q poles terms env hE.1 hd hx hA hc
/-- `(3x² + 5x + 1)/(2x² + 6x + 4)`: in `q = 1/x` it is `(q² + 5q + 3)/(4q² + 6q + 2) = 1/4 + (1/2)/(q + 1) + (3/8)/(q + 1/2)` -/
def exR : RF ℚ := ⟨[1, 5, 3], [4, 6, 2], 0, 0⟩
example : pfCheck (recipRF exR).B (recipRF exR).A [1/4] [(-1, 1), (-1/2, 1)] [(1/2, -1, 1), (3/8, -1/2, 1)] = true := by
  decide +kernel

example : exR.delay = 0 := rfl
example : envQ.x ≠ 0 := by norm_num [envQ]
example : Poly.eval exR.A envQ.x ≠ 0 := by norm_num [exR, envQ, Poly.eval]

/-- error branch: with a delay the method has no result -/
theorem recippartfrac_delay (R : RF K) (Q : List K) (terms : List (K × K × Nat)) (env : Env K) (σ : K)
    (hd : R.delay ≠ 0) : recippartfrac σ recipIn recipOut R Q terms env = none := by
  simp [recippartfrac, hd]
example : exQ.delay ≠ 0 := by norm_num [exQ]

/-! ## 8. `rationalize_denominator` (complex coefficients, real variable ω or f) -/

/-- **rationalize_denominator_value**: `Nnew = N·conj(D)`, `Dnew = (Re D)² + (Im D)²` (a REAL polynomial, second
    claim); the quotient `q = Nnew/Dnew` satisfies `q · D = N` in complex arithmetic on pairs, at every real point where
    `|D|² ≠ 0`.  Attribute names, exponents and the operator are read from the source. -/
theorem rationalize_denominator_value (N D : CP K) (x : K)
    (h : Poly.eval D.re x ^ 2 + Poly.eval D.im x ^ 2 ≠ 0) :
    ∃ r, rationalize rdMult rdParts rdPows rdOp rdReturn N D = some r ∧
      Poly.eval r.2 x = Poly.eval D.re x ^ 2 + Poly.eval D.im x ^ 2 ∧
      cmul (rationalizeValue r x) (D.eval x) = N.eval x :=
  rationalize_value N D x h
/-- `D(ω) = 4 − ω² + 2jω` at `ω = 2` -/
example : Poly.eval ([4, 0, -1] : List ℚ) 2 ^ 2 + Poly.eval ([0, 2] : List ℚ) 2 ^ 2 ≠ 0 := by norm_num [Poly.eval]

/-! ## 9. Multiplicity dictionaries of `poles()` / `zeros()` -/

/-- **poles_dict_value**: the merging loop (`polesdict[key] += pole.n`) keeps the product `Π (x − r)^n` and the
    total multiplicity, and its keys are distinct (it is a dictionary). -/
theorem poles_dict_value (l : List (K × Nat)) :
    ∃ d, mergeRoots polesMerge l = some d ∧
      (∀ x, (d.map (fun rn => (x - rn.1) ^ rn.2)).prod = (l.map (fun rn => (x - rn.1) ^ rn.2)).prod) ∧
      (d.map (fun rn => rn.2)).sum = (l.map (fun rn => rn.2)).sum ∧ (d.map (fun rn => rn.1)).Nodup :=
  mergeRoots_spec l

/-- **poles_dict_sound**: merging a table that passes `rootsCheck` gives a dictionary that still factorises the
    polynomial and whose multiplicities add up to the degree. -/
theorem poles_dict_sound (A : List K) (l : List (K × Nat)) (h : rootsCheck A l = true) (hA : lc A ≠ 0) :
    ∃ d, mergeRoots polesMerge l = some d ∧
      (∀ x, Poly.eval A x = lc A * (d.map (fun rn => (x - rn.1) ^ rn.2)).prod) ∧
      (d.map (fun rn => rn.2)).sum = degree A ∧ (d.map (fun rn => rn.1)).Nodup := by
  obtain ⟨d, h1, h2, h3, h4⟩ := mergeRoots_spec l
  refine ⟨d, h1, fun x => ?_, ?_, h4⟩
  · have := h2 x
    simp only [rootsValue] at this
    rw [this]; exact rootsCheck_eval h x
  · rw [h3]; exact rootsCheck_degree h hA
example : rootsCheck ([2, 5, 4, 1] : List ℚ) [(-1, 1), (-2, 1), (-1, 1)] = true := by decide +kernel
example : lc ([2, 5, 4, 1] : List ℚ) ≠ 0 := by decide +kernel

/-- **roots_aslist_value**: the `aslist=True` form repeats every root by its multiplicity: same product, and the
    length is the total multiplicity. -/
theorem roots_aslist_value (l : List (K × Nat)) :
    ∃ rs, rootsAsList listRepeat l = some rs ∧
      (∀ x, (rs.map (fun r => x - r)).prod = (l.map (fun rn => (x - rn.1) ^ rn.2)).prod) ∧
      rs.length = (l.map (fun rn => rn.2)).sum :=
  rootsAsList_spec l

end Lcapy.C11b
